(* K1, stage 2: bundles whose doc actions come first and whose calc deltas (formula recalculation) follow,
   flushed at the end -- the shape of an ordinary bundle (user actions, then Engine._bring_all_up_to_date, then
   ActionGroup.flush_calc_changes).  Proofs about the ActionSummary: which cells it treats as created in the
   bundle, and that the restores it emits at the flush undo the calc deltas. *)
From Coq Require Import ZArith List Bool Lia.
Import ListNotations.
Require Import Grist.Model.ActionLog Grist.Proofs.ActionLog_proofs.
Open Scope Z_scope.

Ltac name_cases a b :=
  let E := fresh "E" in
  destruct (name_eqb a b) eqn:E;
  [apply name_eqb_eq in E | pose proof (proj1 (name_eqb_neq _ _) E)].

(* ------------------------------------------------------------------------------------------------ *)
(* LabelRenames as an association list *)

Lemma ren_get_del : forall m k k', ren_get (ren_del m k) k' = if name_eqb k' k then None else ren_get m k'.
Proof.
  induction m as [|[k0 v0] m IH]; intros k k'; cbn.
  - destruct (name_eqb k' k); reflexivity.
  - name_cases k k0.
    + subst k0. rewrite IH. name_cases k' k; reflexivity.
    + cbn. name_cases k' k0.
      * subst k'. assert (name_eqb k0 k = false) as -> by (apply name_eqb_neq; congruence). reflexivity.
      * apply IH.
Qed.

Lemma ren_get_set : forall m k v k', ren_get (ren_set m k v) k' = if name_eqb k' k then Some v else ren_get m k'.
Proof.
  intros m k v k'. unfold ren_set. cbn. rewrite ren_get_del. destruct (name_eqb k' k); reflexivity.
Qed.

Lemma ren_get_add_rename_new : forall m b k after,
  ren_get (add_rename m b after) k =
  if name_eqb k after then
    Some (match b with
          | None => None
          | Some x => match ren_get m x with Some o => o | None => Some x end
          end)
  else match b with
       | Some x => if name_eqb k x then (match ren_get m x with Some _ => None | None => ren_get m k end) else ren_get m k
       | None => ren_get m k
       end.
Proof.
  intros m b k after. unfold add_rename. destruct b as [x|].
  - destruct (ren_get m x) as [o|] eqn:Ex.
    + rewrite ren_get_set, ren_get_del. destruct (name_eqb k after); [reflexivity|]. destruct (name_eqb k x); reflexivity.
    + rewrite ren_get_set. destruct (name_eqb k after); [reflexivity|].
      name_cases k x; [subst; reflexivity | reflexivity].
  - rewrite ren_get_set. reflexivity.
Qed.

Lemma root_name_not_defunct : forall n, is_defunct n = false -> root_name n = n.
Proof.
  intros [|x n] H; [reflexivity|]. unfold is_defunct, root_name in *.
  destruct x as [|p|p]; try reflexivity.
  do 6 (destruct p as [p|p|]; try reflexivity; try discriminate).
Qed.

Section Calc.
Variable O : ValOps.
Hypothesis L : ValLaws O.
Notation V := (V O).
Notation state := (state O).
Notation table := (table O).
Notation column := (column O).
Notation action := (action O).
Notation summary := (summary O).

(* ------------------------------------------------------------------------------------------------ *)
(* the summary's table entries and presence maps *)

Lemma pres_get_set : forall m r b r', pres_get (pres_set m r b) r' = if Z.eqb r' r then Some b else pres_get m r'.
Proof. intros. unfold pres_set. cbn. reflexivity. Qed.

Lemma pres_get_setdefault : forall m r b r',
  pres_get (pres_setdefault m r b) r' =
  match pres_get m r' with Some x => Some x | None => if Z.eqb r' r then Some b else None end.
Proof.
  intros m r b r'. unfold pres_setdefault. destruct (pres_get m r) eqn:E.
  - destruct (pres_get m r') eqn:E'; [reflexivity|]. destruct (Z.eqb_spec r' r); [subst; congruence | reflexivity].
  - cbn. destruct (Z.eqb_spec r' r); [subst; rewrite E; reflexivity|]. destruct (pres_get m r'); reflexivity.
Qed.

(* after add_records / remove_records for a list of rows *)
Definition mark (b_before b_after : bool) (d : tdelta O) (r : Z) : tdelta O :=
  mkTD O (pres_setdefault (td_before O d) r b_before) (pres_set (td_after O d) r b_after) (td_colren O d) (td_deltas O d).

Lemma mark_fold_before : forall bb ba rows d r,
  pres_get (td_before O (fold_left (mark bb ba) rows d)) r =
  match pres_get (td_before O d) r with Some x => Some x | None => if zmem r rows then Some bb else None end.
Proof.
  intros bb ba rows. induction rows as [|r0 rows IH]; intros d r; cbn.
  - destruct (pres_get (td_before O d) r); reflexivity.
  - rewrite IH. cbn [mark td_before]. rewrite pres_get_setdefault.
    destruct (pres_get (td_before O d) r); [reflexivity|].
    destruct (Z.eqb r r0); destruct (zmem r rows); reflexivity.
Qed.

Lemma mark_fold_after : forall bb ba rows d r,
  pres_get (td_after O (fold_left (mark bb ba) rows d)) r =
  if zmem r rows then Some ba else pres_get (td_after O d) r.
Proof.
  intros bb ba rows. induction rows as [|r0 rows IH]; intros d r; cbn; [reflexivity|].
  rewrite IH. cbn [mark td_after]. rewrite pres_get_set.
  destruct (Z.eqb r r0); destruct (zmem r rows); reflexivity.
Qed.

Lemma mark_fold_colren : forall bb ba rows d, td_colren O (fold_left (mark bb ba) rows d) = td_colren O d.
Proof. intros bb ba rows. induction rows as [|r0 rows IH]; intro d; cbn; [reflexivity|]. rewrite IH. reflexivity. Qed.

Lemma mark_fold_deltas : forall bb ba rows d, td_deltas O (fold_left (mark bb ba) rows d) = td_deltas O d.
Proof. intros bb ba rows. induction rows as [|r0 rows IH]; intro d; cbn; [reflexivity|]. rewrite IH. reflexivity. Qed.

Lemma td_find_with_table : forall (sm : summary) t d t',
  td_find O (sm_tables O (with_table O sm t d)) t' = if name_eqb t' t then Some d else td_find O (sm_tables O sm) t'.
Proof.
  intros sm t d t'. unfold with_table. cbn [sm_tables]. rewrite td_find_put, td_find_del.
  destruct (name_eqb t' t); reflexivity.
Qed.

(* ------------------------------------------------------------------------------------------------ *)
(* cells the summary treats as created in the bundle: no undo restore is emitted for them *)

Definition created (sm : summary) : cellset :=
  fun t c r =>
    sum_is_created O sm t c = true \/
    exists td, td_find O (sm_tables O sm) t = Some td /\ pres_get (td_before O td) r = Some false.

Definition existing (s : state) (t c : name) (r : Z) : Prop :=
  exists T C, find_table O s t = Some T /\ find_col O (t_cols O T) c = Some C /\ In r (t_rows O T).

Lemma seq_ex_restrict : forall (X Y : cellset) s1 s2,
  seq_ex O X s1 s2 -> (forall t c r, existing s1 t c r -> X t c r -> Y t c r) -> seq_ex O Y s1 s2.
Proof.
  intros X Y s1 s2 H HXY t. specialize (H t).
  destruct (find_table O s1 t) as [T1|] eqn:E1, (find_table O s2 t) as [T2|] eqn:E2; cbn in *; try tauto.
  destruct H as [Hr Hc]. split; [exact Hr|]. intro c. specialize (Hc c).
  destruct (find_col O (t_cols O T1) c) as [C1|] eqn:Ec1, (find_col O (t_cols O T2) c) as [C2|] eqn:Ec2; cbn in *; try tauto.
  destruct Hc as [Hi Hcells]. split; [exact Hi|]. intros r Hin.
  destruct (Hcells r Hin) as [Hx|Hx]; [left | right; exact Hx].
  apply HXY; [|exact Hx]. exists T1, C1. auto.
Qed.

Lemma existing_seq : forall X s1 s2 t c r, seq_ex O X s1 s2 -> existing s1 t c r -> existing s2 t c r.
Proof.
  intros X s1 s2 t c r H [T1 [C1 [Hf [Hc Hr]]]].
  destruct (seq_ex_find O X s1 s2 t T1 H Hf) as [T2 [Hf2 Hrel]].
  destruct (tab_rel_find_col O X t T1 T2 c C1 Hrel Hc) as [C2 [Hc2 _]].
  exists T2, C2. split; [exact Hf2|]. split; [exact Hc2|]. apply (proj1 Hrel). exact Hr.
Qed.


(* ------------------------------------------------------------------------------------------------ *)
(* what each summary call does to the three sources of `created` and to the `after` presence map *)

Definition tab_created (sm : summary) (t : name) : bool := ren_is_created (sm_tabren O sm) t.
Definition col_created (sm : summary) (t c : name) : bool :=
  match td_find O (sm_tables O sm) t with Some d => ren_is_created (td_colren O d) c | None => false end.
Definition row_before (sm : summary) (t : name) (r : Z) : option bool :=
  match td_find O (sm_tables O sm) t with Some d => pres_get (td_before O d) r | None => None end.
Definition row_after (sm : summary) (t : name) (r : Z) : option bool :=
  match td_find O (sm_tables O sm) t with Some d => pres_get (td_after O d) r | None => None end.

Lemma created_iff : forall sm t c r,
  created sm t c r <-> (tab_created sm t = true \/ col_created sm t c = true \/ row_before sm t r = Some false).
Proof.
  intros sm t c r. unfold created, sum_is_created, tab_created, col_created, row_before.
  destruct (td_find O (sm_tables O sm) t) as [d|]; split.
  - intros [H|[td [Ht Hb]]]; [apply orb_true_iff in H; tauto | inversion Ht; subst; tauto].
  - intros [H|[H|H]]; [left; rewrite H; reflexivity | left; rewrite H; apply orb_true_r | right; eauto].
  - intros [H|[td [Ht Hb]]]; [apply orb_true_iff in H; destruct H; [tauto | discriminate] | discriminate].
  - intros [H|[H|H]]; [left; rewrite H; reflexivity | discriminate | discriminate].
Qed.

Lemma for_table_colren_created : forall (sm : summary) t c,
  ren_is_created (td_colren O (for_table O sm t)) c = col_created sm t c.
Proof. intros sm t c. unfold for_table, col_created. destruct (td_find O (sm_tables O sm) t); reflexivity. Qed.

Lemma for_table_before : forall (sm : summary) t r, pres_get (td_before O (for_table O sm t)) r = row_before sm t r.
Proof. intros sm t r. unfold for_table, row_before. destruct (td_find O (sm_tables O sm) t); reflexivity. Qed.

Lemma for_table_after : forall (sm : summary) t r, pres_get (td_after O (for_table O sm t)) r = row_after sm t r.
Proof. intros sm t r. unfold for_table, row_after. destruct (td_find O (sm_tables O sm) t); reflexivity. Qed.

(* SAddRecords / SRemoveRecords *)
Lemma sum_mark_spec : forall (sm : summary) t rows bb ba,
  let sm' := with_table O sm t (fold_left (mark bb ba) rows (for_table O sm t)) in
  (forall t', tab_created sm' t' = tab_created sm t') /\
  (forall t' c, col_created sm' t' c = col_created sm t' c) /\
  (forall t' r, row_before sm' t' r =
                if name_eqb t' t then match row_before sm t r with Some x => Some x
                                                                   | None => if zmem r rows then Some bb else None end
                else row_before sm t' r) /\
  (forall t' r, row_after sm' t' r =
                if name_eqb t' t then (if zmem r rows then Some ba else row_after sm t r) else row_after sm t' r) /\
  (forall t', td_find O (sm_tables O sm') t' <> None <-> (t' = t \/ td_find O (sm_tables O sm) t' <> None)).
Proof.
  intros sm t rows bb ba sm'. unfold sm'. repeat split.
  - intros t' c. unfold col_created. rewrite td_find_with_table. name_cases t' t; [|reflexivity].
    subst t'. rewrite mark_fold_colren. apply for_table_colren_created.
  - intros t' r. unfold row_before at 1. rewrite td_find_with_table. name_cases t' t; [|reflexivity].
    rewrite mark_fold_before, for_table_before. reflexivity.
  - intros t' r. unfold row_after at 1. rewrite td_find_with_table. name_cases t' t; [|reflexivity].
    rewrite mark_fold_after, for_table_after. reflexivity.
  - rewrite td_find_with_table. name_cases t' t; [left; exact E | right; assumption].
  - rewrite td_find_with_table. intros [->|H]; [rewrite name_eqb_refl; discriminate|].
    destruct (name_eqb t' t); [discriminate | exact H].
Qed.

(* SRenameColumn *)
Lemma sum_rencol_spec : forall (sm : summary) t old new,
  let sm' := sum_apply O sm (SRenameColumn O t old new) in
  (forall t', tab_created sm' t' = tab_created sm t') /\
  (forall t' c, col_created sm' t' c =
                if name_eqb t' t then ren_is_created (add_rename (td_colren O (for_table O sm t)) old new) c
                else col_created sm t' c) /\
  (forall t' r, row_before sm' t' r = row_before sm t' r) /\
  (forall t' r, row_after sm' t' r = row_after sm t' r) /\
  (forall t', td_find O (sm_tables O sm') t' <> None <-> (t' = t \/ td_find O (sm_tables O sm) t' <> None)).
Proof.
  intros sm t old new sm'. unfold sm'. cbn [sum_apply]. repeat split.
  - intros t' c. unfold col_created at 1. rewrite td_find_with_table. name_cases t' t; reflexivity.
  - intros t' r. unfold row_before at 1. rewrite td_find_with_table. name_cases t' t; [|reflexivity].
    subst t'. cbn [td_before]. apply for_table_before.
  - intros t' r. unfold row_after at 1. rewrite td_find_with_table. name_cases t' t; [|reflexivity].
    subst t'. cbn [td_after]. apply for_table_after.
  - rewrite td_find_with_table. name_cases t' t; [left; exact E | right; assumption].
  - rewrite td_find_with_table. intros [->|H]; [rewrite name_eqb_refl; discriminate|].
    destruct (name_eqb t' t); [discriminate | exact H].
Qed.

(* SRenameTable *)
Lemma sum_rentab_spec : forall (sm : summary) old new,
  let sm' := sum_apply O sm (SRenameTable O old new) in
  (forall t', tab_created sm' t' = ren_is_created (add_rename (sm_tabren O sm) old new) t') /\
  (forall t', td_find O (sm_tables O sm') t' =
              match old with
              | Some o => match td_find O (sm_tables O sm) o with
                          | Some d => if name_eqb t' new then Some d else if name_eqb t' o then None else td_find O (sm_tables O sm) t'
                          | None => td_find O (sm_tables O sm) t'
                          end
              | None => td_find O (sm_tables O sm) t'
              end).
Proof.
  intros sm old new sm'. unfold sm'. cbn [sum_apply]. split; [reflexivity|].
  intro t'. cbn [sm_tables]. destruct old as [o|]; [|reflexivity].
  destruct (td_find O (sm_tables O sm) o) as [d|]; [|reflexivity].
  rewrite td_find_put, !td_find_del. destruct (name_eqb t' new); [reflexivity|]. destruct (name_eqb t' o); reflexivity.
Qed.


(* ------------------------------------------------------------------------------------------------ *)
(* names: the '-' prefix is reserved for defunct entries of the summary *)

Definition names_ok (s : state) : Prop :=
  forall t T, find_table O s t = Some T ->
    is_defunct t = false /\ forall c C, find_col O (t_cols O T) c = Some C -> is_defunct c = false.

Definition act_names_ok (a : action) : Prop :=
  match a with
  | AddTable _ t cols => is_defunct t = false /\ forallb (fun ci => negb (is_defunct (fst ci))) cols = true
  | RenameTable _ _ new => is_defunct new = false
  | AddColumn _ _ c _ => is_defunct c = false
  | RenameColumn _ _ _ new => is_defunct new = false
  | _ => True
  end.

Lemma defunct_name_is_defunct : forall n, is_defunct (defunct_name n) = true.
Proof. reflexivity. Qed.

Lemma not_defunct_neq : forall n m, is_defunct n = false -> n <> defunct_name m.
Proof. intros n m H E. subst n. discriminate. Qed.

Definition keys_ok (s : state) (sm : summary) : Prop :=
  forall t, td_find O (sm_tables O sm) t <> None -> find_table O s t <> None \/ is_defunct t = true.

Lemma ren_is_created_get : forall m k, ren_is_created m k = match ren_get m k with Some None => true | _ => false end.
Proof. reflexivity. Qed.

(* the cells of the document BEFORE a doc action that the summary AFTER it would treat as created (seen through the
   undo of the action) were already treated as created before *)
Lemma sig_step : forall a s s' u ops sm,
  names_ok s -> keys_ok s sm ->
  apply_doc O a s = Ok (s', (u, ops)) -> (forall t c r, ~ lossy O a s t c r) -> act_names_ok a ->
  forall t c r, existing s t c r ->
    img_list O (rev u) (created (fold_left (sum_apply O) ops sm)) t c r -> created sm t c r.
Proof.
  intros a s s' u ops sm Hnames Hkeys H Hloss Hact t0 c0 r0 [T0 [C0 [Hft0 [Hfc0 Hr0]]]].
  destruct (Hnames _ _ Hft0) as [Hndt0 Hndc0]. specialize (Hndc0 _ _ Hfc0).
  destruct a; unfold apply_doc in H.
  - (* BulkAddRecord *)
    destruct (find_table O s t) as [T|] eqn:Ef; [|discriminate]. destruct (_ || _); [discriminate|].
    destruct (none_in rows (t_rows O T)) eqn:Enone; cbn [negb] in H; [|discriminate].
    destruct (add_records O T rows cols); cbn in H; [|discriminate]. inversion H; subst s' u ops; clear H.
    cbn [rev app img_list img fold_left sum_apply].
    pose proof (sum_mark_spec sm t rows false true) as [Ht [Hc [Hb _]]]. cbv zeta in Ht, Hc, Hb.
    rewrite !created_iff. change (fun (d : tdelta O) (r : Z) => mkTD O (pres_setdefault (td_before O d) r false) (pres_set (td_after O d) r true) (td_colren O d) (td_deltas O d)) with (mark false true).
    rewrite Ht, Hc, Hb. intros [Hx|[Hx|Hx]]; [tauto | tauto|]. right. right.
    name_cases t0 t; [|exact Hx]. subst t0. destruct (row_before sm t r0); [exact Hx|].
    destruct (zmem r0 rows) eqn:Ez; [|discriminate]. exfalso.
    assert (T0 = T) by congruence. subst T0.
    apply (proj1 (none_in_iff _ _) Enone r0); [apply zmem_In; exact Ez | exact Hr0].
  - (* BulkRemoveRecord *)
    destruct (find_table O s t) as [T|] eqn:Ef; [|discriminate].
    destruct (filter (fun r => zmem r (t_rows O T)) rows) as [|r1 rows1] eqn:Er.
    + inversion H; subst s' u ops; clear H. cbn. tauto.
    + rewrite <- Er in H. inversion H; subst s' u ops; clear H.
      cbn [rev app img_list img fold_left sum_apply].
      pose proof (sum_mark_spec sm t (filter (fun r => zmem r (t_rows O T)) rows) true false) as [Ht [Hc [Hb _]]].
      cbv zeta in Ht, Hc, Hb. rewrite !created_iff.
      change (fun (d : tdelta O) (r : Z) => mkTD O (pres_setdefault (td_before O d) r true) (pres_set (td_after O d) r false) (td_colren O d) (td_deltas O d)) with (mark true false).
      rewrite Ht, Hc, Hb. intros [Hx|[Hx|Hx]]; [tauto | tauto|]. right. right.
      name_cases t0 t; [|exact Hx]. subst t0. destruct (row_before sm t r0); [exact Hx|].
      destruct (zmem r0 _); discriminate.
  - (* BulkUpdateRecord *)
    destruct (find_table O s t); [|discriminate]. destruct (_ || _); [discriminate|].
    destruct (negb _); [discriminate|]. destruct (old_values O _ rows cols); cbn in H; [|discriminate].
    destruct (set_columns O _ rows cols); cbn in H; [|discriminate]. inversion H; subst. cbn. tauto.
  - (* ReplaceTableData *)
    destruct (find_table O s t) as [T|] eqn:Ef; [|discriminate]. destruct (negb _); [discriminate|].
    destruct (add_records O _ rows _); cbn in H; [|discriminate]. inversion H; subst s' u ops; clear H.
    cbn [rev app img_list img fold_left sum_apply].
    change (fun (d : tdelta O) (r : Z) => mkTD O (pres_setdefault (td_before O d) r true) (pres_set (td_after O d) r false) (td_colren O d) (td_deltas O d)) with (mark true false).
    change (fun (d : tdelta O) (r : Z) => mkTD O (pres_setdefault (td_before O d) r false) (pres_set (td_after O d) r true) (td_colren O d) (td_deltas O d)) with (mark false true).
    set (sm1 := with_table O sm t (fold_left (mark true false) (t_rows O T) (for_table O sm t))).
    pose proof (sum_mark_spec sm t (t_rows O T) true false) as [Ht1 [Hc1 [Hb1 _]]]. cbv zeta in Ht1, Hc1, Hb1. fold sm1 in Ht1, Hc1, Hb1.
    pose proof (sum_mark_spec sm1 t rows false true) as [Ht2 [Hc2 [Hb2 _]]]. cbv zeta in Ht2, Hc2, Hb2.
    rewrite !created_iff. rewrite Ht2, Hc2, Hb2, Ht1, Hc1, !Hb1. intros [Hx|[Hx|Hx]]; [tauto | tauto|]. right. right.
    name_cases t0 t; [|exact Hx]. subst t0. rewrite name_eqb_refl in Hx.
    assert (T0 = T) by congruence. subst T0. rewrite (proj2 (zmem_In _ _) Hr0) in Hx.
    destruct (row_before sm t r0); [exact Hx | discriminate].
  - (* AddColumn *)
    destruct (find_table O s t) as [T|] eqn:Ef; [|discriminate].
    destruct (has_column O T c) eqn:Eh; [discriminate|]. inversion H; subst s' u ops; clear H.
    apply has_column_false in Eh. destruct Eh as [_ Hcn].
    cbn [rev app img_list img fold_left].
    pose proof (sum_rencol_spec sm t None c) as [Ht [Hc [Hb _]]]. cbv zeta in Ht, Hc, Hb.
    rewrite !created_iff. rewrite Ht, Hc, Hb. intros [Hx|[Hx|Hx]]; [tauto | | tauto]. right. left.
    name_cases t0 t; [|exact Hx]. subst t0. assert (T0 = T) by congruence. subst T0.
    rewrite ren_is_created_get, ren_get_add_rename_new in Hx.
    assert (name_eqb c0 c = false) as Ene by (apply name_eqb_neq; intro; subst; congruence). rewrite Ene in Hx.
    rewrite <- for_table_colren_created. exact Hx.
  - (* RemoveColumn *)
    destruct (find_table O s t) as [T|] eqn:Ef; [|discriminate].
    destruct (find_col O (t_cols O T) c) as [C|] eqn:Ec; [|discriminate].
    assert (Hops : ops = [SRenameColumn O t (Some c) (defunct_name c)] /\ img_list O (rev u) = fun X => X).
    { destruct (filter _ _).
      - inversion H; subst. split; reflexivity.
      - destruct (ci_isformula (c_info O C)) eqn:Eform.
        + exfalso. apply (Hloss t c 0). cbn. split; [reflexivity|]. split; [reflexivity|]. exists T, C. auto.
        + inversion H; subst. split; reflexivity. }
    destruct Hops as [-> Himg]. rewrite Himg. cbn [fold_left].
    pose proof (sum_rencol_spec sm t (Some c) (defunct_name c)) as [Ht [Hc [Hb _]]]. cbv zeta in Ht, Hc, Hb.
    rewrite !created_iff. rewrite Ht, Hc, Hb. intros [Hx|[Hx|Hx]]; [tauto | | tauto]. right. left.
    name_cases t0 t; [|exact Hx]. subst t0.
    rewrite ren_is_created_get, ren_get_add_rename_new in Hx.
    assert (name_eqb c0 (defunct_name c) = false) as Ene by (apply name_eqb_neq; apply not_defunct_neq; exact Hndc0).
    rewrite Ene in Hx. rewrite <- for_table_colren_created, ren_is_created_get.
    name_cases c0 c; [|exact Hx]. subst c0.
    destruct (ren_get (td_colren O (for_table O sm t)) c) as [[o|]|]; cbn in Hx |- *; congruence.
  - (* RenameColumn *)
    destruct (find_table O s t) as [T|] eqn:Ef; [|discriminate].
    destruct (find_col O (t_cols O T) old) as [C|] eqn:Ec; [|discriminate].
    destruct (has_column O T new) eqn:Eh; [discriminate|]. inversion H; subst s' u ops; clear H.
    apply has_column_false in Eh. destruct Eh as [_ Hcn].
    cbn [rev app img_list img fold_left].
    pose proof (sum_rencol_spec sm t (Some old) new) as [Ht [Hc [Hb _]]]. cbv zeta in Ht, Hc, Hb.
    intros [[-> [-> Hx]]|[Hne Hx]].
    + (* the cell is (t, old): seen as (t, new) afterwards *)
      revert Hx. rewrite !created_iff. rewrite Ht, Hc, Hb, name_eqb_refl. intros [Hx|[Hx|Hx]]; [tauto | | tauto]. right. left.
      rewrite ren_is_created_get, ren_get_add_rename_new, name_eqb_refl in Hx.
      rewrite <- for_table_colren_created, ren_is_created_get.
      destruct (ren_get (td_colren O (for_table O sm t)) old) as [[o|]|]; try discriminate; reflexivity.
    + revert Hx. rewrite !created_iff. rewrite Ht, Hc, Hb. intros [Hx|[Hx|Hx]]; [tauto | | tauto]. right. left.
      name_cases t0 t; [|exact Hx]. subst t0. assert (T0 = T) by congruence. subst T0.
      rewrite ren_is_created_get, ren_get_add_rename_new in Hx.
      assert (name_eqb c0 new = false) as Ene by (apply name_eqb_neq; intro; subst; congruence). rewrite Ene in Hx.
      assert (name_eqb c0 old = false) as Eno by (apply name_eqb_neq; intro; subst; apply Hne; auto). rewrite Eno in Hx.
      rewrite <- for_table_colren_created. exact Hx.
  - (* ModifyColumn *)
    destruct (find_table O s t); [|discriminate]. destruct (find_col O _ c); [|discriminate].
    destruct (colinfo_eqb _ _); inversion H; subst; cbn; tauto.
  - (* AddTable *)
    destruct (find_table O s t) eqn:Ef; [discriminate|]. destruct (_ || _); [discriminate|].
    inversion H; subst s' u ops; clear H. cbn [rev app img_list img fold_left].
    pose proof (sum_rentab_spec sm None t) as [Ht Htd]. cbv zeta in Ht, Htd.
    rewrite !created_iff. unfold col_created, row_before. rewrite Ht, !Htd.
    assert (name_eqb t0 t = false) as Ene by (apply name_eqb_neq; intro; subst; congruence).
    rewrite ren_is_created_get, ren_get_add_rename_new, Ene. tauto.
  - (* RemoveTable *)
    destruct (find_table O s t) as [T|] eqn:Ef; [|discriminate].
    assert (Hops : ops = [SRenameTable O (Some t) (defunct_name t)] /\ img_list O (rev u) = fun X => X).
    { destruct (t_rows O T); inversion H; subst; split; reflexivity. }
    destruct Hops as [-> Himg]. rewrite Himg. cbn [fold_left].
    pose proof (sum_rentab_spec sm (Some t) (defunct_name t)) as [Ht Htd]. cbv zeta in Ht, Htd.
    rewrite !created_iff. unfold col_created, row_before. rewrite Ht, !Htd.
    assert (name_eqb t0 (defunct_name t) = false) as Ene by (apply name_eqb_neq; apply not_defunct_neq; exact Hndt0).
    rewrite ren_is_created_get, ren_get_add_rename_new, Ene.
    name_cases t0 t.
    + subst t0. destruct (td_find O (sm_tables O sm) t) as [d|] eqn:Ed.
      * destruct (ren_get (sm_tabren O sm) t); intros [Hx|[Hx|Hx]]; discriminate.
      * destruct (ren_get (sm_tabren O sm) t); intros [Hx|[Hx|Hx]]; discriminate.
    + destruct (td_find O (sm_tables O sm) t); tauto.
  - (* RenameTable *)
    destruct (find_table O s old) as [T|] eqn:Ef; [|discriminate].
    destruct (find_table O s new) eqn:En; [discriminate|]. inversion H; subst s' u ops; clear H.
    cbn [rev app img_list img fold_left].
    pose proof (sum_rentab_spec sm (Some old) new) as [Ht Htd]. cbv zeta in Ht, Htd.
    assert (Hstale : td_find O (sm_tables O sm) new = None).
    { destruct (td_find O (sm_tables O sm) new) eqn:E; [|reflexivity]. exfalso.
      destruct (Hkeys new) as [Hk|Hk]; [rewrite E; discriminate | congruence |].
      cbn in Hact. congruence. }
    assert (Eno : name_eqb new old = false) by (apply name_eqb_neq; intro; subst; congruence).
    intros [[-> Hx]|[Hne Hx]].
    + revert Hx. rewrite !created_iff. unfold col_created, row_before. rewrite Ht, !Htd, name_eqb_refl. unfold tab_created.
      rewrite ren_is_created_get, ren_get_add_rename_new, name_eqb_refl, (ren_is_created_get (sm_tabren O sm) old).
      destruct (td_find O (sm_tables O sm) old) as [d|] eqn:Ed.
      * destruct (ren_get (sm_tabren O sm) old) as [[o|]|]; intros [Hx|[Hx|Hx]]; try discriminate; tauto.
      * rewrite Hstale. destruct (ren_get (sm_tabren O sm) old) as [[o|]|]; intros [Hx|[Hx|Hx]]; try discriminate; tauto.
    + revert Hx. rewrite !created_iff. unfold col_created, row_before. rewrite Ht, !Htd.
      assert (name_eqb t0 new = false) as Ene by (apply name_eqb_neq; intro; subst; congruence).
      assert (name_eqb t0 old = false) as Eo by (apply name_eqb_neq; exact Hne). unfold tab_created.
      rewrite ren_is_created_get, ren_get_add_rename_new, Ene, Eo, (ren_is_created_get (sm_tabren O sm) t0).
      destruct (td_find O (sm_tables O sm) old); tauto.
Qed.


(* ------------------------------------------------------------------------------------------------ *)
(* structural consistency between the document and the summary, kept by every doc action *)

Definition after_ok (s : state) (sm : summary) : Prop :=
  forall t T r, find_table O s t = Some T -> In r (t_rows O T) -> row_after sm t r <> Some false.

Definition struct_ok (s : state) (sm : summary) : Prop := names_ok s /\ keys_ok s sm /\ after_ok s sm.

Lemma names_ok_put : forall s t T T', names_ok s -> find_table O s t = Some T -> t_id O T' = t ->
  (forall c C, find_col O (t_cols O T') c = Some C -> is_defunct c = false) -> names_ok (put_table O s t T').
Proof.
  intros s t T T' Hn Hf Hid Hc t0 T0 Hf0. rewrite find_put_table in Hf0 by exact Hid.
  name_cases t0 t.
  - subst t0. rewrite Hf in Hf0. inversion Hf0; subst T0. split; [apply (Hn _ _ Hf) | exact Hc].
  - apply (Hn _ _ Hf0).
Qed.

Lemma alive_put : forall s t T T' t0, find_table O s t = Some T -> t_id O T' = t ->
  (find_table O (put_table O s t T') t0 <> None <-> find_table O s t0 <> None).
Proof.
  intros s t T T' t0 Hf Hid. rewrite find_put_table by exact Hid. name_cases t0 t; [|tauto].
  subst t0. rewrite Hf. split; congruence.
Qed.

Lemma alive_put2 : forall s t T rows cols t0, find_table O s t = Some T ->
  (find_table O (put_table O s t (mkTab O (t_id O T) rows cols)) t0 <> None <-> find_table O s t0 <> None).
Proof. intros. eapply alive_put; [eassumption|]. cbn. eapply find_table_id. eassumption. Qed.

Lemma struct_step : forall a s s' u ops sm,
  struct_ok s sm ->
  apply_doc O a s = Ok (s', (u, ops)) -> (forall t c r, ~ lossy O a s t c r) -> act_names_ok a ->
  struct_ok s' (fold_left (sum_apply O) ops sm).
Proof.
  intros a s s' u ops sm [Hnames [Hkeys Hafter]] H Hloss Hact.
  destruct a; unfold apply_doc in H.
  - (* BulkAddRecord *)
    destruct (find_table O s t) as [T|] eqn:Ef; [|discriminate].
    destruct (colvals_ok O rows cols) eqn:Eok; cbn [negb orb] in H; [|discriminate].
    destruct rows as [|r1 rows1] eqn:Er; [discriminate|]. rewrite <- Er in *. clear Er r1 rows1.
    destruct (none_in rows (t_rows O T)); cbn [negb] in H; [|discriminate].
    destruct (add_records O T rows cols) as [T'|] eqn:Eadd; cbn [bind] in H; [|discriminate].
    inversion H; subst s' u ops; clear H. cbn [fold_left sum_apply].
    change (fun (d : tdelta O) (r : Z) => mkTD O (pres_setdefault (td_before O d) r false) (pres_set (td_after O d) r true) (td_colren O d) (td_deltas O d)) with (mark false true).
    destruct (colvals_ok_parts O _ _ Eok) as [Hndk _].
    destruct (add_records_spec O _ _ _ _ Hndk Eadd) as [Hid [Hrows [Hids Hcols]]].
    pose proof (find_table_id O _ _ _ Ef) as HidT. assert (Hid' : t_id O T' = t) by congruence.
    pose proof (sum_mark_spec sm t rows false true) as [_ [_ [_ [Ha Hk]]]]. cbv zeta in Ha, Hk.
    split; [|split].
    + eapply names_ok_put; try eassumption. intros c C Hc. specialize (Hcols c).
      destruct (find_col O (t_cols O T) c) as [C1|] eqn:E1; [|congruence]. apply (proj2 (Hnames _ _ Ef) _ _ E1).
    + intros t0 Ht0. apply Hk in Ht0. rewrite (alive_put s t T T' t0 Ef Hid').
      destruct Ht0 as [->|Ht0]; [left; congruence | apply Hkeys; exact Ht0].
    + intros t0 T0 r Hf0 Hr. rewrite Ha. rewrite find_put_table in Hf0 by exact Hid'.
      name_cases t0 t.
      * subst t0. rewrite Ef in Hf0. inversion Hf0; subst T0. apply Hrows in Hr.
        destruct (zmem r rows) eqn:Ez; [discriminate|]. destruct Hr as [Hr|Hr]; [apply zmem_In in Hr; congruence|].
        eapply Hafter; eassumption.
      * eapply Hafter; eassumption.
  - (* BulkRemoveRecord *)
    destruct (find_table O s t) as [T|] eqn:Ef; [|discriminate].
    destruct (filter (fun r => zmem r (t_rows O T)) rows) as [|r1 rows1] eqn:Er.
    + inversion H; subst s' u ops; clear H. cbn. split; [exact Hnames | split; [exact Hkeys | exact Hafter]].
    + rewrite <- Er in *. clear Er r1 rows1. inversion H; subst s' u ops; clear H. cbn [fold_left sum_apply].
      change (fun (d : tdelta O) (r : Z) => mkTD O (pres_setdefault (td_before O d) r true) (pres_set (td_after O d) r false) (td_colren O d) (td_deltas O d)) with (mark true false).
      set (rows1 := filter (fun r => zmem r (t_rows O T)) rows).
      pose proof (find_table_id O _ _ _ Ef) as HidT.
      pose proof (sum_mark_spec sm t rows1 true false) as [_ [_ [_ [Ha Hk]]]]. cbv zeta in Ha, Hk.
      split; [|split].
      * eapply names_ok_put; try eassumption; try reflexivity. cbn [t_cols]. intros c C Hc.
        rewrite find_map_col in Hc by (intro; apply col_unset_many_id).
        destruct (find_col O (t_cols O T) c) as [C1|] eqn:E1; [|discriminate]. apply (proj2 (Hnames _ _ Ef) _ _ E1).
      * intros t0 Ht0. apply Hk in Ht0. destruct Ht0 as [->|Ht0]; [left; apply (proj2 (alive_put2 s t T _ _ t Ef)); congruence|].
        destruct (Hkeys _ Ht0) as [Hq|Hq]; [left; apply (proj2 (alive_put2 s t T _ _ t0 Ef)); exact Hq | right; exact Hq].
      * intros t0 T0 r Hf0 Hr. rewrite Ha. rewrite find_put_table in Hf0 by exact HidT.
        name_cases t0 t.
        -- subst t0. rewrite Ef in Hf0. inversion Hf0; subst T0. cbn [t_rows] in Hr. apply filter_In in Hr.
           destruct Hr as [Hr Hz]. apply negb_true_iff in Hz. fold rows1 in Hz. rewrite Hz. eapply Hafter; eassumption.
        -- eapply Hafter; eassumption.
  - (* BulkUpdateRecord *)
    destruct (find_table O s t) as [T|] eqn:Ef; [|discriminate].
    destruct (colvals_ok O rows cols) eqn:Eok; cbn [negb orb] in H; [|discriminate].
    destruct rows as [|r1 rows1] eqn:Er; [discriminate|]. rewrite <- Er in *. clear Er r1 rows1.
    destruct (all_in rows (t_rows O T)); cbn [negb] in H; [|discriminate].
    destruct (old_values O (t_cols O T) rows cols); cbn [bind] in H; [|discriminate].
    destruct (set_columns O (t_cols O T) rows cols) as [cs|] eqn:Ecs; cbn [bind] in H; [|discriminate].
    inversion H; subst s' u ops; clear H. cbn [fold_left].
    destruct (colvals_ok_parts O _ _ Eok) as [Hndk _].
    destruct (set_columns_spec O _ _ _ _ Hndk Ecs) as [_ Hcols].
    pose proof (find_table_id O _ _ _ Ef) as HidT.
    split; [|split].
    + eapply names_ok_put; try eassumption; try reflexivity. cbn [t_cols]. intros c C Hc. specialize (Hcols c).
      destruct (find_col O (t_cols O T) c) as [C1|] eqn:E1; [|congruence]. apply (proj2 (Hnames _ _ Ef) _ _ E1).
    + intros t0 Ht0. destruct (Hkeys _ Ht0) as [Hq|Hq]; [left; apply (proj2 (alive_put2 s t T _ _ t0 Ef)); exact Hq | right; exact Hq].
    + intros t0 T0 r Hf0 Hr. rewrite find_put_table in Hf0 by exact HidT. name_cases t0 t.
      * subst t0. rewrite Ef in Hf0. inversion Hf0; subst T0. cbn in Hr. eapply Hafter; eassumption.
      * eapply Hafter; eassumption.
  - (* ReplaceTableData *)
    destruct (find_table O s t) as [T|] eqn:Ef; [|discriminate].
    destruct (colvals_ok O rows cols) eqn:Eok; cbn [negb] in H; [|discriminate].
    match type of H with context [add_records O ?TT rows ?cc] => remember cc as cols1 eqn:Ecols1; remember TT as Tc eqn:ETc end.
    destruct (add_records O Tc rows cols1) as [T'|] eqn:Eadd; cbn [bind] in H; [|discriminate].
    inversion H; subst s' u ops; clear H. cbn [fold_left sum_apply].
    change (fun (d : tdelta O) (r : Z) => mkTD O (pres_setdefault (td_before O d) r true) (pres_set (td_after O d) r false) (td_colren O d) (td_deltas O d)) with (mark true false).
    change (fun (d : tdelta O) (r : Z) => mkTD O (pres_setdefault (td_before O d) r false) (pres_set (td_after O d) r true) (td_colren O d) (td_deltas O d)) with (mark false true).
    set (sm1 := with_table O sm t (fold_left (mark true false) (t_rows O T) (for_table O sm t))).
    pose proof (sum_mark_spec sm t (t_rows O T) true false) as [_ [_ [_ [Ha1 Hk1]]]]. cbv zeta in Ha1, Hk1. fold sm1 in Ha1, Hk1.
    pose proof (sum_mark_spec sm1 t rows false true) as [_ [_ [_ [Ha2 Hk2]]]]. cbv zeta in Ha2, Hk2.
    assert (Hnd1 : nodup_names (map fst cols1) = true).
    { destruct (colvals_ok_parts O _ _ Eok) as [Hndk _]. rewrite Ecols1. clear -Hndk.
      induction cols as [|[c1 v1] rest IH]; cbn in *; [reflexivity|].
      apply andb_true_iff in Hndk. destruct Hndk as [Hn Hndk].
      destruct (find_col O (t_cols O T) c1); cbn; [|apply IH; exact Hndk].
      rewrite (IH Hndk), andb_true_r. apply negb_true_iff. apply negb_true_iff in Hn.
      match goal with |- nmem ?a ?b = false => destruct (nmem a b) eqn:E; [|reflexivity] end.
      apply nmem_In in E. apply in_map_iff in E. destruct E as [[c2 v2] [Hc2 Hin]]. cbn in Hc2. subst c2.
      apply filter_In in Hin. destruct Hin as [Hin _].
      assert (nmem c1 (map fst rest) = true); [|congruence].
      apply nmem_In. apply in_map_iff. exists (c1, v2). split; [reflexivity | exact Hin]. }
    destruct (add_records_spec O _ _ _ _ Hnd1 Eadd) as [Hid [Hrows [Hids Hcols]]].
    pose proof (find_table_id O _ _ _ Ef) as HidT.
    assert (Hid' : t_id O T' = t) by (rewrite Hid, ETc; exact HidT).
    split; [|split].
    + eapply names_ok_put; try eassumption. intros c C Hc. specialize (Hcols c). rewrite ETc in Hcols. cbn [t_cols] in Hcols.
      rewrite find_map_col in Hcols by (intro; reflexivity).
      destruct (find_col O (t_cols O T) c) as [C1|] eqn:E1; cbn in Hcols; [|congruence]. apply (proj2 (Hnames _ _ Ef) _ _ E1).
    + intros t0 Ht0. apply Hk2 in Ht0. rewrite (alive_put s t T T' t0 Ef Hid').
      destruct Ht0 as [->|Ht0]; [left; congruence|]. apply Hk1 in Ht0.
      destruct Ht0 as [->|Ht0]; [left; congruence | apply Hkeys; exact Ht0].
    + intros t0 T0 r Hf0 Hr. rewrite Ha2, !Ha1. rewrite find_put_table in Hf0 by exact Hid'. name_cases t0 t.
      * subst t0. rewrite name_eqb_refl. rewrite Ef in Hf0. inversion Hf0; subst T0. apply Hrows in Hr. rewrite ETc in Hr. cbn [t_rows] in Hr.
        destruct Hr as [Hr|[]]. rewrite (proj2 (zmem_In _ _) Hr). discriminate.
      * eapply Hafter; eassumption.
  - (* AddColumn *)
    destruct (find_table O s t) as [T|] eqn:Ef; [|discriminate].
    destruct (has_column O T c) eqn:Eh; [discriminate|]. inversion H; subst s' u ops; clear H. cbn [fold_left].
    pose proof (find_table_id O _ _ _ Ef) as HidT.
    pose proof (sum_rencol_spec sm t None c) as [_ [_ [_ [Ha Hk]]]]. cbv zeta in Ha, Hk.
    split; [|split].
    + eapply names_ok_put; try eassumption; try reflexivity. cbn [t_cols]. intros c1 C1 Hc. rewrite find_app_col in Hc.
      destruct (find_col O (t_cols O T) c1) as [C2|] eqn:E1; [apply (proj2 (Hnames _ _ Ef) _ _ E1)|].
      cbn [c_id] in Hc. name_cases c1 c; [subst; exact Hact | discriminate].
    + intros t0 Ht0. apply Hk in Ht0. destruct Ht0 as [->|Ht0]; [left; apply (proj2 (alive_put2 s t T _ _ t Ef)); congruence|].
      destruct (Hkeys _ Ht0) as [Hq|Hq]; [left; apply (proj2 (alive_put2 s t T _ _ t0 Ef)); exact Hq | right; exact Hq].
    + intros t0 T0 r Hf0 Hr. rewrite Ha. rewrite find_put_table in Hf0 by exact HidT. name_cases t0 t.
      * subst t0. rewrite Ef in Hf0. inversion Hf0; subst T0. cbn in Hr. eapply Hafter; eassumption.
      * eapply Hafter; eassumption.
  - (* RemoveColumn *)
    destruct (find_table O s t) as [T|] eqn:Ef; [|discriminate].
    destruct (find_col O (t_cols O T) c) as [C|] eqn:Ec; [|discriminate].
    assert (Hops : ops = [SRenameColumn O t (Some c) (defunct_name c)] /\
                   s' = put_table O s t (mkTab O (t_id O T) (t_rows O T) (drop_col O (t_cols O T) c))).
    { destruct (filter _ _).
      - inversion H; subst. split; reflexivity.
      - destruct (ci_isformula (c_info O C)) eqn:Eform.
        + exfalso. apply (Hloss t c 0). cbn. split; [reflexivity|]. split; [reflexivity|]. exists T, C. auto.
        + inversion H; subst. split; reflexivity. }
    destruct Hops as [-> ->]. cbn [fold_left].
    pose proof (find_table_id O _ _ _ Ef) as HidT.
    pose proof (sum_rencol_spec sm t (Some c) (defunct_name c)) as [_ [_ [_ [Ha Hk]]]]. cbv zeta in Ha, Hk.
    split; [|split].
    + eapply names_ok_put; try eassumption; try reflexivity. cbn [t_cols]. intros c1 C1 Hc. rewrite find_drop_col in Hc.
      destruct (name_eqb c1 c); [discriminate|]. apply (proj2 (Hnames _ _ Ef) _ _ Hc).
    + intros t0 Ht0. apply Hk in Ht0. destruct Ht0 as [->|Ht0]; [left; apply (proj2 (alive_put2 s t T _ _ t Ef)); congruence|].
      destruct (Hkeys _ Ht0) as [Hq|Hq]; [left; apply (proj2 (alive_put2 s t T _ _ t0 Ef)); exact Hq | right; exact Hq].
    + intros t0 T0 r Hf0 Hr. rewrite Ha. rewrite find_put_table in Hf0 by exact HidT. name_cases t0 t.
      * subst t0. rewrite Ef in Hf0. inversion Hf0; subst T0. cbn in Hr. eapply Hafter; eassumption.
      * eapply Hafter; eassumption.
  - (* RenameColumn *)
    destruct (find_table O s t) as [T|] eqn:Ef; [|discriminate].
    destruct (find_col O (t_cols O T) old) as [C|] eqn:Ec; [|discriminate].
    destruct (has_column O T new) eqn:Eh; [discriminate|]. inversion H; subst s' u ops; clear H. cbn [fold_left].
    pose proof (find_table_id O _ _ _ Ef) as HidT.
    pose proof (sum_rencol_spec sm t (Some old) new) as [_ [_ [_ [Ha Hk]]]]. cbv zeta in Ha, Hk.
    split; [|split].
    + eapply names_ok_put; try eassumption; try reflexivity. cbn [t_cols]. intros c1 C1 Hc. rewrite find_app_col, find_drop_col in Hc.
      destruct (name_eqb c1 old).
      * cbn [c_id] in Hc. name_cases c1 new; [subst; exact Hact | discriminate].
      * destruct (find_col O (t_cols O T) c1) as [C2|] eqn:E1; [apply (proj2 (Hnames _ _ Ef) _ _ E1)|].
        cbn [c_id] in Hc. name_cases c1 new; [subst; exact Hact | discriminate].
    + intros t0 Ht0. apply Hk in Ht0. destruct Ht0 as [->|Ht0]; [left; apply (proj2 (alive_put2 s t T _ _ t Ef)); congruence|].
      destruct (Hkeys _ Ht0) as [Hq|Hq]; [left; apply (proj2 (alive_put2 s t T _ _ t0 Ef)); exact Hq | right; exact Hq].
    + intros t0 T0 r Hf0 Hr. rewrite Ha. rewrite find_put_table in Hf0 by exact HidT. name_cases t0 t.
      * subst t0. rewrite Ef in Hf0. inversion Hf0; subst T0. cbn in Hr. eapply Hafter; eassumption.
      * eapply Hafter; eassumption.
  - (* ModifyColumn *)
    destruct (find_table O s t) as [T|] eqn:Ef; [|discriminate].
    destruct (find_col O (t_cols O T) c) as [C|] eqn:Ec; [|discriminate].
    destruct (colinfo_eqb _ _).
    + inversion H; subst s' u ops; clear H. cbn. split; [exact Hnames | split; [exact Hkeys | exact Hafter]].
    + inversion H; subst s' u ops; clear H. cbn [fold_left].
      pose proof (find_table_id O _ _ _ Ef) as HidT.
      split; [|split].
      * eapply names_ok_put; try eassumption; try reflexivity. cbn [t_cols]. intros c1 C1 Hc. rewrite find_app_col, find_drop_col in Hc.
        rewrite col_set_many_id in Hc. cbn [c_id] in Hc. name_cases c1 c.
        -- subst c1. apply (proj2 (Hnames _ _ Ef) _ _ Ec).
        -- destruct (find_col O (t_cols O T) c1) as [C2|] eqn:E1; [apply (proj2 (Hnames _ _ Ef) _ _ E1) | discriminate].
      * intros t0 Ht0. destruct (Hkeys _ Ht0) as [Hq|Hq]; [left; apply (proj2 (alive_put2 s t T _ _ t0 Ef)); exact Hq | right; exact Hq].
      * intros t0 T0 r Hf0 Hr. rewrite find_put_table in Hf0 by exact HidT. name_cases t0 t.
        -- subst t0. rewrite Ef in Hf0. inversion Hf0; subst T0. cbn in Hr. eapply Hafter; eassumption.
        -- eapply Hafter; eassumption.
  - (* AddTable *)
    destruct (find_table O s t) eqn:Ef; [discriminate|]. destruct (_ || _); [discriminate|].
    inversion H; subst s' u ops; clear H. cbn [fold_left]. destruct Hact as [Hdt Hdc].
    pose proof (sum_rentab_spec sm None t) as [_ Htd]. cbv zeta in Htd.
    split; [|split].
    + intros t0 T0 Hf0. rewrite find_app_table in Hf0.
      destruct (find_table O s t0) eqn:E0; [inversion Hf0; subst; apply (Hnames _ _ E0)|].
      cbn [t_id] in Hf0. name_cases t0 t; [|discriminate]. inversion Hf0; subst T0 t0. split; [exact Hdt|].
      cbn [t_cols]. intros c C Hc. pose proof (find_col_id O _ _ _ Hc) as Hcid.
      apply find_col_In in Hc. apply in_map_iff in Hc. destruct Hc as [ci [HC Hin]]. subst C. cbn in Hcid. subst c.
      rewrite forallb_forall in Hdc. apply negb_true_iff. apply Hdc. exact Hin.
    + intros t0 Ht0. rewrite Htd in Ht0. rewrite find_app_table.
      destruct (Hkeys _ Ht0) as [Hk|Hk]; [left | right; exact Hk]. destruct (find_table O s t0); [discriminate | contradiction].
    + intros t0 T0 r Hf0 Hr. unfold row_after. rewrite Htd. rewrite find_app_table in Hf0.
      destruct (find_table O s t0) eqn:E0; [inversion Hf0; subst; eapply Hafter; eassumption|].
      cbn [t_id] in Hf0. destruct (name_eqb t0 t); [|discriminate]. inversion Hf0; subst T0. destruct Hr.
  - (* RemoveTable *)
    destruct (find_table O s t) as [T|] eqn:Ef; [|discriminate].
    assert (Hops : ops = [SRenameTable O (Some t) (defunct_name t)] /\ s' = drop_table O s t).
    { destruct (t_rows O T); inversion H; subst; split; reflexivity. }
    destruct Hops as [-> ->]. cbn [fold_left].
    pose proof (sum_rentab_spec sm (Some t) (defunct_name t)) as [_ Htd]. cbv zeta in Htd.
    split; [|split].
    + intros t0 T0 Hf0. rewrite find_drop_table in Hf0. destruct (name_eqb t0 t); [discriminate|]. apply (Hnames _ _ Hf0).
    + intros t0 Ht0. rewrite Htd in Ht0. rewrite find_drop_table.
      destruct (td_find O (sm_tables O sm) t) as [d|] eqn:Ed.
      * name_cases t0 (defunct_name t); [right; subst; reflexivity|].
        name_cases t0 t; [contradiction|]. apply Hkeys. exact Ht0.
      * name_cases t0 t; [subst; congruence | apply Hkeys; exact Ht0].
    + intros t0 T0 r Hf0 Hr. rewrite find_drop_table in Hf0. name_cases t0 t; [discriminate|].
      unfold row_after. rewrite Htd.
      destruct (td_find O (sm_tables O sm) t) as [d|] eqn:Ed; [|exact (Hafter _ _ r Hf0 Hr)].
      assert (name_eqb t0 (defunct_name t) = false) as -> by (apply name_eqb_neq; apply not_defunct_neq; apply (Hnames _ _ Hf0)).
      rewrite E. exact (Hafter _ _ r Hf0 Hr).
  - (* RenameTable *)
    destruct (find_table O s old) as [T|] eqn:Ef; [|discriminate].
    destruct (find_table O s new) eqn:En; [discriminate|]. inversion H; subst s' u ops; clear H. cbn [fold_left].
    cbn in Hact.
    pose proof (sum_rentab_spec sm (Some old) new) as [_ Htd]. cbv zeta in Htd.
    assert (Hne : old <> new) by (intro; subst; congruence).
    assert (Hstale : td_find O (sm_tables O sm) new = None).
    { destruct (td_find O (sm_tables O sm) new) eqn:E; [|reflexivity]. exfalso.
      destruct (Hkeys new) as [Hk|Hk]; [rewrite E; discriminate | congruence | congruence]. }
    split; [|split].
    + intros t0 T0 Hf0. rewrite find_app_table, find_drop_table in Hf0. cbn [t_id] in Hf0.
      name_cases t0 old.
      * name_cases t0 new; [|discriminate]. congruence.
      * destruct (find_table O s t0) eqn:E0; [inversion Hf0; subst; apply (Hnames _ _ E0)|].
        name_cases t0 new; [|discriminate]. inversion Hf0; subst T0 t0. split; [exact Hact|]. cbn [t_cols]. apply (Hnames _ _ Ef).
    + intros t0 Ht0. rewrite Htd in Ht0. rewrite find_app_table, find_drop_table. cbn [t_id].
      destruct (td_find O (sm_tables O sm) old) as [d|] eqn:Ed.
      * name_cases t0 new.
        -- subst t0. left. assert (name_eqb new old = false) as -> by (apply name_eqb_neq; congruence).
           rewrite En. discriminate.
        -- name_cases t0 old; [contradiction|]. destruct (Hkeys _ Ht0) as [Hk|Hk]; [left | right; exact Hk].
           destruct (find_table O s t0); [discriminate | contradiction].
      * name_cases t0 old; [subst; congruence|]. destruct (Hkeys _ Ht0) as [Hk|Hk]; [left | right; exact Hk].
        destruct (find_table O s t0); [discriminate | contradiction].
    + intros t0 T0 r Hf0 Hr. rewrite find_app_table, find_drop_table in Hf0. cbn [t_id] in Hf0.
      unfold row_after. rewrite Htd.
      name_cases t0 old.
      * name_cases t0 new; [|discriminate]. congruence.
      * destruct (find_table O s t0) eqn:E0.
        -- inversion Hf0; subst T0. assert (name_eqb t0 new = false) as Enn by (apply name_eqb_neq; intro; subst; congruence).
           destruct (td_find O (sm_tables O sm) old); [rewrite Enn|]; eapply Hafter; eassumption.
        -- name_cases t0 new; [|discriminate]. inversion Hf0; subst T0 t0. cbn [t_rows] in Hr.
           destruct (td_find O (sm_tables O sm) old) as [d|] eqn:Ed.
           ++ pose proof (Hafter _ _ r Ef Hr) as Ha. unfold row_after in Ha. rewrite Ed in Ha. exact Ha.
           ++ rewrite Hstale. discriminate.
Qed.


(* ------------------------------------------------------------------------------------------------ *)
(* the undo list of the doc actions brings any document that differs from the current one only in created
   cells back to the start *)

Definition tr_ok (s0 s : state) (U : list action) (sm : summary) : Prop :=
  forall s1, seq_ex O (created sm) s1 s -> exists s2, replay_doc O (rev U) s1 = Ok s2 /\ seq O s2 s0.

Lemma created_empty : forall t c r, ~ created (sum_empty O) t c r.
Proof. intros t c r [H|[td [H _]]]; cbn in H; discriminate. Qed.

Lemma tr_ok_init : forall s0, tr_ok s0 s0 [] (sum_empty O).
Proof.
  intros s0 s1 H. exists s1. split; [reflexivity|]. eapply seq_ex_weaken; [|exact H].
  intros t c r Hc. exfalso. eapply created_empty. exact Hc.
Qed.

Lemma tr_step : forall a s0 s s' U u ops sm,
  tr_ok s0 s U sm -> wf_state O s -> struct_ok s sm ->
  apply_doc O a s = Ok (s', (u, ops)) -> (forall t c r, ~ lossy O a s t c r) -> act_names_ok a ->
  tr_ok s0 s' (U ++ u) (fold_left (sum_apply O) ops sm).
Proof.
  intros a s0 s s' U u ops sm Htr Hwf [Hnames [Hkeys _]] Ha Hloss Hact s1 Hs1.
  destruct (undo_inverse O L a s Hwf s' u ops Ha) as [s'' [Hrep Hseq]].
  apply (seq_ex_sym O L) in Hs1.
  destruct (replay_doc_cong O L _ _ _ _ _ Hs1 Hrep) as [sx [Hrepx Hseqx]].
  apply (seq_ex_sym O L) in Hseqx.
  pose proof (seq_ex_trans O L _ _ _ _ _ Hseqx Hseq) as Hsx.
  assert (Hsx' : seq_ex O (created sm) sx s).
  { eapply seq_ex_restrict; [exact Hsx|]. intros t c r Hex [Hx|Hx]; [|exfalso; exact (Hloss _ _ _ Hx)].
    eapply sig_step; try eassumption. eapply existing_seq; eassumption. }
  destruct (Htr sx Hsx') as [s2 [Hrep2 Hseq2]].
  exists s2. split; [|exact Hseq2]. rewrite rev_app_distr, (replay_doc_app O), Hrepx. exact Hrep2.
Qed.

Fixpoint names_run (acts : list action) : Prop :=
  match acts with [] => True | a :: rest => act_names_ok a /\ names_run rest end.

(* everything the doc-action phase of a bundle keeps *)
Record docs_inv (s0 : state) (m : mstate O) : Prop := mkDI {
  di_tr : tr_ok s0 (m_doc O m) (m_undo O m) (m_sum O m);
  di_wf : wf_state O (m_doc O m);
  di_struct : struct_ok (m_doc O m) (m_sum O m);
  di_nd : sum_nodeltas O (m_sum O m) }.

Lemma docs_phase : forall acts s0 m m',
  docs_inv s0 m -> lossless_run O (m_doc O m) acts -> names_run acts ->
  steps O m (map (Doc O) acts) = Ok m' ->
  docs_inv s0 m' /\ m_stored O m' = m_stored O m ++ acts.
Proof.
  induction acts as [|a rest IH]; intros s0 m m' Hinv Hl Hn H; cbn in H.
  - inversion H; subst. split; [exact Hinv | rewrite app_nil_r; reflexivity].
  - destruct (apply_doc O a (m_doc O m)) as [[s1 [u ops]]|] eqn:Ea; cbn in H; [|discriminate].
    cbn in Hl. destruct Hl as [Hno Hrest]. rewrite Ea in Hrest. destruct Hn as [Hna Hnrest].
    destruct Hinv as [Htr Hwf Hst Hnd].
    set (m1 := mkM O s1 (m_stored O m ++ [a]) (m_undo O m ++ u) (fold_left (sum_apply O) ops (m_sum O m))) in *.
    assert (Hinv1 : docs_inv s0 m1).
    { constructor; cbn.
      - eapply tr_step; eassumption.
      - eapply apply_doc_wf; eassumption.
      - eapply struct_step; eassumption.
      - apply fold_sum_apply_nodeltas; [exact Hnd|]. eapply lossless_not_changes; eassumption. }
    destruct (IH s0 m1 m' Hinv1 Hrest Hnrest H) as [Hinv' Hst'].
    split; [exact Hinv'|]. rewrite Hst'. cbn. rewrite <- app_assoc. reflexivity.
Qed.


(* ------------------------------------------------------------------------------------------------ *)
(* calc deltas *)

Lemma cd_find_del : forall l c c', cd_find O (cd_del O l c) c' = if name_eqb c' c then None else cd_find O l c'.
Proof.
  induction l as [|[c0 d0] l IH]; intros c c'; cbn.
  - destruct (name_eqb c' c); reflexivity.
  - name_cases c c0.
    + subst c0. rewrite IH. name_cases c' c; reflexivity.
    + cbn. name_cases c' c0.
      * subst c'. assert (name_eqb c0 c = false) as -> by (apply name_eqb_neq; congruence). reflexivity.
      * apply IH.
Qed.

Lemma cd_find_put : forall l c d c', cd_find O (cd_put O l c d) c' = if name_eqb c' c then Some d else cd_find O l c'.
Proof. intros. unfold cd_put. cbn. rewrite cd_find_del. destruct (name_eqb c' c); reflexivity. Qed.

Lemma delta_get_put : forall d r x r', delta_get O (delta_put O d r x) r' = if Z.eqb r' r then Some x else delta_get O d r'.
Proof.
  induction d as [|[r0 y] d IH]; intros r x r'; cbn.
  - destruct (Z.eqb r' r); reflexivity.
  - destruct (Z.eqb_spec r r0) as [->|Hne]; cbn.
    + destruct (Z.eqb r' r0); reflexivity.
    + destruct (Z.eqb_spec r' r0) as [->|Hne'].
      * destruct (Z.eqb_spec r0 r); [congruence | reflexivity].
      * apply IH.
Qed.

Lemma delta_get_add : forall d r b a r',
  delta_get O (delta_add O d (r, (b, a))) r' =
  if Z.eqb r' r then Some (match delta_get O d r with Some (b0, _) => b0 | None => b end, a) else delta_get O d r'.
Proof.
  intros d r b a r'. unfold delta_add. destruct (delta_get O d r) as [[b0 a0]|]; rewrite delta_get_put; reflexivity.
Qed.

Definition delta_of (sm : summary) (t c : name) : coldelta O :=
  match td_find O (sm_tables O sm) t with
  | Some td => match cd_find O (td_deltas O td) c with Some cd => cd | None => [] end
  | None => []
  end.

Lemma add_changes_spec : forall (sm : summary) t c chs,
  let sm' := sum_apply O sm (SAddChanges O t c chs) in
  (forall t', tab_created sm' t' = tab_created sm t') /\
  (forall t' c', col_created sm' t' c' = col_created sm t' c') /\
  (forall t' r, row_before sm' t' r = row_before sm t' r) /\
  (forall t' r, row_after sm' t' r = row_after sm t' r) /\
  (forall t' c', delta_of sm' t' c' =
                 if name_eqb t' t && name_eqb c' c then fold_left (delta_add O) chs (delta_of sm t c) else delta_of sm t' c').
Proof.
  intros sm t c chs sm'. unfold sm'. cbn [sum_apply]. repeat split.
  - intros t' c'. unfold col_created. rewrite td_find_with_table. name_cases t' t; [|reflexivity].
    subst t'. cbn [td_colren]. apply for_table_colren_created.
  - intros t' r. unfold row_before. rewrite td_find_with_table. name_cases t' t; [|reflexivity].
    subst t'. cbn [td_before]. apply for_table_before.
  - intros t' r. unfold row_after. rewrite td_find_with_table. name_cases t' t; [|reflexivity].
    subst t'. cbn [td_after]. apply for_table_after.
  - intros t' c'. unfold delta_of at 1. rewrite td_find_with_table. name_cases t' t; cbn [andb]; [|reflexivity].
    subst t'. cbn [td_deltas]. rewrite cd_find_put. name_cases c' c.
    + subst c'. unfold delta_of, for_table. destruct (td_find O (sm_tables O sm) t); reflexivity.
    + unfold delta_of, for_table. destruct (td_find O (sm_tables O sm) t); reflexivity.
Qed.

(* one column during the calc phase: Cd is the column as the doc actions left it, C the current one *)
Definition col_ci (cd : coldelta O) (C Cd : column) (rows : list Z) : Prop :=
  c_info O C = c_info O Cd /\
  forall r, In r rows ->
    match delta_get O cd r with
    | Some (b, a) => venc O (col_get O C r) (vnorm O (ci_type (c_info O C)) a) = true /\ venc O b (col_get O Cd r) = true
    | None => venc O (col_get O C r) (col_get O Cd r) = true
    end.

(* SC2: the `before` of the first change of a row equals the current cell (up to encoding); and the rows exist *)
Fixpoint calc_ok (C : column) (cd : coldelta O) (rows : list Z) (chs : list (change O)) : Prop :=
  match chs with
  | [] => True
  | (r, (b, a)) :: rest =>
      In r rows /\
      match delta_get O cd r with Some _ => True | None => venc O b (col_get O C r) = true end /\
      calc_ok (col_set O C r a) (delta_add O cd (r, (b, a))) rows rest
  end.

Lemma col_ci_calc : forall chs C cd Cd rows,
  col_ci cd C Cd rows -> calc_ok C cd rows chs ->
  col_ci (fold_left (delta_add O) chs cd) (fold_left (fun C ch => col_set O C (fst ch) (snd (snd ch))) chs C) Cd rows.
Proof.
  induction chs as [|[r [b a]] rest IH]; intros C cd Cd rows Hci Hok; cbn [fold_left fst snd]; [exact Hci|].
  cbn [calc_ok] in Hok. destruct Hok as [Hr [Hb Hrest]]. apply IH; [|exact Hrest].
  destruct Hci as [Hinfo Hcells]. split; [exact Hinfo|].
  intros r' Hr'. rewrite delta_get_add, col_get_set. cbn [col_set c_info]. specialize (Hcells r' Hr').
  destruct (Z.eqb_spec r' r) as [->|Hne]; [|exact Hcells].
  split; [apply (venc_refl O L)|].
  destruct (delta_get O cd r) as [[b0 a0]|]; [apply Hcells|].
  eapply (venc_trans O L); eassumption.
Qed.


Definition calc_rel (sd : state) (sm : summary) (s : state) : Prop :=
  forall t, match find_table O s t, find_table O sd t with
            | None, None => True
            | Some T, Some Td =>
                (forall r, In r (t_rows O T) <-> In r (t_rows O Td)) /\
                forall c, match find_col O (t_cols O T) c, find_col O (t_cols O Td) c with
                          | None, None => True
                          | Some C, Some Cd => col_ci (delta_of sm t c) C Cd (t_rows O T)
                          | _, _ => False
                          end
            | _, _ => False
            end.

Definition deltas_live (sm : summary) (s : state) : Prop :=
  forall t c r, delta_get O (delta_of sm t c) r <> None -> existing s t c r.

Definition same_marks (sm1 sm2 : summary) : Prop :=
  (forall t, tab_created sm1 t = tab_created sm2 t) /\
  (forall t c, col_created sm1 t c = col_created sm2 t c) /\
  (forall t r, row_before sm1 t r = row_before sm2 t r) /\
  (forall t r, row_after sm1 t r = row_after sm2 t r).

Record calc_inv (sd : state) (smd : summary) (m : mstate O) : Prop := mkCalcInv {
  ci_rel : calc_rel sd (m_sum O m) (m_doc O m);
  ci_live : deltas_live (m_sum O m) (m_doc O m);
  ci_marks : same_marks (m_sum O m) smd }.

Lemma nodeltas_delta_of : forall sm t c, sum_nodeltas O sm -> delta_of sm t c = [].
Proof.
  intros sm t c H. unfold delta_of. destruct (td_find O (sm_tables O sm) t) as [td|] eqn:E; [|reflexivity].
  rewrite (H _ _ E). reflexivity.
Qed.

Lemma calc_inv_init : forall sd smd, sum_nodeltas O smd -> calc_inv sd smd (mkM O sd [] [] smd) -> True.
Proof. trivial. Qed.

Lemma calc_rel_init : forall sd smd, sum_nodeltas O smd -> calc_rel sd smd sd.
Proof.
  intros sd smd Hnd t. destruct (find_table O sd t) as [T|]; [|exact I].
  split; [tauto|]. intro c. destruct (find_col O (t_cols O T) c) as [C|]; [|exact I].
  rewrite nodeltas_delta_of by exact Hnd. split; [reflexivity|]. intros r _. cbn. apply (venc_refl O L).
Qed.

Definition calc_event_ok (m : mstate O) (t c : name) (chs : list (change O)) : Prop :=
  match find_table O (m_doc O m) t with
  | Some T => match find_col O (t_cols O T) c with
              | Some C => calc_ok C (delta_of (m_sum O m) t c) (t_rows O T) chs
              | None => False
              end
  | None => False
  end.

Lemma fold_col_set_id : forall chs C,
  c_id O (fold_left (fun C (ch : change O) => col_set O C (fst ch) (snd (snd ch))) chs C) = c_id O C.
Proof. induction chs as [|ch chs IH]; intro C; cbn; [reflexivity|]. rewrite IH. reflexivity. Qed.

Lemma delta_get_fold_add : forall chs cd r,
  delta_get O (fold_left (delta_add O) chs cd) r <> None -> delta_get O cd r <> None \/ In r (map fst chs).
Proof.
  induction chs as [|[r0 [b a]] chs IH]; intros cd r H; cbn [fold_left map fst] in *; [left; exact H|].
  destruct (IH _ _ H) as [H1|H1]; [|right; right; exact H1].
  rewrite delta_get_add in H1. destruct (Z.eqb_spec r r0) as [->|Hne]; [right; left; reflexivity | left; exact H1].
Qed.

Lemma calc_ok_rows : forall chs C cd rows, calc_ok C cd rows chs -> forall r, In r (map fst chs) -> In r rows.
Proof.
  induction chs as [|[r0 [b a]] chs IH]; intros C cd rows H r Hr; cbn in *; [contradiction|].
  destruct H as [H0 [_ Hrest]]. destruct Hr as [<-|Hr]; [exact H0 | eapply IH; eassumption].
Qed.

Lemma calc_step : forall sd smd m m' t c chs,
  calc_inv sd smd m -> calc_event_ok m t c chs -> step O m (Calc O t c chs) = Ok m' ->
  calc_inv sd smd m' /\ m_undo O m' = m_undo O m /\ m_stored O m' = m_stored O m.
Proof.
  intros sd smd m m' t c chs [Hrel Hlive Hmarks] Hok H. cbn [step] in H.
  unfold calc_cells in H. unfold calc_event_ok in Hok.
  destruct (find_table O (m_doc O m) t) as [T|] eqn:Ef; [|contradiction].
  destruct (find_col O (t_cols O T) c) as [C|] eqn:Ec; [|contradiction].
  pose proof (add_changes_spec (m_sum O m) t c chs) as [Ht [Hc [Hb [Ha Hd]]]]. cbv zeta in Ht, Hc, Hb, Ha, Hd.
  remember (sum_apply O (m_sum O m) (SAddChanges O t c chs)) as sm1 eqn:Esm1.
  cbn [bind] in H. inversion H; subst m'; clear H. cbn [m_doc m_undo m_stored m_sum].
  split; [|split; reflexivity].
  pose proof (find_table_id O _ _ _ Ef) as HidT. pose proof (find_col_id O _ _ _ Ec) as HidC.
  set (C' := fold_left (fun C ch => col_set O C (fst ch) (snd (snd ch))) chs C) in *.
  assert (HidC' : c_id O C' = c) by (unfold C'; rewrite fold_col_set_id; exact HidC).
  constructor; cbn [m_doc m_sum].
  - intro t0. rewrite find_put_table by exact HidT. specialize (Hrel t0). name_cases t0 t.
    + subst t0. rewrite Ef in *. destruct (find_table O sd t) as [Td|]; [|contradiction].
      destruct Hrel as [Hrows Hcols]. split; [exact Hrows|]. cbn [t_cols t_rows].
      intro c0. rewrite find_put_col by exact HidC'. rewrite Hd, name_eqb_refl. cbn [andb]. specialize (Hcols c0).
      name_cases c0 c.
      * subst c0. rewrite Ec in *. destruct (find_col O (t_cols O Td) c) as [Cd|]; [|contradiction].
        apply col_ci_calc; assumption.
      * exact Hcols.
    + destruct (find_table O (m_doc O m) t0), (find_table O sd t0); try exact Hrel.
      destruct Hrel as [Hrows Hcols]. split; [exact Hrows|]. intro c0. rewrite Hd, E. cbn [andb]. exact (Hcols c0).
  - intros t0 c0 r Hg. rewrite Hd in Hg.
    assert (Hput : forall t1 c1 r1, existing (m_doc O m) t1 c1 r1 ->
                   existing (put_table O (m_doc O m) t (mkTab O (t_id O T) (t_rows O T) (put_col O (t_cols O T) c C'))) t1 c1 r1).
    { intros t1 c1 r1 [T1 [C1 [Hf1 [Hc1 Hr1]]]]. unfold existing. rewrite find_put_table by exact HidT.
      name_cases t1 t.
      - subst t1. rewrite Ef. assert (T1 = T) by congruence. subst T1.
        exists (mkTab O (t_id O T) (t_rows O T) (put_col O (t_cols O T) c C')).
        cbn [t_cols t_rows]. rewrite find_put_col by exact HidC'. name_cases c1 c.
        + subst c1. rewrite Ec. exists C'. split; [reflexivity|]. split; [reflexivity | exact Hr1].
        + exists C1. split; [reflexivity|]. split; [exact Hc1 | exact Hr1].
      - exists T1, C1. auto. }
    destruct (name_eqb t0 t && name_eqb c0 c) eqn:Etc; [|apply Hput; apply Hlive; exact Hg].
    apply andb_true_iff in Etc. destruct Etc as [Et Ecc]. apply name_eqb_eq in Et. apply name_eqb_eq in Ecc. subst t0 c0.
    apply Hput. destruct (delta_get_fold_add _ _ _ Hg) as [H1|H1]; [apply Hlive; exact H1|].
    exists T, C. split; [exact Ef|]. split; [exact Ec|]. eapply calc_ok_rows; eassumption.
  - destruct Hmarks as [M1 [M2 [M3 M4]]]. repeat split; intros; rewrite ?Ht, ?Hc, ?Hb, ?Ha; auto.
Qed.


(* ------------------------------------------------------------------------------------------------ *)
(* the flush: what _changes_to_actions appends to the undo list for one column *)

Lemma insert_by_In : forall (A : Type) (ltb : A -> A -> bool) x l y, In y (insert_by ltb x l) <-> y = x \/ In y l.
Proof.
  intros A ltb x l y. induction l as [|z l IH]; cbn; [intuition|].
  destruct (ltb z x); cbn; [rewrite IH|]; intuition.
Qed.

Lemma sort_by_In : forall (A : Type) (ltb : A -> A -> bool) l y, In y (sort_by ltb l) <-> In y l.
Proof.
  intros A ltb l y. unfold sort_by. induction l as [|x l IH]; cbn; [tauto|].
  rewrite insert_by_In, IH. intuition.
Qed.

Definition changed_rows (cd : coldelta O) : list Z :=
  sort_by Z.ltb (map fst (filter (fun ch : change O => negb (venc O (fst (snd ch)) (snd (snd ch)))) cd)).

(* the rows whose `before` value is put back *)
Definition restore_rows (sm : summary) (t c : name) (cd : coldelta O) : list Z :=
  if sum_is_created O sm t c then []
  else filter (fun r => match row_before sm t r with Some false => false | _ => true end) (changed_rows cd).

Definition restore_block (sm : summary) (t c : name) (cd : coldelta O) : list action :=
  match restore_rows sm t c cd with
  | [] => []
  | rows => [update_action O t c cd rows false]
  end.

(* the stored update of a column delta: the `after` values of the rows whose encoding changed *)
Definition store_block (t c : name) (cd : coldelta O) : list action :=
  match changed_rows cd with
  | [] => []
  | _ :: _ => [update_action O t c cd (changed_rows cd) true]
  end.

Lemma changed_rows_in : forall cd r, In r (changed_rows cd) -> delta_get O cd r <> None.
Proof.
  intros cd r H. unfold changed_rows in H. apply sort_by_In in H. apply in_map_iff in H.
  destruct H as [[r' ba] [Hr Hin]]. cbn in Hr. subst r'. apply filter_In in Hin. destruct Hin as [Hin _].
  clear -Hin. induction cd as [|[r0 x] cd IH]; cbn in *; [contradiction|].
  destruct (Z.eqb_spec r r0); [discriminate|]. destruct Hin as [Hin|Hin]; [inversion Hin; congruence | apply IH; exact Hin].
Qed.

Lemma filter_same : forall (A : Type) (f g : A -> bool) l, (forall x, In x l -> f x = g x) -> filter f l = filter g l.
Proof.
  intros A f g l H. induction l as [|x l IH]; cbn; [reflexivity|].
  rewrite (H x) by (left; reflexivity). rewrite IH; [reflexivity|]. intros y Hy. apply H. right. exact Hy.
Qed.

Lemma filter_none : forall (A : Type) (f : A -> bool) l, (forall x, In x l -> f x = false) -> filter f l = [].
Proof.
  intros A f l H. induction l as [|x l IH]; cbn; [reflexivity|].
  rewrite (H x) by (left; reflexivity). apply IH. intros y Hy. apply H. right. exact Hy.
Qed.

Lemma cta_undo : forall (sm : summary) t c cd S U td,
  is_defunct t = false -> is_defunct c = false -> td_find O (sm_tables O sm) t = Some td ->
  (forall r, delta_get O cd r <> None -> row_after sm t r <> Some false) ->
  changes_to_actions O sm t c cd (S, U) = Ok (S ++ store_block t c cd, U ++ restore_block sm t c cd).
Proof.
  intros sm t c cd S U td Hdt Hdc Htd Hafter. unfold changes_to_actions.
  assert (Hnil : cd = [] \/ cd <> []) by (destruct cd; [left | right]; congruence).
  destruct Hnil as [->|Hne].
  - unfold restore_block, restore_rows, store_block, changed_rows. cbn.
    destruct (sum_is_created O sm t c); rewrite !app_nil_r; reflexivity.
  - rewrite match_nonnil by exact Hne. rewrite Hdt, Hdc, Htd. cbn [orb negb andb].
    pose proof (root_name_not_defunct t Hdt) as Ht. pose proof (root_name_not_defunct c Hdc) as Hc.
    rewrite Ht, Hc.
    unfold restore_block, restore_rows, store_block.
    match goal with |- context [sort_by Z.ltb ?l] => change (sort_by Z.ltb l) with (changed_rows cd) end.
    set (cr := changed_rows cd).
    assert (Hcr : filter_out_gone_rows O sm t cr = cr).
    { unfold filter_out_gone_rows. rewrite Htd. apply filter_all. intros r Hr.
      pose proof (Hafter r (changed_rows_in cd r Hr)) as Ha. unfold row_after in Ha. rewrite Htd in Ha.
      destruct (pres_get (td_after O td) r) as [[|]|]; try reflexivity. congruence. }
    rewrite Hcr.
    assert (Hst : match cr with [] => S | _ :: _ => S ++ [update_action O t c cd cr true] end =
                  S ++ match cr with [] => [] | _ :: _ => [update_action O t c cd cr true] end)
      by (destruct cr; [rewrite app_nil_r|]; reflexivity).
    rewrite Hst. clear Hst.
    destruct (sum_is_created O sm t c) eqn:Ecr; cbn [andb].
    + rewrite app_nil_r. reflexivity.
    + unfold filter_out_new_rows, filter_out_gone_rows. rewrite Htd.
      set (rb := filter (fun r => match pres_get (td_before O td) r with Some false => false | _ => true end) cr).
      assert (Hrb : rb = filter (fun r => match row_before sm t r with Some false => false | _ => true end) cr).
      { unfold rb. apply filter_same. intros r _. unfold row_before. rewrite Htd. reflexivity. }
      assert (Hpres : filter (fun r => match pres_get (td_after O td) r with Some false => false | _ => true end) rb = rb).
      { apply filter_all. intros r Hr. unfold rb in Hr. apply filter_In in Hr. destruct Hr as [Hr _].
        pose proof (Hafter r (changed_rows_in cd r Hr)) as Ha. unfold row_after in Ha. rewrite Htd in Ha.
        destruct (pres_get (td_after O td) r) as [[|]|]; try reflexivity. congruence. }
      rewrite Hpres.
      assert (Hdef : filter (fun r => negb (zmem r rb)) rb = []).
      { apply filter_none. intros r Hr. apply negb_false_iff. apply zmem_In. exact Hr. }
      rewrite Hdef. rewrite <- Hrb. destruct rb; [rewrite app_nil_r|]; reflexivity.
Qed.


Lemma cta_nil : forall (sm : summary) t c so, changes_to_actions O sm t c [] so = Ok so.
Proof. reflexivity. Qed.

Lemma restore_block_nil : forall (sm : summary) t c, restore_block sm t c [] = [].
Proof. intros. unfold restore_block, restore_rows, changed_rows. cbn. destruct (sum_is_created O sm t c); reflexivity. Qed.

(* the condition under which a column delta is flushed without front inserts *)
Definition delta_ok (sm : summary) (t c : name) (cd : coldelta O) : Prop :=
  cd <> [] -> is_defunct t = false /\ is_defunct c = false /\
              forall r, delta_get O cd r <> None -> row_after sm t r <> Some false.

Lemma cta_undo' : forall (sm : summary) t c cd S U td,
  td_find O (sm_tables O sm) t = Some td -> delta_ok sm t c cd ->
  changes_to_actions O sm t c cd (S, U) = Ok (S ++ store_block t c cd, U ++ restore_block sm t c cd).
Proof.
  intros sm t c cd S U td Htd Hok.
  assert (Hnil : cd = [] \/ cd <> []) by (destruct cd; [left | right]; congruence).
  destruct Hnil as [->|Hne].
  - rewrite cta_nil, restore_block_nil. unfold store_block, changed_rows. cbn. rewrite !app_nil_r. reflexivity.
  - destruct (Hok Hne) as [Hdt [Hdc Ha]]. eapply cta_undo; eassumption.
Qed.

Definition cols_block (sm : summary) (t : name) (td : tdelta O) (keys : list name) : list action :=
  flat_map (fun c => match cd_find O (td_deltas O td) c with Some cd => restore_block sm t c cd | None => [] end) keys.

Definition cols_sblock (t : name) (td : tdelta O) (keys : list name) : list action :=
  flat_map (fun c => match cd_find O (td_deltas O td) c with Some cd => store_block t c cd | None => [] end) keys.

Lemma flush_cols : forall (sm : summary) t td keys S U,
  td_find O (sm_tables O sm) t = Some td ->
  (forall c cd, In c keys -> cd_find O (td_deltas O td) c = Some cd -> delta_ok sm t c cd) ->
    fold_left (fun acc c => bind acc (fun so' => match cd_find O (td_deltas O td) c with
                                                 | Some cd => changes_to_actions O sm t c cd so'
                                                 | None => Ok so'
                                                 end)) keys (Ok (S, U)) =
    Ok (S ++ cols_sblock t td keys, U ++ cols_block sm t td keys).
Proof.
  intros sm t td keys. induction keys as [|c keys IH]; intros S U Htd Hok; cbn.
  - rewrite !app_nil_r. reflexivity.
  - destruct (cd_find O (td_deltas O td) c) as [cd|] eqn:Ec.
    + rewrite (cta_undo' sm t c cd S U td Htd (Hok c cd (or_introl eq_refl) Ec)).
      rewrite IH; [rewrite <- !app_assoc; reflexivity | exact Htd|].
      intros c0 cd0 Hin. apply Hok. right. exact Hin.
    + rewrite IH; [reflexivity | exact Htd|].
      intros c0 cd0 Hin. apply Hok. right. exact Hin.
Qed.

Definition table_block (sm : summary) (t : name) : list action :=
  match td_find O (sm_tables O sm) t with
  | Some td => cols_block sm t td (sorted_keys (td_deltas O td))
  | None => []
  end.

Definition table_sblock (sm : summary) (t : name) : list action :=
  match td_find O (sm_tables O sm) t with
  | Some td => cols_sblock t td (sorted_keys (td_deltas O td))
  | None => []
  end.

Definition all_deltas_ok (sm : summary) : Prop :=
  forall t td c cd, td_find O (sm_tables O sm) t = Some td -> cd_find O (td_deltas O td) c = Some cd -> delta_ok sm t c cd.

Lemma flush_tables : forall (sm : summary) keys S U,
  all_deltas_ok sm ->
  fold_left (fun acc t => bind acc (fun so' => flush_table O sm t so')) keys (Ok (S, U)) =
  Ok (S ++ flat_map (table_sblock sm) keys, U ++ flat_map (table_block sm) keys).
Proof.
  intros sm keys. induction keys as [|t keys IH]; intros S U Hok; cbn.
  - rewrite !app_nil_r. reflexivity.
  - unfold flush_table at 2. unfold table_block at 1. unfold table_sblock at 1.
    destruct (td_find O (sm_tables O sm) t) as [td|] eqn:Etd.
    + rewrite (flush_cols sm t td (sorted_keys (td_deltas O td)) S U Etd) by (intros c cd _ Hc; eapply Hok; eassumption).
      rewrite IH by exact Hok. rewrite <- !app_assoc. reflexivity.
    + rewrite IH by exact Hok. reflexivity.
Qed.

Definition all_blocks (sm : summary) : list action := flat_map (table_block sm) (sorted_keys (sm_tables O sm)).

Definition all_sblocks (sm : summary) : list action := flat_map (table_sblock sm) (sorted_keys (sm_tables O sm)).

Lemma flush_all_undo : forall (sm : summary) S U, all_deltas_ok sm ->
  flush_all O sm (S, U) = Ok (S ++ all_sblocks sm, U ++ all_blocks sm).
Proof. intros sm S U Hok. unfold flush_all, all_blocks, all_sblocks. apply flush_tables. exact Hok. Qed.


(* ------------------------------------------------------------------------------------------------ *)
(* replaying the restore blocks brings the cells back to what the doc actions left (except created cells) *)

Definition pair_mem (t c : name) (K : list (name * name)) : Prop := In (t, c) K.

(* K: the columns whose block has been replayed already *)
Definition near (K : list (name * name)) (sd : state) (sm : summary) (s1 : state) : Prop :=
  forall t, match find_table O s1 t, find_table O sd t with
            | None, None => True
            | Some T, Some Td =>
                (forall r, In r (t_rows O T) <-> In r (t_rows O Td)) /\
                forall c, match find_col O (t_cols O T) c, find_col O (t_cols O Td) c with
                          | None, None => True
                          | Some C, Some Cd =>
                              c_info O C = c_info O Cd /\
                              forall r, In r (t_rows O T) ->
                                created sm t c r \/ venc O (col_get O C r) (col_get O Cd r) = true \/
                                (~ pair_mem t c K /\
                                 exists b a, delta_get O (delta_of sm t c) r = Some (b, a) /\
                                             venc O (col_get O C r) (vnorm O (ci_type (c_info O C)) a) = true)
                          | _, _ => False
                          end
            | _, _ => False
            end.

(* the `before` of every delta is the value the doc actions left *)
Definition befores_ok (sd : state) (sm : summary) : Prop :=
  forall t Td c Cd r b a, find_table O sd t = Some Td -> find_col O (t_cols O Td) c = Some Cd ->
    delta_get O (delta_of sm t c) r = Some (b, a) -> venc O b (col_get O Cd r) = true.

Lemma near_of_calc_rel : forall sd sm s, calc_rel sd sm s -> near [] sd sm s.
Proof.
  intros sd sm s H t. specialize (H t).
  destruct (find_table O s t) as [T|], (find_table O sd t) as [Td|]; try exact H.
  destruct H as [Hr Hc]. split; [exact Hr|]. intro c. specialize (Hc c).
  destruct (find_col O (t_cols O T) c) as [C|], (find_col O (t_cols O Td) c) as [Cd|]; try exact Hc.
  destruct Hc as [Hi Hcells]. split; [exact Hi|]. intros r Hin. specialize (Hcells r Hin).
  destruct (delta_get O (delta_of sm t c) r) as [[b a]|] eqn:Ed.
  - right. right. split; [intros []|]. exists b, a. split; [reflexivity | apply Hcells].
  - right. left. exact Hcells.
Qed.

Lemma befores_of_calc_rel : forall sd sm s, calc_rel sd sm s -> deltas_live sm s -> befores_ok sd sm.
Proof.
  intros sd sm s H Hlive t Td c Cd r b a Hf Hc Hd.
  assert (Hex : existing s t c r) by (apply Hlive; rewrite Hd; discriminate).
  destruct Hex as [T [C [Hft [Hfc Hr]]]]. specialize (H t). rewrite Hft, Hf in H.
  destruct H as [_ Hcols]. specialize (Hcols c). rewrite Hfc, Hc in Hcols.
  destruct Hcols as [_ Hcells]. specialize (Hcells r Hr). rewrite Hd in Hcells. apply Hcells.
Qed.

Lemma near_final : forall K sd sm s1,
  near K sd sm s1 -> (forall t c r, delta_get O (delta_of sm t c) r <> None -> pair_mem t c K) ->
  seq_ex O (created sm) s1 sd.
Proof.
  intros K sd sm s1 H HK t. specialize (H t).
  destruct (find_table O s1 t) as [T|], (find_table O sd t) as [Td|]; cbn; try exact H.
  destruct H as [Hr Hc]. split; [exact Hr|]. intro c. specialize (Hc c).
  destruct (find_col O (t_cols O T) c) as [C|], (find_col O (t_cols O Td) c) as [Cd|]; cbn; try exact Hc.
  destruct Hc as [Hi Hcells]. split; [exact Hi|]. intros r Hin.
  destruct (Hcells r Hin) as [H1|[H1|[Hn [b [a [Hd _]]]]]]; [left; exact H1 | right; exact H1|].
  exfalso. apply Hn. apply (HK t c r). rewrite Hd. discriminate.
Qed.


Lemma changed_rows_complete : forall cd r b a,
  delta_get O cd r = Some (b, a) -> venc O b a = false -> In r (changed_rows cd).
Proof.
  intros cd r b a Hd He. unfold changed_rows. apply sort_by_In. apply in_map_iff.
  exists (r, (b, a)). split; [reflexivity|]. apply filter_In. split; [|cbn; rewrite He; reflexivity].
  induction cd as [|[r0 x] cd IH]; cbn in *; [discriminate|].
  destruct (Z.eqb_spec r r0) as [->|Hne]; [left; congruence | right; apply IH; exact Hd].
Qed.

Lemma set_val_delta_values : forall cd rows (after : bool) r,
  (forall r', In r' rows -> delta_get O cd r' <> None) ->
  set_val O rows (delta_values O cd rows after) r =
  if zmem r rows then match delta_get O cd r with Some (b, a) => Some (if after then a else b) | None => None end else None.
Proof.
  intros cd rows after r. induction rows as [|r0 rows IH]; intro H; cbn; [reflexivity|].
  unfold delta_values in *. cbn [flat_map].
  destruct (delta_get O cd r0) as [[b0 a0]|] eqn:E0; [|exfalso; apply (H r0); [left; reflexivity | exact E0]].
  cbn [app set_val]. rewrite IH by (intros r' Hr'; apply H; right; exact Hr').
  destruct (zmem r rows) eqn:Ez.
  - destruct (delta_get O cd r) as [[b a]|] eqn:E.
    + destruct (Z.eqb r r0); reflexivity.
    + exfalso. apply (H r); [right; apply zmem_In; exact Ez | exact E].
  - destruct (Z.eqb_spec r r0) as [->|Hne]; [rewrite E0; reflexivity | reflexivity].
Qed.

Lemma delta_values_length : forall cd rows after,
  (forall r', In r' rows -> delta_get O cd r' <> None) -> length (delta_values O cd rows after) = length rows.
Proof.
  intros cd rows after. induction rows as [|r0 rows IH]; intro H; cbn; [reflexivity|].
  unfold delta_values in *. cbn [flat_map].
  destruct (delta_get O cd r0) as [[b0 a0]|] eqn:E0; [|exfalso; apply (H r0); [left; reflexivity | exact E0]].
  cbn. f_equal. apply IH. intros r' Hr'. apply H. right. exact Hr'.
Qed.

Lemma restore_rows_delta : forall sm t c cd r, In r (restore_rows sm t c cd) -> delta_get O cd r <> None.
Proof.
  intros sm t c cd r H. unfold restore_rows in H. destruct (sum_is_created O sm t c); [contradiction|].
  apply filter_In in H. apply changed_rows_in. apply H.
Qed.

(* a row with a delta that is not among the restored rows is either created or already equal (its delta did not
   change the encoding) *)
Lemma unrestored_row_fine : forall sd sm t Td c Cd (C : column) r b a,
  wf_state O sd -> befores_ok sd sm ->
  find_table O sd t = Some Td -> find_col O (t_cols O Td) c = Some Cd -> In r (t_rows O Td) ->
  c_info O C = c_info O Cd ->
  delta_get O (delta_of sm t c) r = Some (b, a) ->
  ~ In r (restore_rows sm t c (delta_of sm t c)) ->
  venc O (col_get O C r) (vnorm O (ci_type (c_info O C)) a) = true ->
  created sm t c r \/ venc O (col_get O C r) (col_get O Cd r) = true.
Proof.
  intros sd sm t Td c Cd C r b a Hwf Hbef Hf Hc Hr Hinfo Hd Hnot Hcell.
  unfold restore_rows in Hnot.
  destruct (sum_is_created O sm t c) eqn:Ecr; [left; left; exact Ecr|].
  destruct (venc O b a) eqn:Eba.
  - right. pose proof (Hbef _ _ _ _ _ _ _ Hf Hc Hd) as Hb.
    destruct (Hwf _ _ Hf) as [_ [_ Hnorm]]. pose proof (Hnorm _ _ Hc r Hr) as Hn.
    rewrite Hinfo in Hcell.
    eapply (venc_trans O L); [exact Hcell|].
    eapply (venc_trans O L); [apply (vnorm_enc O L); apply (venc_sym O L); exact Eba|].
    eapply (venc_trans O L); [apply (vnorm_enc O L); exact Hb | exact Hn].
  - left. right. pose proof (changed_rows_complete _ _ _ _ Hd Eba) as Hin.
    destruct (row_before sm t r) as [[|]|] eqn:Erb.
    + exfalso. apply Hnot. apply filter_In. split; [exact Hin | rewrite Erb; reflexivity].
    + unfold row_before in Erb. destruct (td_find O (sm_tables O sm) t) as [td|]; [|discriminate]. exists td. auto.
    + exfalso. apply Hnot. apply filter_In. split; [exact Hin | rewrite Erb; reflexivity].
Qed.


Definition live_in (sd : state) (sm : summary) : Prop :=
  forall t c r, delta_get O (delta_of sm t c) r <> None -> existing sd t c r.

Lemma near_mono_cell : forall K t c t1 c1, ~ pair_mem t1 c1 K -> (t1, c1) <> (t, c) -> ~ pair_mem t1 c1 ((t, c) :: K).
Proof. intros K t c t1 c1 H Hne [Heq|Hin]; [apply Hne; congruence | apply H; exact Hin]. Qed.

Lemma block_step : forall K sd sm s1 t c,
  near K sd sm s1 -> wf_state O sd -> befores_ok sd sm -> live_in sd sm ->
  exists s', replay_doc O (rev (restore_block sm t c (delta_of sm t c))) s1 = Ok s' /\ near ((t, c) :: K) sd sm s'.
Proof.
  intros K sd sm s1 t c Hnear Hwf Hbef Hlive.
  set (cd := delta_of sm t c). remember (restore_rows sm t c cd) as rows eqn:Hrowsdef.
  assert (Hrows_delta : forall r, In r rows -> delta_get O cd r <> None) by (intros r Hr; rewrite Hrowsdef in Hr; eapply restore_rows_delta; exact Hr).
  (* what `near` must say for column (t, c) once its block is replayed, given a table that agrees on that column *)
  assert (Hfine : forall Td Cd (C : column) r b a,
            find_table O sd t = Some Td -> find_col O (t_cols O Td) c = Some Cd -> In r (t_rows O Td) ->
            c_info O C = c_info O Cd -> delta_get O cd r = Some (b, a) -> ~ In r rows ->
            venc O (col_get O C r) (vnorm O (ci_type (c_info O C)) a) = true ->
            created sm t c r \/ venc O (col_get O C r) (col_get O Cd r) = true).
  { intros Td Cd C r b a H1 H2 H3 H4 H5 H6 H7. rewrite Hrowsdef in H6. eapply unrestored_row_fine; eassumption. }
  unfold restore_block. fold cd. rewrite <- Hrowsdef. clear Hrowsdef.
  assert (Hnil : rows = [] \/ rows <> []) by (destruct rows; [left | right]; congruence).
  destruct Hnil as [Hnil|Hne].
  - rewrite Hnil. cbn. exists s1. split; [reflexivity|].
    intro t1. specialize (Hnear t1).
    destruct (find_table O s1 t1) as [T|] eqn:Ef1, (find_table O sd t1) as [Td|] eqn:Efd; try exact Hnear.
    destruct Hnear as [Hr Hc]. split; [exact Hr|]. intro c1. specialize (Hc c1).
    destruct (find_col O (t_cols O T) c1) as [C|] eqn:Ec1, (find_col O (t_cols O Td) c1) as [Cd|] eqn:Ecd; try exact Hc.
    destruct Hc as [Hi Hcells]. split; [exact Hi|]. intros r Hin.
    destruct (Hcells r Hin) as [H1|[H1|[Hn [b [a [Hd Hv]]]]]]; [left; exact H1 | right; left; exact H1|].
    destruct (name_eq_dec t1 t) as [->|Hnt].
    + destruct (name_eq_dec c1 c) as [->|Hnc].
      * destruct (Hfine Td Cd C r b a Efd Ecd (proj1 (Hr r) Hin) Hi Hd) as [H2|H2]; [rewrite Hnil; intros [] | exact Hv | left; exact H2 | right; left; exact H2].
      * right. right. split; [apply near_mono_cell; [exact Hn | congruence]|]. eauto.
    + right. right. split; [apply near_mono_cell; [exact Hn | congruence]|]. eauto.
  - (* the table and the column exist *)
    destruct rows as [|r0 rows0] eqn:Erows; [contradiction|]. cbv beta iota. rewrite <- Erows in *. clear Hne.
    assert (Hr0 : In r0 rows) by (rewrite Erows; left; reflexivity).
    destruct (Hlive t c r0 (Hrows_delta r0 Hr0)) as [Td [Cd [Efd [Ecd _]]]].
    pose proof (Hnear t) as Hnt. rewrite Efd in Hnt.
    destruct (find_table O s1 t) as [T|] eqn:Ef1; [|contradiction].
    destruct Hnt as [Hrws Hcols]. pose proof (Hcols c) as Hcc. rewrite Ecd in Hcc.
    destruct (find_col O (t_cols O T) c) as [C|] eqn:Ec1; [|contradiction].
    destruct Hcc as [Hinfo Hcells].
    pose proof (find_table_id O _ _ _ Ef1) as HidT.
    set (vals := delta_values O cd rows false).
    assert (Hlen : length vals = length rows) by (apply delta_values_length; exact Hrows_delta).
    assert (Hcid : c <> id_name) by (eapply wf_col_not_id; [apply (Hwf _ _ Efd) | exact Ecd]).
    assert (Hok : colvals_ok O rows [(c, vals)] = true).
    { unfold colvals_ok. cbn [map fst snd nodup_names nmem forallb negb andb].
      rewrite (proj2 (Nat.eqb_eq _ _) Hlen).
      assert (name_eqb id_name c = false) as -> by (apply name_eqb_neq; congruence). reflexivity. }
    assert (Hall : all_in rows (t_rows O T) = true).
    { apply all_in_iff. intros r Hr. apply Hrws. destruct (Hlive t c r (Hrows_delta r Hr)) as [Td' [Cd' [Hf' [_ Hin']]]].
      assert (Td' = Td) by congruence. subst Td'. exact Hin'. }
    assert (Hne : rows <> []) by (rewrite Erows; discriminate).
    destruct (apply_BulkUpdate_ok O s1 t T rows [(c, vals)] Ef1 Hok Hne Hall) as [cs [u' [Hcs Hstep]]].
    { intros c0 [Hc0|[]]. cbn in Hc0. subst c0. rewrite Ec1. discriminate. }
    cbn [rev app replay_doc]. unfold update_action. fold vals. rewrite Hstep. cbn [bind fst].
    eexists. split; [reflexivity|].
    assert (Hndc : nodup_names (map fst [(c, vals)]) = true) by reflexivity.
    destruct (set_columns_spec O _ _ _ _ Hndc Hcs) as [_ Hspec].
    intro t1. rewrite find_put_table by exact HidT. name_cases t1 t.
    + subst t1. rewrite Ef1, Efd. split; [exact Hrws|]. cbn [t_cols t_rows]. intro c1.
      specialize (Hspec c1). pose proof (Hcols c1) as Hc1.
      destruct (find_col O (t_cols O T) c1) as [C1|] eqn:Ec11.
      * destruct (find_col O (t_cols O Td) c1) as [Cd1|] eqn:Ecd1; [|contradiction].
        destruct Hspec as [C1' [Hf1' [Hi1' Hg1']]]. rewrite Hf1'. destruct Hc1 as [Hi1 Hcells1].
        split; [congruence|]. intros r Hin. rewrite Hg1'. unfold cell_after. cbn [cols_get].
        rewrite (find_col_id O _ _ _ Ec11). rewrite Hi1'.
        name_cases c1 c.
        -- subst c1. assert (C1 = C) by congruence. subst C1. assert (Cd1 = Cd) by congruence. subst Cd1.
           unfold vals. rewrite (set_val_delta_values cd rows false) by exact Hrows_delta.
           destruct (zmem r rows) eqn:Ez.
           ++ apply zmem_In in Ez. destruct (delta_get O cd r) as [[b a]|] eqn:Ed; [|exfalso; exact (Hrows_delta r Ez Ed)].
              right. left. pose proof (Hbef _ _ _ _ _ _ _ Efd Ecd Ed) as Hb.
              destruct (Hwf _ _ Efd) as [_ [_ Hnorm]]. pose proof (Hnorm _ _ Ecd r (proj1 (Hrws r) Hin)) as Hn.
              rewrite Hinfo. eapply (venc_trans O L); [apply (vnorm_enc O L); exact Hb | exact Hn].
           ++ destruct (Hcells r Hin) as [H1|[H1|[Hn [b [a [Hd Hv]]]]]]; [left; exact H1 | right; left; exact H1|].
              destruct (Hfine Td Cd C r b a Efd Ecd (proj1 (Hrws r) Hin) Hinfo Hd) as [H2|H2];
                [apply zmem_false; exact Ez | exact Hv | left; exact H2 | right; left; exact H2].
        -- destruct (Hcells1 r Hin) as [H1|[H1|[Hn [b [a [Hd Hv]]]]]]; [left; exact H1 | right; left; exact H1|].
           right. right. split; [apply near_mono_cell; [exact Hn | congruence]|]. exists b, a. split; [exact Hd | exact Hv].
      * destruct (find_col O (t_cols O Td) c1); [contradiction|]. rewrite Hspec. exact I.
    + specialize (Hnear t1).
      destruct (find_table O s1 t1) as [T1|] eqn:Ef11, (find_table O sd t1) as [Td1|] eqn:Efd1; try exact Hnear.
      destruct Hnear as [Hr1 Hc1]. split; [exact Hr1|]. intro c1. specialize (Hc1 c1).
      destruct (find_col O (t_cols O T1) c1) as [C1|], (find_col O (t_cols O Td1) c1) as [Cd1|]; try exact Hc1.
      destruct Hc1 as [Hi1 Hcells1]. split; [exact Hi1|]. intros r Hin.
      destruct (Hcells1 r Hin) as [H1|[H1|[Hn [b [a [Hd Hv]]]]]]; [left; exact H1 | right; left; exact H1|].
      right. right. split; [apply near_mono_cell; [exact Hn | congruence]|]. eauto.
Qed.


(* ------------------------------------------------------------------------------------------------ *)
(* all blocks of the flush *)

Lemma td_find_in : forall l t d, td_find O l t = Some d -> In t (map fst l).
Proof.
  induction l as [|[t0 d0] l IH]; intros t d H; cbn in *; [discriminate|].
  name_cases t t0; [left; congruence | right; eapply IH; exact H].
Qed.

Lemma cd_find_in : forall l c d, cd_find O l c = Some d -> In c (map fst l).
Proof.
  induction l as [|[c0 d0] l IH]; intros c d H; cbn in *; [discriminate|].
  name_cases c c0; [left; congruence | right; eapply IH; exact H].
Qed.

Lemma cols_block_eq : forall (sm : summary) t td keys,
  td_find O (sm_tables O sm) t = Some td ->
  cols_block sm t td keys = flat_map (fun c => restore_block sm t c (delta_of sm t c)) keys.
Proof.
  intros sm t td keys Htd. unfold cols_block. induction keys as [|c keys IH]; cbn; [reflexivity|].
  rewrite IH. f_equal. unfold delta_of. rewrite Htd.
  destruct (cd_find O (td_deltas O td) c); [reflexivity | rewrite restore_block_nil; reflexivity].
Qed.

Lemma replay_cols : forall sd sm t keys K s1,
  near K sd sm s1 -> wf_state O sd -> befores_ok sd sm -> live_in sd sm ->
  exists s', replay_doc O (rev (flat_map (fun c => restore_block sm t c (delta_of sm t c)) keys)) s1 = Ok s' /\
             near (map (pair t) keys ++ K) sd sm s'.
Proof.
  intros sd sm t keys. induction keys as [|c keys IH]; intros K s1 Hn Hwf Hb Hl; cbn [flat_map map app].
  - exists s1. split; [reflexivity | exact Hn].
  - rewrite rev_app_distr, (replay_doc_app O).
    destruct (IH K s1 Hn Hwf Hb Hl) as [s2 [Hr2 Hn2]]. rewrite Hr2.
    destruct (block_step _ sd sm s2 t c Hn2 Hwf Hb Hl) as [s3 [Hr3 Hn3]].
    exists s3. split; [exact Hr3 | exact Hn3].
Qed.

Definition table_pairs (sm : summary) (t : name) : list (name * name) :=
  match td_find O (sm_tables O sm) t with
  | Some td => map (pair t) (sorted_keys (td_deltas O td))
  | None => []
  end.

Lemma replay_tables : forall sd sm tkeys K s1,
  near K sd sm s1 -> wf_state O sd -> befores_ok sd sm -> live_in sd sm ->
  exists s', replay_doc O (rev (flat_map (table_block sm) tkeys)) s1 = Ok s' /\
             near (flat_map (table_pairs sm) tkeys ++ K) sd sm s'.
Proof.
  intros sd sm tkeys. induction tkeys as [|t tkeys IH]; intros K s1 Hn Hwf Hb Hl; cbn [flat_map app].
  - exists s1. split; [reflexivity | exact Hn].
  - rewrite rev_app_distr, (replay_doc_app O).
    destruct (IH K s1 Hn Hwf Hb Hl) as [s2 [Hr2 Hn2]]. rewrite Hr2.
    unfold table_block, table_pairs. destruct (td_find O (sm_tables O sm) t) as [td|] eqn:Etd.
    + rewrite (cols_block_eq sm t td _ Etd).
      destruct (replay_cols sd sm t (sorted_keys (td_deltas O td)) _ s2 Hn2 Hwf Hb Hl) as [s3 [Hr3 Hn3]].
      exists s3. split; [exact Hr3|]. rewrite <- app_assoc. exact Hn3.
    + exists s2. split; [reflexivity | exact Hn2].
Qed.

Lemma all_pairs_cover : forall (sm : summary) t c r,
  delta_get O (delta_of sm t c) r <> None ->
  In (t, c) (flat_map (table_pairs sm) (sorted_keys (sm_tables O sm)) ++ []).
Proof.
  intros sm t c r H. rewrite app_nil_r. unfold delta_of in H.
  destruct (td_find O (sm_tables O sm) t) as [td|] eqn:Etd; [|cbn in H; congruence].
  destruct (cd_find O (td_deltas O td) c) as [cd|] eqn:Ecd; [|cbn in H; congruence].
  apply in_flat_map. exists t. split.
  - unfold sorted_keys. apply sort_by_In. eapply td_find_in. exact Etd.
  - unfold table_pairs. rewrite Etd. apply in_map. unfold sorted_keys. apply sort_by_In. eapply cd_find_in. exact Ecd.
Qed.

Theorem replay_all_blocks : forall sd sm s1,
  near [] sd sm s1 -> wf_state O sd -> befores_ok sd sm -> live_in sd sm ->
  exists s', replay_doc O (rev (all_blocks sm)) s1 = Ok s' /\ seq_ex O (created sm) s' sd.
Proof.
  intros sd sm s1 Hn Hwf Hb Hl.
  destruct (replay_tables sd sm (sorted_keys (sm_tables O sm)) [] s1 Hn Hwf Hb Hl) as [s' [Hr Hn']].
  exists s'. split; [exact Hr|]. eapply near_final; [exact Hn'|].
  intros t c r H. eapply all_pairs_cover. exact H.
Qed.


(* ------------------------------------------------------------------------------------------------ *)
(* a bundle: doc actions, then calc deltas, then the flush *)

Definition calc_ev := (name * name * list (change O))%type.
Definition calc_event (ce : calc_ev) : event O := let '(t, c, chs) := ce in Calc O t c chs.

Fixpoint calcs_ok (m : mstate O) (calcs : list calc_ev) : Prop :=
  match calcs with
  | [] => True
  | (t, c, chs) :: rest =>
      calc_event_ok m t c chs /\
      match step O m (Calc O t c chs) with Ok m' => calcs_ok m' rest | Err _ => True end
  end.

Lemma calc_phase : forall calcs sd smd m m',
  calc_inv sd smd m -> calcs_ok m calcs -> steps O m (map calc_event calcs) = Ok m' ->
  calc_inv sd smd m' /\ m_undo O m' = m_undo O m /\ m_stored O m' = m_stored O m.
Proof.
  induction calcs as [|[[t c] chs] rest IH]; intros sd smd m m' Hinv Hok H; cbn [map steps calc_event] in H.
  - inversion H; subst. auto.
  - cbn [calcs_ok] in Hok. destruct Hok as [Hev Hrest].
    destruct (step O m (Calc O t c chs)) as [m1|] eqn:Es; cbn [bind] in H; [|discriminate].
    destruct (calc_step _ _ _ _ _ _ _ Hinv Hev Es) as [Hinv1 [Hu1 Hs1]].
    destruct (IH _ _ _ _ Hinv1 Hrest H) as [Hinv' [Hu' Hs']].
    split; [exact Hinv'|]. split; congruence.
Qed.

Lemma created_same_marks : forall sm1 sm2 t c r, same_marks sm1 sm2 -> created sm1 t c r -> created sm2 t c r.
Proof.
  intros sm1 sm2 t c r [M1 [M2 [M3 _]]] H. apply created_iff in H. apply created_iff.
  rewrite <- M1, <- M2, <- M3. exact H.
Qed.

Lemma existing_calc_rel : forall sd sm s t c r, calc_rel sd sm s -> existing s t c r -> existing sd t c r.
Proof.
  intros sd sm s t c r H [T [C [Hf [Hc Hr]]]]. specialize (H t). rewrite Hf in H.
  destruct (find_table O sd t) as [Td|] eqn:Efd; [|contradiction]. destruct H as [Hrows Hcols].
  specialize (Hcols c). rewrite Hc in Hcols. destruct (find_col O (t_cols O Td) c) as [Cd|] eqn:Ecd; [|contradiction].
  exists Td, Cd. split; [exact Efd|]. split; [exact Ecd | apply Hrows; exact Hr].
Qed.

(* the initial machine of a bundle *)
Definition m_init (s : state) : mstate O := mkM O s [] [] (sum_empty O).

Lemma docs_inv_init : forall s, wf_state O s -> names_ok s -> docs_inv s (m_init s).
Proof.
  intros s Hwf Hn. constructor; cbn.
  - apply tr_ok_init.
  - exact Hwf.
  - split; [exact Hn|]. split.
    + intros t H. cbn in H. congruence.
    + intros t T r _ _. unfold row_after. cbn. discriminate.
  - apply sum_empty_nodeltas.
Qed.

Theorem calc_bundle_undo : forall s acts calcs s' out,
  wf_state O s -> names_ok s -> lossless_run O s acts -> names_run acts ->
  (forall m, steps O (m_init s) (map (Doc O) acts) = Ok m -> calcs_ok m calcs) ->
  run O s (map (Doc O) acts ++ map calc_event calcs) = Ok (s', out) ->
  exists s'', replay_doc O (rev (o_undo O out)) s' = Ok s'' /\ seq O s'' s.
Proof.
  intros s acts calcs s' out Hwf Hnames Hl Hnr Hcalcs H. unfold run in H. fold (m_init s) in H.
  rewrite !(steps_app O) in H.
  destruct (steps O (m_init s) (map (Doc O) acts)) as [md|] eqn:Ed; [|discriminate].
  destruct (docs_phase acts s (m_init s) md (docs_inv_init s Hwf Hnames) Hl Hnr Ed) as [[Htr Hwfd [Hnd_names [Hkeys Hafter]] Hnd] _].
  specialize (Hcalcs md eq_refl).
  destruct (steps O md (map calc_event calcs)) as [mc|] eqn:Ec; [|discriminate].
  assert (Hci0 : calc_inv (m_doc O md) (m_sum O md) md).
  { constructor.
    - apply calc_rel_init. exact Hnd.
    - intros t c r Hg. rewrite nodeltas_delta_of in Hg by exact Hnd. cbn in Hg. congruence.
    - repeat split; reflexivity. }
  destruct (calc_phase calcs _ _ md mc Hci0 Hcalcs Ec) as [[Hrel Hlive Hmarks] [Hu _]].
  cbn [steps step] in H.
  assert (Hlive_d : live_in (m_doc O md) (m_sum O mc)).
  { intros t c r Hg. eapply existing_calc_rel; [exact Hrel | apply Hlive; exact Hg]. }
  assert (Hok : all_deltas_ok (m_sum O mc)).
  { intros t td c cd Htd Hcd Hne.
    assert (Hdo : delta_of (m_sum O mc) t c = cd) by (unfold delta_of; rewrite Htd, Hcd; reflexivity).
    destruct cd as [|[r0 x0] cd0] eqn:Ecd; [congruence|].
    assert (Hg0 : delta_get O (delta_of (m_sum O mc) t c) r0 <> None) by (rewrite Hdo; cbn; rewrite Z.eqb_refl; discriminate).
    destruct (Hlive_d t c r0 Hg0) as [Td [Cd [Hft [Hfc _]]]].
    destruct (Hnd_names _ _ Hft) as [Hdt Hdc]. split; [exact Hdt|]. split; [exact (Hdc _ _ Hfc)|].
    intros r Hg. rewrite <- Hdo in Hg. destruct (Hlive_d t c r Hg) as [Td' [Cd' [Hft' [_ Hr']]]].
    destruct Hmarks as [_ [_ [_ M4]]]. rewrite M4. eapply Hafter; eassumption. }
  rewrite (flush_all_undo (m_sum O mc) (m_stored O mc) (m_undo O mc) Hok) in H. cbn in H. inversion H; subst s' out; clear H. cbn [o_undo].
  rewrite Hu. rewrite rev_app_distr, (replay_doc_app O).
  destruct (replay_all_blocks (m_doc O md) (m_sum O mc) (m_doc O mc)) as [s1 [Hr1 Hs1]].
  - apply near_of_calc_rel. exact Hrel.
  - exact Hwfd.
  - eapply befores_of_calc_rel; eassumption.
  - exact Hlive_d.
  - rewrite Hr1. apply Htr. eapply seq_ex_weaken; [|exact Hs1].
    intros t c r Hc. eapply created_same_marks; eassumption.
Qed.


(* ------------------------------------------------------------------------------------------------ *)
(* the hypotheses as one computable check (what the harness evaluates on every recorded trace) *)

Definition wf_tableb (T : table) : bool :=
  nodup_names (map (c_id O) (t_cols O T)) && negb (nmem id_name (map (c_id O) (t_cols O T))) &&
  forallb (fun C => forallb (fun r => venc O (vnorm O (ci_type (c_info O C)) (col_get O C r)) (col_get O C r)) (t_rows O T))
          (t_cols O T).

Definition wf_stateb (s : state) : bool := forallb wf_tableb s.

Lemma find_table_In : forall s t T, find_table O s t = Some T -> In T s.
Proof.
  induction s as [|T0 s IH]; intros t T H; cbn in H; [discriminate|].
  destruct (name_eqb t (t_id O T0)); [inversion H; subst; left; reflexivity | right; eapply IH; exact H].
Qed.

Lemma wf_stateb_sound : forall s, wf_stateb s = true -> wf_state O s.
Proof.
  intros s H t T Hf. unfold wf_stateb in H. rewrite forallb_forall in H.
  specialize (H T (find_table_In _ _ _ Hf)). unfold wf_tableb in H.
  apply andb_true_iff in H. destruct H as [H H3]. apply andb_true_iff in H. destruct H as [H1 H2].
  split; [exact H1|]. split; [apply negb_true_iff; exact H2|].
  intros c C Hc r Hr. rewrite forallb_forall in H3. specialize (H3 C (find_col_In O _ _ _ Hc)).
  rewrite forallb_forall in H3. apply H3. exact Hr.
Qed.

Definition names_okb (s : state) : bool :=
  forallb (fun T => negb (is_defunct (t_id O T)) && forallb (fun C => negb (is_defunct (c_id O C))) (t_cols O T)) s.

Lemma names_okb_sound : forall s, names_okb s = true -> names_ok s.
Proof.
  intros s H t T Hf. unfold names_okb in H. rewrite forallb_forall in H.
  specialize (H T (find_table_In _ _ _ Hf)). apply andb_true_iff in H. destruct H as [H1 H2].
  split; [rewrite <- (find_table_id O _ _ _ Hf); apply negb_true_iff; exact H1|].
  intros c C Hc. rewrite forallb_forall in H2. specialize (H2 C (find_col_In O _ _ _ Hc)).
  rewrite <- (find_col_id O _ _ _ Hc). apply negb_true_iff. exact H2.
Qed.

Definition act_names_okb (a : action) : bool :=
  match a with
  | AddTable _ t cols => negb (is_defunct t) && forallb (fun ci => negb (is_defunct (fst ci))) cols
  | RenameTable _ _ new => negb (is_defunct new)
  | AddColumn _ _ c _ => negb (is_defunct c)
  | RenameColumn _ _ _ new => negb (is_defunct new)
  | _ => true
  end.

Lemma act_names_okb_sound : forall a, act_names_okb a = true -> act_names_ok a.
Proof.
  intros a H. destruct a; cbn in *; try exact I; try (apply negb_true_iff; exact H).
  apply andb_true_iff in H. destruct H as [H1 H2]. split; [apply negb_true_iff; exact H1 | exact H2].
Qed.

Lemma names_run_sound : forall acts, forallb act_names_okb acts = true -> names_run acts.
Proof.
  induction acts as [|a rest IH]; intro H; cbn in *; [exact I|].
  apply andb_true_iff in H. destruct H as [H1 H2]. split; [apply act_names_okb_sound; exact H1 | apply IH; exact H2].
Qed.

Fixpoint calc_okb (C : column) (cd : coldelta O) (rows : list Z) (chs : list (change O)) : bool :=
  match chs with
  | [] => true
  | (r, (b, a)) :: rest =>
      zmem r rows &&
      match delta_get O cd r with Some _ => true | None => venc O b (col_get O C r) end &&
      calc_okb (col_set O C r a) (delta_add O cd (r, (b, a))) rows rest
  end.

Lemma calc_okb_sound : forall chs C cd rows, calc_okb C cd rows chs = true -> calc_ok C cd rows chs.
Proof.
  induction chs as [|[r [b a]] rest IH]; intros C cd rows H; cbn [calc_okb calc_ok] in *; [exact I|].
  apply andb_true_iff in H. destruct H as [H H3]. apply andb_true_iff in H. destruct H as [H1 H2].
  split; [apply zmem_In; exact H1|]. split; [destruct (delta_get O cd r); [exact I | exact H2] | apply IH; exact H3].
Qed.

Definition calc_event_okb (m : mstate O) (t c : name) (chs : list (change O)) : bool :=
  match find_table O (m_doc O m) t with
  | Some T => match find_col O (t_cols O T) c with
              | Some C => calc_okb C (delta_of (m_sum O m) t c) (t_rows O T) chs
              | None => false
              end
  | None => false
  end.

Fixpoint calcs_okb (m : mstate O) (calcs : list calc_ev) : bool :=
  match calcs with
  | [] => true
  | (t, c, chs) :: rest =>
      calc_event_okb m t c chs &&
      match step O m (Calc O t c chs) with Ok m' => calcs_okb m' rest | Err _ => true end
  end.

Lemma calcs_okb_sound : forall calcs m, calcs_okb m calcs = true -> calcs_ok m calcs.
Proof.
  induction calcs as [|[[t c] chs] rest IH]; intros m H; cbn [calcs_okb calcs_ok] in *; [exact I|].
  apply andb_true_iff in H. destruct H as [H1 H2]. split.
  - unfold calc_event_okb in H1. unfold calc_event_ok.
    destruct (find_table O (m_doc O m) t) as [T|]; [|discriminate].
    destruct (find_col O (t_cols O T) c) as [C|]; [|discriminate]. apply calc_okb_sound. exact H1.
  - destruct (step O m (Calc O t c chs)); [apply IH; exact H2 | exact I].
Qed.

(* doc actions first, then calc deltas, nothing else *)
Fixpoint split_calcs (es : list (event O)) : option (list calc_ev) :=
  match es with
  | [] => Some []
  | Calc _ t c chs :: rest => match split_calcs rest with Some l => Some ((t, c, chs) :: l) | None => None end
  | _ => None
  end.

Fixpoint split_events (es : list (event O)) : option (list action * list calc_ev) :=
  match es with
  | Doc _ a :: rest => match split_events rest with Some (acts, calcs) => Some (a :: acts, calcs) | None => None end
  | _ => match split_calcs es with Some calcs => Some ([], calcs) | None => None end
  end.

Lemma split_calcs_sound : forall es calcs, split_calcs es = Some calcs -> es = map calc_event calcs.
Proof.
  induction es as [|e es IH]; intros calcs H; cbn in H.
  - inversion H; subst. reflexivity.
  - destruct e; try discriminate. destruct (split_calcs es) as [l|]; [|discriminate].
    inversion H; subst. cbn. f_equal. apply IH. reflexivity.
Qed.

Lemma split_events_sound : forall es acts calcs,
  split_events es = Some (acts, calcs) -> es = map (Doc O) acts ++ map calc_event calcs.
Proof.
  induction es as [|e es IH]; intros acts calcs H.
  - cbn in H. inversion H; subst. reflexivity.
  - destruct e.
    + cbn in H. destruct (split_events es) as [[acts' calcs']|]; [|discriminate]. inversion H; subst.
      cbn. f_equal. apply IH. reflexivity.
    + cbn [split_events] in H. destruct (split_calcs (Calc O t c chs :: es)) as [l|] eqn:E; [|discriminate].
      inversion H; subst. cbn [map app]. apply split_calcs_sound. exact E.
    + cbn in H. discriminate.
    + cbn in H. discriminate.
Qed.

Definition bundle_ok2 (s : state) (es : list (event O)) : bool :=
  match split_events es with
  | Some (acts, calcs) =>
      wf_stateb s && names_okb s && lossless_runb O s acts && forallb act_names_okb acts &&
      match steps O (m_init s) (map (Doc O) acts) with Ok m => calcs_okb m calcs | Err _ => true end
  | None => false
  end.

Theorem bundle_ok2_undo : forall s es s' out,
  bundle_ok2 s es = true -> run O s es = Ok (s', out) ->
  exists s'', replay_doc O (rev (o_undo O out)) s' = Ok s'' /\ seq O s'' s.
Proof.
  intros s es s' out Hok H. unfold bundle_ok2 in Hok.
  destruct (split_events es) as [[acts calcs]|] eqn:Es; [|discriminate].
  rewrite (split_events_sound _ _ _ Es) in H.
  apply andb_true_iff in Hok. destruct Hok as [Hok H5]. apply andb_true_iff in Hok. destruct Hok as [Hok H4].
  apply andb_true_iff in Hok. destruct Hok as [Hok H3]. apply andb_true_iff in Hok. destruct Hok as [H1 H2].
  eapply calc_bundle_undo; try eassumption.
  - apply wf_stateb_sound. exact H1.
  - apply names_okb_sound. exact H2.
  - apply (lossless_runb_sound O). exact H3.
  - apply names_run_sound. exact H4.
  - intros m Hm. rewrite Hm in H5. apply calcs_okb_sound. exact H5.
Qed.


(* ------------------------------------------------------------------------------------------------ *)
(* redo: the stored updates of the flush, replayed on what the doc actions give, reproduce the final document *)

Definition near2 (K : list (name * name)) (sc : state) (sm : summary) (s1 : state) : Prop :=
  forall t, match find_table O s1 t, find_table O sc t with
            | None, None => True
            | Some T, Some Tc =>
                (forall r, In r (t_rows O T) <-> In r (t_rows O Tc)) /\
                forall c, match find_col O (t_cols O T) c, find_col O (t_cols O Tc) c with
                          | None, None => True
                          | Some C, Some Cc =>
                              c_info O C = c_info O Cc /\
                              forall r, In r (t_rows O T) ->
                                venc O (col_get O C r) (col_get O Cc r) = true \/
                                (~ pair_mem t c K /\ In r (changed_rows (delta_of sm t c)))
                          | _, _ => False
                          end
            | _, _ => False
            end.

(* the final cell of a delta holds its `after` (normalised) *)
Definition afters_ok (sc : state) (sm : summary) : Prop :=
  forall t Tc c Cc r b a, find_table O sc t = Some Tc -> find_col O (t_cols O Tc) c = Some Cc -> In r (t_rows O Tc) ->
    delta_get O (delta_of sm t c) r = Some (b, a) ->
    venc O (col_get O Cc r) (vnorm O (ci_type (c_info O Cc)) a) = true.

Lemma afters_of_calc_rel : forall sd sm s, calc_rel sd sm s -> afters_ok s sm.
Proof.
  intros sd sm s H t Tc c Cc r b a Hf Hc Hr Hd. specialize (H t). rewrite Hf in H.
  destruct (find_table O sd t) as [Td|]; [|contradiction]. destruct H as [_ Hcols]. specialize (Hcols c). rewrite Hc in Hcols.
  destruct (find_col O (t_cols O Td) c) as [Cd|]; [|contradiction]. destruct Hcols as [_ Hcells].
  specialize (Hcells r Hr). rewrite Hd in Hcells. apply Hcells.
Qed.

Lemma near2_init : forall sd sm sc s1,
  calc_rel sd sm sc -> wf_state O sd -> seq O s1 sd -> near2 [] sc sm s1.
Proof.
  intros sd sm sc s1 Hrel Hwf Hseq t. specialize (Hrel t). specialize (Hseq t).
  destruct (find_table O s1 t) as [T1|], (find_table O sd t) as [Td|] eqn:Efd; cbn in Hseq;
    destruct (find_table O sc t) as [Tc|]; try contradiction; try exact I.
  destruct Hseq as [Hr1 Hc1]. destruct Hrel as [Hr2 Hc2].
  split; [intro r; rewrite (Hr1 r); symmetry; apply Hr2|].
  intro c. specialize (Hc1 c). specialize (Hc2 c).
  destruct (find_col O (t_cols O T1) c) as [C1|], (find_col O (t_cols O Td) c) as [Cd|] eqn:Ecd; cbn in Hc1;
    destruct (find_col O (t_cols O Tc) c) as [Cc|]; try contradiction; try exact I.
  destruct Hc1 as [Hi1 Hcells1]. destruct Hc2 as [Hi2 Hcells2].
  split; [congruence|]. intros r Hin.
  destruct (in_dec Z.eq_dec r (changed_rows (delta_of sm t c))) as [Hch|Hch]; [right; split; [intros []|exact Hch]|].
  left. destruct (Hcells1 r Hin) as [[]|H1].
  assert (Hrc : In r (t_rows O Tc)) by (apply Hr2; apply Hr1; exact Hin).
  specialize (Hcells2 r Hrc).
  eapply (venc_trans O L); [exact H1|]. apply (venc_sym O L).
  destruct (delta_get O (delta_of sm t c) r) as [[b a]|] eqn:Ed; [|exact Hcells2].
  destruct Hcells2 as [Ha Hb].
  destruct (venc O b a) eqn:Eba; [|exfalso; apply Hch; eapply changed_rows_complete; eassumption].
  destruct (Hwf _ _ Efd) as [_ [_ Hnorm]]. pose proof (Hnorm _ _ Ecd r (proj1 (Hr1 r) Hin)) as Hn.
  eapply (venc_trans O L); [exact Ha|]. rewrite Hi2.
  eapply (venc_trans O L); [apply (vnorm_enc O L); apply (venc_sym O L); exact Eba|].
  eapply (venc_trans O L); [apply (vnorm_enc O L); exact Hb | exact Hn].
Qed.

Lemma near2_final : forall K sc sm s1,
  near2 K sc sm s1 -> (forall t c r, delta_get O (delta_of sm t c) r <> None -> pair_mem t c K) -> seq O s1 sc.
Proof.
  intros K sc sm s1 H HK t. specialize (H t).
  destruct (find_table O s1 t) as [T|], (find_table O sc t) as [Tc|]; cbn; try exact H.
  destruct H as [Hr Hc]. split; [exact Hr|]. intro c. specialize (Hc c).
  destruct (find_col O (t_cols O T) c) as [C|], (find_col O (t_cols O Tc) c) as [Cc|]; cbn; try exact Hc.
  destruct Hc as [Hi Hcells]. split; [exact Hi|]. intros r Hin.
  destruct (Hcells r Hin) as [H1|[Hn Hch]]; [right; exact H1|].
  exfalso. apply Hn. apply (HK t c r). apply changed_rows_in. exact Hch.
Qed.

Lemma sblock_step : forall K sc sm s1 t c,
  near2 K sc sm s1 -> wf_state O sc -> afters_ok sc sm -> live_in sc sm ->
  exists s', replay_doc O (store_block t c (delta_of sm t c)) s1 = Ok s' /\ near2 ((t, c) :: K) sc sm s'.
Proof.
  intros K sc sm s1 t c Hnear Hwf Haft Hlive.
  set (cd := delta_of sm t c). unfold store_block. fold cd.
  remember (changed_rows cd) as rows eqn:Hrowsdef.
  assert (Hrows_delta : forall r, In r rows -> delta_get O cd r <> None) by (intros r Hr; rewrite Hrowsdef in Hr; apply changed_rows_in; exact Hr).
  assert (Hnil : rows = [] \/ rows <> []) by (destruct rows; [left | right]; congruence).
  destruct Hnil as [Hnil|Hne].
  - rewrite Hnil. cbn. exists s1. split; [reflexivity|].
    intro t1. specialize (Hnear t1).
    destruct (find_table O s1 t1) as [T|], (find_table O sc t1) as [Tc|]; try exact Hnear.
    destruct Hnear as [Hr Hc]. split; [exact Hr|]. intro c1. specialize (Hc c1).
    destruct (find_col O (t_cols O T) c1) as [C|], (find_col O (t_cols O Tc) c1) as [Cc|]; try exact Hc.
    destruct Hc as [Hi Hcells]. split; [exact Hi|]. intros r Hin.
    destruct (Hcells r Hin) as [H1|[Hn Hch]]; [left; exact H1|].
    right. split; [|exact Hch]. apply near_mono_cell; [exact Hn|].
    intro Heq. inversion Heq; subst t1 c1. fold cd in Hch. rewrite <- Hrowsdef, Hnil in Hch. destruct Hch.
  - destruct rows as [|r0 rows0] eqn:Erows; [contradiction|]. cbv beta iota. rewrite <- Erows in *. clear Hne.
    assert (Hr0 : In r0 rows) by (rewrite Erows; left; reflexivity).
    destruct (Hlive t c r0 (Hrows_delta r0 Hr0)) as [Tc [Cc [Efc [Ecc _]]]].
    pose proof (Hnear t) as Hnt. rewrite Efc in Hnt.
    destruct (find_table O s1 t) as [T|] eqn:Ef1; [|contradiction].
    destruct Hnt as [Hrws Hcols]. pose proof (Hcols c) as Hcc. rewrite Ecc in Hcc.
    destruct (find_col O (t_cols O T) c) as [C|] eqn:Ec1; [|contradiction].
    destruct Hcc as [Hinfo Hcells].
    pose proof (find_table_id O _ _ _ Ef1) as HidT.
    set (vals := delta_values O cd rows true).
    assert (Hlen : length vals = length rows) by (apply delta_values_length; exact Hrows_delta).
    assert (Hcid : c <> id_name) by (eapply wf_col_not_id; [apply (Hwf _ _ Efc) | exact Ecc]).
    assert (Hok : colvals_ok O rows [(c, vals)] = true).
    { unfold colvals_ok. cbn [map fst snd nodup_names nmem forallb negb andb].
      rewrite (proj2 (Nat.eqb_eq _ _) Hlen).
      assert (name_eqb id_name c = false) as -> by (apply name_eqb_neq; congruence). reflexivity. }
    assert (Hall : all_in rows (t_rows O T) = true).
    { apply all_in_iff. intros r Hr. apply Hrws. destruct (Hlive t c r (Hrows_delta r Hr)) as [Tc' [Cc' [Hf' [_ Hin']]]].
      assert (Tc' = Tc) by congruence. subst Tc'. exact Hin'. }
    assert (Hne : rows <> []) by (rewrite Erows; discriminate).
    destruct (apply_BulkUpdate_ok O s1 t T rows [(c, vals)] Ef1 Hok Hne Hall) as [cs [u' [Hcs Hstep]]].
    { intros c0 [Hc0|[]]. cbn in Hc0. subst c0. rewrite Ec1. discriminate. }
    rewrite Hrowsdef. fold cd. rewrite <- Hrowsdef.
    cbn [replay_doc]. unfold update_action. fold vals. rewrite Hstep. cbn [bind fst].
    eexists. split; [reflexivity|].
    assert (Hndc : nodup_names (map fst [(c, vals)]) = true) by reflexivity.
    destruct (set_columns_spec O _ _ _ _ Hndc Hcs) as [_ Hspec].
    intro t1. rewrite find_put_table by exact HidT. name_cases t1 t.
    + subst t1. rewrite Ef1, Efc. split; [exact Hrws|]. cbn [t_cols t_rows]. intro c1.
      specialize (Hspec c1). pose proof (Hcols c1) as Hc1.
      destruct (find_col O (t_cols O T) c1) as [C1|] eqn:Ec11.
      * destruct (find_col O (t_cols O Tc) c1) as [Cc1|] eqn:Ecc1; [|contradiction].
        destruct Hspec as [C1' [Hf1' [Hi1' Hg1']]]. rewrite Hf1'. destruct Hc1 as [Hi1 Hcells1].
        split; [congruence|]. intros r Hin. rewrite Hg1'. unfold cell_after. cbn [cols_get].
        rewrite (find_col_id O _ _ _ Ec11). rewrite ?Hi1'.
        name_cases c1 c.
        -- subst c1. assert (C1 = C) by congruence. subst C1. assert (Cc1 = Cc) by congruence. subst Cc1.
           unfold vals. rewrite (set_val_delta_values cd rows true) by exact Hrows_delta.
           destruct (zmem r rows) eqn:Ez.
           ++ apply zmem_In in Ez. destruct (delta_get O cd r) as [[b a]|] eqn:Ed; [|exfalso; exact (Hrows_delta r Ez Ed)].
              left. rewrite Hinfo. apply (venc_sym O L).
              eapply Haft; try eassumption. apply Hrws. exact Hin.
           ++ destruct (Hcells r Hin) as [H1|[Hn Hch]]; [left; exact H1|].
              exfalso. fold cd in Hch. rewrite <- Hrowsdef in Hch. apply zmem_false in Ez. contradiction.
        -- destruct (Hcells1 r Hin) as [H1|[Hn Hch]]; [left; exact H1|].
           right. split; [apply near_mono_cell; [exact Hn | congruence] | exact Hch].
      * destruct (find_col O (t_cols O Tc) c1); [contradiction|]. rewrite Hspec. exact I.
    + specialize (Hnear t1).
      destruct (find_table O s1 t1) as [T1|], (find_table O sc t1) as [Tc1|]; try exact Hnear.
      destruct Hnear as [Hr1 Hc1]. split; [exact Hr1|]. intro c1. specialize (Hc1 c1).
      destruct (find_col O (t_cols O T1) c1) as [C1|], (find_col O (t_cols O Tc1) c1) as [Cc1|]; try exact Hc1.
      destruct Hc1 as [Hi1 Hcells1]. split; [exact Hi1|]. intros r Hin.
      destruct (Hcells1 r Hin) as [H1|[Hn Hch]]; [left; exact H1|].
      right. split; [apply near_mono_cell; [exact Hn | congruence] | exact Hch].
Qed.


Lemma cols_sblock_eq : forall (sm : summary) t td keys,
  td_find O (sm_tables O sm) t = Some td ->
  cols_sblock t td keys = flat_map (fun c => store_block t c (delta_of sm t c)) keys.
Proof.
  intros sm t td keys Htd. unfold cols_sblock. induction keys as [|c keys IH]; cbn; [reflexivity|].
  rewrite IH. f_equal. unfold delta_of. rewrite Htd.
  destruct (cd_find O (td_deltas O td) c); [reflexivity|]. unfold store_block, changed_rows. reflexivity.
Qed.

Definition covers (K K' : list (name * name)) (extra : list (name * name)) : Prop :=
  forall p, In p K \/ In p extra -> In p K'.

Lemma replay_scols : forall sc sm t keys K s1,
  near2 K sc sm s1 -> wf_state O sc -> afters_ok sc sm -> live_in sc sm ->
  exists s' K', replay_doc O (flat_map (fun c => store_block t c (delta_of sm t c)) keys) s1 = Ok s' /\
                near2 K' sc sm s' /\ covers K K' (map (pair t) keys).
Proof.
  intros sc sm t keys. induction keys as [|c keys IH]; intros K s1 Hn Hwf Ha Hl; cbn [flat_map map].
  - exists s1, K. split; [reflexivity|]. split; [exact Hn|]. intros p [H|[]]. exact H.
  - rewrite (replay_doc_app O).
    destruct (sblock_step K sc sm s1 t c Hn Hwf Ha Hl) as [s2 [Hr2 Hn2]]. rewrite Hr2.
    destruct (IH _ s2 Hn2 Hwf Ha Hl) as [s3 [K3 [Hr3 [Hn3 Hc3]]]].
    exists s3, K3. split; [exact Hr3|]. split; [exact Hn3|].
    intros p [H|[H|H]]; apply Hc3; [left; right; exact H | left; left; exact H | right; exact H].
Qed.

Lemma replay_stables : forall sc sm tkeys K s1,
  near2 K sc sm s1 -> wf_state O sc -> afters_ok sc sm -> live_in sc sm ->
  exists s' K', replay_doc O (flat_map (table_sblock sm) tkeys) s1 = Ok s' /\
                near2 K' sc sm s' /\ covers K K' (flat_map (table_pairs sm) tkeys).
Proof.
  intros sc sm tkeys. induction tkeys as [|t tkeys IH]; intros K s1 Hn Hwf Ha Hl; cbn [flat_map].
  - exists s1, K. split; [reflexivity|]. split; [exact Hn|]. intros p [H|[]]. exact H.
  - rewrite (replay_doc_app O). unfold table_sblock at 1. unfold table_pairs at 1.
    destruct (td_find O (sm_tables O sm) t) as [td|] eqn:Etd.
    + rewrite (cols_sblock_eq sm t td _ Etd).
      destruct (replay_scols sc sm t (sorted_keys (td_deltas O td)) K s1 Hn Hwf Ha Hl) as [s2 [K2 [Hr2 [Hn2 Hc2]]]].
      rewrite Hr2. destruct (IH K2 s2 Hn2 Hwf Ha Hl) as [s3 [K3 [Hr3 [Hn3 Hc3]]]].
      exists s3, K3. split; [exact Hr3|]. split; [exact Hn3|].
      intros p [H|H]; [apply Hc3; left; apply Hc2; left; exact H|].
      apply in_app_or in H. destruct H as [H|H]; [apply Hc3; left; apply Hc2; right; exact H | apply Hc3; right; exact H].
    + cbn [replay_doc]. destruct (IH K s1 Hn Hwf Ha Hl) as [s3 [K3 [Hr3 [Hn3 Hc3]]]].
      exists s3, K3. split; [exact Hr3|]. split; [exact Hn3|]. intros p [H|H]; apply Hc3; [left | right]; exact H.
Qed.

Theorem replay_all_sblocks : forall sd sm sc s1,
  calc_rel sd sm sc -> deltas_live sm sc -> wf_state O sd -> wf_state O sc -> seq O s1 sd ->
  exists s', replay_doc O (all_sblocks sm) s1 = Ok s' /\ seq O s' sc.
Proof.
  intros sd sm sc s1 Hrel Hlive Hwfd Hwfc Hseq.
  destruct (replay_stables sc sm (sorted_keys (sm_tables O sm)) [] s1) as [s' [K' [Hr [Hn Hc]]]].
  - eapply near2_init; eassumption.
  - exact Hwfc.
  - eapply afters_of_calc_rel. exact Hrel.
  - exact Hlive.
  - exists s'. split; [exact Hr|]. eapply near2_final; [exact Hn|].
    intros t c r H. apply Hc. right. pose proof (all_pairs_cover sm t c r H) as Hin. rewrite app_nil_r in Hin. exact Hin.
Qed.

(* the calc phase keeps documents well formed *)
Lemma calc_cells_wf : forall s t c chs s', wf_state O s -> calc_cells O s t c chs = Ok s' -> wf_state O s'.
Proof.
  intros s t c chs s' Hwf H. unfold calc_cells in H.
  destruct (find_table O s t) as [T|] eqn:Ef; [|discriminate].
  destruct (find_col O (t_cols O T) c) as [C|] eqn:Ec; [|discriminate]. inversion H; subst s'; clear H.
  destruct (Hwf _ _ Ef) as [Hnd [Hnoid Hnorm]].
  set (C' := fold_left (fun C ch => col_set O C (fst ch) (snd (snd ch))) chs C).
  assert (HidC' : c_id O C' = c) by (unfold C'; rewrite fold_col_set_id; eapply find_col_id; exact Ec).
  apply wf_state_put; [exact Hwf | cbn; eapply find_table_id; exact Ef|].
  split; [cbn [t_cols]; rewrite put_col_ids by exact HidC'; exact Hnd|].
  split; [cbn [t_cols]; rewrite put_col_ids by exact HidC'; exact Hnoid|].
  cbn [t_cols t_rows]. intros c0 C0 Hf r Hr. rewrite find_put_col in Hf by exact HidC'.
  name_cases c0 c.
  - subst c0. rewrite Ec in Hf. inversion Hf; subst C0. clear Hf.
    unfold C'. clear HidC' C'. revert C Ec Hnorm. induction chs as [|[r0 [b a]] chs IH]; intros C Ec Hn; cbn [fold_left fst snd].
    + apply (Hn _ _ Ec). exact Hr.
    + (* generalise: any column with the same type whose cells at r are normal *)
      assert (Hgen : forall (D : column), (forall r1, In r1 (t_rows O T) -> normal_at O (ci_type (c_info O D)) (col_get O D r1)) ->
                     normal_at O (ci_type (c_info O (fold_left (fun C ch => col_set O C (fst ch) (snd (snd ch))) chs D)))
                               (col_get O (fold_left (fun C ch => col_set O C (fst ch) (snd (snd ch))) chs D) r)).
      { clear -L Hr. induction chs as [|[r1 [b1 a1]] chs IH]; intros D HD; cbn [fold_left fst snd]; [apply HD; exact Hr|].
        apply IH. intros r2 Hr2. rewrite col_get_set. cbn [col_set c_info].
        destruct (Z.eqb r2 r1); [apply (vnorm_idem O L) | apply HD; exact Hr2]. }
      apply Hgen. intros r1 Hr1. rewrite col_get_set. cbn [col_set c_info].
      destruct (Z.eqb r1 r0); [apply (vnorm_idem O L) | apply (Hn _ _ Ec); exact Hr1].
  - apply (Hnorm _ _ Hf). exact Hr.
Qed.

Lemma calc_steps_wf : forall calcs m m', wf_state O (m_doc O m) -> steps O m (map calc_event calcs) = Ok m' -> wf_state O (m_doc O m').
Proof.
  induction calcs as [|[[t c] chs] rest IH]; intros m m' Hwf H; cbn [map steps calc_event] in H.
  - inversion H; subst. exact Hwf.
  - cbn [step] in H. destruct (calc_cells O (m_doc O m) t c chs) as [s1|] eqn:Ec; cbn [bind] in H; [|discriminate].
    eapply IH; [|exact H]. cbn [m_doc]. eapply calc_cells_wf; eassumption.
Qed.

Theorem calc_bundle_redo : forall s acts calcs s' out s0,
  wf_state O s -> names_ok s -> lossless_run O s acts -> names_run acts ->
  (forall m, steps O (m_init s) (map (Doc O) acts) = Ok m -> calcs_ok m calcs) ->
  run O s (map (Doc O) acts ++ map calc_event calcs) = Ok (s', out) ->
  replay_doc O (rev (o_undo O out)) s' = Ok s0 ->
  exists s1, replay_doc O (o_stored O out) s0 = Ok s1 /\ seq O s1 s'.
Proof.
  intros s acts calcs s' out s0 Hwf Hnames Hl Hnr Hcalcs H Hundo.
  destruct (calc_bundle_undo s acts calcs s' out Hwf Hnames Hl Hnr Hcalcs H) as [s0' [Hu' Hs0]].
  assert (s0' = s0) by congruence. subst s0'.
  unfold run in H. fold (m_init s) in H. rewrite !(steps_app O) in H.
  destruct (steps O (m_init s) (map (Doc O) acts)) as [md|] eqn:Ed; [|discriminate].
  destruct (docs_phase acts s (m_init s) md (docs_inv_init s Hwf Hnames) Hl Hnr Ed) as [[Htr Hwfd [Hnd_names [Hkeys Hafter]] Hnd] Hstd].
  specialize (Hcalcs md eq_refl).
  destruct (steps O md (map calc_event calcs)) as [mc|] eqn:Ec; [|discriminate].
  assert (Hci0 : calc_inv (m_doc O md) (m_sum O md) md).
  { constructor.
    - apply calc_rel_init. exact Hnd.
    - intros t c r Hg. rewrite nodeltas_delta_of in Hg by exact Hnd. cbn in Hg. congruence.
    - repeat split; reflexivity. }
  destruct (calc_phase calcs _ _ md mc Hci0 Hcalcs Ec) as [[Hrel Hlive Hmarks] [Hu Hst]].
  cbn [steps step] in H.
  assert (Hlive_d : live_in (m_doc O md) (m_sum O mc)).
  { intros t c r Hg. eapply existing_calc_rel; [exact Hrel | apply Hlive; exact Hg]. }
  assert (Hok : all_deltas_ok (m_sum O mc)).
  { intros t td c cd Htd Hcd Hne.
    assert (Hdo : delta_of (m_sum O mc) t c = cd) by (unfold delta_of; rewrite Htd, Hcd; reflexivity).
    destruct cd as [|[r0 x0] cd0] eqn:Ecd; [congruence|].
    assert (Hg0 : delta_get O (delta_of (m_sum O mc) t c) r0 <> None) by (rewrite Hdo; cbn; rewrite Z.eqb_refl; discriminate).
    destruct (Hlive_d t c r0 Hg0) as [Td [Cd [Hft [Hfc _]]]].
    destruct (Hnd_names _ _ Hft) as [Hdt Hdc]. split; [exact Hdt|]. split; [exact (Hdc _ _ Hfc)|].
    intros r Hg. rewrite <- Hdo in Hg. destruct (Hlive_d t c r Hg) as [Td' [Cd' [Hft' [_ Hr']]]].
    destruct Hmarks as [_ [_ [_ M4]]]. rewrite M4. eapply Hafter; eassumption. }
  rewrite (flush_all_undo (m_sum O mc) (m_stored O mc) (m_undo O mc) Hok) in H.
  cbn in H. inversion H; subst s' out; clear H. cbn [o_stored].
  rewrite Hst, Hstd. cbn [m_init m_stored app]. rewrite (replay_doc_app O).
  (* the doc actions, replayed on the undone document *)
  destruct (steps_docs O acts s [] [] (sum_empty O) md (sum_empty_nodeltas O) Hl Ed) as [U' [Hrun _]].
  destruct (docs_redo O L acts s (m_doc O md) U' s0 Hrun Hs0) as [sd' [Hrd Hsd]].
  rewrite Hrd.
  eapply replay_all_sblocks; try eassumption.
  eapply calc_steps_wf; eassumption.
Qed.

Theorem bundle_ok2_redo : forall s es s' out s0,
  bundle_ok2 s es = true -> run O s es = Ok (s', out) ->
  replay_doc O (rev (o_undo O out)) s' = Ok s0 ->
  exists s1, replay_doc O (o_stored O out) s0 = Ok s1 /\ seq O s1 s'.
Proof.
  intros s es s' out s0 Hok H Hu. unfold bundle_ok2 in Hok.
  destruct (split_events es) as [[acts calcs]|] eqn:Es; [|discriminate].
  rewrite (split_events_sound _ _ _ Es) in H.
  apply andb_true_iff in Hok. destruct Hok as [Hok H5]. apply andb_true_iff in Hok. destruct Hok as [Hok H4].
  apply andb_true_iff in Hok. destruct Hok as [Hok H3]. apply andb_true_iff in Hok. destruct Hok as [H1 H2].
  eapply calc_bundle_redo; try eassumption.
  - apply wf_stateb_sound. exact H1.
  - apply names_okb_sound. exact H2.
  - apply (lossless_runb_sound O). exact H3.
  - apply names_run_sound. exact H4.
  - intros m Hm. rewrite Hm in H5. apply calcs_okb_sound. exact H5.
Qed.


(* whole histories of such bundles *)
Fixpoint bundles_ok2 (s : state) (bs : list (list (event O))) : bool :=
  match bs with
  | [] => true
  | es :: rest =>
      bundle_ok2 s es && match run O s es with Ok (s1, _) => bundles_ok2 s1 rest | Err _ => true end
  end.

Lemma bundles_ok2_sound : forall bs s, bundles_ok2 s bs = true -> bundles_ok O s bs.
Proof.
  induction bs as [|es rest IH]; intros s H; cbn in *; [exact I|].
  apply andb_true_iff in H. destruct H as [H1 H2]. split.
  - intros s' out Hr. eapply bundle_ok2_undo; eassumption.
  - destruct (run O s es) as [[s1 o]|]; [apply IH; exact H2 | exact I].
Qed.

Theorem history_ok2_undo : forall bs s s' us,
  bundles_ok2 s bs = true -> run_history O s bs = Ok (s', us) ->
  exists s'', undo_history O us s' = Ok s'' /\ seq O s'' s.
Proof. intros bs s s' us H Hr. eapply (history_undo O L); [apply bundles_ok2_sound; exact H | exact Hr]. Qed.

End Calc.
