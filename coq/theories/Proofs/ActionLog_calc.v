(* K1, stage 2: bundles whose doc actions come first and whose calc deltas (formula recalculation) follow,
   flushed at the end -- the shape of an ordinary bundle (user actions, then Engine._bring_all_up_to_date, then
   ActionGroup.flush_calc_changes).  Proofs about the ActionSummary: which cells it treats as created in the
   bundle, and that the restores it emits at the flush undo the calc deltas. *)
From Coq Require Import ZArith List Bool Lia.
Import ListNotations.
Require Import Grist.Model.ActionLog Grist.Proofs.ActionLog_proofs.
Open Scope Z_scope.

Ltac name_cases a b :=
  let E := fresh "E" in
  destruct (name_eqb a b) eqn:E;
  [apply name_eqb_eq in E | pose proof (proj1 (name_eqb_neq _ _) E)].

(* ------------------------------------------------------------------------------------------------ *)
(* LabelRenames as an association list *)

Lemma ren_get_del : forall m k k', ren_get (ren_del m k) k' = if name_eqb k' k then None else ren_get m k'.
Proof.
  induction m as [|[k0 v0] m IH]; intros k k'; cbn.
  - destruct (name_eqb k' k); reflexivity.
  - name_cases k k0.
    + subst k0. rewrite IH. name_cases k' k; reflexivity.
    + cbn. name_cases k' k0.
      * subst k'. assert (name_eqb k0 k = false) as -> by (apply name_eqb_neq; congruence). reflexivity.
      * apply IH.
Qed.

Lemma ren_get_set : forall m k v k', ren_get (ren_set m k v) k' = if name_eqb k' k then Some v else ren_get m k'.
Proof.
  intros m k v k'. unfold ren_set. cbn. rewrite ren_get_del. destruct (name_eqb k' k); reflexivity.
Qed.

Lemma ren_get_add_rename_new : forall m b k after,
  ren_get (add_rename m b after) k =
  if name_eqb k after then
    Some (match b with
          | None => None
          | Some x => match ren_get m x with Some o => o | None => Some x end
          end)
  else match b with
       | Some x => if name_eqb k x then (match ren_get m x with Some _ => None | None => ren_get m k end) else ren_get m k
       | None => ren_get m k
       end.
Proof.
  intros m b k after. unfold add_rename. destruct b as [x|].
  - destruct (ren_get m x) as [o|] eqn:Ex.
    + rewrite ren_get_set, ren_get_del. destruct (name_eqb k after); [reflexivity|]. destruct (name_eqb k x); reflexivity.
    + rewrite ren_get_set. destruct (name_eqb k after); [reflexivity|].
      name_cases k x; [subst; reflexivity | reflexivity].
  - rewrite ren_get_set. reflexivity.
Qed.

Section Calc.
Variable O : ValOps.
Hypothesis L : ValLaws O.
Notation V := (V O).
Notation state := (state O).
Notation table := (table O).
Notation column := (column O).
Notation action := (action O).
Notation summary := (summary O).

(* ------------------------------------------------------------------------------------------------ *)
(* the summary's table entries and presence maps *)

Lemma pres_get_set : forall m r b r', pres_get (pres_set m r b) r' = if Z.eqb r' r then Some b else pres_get m r'.
Proof. intros. unfold pres_set. cbn. reflexivity. Qed.

Lemma pres_get_setdefault : forall m r b r',
  pres_get (pres_setdefault m r b) r' =
  match pres_get m r' with Some x => Some x | None => if Z.eqb r' r then Some b else None end.
Proof.
  intros m r b r'. unfold pres_setdefault. destruct (pres_get m r) eqn:E.
  - destruct (pres_get m r') eqn:E'; [reflexivity|]. destruct (Z.eqb_spec r' r); [subst; congruence | reflexivity].
  - cbn. destruct (Z.eqb_spec r' r); [subst; rewrite E; reflexivity|]. destruct (pres_get m r'); reflexivity.
Qed.

(* after add_records / remove_records for a list of rows *)
Definition mark (b_before b_after : bool) (d : tdelta O) (r : Z) : tdelta O :=
  mkTD O (pres_setdefault (td_before O d) r b_before) (pres_set (td_after O d) r b_after) (td_colren O d) (td_deltas O d).

Lemma mark_fold_before : forall bb ba rows d r,
  pres_get (td_before O (fold_left (mark bb ba) rows d)) r =
  match pres_get (td_before O d) r with Some x => Some x | None => if zmem r rows then Some bb else None end.
Proof.
  intros bb ba rows. induction rows as [|r0 rows IH]; intros d r; cbn.
  - destruct (pres_get (td_before O d) r); reflexivity.
  - rewrite IH. cbn [mark td_before]. rewrite pres_get_setdefault.
    destruct (pres_get (td_before O d) r); [reflexivity|].
    destruct (Z.eqb r r0); destruct (zmem r rows); reflexivity.
Qed.

Lemma mark_fold_after : forall bb ba rows d r,
  pres_get (td_after O (fold_left (mark bb ba) rows d)) r =
  if zmem r rows then Some ba else pres_get (td_after O d) r.
Proof.
  intros bb ba rows. induction rows as [|r0 rows IH]; intros d r; cbn; [reflexivity|].
  rewrite IH. cbn [mark td_after]. rewrite pres_get_set.
  destruct (Z.eqb r r0); destruct (zmem r rows); reflexivity.
Qed.

Lemma mark_fold_colren : forall bb ba rows d, td_colren O (fold_left (mark bb ba) rows d) = td_colren O d.
Proof. intros bb ba rows. induction rows as [|r0 rows IH]; intro d; cbn; [reflexivity|]. rewrite IH. reflexivity. Qed.

Lemma mark_fold_deltas : forall bb ba rows d, td_deltas O (fold_left (mark bb ba) rows d) = td_deltas O d.
Proof. intros bb ba rows. induction rows as [|r0 rows IH]; intro d; cbn; [reflexivity|]. rewrite IH. reflexivity. Qed.

Lemma td_find_with_table : forall (sm : summary) t d t',
  td_find O (sm_tables O (with_table O sm t d)) t' = if name_eqb t' t then Some d else td_find O (sm_tables O sm) t'.
Proof.
  intros sm t d t'. unfold with_table. cbn [sm_tables]. rewrite td_find_put, td_find_del.
  destruct (name_eqb t' t); reflexivity.
Qed.

(* ------------------------------------------------------------------------------------------------ *)
(* cells the summary treats as created in the bundle: no undo restore is emitted for them *)

Definition created (sm : summary) : cellset :=
  fun t c r =>
    sum_is_created O sm t c = true \/
    exists td, td_find O (sm_tables O sm) t = Some td /\ pres_get (td_before O td) r = Some false.

Definition existing (s : state) (t c : name) (r : Z) : Prop :=
  exists T C, find_table O s t = Some T /\ find_col O (t_cols O T) c = Some C /\ In r (t_rows O T).

Lemma seq_ex_restrict : forall (X Y : cellset) s1 s2,
  seq_ex O X s1 s2 -> (forall t c r, existing s1 t c r -> X t c r -> Y t c r) -> seq_ex O Y s1 s2.
Proof.
  intros X Y s1 s2 H HXY t. specialize (H t).
  destruct (find_table O s1 t) as [T1|] eqn:E1, (find_table O s2 t) as [T2|] eqn:E2; cbn in *; try tauto.
  destruct H as [Hr Hc]. split; [exact Hr|]. intro c. specialize (Hc c).
  destruct (find_col O (t_cols O T1) c) as [C1|] eqn:Ec1, (find_col O (t_cols O T2) c) as [C2|] eqn:Ec2; cbn in *; try tauto.
  destruct Hc as [Hi Hcells]. split; [exact Hi|]. intros r Hin.
  destruct (Hcells r Hin) as [Hx|Hx]; [left | right; exact Hx].
  apply HXY; [|exact Hx]. exists T1, C1. auto.
Qed.

Lemma existing_seq : forall X s1 s2 t c r, seq_ex O X s1 s2 -> existing s1 t c r -> existing s2 t c r.
Proof.
  intros X s1 s2 t c r H [T1 [C1 [Hf [Hc Hr]]]].
  destruct (seq_ex_find O X s1 s2 t T1 H Hf) as [T2 [Hf2 Hrel]].
  destruct (tab_rel_find_col O X t T1 T2 c C1 Hrel Hc) as [C2 [Hc2 _]].
  exists T2, C2. split; [exact Hf2|]. split; [exact Hc2|]. apply (proj1 Hrel). exact Hr.
Qed.


(* ------------------------------------------------------------------------------------------------ *)
(* what each summary call does to the three sources of `created` and to the `after` presence map *)

Definition tab_created (sm : summary) (t : name) : bool := ren_is_created (sm_tabren O sm) t.
Definition col_created (sm : summary) (t c : name) : bool :=
  match td_find O (sm_tables O sm) t with Some d => ren_is_created (td_colren O d) c | None => false end.
Definition row_before (sm : summary) (t : name) (r : Z) : option bool :=
  match td_find O (sm_tables O sm) t with Some d => pres_get (td_before O d) r | None => None end.
Definition row_after (sm : summary) (t : name) (r : Z) : option bool :=
  match td_find O (sm_tables O sm) t with Some d => pres_get (td_after O d) r | None => None end.

Lemma created_iff : forall sm t c r,
  created sm t c r <-> (tab_created sm t = true \/ col_created sm t c = true \/ row_before sm t r = Some false).
Proof.
  intros sm t c r. unfold created, sum_is_created, tab_created, col_created, row_before.
  destruct (td_find O (sm_tables O sm) t) as [d|]; split.
  - intros [H|[td [Ht Hb]]]; [apply orb_true_iff in H; tauto | inversion Ht; subst; tauto].
  - intros [H|[H|H]]; [left; rewrite H; reflexivity | left; rewrite H; apply orb_true_r | right; eauto].
  - intros [H|[td [Ht Hb]]]; [apply orb_true_iff in H; destruct H; [tauto | discriminate] | discriminate].
  - intros [H|[H|H]]; [left; rewrite H; reflexivity | discriminate | discriminate].
Qed.

Lemma for_table_colren_created : forall (sm : summary) t c,
  ren_is_created (td_colren O (for_table O sm t)) c = col_created sm t c.
Proof. intros sm t c. unfold for_table, col_created. destruct (td_find O (sm_tables O sm) t); reflexivity. Qed.

Lemma for_table_before : forall (sm : summary) t r, pres_get (td_before O (for_table O sm t)) r = row_before sm t r.
Proof. intros sm t r. unfold for_table, row_before. destruct (td_find O (sm_tables O sm) t); reflexivity. Qed.

Lemma for_table_after : forall (sm : summary) t r, pres_get (td_after O (for_table O sm t)) r = row_after sm t r.
Proof. intros sm t r. unfold for_table, row_after. destruct (td_find O (sm_tables O sm) t); reflexivity. Qed.

(* SAddRecords / SRemoveRecords *)
Lemma sum_mark_spec : forall (sm : summary) t rows bb ba,
  let sm' := with_table O sm t (fold_left (mark bb ba) rows (for_table O sm t)) in
  (forall t', tab_created sm' t' = tab_created sm t') /\
  (forall t' c, col_created sm' t' c = col_created sm t' c) /\
  (forall t' r, row_before sm' t' r =
                if name_eqb t' t then match row_before sm t r with Some x => Some x
                                                                   | None => if zmem r rows then Some bb else None end
                else row_before sm t' r) /\
  (forall t' r, row_after sm' t' r =
                if name_eqb t' t then (if zmem r rows then Some ba else row_after sm t r) else row_after sm t' r) /\
  (forall t', td_find O (sm_tables O sm') t' <> None <-> (t' = t \/ td_find O (sm_tables O sm) t' <> None)).
Proof.
  intros sm t rows bb ba sm'. unfold sm'. repeat split.
  - intros t' c. unfold col_created. rewrite td_find_with_table. name_cases t' t; [|reflexivity].
    subst t'. rewrite mark_fold_colren. apply for_table_colren_created.
  - intros t' r. unfold row_before at 1. rewrite td_find_with_table. name_cases t' t; [|reflexivity].
    rewrite mark_fold_before, for_table_before. reflexivity.
  - intros t' r. unfold row_after at 1. rewrite td_find_with_table. name_cases t' t; [|reflexivity].
    rewrite mark_fold_after, for_table_after. reflexivity.
  - rewrite td_find_with_table. name_cases t' t; [left; exact E | right; assumption].
  - rewrite td_find_with_table. intros [->|H]; [rewrite name_eqb_refl; discriminate|].
    destruct (name_eqb t' t); [discriminate | exact H].
Qed.

(* SRenameColumn *)
Lemma sum_rencol_spec : forall (sm : summary) t old new,
  sum_nodeltas O sm ->
  let sm' := sum_apply O sm (SRenameColumn O t old new) in
  (forall t', tab_created sm' t' = tab_created sm t') /\
  (forall t' c, col_created sm' t' c =
                if name_eqb t' t then ren_is_created (add_rename (td_colren O (for_table O sm t)) old new) c
                else col_created sm t' c) /\
  (forall t' r, row_before sm' t' r = row_before sm t' r) /\
  (forall t' r, row_after sm' t' r = row_after sm t' r) /\
  (forall t', td_find O (sm_tables O sm') t' <> None <-> (t' = t \/ td_find O (sm_tables O sm) t' <> None)).
Proof.
  intros sm t old new Hnd sm'. unfold sm'. cbn [sum_apply]. repeat split.
  - intros t' c. unfold col_created at 1. rewrite td_find_with_table. name_cases t' t; reflexivity.
  - intros t' r. unfold row_before at 1. rewrite td_find_with_table. name_cases t' t; [|reflexivity].
    subst t'. cbn [td_before]. apply for_table_before.
  - intros t' r. unfold row_after at 1. rewrite td_find_with_table. name_cases t' t; [|reflexivity].
    subst t'. cbn [td_after]. apply for_table_after.
  - rewrite td_find_with_table. name_cases t' t; [left; exact E | right; assumption].
  - rewrite td_find_with_table. intros [->|H]; [rewrite name_eqb_refl; discriminate|].
    destruct (name_eqb t' t); [discriminate | exact H].
Qed.

(* SRenameTable *)
Lemma sum_rentab_spec : forall (sm : summary) old new,
  let sm' := sum_apply O sm (SRenameTable O old new) in
  (forall t', tab_created sm' t' = ren_is_created (add_rename (sm_tabren O sm) old new) t') /\
  (forall t', td_find O (sm_tables O sm') t' =
              match old with
              | Some o => match td_find O (sm_tables O sm) o with
                          | Some d => if name_eqb t' new then Some d else if name_eqb t' o then None else td_find O (sm_tables O sm) t'
                          | None => td_find O (sm_tables O sm) t'
                          end
              | None => td_find O (sm_tables O sm) t'
              end).
Proof.
  intros sm old new sm'. unfold sm'. cbn [sum_apply]. split; [reflexivity|].
  intro t'. cbn [sm_tables]. destruct old as [o|]; [|reflexivity].
  destruct (td_find O (sm_tables O sm) o) as [d|]; [|reflexivity].
  rewrite td_find_put, !td_find_del. destruct (name_eqb t' new); [reflexivity|]. destruct (name_eqb t' o); reflexivity.
Qed.


(* ------------------------------------------------------------------------------------------------ *)
(* names: the '-' prefix is reserved for defunct entries of the summary *)

Definition names_ok (s : state) : Prop :=
  forall t T, find_table O s t = Some T ->
    is_defunct t = false /\ forall c C, find_col O (t_cols O T) c = Some C -> is_defunct c = false.

Definition act_names_ok (a : action) : Prop :=
  match a with
  | AddTable _ t cols => is_defunct t = false /\ forallb (fun ci => negb (is_defunct (fst ci))) cols = true
  | RenameTable _ _ new => is_defunct new = false
  | AddColumn _ _ c _ => is_defunct c = false
  | RenameColumn _ _ _ new => is_defunct new = false
  | _ => True
  end.

Lemma defunct_name_is_defunct : forall n, is_defunct (defunct_name n) = true.
Proof. reflexivity. Qed.

Lemma not_defunct_neq : forall n m, is_defunct n = false -> n <> defunct_name m.
Proof. intros n m H E. subst n. discriminate. Qed.

Definition keys_ok (s : state) (sm : summary) : Prop :=
  forall t, td_find O (sm_tables O sm) t <> None -> find_table O s t <> None \/ is_defunct t = true.

Lemma ren_is_created_get : forall m k, ren_is_created m k = match ren_get m k with Some None => true | _ => false end.
Proof. reflexivity. Qed.

(* the cells of the document BEFORE a doc action that the summary AFTER it would treat as created (seen through the
   undo of the action) were already treated as created before *)
Lemma sig_step : forall a s s' u ops sm,
  names_ok s -> keys_ok s sm -> sum_nodeltas O sm ->
  apply_doc O a s = Ok (s', (u, ops)) -> (forall t c r, ~ lossy O a s t c r) -> act_names_ok a ->
  forall t c r, existing s t c r ->
    img_list O (rev u) (created (fold_left (sum_apply O) ops sm)) t c r -> created sm t c r.
Proof.
  intros a s s' u ops sm Hnames Hkeys Hnd H Hloss Hact t0 c0 r0 [T0 [C0 [Hft0 [Hfc0 Hr0]]]].
  destruct (Hnames _ _ Hft0) as [Hndt0 Hndc0]. specialize (Hndc0 _ _ Hfc0).
  destruct a; unfold apply_doc in H.
  - (* BulkAddRecord *)
    destruct (find_table O s t) as [T|] eqn:Ef; [|discriminate]. destruct (_ || _); [discriminate|].
    destruct (none_in rows (t_rows O T)) eqn:Enone; cbn [negb] in H; [|discriminate].
    destruct (add_records O T rows cols); cbn in H; [|discriminate]. inversion H; subst s' u ops; clear H.
    cbn [rev app img_list img fold_left sum_apply].
    pose proof (sum_mark_spec sm t rows false true) as [Ht [Hc [Hb _]]]. cbv zeta in Ht, Hc, Hb.
    rewrite !created_iff. change (fun (d : tdelta O) (r : Z) => mkTD O (pres_setdefault (td_before O d) r false) (pres_set (td_after O d) r true) (td_colren O d) (td_deltas O d)) with (mark false true).
    rewrite Ht, Hc, Hb. intros [Hx|[Hx|Hx]]; [tauto | tauto|]. right. right.
    name_cases t0 t; [|exact Hx]. subst t0. destruct (row_before sm t r0); [exact Hx|].
    destruct (zmem r0 rows) eqn:Ez; [|discriminate]. exfalso.
    assert (T0 = T) by congruence. subst T0.
    apply (proj1 (none_in_iff _ _) Enone r0); [apply zmem_In; exact Ez | exact Hr0].
  - (* BulkRemoveRecord *)
    destruct (find_table O s t) as [T|] eqn:Ef; [|discriminate].
    destruct (filter (fun r => zmem r (t_rows O T)) rows) as [|r1 rows1] eqn:Er.
    + inversion H; subst s' u ops; clear H. cbn. tauto.
    + rewrite <- Er in H. inversion H; subst s' u ops; clear H.
      cbn [rev app img_list img fold_left sum_apply].
      pose proof (sum_mark_spec sm t (filter (fun r => zmem r (t_rows O T)) rows) true false) as [Ht [Hc [Hb _]]].
      cbv zeta in Ht, Hc, Hb. rewrite !created_iff.
      change (fun (d : tdelta O) (r : Z) => mkTD O (pres_setdefault (td_before O d) r true) (pres_set (td_after O d) r false) (td_colren O d) (td_deltas O d)) with (mark true false).
      rewrite Ht, Hc, Hb. intros [Hx|[Hx|Hx]]; [tauto | tauto|]. right. right.
      name_cases t0 t; [|exact Hx]. subst t0. destruct (row_before sm t r0); [exact Hx|].
      destruct (zmem r0 _); discriminate.
  - (* BulkUpdateRecord *)
    destruct (find_table O s t); [|discriminate]. destruct (_ || _); [discriminate|].
    destruct (negb _); [discriminate|]. destruct (old_values O _ rows cols); cbn in H; [|discriminate].
    destruct (set_columns O _ rows cols); cbn in H; [|discriminate]. inversion H; subst. cbn. tauto.
  - (* ReplaceTableData *)
    destruct (find_table O s t) as [T|] eqn:Ef; [|discriminate]. destruct (negb _); [discriminate|].
    destruct (add_records O _ rows _); cbn in H; [|discriminate]. inversion H; subst s' u ops; clear H.
    cbn [rev app img_list img fold_left sum_apply].
    change (fun (d : tdelta O) (r : Z) => mkTD O (pres_setdefault (td_before O d) r true) (pres_set (td_after O d) r false) (td_colren O d) (td_deltas O d)) with (mark true false).
    change (fun (d : tdelta O) (r : Z) => mkTD O (pres_setdefault (td_before O d) r false) (pres_set (td_after O d) r true) (td_colren O d) (td_deltas O d)) with (mark false true).
    set (sm1 := with_table O sm t (fold_left (mark true false) (t_rows O T) (for_table O sm t))).
    pose proof (sum_mark_spec sm t (t_rows O T) true false) as [Ht1 [Hc1 [Hb1 _]]]. cbv zeta in Ht1, Hc1, Hb1. fold sm1 in Ht1, Hc1, Hb1.
    pose proof (sum_mark_spec sm1 t rows false true) as [Ht2 [Hc2 [Hb2 _]]]. cbv zeta in Ht2, Hc2, Hb2.
    rewrite !created_iff. rewrite Ht2, Hc2, Hb2, Ht1, Hc1, !Hb1. intros [Hx|[Hx|Hx]]; [tauto | tauto|]. right. right.
    name_cases t0 t; [|exact Hx]. subst t0. rewrite name_eqb_refl in Hx.
    assert (T0 = T) by congruence. subst T0. rewrite (proj2 (zmem_In _ _) Hr0) in Hx.
    destruct (row_before sm t r0); [exact Hx | discriminate].
  - (* AddColumn *)
    destruct (find_table O s t) as [T|] eqn:Ef; [|discriminate].
    destruct (has_column O T c) eqn:Eh; [discriminate|]. inversion H; subst s' u ops; clear H.
    apply has_column_false in Eh. destruct Eh as [_ Hcn].
    cbn [rev app img_list img fold_left].
    pose proof (sum_rencol_spec sm t None c Hnd) as [Ht [Hc [Hb _]]]. cbv zeta in Ht, Hc, Hb.
    rewrite !created_iff. rewrite Ht, Hc, Hb. intros [Hx|[Hx|Hx]]; [tauto | | tauto]. right. left.
    name_cases t0 t; [|exact Hx]. subst t0. assert (T0 = T) by congruence. subst T0.
    rewrite ren_is_created_get, ren_get_add_rename_new in Hx.
    assert (name_eqb c0 c = false) as Ene by (apply name_eqb_neq; intro; subst; congruence). rewrite Ene in Hx.
    rewrite <- for_table_colren_created. exact Hx.
  - (* RemoveColumn *)
    destruct (find_table O s t) as [T|] eqn:Ef; [|discriminate].
    destruct (find_col O (t_cols O T) c) as [C|] eqn:Ec; [|discriminate].
    assert (Hops : ops = [SRenameColumn O t (Some c) (defunct_name c)] /\ img_list O (rev u) = fun X => X).
    { destruct (filter _ _).
      - inversion H; subst. split; reflexivity.
      - destruct (ci_isformula (c_info O C)) eqn:Eform.
        + exfalso. apply (Hloss t c 0). cbn. split; [reflexivity|]. split; [reflexivity|]. exists T, C. auto.
        + inversion H; subst. split; reflexivity. }
    destruct Hops as [-> Himg]. rewrite Himg. cbn [fold_left].
    pose proof (sum_rencol_spec sm t (Some c) (defunct_name c) Hnd) as [Ht [Hc [Hb _]]]. cbv zeta in Ht, Hc, Hb.
    rewrite !created_iff. rewrite Ht, Hc, Hb. intros [Hx|[Hx|Hx]]; [tauto | | tauto]. right. left.
    name_cases t0 t; [|exact Hx]. subst t0.
    rewrite ren_is_created_get, ren_get_add_rename_new in Hx.
    assert (name_eqb c0 (defunct_name c) = false) as Ene by (apply name_eqb_neq; apply not_defunct_neq; exact Hndc0).
    rewrite Ene in Hx. rewrite <- for_table_colren_created, ren_is_created_get.
    name_cases c0 c; [|exact Hx]. subst c0.
    destruct (ren_get (td_colren O (for_table O sm t)) c) as [[o|]|]; cbn in Hx |- *; congruence.
  - (* RenameColumn *)
    destruct (find_table O s t) as [T|] eqn:Ef; [|discriminate].
    destruct (find_col O (t_cols O T) old) as [C|] eqn:Ec; [|discriminate].
    destruct (has_column O T new) eqn:Eh; [discriminate|]. inversion H; subst s' u ops; clear H.
    apply has_column_false in Eh. destruct Eh as [_ Hcn].
    cbn [rev app img_list img fold_left].
    pose proof (sum_rencol_spec sm t (Some old) new Hnd) as [Ht [Hc [Hb _]]]. cbv zeta in Ht, Hc, Hb.
    intros [[-> [-> Hx]]|[Hne Hx]].
    + (* the cell is (t, old): seen as (t, new) afterwards *)
      revert Hx. rewrite !created_iff. rewrite Ht, Hc, Hb, name_eqb_refl. intros [Hx|[Hx|Hx]]; [tauto | | tauto]. right. left.
      rewrite ren_is_created_get, ren_get_add_rename_new, name_eqb_refl in Hx.
      rewrite <- for_table_colren_created, ren_is_created_get.
      destruct (ren_get (td_colren O (for_table O sm t)) old) as [[o|]|]; try discriminate; reflexivity.
    + revert Hx. rewrite !created_iff. rewrite Ht, Hc, Hb. intros [Hx|[Hx|Hx]]; [tauto | | tauto]. right. left.
      name_cases t0 t; [|exact Hx]. subst t0. assert (T0 = T) by congruence. subst T0.
      rewrite ren_is_created_get, ren_get_add_rename_new in Hx.
      assert (name_eqb c0 new = false) as Ene by (apply name_eqb_neq; intro; subst; congruence). rewrite Ene in Hx.
      assert (name_eqb c0 old = false) as Eno by (apply name_eqb_neq; intro; subst; apply Hne; auto). rewrite Eno in Hx.
      rewrite <- for_table_colren_created. exact Hx.
  - (* ModifyColumn *)
    destruct (find_table O s t); [|discriminate]. destruct (find_col O _ c); [|discriminate].
    destruct (colinfo_eqb _ _); inversion H; subst; cbn; tauto.
  - (* AddTable *)
    destruct (find_table O s t) eqn:Ef; [discriminate|]. destruct (_ || _); [discriminate|].
    inversion H; subst s' u ops; clear H. cbn [rev app img_list img fold_left].
    pose proof (sum_rentab_spec sm None t) as [Ht Htd]. cbv zeta in Ht, Htd.
    rewrite !created_iff. unfold col_created, row_before. rewrite Ht, !Htd.
    assert (name_eqb t0 t = false) as Ene by (apply name_eqb_neq; intro; subst; congruence).
    rewrite ren_is_created_get, ren_get_add_rename_new, Ene. tauto.
  - (* RemoveTable *)
    destruct (find_table O s t) as [T|] eqn:Ef; [|discriminate].
    assert (Hops : ops = [SRenameTable O (Some t) (defunct_name t)] /\ img_list O (rev u) = fun X => X).
    { destruct (t_rows O T); inversion H; subst; split; reflexivity. }
    destruct Hops as [-> Himg]. rewrite Himg. cbn [fold_left].
    pose proof (sum_rentab_spec sm (Some t) (defunct_name t)) as [Ht Htd]. cbv zeta in Ht, Htd.
    rewrite !created_iff. unfold col_created, row_before. rewrite Ht, !Htd.
    assert (name_eqb t0 (defunct_name t) = false) as Ene by (apply name_eqb_neq; apply not_defunct_neq; exact Hndt0).
    rewrite ren_is_created_get, ren_get_add_rename_new, Ene.
    name_cases t0 t.
    + subst t0. destruct (td_find O (sm_tables O sm) t) as [d|] eqn:Ed.
      * destruct (ren_get (sm_tabren O sm) t); intros [Hx|[Hx|Hx]]; discriminate.
      * destruct (ren_get (sm_tabren O sm) t); intros [Hx|[Hx|Hx]]; discriminate.
    + destruct (td_find O (sm_tables O sm) t); tauto.
  - (* RenameTable *)
    destruct (find_table O s old) as [T|] eqn:Ef; [|discriminate].
    destruct (find_table O s new) eqn:En; [discriminate|]. inversion H; subst s' u ops; clear H.
    cbn [rev app img_list img fold_left].
    pose proof (sum_rentab_spec sm (Some old) new) as [Ht Htd]. cbv zeta in Ht, Htd.
    assert (Hstale : td_find O (sm_tables O sm) new = None).
    { destruct (td_find O (sm_tables O sm) new) eqn:E; [|reflexivity]. exfalso.
      destruct (Hkeys new) as [Hk|Hk]; [rewrite E; discriminate | congruence |].
      cbn in Hact. congruence. }
    assert (Eno : name_eqb new old = false) by (apply name_eqb_neq; intro; subst; congruence).
    intros [[-> Hx]|[Hne Hx]].
    + revert Hx. rewrite !created_iff. unfold col_created, row_before. rewrite Ht, !Htd, name_eqb_refl. unfold tab_created.
      rewrite ren_is_created_get, ren_get_add_rename_new, name_eqb_refl, (ren_is_created_get (sm_tabren O sm) old).
      destruct (td_find O (sm_tables O sm) old) as [d|] eqn:Ed.
      * destruct (ren_get (sm_tabren O sm) old) as [[o|]|]; intros [Hx|[Hx|Hx]]; try discriminate; tauto.
      * rewrite Hstale. destruct (ren_get (sm_tabren O sm) old) as [[o|]|]; intros [Hx|[Hx|Hx]]; try discriminate; tauto.
    + revert Hx. rewrite !created_iff. unfold col_created, row_before. rewrite Ht, !Htd.
      assert (name_eqb t0 new = false) as Ene by (apply name_eqb_neq; intro; subst; congruence).
      assert (name_eqb t0 old = false) as Eo by (apply name_eqb_neq; exact Hne). unfold tab_created.
      rewrite ren_is_created_get, ren_get_add_rename_new, Ene, Eo, (ren_is_created_get (sm_tabren O sm) t0).
      destruct (td_find O (sm_tables O sm) old); tauto.
Qed.


(* ------------------------------------------------------------------------------------------------ *)
(* structural consistency between the document and the summary, kept by every doc action *)

Definition after_ok (s : state) (sm : summary) : Prop :=
  forall t T r, find_table O s t = Some T -> In r (t_rows O T) -> row_after sm t r <> Some false.

Definition struct_ok (s : state) (sm : summary) : Prop := names_ok s /\ keys_ok s sm /\ after_ok s sm.

Lemma names_ok_put : forall s t T T', names_ok s -> find_table O s t = Some T -> t_id O T' = t ->
  (forall c C, find_col O (t_cols O T') c = Some C -> is_defunct c = false) -> names_ok (put_table O s t T').
Proof.
  intros s t T T' Hn Hf Hid Hc t0 T0 Hf0. rewrite find_put_table in Hf0 by exact Hid.
  name_cases t0 t.
  - subst t0. rewrite Hf in Hf0. inversion Hf0; subst T0. split; [apply (Hn _ _ Hf) | exact Hc].
  - apply (Hn _ _ Hf0).
Qed.

Lemma alive_put : forall s t T T' t0, find_table O s t = Some T -> t_id O T' = t ->
  (find_table O (put_table O s t T') t0 <> None <-> find_table O s t0 <> None).
Proof.
  intros s t T T' t0 Hf Hid. rewrite find_put_table by exact Hid. name_cases t0 t; [|tauto].
  subst t0. rewrite Hf. split; congruence.
Qed.

Lemma alive_put2 : forall s t T rows cols t0, find_table O s t = Some T ->
  (find_table O (put_table O s t (mkTab O (t_id O T) rows cols)) t0 <> None <-> find_table O s t0 <> None).
Proof. intros. eapply alive_put; [eassumption|]. cbn. eapply find_table_id. eassumption. Qed.

Lemma struct_step : forall a s s' u ops sm,
  struct_ok s sm -> sum_nodeltas O sm ->
  apply_doc O a s = Ok (s', (u, ops)) -> (forall t c r, ~ lossy O a s t c r) -> act_names_ok a ->
  struct_ok s' (fold_left (sum_apply O) ops sm).
Proof.
  intros a s s' u ops sm [Hnames [Hkeys Hafter]] Hnd H Hloss Hact.
  destruct a; unfold apply_doc in H.
  - (* BulkAddRecord *)
    destruct (find_table O s t) as [T|] eqn:Ef; [|discriminate].
    destruct (colvals_ok O rows cols) eqn:Eok; cbn [negb orb] in H; [|discriminate].
    destruct rows as [|r1 rows1] eqn:Er; [discriminate|]. rewrite <- Er in *. clear Er r1 rows1.
    destruct (none_in rows (t_rows O T)); cbn [negb] in H; [|discriminate].
    destruct (add_records O T rows cols) as [T'|] eqn:Eadd; cbn [bind] in H; [|discriminate].
    inversion H; subst s' u ops; clear H. cbn [fold_left sum_apply].
    change (fun (d : tdelta O) (r : Z) => mkTD O (pres_setdefault (td_before O d) r false) (pres_set (td_after O d) r true) (td_colren O d) (td_deltas O d)) with (mark false true).
    destruct (colvals_ok_parts O _ _ Eok) as [Hndk _].
    destruct (add_records_spec O _ _ _ _ Hndk Eadd) as [Hid [Hrows [Hids Hcols]]].
    pose proof (find_table_id O _ _ _ Ef) as HidT. assert (Hid' : t_id O T' = t) by congruence.
    pose proof (sum_mark_spec sm t rows false true) as [_ [_ [_ [Ha Hk]]]]. cbv zeta in Ha, Hk.
    split; [|split].
    + eapply names_ok_put; try eassumption. intros c C Hc. specialize (Hcols c).
      destruct (find_col O (t_cols O T) c) as [C1|] eqn:E1; [|congruence]. apply (proj2 (Hnames _ _ Ef) _ _ E1).
    + intros t0 Ht0. apply Hk in Ht0. rewrite (alive_put s t T T' t0 Ef Hid').
      destruct Ht0 as [->|Ht0]; [left; congruence | apply Hkeys; exact Ht0].
    + intros t0 T0 r Hf0 Hr. rewrite Ha. rewrite find_put_table in Hf0 by exact Hid'.
      name_cases t0 t.
      * subst t0. rewrite Ef in Hf0. inversion Hf0; subst T0. apply Hrows in Hr.
        destruct (zmem r rows) eqn:Ez; [discriminate|]. destruct Hr as [Hr|Hr]; [apply zmem_In in Hr; congruence|].
        eapply Hafter; eassumption.
      * eapply Hafter; eassumption.
  - (* BulkRemoveRecord *)
    destruct (find_table O s t) as [T|] eqn:Ef; [|discriminate].
    destruct (filter (fun r => zmem r (t_rows O T)) rows) as [|r1 rows1] eqn:Er.
    + inversion H; subst s' u ops; clear H. cbn. split; [exact Hnames | split; [exact Hkeys | exact Hafter]].
    + rewrite <- Er in *. clear Er r1 rows1. inversion H; subst s' u ops; clear H. cbn [fold_left sum_apply].
      change (fun (d : tdelta O) (r : Z) => mkTD O (pres_setdefault (td_before O d) r true) (pres_set (td_after O d) r false) (td_colren O d) (td_deltas O d)) with (mark true false).
      set (rows1 := filter (fun r => zmem r (t_rows O T)) rows).
      pose proof (find_table_id O _ _ _ Ef) as HidT.
      pose proof (sum_mark_spec sm t rows1 true false) as [_ [_ [_ [Ha Hk]]]]. cbv zeta in Ha, Hk.
      split; [|split].
      * eapply names_ok_put; try eassumption; try reflexivity. cbn [t_cols]. intros c C Hc.
        rewrite find_map_col in Hc by (intro; apply col_unset_many_id).
        destruct (find_col O (t_cols O T) c) as [C1|] eqn:E1; [|discriminate]. apply (proj2 (Hnames _ _ Ef) _ _ E1).
      * intros t0 Ht0. apply Hk in Ht0. destruct Ht0 as [->|Ht0]; [left; apply (proj2 (alive_put2 s t T _ _ t Ef)); congruence|].
        destruct (Hkeys _ Ht0) as [Hq|Hq]; [left; apply (proj2 (alive_put2 s t T _ _ t0 Ef)); exact Hq | right; exact Hq].
      * intros t0 T0 r Hf0 Hr. rewrite Ha. rewrite find_put_table in Hf0 by exact HidT.
        name_cases t0 t.
        -- subst t0. rewrite Ef in Hf0. inversion Hf0; subst T0. cbn [t_rows] in Hr. apply filter_In in Hr.
           destruct Hr as [Hr Hz]. apply negb_true_iff in Hz. fold rows1 in Hz. rewrite Hz. eapply Hafter; eassumption.
        -- eapply Hafter; eassumption.
  - (* BulkUpdateRecord *)
    destruct (find_table O s t) as [T|] eqn:Ef; [|discriminate].
    destruct (colvals_ok O rows cols) eqn:Eok; cbn [negb orb] in H; [|discriminate].
    destruct rows as [|r1 rows1] eqn:Er; [discriminate|]. rewrite <- Er in *. clear Er r1 rows1.
    destruct (all_in rows (t_rows O T)); cbn [negb] in H; [|discriminate].
    destruct (old_values O (t_cols O T) rows cols); cbn [bind] in H; [|discriminate].
    destruct (set_columns O (t_cols O T) rows cols) as [cs|] eqn:Ecs; cbn [bind] in H; [|discriminate].
    inversion H; subst s' u ops; clear H. cbn [fold_left].
    destruct (colvals_ok_parts O _ _ Eok) as [Hndk _].
    destruct (set_columns_spec O _ _ _ _ Hndk Ecs) as [_ Hcols].
    pose proof (find_table_id O _ _ _ Ef) as HidT.
    split; [|split].
    + eapply names_ok_put; try eassumption; try reflexivity. cbn [t_cols]. intros c C Hc. specialize (Hcols c).
      destruct (find_col O (t_cols O T) c) as [C1|] eqn:E1; [|congruence]. apply (proj2 (Hnames _ _ Ef) _ _ E1).
    + intros t0 Ht0. destruct (Hkeys _ Ht0) as [Hq|Hq]; [left; apply (proj2 (alive_put2 s t T _ _ t0 Ef)); exact Hq | right; exact Hq].
    + intros t0 T0 r Hf0 Hr. rewrite find_put_table in Hf0 by exact HidT. name_cases t0 t.
      * subst t0. rewrite Ef in Hf0. inversion Hf0; subst T0. cbn in Hr. eapply Hafter; eassumption.
      * eapply Hafter; eassumption.
  - (* ReplaceTableData *)
    destruct (find_table O s t) as [T|] eqn:Ef; [|discriminate].
    destruct (colvals_ok O rows cols) eqn:Eok; cbn [negb] in H; [|discriminate].
    match type of H with context [add_records O ?TT rows ?cc] => remember cc as cols1 eqn:Ecols1; remember TT as Tc eqn:ETc end.
    destruct (add_records O Tc rows cols1) as [T'|] eqn:Eadd; cbn [bind] in H; [|discriminate].
    inversion H; subst s' u ops; clear H. cbn [fold_left sum_apply].
    change (fun (d : tdelta O) (r : Z) => mkTD O (pres_setdefault (td_before O d) r true) (pres_set (td_after O d) r false) (td_colren O d) (td_deltas O d)) with (mark true false).
    change (fun (d : tdelta O) (r : Z) => mkTD O (pres_setdefault (td_before O d) r false) (pres_set (td_after O d) r true) (td_colren O d) (td_deltas O d)) with (mark false true).
    set (sm1 := with_table O sm t (fold_left (mark true false) (t_rows O T) (for_table O sm t))).
    pose proof (sum_mark_spec sm t (t_rows O T) true false) as [_ [_ [_ [Ha1 Hk1]]]]. cbv zeta in Ha1, Hk1. fold sm1 in Ha1, Hk1.
    pose proof (sum_mark_spec sm1 t rows false true) as [_ [_ [_ [Ha2 Hk2]]]]. cbv zeta in Ha2, Hk2.
    assert (Hnd1 : nodup_names (map fst cols1) = true).
    { destruct (colvals_ok_parts O _ _ Eok) as [Hndk _]. rewrite Ecols1. clear -Hndk.
      induction cols as [|[c1 v1] rest IH]; cbn in *; [reflexivity|].
      apply andb_true_iff in Hndk. destruct Hndk as [Hn Hndk].
      destruct (find_col O (t_cols O T) c1); cbn; [|apply IH; exact Hndk].
      rewrite (IH Hndk), andb_true_r. apply negb_true_iff. apply negb_true_iff in Hn.
      match goal with |- nmem ?a ?b = false => destruct (nmem a b) eqn:E; [|reflexivity] end.
      apply nmem_In in E. apply in_map_iff in E. destruct E as [[c2 v2] [Hc2 Hin]]. cbn in Hc2. subst c2.
      apply filter_In in Hin. destruct Hin as [Hin _].
      assert (nmem c1 (map fst rest) = true); [|congruence].
      apply nmem_In. apply in_map_iff. exists (c1, v2). split; [reflexivity | exact Hin]. }
    destruct (add_records_spec O _ _ _ _ Hnd1 Eadd) as [Hid [Hrows [Hids Hcols]]].
    pose proof (find_table_id O _ _ _ Ef) as HidT.
    assert (Hid' : t_id O T' = t) by (rewrite Hid, ETc; exact HidT).
    split; [|split].
    + eapply names_ok_put; try eassumption. intros c C Hc. specialize (Hcols c). rewrite ETc in Hcols. cbn [t_cols] in Hcols.
      rewrite find_map_col in Hcols by (intro; reflexivity).
      destruct (find_col O (t_cols O T) c) as [C1|] eqn:E1; cbn in Hcols; [|congruence]. apply (proj2 (Hnames _ _ Ef) _ _ E1).
    + intros t0 Ht0. apply Hk2 in Ht0. rewrite (alive_put s t T T' t0 Ef Hid').
      destruct Ht0 as [->|Ht0]; [left; congruence|]. apply Hk1 in Ht0.
      destruct Ht0 as [->|Ht0]; [left; congruence | apply Hkeys; exact Ht0].
    + intros t0 T0 r Hf0 Hr. rewrite Ha2, Ha1. rewrite find_put_table in Hf0 by exact Hid'. name_cases t0 t.
      * subst t0. rewrite name_eqb_refl. rewrite Ef in Hf0. inversion Hf0; subst T0. apply Hrows in Hr. rewrite ETc in Hr. cbn [t_rows] in Hr.
        destruct Hr as [Hr|[]]. rewrite (proj2 (zmem_In _ _) Hr). discriminate.
      * eapply Hafter; eassumption.
  - (* AddColumn *)
    destruct (find_table O s t) as [T|] eqn:Ef; [|discriminate].
    destruct (has_column O T c) eqn:Eh; [discriminate|]. inversion H; subst s' u ops; clear H. cbn [fold_left].
    pose proof (find_table_id O _ _ _ Ef) as HidT.
    pose proof (sum_rencol_spec sm t None c Hnd) as [_ [_ [_ [Ha Hk]]]]. cbv zeta in Ha, Hk.
    split; [|split].
    + eapply names_ok_put; try eassumption; try reflexivity. cbn [t_cols]. intros c1 C1 Hc. rewrite find_app_col in Hc.
      destruct (find_col O (t_cols O T) c1) as [C2|] eqn:E1; [apply (proj2 (Hnames _ _ Ef) _ _ E1)|].
      cbn [c_id] in Hc. name_cases c1 c; [subst; exact Hact | discriminate].
    + intros t0 Ht0. apply Hk in Ht0. destruct Ht0 as [->|Ht0]; [left; apply (proj2 (alive_put2 s t T _ _ t Ef)); congruence|].
      destruct (Hkeys _ Ht0) as [Hq|Hq]; [left; apply (proj2 (alive_put2 s t T _ _ t0 Ef)); exact Hq | right; exact Hq].
    + intros t0 T0 r Hf0 Hr. rewrite Ha. rewrite find_put_table in Hf0 by exact HidT. name_cases t0 t.
      * subst t0. rewrite Ef in Hf0. inversion Hf0; subst T0. cbn in Hr. eapply Hafter; eassumption.
      * eapply Hafter; eassumption.
  - (* RemoveColumn *)
    destruct (find_table O s t) as [T|] eqn:Ef; [|discriminate].
    destruct (find_col O (t_cols O T) c) as [C|] eqn:Ec; [|discriminate].
    assert (Hops : ops = [SRenameColumn O t (Some c) (defunct_name c)] /\
                   s' = put_table O s t (mkTab O (t_id O T) (t_rows O T) (drop_col O (t_cols O T) c))).
    { destruct (filter _ _).
      - inversion H; subst. split; reflexivity.
      - destruct (ci_isformula (c_info O C)) eqn:Eform.
        + exfalso. apply (Hloss t c 0). cbn. split; [reflexivity|]. split; [reflexivity|]. exists T, C. auto.
        + inversion H; subst. split; reflexivity. }
    destruct Hops as [-> ->]. cbn [fold_left].
    pose proof (find_table_id O _ _ _ Ef) as HidT.
    pose proof (sum_rencol_spec sm t (Some c) (defunct_name c) Hnd) as [_ [_ [_ [Ha Hk]]]]. cbv zeta in Ha, Hk.
    split; [|split].
    + eapply names_ok_put; try eassumption; try reflexivity. cbn [t_cols]. intros c1 C1 Hc. rewrite find_drop_col in Hc.
      destruct (name_eqb c1 c); [discriminate|]. apply (proj2 (Hnames _ _ Ef) _ _ Hc).
    + intros t0 Ht0. apply Hk in Ht0. destruct Ht0 as [->|Ht0]; [left; apply (proj2 (alive_put2 s t T _ _ t Ef)); congruence|].
      destruct (Hkeys _ Ht0) as [Hq|Hq]; [left; apply (proj2 (alive_put2 s t T _ _ t0 Ef)); exact Hq | right; exact Hq].
    + intros t0 T0 r Hf0 Hr. rewrite Ha. rewrite find_put_table in Hf0 by exact HidT. name_cases t0 t.
      * subst t0. rewrite Ef in Hf0. inversion Hf0; subst T0. cbn in Hr. eapply Hafter; eassumption.
      * eapply Hafter; eassumption.
  - (* RenameColumn *)
    destruct (find_table O s t) as [T|] eqn:Ef; [|discriminate].
    destruct (find_col O (t_cols O T) old) as [C|] eqn:Ec; [|discriminate].
    destruct (has_column O T new) eqn:Eh; [discriminate|]. inversion H; subst s' u ops; clear H. cbn [fold_left].
    pose proof (find_table_id O _ _ _ Ef) as HidT.
    pose proof (sum_rencol_spec sm t (Some old) new Hnd) as [_ [_ [_ [Ha Hk]]]]. cbv zeta in Ha, Hk.
    split; [|split].
    + eapply names_ok_put; try eassumption; try reflexivity. cbn [t_cols]. intros c1 C1 Hc. rewrite find_app_col, find_drop_col in Hc.
      destruct (name_eqb c1 old).
      * cbn [c_id] in Hc. name_cases c1 new; [subst; exact Hact | discriminate].
      * destruct (find_col O (t_cols O T) c1) as [C2|] eqn:E1; [apply (proj2 (Hnames _ _ Ef) _ _ E1)|].
        cbn [c_id] in Hc. name_cases c1 new; [subst; exact Hact | discriminate].
    + intros t0 Ht0. apply Hk in Ht0. destruct Ht0 as [->|Ht0]; [left; apply (proj2 (alive_put2 s t T _ _ t Ef)); congruence|].
      destruct (Hkeys _ Ht0) as [Hq|Hq]; [left; apply (proj2 (alive_put2 s t T _ _ t0 Ef)); exact Hq | right; exact Hq].
    + intros t0 T0 r Hf0 Hr. rewrite Ha. rewrite find_put_table in Hf0 by exact HidT. name_cases t0 t.
      * subst t0. rewrite Ef in Hf0. inversion Hf0; subst T0. cbn in Hr. eapply Hafter; eassumption.
      * eapply Hafter; eassumption.
  - (* ModifyColumn *)
    destruct (find_table O s t) as [T|] eqn:Ef; [|discriminate].
    destruct (find_col O (t_cols O T) c) as [C|] eqn:Ec; [|discriminate].
    destruct (colinfo_eqb _ _).
    + inversion H; subst s' u ops; clear H. cbn. split; [exact Hnames | split; [exact Hkeys | exact Hafter]].
    + inversion H; subst s' u ops; clear H. cbn [fold_left].
      pose proof (find_table_id O _ _ _ Ef) as HidT.
      split; [|split].
      * eapply names_ok_put; try eassumption; try reflexivity. cbn [t_cols]. intros c1 C1 Hc. rewrite find_app_col, find_drop_col in Hc.
        rewrite col_set_many_id in Hc. cbn [c_id] in Hc. name_cases c1 c.
        -- subst c1. apply (proj2 (Hnames _ _ Ef) _ _ Ec).
        -- destruct (find_col O (t_cols O T) c1) as [C2|] eqn:E1; [apply (proj2 (Hnames _ _ Ef) _ _ E1) | discriminate].
      * intros t0 Ht0. destruct (Hkeys _ Ht0) as [Hq|Hq]; [left; apply (proj2 (alive_put2 s t T _ _ t0 Ef)); exact Hq | right; exact Hq].
      * intros t0 T0 r Hf0 Hr. rewrite find_put_table in Hf0 by exact HidT. name_cases t0 t.
        -- subst t0. rewrite Ef in Hf0. inversion Hf0; subst T0. cbn in Hr. eapply Hafter; eassumption.
        -- eapply Hafter; eassumption.
  - (* AddTable *)
    destruct (find_table O s t) eqn:Ef; [discriminate|]. destruct (_ || _); [discriminate|].
    inversion H; subst s' u ops; clear H. cbn [fold_left]. destruct Hact as [Hdt Hdc].
    pose proof (sum_rentab_spec sm None t) as [_ Htd]. cbv zeta in Htd.
    split; [|split].
    + intros t0 T0 Hf0. rewrite find_app_table in Hf0.
      destruct (find_table O s t0) eqn:E0; [inversion Hf0; subst; apply (Hnames _ _ E0)|].
      cbn [t_id] in Hf0. name_cases t0 t; [|discriminate]. inversion Hf0; subst T0 t0. split; [exact Hdt|].
      cbn [t_cols]. intros c C Hc. apply find_col_In in Hc. apply in_map_iff in Hc. destruct Hc as [ci [<- Hin]]. cbn.
      rewrite forallb_forall in Hdc. apply negb_true_iff. apply Hdc. exact Hin.
    + intros t0 Ht0. rewrite Htd in Ht0. rewrite find_app_table.
      destruct (Hkeys _ Ht0) as [Hk|Hk]; [left | right; exact Hk]. destruct (find_table O s t0); [discriminate | contradiction].
    + intros t0 T0 r Hf0 Hr. unfold row_after. rewrite Htd. rewrite find_app_table in Hf0.
      destruct (find_table O s t0) eqn:E0; [inversion Hf0; subst; eapply Hafter; eassumption|].
      cbn [t_id] in Hf0. destruct (name_eqb t0 t); [|discriminate]. inversion Hf0; subst T0. destruct Hr.
  - (* RemoveTable *)
    destruct (find_table O s t) as [T|] eqn:Ef; [|discriminate].
    assert (Hops : ops = [SRenameTable O (Some t) (defunct_name t)] /\ s' = drop_table O s t).
    { destruct (t_rows O T); inversion H; subst; split; reflexivity. }
    destruct Hops as [-> ->]. cbn [fold_left].
    pose proof (sum_rentab_spec sm (Some t) (defunct_name t)) as [_ Htd]. cbv zeta in Htd.
    split; [|split].
    + intros t0 T0 Hf0. rewrite find_drop_table in Hf0. destruct (name_eqb t0 t); [discriminate|]. apply (Hnames _ _ Hf0).
    + intros t0 Ht0. rewrite Htd in Ht0. rewrite find_drop_table.
      destruct (td_find O (sm_tables O sm) t) as [d|] eqn:Ed.
      * name_cases t0 (defunct_name t); [right; subst; reflexivity|].
        name_cases t0 t; [contradiction|]. apply Hkeys. exact Ht0.
      * name_cases t0 t; [subst; congruence | apply Hkeys; exact Ht0].
    + intros t0 T0 r Hf0 Hr. rewrite find_drop_table in Hf0. name_cases t0 t; [discriminate|].
      unfold row_after. rewrite Htd.
      destruct (td_find O (sm_tables O sm) t) as [d|] eqn:Ed; [|eapply Hafter; eassumption].
      assert (name_eqb t0 (defunct_name t) = false) as -> by (apply name_eqb_neq; apply not_defunct_neq; apply (Hnames _ _ Hf0)).
      eapply Hafter; eassumption.
  - (* RenameTable *)
    destruct (find_table O s old) as [T|] eqn:Ef; [|discriminate].
    destruct (find_table O s new) eqn:En; [discriminate|]. inversion H; subst s' u ops; clear H. cbn [fold_left].
    cbn in Hact.
    pose proof (sum_rentab_spec sm (Some old) new) as [_ Htd]. cbv zeta in Htd.
    assert (Hne : old <> new) by (intro; subst; congruence).
    assert (Hstale : td_find O (sm_tables O sm) new = None).
    { destruct (td_find O (sm_tables O sm) new) eqn:E; [|reflexivity]. exfalso.
      destruct (Hkeys new) as [Hk|Hk]; [rewrite E; discriminate | congruence | congruence]. }
    split; [|split].
    + intros t0 T0 Hf0. rewrite find_app_table, find_drop_table in Hf0. cbn [t_id] in Hf0.
      name_cases t0 old.
      * name_cases t0 new; [|discriminate]. congruence.
      * destruct (find_table O s t0) eqn:E0; [inversion Hf0; subst; apply (Hnames _ _ E0)|].
        name_cases t0 new; [|discriminate]. inversion Hf0; subst T0 t0. split; [exact Hact|]. cbn [t_cols]. apply (Hnames _ _ Ef).
    + intros t0 Ht0. rewrite Htd in Ht0. rewrite find_app_table, find_drop_table. cbn [t_id].
      destruct (td_find O (sm_tables O sm) old) as [d|] eqn:Ed.
      * name_cases t0 new.
        -- subst t0. left. assert (name_eqb new old = false) as -> by (apply name_eqb_neq; congruence).
           rewrite En, name_eqb_refl. discriminate.
        -- name_cases t0 old; [contradiction|]. destruct (Hkeys _ Ht0) as [Hk|Hk]; [left | right; exact Hk].
           destruct (find_table O s t0); [discriminate | contradiction].
      * name_cases t0 old; [subst; congruence|]. destruct (Hkeys _ Ht0) as [Hk|Hk]; [left | right; exact Hk].
        destruct (find_table O s t0); [discriminate | contradiction].
    + intros t0 T0 r Hf0 Hr. rewrite find_app_table, find_drop_table in Hf0. cbn [t_id] in Hf0.
      unfold row_after. rewrite Htd.
      name_cases t0 old.
      * name_cases t0 new; [|discriminate]. congruence.
      * destruct (find_table O s t0) eqn:E0.
        -- inversion Hf0; subst T0. assert (name_eqb t0 new = false) as Enn by (apply name_eqb_neq; intro; subst; congruence).
           destruct (td_find O (sm_tables O sm) old); [rewrite Enn|]; eapply Hafter; eassumption.
        -- name_cases t0 new; [|discriminate]. inversion Hf0; subst T0 t0. cbn [t_rows] in Hr.
           destruct (td_find O (sm_tables O sm) old) as [d|] eqn:Ed.
           ++ pose proof (Hafter _ _ r Ef Hr) as Ha. unfold row_after in Ha. rewrite Ed in Ha. exact Ha.
           ++ rewrite Hstale. discriminate.
Qed.

End Calc.
