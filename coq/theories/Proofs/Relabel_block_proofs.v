(* C20, partial renumbering path: range_around_float(x, i) for 0 <= i <= 52 returns an aligned block of 2^i doubles
   inside the binade of x that contains x (repaired code: subnormals have the fixed spacing 2^-1074). *)
From Coq Require Import ZArith List Bool Lia.
Import ListNotations.
Require Import Grist.Lib.Fl64 Grist.Proofs.Fl64_proofs Grist.Proofs.Fl64_mono_proofs Grist.Model.Relabel.
Open Scope Z_scope.

Lemma pow_multiple a b : 0 <= b <= a -> 2 ^ a = 2 ^ (a - b) * 2 ^ b.
Proof. intros H. rewrite <- Z.pow_add_r by lia. f_equal. lia. Qed.

(* multiples of the spacing inside a closed binade are doubles *)
Lemma grid_representable g x : 0 <= g -> (g = 0 \/ 2 ^ (52 + g) <= x) -> 0 <= x <= 2 ^ (53 + g) -> x mod 2 ^ g = 0 ->
  x mod 2 ^ ulp_exp x = 0.
Proof.
  intros Hg Hlo Hx Hm. destruct (Z.eq_dec x (2 ^ (53 + g))) as [->|Hne].
  - unfold ulp_exp. rewrite Z.log2_pow2 by lia. rewrite Z.max_r by lia.
    rewrite (pow_multiple (53 + g) (53 + g - 52)) by lia. apply Z.mod_mul. pose proof (pow2_pos' (53 + g - 52)). lia.
  - assert (Hu : ulp_exp x = g); [|rewrite Hu; exact Hm].
    unfold ulp_exp. destruct Hlo as [->|Hl].
    + cbn [Z.add] in *. destruct (Z.eq_dec x 0) as [->|Hx0]; [reflexivity|].
      assert (Z.log2 x < 53) by (apply Z.log2_lt_pow2; lia). lia.
    + assert (Z.log2 x = 52 + g); [|lia]. apply Z.log2_unique; [lia|].
      replace (Z.succ (52 + g)) with (53 + g) by lia. lia.
Qed.

Section Block.
Variables (u i : Z).
Hypothesis Hu : 0 < u.
Hypothesis Hi : 0 <= i <= 52.
Hypothesis Hover : 2 * u < UOVER.

Let g := if u <? P52 then 0 else Z.log2 u - 52.
Let t := g + i.
Let mf := u / 2 ^ t.
Let rb := mf * 2 ^ t.
Let re := rb + 2 ^ t.

Lemma g_facts : 0 <= g /\ (g = 0 \/ 2 ^ (52 + g) <= u) /\ u < 2 ^ (53 + g).
Proof.
  unfold g. rewrite P52_eq. destruct (Z.ltb_spec u (2 ^ 52)) as [H|H].
  - split; [lia|]. split; [left; reflexivity|]. cbn [Z.add]. assert (2 ^ 52 < 2 ^ 53) by (apply Z.pow_lt_mono_r; lia). lia.
  - assert (52 <= Z.log2 u) by (apply Z.log2_le_pow2; lia). pose proof (Z.log2_spec u Hu) as [L1 L2].
    split; [lia|]. split; [right|]; [replace (52 + (Z.log2 u - 52)) with (Z.log2 u) by lia; exact L1|].
    replace (53 + (Z.log2 u - 52)) with (Z.succ (Z.log2 u)) by lia. exact L2.
Qed.

Lemma t_is : t = if u <? P52 then i else Z.log2 u + i - 52.
Proof. unfold t, g. destruct (u <? P52); lia. Qed.

Lemma block_facts :
  0 <= t /\ rb <= u < re /\ re - rb = 2 ^ i * 2 ^ g /\ rb mod 2 ^ g = 0 /\
  (g = 0 \/ 2 ^ (52 + g) <= rb) /\ re <= 2 ^ (53 + g) /\ 0 <= rb.
Proof.
  destruct g_facts as (Hg & Hlo & Hhi). assert (Ht : 0 <= t) by (unfold t; lia).
  assert (Hpt : 0 < 2 ^ t) by (apply pow2_pos'; lia). assert (Hpg : 0 < 2 ^ g) by (apply pow2_pos'; lia).
  pose proof (Z.div_mod u (2 ^ t) ltac:(lia)) as Hdm. pose proof (Z.mod_pos_bound u (2 ^ t) Hpt) as Hmb.
  assert (Hmf0 : 0 <= mf) by (apply Z.div_pos; lia).
  assert (Hsplit : 2 ^ t = 2 ^ i * 2 ^ g) by (unfold t; rewrite Z.pow_add_r by lia; ring).
  split; [exact Ht|]. split; [unfold re, rb, mf; lia|]. split; [unfold re; lia|].
  split; [unfold rb; rewrite Hsplit, Z.mul_assoc; apply Z.mod_mul; lia|].
  split.
  - destruct Hlo as [H0|Hl]; [left; exact H0 | right].
    (* 2^(52+g) is a multiple of 2^t below u, so the floor multiple rb is not below it *)
    rewrite (pow_multiple (52 + g) t) in * by (unfold t; lia). unfold rb, mf.
    assert (2 ^ (52 + g - t) <= u / 2 ^ t) by (apply Z.div_le_lower_bound; lia).
    apply Z.mul_le_mono_nonneg_r; lia.
  - split; [|unfold rb; nia].
    rewrite (pow_multiple (53 + g) t) in * by (unfold t; lia). unfold re, rb, mf.
    assert (u / 2 ^ t < 2 ^ (53 + g - t)) by (apply Z.div_lt_upper_bound; lia). nia.
Qed.

Theorem range_around_block : range_around u i = Some (FFin false rb, FFin false re).
Proof.
  destruct block_facts as (Ht & Hin & Hw & Hdiv & Hlo & Hhi & Hrb). destruct g_facts as (Hg & _ & Hug).
  assert (Hpg : 0 < 2 ^ g) by (apply pow2_pos'; lia).
  assert (Hpt : 0 < 2 ^ t) by (apply pow2_pos'; lia).
  unfold range_around. replace (u =? 0) with false by (symmetry; apply Z.eqb_neq; lia).
  rewrite <- t_is. replace (0 <=? t) with true by (symmetry; apply Z.leb_le; lia).
  rewrite Z.shiftr_div_pow2 by lia. fold mf. rewrite !Z.shiftl_mul_pow2 by lia.
  replace ((mf + 1) * 2 ^ t) with re by (unfold re, rb; ring). fold rb.
  assert (Hre_rep : re mod 2 ^ ulp_exp re = 0).
  { apply (grid_representable g); [lia | | lia |].
    - destruct Hlo as [H0|Hl]; [left; exact H0 | right; lia].
    - replace re with (rb + (re - rb)) by ring. rewrite Hw. rewrite Z.add_mod by lia. rewrite Hdiv.
      rewrite Z.mod_mul by lia. reflexivity. }
  assert (Hrb_rep : rb mod 2 ^ ulp_exp rb = 0) by (apply (grid_representable g); try lia; assumption).
  assert (Hre_over : re < UOVER).
  { destruct g_facts as (_ & Hlu & _). destruct Hlu as [H0|Hl].
    - rewrite H0 in Hhi. cbn [Z.add] in Hhi. pose proof UOVER_big. assert (2 ^ 53 < 2 ^ 60) by (apply Z.pow_lt_mono_r; lia). lia.
    - assert (2 ^ (53 + g) = 2 * 2 ^ (52 + g)) by (replace (53 + g) with (1 + (52 + g)) by lia; rewrite Z.pow_add_r by lia; reflexivity).
      lia. }
  assert (E1 : round_p2 false re 0 = FFin false re).
  { replace re with (re * 2 ^ 0) at 1 by (rewrite Z.pow_0_r; lia). apply round_p2_exact; [lia | lia | assumption]. }
  assert (E2 : round_p2 false rb 0 = FFin false rb).
  { replace rb with (rb * 2 ^ 0) at 1 by (rewrite Z.pow_0_r; lia). apply round_p2_exact; [lia | lia | assumption]. }
  rewrite E1, E2. reflexivity.
Qed.
End Block.
