(* From the event log to the dumped tables: what a lookup in the tables of `ttables lg` returns, in terms
   of the log (C33). *)
From Coq Require Import ZArith List Bool Arith Lia.
Import ListNotations.
Require Import Grist.Model.JsonImport Grist.Proofs.JsonImport_proofs.

(* ------------------------------------------------------------------ table names *)

Lemma mem_table_names_aux T lg : forall seen,
  mem_str T (table_names_aux lg seen) = negb (mem_str T seen) && (0 <? count T lg).
Proof.
  induction lg as [|e lg IH]; intros seen; cbn [table_names_aux].
  - cbn. rewrite andb_false_r. reflexivity.
  - destruct e as [T' p|T' r k c].
    + assert (Hc : count T (ERow T' p :: lg) = (if str_eqb T' T then 1 else 0) + count T lg).
      { unfold count. cbn. destruct (str_eqb T' T); reflexivity. }
      rewrite Hc. destruct (mem_str T' seen) eqn:Es.
      * rewrite IH. destruct (str_eqb T' T) eqn:E; [|reflexivity].
        apply str_eqb_eq in E. subst T'. rewrite Es. reflexivity.
      * cbn [mem_str]. rewrite IH. cbn [mem_str]. destruct (str_eqb T' T) eqn:E; cbn.
        -- apply str_eqb_eq in E. subst T'. rewrite Es. reflexivity.
        -- reflexivity.
    + rewrite IH. reflexivity.
Qed.

Lemma mem_table_names T lg : mem_str T (table_names lg) = (0 <? count T lg).
Proof. unfold table_names. rewrite mem_table_names_aux. reflexivity. Qed.

Lemma find_table_map T (g : str -> ttable) (names : list str) :
  (forall T', t_name (g T') = T') ->
  find (fun t => str_eqb (t_name t) T) (map g names) = if mem_str T names then Some (g T) else None.
Proof.
  intros Hg. induction names as [|T0 names IH]; cbn; [reflexivity|]. rewrite Hg.
  destruct (str_eqb T0 T) eqn:E; cbn.
  - apply str_eqb_eq in E. subst. reflexivity.
  - exact IH.
Qed.

Lemma find_table_log lg T :
  find_table T (ttables lg) =
  if 0 <? count T lg then Some (dump_rtable (T, rows_of_table lg T)) else None.
Proof.
  unfold find_table, ttables, rtables. rewrite map_map.
  rewrite (find_table_map T (fun T' => dump_rtable (T', rows_of_table lg T'))); [|reflexivity].
  rewrite mem_table_names. reflexivity.
Qed.

Lemma in_ttables lg t : In t (ttables lg) -> exists T, t = dump_rtable (T, rows_of_table lg T).
Proof.
  unfold ttables, rtables. rewrite map_map. intros H. apply in_map_iff in H. destruct H as [T [<- _]]. eauto.
Qed.

(* ------------------------------------------------------------------ rows *)

Lemma rows_of_table_length lg T : length (rows_of_table lg T) = count T lg.
Proof. unfold rows_of_table. rewrite map_length, seq_length. reflexivity. Qed.

Lemma nth_error_seq1 n i : i < n -> nth_error (seq 1 n) i = Some (S i).
Proof.
  intros H. rewrite (nth_error_nth' _ 0); [|rewrite seq_length; exact H]. rewrite seq_nth; [reflexivity|exact H].
Qed.

Lemma nth_error_map_seq {A} (f : nat -> A) n r : 1 <= r <= n -> nth_error (map f (seq 1 n)) (pred r) = Some (f r).
Proof.
  intros H. rewrite nth_error_map, nth_error_seq1 by lia. cbn. f_equal. f_equal. lia.
Qed.

(* ------------------------------------------------------------------ _transpose *)

Lemma dict_find_update_none k row : forall d,
  dict_find k (dict_update d row) = None <-> dict_find k d = None /\ dict_find k row = None.
Proof.
  unfold dict_update. induction row as [|[k0 c0] row IH]; intros d; cbn [fold_left dict_find fst snd].
  - tauto.
  - rewrite IH, dict_find_set. destruct (str_eqb k0 k); split; intros [H1 H2]; try discriminate; auto.
Qed.

Lemma dict_find_fold_update_none k rs : forall d,
  dict_find k (fold_left dict_update rs d) = None <->
  dict_find k d = None /\ forall row, In row rs -> dict_find k row = None.
Proof.
  induction rs as [|row rs IH]; intros d; cbn [fold_left].
  - split; [intros H; split; [exact H|intros ? []]|tauto].
  - rewrite IH, dict_find_update_none. split.
    + intros [[H1 H2] H3]. split; [exact H1|]. intros r [<-|Hr]; auto.
    + intros [H1 H2]. split; [split; [exact H1|apply H2; left; reflexivity]|]. intros r Hr. apply H2. right. exact Hr.
Qed.

Lemma find_col_map k (rows : list dict) (values : dict) :
  find_col k (map (fun kv => mk_tcol (fst kv) (grist_type (snd kv)) (map (dict_get (fst kv)) rows)) values) =
  match dict_find k values with
  | Some v => Some (mk_tcol k (grist_type v) (map (dict_get k) rows))
  | None => None
  end.
Proof.
  unfold find_col. induction values as [|[k0 v0] values IH]; cbn; [reflexivity|].
  destruct (str_eqb k0 k) eqn:E.
  - apply str_eqb_eq in E. subst. reflexivity.
  - exact IH.
Qed.

Lemma find_col_transpose k rows :
  find_col k (transpose rows) =
  match dict_find k (fold_left dict_update (rev rows) []) with
  | Some v => Some (mk_tcol k (grist_type v) (map (dict_get k) rows))
  | None => None
  end.
Proof. unfold transpose. apply find_col_map. Qed.

Lemma find_col_transpose_some k rows row c :
  In row rows -> dict_find k row = Some c ->
  exists ty, find_col k (transpose rows) = Some (mk_tcol k ty (map (dict_get k) rows)).
Proof.
  intros Hin Hrow. rewrite find_col_transpose.
  destruct (dict_find k (fold_left dict_update (rev rows) [])) as [v|] eqn:E; [eauto|].
  exfalso. apply dict_find_fold_update_none in E. destruct E as [_ E].
  rewrite (E row) in Hrow; [discriminate|]. apply in_rev in Hin. exact Hin.
Qed.

Lemma find_col_transpose_none k rows :
  find_col k (transpose rows) = None -> forall row, In row rows -> dict_find k row = None.
Proof.
  rewrite find_col_transpose.
  destruct (dict_find k (fold_left dict_update (rev rows) [])) as [v|] eqn:E; [discriminate|].
  intros _ row Hin. apply dict_find_fold_update_none in E. destruct E as [_ E]. apply E. apply in_rev in Hin. exact Hin.
Qed.

Lemma transpose_col_cells rows c : In c (transpose rows) -> length (col_cells c) = length rows.
Proof.
  unfold transpose. intros H. apply in_map_iff in H. destruct H as [kv [<- _]]. cbn. apply map_length.
Qed.

(* ------------------------------------------------------------------ lookups in the dumped tables *)

Lemma map_fst_rows lg T : map fst (rows_of_table lg T) = map (row_values lg T) (seq 1 (count T lg)).
Proof. unfold rows_of_table. rewrite map_map. reflexivity. Qed.

Lemma map_snd_rows lg T : map snd (rows_of_table lg T) = map (parent_of lg T) (seq 1 (count T lg)).
Proof. unfold rows_of_table. rewrite map_map. reflexivity. Qed.

Lemma tnrows_log lg T : tnrows (ttables lg) T = count T lg.
Proof.
  unfold tnrows. rewrite find_table_log. destruct (0 <? count T lg) eqn:E.
  - cbn. apply rows_of_table_length.
  - apply Nat.ltb_ge in E. lia.
Qed.

Lemma tcell_log lg T k r c :
  1 <= r <= count T lg -> cell_at lg T r k = Some c -> tcell (ttables lg) T k r = Some c.
Proof.
  intros Hr Hc. unfold tcell. rewrite find_table_log.
  assert (E : 0 <? count T lg = true) by (apply Nat.ltb_lt; lia). rewrite E.
  cbn [dump_rtable t_data fst snd]. rewrite map_fst_rows.
  destruct (find_col_transpose_some k (map (row_values lg T) (seq 1 (count T lg))) (row_values lg T r) c)
    as [ty Hty].
  - apply in_map. apply in_seq. lia.
  - exact Hc.
  - rewrite Hty. cbn [col_cells]. rewrite map_map, nth_error_map_seq by exact Hr.
    unfold dict_get. unfold cell_at in Hc. rewrite Hc. reflexivity.
Qed.

Lemma first_parent_some ps i r : nth_error ps i = Some (Some r) -> exists r0, first_parent ps = Some r0.
Proof.
  revert i. induction ps as [|[p|] ps IH]; intros [|i] H; cbn in *; try discriminate; eauto.
Qed.

Lemma tparent_log lg T r rf :
  1 <= r <= count T lg -> parent_of lg T r = Some rf -> tparent (ttables lg) T r = Some (CR rf).
Proof.
  intros Hr Hp. unfold tparent. rewrite find_table_log.
  assert (E : 0 <? count T lg = true) by (apply Nat.ltb_lt; lia). rewrite E.
  cbn [dump_rtable t_parent fst snd]. rewrite map_snd_rows.
  assert (Hn : nth_error (map (parent_of lg T) (seq 1 (count T lg))) (pred r) = Some (Some rf)).
  { rewrite nth_error_map_seq by exact Hr. rewrite Hp. reflexivity. }
  destruct (first_parent_some _ _ _ Hn) as [[pt pr] Hfp]. rewrite Hfp. cbn [col_cells].
  rewrite nth_error_map, Hn. reflexivity.
Qed.

Definition cell_of_count (lg : list event) (T k : str) (c : cell) : nat :=
  count_if (fun r => cell_eqb c (cell_of lg T r k)) (seq 1 (count T lg)).

Lemma tcount_log lg T k c : c <> cnone -> tcount (ttables lg) T k c = cell_of_count lg T k c.
Proof.
  intros Hc. unfold tcount, cell_of_count. rewrite find_table_log. destruct (0 <? count T lg) eqn:E.
  - cbn [dump_rtable t_data fst snd]. rewrite map_fst_rows.
    destruct (find_col k (transpose (map (row_values lg T) (seq 1 (count T lg))))) as [col|] eqn:Ef.
    + rewrite find_col_transpose in Ef.
      destruct (dict_find k (fold_left dict_update (rev (map (row_values lg T) (seq 1 (count T lg)))) []));
        [|discriminate].
      inversion Ef; subst col. cbn [col_cells]. rewrite map_map, count_if_map. reflexivity.
    + symmetry. apply count_if_false. intros r Hr.
      assert (Hnone := find_col_transpose_none k _ Ef (row_values lg T r) (in_map _ _ _ Hr)).
      unfold cell_of, dict_get. rewrite Hnone.
      destruct (cell_eqb c cnone) eqn:Ec; [|reflexivity]. apply cell_eqb_eq in Ec. contradiction.
  - apply Nat.ltb_ge in E. assert (count T lg = 0) by lia. rewrite H. reflexivity.
Qed.

(* ------------------------------------------------------------------ rectangular *)

Lemma dump_rtable_rectangular rt c :
  In c (t_columns (dump_rtable rt)) -> length (col_cells c) = t_nrows (dump_rtable rt).
Proof.
  unfold t_columns. cbn [dump_rtable t_data t_parent t_nrows]. intros H. apply in_app_or in H. destruct H as [H|H].
  - rewrite (transpose_col_cells _ _ H). apply map_length.
  - destruct (first_parent (map snd (snd rt))) as [[pt pr]|]; [|contradiction].
    destruct H as [<-|[]]. cbn. rewrite !map_length. reflexivity.
Qed.
