(* C25 -- the JSON-reading sites of the migrations: on the expected shapes they cannot raise. *)
From Coq Require Import ZArith Bool String List Lia.
Import ListNotations.
Require Import Grist.Model.Migrate Grist.Model.MigrateSites.
Open Scope Z_scope.

Lemma m15_ok_on_objects : forall key j, ws_obj j = true -> m15_site key j = Ok tt.
Proof. intros key j H. destruct j; try discriminate. unfold m15_site. destruct (negb _); reflexivity. Qed.

Lemma m16_ok_on_shape : forall j, ws_m16 j = true -> m16_site j = Ok tt.
Proof.
  intros j H. destruct j as [| | | | |m]; try discriminate. cbn in *.
  destruct (lookup _ m) as [v|]; [|reflexivity].
  destruct (negb (truthy v)); [reflexivity|]. destruct v; try discriminate; reflexivity.
Qed.

Lemma m29_ok_on_objects : forall j, ws_obj j = true -> m29_site j = Ok tt.
Proof. intros j H. destruct j; try discriminate. reflexivity. Qed.

Lemma m34_ok_on_objects : forall j, ws_obj j = true -> m34_site j = Ok tt.
Proof. intros j H. destruct j; try discriminate. reflexivity. Qed.

Lemma m35_ok_on_shape : forall j, ws_m35 j = true -> m35_site j = Ok tt.
Proof.
  intros j H. unfold ws_m35 in H. unfold m35_site.
  destruct (negb (truthy j)) eqn:T; [reflexivity|]. cbn [orb] in H.
  destruct j as [| | | |l|]; try discriminate. destruct l as [|x rest]; [reflexivity|].
  destruct (is_str (zs "Comment") x); cbn [negb orb] in H; [rewrite H|]; reflexivity.
Qed.

Lemma ms_ok_on_shape : forall v, ws_time v = true -> ms_site v = Ok tt.
Proof.
  intros v H. destruct v as [j|]; [|reflexivity]. destruct j as [| |n| | |]; try discriminate; try reflexivity.
  destruct n as [z|bits]; cbn [ws_time ms_site] in *.
  - rewrite H. reflexivity.
  - unfold flt_is_nan, flt_is_inf. apply negb_true_iff in H. rewrite H. reflexivity.
Qed.

Lemma m45_ok_on_shape : forall j, ws_m45 j = true -> m45_site j = Ok tt.
Proof.
  intros j H. destruct j as [| | | | |m]; try reflexivity. cbn [ws_m45 m45_site] in *.
  apply andb_prop in H. destruct H as [H1 H2].
  rewrite (ms_ok_on_shape _ H1). cbn [bind]. apply ms_ok_on_shape. exact H2.
Qed.

(* off the expected shape each site does raise: valid JSON of another shape *)
Lemma sites_raise :
  m15_site (zs "3") (JNum (JInt 5)) = Err TypeErr /\
  m15_site (zs "3") (JStr (zs "3")) = Err TypeErr /\
  m16_site (JArr [JNum (JInt 1); JNum (JInt 2)]) = Err TypeErr /\
  m16_site (JStr (zs "s")) = Err AttrErr /\
  m16_site (JObj [(zs "visibleCol", JArr [JStr (zs "x")])]) = Err TypeErr /\
  m29_site (JArr [JNum (JInt 1); JNum (JInt 2)]) = Err AttrErr /\
  m34_site JNull = Err AttrErr /\
  m34_site (JArr [JNum (JInt 1); JNum (JInt 2)]) = Err AttrErr /\
  m35_site (JNum (JInt 5)) = Err TypeErr /\
  m35_site (JObj [(zs "a", JNum (JInt 1))]) = Err KeyErr /\
  m35_site (JArr [JStr (zs "Comment")]) = Err IndexErr /\
  m45_site (JObj [(zs "timeCreated", JStr (zs "x"))]) = Err TypeErr /\
  m45_site (JObj [(zs "timeUpdated", JNum (JFlt 9218868437227405312))]) = Err OverflowErr /\
  m45_site (JObj [(zs "timeCreated", JNum (JFlt 9221120237041090560))]) = Err ValueErr.
Proof. repeat split; vm_compute; reflexivity. Qed.
