(* C25 -- the JSON-reading sites of the migrations: the raw operations cannot raise on the expected shapes, and
   the guarded sites (source since fix 5a4118c) cannot raise at all. *)
From Coq Require Import ZArith Bool String List Lia.
Import ListNotations.
Require Import Grist.Model.Migrate Grist.Model.MigrateSites.
Open Scope Z_scope.

Lemma m15_ok_on_objects : forall key j, ws_obj j = true -> m15_raw key j = Ok tt.
Proof. intros key j H. destruct j; try discriminate. unfold m15_raw. destruct (negb _); reflexivity. Qed.

Lemma m16_ok_on_shape : forall j, ws_m16 j = true -> m16_raw j = Ok tt.
Proof.
  intros j H. destruct j as [| | | | |m]; try discriminate. cbn in *.
  destruct (lookup _ m) as [v|]; [|reflexivity].
  destruct (negb (truthy v)); [reflexivity|]. destruct v; try discriminate; reflexivity.
Qed.

Lemma m29_ok_on_objects : forall j, ws_obj j = true -> m29_raw j = Ok tt.
Proof. intros j H. destruct j; try discriminate. reflexivity. Qed.

Lemma m34_ok_on_objects : forall j, ws_obj j = true -> m34_raw j = Ok tt.
Proof. intros j H. destruct j; try discriminate. reflexivity. Qed.

Lemma m35_ok_on_shape : forall j, ws_m35 j = true -> m35_raw j = Ok tt.
Proof.
  intros j H. unfold ws_m35 in H. unfold m35_raw.
  destruct (negb (truthy j)) eqn:T; [reflexivity|]. cbn [orb] in H.
  destruct j as [| | | |l|]; try discriminate. destruct l as [|x rest]; [reflexivity|].
  destruct (is_str (zs "Comment") x); cbn [negb orb] in H; [rewrite H|]; reflexivity.
Qed.

Lemma ms_ok_on_shape : forall v, ws_time v = true -> ms_raw v = Ok tt.
Proof.
  intros v H. destruct v as [j|]; [|reflexivity]. destruct j as [| |n| | |]; try discriminate; try reflexivity.
  destruct n as [z|bits]; cbn [ws_time ms_raw] in *.
  - apply Z.ltb_lt in H. assert (L : BIG < OVER) by (vm_compute; reflexivity).
    replace (Z.abs z <? OVER) with true by (symmetry; apply Z.ltb_lt; eapply Z.lt_trans; eassumption).
    reflexivity.
  - unfold flt_is_nan, flt_is_inf. apply negb_true_iff in H. rewrite H. reflexivity.
Qed.

Lemma m45_ok_on_shape : forall j, ws_m45 j = true -> m45_raw j = Ok tt.
Proof.
  intros j H. destruct j as [| | | | |m]; try reflexivity. cbn [ws_m45 m45_raw] in *.
  apply andb_prop in H. destruct H as [H1 H2].
  rewrite (ms_ok_on_shape _ H1). cbn [bind]. apply ms_ok_on_shape. exact H2.
Qed.

(* off the expected shape each site does raise: valid JSON of another shape *)
Lemma raw_ops_raise :
  m15_raw (zs "3") (JNum (JInt 5)) = Err TypeErr /\
  m15_raw (zs "3") (JStr (zs "3")) = Err TypeErr /\
  m16_raw (JArr [JNum (JInt 1); JNum (JInt 2)]) = Err TypeErr /\
  m16_raw (JStr (zs "s")) = Err AttrErr /\
  m16_raw (JObj [(zs "visibleCol", JArr [JStr (zs "x")])]) = Err TypeErr /\
  m29_raw (JArr [JNum (JInt 1); JNum (JInt 2)]) = Err AttrErr /\
  m34_raw JNull = Err AttrErr /\
  m34_raw (JArr [JNum (JInt 1); JNum (JInt 2)]) = Err AttrErr /\
  m35_raw (JNum (JInt 5)) = Err TypeErr /\
  m35_raw (JObj [(zs "a", JNum (JInt 1))]) = Err KeyErr /\
  m35_raw (JArr [JStr (zs "Comment")]) = Err IndexErr /\
  m45_raw (JObj [(zs "timeCreated", JStr (zs "x"))]) = Err TypeErr /\
  m45_raw (JObj [(zs "timeUpdated", JNum (JFlt 9218868437227405312))]) = Err OverflowErr /\
  m45_raw (JObj [(zs "timeCreated", JNum (JFlt 9221120237041090560))]) = Err ValueErr.
Proof. repeat split; vm_compute; reflexivity. Qed.

(* ---------- the guarded sites are total ---------- *)
Lemma m15_total : forall key j, m15_site key j = Ok tt.
Proof. intros key j. unfold m15_site. apply m15_ok_on_objects. destruct j; reflexivity. Qed.

Lemma m16_total : forall j, m16_site j = Ok tt.
Proof.
  intros j. destruct j as [| | | | |m]; try reflexivity. cbn [m16_site].
  destruct (lookup (zs "visibleCol") m) as [v|] eqn:E; [|reflexivity].
  destruct v as [| | |s| |]; try reflexivity.
  destruct (truthy (JStr s)) eqn:T; [|reflexivity].
  cbn [m16_raw]. rewrite E, T. reflexivity.
Qed.

Lemma m29_total : forall j, m29_site j = Ok tt.
Proof. intros j. destruct j; reflexivity. Qed.

Lemma m34_total : forall j, m34_site j = Ok tt.
Proof. intros j. unfold m34_site. apply m34_ok_on_objects. destruct j; reflexivity. Qed.

Lemma m35_total : forall j, m35_site j = Ok tt.
Proof.
  intros j. destruct j as [| | | |l|]; try reflexivity. destruct l as [|x rest]; [reflexivity|].
  cbn [m35_site]. destruct ((2 <=? length rest)%nat && is_str (zs "Comment") x) eqn:G; [|reflexivity].
  apply andb_prop in G. destruct G as [G1 G2].
  apply m35_ok_on_shape. unfold ws_m35. cbn [truthy negb orb]. rewrite G1. apply orb_true_r.
Qed.

Lemma ms_total : forall v, ms_site v = Ok tt.
Proof.
  intros v. unfold ms_site. destruct v as [j|]; [|reflexivity].
  destruct j as [| |n| | |]; try reflexivity. destruct n as [z|bits]; cbn [ms_raw].
  - destruct (Z.abs z <? OVER); reflexivity.
  - destruct (flt_is_nan bits); [reflexivity|]. destruct (flt_is_inf bits); reflexivity.
Qed.

Lemma m45_total : forall j, m45_site j = Ok tt.
Proof. intros j. destruct j; try reflexivity. cbn [m45_site]. rewrite ms_total. cbn [bind]. apply ms_total. Qed.

Lemma sites_total : forall n key j, site_fn n key j = Ok tt.
Proof.
  intros n key j. unfold site_fn.
  repeat match goal with |- context [if ?b then _ else _] => destruct b end;
    auto using m15_total, m16_total, m29_total, m34_total, m35_total, m45_total.
Qed.
