(* A schema edit (the formulas of one column change: Engine.invalidate_column(col) with ALL_ROWS and
   include_self, which also clears the column's recorded dependencies) is an edit the C05 kernel accepts. *)
From Coq Require Import ZArith List Bool Lia.
Import ListNotations.
Require Import Grist.Model.Deps Grist.Model.DepsSpec Grist.Model.DepsExec.
Require Import Grist.Proofs.DepsSpec_proofs.
Require Import Grist.Proofs.Deps_closure_proofs Grist.Proofs.Deps_inval_proofs Grist.Proofs.Deps_order_proofs.
Require Import Grist.Proofs.Deps_rel_proofs Grist.Proofs.Deps_refine_proofs.
Open Scope Z_scope.

Lemma rows_by_keys_nil rk : rows_by_keys rk [] = [].
Proof. unfold rows_by_keys. induction rk as [| p rk IH]; cbn; auto. Qed.

(* from an ALL_ROWS start every batch is ALL_ROWS or empty *)
Lemma RBi_all E R n0 incl n x : RBi E R n0 AllRows incl n x -> x = AllRows \/ x = Rows [].
Proof.
  assert (Step : forall via y, (y = AllRows \/ y = Rows []) ->
                 affected R via y = AllRows \/ affected R via y = Rows []).
  { induction via as [| | c | a IHa b IHb | m k]; intros y Hy; cbn [affected].
    - exact Hy.
    - destruct Hy as [-> | ->]; auto.
    - destruct Hy as [-> | ->]; auto.
    - apply IHa. apply IHb. exact Hy.
    - destruct Hy as [-> | ->]; auto. cbn [flat_map]. rewrite rows_by_keys_nil. auto. }
  induction 1 as [| e | n x e _ IH]; auto.
Qed.

Lemma fresh_row (l : list Z) : exists r, zmem r l = false.
Proof.
  assert (B : forall x, In x l -> x <= fold_right Z.max 0 l).
  { induction l as [| a l IH]; intros x H; [destruct H |].
    cbn [fold_right]. destruct H as [-> | H]; [lia |]. specialize (IH x H). lia. }
  exists (fold_right Z.max 0 l + 1). destruct (zmem _ l) eqn:E; auto.
  apply zmem_In in E. specialize (B _ E). lia.
Qed.

Lemma invalidate_deps_inv fuel g n x g' :
  owner_ok (g_edges g) -> invalidate_deps fuel g n x true = Some g' -> Inv (g_edges g) (g_rel g) g'.
Proof.
  intros Ho H. unfold invalidate_deps in H.
  destruct (inval_post (g_edges g) (g_rel g) Ho (fun _ _ => True) (fun _ _ _ _ _ _ => I) fuel g _ g' H
                       (Inv_init g)) as (I' & _).
  - constructor; [right; exact I | constructor].
  - exact I'.
Qed.

Definition is_some {A} (o : option A) : bool := match o with Some _ => true | None => false end.

Section SchemaEdit.
Variable guarded : state -> cell -> cell -> (Z -> Z) -> Prop.

Theorem schema_edit_ok fuel v f f' g n g' :
  owner_ok (g_edges g) ->
  (forall e, In e (g_edges g) -> no_single (e_rel e) = true) ->
  (forall c, fst c <> n -> f' c = f c) ->
  (* a column that is already fully dirty gets no new formula cells (only its formula text changes) *)
  (is_all (g_map g n) = true -> forall c, fst c = n -> f' c <> None -> f c <> None) ->
  invalidate_deps fuel g n AllRows true = Some g' ->
  (forall c d0 p, guarded (to_state v f g) c d0 p -> guarded (to_state v f' g') c d0 p) ->
  edit_ok guarded (to_state v f g)
          (fun c => Z.eqb (fst c) n && (is_some (f c) || is_some (f' c)))
          (to_state v f' g').
Proof.
  intros Ho Hns Hf Hall H Hg.
  destruct (invalidate_deps_spec _ _ _ _ _ _ Ho H) as (Hm & Hs & Hc).
  pose proof (invalidate_deps_inv _ _ _ _ _ Ho H) as I'.
  (* once the column is (newly) fully dirty, the ALL_ROWS batch has been propagated *)
  assert (Hprop : is_all (g_map g n) = false -> closed_batch (g_edges g) (g_rel g) (g_map g') n AllRows).
  { intros A. destruct (fresh_row (old_rows (g_map g) n)) as [r Hr].
    assert (N0 : in_map (g_map g) (n, r) = false).
    { unfold in_map, old_rows in *. cbn [fst snd]. destruct (g_map g n) as [[| o] |]; auto; discriminate. }
    destruct (Hc (n, r) (Hs r eq_refl) N0) as (y & Hy & Hp & Hcb). cbn [fst snd] in *.
    destruct (RBi_all _ _ _ _ _ _ Hp) as [-> | ->]; [exact Hcb | discriminate]. }
  assert (Hlink : forall d c, closed_batch (g_edges g) (g_rel g) (g_map g') (fst d) AllRows ->
                  links (to_state v f g) d c -> in_map (g_map g') c = true).
  { intros d [cn cr] Hcb (via & Hin & _). cbn [to_state edges rst fst snd] in *.
    pose proof (Hcb (cn, fst d, via) Hin eq_refl) as B. cbn [e_rel e_out snd fst] in B.
    rewrite (allrows_propagates _ _ (Hns _ Hin)) in B. apply (B cr). reflexivity. }
  constructor; cbn [to_state val fml dirty edges rst].
  - reflexivity.
  - intros c Hc0. destruct (Z.eqb (fst c) n) eqn:E.
    + cbn [andb] in Hc0. apply orb_false_iff in Hc0. destruct Hc0 as [A B].
      destruct (f c); destruct (f' c); cbn in A, B; try discriminate. reflexivity.
    + apply Hf. apply Z.eqb_neq. exact E.
  - intros c Hd _. apply Hm. exact Hd.
  - intros [cn cr] Hc0 _. apply andb_true_iff in Hc0. destruct Hc0 as [E _]. cbn [fst] in E.
    apply Z.eqb_eq in E. subst cn. apply (Hs cr). reflexivity.
  - intros d c [[Hd Hcl] | [Hn Hold]] Hl _.
    + apply andb_true_iff in Hd. destruct Hd as [E Hsome]. apply Z.eqb_eq in E.
      destruct (is_all (g_map g n)) eqn:A.
      * exfalso. assert (Hfd : f d <> None).
        { destruct (f d) eqn:F; [discriminate |]. cbn [is_some orb] in Hsome.
          intros _. apply (Hall eq_refl d E); [| exact F]. destruct (f' d); discriminate. }
        specialize (Hcl Hfd). destruct d as [dn dr]. cbn [fst] in E. subst dn.
        rewrite (is_all_in_map _ _ dr A) in Hcl. discriminate.
      * apply (Hlink d c); auto. rewrite E. apply Hprop. reflexivity.
    + destruct (Hc d Hn Hold) as (y & Hy & Hp & Hcb).
      destruct (RBi_all _ _ _ _ _ _ Hp) as [-> | ->]; [| discriminate].
      apply (Hlink d c); auto.
  - intros d c _ Hcl (via & Hin & Hcov). cbn [to_state edges rst] in *. exists via.
    assert (A : is_all (g_map g' (fst c)) = false).
    { destruct (is_all (g_map g' (fst c))) eqn:X; auto. destruct c as [cn cr]. cbn [fst] in X.
      rewrite (is_all_in_map _ _ cr X) in Hcl. discriminate. }
    split.
    + destruct (i_edges _ _ _ I' _ Hin) as [G | G]; auto. cbn [e_out fst] in G. rewrite G in A. discriminate.
    + unfold covers in *.
      rewrite <- (affected_agree (allN (g_map g')) (g_rel g) (g_rel g') via (fst c) (i_rel _ _ _ I')
                    (Ho _ Hin) A). exact Hcov.
  - intros c d0 p _ _ G. split; [apply Hg; exact G | reflexivity].
Qed.
End SchemaEdit.
