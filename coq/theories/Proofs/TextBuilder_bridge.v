(* Bridge between the code generated from /repo/sandbox/grist/textbuilder.py on every run
   (GristGen.TextBuilder_gen, written by harness/tb2v.py) and the hand model Model/TextBuilder.v:
   every translated function / method equals the model's function pointwise.  A semantic edit of the source
   changes the generated term and breaks one of these proofs. *)
From Coq Require Import ZArith List Bool Lia.
Import ListNotations.
Require Import Grist.Model.TextBuilder Grist.Lib.TbPrelude GristGen.TextBuilder_gen.
Open Scope Z_scope.

(* ---- module-level functions ---- *)
Lemma bridge_make_patch t s e new : gen_make_patch t s e new = make_patch t s e new.
Proof. reflexivity. Qed.

Lemma bridge_validate_patch t p : gen_validate_patch t p = if validate_patch t p then Ok tt else ValueError.
Proof. unfold gen_validate_patch, validate_patch. destruct (text_eqb _ _); reflexivity. Qed.

(* ---- Text ---- *)
Lemma bridge_text_get_text t v : render (BText t v) = Ok (gen_text_get_text t).
Proof. reflexivity. Qed.
Lemma bridge_text_map_back fixed t v p : map_back fixed (BText t v) p = gen_text_map_back t v p.
Proof. reflexivity. Qed.

(* ---- Replacer ---- *)
Lemma bridge_get_input_pos io oo k : gen_get_input_pos io oo k = get_input_pos io oo k.
Proof. reflexivity. Qed.

(* the loop of Replacer.__init__ (state: out_parts, out_pos, in_pos, _input_offsets, _output_offsets) against the
   model's recursion *)
Lemma bridge_replacer_loop t : forall L parts op ip io oo,
  bind (fold_res (gen_replacer_init_loop1 t) L (parts, op, ip, io, oo))
       (fun st => let '(parts', _, ip', io', oo') := st in Ok (io', oo', concat (parts' ++ [py_slice_from t ip'])))
  = bind (replacer_loop t ip op L) (fun r => let '(io', oo', tail) := r in Ok (io ++ io', oo ++ oo', concat parts ++ tail)).
Proof.
  induction L as [|p L IH]; intros parts op ip io oo; cbn [fold_res replacer_loop bind].
  - rewrite !app_nil_r, concat_app. cbn [concat]. rewrite app_nil_r. reflexivity.
  - unfold gen_replacer_init_loop1 at 1. rewrite bridge_validate_patch.
    destruct (validate_patch t p); cbn [bind]; [|reflexivity].
    destruct (len (p_new p) =? p_end p - p_start p); cbn [negb bind]; rewrite IH;
      replace (op + (p_start p - ip + len (p_new p))) with (op + (p_start p - ip) + len (p_new p)) by lia;
      destruct (replacer_loop t (p_end p) (op + (p_start p - ip) + len (p_new p)) L) as [[[io' oo'] tail]| |];
      cbn [bind]; try reflexivity.
    + rewrite !concat_app. cbn [concat]. rewrite !app_nil_r, <- !app_assoc. reflexivity.
    + rewrite !concat_app. cbn [concat]. rewrite !app_nil_r, <- !app_assoc. reflexivity.
Qed.

Lemma bridge_replacer_init t ps : gen_replacer_init t ps = replacer_init t ps.
Proof.
  unfold gen_replacer_init, replacer_init. cbv zeta.
  etransitivity; [exact (bridge_replacer_loop t (sort_patches ps) [] 0 0 [0] [0])|].
  destruct (replacer_loop t 0 0 (sort_patches ps)) as [[[io' oo'] tail]| |]; reflexivity.
Qed.

Lemma bridge_replacer_get_text inner ps :
  render (BReplacer inner ps)
  = bind (render inner) (fun t => bind (gen_replacer_init t ps) (fun r => Ok (gen_replacer_get_text (snd r)))).
Proof.
  cbn [render]. destruct (render inner) as [t| |]; cbn [bind]; try reflexivity.
  rewrite bridge_replacer_init. reflexivity.
Qed.

Lemma bridge_replacer_map_back inner ps p :
  map_back true (BReplacer inner ps) p
  = bind (render inner) (fun t => bind (gen_replacer_init t ps) (fun r =>
      let '(io, oo, out) := r in gen_replacer_map_back io oo out t (map_back true inner) p)).
Proof.
  cbn [map_back]. destruct (render inner) as [t| |]; cbn [bind]; try reflexivity.
  rewrite bridge_replacer_init. destruct (replacer_init t ps) as [[[io oo] out]| |]; cbn [bind]; try reflexivity.
  unfold gen_replacer_map_back. rewrite bridge_validate_patch.
  destruct (validate_patch out p); cbn [bind]; [|reflexivity].
  unfold input_end. cbn [andb]. rewrite Z.gtb_ltb.
  destruct (p_start p <? p_end p); cbn [bind]; reflexivity.
Qed.

Definition is_replacer (b : builder) : bool := match b with BReplacer _ _ => true | _ => false end.

Lemma bridge_map_back_offset inner ps k :
  map_back_offset (BReplacer inner ps) k
  = bind (render inner) (fun t => bind (gen_replacer_init t ps) (fun r =>
      let '(io, oo, _) := r in gen_map_back_offset io oo (is_replacer inner) (map_back_offset inner) k)).
Proof.
  unfold map_back_offset. cbn [offset_through]. destruct (render inner) as [t| |]; cbn [bind]; try reflexivity.
  rewrite bridge_replacer_init. destruct (replacer_init t ps) as [[[io oo] out]| |]; cbn [bind]; try reflexivity.
  unfold gen_map_back_offset. destruct inner; reflexivity.
Qed.

(* ---- Combiner ---- *)
Definition gp_text (p : gpart) : text := match p with GStr s => s | GBuilder t => t end.

Lemma bridge_combiner_loop : forall ts acc off,
  exists off', fold_res gen_combiner_init_loop1 ts (acc, off) = Ok (acc ++ part_offsets off ts, off').
Proof.
  induction ts as [|t ts IH]; intros acc off; cbn [fold_res part_offsets].
  - exists off. rewrite app_nil_r. reflexivity.
  - unfold gen_combiner_init_loop1 at 1. cbn [bind]. destruct (IH (acc ++ [off]) (off + len t)) as [off' H].
    exists off'. rewrite H, <- app_assoc. reflexivity.
Qed.

Lemma bridge_combiner_init gps :
  gen_combiner_init gps = Ok (part_offsets 0 (map gp_text gps), concat (map gp_text gps)).
Proof.
  unfold gen_combiner_init. cbv zeta.
  assert (Hm : map (fun p => if gp_is_str p then gp_str p else if gp_is_bytes p then gp_decode p else gp_get_text p) gps
               = map gp_text gps) by (apply map_ext; intros [s|t]; reflexivity).
  rewrite Hm. destruct (bridge_combiner_loop (map gp_text gps) [] 0) as [off' H]. rewrite H. reflexivity.
Qed.

(* the part a patch is handed to *)
Definition gm_dispatch (p : gmpart) (q : patch) : res mapped := if gm_is_str p then Ok None else gm_map_back p q.

Lemma bridge_combiner_map_back fixed ps p (part_at : Z -> gmpart) :
  (forall k q, map_back_parts fixed ps k q = gm_dispatch (part_at (Z.of_nat k)) q) ->
  map_back fixed (BCombiner ps) p
  = bind (render_parts ps) (fun ts => gen_combiner_map_back (concat ts) (part_offsets 0 ts) part_at p).
Proof.
  intros Hpart. cbn [map_back]. destruct (render_parts ps) as [ts| |]; cbn [bind]; try reflexivity.
  unfold gen_combiner_map_back. rewrite bridge_validate_patch.
  destruct (validate_patch (concat ts) p); cbn [bind]; [|reflexivity].
  destruct ((bisect_right (part_offsets 0 ts) (p_start p) <=? 0) || (bisect_right (part_offsets 0 ts) (p_end p - 1) <=? 0)
            || negb (bisect_right (part_offsets 0 ts) (p_start p) =? bisect_right (part_offsets 0 ts) (p_end p - 1))) eqn:E;
    [reflexivity|].
  apply orb_false_elim in E as [E _]. apply orb_false_elim in E as [E _]. apply Z.leb_gt in E.
  rewrite Hpart. rewrite Z2Nat.id by lia. reflexivity.
Qed.

(* ==== the generated methods composed along the object graph ====
   A builder object holds references to its input builder / its parts; g_render, g_map_back and g_offset run the
   *generated* methods along these references (this composition is the only hand-written part). *)
Fixpoint gparts_of (ps : parts) (ts : list text) : list gpart :=
  match ps, ts with
  | PLit s rest, _ :: ts' => GStr s :: gparts_of rest ts'
  | PSub _ rest, t :: ts' => GBuilder t :: gparts_of rest ts'
  | _, _ => []
  end.

Fixpoint g_render (b : builder) : res text :=
  match b with
  | BText t _ => Ok (gen_text_get_text t)
  | BReplacer inner ps =>
      bind (g_render inner) (fun t => bind (gen_replacer_init t ps) (fun r => Ok (gen_replacer_get_text (snd r))))
  | BCombiner ps =>
      bind (g_parts ps) (fun gps => bind (gen_combiner_init gps) (fun r => Ok (gen_combiner_get_text (snd r))))
  end
with g_parts (ps : parts) : res (list gpart) :=
  match ps with
  | PNil => Ok []
  | PLit s rest => bind (g_parts rest) (fun l => Ok (GStr s :: l))
  | PSub b rest => bind (g_render b) (fun t => bind (g_parts rest) (fun l => Ok (GBuilder t :: l)))
  end.

Fixpoint g_map_back (b : builder) (p : patch) : res mapped :=
  match b with
  | BText t v => gen_text_map_back t v p
  | BReplacer inner ps =>
      bind (g_render inner) (fun t => bind (gen_replacer_init t ps) (fun r =>
        let '(io, oo, out) := r in gen_replacer_map_back io oo out t (g_map_back inner) p))
  | BCombiner ps =>
      bind (g_parts ps) (fun gps => bind (gen_combiner_init gps) (fun r =>
        gen_combiner_map_back (snd r) (fst r) (fun i => g_part_at ps (Z.to_nat i)) p))
  end
with g_part_at (ps : parts) (k : nat) : gmpart :=
  match ps with
  | PNil => GMBuilder (fun _ => ValueError)
  | PLit _ rest => match k with O => GMStr | S k' => g_part_at rest k' end
  | PSub b rest => match k with O => GMBuilder (g_map_back b) | S k' => g_part_at rest k' end
  end.

Fixpoint g_offset (b : builder) (k : Z) : res Z :=
  match b with
  | BReplacer inner ps =>
      bind (g_render inner) (fun t => bind (gen_replacer_init t ps) (fun r =>
        let '(io, oo, _) := r in gen_map_back_offset io oo (is_replacer inner) (g_offset inner) k))
  | _ => Ok k
  end.

Scheme builder_mind' := Induction for builder Sort Prop
  with parts_mind' := Induction for parts Sort Prop.
Combined Scheme builder_parts_ind' from builder_mind', parts_mind'.

Lemma g_render_eq :
  (forall b, g_render b = render b) /\
  (forall ps, g_parts ps = bind (render_parts ps) (fun ts => Ok (gparts_of ps ts)) /\
              forall ts, render_parts ps = Ok ts -> map gp_text (gparts_of ps ts) = ts).
Proof.
  apply builder_parts_ind'.
  - reflexivity.
  - intros inner IH ps. rewrite bridge_replacer_get_text. cbn [g_render]. rewrite IH. reflexivity.
  - intros ps [IH1 IH2]. cbn [g_render render]. rewrite IH1.
    destruct (render_parts ps) as [ts| |] eqn:E; cbn [bind]; try reflexivity.
    rewrite bridge_combiner_init. cbn [bind snd]. rewrite (IH2 ts eq_refl). reflexivity.
  - split; [reflexivity|]. intros ts H. inversion H. reflexivity.
  - intros s rest [IH1 IH2]. cbn [g_parts render_parts]. rewrite IH1. split.
    + destruct (render_parts rest) as [ts| |]; reflexivity.
    + intros ts H. destruct (render_parts rest) as [ts'| |]; cbn [bind] in H; inversion H; subst.
      cbn [gparts_of map gp_text]. rewrite (IH2 ts' eq_refl). reflexivity.
  - intros b IHb rest [IH1 IH2]. cbn [g_parts render_parts]. rewrite IHb, IH1. split.
    + destruct (render b) as [t| |]; cbn [bind]; try reflexivity.
      destruct (render_parts rest) as [ts| |]; reflexivity.
    + intros ts H. destruct (render b) as [t| |]; cbn [bind] in H; try discriminate.
      destruct (render_parts rest) as [ts'| |]; cbn [bind] in H; inversion H; subst.
      cbn [gparts_of map gp_text]. rewrite (IH2 ts' eq_refl). reflexivity.
Qed.

Lemma gen_replacer_map_back_ext io oo out t f g p : (forall q, f q = g q) ->
  gen_replacer_map_back io oo out t f p = gen_replacer_map_back io oo out t g p.
Proof.
  intros H. unfold gen_replacer_map_back. destruct (gen_validate_patch out p); cbn [bind]; try reflexivity.
  destruct (p_end p >? p_start p); cbn [bind]; apply H.
Qed.
Lemma gen_combiner_map_back_ext txt offs pa pa' p : (forall i q, gm_dispatch (pa i) q = gm_dispatch (pa' i) q) ->
  gen_combiner_map_back txt offs pa p = gen_combiner_map_back txt offs pa' p.
Proof.
  intros H. unfold gen_combiner_map_back. destruct (gen_validate_patch txt p); cbn [bind]; try reflexivity.
  match goal with |- (if ?c then _ else _) = _ => destruct c end; [reflexivity|]. apply H.
Qed.
Lemma gen_map_back_offset_ext io oo r f g k : (forall x, f x = g x) ->
  gen_map_back_offset io oo r f k = gen_map_back_offset io oo r g k.
Proof. intros H. unfold gen_map_back_offset. destruct r; [apply H|reflexivity]. Qed.

Lemma g_map_back_eq :
  (forall b p, g_map_back b p = map_back true b p) /\
  (forall ps k q, gm_dispatch (g_part_at ps k) q = map_back_parts true ps k q).
Proof.
  apply builder_parts_ind'.
  - intros t v p. symmetry. apply bridge_text_map_back.
  - intros inner IH ps p. rewrite bridge_replacer_map_back. cbn [g_map_back].
    rewrite (proj1 g_render_eq inner). destruct (render inner) as [t| |]; cbn [bind]; try reflexivity.
    destruct (gen_replacer_init t ps) as [[[io oo] out]| |]; cbn [bind]; try reflexivity.
    apply gen_replacer_map_back_ext. exact IH.
  - intros ps IH p. cbn [g_map_back].
    rewrite (bridge_combiner_map_back true ps p (fun i => g_part_at ps (Z.to_nat i))).
    2:{ intros k q. rewrite Nat2Z.id. symmetry. apply IH. }
    destruct (proj2 g_render_eq ps) as [H1 H2]. rewrite H1.
    destruct (render_parts ps) as [ts| |] eqn:E; cbn [bind]; try reflexivity.
    rewrite bridge_combiner_init. cbn [bind fst snd]. rewrite (H2 ts eq_refl). reflexivity.
  - intros k q. reflexivity.
  - intros s rest IH [|k] q; cbn [g_part_at map_back_parts]; [reflexivity|apply IH].
  - intros b IHb rest IH [|k] q; cbn [g_part_at map_back_parts]; [|apply IH].
    unfold gm_dispatch. cbn [gm_is_str gm_map_back]. apply IHb.
Qed.

Lemma g_offset_eq : forall b k, g_offset b k = map_back_offset b k.
Proof.
  induction b as [t v|inner IH ps|ps]; intros k; try reflexivity.
  rewrite bridge_map_back_offset. cbn [g_offset]. rewrite (proj1 g_render_eq inner).
  destruct (render inner) as [t| |]; cbn [bind]; try reflexivity.
  destruct (gen_replacer_init t ps) as [[[io oo] out]| |]; cbn [bind]; try reflexivity.
  apply gen_map_back_offset_ext. exact IH.
Qed.
