(* C08: the code regenerated from /repo (GristGen.SchemaSync_gen) is the hand model (Model/SchemaSync.v), pointwise. *)
From Coq Require Import ZArith List Bool Lia.
Import ListNotations.
Require Import Grist.Model.SchemaSync Grist.Model.SchemaCode GristGen.SchemaSync_gen
               Grist.Proofs.SchemaSync_build Grist.Proofs.SchemaSync_aux.
Open Scope Z_scope.

Definition cdict_of_patch (p : colpatch) : cdict :=
  {| d_type := p_type p; d_isf := p_isf p; d_formula := p_formula p; d_rev := p_rev p; d_id := None |}.

(* schema.col_to_dict(col, include_id=False, include_default=True): every attribute, reverseColId even when None *)
Lemma col_to_dict_bridge : forall c i,
  col_to_dict_gen (c, i) false true =
  {| d_type := Some (ci_type i); d_isf := Some (ci_isf i); d_formula := Some (ci_formula i); d_rev := Some (ci_rev i);
     d_id := None |}.
Proof. intros c i. unfold col_to_dict_gen. cbn [fst snd]. rewrite orb_true_r. reflexivity. Qed.

Lemma scol_eqb_same_key : forall c a b, scol_eqb (c, a) (c, b) = colinfo_eqb a b.
Proof. intros. unfold scol_eqb. cbn. rewrite str_eqb_refl. reflexivity. Qed.

Lemma patch_info_unfold : forall p old,
  {| ci_type := match p_type p with Some x => x | None => ci_type old end;
     ci_isf := match p_isf p with Some x => x | None => ci_isf old end;
     ci_formula := match p_formula p with Some x => x | None => ci_formula old end;
     ci_rev := match p_rev p with Some x => x | None => ci_rev old end |} = patch_info p old.
Proof. reflexivity. Qed.

(* docactions.ModifyColumn, the schema update and the undo col_info it builds *)
Lemma modify_column_bridge : forall (cols : scols) c p old, od_get c cols = Some old ->
  modify_column_gen cols c p =
  if colinfo_eqb (patch_info p old) old then None
  else Some (od_set c (patch_info p old) (od_del c cols), cdict_of_patch (undo_patch old p)).
Proof.
  intros cols c p old H. unfold modify_column_gen. cbv zeta. unfold scol_at. rewrite H. cbn [fst snd].
  rewrite patch_info_unfold, scol_eqb_same_key.
  destruct (colinfo_eqb (patch_info p old) old); [reflexivity|].
  rewrite col_to_dict_bridge. cbn [d_type d_isf d_formula d_rev d_id].
  unfold cdict_of_patch, undo_patch. cbn.
  destruct (p_type p), (p_isf p), (p_formula p), (p_rev p); reflexivity.
Qed.

(* the model's doc action is the regenerated one *)
Lemma modify_column_apply_s : forall t c p (s : schema) (cols : scols) old, od_get t s = Some cols -> od_get c cols = Some old ->
  apply_s (SModifyColumn t c p) s =
  Ok (match modify_column_gen cols c p with Some (cols', _) => od_set t cols' s | None => s end).
Proof.
  intros t c p s cols old Ht Hc. unfold apply_s. rewrite Ht, Hc. cbv zeta. rewrite (modify_column_bridge cols c p old Hc).
  destruct (colinfo_eqb (patch_info p old) old); reflexivity.
Qed.

(* the undo col_info restores the column: applying ModifyColumn with it to the modified column gives the old one *)
Lemma undo_patch_restores : forall old p, patch_info (undo_patch old p) (patch_info p old) = old.
Proof.
  intros [t i f r] [pt pi pf pr]. unfold patch_info, undo_patch. cbn.
  destruct pt, pi, pf, pr; reflexivity.
Qed.

Lemma modify_undo_restores : forall (cols : scols) c p old cols' undo, od_get c cols = Some old ->
  modify_column_gen cols c p = Some (cols', undo) ->
  forall k, od_get k (match modify_column_gen cols' c (patch_of_cdict undo) with Some (cols'', _) => cols'' | None => cols' end)
            = od_get k cols.
Proof.
  intros cols c p old cols' undo Hc Hm k. rewrite (modify_column_bridge cols c p old Hc) in Hm.
  destruct (colinfo_eqb (patch_info p old) old) eqn:E; [discriminate|]. inversion Hm; subst cols' undo; clear Hm.
  assert (Hc' : od_get c (od_set c (patch_info p old) (od_del c cols)) = Some (patch_info p old)) by apply od_get_set_same.
  rewrite (modify_column_bridge _ c _ _ Hc').
  assert (Hp : patch_of_cdict (cdict_of_patch (undo_patch old p)) = undo_patch old p) by (destruct (undo_patch old p); reflexivity).
  rewrite Hp, undo_patch_restores.
  destruct (colinfo_eqb old (patch_info p old)) eqn:E2.
  - apply colinfo_eqb_eq in E2. rewrite <- E2 in E.
    assert (colinfo_eqb old old = true).
    { destruct old as [a b c0 d]. unfold colinfo_eqb. cbn. rewrite !str_eqb_refl, eqb_reflx. destruct d; cbn; [rewrite str_eqb_refl|]; reflexivity. }
    congruence.
  - repeat (rewrite od_get_set || rewrite od_get_del). destruct (str_eqb c k) eqn:Ek; [|reflexivity].
    apply str_eqb_eq in Ek. subst k. symmetry. exact Hc.
Qed.

(* ---- the other schema doc actions ---- *)
Lemma add_column_bridge : forall t c i (s : schema) (cols : scols), od_get t s = Some cols -> od_get c cols = None ->
  apply_s (SAddColumn t c i) s = Ok (add_column_gen s t c i).
Proof. intros t c i s cols Ht Hc. unfold apply_s. rewrite Ht, Hc. unfold add_column_gen. rewrite Ht. reflexivity. Qed.

Lemma remove_column_bridge : forall t c (s : schema) (cols : scols) i, od_get t s = Some cols -> od_get c cols = Some i ->
  apply_s (SRemoveColumn t c) s = Ok (remove_column_gen s t c).
Proof. intros t c s cols i Ht Hc. unfold apply_s. rewrite Ht, Hc. unfold remove_column_gen. rewrite Ht. reflexivity. Qed.

Lemma rename_column_bridge : forall t c c' (s : schema) (cols : scols) i d, od_get t s = Some cols -> od_get c cols = Some i -> od_get c' cols = None ->
  apply_s (SRenameColumn t c c') s = Ok (od_set t (rename_column_gen s t c c' d) s).
Proof.
  intros t c c' s cols i d Ht Hc Hn. unfold apply_s. rewrite Ht, Hc, Hn. unfold rename_column_gen. rewrite Ht. cbv zeta. rewrite Hc. reflexivity.
Qed.

Lemma add_table_bridge : forall t cols (s : schema), od_get t s = None -> apply_s (SAddTable t cols) s = Ok (add_table_gen s t cols).
Proof. intros t cols s H. unfold apply_s. rewrite H. reflexivity. Qed.

Lemma remove_table_bridge : forall t (s : schema) (cols : scols), od_get t s = Some cols -> apply_s (SRemoveTable t) s = Ok (remove_table_gen s t).
Proof. intros t s cols H. unfold apply_s. rewrite H. reflexivity. Qed.

Lemma rename_table_bridge : forall t t' (s : schema) (cols : scols), od_get t s = Some cols -> od_get t' s = None ->
  apply_s (SRenameTable t t') s = Ok (rename_table_gen s t t').
Proof. intros t t' s cols H Hn. unfold apply_s. rewrite H, Hn. unfold rename_table_gen. rewrite H. reflexivity. Qed.

(* ---- schema.build_schema ---- *)
Require Import Grist.Proofs.SchemaSync_spec Grist.Proofs.SchemaSync_proofs.

Lemma ins_by_insert : forall x l, ins_by c_parent c_pos x l = insert_sorted x l.
Proof. intros x l. induction l as [|y t IH]; [reflexivity|]. cbn. unfold key_le. rewrite IH. reflexivity. Qed.

Lemma sorted_by2_sort_cols : forall l, sorted_by2 c_parent c_pos l = sort_cols l.
Proof. induction l as [|x t IH]; [reflexivity|]. cbn. unfold sorted_by2 in IH. rewrite IH. apply ins_by_insert. Qed.

Lemma groupby_key_groupby : forall l, groupby_key c_parent l = groupby l.
Proof. induction l as [|x t IH]; [reflexivity|]. cbn. rewrite IH. reflexivity. Qed.

Lemma zdict_get_dict_last : forall k (g : list (Z * list crec)), zdict_get k g = dict_last k g.
Proof. intros k g. induction g as [|[k' v] t IH]; [reflexivity|]. cbn. rewrite IH. reflexivity. Qed.

Lemma zdict_get_refmap : forall r l, zdict_get r (map (fun c => (c_id c, c_colId c)) l) = refmap_get r l.
Proof. intros r l. induction l as [|x t IH]; [reflexivity|]. cbn. rewrite IH. reflexivity. Qed.

Lemma fold_left_ext2 : forall {A B} (f g : A -> B -> A) l a, (forall x y, f x y = g x y) -> fold_left f l a = fold_left g l a.
Proof. intros A B f g l. induction l as [|y t IH]; intros a H; cbn; [reflexivity|]. rewrite H. apply IH. exact H. Qed.

Lemma gen_cols_build_cols : forall collist g,
  od_of_list (map (fun c => (c_colId c,
                             snd (c_colId c, {| ci_type := c_type c; ci_isf := c_isf c; ci_formula := c_formula c;
                                                ci_rev := reverse_col_id_gen collist c |}))) g) = build_cols collist g.
Proof.
  intros collist g. unfold od_of_list, build_cols. rewrite fold_left_map. apply fold_left_ext2.
  intros d c. cbn [fst snd]. unfold mkinfo, reverse_col_id_gen. cbv zeta. rewrite zdict_get_refmap. reflexivity.
Qed.

Lemma build_fold_bridge : forall cs ts sch,
  fold_left (build_step cs) ts (Ok sch) =
  if forallb (fun t => is_some (zdict_get (t_id t) (groupby (sort_cols cs)))) ts
  then Ok (fold_left (fun st t => od_set (t_tableId t)
                        (build_cols (sort_cols cs)
                           (match zdict_get (t_id t) (groupby (sort_cols cs)) with Some g => g | None => [] end)) st) ts sch)
  else Err E_key_error.
Proof.
  intros cs ts. induction ts as [|t ts IH]; intro sch; [reflexivity|].
  cbn [fold_left forallb]. unfold build_step at 2. rewrite zdict_get_dict_last.
  destruct (dict_last (t_id t) (groupby (sort_cols cs))) as [g|] eqn:E; cbn [is_some andb].
  - rewrite IH. reflexivity.
  - apply fold_build_err.
Qed.

Theorem build_schema_bridge : forall base ts cs,
  build_schema_gen base ts cs = build_schema base {| m_tables := ts; m_cols := cs |}.
Proof.
  intros base ts cs. rewrite build_schema_unfold. cbn [m_tables m_cols]. rewrite build_fold_bridge.
  unfold build_schema_gen. cbv zeta. rewrite sorted_by2_sort_cols, groupby_key_groupby.
  destruct (forallb _ ts); [|reflexivity]. f_equal. apply fold_left_ext2. intros st t.
  rewrite gen_cols_build_cols. reflexivity.
Qed.
