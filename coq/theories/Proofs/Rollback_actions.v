(* Closed forms of the micro-step execution of each doc action (Model/Rollback.v). *)
From stdpp Require Import gmap sorting.
Require Import Grist.Model.Rollback Grist.Proofs.Rollback_proofs.
Open Scope Z_scope.

(* ---------------------------------------------------------------------------------------------------------- *)
(* generic facts about exec_all and the state updaters *)
Lemma exec_all_app st l1 l2 :
  exec_all st (l1 ++ l2) = exec_all st l1 ≫= fun st' => exec_all st' l2.
Proof.
  revert st. induction l1 as [|m l1 IH]; intros st; simpl; [reflexivity|].
  destruct (exec_step st m); simpl; [apply IH|reflexivity].
Qed.

Lemma exec_all_fail st l rest : In MFail l -> exec_all st (l ++ rest) = None.
Proof.
  revert st. induction l as [|m l IH]; intros st Hin; [destruct Hin|].
  simpl. destruct Hin as [->|Hin]; [reflexivity|]. destruct (exec_step st m); [apply IH; exact Hin|reflexivity].
Qed.

Lemma table_eta tb : {| t_rows := t_rows tb; t_cols := t_cols tb |} = tb.
Proof. destruct tb; reflexivity. Qed.
Lemma doc_eta d : {| d_schema := d_schema d; d_tables := d_tables d |} = d.
Proof. destruct d; reflexivity. Qed.
Lemma column_eta c : {| c_info := c_info c; c_data := c_data c |} = c.
Proof. destruct c; reflexivity. Qed.
Lemma mstate_eta st : {| ms_doc := ms_doc st; ms_undo := ms_undo st; ms_pending := ms_pending st; ms_saved := ms_saved st |} = st.
Proof. destruct st; reflexivity. Qed.

Lemma on_doc_on_doc f g st : on_doc f (on_doc g st) = on_doc (fun d => f (g d)) st.
Proof. reflexivity. Qed.
Lemma on_doc_id st : on_doc (fun d => d) st = st.
Proof. destruct st; reflexivity. Qed.

Lemma upd_table_compose t f g d : upd_table t f (upd_table t g d) = upd_table t (fun tb => f (g tb)) d.
Proof. unfold upd_table. simpl. f_equal. symmetry. apply (alter_compose f g). Qed.
Lemma upd_col_compose c f g tb : upd_col c f (upd_col c g tb) = upd_col c (fun col => f (g col)) tb.
Proof. unfold upd_col. simpl. f_equal. symmetry. apply (alter_compose f g). Qed.
Lemma upd_table_id t d : upd_table t (fun tb => tb) d = d.
Proof. unfold upd_table. rewrite alter_id by auto. apply doc_eta. Qed.
Lemma upd_col_id c tb : upd_col c (fun col => col) tb = tb.
Proof. unfold upd_col. rewrite alter_id by auto. apply table_eta. Qed.
Lemma upd_table_ext t f g d : (forall tb, d_tables d !! t = Some tb -> f tb = g tb) -> upd_table t f d = upd_table t g d.
Proof.
  intros H. unfold upd_table. f_equal. apply map_eq. intros t'. destruct (decide (t' = t)) as [->|Hne].
  - rewrite !lookup_alter. destruct (d_tables d !! t) eqn:E; simpl; [f_equal; auto|reflexivity].
  - rewrite !lookup_alter_ne by auto. reflexivity.
Qed.
Lemma upd_col_ext c f g tb : (forall col, t_cols tb !! c = Some col -> f col = g col) -> upd_col c f tb = upd_col c g tb.
Proof.
  intros H. unfold upd_col. f_equal. apply map_eq. intros c'. destruct (decide (c' = c)) as [->|Hne].
  - rewrite !lookup_alter. destruct (t_cols tb !! c) eqn:E; simpl; [f_equal; auto|reflexivity].
  - rewrite !lookup_alter_ne by auto. reflexivity.
Qed.

Lemma on_doc_upd_table_id t f st : (forall tb, f tb = tb) -> on_doc (upd_table t f) st = st.
Proof.
  intros H. rewrite <- (on_doc_id st) at 2. unfold on_doc. f_equal.
  rewrite <- (upd_table_id t (ms_doc st)) at 2. apply upd_table_ext. intros tb _. apply H.
Qed.

(* the explicit form: table t replaced *)
Definition tset (t : name) (tb : table) (d : doc) : doc :=
  {| d_schema := d_schema d; d_tables := <[t := tb]> (d_tables d) |}.

Lemma upd_table_tset t f d tb : d_tables d !! t = Some tb -> upd_table t f d = tset t (f tb) d.
Proof.
  intros H. unfold upd_table, tset. f_equal. apply map_eq. intros t'. destruct (decide (t' = t)) as [->|Hne].
  - rewrite lookup_alter, lookup_insert, H. reflexivity.
  - rewrite lookup_alter_ne, lookup_insert_ne by auto. reflexivity.
Qed.
Lemma tset_id t tb d : d_tables d !! t = Some tb -> tset t tb d = d.
Proof. intros H. unfold tset. rewrite insert_id by exact H. apply doc_eta. Qed.
Lemma tset_tset t tb1 tb2 d : tset t tb2 (tset t tb1 d) = tset t tb2 d.
Proof. unfold tset. simpl. rewrite insert_insert. reflexivity. Qed.
Lemma tset_lookup t tb d : d_tables (tset t tb d) !! t = Some tb.
Proof. simpl. apply lookup_insert. Qed.
Lemma tset_schema t tb d : d_schema (tset t tb d) = d_schema d.
Proof. reflexivity. Qed.

(* ---------------------------------------------------------------------------------------------------------- *)
(* segments of micro-steps *)
Lemma exec_set_cells t c l : forall st rest,
  exec_all st (map (fun rv => MSetCell t c rv.1 rv.2) l ++ rest)
  = exec_all (on_doc (upd_table t (upd_col c (fun col => cset_list col l))) st) rest.
Proof.
  induction l as [|[r v] l IH]; intros st rest; simpl.
  - f_equal. symmetry. apply on_doc_upd_table_id. intros tb. apply upd_col_id.
  - rewrite IH. f_equal. rewrite on_doc_on_doc. unfold on_doc. simpl. f_equal.
    rewrite upd_table_compose. apply upd_table_ext. intros tb _. rewrite upd_col_compose. reflexivity.
Qed.

(* all the given (column, values) entries written into table tb *)
Definition write_cols (rows : list rowid) (vals : list (name * list val)) (tb : table) : table :=
  foldl (fun tb cv => upd_col cv.1 (fun col => cset_list col (zip rows cv.2)) tb) tb vals.

Lemma exec_write_cols t rows vals : forall st rest,
  exec_all st (concat (map (cell_steps t rows) vals) ++ rest)
  = exec_all (on_doc (upd_table t (write_cols rows vals)) st) rest.
Proof.
  induction vals as [|cv vals IH]; intros st rest; simpl.
  - f_equal. symmetry. apply on_doc_upd_table_id. intros tb. reflexivity.
  - rewrite <- app_assoc. unfold cell_steps at 1. rewrite exec_set_cells, IH. f_equal.
    rewrite on_doc_on_doc. unfold on_doc. simpl. f_equal. rewrite upd_table_compose. reflexivity.
Qed.

Lemma exec_add_rows t rows : forall st rest,
  exec_all st (map (MAddRow t) rows ++ rest)
  = exec_all (on_doc (upd_table t (set_rows (fun rs => list_to_set rows ∪ rs))) st) rest.
Proof.
  induction rows as [|r rows IH]; intros st rest; simpl.
  - f_equal. symmetry. apply on_doc_upd_table_id. intros tb.
    unfold set_rows. simpl. rewrite (left_id_L ∅ (∪)). apply table_eta.
  - rewrite IH. f_equal. rewrite on_doc_on_doc. unfold on_doc. simpl. f_equal.
    rewrite upd_table_compose. apply upd_table_ext. intros tb _. unfold set_rows. simpl. f_equal. set_solver.
Qed.

Lemma exec_del_rows t rows : forall st rest,
  exec_all st (map (MDelRow t) rows ++ rest)
  = exec_all (on_doc (upd_table t (set_rows (fun rs => rs ∖ list_to_set rows))) st) rest.
Proof.
  induction rows as [|r rows IH]; intros st rest; simpl.
  - f_equal. symmetry. apply on_doc_upd_table_id. intros tb.
    unfold set_rows. simpl. rewrite difference_empty_L. apply table_eta.
  - rewrite IH. f_equal. rewrite on_doc_on_doc. unfold on_doc. simpl. f_equal.
    rewrite upd_table_compose. apply upd_table_ext. intros tb _. unfold set_rows. simpl. f_equal. set_solver.
Qed.
(* what write_cols does to one column *)
Definition col_writes (c : name) (rows : list rowid) (vals : list (name * list val)) (col : column) : column :=
  foldl (fun col cv => if decide (cv.1 = c) then cset_list col (zip rows cv.2) else col) col vals.

Lemma write_cols_rows rows vals : forall tb, t_rows (write_cols rows vals tb) = t_rows tb.
Proof. induction vals as [|cv vals IH]; intros tb; [reflexivity|]. unfold write_cols in *. simpl. rewrite IH. reflexivity. Qed.

Lemma write_cols_lookup rows vals c : forall tb,
  t_cols (write_cols rows vals tb) !! c = col_writes c rows vals <$> t_cols tb !! c.
Proof.
  induction vals as [|cv vals IH]; intros tb.
  - unfold write_cols, col_writes. simpl. destruct (t_cols tb !! c); reflexivity.
  - unfold write_cols, col_writes in *. simpl. rewrite IH. simpl.
    destruct (decide (cv.1 = c)) as [E|Hne].
    + rewrite E, lookup_alter. destruct (t_cols tb !! c); reflexivity.
    + rewrite lookup_alter_ne by auto. reflexivity.
Qed.

Lemma zip_fst_in {A} (rows : list rowid) (vs : list A) r : r ∈ (zip rows vs).*1 -> r ∈ rows.
Proof.
  revert vs. induction rows as [|r0 rows IH]; intros [|v vs] H; simpl in *; try (inversion H; fail).
  apply elem_of_cons in H as [->|H]; [left|right; eauto].
Qed.

Lemma zip_map_in {A} (f : rowid -> A) rows r v : (r, v) ∈ zip rows (map f rows) -> v = f r.
Proof.
  induction rows as [|r0 rows IH]; simpl; intros H; [inversion H|].
  apply elem_of_cons in H as [H|H]; [congruence|auto].
Qed.

Lemma zip_map_fst {A} (f : rowid -> A) rows : (zip rows (map f rows)).*1 = rows.
Proof. induction rows as [|r0 rows IH]; simpl; [reflexivity|]. f_equal. exact IH. Qed.

Lemma col_writes_info c rows vals : forall col, c_info (col_writes c rows vals col) = c_info col.
Proof.
  induction vals as [|cv vals IH]; intros col; [reflexivity|]. unfold col_writes in *. simpl. rewrite IH.
  destruct (decide (cv.1 = c)); [apply cset_list_info|reflexivity].
Qed.

Lemma col_writes_other c rows vals : forall col r, r ∉ rows -> cget (col_writes c rows vals col) r = cget col r.
Proof.
  induction vals as [|cv vals IH]; intros col r Hr; [reflexivity|]. unfold col_writes in *. simpl. rewrite IH by exact Hr.
  destruct (decide (cv.1 = c)); [|reflexivity]. apply cget_cset_list_notin. intros H. apply Hr. eapply zip_fst_in. exact H.
Qed.

Lemma col_writes_wf c rows vals R : forall col,
  wf_col R col -> (forall r, r ∈ rows -> r ∈ R) -> wf_col R (col_writes c rows vals col).
Proof.
  induction vals as [|cv vals IH]; intros col H HR; [exact H|]. unfold col_writes in *. simpl. apply IH; [|exact HR].
  destruct (decide (cv.1 = c)); [|exact H]. apply wf_col_cset_list; [exact H|]. intros r Hr. apply HR. eapply zip_fst_in. exact Hr.
Qed.

Lemma col_writes_notin c rows vals : forall col, c ∉ vals.*1 -> col_writes c rows vals col = col.
Proof.
  induction vals as [|cv vals IH]; intros col H; [reflexivity|]. unfold col_writes in *. simpl.
  rewrite decide_False by (intros E; apply H; rewrite <- E; left). apply IH. intros E. apply H. right. exact E.
Qed.

(* when every entry for c carries the values f r, the column reads f r on all the rows *)
Lemma col_writes_restores c rows f vals : forall col r,
  c ∈ vals.*1 -> (forall cv, cv ∈ vals -> cv.1 = c -> cv.2 = map f rows) -> r ∈ rows ->
  cget (col_writes c rows vals col) r = f r.
Proof.
  induction vals as [|cv vals IH] using rev_ind; intros col r Hc Hf Hr; [inversion Hc|].
  unfold col_writes in *. rewrite foldl_app. simpl. destruct (decide (cv.1 = c)) as [E|Hne].
  - rewrite (Hf cv) by (auto; apply elem_of_app; right; left).
    apply cget_cset_list_in; [rewrite zip_map_fst; exact Hr|]. intros r' v H. eapply zip_map_in. exact H.
  - apply IH; [|intros cv' H1 H2; apply Hf; [apply elem_of_app; left; exact H1|exact H2]|exact Hr].
    rewrite fmap_app in Hc. apply elem_of_app in Hc as [Hc|Hc]; [exact Hc|]. simpl in Hc.
    apply elem_of_list_singleton in Hc. congruence.
Qed.
(* ---------------------------------------------------------------------------------------------------------- *)
(* record actions *)
Definition known (tb : table) (cv : name * list val) : Prop := is_Some (t_cols tb !! cv.1).

Lemma known_prefix_all tb vals : Forall (known tb) vals -> known_prefix tb vals = vals.
Proof.
  induction 1 as [|cv vals [col H] _ IH]; [reflexivity|]. simpl. rewrite H. f_equal. exact IH.
Qed.

Lemma known_prefix_len tb vals : length (known_prefix tb vals) = length vals -> Forall (known tb) vals.
Proof.
  induction vals as [|cv vals IH]; intros H; [constructor|]. simpl in H.
  destruct (t_cols tb !! cv.1) eqn:E; [|discriminate]. simpl in H. constructor; [eexists; exact E|].
  apply IH. congruence.
Qed.

Lemma exec_all_snoc_fail st l : exec_all st (l ++ [MFail]) = None.
Proof. rewrite exec_all_app. destruct (exec_all st l); reflexivity. Qed.

Definition update_undo (tb : table) (rows : list rowid) (vals : list (name * list val)) : list (name * list val) :=
  omap (fun cv => (fun col => (cv.1, map (cget col) rows)) <$> t_cols tb !! cv.1) vals.

Lemma exec_update ord d t tb rows vals u p s st' :
  d_tables d !! t = Some tb ->
  exec_all (MState d u p s) (steps_of ord d (BulkUpdateRecord t rows vals)) = Some st' ->
  Forall (fun r => r ∈ t_rows tb) rows /\ Forall (known tb) vals /\
  st' = MState (tset t (write_cols rows vals tb) d) (u ++ [BulkUpdateRecord t rows (update_undo tb rows vals)]) p s.
Proof.
  intros Ht. unfold steps_of. rewrite Ht. destruct (bool_decide (Forall _ rows)) eqn:Er; [|discriminate].
  apply bool_decide_eq_true in Er. unfold update_steps.
  destruct (bool_decide (length (known_prefix tb vals) = length vals)) eqn:Ek; [|discriminate].
  apply bool_decide_eq_true in Ek. apply known_prefix_len in Ek. simpl.
  rewrite <- (app_nil_r (concat _)). rewrite exec_write_cols. simpl. intros [= <-]. split; [exact Er|]. split; [exact Ek|].
  unfold on_doc. simpl. rewrite (upd_table_tset _ _ _ _ Ht). reflexivity.
Qed.

(* BulkAddRecord *)
Lemma exec_add ord d t tb rows vals u p s st' :
  d_tables d !! t = Some tb ->
  exec_all (MState d u p s) (steps_of ord d (BulkAddRecord t rows vals)) = Some st' ->
  Forall (fun r => r ∉ t_rows tb) rows /\ Forall (known tb) vals /\
  st' = MState (tset t (write_cols rows vals (set_rows (fun rs => list_to_set rows ∪ rs) tb)) d)
               (u ++ [BulkRemoveRecord t rows]) p s.
Proof.
  intros Ht. unfold steps_of. rewrite Ht. destruct (bool_decide (Exists _ rows)) eqn:Er; [discriminate|].
  apply bool_decide_eq_false in Er. assert (Hr : Forall (fun r => r ∉ t_rows tb) rows).
  { apply Forall_forall. intros r Hin Hmem. apply Er. apply Exists_exists. eauto. }
  unfold add_records_steps. simpl.
  destruct (bool_decide (length (known_prefix tb vals) = length vals)) eqn:Ek.
  - apply bool_decide_eq_true in Ek. apply known_prefix_len in Ek. rewrite (known_prefix_all _ _ Ek).
    rewrite exec_add_rows. rewrite app_nil_r. rewrite <- (app_nil_r (concat _)). rewrite exec_write_cols. simpl.
    intros [= <-]. split; [exact Hr|]. split; [exact Ek|]. unfold on_doc. simpl.
    rewrite upd_table_compose. rewrite (upd_table_tset _ _ _ _ Ht). reflexivity.
  - rewrite exec_add_rows, exec_all_snoc_fail. discriminate.
Qed.

(* BulkRemoveRecord *)
Definition remove_tb (ord : name -> list name) (t : name) (tb : table) (rows' : list rowid) : table :=
  write_cols rows' (unset_values tb (cols_in_order ord t tb) rows')
             (set_rows (fun rs => rs ∖ list_to_set rows') tb).

Lemma exec_remove ord d t tb rows u p s st' :
  d_tables d !! t = Some tb ->
  exec_all (MState d u p s) (steps_of ord d (BulkRemoveRecord t rows)) = Some st' ->
  let rows' := filter (fun r => r ∈ t_rows tb) rows in
  (rows' = [] /\ st' = MState d u p s) \/
  (rows' ≠ [] /\ st' = MState (tset t (remove_tb ord t tb rows') d)
                              (u ++ [remove_undo t tb (cols_in_order ord t tb) rows']) p s).
Proof.
  intros Ht. unfold steps_of. rewrite Ht. simpl.
  destruct (filter (fun r => r ∈ t_rows tb) rows) as [|r0 rows'] eqn:E.
  - simpl. intros [= <-]. left. split; reflexivity.
  - rewrite exec_del_rows, exec_write_cols. simpl. intros [= <-]. right. split; [discriminate|].
    unfold on_doc. simpl. rewrite upd_table_compose. rewrite (upd_table_tset _ _ _ _ Ht). reflexivity.
Qed.
(* ---------------------------------------------------------------------------------------------------------- *)
(* well-formedness of explicit forms *)
Lemma wf_table_delete sc tb c :
  wf_table sc tb -> wf_table (delete c sc) {| t_rows := t_rows tb; t_cols := delete c (t_cols tb) |}.
Proof.
  intros [Hd H]. split; simpl.
  - rewrite !dom_delete_L, Hd. reflexivity.
  - apply map_Forall_lookup. intros c' col Hc. apply lookup_delete_Some in Hc as [Hne Hc].
    destruct (proj1 (map_Forall_lookup _ _) H _ _ Hc) as [H1 H2]. split; [|exact H2].
    rewrite lookup_delete_ne by auto. exact H1.
Qed.

Lemma wf_table_insert sc tb c ci col :
  wf_table sc tb -> c_info col = ci -> wf_col (t_rows tb) col ->
  wf_table (<[c := ci]> sc) {| t_rows := t_rows tb; t_cols := <[c := col]> (t_cols tb) |}.
Proof.
  intros [Hd H] Hi Hw. split; simpl.
  - rewrite !dom_insert_L, Hd. reflexivity.
  - apply map_Forall_lookup. intros c' col' Hc. apply lookup_insert_Some in Hc as [[<- <-]|[Hne Hc]].
    + rewrite lookup_insert. split; [congruence|exact Hw].
    + rewrite lookup_insert_ne by auto. exact (proj1 (map_Forall_lookup _ _) H _ _ Hc).
Qed.

Lemma wf_tset d t sc' tb' :
  wf d -> wf_table sc' tb' ->
  wf {| d_schema := <[t := sc']> (d_schema d); d_tables := <[t := tb']> (d_tables d) |}.
Proof.
  intros [Hd H] Hw. split; simpl.
  - rewrite !dom_insert_L, Hd. reflexivity.
  - apply map_Forall_lookup. intros t' tb Ht. apply lookup_insert_Some in Ht as [[<- <-]|[Hne Ht]].
    + rewrite lookup_insert. exact Hw.
    + rewrite lookup_insert_ne by auto. exact (proj1 (map_Forall_lookup _ _) H _ _ Ht).
Qed.

Lemma wf_delete_table d t :
  wf d -> wf {| d_schema := delete t (d_schema d); d_tables := delete t (d_tables d) |}.
Proof.
  intros [Hd H]. split; simpl.
  - rewrite !dom_delete_L, Hd. reflexivity.
  - apply map_Forall_lookup. intros t' tb Ht. apply lookup_delete_Some in Ht as [Hne Ht].
    rewrite lookup_delete_ne by auto. exact (proj1 (map_Forall_lookup _ _) H _ _ Ht).
Qed.

(* a table whose columns were only written on existing rows stays well-formed *)
Lemma wf_table_same_schema sc tb tb' :
  wf_table sc tb -> dom (t_cols tb') = dom (t_cols tb) ->
  (forall c col', t_cols tb' !! c = Some col' ->
     exists col, t_cols tb !! c = Some col /\ c_info col' = c_info col /\ wf_col (t_rows tb') col') ->
  wf_table sc tb'.
Proof.
  intros [Hd H] Hdom Hc. split; [congruence|]. apply map_Forall_lookup. intros c col' Hl.
  destruct (Hc _ _ Hl) as (col & Hcol & Hi & Hw). split; [|exact Hw].
  rewrite Hi. exact (proj1 (proj1 (map_Forall_lookup _ _) H _ _ Hcol)).
Qed.

Lemma write_cols_dom rows vals tb : dom (t_cols (write_cols rows vals tb)) = dom (t_cols tb).
Proof.
  apply set_eq. intros c. rewrite !elem_of_dom, write_cols_lookup. destruct (t_cols tb !! c); simpl; split; intros [? ?]; eauto; discriminate.
Qed.

Lemma wf_table_write_cols sc tb rows vals :
  wf_table sc tb -> (forall r, r ∈ rows -> r ∈ t_rows tb) -> wf_table sc (write_cols rows vals tb).
Proof.
  intros Hw Hr. eapply wf_table_same_schema; [exact Hw|apply write_cols_dom|].
  intros c col' Hl. rewrite write_cols_lookup in Hl. destruct (t_cols tb !! c) as [col|] eqn:E; [|discriminate].
  simpl in Hl. injection Hl as <-. exists col. split; [reflexivity|]. split; [apply col_writes_info|].
  rewrite write_cols_rows. apply col_writes_wf; [|exact Hr]. exact (proj2 (wf_table_col _ _ _ _ Hw E)).
Qed.

(* ---------------------------------------------------------------------------------------------------------- *)
(* rebuild_usercode *)
Lemma reuse_col_id ci col : c_info col = ci -> reuse_col ci col = col.
Proof. intros <-. destruct col as [[]]; reflexivity. Qed.

Lemma rebuild_lookup sch tabs t :
  d_tables (rebuild {| d_schema := sch; d_tables := tabs |}) !! t = (fun sc => rebuild_table sc (tabs !! t)) <$> sch !! t.
Proof. unfold rebuild. simpl. rewrite map_lookup_imap. destruct (sch !! t); reflexivity. Qed.

Lemma rebuild_table_lookup sc old c :
  t_cols (rebuild_table sc old) !! c
  = (fun ci => from_option (reuse_col ci) (new_col ci) (from_option t_cols ∅ old !! c)) <$> sc !! c.
Proof. unfold rebuild_table. simpl. rewrite map_lookup_imap. destruct (sc !! c); reflexivity. Qed.

Lemma table_ext tb1 tb2 : t_rows tb1 = t_rows tb2 -> (forall c, t_cols tb1 !! c = t_cols tb2 !! c) -> tb1 = tb2.
Proof. destruct tb1, tb2. simpl. intros -> H. f_equal. apply map_eq. exact H. Qed.

Lemma rebuild_cols_wf sc tb c :
  wf_table sc tb ->
  (fun ci => from_option (reuse_col ci) (new_col ci) (t_cols tb !! c)) <$> sc !! c = t_cols tb !! c.
Proof.
  intros Hw. destruct (t_cols tb !! c) as [col|] eqn:E.
  - destruct (wf_table_col _ _ _ _ Hw E) as [-> _]. simpl. f_equal. apply reuse_col_id. reflexivity.
  - rewrite (wf_table_col_none _ _ _ Hw E). reflexivity.
Qed.

Lemma rebuild_table_id sc tb : wf_table sc tb -> rebuild_table sc (Some tb) = tb.
Proof.
  intros Hw. apply table_ext; [reflexivity|]. intros c. rewrite rebuild_table_lookup. simpl.
  apply rebuild_cols_wf. exact Hw.
Qed.

Lemma rebuild_id d : wf d -> rebuild d = d.
Proof.
  intros Hw. destruct d as [sch tabs]. unfold rebuild at 1. simpl. f_equal. apply map_eq. intros t.
  rewrite map_lookup_imap. destruct (sch !! t) as [sc|] eqn:E; simpl.
  - destruct (wf_table_of_schema _ _ _ Hw E) as (tb & Ht & Hwt). simpl in Ht. rewrite Ht. f_equal. apply rebuild_table_id. exact Hwt.
  - symmetry. destruct (tabs !! t) as [tb|] eqn:Et; [|reflexivity].
    destruct (wf_schema_of_table _ _ _ Hw Et) as (sc & Hs & _). simpl in Hs. congruence.
Qed.

(* the schema entry of ONE table changed (or appeared) *)
Lemma rebuild_one d t sc' :
  wf d ->
  rebuild {| d_schema := <[t := sc']> (d_schema d); d_tables := d_tables d |}
  = {| d_schema := <[t := sc']> (d_schema d); d_tables := <[t := rebuild_table sc' (d_tables d !! t)]> (d_tables d) |}.
Proof.
  intros Hw. unfold rebuild at 1. simpl. f_equal. apply map_eq. intros t'. rewrite map_lookup_imap.
  destruct (decide (t' = t)) as [->|Hne].
  - rewrite !lookup_insert. reflexivity.
  - rewrite !lookup_insert_ne by auto. destruct (d_schema d !! t') as [sc|] eqn:E; simpl.
    + destruct (wf_table_of_schema _ _ _ Hw E) as (tb & Ht & Hwt). rewrite Ht. f_equal. apply rebuild_table_id. exact Hwt.
    + symmetry. destruct (d_tables d !! t') as [tb|] eqn:Et; [|reflexivity].
      destruct (wf_schema_of_table _ _ _ Hw Et) as (sc & Hs & _). congruence.
Qed.

Lemma rebuild_delete d t :
  wf d ->
  rebuild {| d_schema := delete t (d_schema d); d_tables := d_tables d |}
  = {| d_schema := delete t (d_schema d); d_tables := delete t (d_tables d) |}.
Proof.
  intros Hw. unfold rebuild at 1. simpl. f_equal. apply map_eq. intros t'. rewrite map_lookup_imap.
  destruct (decide (t' = t)) as [->|Hne].
  - rewrite !lookup_delete. reflexivity.
  - rewrite !lookup_delete_ne by auto. destruct (d_schema d !! t') as [sc|] eqn:E; simpl.
    + destruct (wf_table_of_schema _ _ _ Hw E) as (tb & Ht & Hwt). rewrite Ht. f_equal. apply rebuild_table_id. exact Hwt.
    + symmetry. destruct (d_tables d !! t') as [tb|] eqn:Et; [|reflexivity].
      destruct (wf_schema_of_table _ _ _ Hw Et) as (sc & Hs & _). congruence.
Qed.

(* columns of the rebuilt table for the three shapes of change *)
Lemma rebuild_table_del_col sc tb c :
  wf_table sc tb ->
  rebuild_table (delete c sc) (Some tb) = {| t_rows := t_rows tb; t_cols := delete c (t_cols tb) |}.
Proof.
  intros Hw. rewrite <- (rebuild_table_id (delete c sc) {| t_rows := t_rows tb; t_cols := delete c (t_cols tb) |})
    by (apply wf_table_delete; exact Hw).
  apply table_ext; [reflexivity|]. intros c'. rewrite !rebuild_table_lookup. simpl.
  destruct (decide (c' = c)) as [->|Hne]; [rewrite !lookup_delete; reflexivity|].
  rewrite !lookup_delete_ne by auto. reflexivity.
Qed.

Lemma rebuild_table_add_col sc tb c ci :
  wf_table sc tb -> t_cols tb !! c = None ->
  rebuild_table (<[c := ci]> sc) (Some tb) = {| t_rows := t_rows tb; t_cols := <[c := new_col ci]> (t_cols tb) |}.
Proof.
  intros Hw Hc. apply table_ext; [reflexivity|]. intros c'. rewrite rebuild_table_lookup. simpl.
  destruct (decide (c' = c)) as [->|Hne].
  - rewrite !lookup_insert, Hc. reflexivity.
  - rewrite !lookup_insert_ne by auto. apply rebuild_cols_wf. exact Hw.
Qed.

Lemma rebuild_table_none sc : rebuild_table sc None = {| t_rows := ∅; t_cols := new_col <$> sc |}.
Proof.
  apply table_ext; [reflexivity|]. intros c. rewrite rebuild_table_lookup. simpl. rewrite lookup_fmap, lookup_empty.
  destruct (sc !! c); reflexivity.
Qed.
(* ---------------------------------------------------------------------------------------------------------- *)
(* schema actions *)
Local Opaque rebuild.

Definition mk_doc (sch : schema) (tabs : gmap name table) : doc := {| d_schema := sch; d_tables := tabs |}.

Lemma exec_add_column ord d t c ci u p st' :
  wf d ->
  exec_all (MState d u p None) (steps_of ord d (AddColumn t c ci)) = Some st' ->
  exists tb sc, d_tables d !! t = Some tb /\ d_schema d !! t = Some sc /\ t_cols tb !! c = None /\
    st' = MState (mk_doc (<[t := <[c := ci]> sc]> (d_schema d))
                         (<[t := Table (t_rows tb) (<[c := new_col ci]> (t_cols tb))]> (d_tables d)))
                 (u ++ [RemoveColumn t c]) p None.
Proof.
  intros Hw. unfold steps_of. destruct (d_tables d !! t) as [tb|] eqn:Ht; [|discriminate].
  destruct (d_schema d !! t) as [sc|] eqn:Hs; [|discriminate].
  destruct (bool_decide (is_Some (t_cols tb !! c))) eqn:Ec; [discriminate|].
  apply bool_decide_eq_false in Ec. assert (Hc : t_cols tb !! c = None) by (destruct (t_cols tb !! c); [exfalso; eauto|reflexivity]).
  cbn. intros [= <-]. exists tb, sc. split; [done|]. split; [done|]. split; [done|].
  rewrite (rebuild_one d t _ Hw), Ht. rewrite (rebuild_table_add_col sc tb c ci); [reflexivity| |exact Hc].
  eapply wf_lookup; eauto.
Qed.

Definition nondefault_rows (tb : table) (col : column) : list rowid :=
  filter (fun r => cget col r ≠ cdefault col) (rows_list tb).

Lemma exec_remove_column ord d t c u p st' :
  wf d ->
  exec_all (MState d u p None) (steps_of ord d (RemoveColumn t c)) = Some st' ->
  exists tb sc col ci, d_tables d !! t = Some tb /\ d_schema d !! t = Some sc /\
    t_cols tb !! c = Some col /\ sc !! c = Some ci /\
    ms_doc st' = mk_doc (<[t := delete c sc]> (d_schema d))
                        (<[t := Table (t_rows tb) (delete c (t_cols tb))]> (d_tables d)) /\
    ms_saved st' = None /\
    let nd := nondefault_rows tb col in
    ((nd = [] /\ ms_undo st' = u ++ [AddColumn t c ci] /\ ms_pending st' = p) \/
     (nd ≠ [] /\ ci_isformula (c_info col) = false /\ ms_pending st' = p /\
      ms_undo st' = u ++ [BulkUpdateRecord t nd [(c, map (cget col) nd)]; AddColumn t c ci]) \/
     (nd ≠ [] /\ ci_isformula (c_info col) = true /\ ms_undo st' = u ++ [AddColumn t c ci] /\
      exists dl, dl ≠ [] /\ ms_pending st' = p ++ dl)).
Proof.
  intros Hw. unfold steps_of. destruct (d_tables d !! t) as [tb|] eqn:Ht; [|discriminate].
  destruct (d_schema d !! t) as [sc|] eqn:Hs; [|discriminate].
  destruct (t_cols tb !! c) as [col|] eqn:Hc; [|discriminate].
  destruct (sc !! c) as [ci|] eqn:Hsc; [|discriminate].
  assert (Hwt : wf_table sc tb) by (eapply wf_lookup; eauto).
  assert (Hdoc : rebuild {| d_schema := <[t := delete c sc]> (d_schema d); d_tables := d_tables d |}
                 = mk_doc (<[t := delete c sc]> (d_schema d)) (<[t := Table (t_rows tb) (delete c (t_cols tb))]> (d_tables d))).
  { rewrite (rebuild_one d t _ Hw), Ht, (rebuild_table_del_col sc tb c Hwt). reflexivity. }
  fold (nondefault_rows tb col). intros H. exists tb, sc, col, ci. do 4 (split; [done|]).
  destruct (nondefault_rows tb col) as [|r0 nd] eqn:End.
  - cbn in H. injection H as <-. cbn. rewrite Hdoc. do 2 (split; [done|]). left. done.
  - destruct (ci_isformula (c_info col)) eqn:Ef; cbn in H; injection H as <-; cbn; rewrite Hdoc; do 2 (split; [done|]); right.
    + right. split; [done|]. split; [done|]. split; [done|]. eexists. split; [|reflexivity]. done.
    + left. split; [done|]. split; [done|]. split; [done|]. rewrite <- app_assoc. done.
Qed.

Lemma rebuild_table_rename_col sc tb c c' ci :
  wf_table sc tb -> t_cols tb !! c' = None ->
  rebuild_table (<[c' := ci]> (delete c sc)) (Some tb)
  = {| t_rows := t_rows tb; t_cols := <[c' := new_col ci]> (delete c (t_cols tb)) |}.
Proof.
  intros Hw Hc'. apply table_ext; [reflexivity|]. intros c''. rewrite rebuild_table_lookup. simpl.
  destruct (decide (c'' = c')) as [->|Hne'].
  - rewrite !lookup_insert, Hc'. reflexivity.
  - rewrite !lookup_insert_ne by auto. destruct (decide (c'' = c)) as [->|Hne].
    + rewrite !lookup_delete. reflexivity.
    + rewrite !lookup_delete_ne by auto. apply rebuild_cols_wf. exact Hw.
Qed.

Lemma exec_rename_column ord d t c c' u p st' :
  wf d ->
  exec_all (MState d u p None) (steps_of ord d (RenameColumn t c c')) = Some st' ->
  exists tb sc col, d_tables d !! t = Some tb /\ d_schema d !! t = Some sc /\
    t_cols tb !! c = Some col /\ t_cols tb !! c' = None /\
    st' = MState (mk_doc (<[t := <[c' := c_info col]> (delete c sc)]> (d_schema d))
                         (<[t := Table (t_rows tb) (<[c' := col]> (delete c (t_cols tb)))]> (d_tables d)))
                 (u ++ [RenameColumn t c' c]) p None.
Proof.
  intros Hw. unfold steps_of. destruct (d_tables d !! t) as [tb|] eqn:Ht; [|discriminate].
  destruct (d_schema d !! t) as [sc|] eqn:Hs; [|discriminate].
  destruct (t_cols tb !! c) as [col|] eqn:Hc; [|discriminate].
  destruct (sc !! c) as [ci|] eqn:Hsc; [|discriminate].
  destruct (bool_decide (is_Some (t_cols tb !! c'))) eqn:Ec; [discriminate|].
  apply bool_decide_eq_false in Ec. assert (Hc' : t_cols tb !! c' = None) by (destruct (t_cols tb !! c'); [exfalso; eauto|reflexivity]).
  assert (Hwt : wf_table sc tb) by (eapply wf_lookup; eauto).
  assert (Hci : ci = c_info col) by (destruct (wf_table_col _ _ _ _ Hwt Hc); congruence). subst ci.
  cbn. intros [= <-]. exists tb, sc, col. do 4 (split; [done|]).
  rewrite (rebuild_one d t _ Hw), Ht, (rebuild_table_rename_col sc tb c c' _ Hwt Hc').
  f_equal. unfold upd_table, mk_doc. cbn. f_equal. rewrite alter_insert. f_equal.
  unfold upd_col. cbn. f_equal. rewrite alter_insert. f_equal. unfold set_data, new_col. cbn. apply column_eta.
Qed.

Definition modified_col (tb : table) (col : column) (ci' : colinfo) : column :=
  cset_list (new_col ci') (map (fun r => (r, cget col r)) (rows_list tb)).

Lemma exec_modify_column ord d t c m u p st' :
  wf d ->
  exec_all (MState d u p None) (steps_of ord d (ModifyColumn t c m)) = Some st' ->
  exists tb sc col, d_tables d !! t = Some tb /\ d_schema d !! t = Some sc /\ t_cols tb !! c = Some col /\
    let ci' := upd_info (c_info col) m in
    (ci' = c_info col /\ st' = MState d u p None) \/
    (ci' ≠ c_info col /\
     st' = MState (mk_doc (<[t := <[c := ci']> sc]> (d_schema d))
                          (<[t := Table (t_rows tb) (<[c := modified_col tb col ci']> (t_cols tb))]> (d_tables d)))
                  (u ++ [ModifyColumn t c (undo_mod (c_info col) m)]) p None).
Proof.
  intros Hw. unfold steps_of. destruct (d_tables d !! t) as [tb|] eqn:Ht; [|discriminate].
  destruct (d_schema d !! t) as [sc|] eqn:Hs; [|discriminate].
  destruct (t_cols tb !! c) as [col|] eqn:Hc; [|discriminate].
  destruct (sc !! c) as [ci|] eqn:Hsc; [|discriminate].
  assert (Hwt : wf_table sc tb) by (eapply wf_lookup; eauto).
  assert (Hci : ci = c_info col) by (destruct (wf_table_col _ _ _ _ Hwt Hc); congruence). subst ci.
  destruct (bool_decide (upd_info (c_info col) m = c_info col)) eqn:E; intros H; exists tb, sc, col; do 3 (split; [done|]); cbn.
  - apply bool_decide_eq_true in E. cbn in H. injection H as <-. left. done.
  - apply bool_decide_eq_false in E. right. split; [done|].
    set (d1 := mk_doc (<[t := delete c sc]> (d_schema d)) (<[t := Table (t_rows tb) (delete c (t_cols tb))]> (d_tables d))).
    assert (Hw1 : wf d1) by (apply wf_tset; [exact Hw|apply wf_table_delete; exact Hwt]).
    cbn [app exec_all exec_step] in H. unfold on_doc in H. cbn [ms_doc ms_undo ms_pending ms_saved d_tables] in H.
    rewrite (rebuild_one d t _ Hw), Ht, (rebuild_table_del_col sc tb c Hwt) in H. fold d1 in H.
    cbn [d_tables] in H.
    replace (<[t := <[c := upd_info (c_info col) m]> (delete c sc)]> (d_schema d))
      with (<[t := <[c := upd_info (c_info col) m]> (delete c sc)]> (d_schema d1)) in H
      by (unfold d1, mk_doc; cbn; apply insert_insert).
    replace ({| d_schema := <[t := <[c := upd_info (c_info col) m]> (delete c sc)]> (d_schema d1);
                d_tables := <[t := {| t_rows := t_rows tb; t_cols := delete c (t_cols tb) |}]> (d_tables d) |})
      with ({| d_schema := <[t := <[c := upd_info (c_info col) m]> (delete c sc)]> (d_schema d1);
               d_tables := d_tables d1 |}) in H by reflexivity.
    rewrite (rebuild_one d1 t _ Hw1) in H.
    assert (Ht1 : d_tables d1 !! t = Some {| t_rows := t_rows tb; t_cols := delete c (t_cols tb) |}) by (unfold d1; cbn; apply lookup_insert).
    rewrite Ht1 in H. rewrite (rebuild_table_add_col (delete c sc) _ c _) in H;
      [|apply wf_table_delete; exact Hwt|cbn; apply lookup_delete].
    replace (map (fun r => MSetCell t c r (cget col r)) (rows_list tb))
      with (map (fun rv : rowid * val => MSetCell t c rv.1 rv.2) (map (fun r => (r, cget col r)) (rows_list tb))) in H
      by (rewrite map_map; reflexivity).
    rewrite exec_set_cells in H. cbn in H. injection H as <-. f_equal.
    unfold upd_table, mk_doc, d1. cbn. f_equal.
    + rewrite insert_insert, insert_delete_insert. reflexivity.
    + rewrite alter_insert, insert_insert. f_equal. unfold upd_col. cbn. f_equal.
      rewrite alter_insert, insert_delete_insert. reflexivity.
Qed.

Lemma exec_add_table ord d t cols u p st' :
  wf d ->
  exec_all (MState d u p None) (steps_of ord d (AddTable t cols)) = Some st' ->
  d_tables d !! t = None /\
  st' = MState (mk_doc (<[t := list_to_map cols]> (d_schema d))
                       (<[t := Table ∅ (new_col <$> list_to_map cols)]> (d_tables d)))
               (u ++ [RemoveTable t]) p None.
Proof.
  intros Hw. unfold steps_of. destruct (d_tables d !! t) as [tb|] eqn:Ht; [discriminate|].
  cbn. intros [= <-]. split; [done|]. rewrite (rebuild_one d t _ Hw), Ht, rebuild_table_none. reflexivity.
Qed.

Definition remove_table_undo (ord : name -> list name) (t : name) (tb : table) (sc : gmap name colinfo) : list action :=
  match rows_list tb with
  | [] => []
  | _ => [BulkAddRecord t (rows_list tb) (col_values tb (cols_in_order ord t tb) (rows_list tb))]
  end ++ [AddTable t (map_to_list sc)].

Lemma exec_remove_table ord d t u p st' :
  wf d ->
  exec_all (MState d u p None) (steps_of ord d (RemoveTable t)) = Some st' ->
  exists tb sc, d_tables d !! t = Some tb /\ d_schema d !! t = Some sc /\
    st' = MState (mk_doc (delete t (d_schema d)) (delete t (d_tables d))) (u ++ remove_table_undo ord t tb sc) p None.
Proof.
  intros Hw. unfold steps_of. destruct (d_tables d !! t) as [tb|] eqn:Ht; [|discriminate].
  destruct (d_schema d !! t) as [sc|] eqn:Hs; [|discriminate].
  intros H. exists tb, sc. do 2 (split; [done|]). unfold remove_table_undo.
  destruct (rows_list tb) as [|r0 rows] eqn:Er; cbn in H; injection H as <-; rewrite (rebuild_delete d t Hw).
  - reflexivity.
  - rewrite <- app_assoc. reflexivity.
Qed.

Lemma rebuild_rename_table d t t' sc :
  wf d -> d_tables d !! t' = None ->
  rebuild {| d_schema := <[t' := sc]> (delete t (d_schema d)); d_tables := d_tables d |}
  = {| d_schema := <[t' := sc]> (delete t (d_schema d));
       d_tables := <[t' := rebuild_table sc None]> (delete t (d_tables d)) |}.
Proof.
  intros Hw Ht'. Local Transparent rebuild. unfold rebuild at 1. Local Opaque rebuild. simpl. f_equal.
  apply map_eq. intros t''. rewrite map_lookup_imap.
  destruct (decide (t'' = t')) as [->|Hne'].
  - rewrite !lookup_insert. simpl. rewrite Ht'. reflexivity.
  - rewrite !lookup_insert_ne by auto. destruct (decide (t'' = t)) as [->|Hne].
    + rewrite !lookup_delete. reflexivity.
    + rewrite !lookup_delete_ne by auto. destruct (d_schema d !! t'') as [sc''|] eqn:E; simpl.
      * destruct (wf_table_of_schema _ _ _ Hw E) as (tb & Ht & Hwt). rewrite Ht. f_equal. apply rebuild_table_id. exact Hwt.
      * symmetry. destruct (d_tables d !! t'') as [tb|] eqn:Et; [|reflexivity].
        destruct (wf_schema_of_table _ _ _ Hw Et) as (sc0 & Hs & _). congruence.
Qed.

Definition copy_cols (tb : table) (cs : list name) (tb' : table) : table :=
  foldl (fun tb' c => match t_cols tb !! c with
                      | Some col => upd_col c (set_data (c_data col)) tb'
                      | None => tb' end) tb' cs.

Lemma exec_copy_cols t' tb cs : forall st rest,
  exec_all st (omap (fun c => (fun col => MSetData t' c (c_data col)) <$> t_cols tb !! c) cs ++ rest)
  = exec_all (on_doc (upd_table t' (copy_cols tb cs)) st) rest.
Proof.
  induction cs as [|c cs IH]; intros st rest; simpl.
  - f_equal. symmetry. apply on_doc_upd_table_id. reflexivity.
  - destruct (t_cols tb !! c) as [col|] eqn:E; simpl.
    + rewrite IH. f_equal. rewrite on_doc_on_doc. unfold on_doc. simpl. f_equal. rewrite upd_table_compose.
      apply upd_table_ext. intros tb0 _. unfold copy_cols. simpl. rewrite E. reflexivity.
    + rewrite IH. f_equal. unfold on_doc. f_equal. apply upd_table_ext. intros tb0 _. unfold copy_cols. simpl. rewrite E. reflexivity.
Qed.

Lemma copy_cols_rows tb cs : forall tb', t_rows (copy_cols tb cs tb') = t_rows tb'.
Proof.
  induction cs as [|c cs IH]; intros tb'; [reflexivity|]. unfold copy_cols in *. simpl.
  destruct (t_cols tb !! c); rewrite IH; reflexivity.
Qed.

Lemma copy_cols_lookup tb cs c : forall tb',
  t_cols (copy_cols tb cs tb') !! c
  = match t_cols tb !! c with
    | Some col => if decide (c ∈ cs) then set_data (c_data col) <$> t_cols tb' !! c else t_cols tb' !! c
    | None => t_cols tb' !! c
    end.
Proof.
  induction cs as [|c0 cs IH]; intros tb'.
  - unfold copy_cols. simpl. destruct (t_cols tb !! c); [|reflexivity].
    destruct (decide (c ∈ [])) as [H|]; [inversion H|reflexivity].
  - unfold copy_cols in *. simpl. destruct (t_cols tb !! c0) as [col0|] eqn:E0.
    + rewrite IH. destruct (decide (c = c0)) as [->|Hne].
      * rewrite E0. simpl. rewrite lookup_alter. rewrite (decide_True (P := c0 ∈ c0 :: cs)) by left.
        destruct (decide (c0 ∈ cs)); [|reflexivity]. destruct (t_cols tb' !! c0); reflexivity.
      * simpl. rewrite lookup_alter_ne by auto. destruct (t_cols tb !! c) as [col|]; [|reflexivity].
        destruct (decide (c ∈ cs)) as [Hin|Hnin].
        -- rewrite (decide_True (P := c ∈ c0 :: cs)) by (right; exact Hin). reflexivity.
        -- rewrite (decide_False (P := c ∈ c0 :: cs)); [reflexivity|]. intros H. apply elem_of_cons in H as [?|?]; contradiction.
    + rewrite IH. destruct (t_cols tb !! c) as [col|] eqn:E; [|reflexivity].
      assert (c ≠ c0) by congruence. destruct (decide (c ∈ cs)) as [Hin|Hnin].
      * rewrite (decide_True (P := c ∈ c0 :: cs)) by (right; exact Hin). reflexivity.
      * rewrite (decide_False (P := c ∈ c0 :: cs)); [reflexivity|]. intros H'. apply elem_of_cons in H' as [?|?]; contradiction.
Qed.

Lemma cols_in_order_complete ord t tb c col : t_cols tb !! c = Some col -> c ∈ cols_in_order ord t tb.
Proof.
  intros H. unfold cols_in_order. apply elem_of_app. destruct (decide (c ∈ ord t)) as [Hin|Hnin].
  - left. apply elem_of_list_filter. split; [eexists; exact H|exact Hin].
  - right. apply elem_of_list_filter. split; [exact Hnin|]. apply elem_of_list_fmap. exists (c, col). split; [reflexivity|].
    apply elem_of_map_to_list. exact H.
Qed.

Lemma cols_in_order_sound ord t tb c : c ∈ cols_in_order ord t tb -> is_Some (t_cols tb !! c).
Proof.
  unfold cols_in_order. intros H. apply elem_of_app in H as [H|H]; apply elem_of_list_filter in H as [H1 H2]; [exact H1|].
  apply elem_of_list_fmap in H2 as ([c' col] & -> & H2). apply elem_of_map_to_list in H2. eexists. exact H2.
Qed.

Lemma exec_rename_table ord d t t' u p st' :
  wf d ->
  exec_all (MState d u p None) (steps_of ord d (RenameTable t t')) = Some st' ->
  exists tb sc, d_tables d !! t = Some tb /\ d_schema d !! t = Some sc /\ d_tables d !! t' = None /\
    st' = MState (mk_doc (<[t' := sc]> (delete t (d_schema d))) (<[t' := tb]> (delete t (d_tables d))))
                 (u ++ [RenameTable t' t]) p None.
Proof.
  intros Hw. unfold steps_of. destruct (d_tables d !! t) as [tb|] eqn:Ht; [|discriminate].
  destruct (d_schema d !! t) as [sc|] eqn:Hs; [|discriminate].
  destruct (d_tables d !! t') as [tb'|] eqn:Ht'; [discriminate|].
  assert (Hwt : wf_table sc tb) by (eapply wf_lookup; eauto).
  cbn [app exec_all exec_step]. unfold on_doc. cbn [ms_doc ms_undo ms_pending ms_saved d_tables].
  rewrite (rebuild_rename_table d t t' sc Hw Ht'), rebuild_table_none.
  rewrite exec_copy_cols. cbn. intros [= <-]. exists tb, sc. do 3 (split; [done|]). f_equal.
  unfold upd_table, mk_doc. cbn. f_equal. rewrite !alter_insert. f_equal.
  apply table_ext; [rewrite copy_cols_rows; reflexivity|]. intros c. rewrite copy_cols_lookup. cbn.
  rewrite lookup_fmap. destruct (t_cols tb !! c) as [col|] eqn:E.
  - rewrite decide_True by (eapply cols_in_order_complete; exact E).
    destruct (wf_table_col _ _ _ _ Hwt E) as [-> _]. cbn. f_equal. unfold set_data, new_col. cbn. apply column_eta.
  - rewrite (wf_table_col_none _ _ _ Hwt E). reflexivity.
Qed.
(* ---------------------------------------------------------------------------------------------------------- *)
(* the same closed forms in the forward direction: when the asserts of the source hold, the action runs *)
Local Opaque rebuild.

Lemma is_Some_false {A} (o : option A) : o = None -> bool_decide (is_Some o) = false.
Proof. intros ->. apply bool_decide_eq_false. intros [? ?]. discriminate. Qed.

Lemma exec_update_ok ord d t tb rows vals u p s :
  d_tables d !! t = Some tb -> Forall (fun r => r ∈ t_rows tb) rows -> Forall (known tb) vals ->
  exec_all (MState d u p s) (steps_of ord d (BulkUpdateRecord t rows vals))
  = Some (MState (tset t (write_cols rows vals tb) d) (u ++ [BulkUpdateRecord t rows (update_undo tb rows vals)]) p s).
Proof.
  intros Ht Hr Hk. unfold steps_of. rewrite Ht. rewrite bool_decide_eq_true_2 by exact Hr. unfold update_steps.
  rewrite (known_prefix_all _ _ Hk). rewrite bool_decide_eq_true_2 by reflexivity. simpl.
  rewrite <- (app_nil_r (concat _)). rewrite exec_write_cols. simpl. unfold on_doc. simpl.
  rewrite (upd_table_tset _ _ _ _ Ht). reflexivity.
Qed.

Lemma exec_add_ok ord d t tb rows vals u p s :
  d_tables d !! t = Some tb -> Forall (fun r => r ∉ t_rows tb) rows -> Forall (known tb) vals ->
  exec_all (MState d u p s) (steps_of ord d (BulkAddRecord t rows vals))
  = Some (MState (tset t (write_cols rows vals (set_rows (fun rs => list_to_set rows ∪ rs) tb)) d)
                 (u ++ [BulkRemoveRecord t rows]) p s).
Proof.
  intros Ht Hr Hk. unfold steps_of. rewrite Ht. rewrite bool_decide_eq_false_2.
  2: { intros H. apply Exists_exists in H as (r & Hin & Hmem). rewrite Forall_forall in Hr. exact (Hr r Hin Hmem). }
  unfold add_records_steps. simpl. rewrite (known_prefix_all _ _ Hk). rewrite bool_decide_eq_true_2 by reflexivity.
  rewrite exec_add_rows, app_nil_r. rewrite <- (app_nil_r (concat _)). rewrite exec_write_cols. simpl.
  unfold on_doc. simpl. rewrite upd_table_compose, (upd_table_tset _ _ _ _ Ht). reflexivity.
Qed.

Lemma exec_remove_ok ord d t tb rows u p s :
  d_tables d !! t = Some tb ->
  let rows' := filter (fun r => r ∈ t_rows tb) rows in
  exec_all (MState d u p s) (steps_of ord d (BulkRemoveRecord t rows))
  = Some (match rows' with
          | [] => MState d u p s
          | _ => MState (tset t (remove_tb ord t tb rows') d) (u ++ [remove_undo t tb (cols_in_order ord t tb) rows']) p s
          end).
Proof.
  intros Ht. unfold steps_of. rewrite Ht. simpl.
  destruct (filter (fun r => r ∈ t_rows tb) rows) as [|r0 rows'] eqn:E; [reflexivity|].
  rewrite exec_del_rows, exec_write_cols. simpl. unfold on_doc. simpl.
  rewrite upd_table_compose, (upd_table_tset _ _ _ _ Ht). reflexivity.
Qed.

Lemma exec_add_column_ok ord d t c ci tb sc u p :
  wf d -> d_tables d !! t = Some tb -> d_schema d !! t = Some sc -> t_cols tb !! c = None ->
  exec_all (MState d u p None) (steps_of ord d (AddColumn t c ci))
  = Some (MState (mk_doc (<[t := <[c := ci]> sc]> (d_schema d))
                         (<[t := Table (t_rows tb) (<[c := new_col ci]> (t_cols tb))]> (d_tables d)))
                 (u ++ [RemoveColumn t c]) p None).
Proof.
  intros Hw Ht Hs Hc. unfold steps_of. rewrite Ht, Hs, (is_Some_false _ Hc). cbn.
  rewrite (rebuild_one d t _ Hw), Ht. rewrite (rebuild_table_add_col sc tb c ci); [reflexivity| |exact Hc].
  eapply wf_lookup; eauto.
Qed.

Lemma exec_rename_column_ok ord d t c c' tb sc col u p :
  wf d -> d_tables d !! t = Some tb -> d_schema d !! t = Some sc ->
  t_cols tb !! c = Some col -> t_cols tb !! c' = None ->
  exec_all (MState d u p None) (steps_of ord d (RenameColumn t c c'))
  = Some (MState (mk_doc (<[t := <[c' := c_info col]> (delete c sc)]> (d_schema d))
                         (<[t := Table (t_rows tb) (<[c' := col]> (delete c (t_cols tb)))]> (d_tables d)))
                 (u ++ [RenameColumn t c' c]) p None).
Proof.
  intros Hw Ht Hs Hc Hc'. assert (Hwt : wf_table sc tb) by (eapply wf_lookup; eauto).
  destruct (wf_table_col _ _ _ _ Hwt Hc) as [Hsc _].
  unfold steps_of. rewrite Ht, Hs, Hc, Hsc, (is_Some_false _ Hc'). cbn.
  rewrite (rebuild_one d t _ Hw), Ht, (rebuild_table_rename_col sc tb c c' _ Hwt Hc').
  f_equal. f_equal. unfold upd_table, mk_doc. cbn. f_equal. rewrite alter_insert. f_equal.
  unfold upd_col. cbn. f_equal. rewrite alter_insert. f_equal. unfold set_data, new_col. cbn. apply column_eta.
Qed.

Lemma exec_add_table_ok ord d t cols u p :
  wf d -> d_tables d !! t = None ->
  exec_all (MState d u p None) (steps_of ord d (AddTable t cols))
  = Some (MState (mk_doc (<[t := list_to_map cols]> (d_schema d))
                         (<[t := Table ∅ (new_col <$> list_to_map cols)]> (d_tables d)))
                 (u ++ [RemoveTable t]) p None).
Proof.
  intros Hw Ht. unfold steps_of. rewrite Ht. cbn. rewrite (rebuild_one d t _ Hw), Ht, rebuild_table_none. reflexivity.
Qed.

Lemma exec_remove_table_ok ord d t tb sc u p :
  wf d -> d_tables d !! t = Some tb -> d_schema d !! t = Some sc ->
  exec_all (MState d u p None) (steps_of ord d (RemoveTable t))
  = Some (MState (mk_doc (delete t (d_schema d)) (delete t (d_tables d))) (u ++ remove_table_undo ord t tb sc) p None).
Proof.
  intros Hw Ht Hs. unfold steps_of. rewrite Ht, Hs. unfold remove_table_undo.
  destruct (rows_list tb) as [|r0 rows] eqn:Er; cbn; rewrite (rebuild_delete d t Hw); [reflexivity|].
  rewrite <- app_assoc. reflexivity.
Qed.

Lemma exec_remove_column_ok ord d t c tb sc col u p :
  wf d -> d_tables d !! t = Some tb -> d_schema d !! t = Some sc -> t_cols tb !! c = Some col ->
  exists st', exec_all (MState d u p None) (steps_of ord d (RemoveColumn t c)) = Some st' /\
    ms_doc st' = mk_doc (<[t := delete c sc]> (d_schema d))
                        (<[t := Table (t_rows tb) (delete c (t_cols tb))]> (d_tables d)).
Proof.
  intros Hw Ht Hs Hc. assert (Hwt : wf_table sc tb) by (eapply wf_lookup; eauto).
  destruct (wf_table_col _ _ _ _ Hwt Hc) as [Hsc _].
  assert (Hdoc : rebuild {| d_schema := <[t := delete c sc]> (d_schema d); d_tables := d_tables d |}
                 = mk_doc (<[t := delete c sc]> (d_schema d)) (<[t := Table (t_rows tb) (delete c (t_cols tb))]> (d_tables d))).
  { rewrite (rebuild_one d t _ Hw), Ht, (rebuild_table_del_col sc tb c Hwt). reflexivity. }
  unfold steps_of. rewrite Ht, Hs, Hc, Hsc. fold (nondefault_rows tb col).
  destruct (nondefault_rows tb col) as [|r0 nd]; [|destruct (ci_isformula (c_info col))];
    cbn; rewrite Hdoc; eexists; (split; [reflexivity|reflexivity]).
Qed.

Lemma exec_modify_column_ok ord d t c m tb sc col u p :
  wf d -> d_tables d !! t = Some tb -> d_schema d !! t = Some sc -> t_cols tb !! c = Some col ->
  let ci' := upd_info (c_info col) m in
  exec_all (MState d u p None) (steps_of ord d (ModifyColumn t c m))
  = Some (if decide (ci' = c_info col) then MState d u p None
          else MState (mk_doc (<[t := <[c := ci']> sc]> (d_schema d))
                              (<[t := Table (t_rows tb) (<[c := modified_col tb col ci']> (t_cols tb))]> (d_tables d)))
                      (u ++ [ModifyColumn t c (undo_mod (c_info col) m)]) p None).
Proof.
  intros Hw Ht Hs Hc ci'.
  destruct (exec_all (MState d u p None) (steps_of ord d (ModifyColumn t c m))) as [st'|] eqn:E.
  - destruct (exec_modify_column _ _ _ _ _ _ _ _ Hw E) as (tb0 & sc0 & col0 & Ht0 & Hs0 & Hc0 & H).
    assert (tb0 = tb) by congruence. subst tb0. assert (sc0 = sc) by congruence. subst sc0.
    assert (col0 = col) by congruence. subst col0. fold ci' in H.
    destruct H as [[H1 ->]|[H1 ->]]; [rewrite decide_True by exact H1|rewrite decide_False by exact H1]; reflexivity.
  - exfalso. revert E. assert (Hwt : wf_table sc tb) by (eapply wf_lookup; eauto).
    destruct (wf_table_col _ _ _ _ Hwt Hc) as [Hsc _]. unfold steps_of. rewrite Ht, Hs, Hc, Hsc.
    destruct (bool_decide (upd_info (c_info col) m = c_info col)); [discriminate|].
    cbn [app exec_all exec_step].
    replace (map (fun r => MSetCell t c r (cget col r)) (rows_list tb))
      with (map (fun rv : rowid * val => MSetCell t c rv.1 rv.2) (map (fun r => (r, cget col r)) (rows_list tb)))
      by (rewrite map_map; reflexivity).
    rewrite exec_set_cells. discriminate.
Qed.

Lemma exec_rename_table_ok ord d t t' tb sc u p :
  wf d -> d_tables d !! t = Some tb -> d_schema d !! t = Some sc -> d_tables d !! t' = None ->
  exec_all (MState d u p None) (steps_of ord d (RenameTable t t'))
  = Some (MState (mk_doc (<[t' := sc]> (delete t (d_schema d))) (<[t' := tb]> (delete t (d_tables d))))
                 (u ++ [RenameTable t' t]) p None).
Proof.
  intros Hw Ht Hs Ht'.
  destruct (exec_all (MState d u p None) (steps_of ord d (RenameTable t t'))) as [st'|] eqn:E.
  - destruct (exec_rename_table _ _ _ _ _ _ _ Hw E) as (tb0 & sc0 & Ht0 & Hs0 & _ & ->). congruence.
  - exfalso. revert E. unfold steps_of. rewrite Ht, Hs, Ht'. cbn [app exec_all exec_step].
    rewrite exec_copy_cols. discriminate.
Qed.
