(* Closed forms of the micro-step execution of each doc action (Model/Rollback.v). *)
From stdpp Require Import gmap sorting.
Require Import Grist.Model.Rollback Grist.Proofs.Rollback_proofs.
Open Scope Z_scope.

(* ---------------------------------------------------------------------------------------------------------- *)
(* generic facts about exec_all and the state updaters *)
Lemma exec_all_app st l1 l2 :
  exec_all st (l1 ++ l2) = exec_all st l1 ≫= fun st' => exec_all st' l2.
Proof.
  revert st. induction l1 as [|m l1 IH]; intros st; simpl; [reflexivity|].
  destruct (exec_step st m); simpl; [apply IH|reflexivity].
Qed.

Lemma exec_all_fail st l rest : In MFail l -> exec_all st (l ++ rest) = None.
Proof.
  revert st. induction l as [|m l IH]; intros st Hin; [destruct Hin|].
  simpl. destruct Hin as [->|Hin]; [reflexivity|]. destruct (exec_step st m); [apply IH; exact Hin|reflexivity].
Qed.

Lemma table_eta tb : {| t_rows := t_rows tb; t_cols := t_cols tb |} = tb.
Proof. destruct tb; reflexivity. Qed.
Lemma doc_eta d : {| d_schema := d_schema d; d_tables := d_tables d |} = d.
Proof. destruct d; reflexivity. Qed.
Lemma column_eta c : {| c_info := c_info c; c_data := c_data c |} = c.
Proof. destruct c; reflexivity. Qed.
Lemma mstate_eta st : {| ms_doc := ms_doc st; ms_undo := ms_undo st; ms_pending := ms_pending st; ms_saved := ms_saved st |} = st.
Proof. destruct st; reflexivity. Qed.

Lemma on_doc_on_doc f g st : on_doc f (on_doc g st) = on_doc (fun d => f (g d)) st.
Proof. reflexivity. Qed.
Lemma on_doc_id st : on_doc (fun d => d) st = st.
Proof. destruct st; reflexivity. Qed.

Lemma upd_table_compose t f g d : upd_table t f (upd_table t g d) = upd_table t (fun tb => f (g tb)) d.
Proof. unfold upd_table. simpl. f_equal. symmetry. apply (alter_compose f g). Qed.
Lemma upd_col_compose c f g tb : upd_col c f (upd_col c g tb) = upd_col c (fun col => f (g col)) tb.
Proof. unfold upd_col. simpl. f_equal. symmetry. apply (alter_compose f g). Qed.
Lemma upd_table_id t d : upd_table t (fun tb => tb) d = d.
Proof. unfold upd_table. rewrite alter_id by auto. apply doc_eta. Qed.
Lemma upd_col_id c tb : upd_col c (fun col => col) tb = tb.
Proof. unfold upd_col. rewrite alter_id by auto. apply table_eta. Qed.
Lemma upd_table_ext t f g d : (forall tb, d_tables d !! t = Some tb -> f tb = g tb) -> upd_table t f d = upd_table t g d.
Proof.
  intros H. unfold upd_table. f_equal. apply map_eq. intros t'. destruct (decide (t' = t)) as [->|Hne].
  - rewrite !lookup_alter. destruct (d_tables d !! t) eqn:E; simpl; [f_equal; auto|reflexivity].
  - rewrite !lookup_alter_ne by auto. reflexivity.
Qed.
Lemma upd_col_ext c f g tb : (forall col, t_cols tb !! c = Some col -> f col = g col) -> upd_col c f tb = upd_col c g tb.
Proof.
  intros H. unfold upd_col. f_equal. apply map_eq. intros c'. destruct (decide (c' = c)) as [->|Hne].
  - rewrite !lookup_alter. destruct (t_cols tb !! c) eqn:E; simpl; [f_equal; auto|reflexivity].
  - rewrite !lookup_alter_ne by auto. reflexivity.
Qed.

Lemma on_doc_upd_table_id t f st : (forall tb, f tb = tb) -> on_doc (upd_table t f) st = st.
Proof.
  intros H. rewrite <- (on_doc_id st) at 2. unfold on_doc. f_equal.
  rewrite <- (upd_table_id t (ms_doc st)) at 2. apply upd_table_ext. intros tb _. apply H.
Qed.

(* the explicit form: table t replaced *)
Definition tset (t : name) (tb : table) (d : doc) : doc :=
  {| d_schema := d_schema d; d_tables := <[t := tb]> (d_tables d) |}.

Lemma upd_table_tset t f d tb : d_tables d !! t = Some tb -> upd_table t f d = tset t (f tb) d.
Proof.
  intros H. unfold upd_table, tset. f_equal. apply map_eq. intros t'. destruct (decide (t' = t)) as [->|Hne].
  - rewrite lookup_alter, lookup_insert, H. reflexivity.
  - rewrite lookup_alter_ne, lookup_insert_ne by auto. reflexivity.
Qed.
Lemma tset_id t tb d : d_tables d !! t = Some tb -> tset t tb d = d.
Proof. intros H. unfold tset. rewrite insert_id by exact H. apply doc_eta. Qed.
Lemma tset_tset t tb1 tb2 d : tset t tb2 (tset t tb1 d) = tset t tb2 d.
Proof. unfold tset. simpl. rewrite insert_insert. reflexivity. Qed.
Lemma tset_lookup t tb d : d_tables (tset t tb d) !! t = Some tb.
Proof. simpl. apply lookup_insert. Qed.
Lemma tset_schema t tb d : d_schema (tset t tb d) = d_schema d.
Proof. reflexivity. Qed.

(* ---------------------------------------------------------------------------------------------------------- *)
(* segments of micro-steps *)
Lemma exec_set_cells t c l : forall st rest,
  exec_all st (map (fun rv => MSetCell t c rv.1 rv.2) l ++ rest)
  = exec_all (on_doc (upd_table t (upd_col c (fun col => cset_list col l))) st) rest.
Proof.
  induction l as [|[r v] l IH]; intros st rest; simpl.
  - f_equal. symmetry. apply on_doc_upd_table_id. intros tb. apply upd_col_id.
  - rewrite IH. f_equal. rewrite on_doc_on_doc. unfold on_doc. simpl. f_equal.
    rewrite upd_table_compose. apply upd_table_ext. intros tb _. rewrite upd_col_compose. reflexivity.
Qed.

(* all the given (column, values) entries written into table tb *)
Definition write_cols (rows : list rowid) (vals : list (name * list val)) (tb : table) : table :=
  foldl (fun tb cv => upd_col cv.1 (fun col => cset_list col (zip rows cv.2)) tb) tb vals.

Lemma exec_write_cols t rows vals : forall st rest,
  exec_all st (concat (map (cell_steps t rows) vals) ++ rest)
  = exec_all (on_doc (upd_table t (write_cols rows vals)) st) rest.
Proof.
  induction vals as [|cv vals IH]; intros st rest; simpl.
  - f_equal. symmetry. apply on_doc_upd_table_id. intros tb. reflexivity.
  - rewrite <- app_assoc. unfold cell_steps at 1. rewrite exec_set_cells, IH. f_equal.
    rewrite on_doc_on_doc. unfold on_doc. simpl. f_equal. rewrite upd_table_compose. reflexivity.
Qed.

Lemma exec_add_rows t rows : forall st rest,
  exec_all st (map (MAddRow t) rows ++ rest)
  = exec_all (on_doc (upd_table t (set_rows (fun rs => list_to_set rows ∪ rs))) st) rest.
Proof.
  induction rows as [|r rows IH]; intros st rest; simpl.
  - f_equal. symmetry. apply on_doc_upd_table_id. intros tb.
    unfold set_rows. simpl. rewrite (left_id_L ∅ (∪)). apply table_eta.
  - rewrite IH. f_equal. rewrite on_doc_on_doc. unfold on_doc. simpl. f_equal.
    rewrite upd_table_compose. apply upd_table_ext. intros tb _. unfold set_rows. simpl. f_equal. set_solver.
Qed.

Lemma exec_del_rows t rows : forall st rest,
  exec_all st (map (MDelRow t) rows ++ rest)
  = exec_all (on_doc (upd_table t (set_rows (fun rs => rs ∖ list_to_set rows))) st) rest.
Proof.
  induction rows as [|r rows IH]; intros st rest; simpl.
  - f_equal. symmetry. apply on_doc_upd_table_id. intros tb.
    unfold set_rows. simpl. rewrite difference_empty_L. apply table_eta.
  - rewrite IH. f_equal. rewrite on_doc_on_doc. unfold on_doc. simpl. f_equal.
    rewrite upd_table_compose. apply upd_table_ext. intros tb _. unfold set_rows. simpl. f_equal. set_solver.
Qed.
(* what write_cols does to one column *)
Definition col_writes (c : name) (rows : list rowid) (vals : list (name * list val)) (col : column) : column :=
  foldl (fun col cv => if decide (cv.1 = c) then cset_list col (zip rows cv.2) else col) col vals.

Lemma write_cols_rows rows vals : forall tb, t_rows (write_cols rows vals tb) = t_rows tb.
Proof. induction vals as [|cv vals IH]; intros tb; [reflexivity|]. unfold write_cols in *. simpl. rewrite IH. reflexivity. Qed.

Lemma write_cols_lookup rows vals c : forall tb,
  t_cols (write_cols rows vals tb) !! c = col_writes c rows vals <$> t_cols tb !! c.
Proof.
  induction vals as [|cv vals IH]; intros tb.
  - unfold write_cols, col_writes. simpl. destruct (t_cols tb !! c); reflexivity.
  - unfold write_cols, col_writes in *. simpl. rewrite IH. simpl.
    destruct (decide (cv.1 = c)) as [E|Hne].
    + rewrite E, lookup_alter. destruct (t_cols tb !! c); reflexivity.
    + rewrite lookup_alter_ne by auto. reflexivity.
Qed.

Lemma zip_fst_in {A} (rows : list rowid) (vs : list A) r : r ∈ (zip rows vs).*1 -> r ∈ rows.
Proof.
  revert vs. induction rows as [|r0 rows IH]; intros [|v vs] H; simpl in *; try (inversion H; fail).
  apply elem_of_cons in H as [->|H]; [left|right; eauto].
Qed.

Lemma zip_map_in {A} (f : rowid -> A) rows r v : (r, v) ∈ zip rows (map f rows) -> v = f r.
Proof.
  induction rows as [|r0 rows IH]; simpl; intros H; [inversion H|].
  apply elem_of_cons in H as [H|H]; [congruence|auto].
Qed.

Lemma zip_map_fst {A} (f : rowid -> A) rows : (zip rows (map f rows)).*1 = rows.
Proof. induction rows as [|r0 rows IH]; simpl; [reflexivity|]. f_equal. exact IH. Qed.

Lemma col_writes_info c rows vals : forall col, c_info (col_writes c rows vals col) = c_info col.
Proof.
  induction vals as [|cv vals IH]; intros col; [reflexivity|]. unfold col_writes in *. simpl. rewrite IH.
  destruct (decide (cv.1 = c)); [apply cset_list_info|reflexivity].
Qed.

Lemma col_writes_other c rows vals : forall col r, r ∉ rows -> cget (col_writes c rows vals col) r = cget col r.
Proof.
  induction vals as [|cv vals IH]; intros col r Hr; [reflexivity|]. unfold col_writes in *. simpl. rewrite IH by exact Hr.
  destruct (decide (cv.1 = c)); [|reflexivity]. apply cget_cset_list_notin. intros H. apply Hr. eapply zip_fst_in. exact H.
Qed.

Lemma col_writes_wf c rows vals R : forall col,
  wf_col R col -> (forall r, r ∈ rows -> r ∈ R) -> wf_col R (col_writes c rows vals col).
Proof.
  induction vals as [|cv vals IH]; intros col H HR; [exact H|]. unfold col_writes in *. simpl. apply IH; [|exact HR].
  destruct (decide (cv.1 = c)); [|exact H]. apply wf_col_cset_list; [exact H|]. intros r Hr. apply HR. eapply zip_fst_in. exact Hr.
Qed.

Lemma col_writes_notin c rows vals : forall col, c ∉ vals.*1 -> col_writes c rows vals col = col.
Proof.
  induction vals as [|cv vals IH]; intros col H; [reflexivity|]. unfold col_writes in *. simpl.
  rewrite decide_False by (intros E; apply H; rewrite <- E; left). apply IH. intros E. apply H. right. exact E.
Qed.

(* when every entry for c carries the values f r, the column reads f r on all the rows *)
Lemma col_writes_restores c rows f vals : forall col r,
  c ∈ vals.*1 -> (forall cv, cv ∈ vals -> cv.1 = c -> cv.2 = map f rows) -> r ∈ rows ->
  cget (col_writes c rows vals col) r = f r.
Proof.
  induction vals as [|cv vals IH] using rev_ind; intros col r Hc Hf Hr; [inversion Hc|].
  unfold col_writes in *. rewrite foldl_app. simpl. destruct (decide (cv.1 = c)) as [E|Hne].
  - rewrite (Hf cv) by (auto; apply elem_of_app; right; left).
    apply cget_cset_list_in; [rewrite zip_map_fst; exact Hr|]. intros r' v H. eapply zip_map_in. exact H.
  - apply IH; [|intros cv' H1 H2; apply Hf; [apply elem_of_app; left; exact H1|exact H2]|exact Hr].
    rewrite fmap_app in Hc. apply elem_of_app in Hc as [Hc|Hc]; [exact Hc|]. simpl in Hc.
    apply elem_of_list_singleton in Hc. congruence.
Qed.
