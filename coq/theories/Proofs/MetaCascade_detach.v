(* K6 proofs: DetachSummaryViewSection (for a section that is not a raw section). *)
From Coq Require Import ZArith List Bool Lia.
Import ListNotations.
Require Import Grist.Model.MetaCascade Grist.Proofs.MetaCascade_base Grist.Proofs.MetaCascade_inv
  Grist.Proofs.MetaCascade_rm Grist.Proofs.MetaCascade_add3 Grist.Proofs.MetaCascade_add4
  Grist.Proofs.MetaCascade_clear Grist.Proofs.MetaCascade_regroup Grist.Proofs.MetaCascade_regroup2.
Open Scope Z_scope.

Lemma add_table_sections : forall name kinds pview m m' t,
  add_table name kinds pview m = Ok (m', t) -> incl (m_sections m) (m_sections m').
Proof.
  intros name kinds pview m m' t H. unfold add_table in H.
  destruct (mem name (m_schema m) || mem name (map t_name (m_tables m))); [discriminate|].
  destruct pview.
  - unfold add_view in H. cbn [negb] in H.
    match type of H with context [if ?b then Fail else _] => destruct b; [discriminate|] end.
    unfold add_section, bind in H. cbv zeta beta iota in H. cbn [fst snd] in H. inversion H; subst m'. clear H.
    intros x Hx. unfold set_tables, add_fields, set_fields, set_sections. cbn [m_sections].
    repeat (apply in_app_iff; left). exact Hx.
  - unfold add_section, bind in H. cbv zeta beta iota in H. cbn [fst snd] in H. inversion H; subst m'. clear H.
    intros x Hx. unfold set_tables, add_fields, set_fields, set_sections. cbn [m_sections].
    repeat (apply in_app_iff; left). exact Hx.
Qed.

Lemma set_refts_inv : forall X refts m, InvX X m -> InvX X (set_refts refts m).
Proof.
  intros X refts m HI. unfold set_refts, set_columns.
  rewrite <- (map_id (m_fields m)) at 1.
  apply weaken_records_inv; [exact HI | | intros f; apply field_weaker_refl].
  intros c. destruct (lookup (c_id c) refts); [|apply col_weaker_refl].
  unfold col_weaker. simpl. repeat split; try (right; reflexivity). apply incl_refl.
Qed.

Lemma detach_inv : forall sec name kinds refts remap m m', Inv m -> detach sec name kinds refts remap m = Ok m' -> Inv m'.
Proof.
  intros sec name kinds refts remap m m' HI H. unfold detach in H.
  destruct (find_section m sec) as [s|] eqn:Ef; [|discriminate].
  apply find_section_some in Ef. destruct Ef as [Hs Es].
  destruct (negb (is_summary_table m (s_table s))); [discriminate|].
  destruct (is_raw m s); [discriminate|].
  destruct (add_table name kinds true m) as [[m1 t]| |] eqn:Ea; unfold bind in H; try discriminate.
  cbv beta iota zeta in H.
  destruct (add_table_inv _ _ _ _ _ _ HI Ea) as [HI1 Ht1].
  pose proof (add_table_sections _ _ _ _ _ _ Ea) as Hsec.
  pose proof (set_refts_inv [] refts m1 HI1) as HI2.
  set (m2 := set_refts refts m1) in *.
  destruct (sec_is_card m2 sec || sec_is_raw m2 sec) eqn:Ec; [discriminate|].
  apply orb_false_iff in Ec. destruct Ec as [Ec Er].
  destruct (negb (cols_of_table m2 (map snd remap) t)) eqn:Eo; [discriminate|]. apply negb_false_iff in Eo.
  inversion H; subst m'. apply regroup_fields_inv.
  - exact HI2.
  - exact Ht1.
  - cbn [rg_sec]. unfold sids. change (m_sections m2) with (m_sections m1).
    apply in_map_iff. exists s. split; [exact Es | apply Hsec; exact Hs].
  - exact Er.
  - exact Ec.
  - cbn [rg_remap rg_new]. rewrite app_nil_r. exact Eo.
Qed.
