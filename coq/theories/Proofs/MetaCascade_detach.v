(* K6 proofs: DetachSummaryViewSection (for a section that is not a raw section). *)
From Coq Require Import ZArith List Bool Lia.
Import ListNotations.
Require Import Grist.Model.MetaCascade Grist.Proofs.MetaCascade_base Grist.Proofs.MetaCascade_inv
  Grist.Proofs.MetaCascade_rm Grist.Proofs.MetaCascade_add3 Grist.Proofs.MetaCascade_add4
  Grist.Proofs.MetaCascade_clear Grist.Proofs.MetaCascade_regroup Grist.Proofs.MetaCascade_regroup2.
Open Scope Z_scope.

Lemma add_section_incl : forall t v b m, incl (m_sections m) (m_sections (fst (add_section t v b m))).
Proof. intros. destruct m. unfold add_section, set_sections. simpl. apply incl_appl, incl_refl. Qed.

Lemma add_view_sections : forall t raw m m' v, add_view t raw m = Ok (m', v) -> incl (m_sections m) (m_sections m').
Proof.
  intros t raw m m' v H. unfold add_view in H. destruct raw.
  - destruct (negb (mem t (tids m))); [discriminate|].
    match type of H with context [add_section ?a ?b ?c ?d] =>
      pose proof (add_section_incl a b c d) as Hi; destruct (add_section a b c d) as [m2 s] end.
    simpl in Hi. inversion H; subst m' v. destruct (add_fields_frame s (visible_cols m2 t) m2) as [_ [_ [F3 _]]].
    rewrite F3. exact Hi.
  - inversion H; subst. simpl. apply incl_refl.
Qed.

Lemma add_table_sections : forall name kinds pview m m' t,
  add_table name kinds pview m = Ok (m', t) -> incl (m_sections m) (m_sections m').
Proof.
  intros name kinds pview m m' t0 H. unfold add_table in H.
  destruct (mem name (m_schema m) || mem name (map t_name (m_tables m))); [discriminate|].
  set (t := next_id (tids m)) in *.
  match type of H with context [bind (if pview then add_view t true ?mm else _)] => set (m0 := mm) in * end.
  assert (E0 : m_sections m0 = m_sections m) by reflexivity.
  destruct (if pview then add_view t true m0 else Ok (m0, 0)) as [[m1 v]| |] eqn:Ev; unfold bind in H; try discriminate.
  cbv beta iota in H.
  assert (I1 : incl (m_sections m) (m_sections m1)).
  { rewrite <- E0. destruct pview; [apply (add_view_sections _ _ _ _ _ Ev) | inversion Ev; subst; apply incl_refl]. }
  pose proof (add_section_incl t 0 false m1) as I2.
  destruct (add_section t 0 false m1) as [m2 sraw]. simpl in I2.
  destruct (add_fields_frame sraw (visible_cols m2 t) m2) as [_ [_ [F3 _]]].
  set (m3 := add_fields sraw (visible_cols m2 t) m2) in *.
  pose proof (add_section_incl t 0 false m3) as I4.
  destruct (add_section t 0 false m3) as [m4 scard]. simpl in I4.
  destruct (add_fields_frame scard (visible_cols m4 t) m4) as [_ [_ [F5 _]]].
  inversion H; subst m' t0. unfold set_tables. cbn [m_sections]. rewrite F5.
  intros x Hx. apply I4. try rewrite F3. apply I2. apply I1. exact Hx.
Qed.

Lemma set_refts_inv : forall X refts m, InvX X m -> InvX X (set_refts refts m).
Proof.
  intros X refts m HI. unfold set_refts, set_columns.
  rewrite <- (map_id (m_fields m)) at 1.
  apply weaken_records_inv; [exact HI | | intros f; apply field_weaker_refl].
  intros c. destruct (lookup (c_id c) refts); [|apply col_weaker_refl].
  unfold col_weaker. simpl. repeat split; try (right; reflexivity). apply incl_refl.
Qed.

Lemma detach_inv : forall sec name kinds refts remap m m', Inv m -> detach sec name kinds refts remap m = Ok m' -> Inv m'.
Proof.
  intros sec name kinds refts remap m m' HI H. unfold detach in H.
  destruct (find_section m sec) as [s|] eqn:Ef; [|discriminate].
  apply find_section_some in Ef. destruct Ef as [Hs Es].
  destruct (negb (is_summary_table m (s_table s))); [discriminate|].
  destruct (is_raw m s); [discriminate|].
  destruct (add_table name kinds true m) as [[m1 t]| |] eqn:Ea; unfold bind in H; try discriminate.
  cbv beta iota zeta in H.
  destruct (add_table_inv _ _ _ _ _ _ HI Ea) as [HI1 Ht1].
  pose proof (add_table_sections _ _ _ _ _ _ Ea) as Hsec.
  pose proof (set_refts_inv [] refts m1 HI1) as HI2.
  set (m2 := set_refts refts m1) in *.
  destruct (sec_is_card m2 sec || sec_is_raw m2 sec) eqn:Ec; [discriminate|].
  apply orb_false_iff in Ec. destruct Ec as [Ec Er].
  destruct (negb (cols_of_table m2 (map snd remap) t)) eqn:Eo; [discriminate|]. apply negb_false_iff in Eo.
  inversion H; subst m'. apply regroup_fields_inv.
  - exact HI2.
  - exact Ht1.
  - cbn [rg_sec]. unfold sids. change (m_sections m2) with (m_sections m1).
    apply in_map_iff. exists s. split; [exact Es | apply Hsec; exact Hs].
  - exact Er.
  - exact Ec.
  - cbn [rg_remap rg_new]. rewrite app_nil_r. exact Eo.
Qed.
