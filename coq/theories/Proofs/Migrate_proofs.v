(* C25 -- lemmas about the TableDataSet model and the migration driver (Model/Migrate.v). *)
From Coq Require Import ZArith Bool List Lia Sorted.
Import ListNotations.
Require Import Grist.Model.Migrate.
Open Scope Z_scope.

(* ---------- strings and dicts ---------- *)
Lemma seqb_refl : forall a, seqb a a = true.
Proof. induction a as [|x a IH]; cbn; [reflexivity|]. rewrite Z.eqb_refl, IH. reflexivity. Qed.

Lemma seqb_eq : forall a b, seqb a b = true -> a = b.
Proof.
  induction a as [|x a IH]; destruct b as [|y b]; cbn; intro H; try discriminate; [reflexivity|].
  apply andb_prop in H. destruct H as [H1 H2]. apply Z.eqb_eq in H1. subst. f_equal. apply IH. exact H2.
Qed.

Lemma seqb_sym : forall a b, seqb a b = seqb b a.
Proof.
  induction a as [|x a IH]; destruct b as [|y b]; cbn; try reflexivity.
  rewrite Z.eqb_sym, IH. reflexivity.
Qed.

Lemma seqb_neq : forall a b, a <> b -> seqb a b = false.
Proof.
  intros a b H. destruct (seqb a b) eqn:E; [|reflexivity]. exfalso. apply H. apply seqb_eq. exact E.
Qed.

Section DictLemmas.
  Context {V : Type}.
  Implicit Types m : list (str * V).

  Lemma lookup_dset_same : forall k v m, lookup k (dset k v m) = Some v.
  Proof.
    intros k v m. induction m as [|[k' v'] m IH]; cbn.
    - rewrite seqb_refl. reflexivity.
    - destruct (seqb k k') eqn:E; cbn; rewrite E; [reflexivity|exact IH].
  Qed.

  Lemma lookup_dset_other : forall u k v m, seqb u k = false -> lookup u (dset k v m) = lookup u m.
  Proof.
    intros u k v m Hu. induction m as [|[k' v'] m IH]; cbn.
    - rewrite Hu. reflexivity.
    - destruct (seqb k k') eqn:E; cbn.
      + apply seqb_eq in E. subst k'. rewrite Hu. reflexivity.
      + rewrite IH. reflexivity.
  Qed.

  Lemma lookup_dpop_other : forall u k m, seqb u k = false -> lookup u (dpop k m) = lookup u m.
  Proof.
    intros u k m Hu. induction m as [|[k' v'] m IH]; cbn; [reflexivity|].
    destruct (seqb k k') eqn:E; cbn.
    - apply seqb_eq in E. subst k'. rewrite Hu. reflexivity.
    - rewrite IH. reflexivity.
  Qed.
End DictLemmas.

(* ---------- bind ---------- *)
Lemma bind_ok : forall {A B} (r : res A) (f : A -> res B) b,
  bind r f = Ok b -> exists a, r = Ok a /\ f a = Ok b.
Proof. intros A B [a|e] f b H; cbn in H; [eauto|discriminate]. Qed.

Ltac inv_ok :=
  repeat match goal with
  | H : bind _ _ = Ok _ |- _ => apply bind_ok in H; destruct H as [? [? H]]
  | H : Ok _ = Ok _ |- _ => injection H as H; try subst
  | H : Err _ = Ok _ |- _ => discriminate H
  | H : (match ?x with _ => _ end) = Ok _ |- _ => destruct x eqn:?; try discriminate H
  | H : (let '(_, _) := ?x in _) = Ok _ |- _ => destruct x eqn:?
  end.

(* ---------- every action leaves the tables it does not name alone ---------- *)
Definition untouched (u : str) (s s' : tds) : Prop :=
  lookup u (t_data s') = lookup u (t_data s) /\ lookup u (t_schema s') = lookup u (t_schema s).

Lemma bulk_add_frame : forall t rs ac s s' u,
  bulk_add t rs ac s = Ok s' -> seqb u t = false -> untouched u s s'.
Proof.
  unfold bulk_add, untouched. intros t rs ac s s' u H Hu. inv_ok. cbn.
  split; [apply lookup_dset_other; exact Hu|reflexivity].
Qed.

Lemma bulk_remove_frame : forall t rs s s' u,
  bulk_remove t rs s = Ok s' -> seqb u t = false -> untouched u s s'.
Proof.
  unfold bulk_remove, untouched. intros t rs s s' u H Hu. inv_ok. cbn.
  split; [apply lookup_dset_other; exact Hu|reflexivity].
Qed.

Lemma bulk_update_frame : forall t rs ac s s' u,
  bulk_update t rs ac s = Ok s' -> seqb u t = false -> untouched u s s'.
Proof.
  unfold bulk_update, untouched. intros t rs ac s s' u H Hu. inv_ok. cbn.
  split; [apply lookup_dset_other; exact Hu|reflexivity].
Qed.

Lemma replace_data_frame : forall t rs ac s s' u,
  replace_data t rs ac s = Ok s' -> seqb u t = false -> untouched u s s'.
Proof.
  unfold replace_data. intros t rs ac s s' u H Hu. inv_ok.
  apply bulk_add_frame with (u := u) in H; [|exact Hu]. destruct H as [H1 H2]. cbn in H1, H2.
  split; [rewrite H1; apply lookup_dset_other; exact Hu|exact H2].
Qed.

Definition avoids (u : str) (a : action) : Prop := forall t, In t (action_tables a) -> seqb u t = false.

Ltac other_key Hu :=
  repeat first [ rewrite lookup_dset_other by (apply Hu; cbn; auto)
               | rewrite lookup_dpop_other by (apply Hu; cbn; auto) ]; try reflexivity.

Lemma schema_step_frame : forall a sch sch' u,
  schema_step a sch = Ok sch' -> avoids u a -> lookup u sch' = lookup u sch.
Proof.
  intros a sch sch' u H Hu. unfold avoids in Hu.
  destruct a; cbn [schema_step action_tables] in *; inv_ok; other_key Hu.
Qed.

Lemma data_step_frame : forall a d d' u,
  data_step a d = Ok d' -> avoids u a -> lookup u d' = lookup u d.
Proof.
  intros a d d' u H Hu. unfold avoids in Hu.
  destruct a; cbn [data_step action_tables] in *; inv_ok; other_key Hu.
Qed.

Lemma tds_apply_frame : forall a s s' u,
  tds_apply a s = Ok s' -> avoids u a -> untouched u s s'.
Proof.
  intros a s s' u H Hu.
  assert (Hk : forall t, action_tables a = [t] -> seqb u t = false)
    by (intros t E; apply Hu; rewrite E; cbn; auto).
  destruct a; cbn [tds_apply] in H;
    try (eapply bulk_add_frame; [exact H|apply Hk; reflexivity]);
    try (eapply bulk_remove_frame; [exact H|apply Hk; reflexivity]);
    try (eapply bulk_update_frame; [exact H|apply Hk; reflexivity]);
    try (eapply replace_data_frame; [exact H|apply Hk; reflexivity]);
    (inv_ok; cbn [t_data t_schema]; split;
      [eapply data_step_frame; eassumption|eapply schema_step_frame; eassumption]).
Qed.

Lemma untouched_trans : forall u s1 s2 s3, untouched u s1 s2 -> untouched u s2 s3 -> untouched u s1 s3.
Proof. unfold untouched. intros u s1 s2 s3 [A B] [C D]. split; congruence. Qed.

Lemma tds_apply_all_frame : forall acts s s' u,
  tds_apply_all acts s = Ok s' -> Forall (avoids u) acts -> untouched u s s'.
Proof.
  induction acts as [|a acts IH]; cbn; intros s s' u H HF.
  - inv_ok. split; reflexivity.
  - inversion HF as [|? ? Ha Hrest]; subst. inv_ok.
    eapply untouched_trans; [eapply tds_apply_frame; eassumption|eapply IH; eassumption].
Qed.

(* meta_only: every named table starts with _grist_; a user table does not *)
Lemma is_prefix_seqb : forall p a b, seqb a b = true -> is_prefix p a = is_prefix p b.
Proof. intros p a b H. apply seqb_eq in H. subst. reflexivity. Qed.

Lemma meta_only_avoids : forall acts u,
  meta_only acts = true -> is_meta u = false -> Forall (avoids u) acts.
Proof.
  intros acts u H Hu. unfold meta_only in H. rewrite forallb_forall in H.
  apply Forall_forall. intros a Ha t Ht. specialize (H a Ha). rewrite forallb_forall in H.
  specialize (H t Ht). destruct (seqb u t) eqn:E; [|reflexivity].
  apply seqb_eq in E. subst t. rewrite Hu in H. discriminate.
Qed.

Lemma tds_apply_all_app : forall a b s,
  tds_apply_all (a ++ b) s = bind (tds_apply_all a s) (tds_apply_all b).
Proof.
  induction a as [|x a IH]; intros b s; cbn; [reflexivity|].
  destruct (tds_apply x s) as [s1|e]; cbn; [apply IH|reflexivity].
Qed.

(* ---------- the schema component evolves on its own ---------- *)
Lemma bulk_add_schema : forall t rs ac s s', bulk_add t rs ac s = Ok s' -> t_schema s' = t_schema s.
Proof. unfold bulk_add. intros. inv_ok. reflexivity. Qed.
Lemma bulk_remove_schema : forall t rs s s', bulk_remove t rs s = Ok s' -> t_schema s' = t_schema s.
Proof. unfold bulk_remove. intros. inv_ok. reflexivity. Qed.
Lemma bulk_update_schema : forall t rs ac s s', bulk_update t rs ac s = Ok s' -> t_schema s' = t_schema s.
Proof. unfold bulk_update. intros. inv_ok. reflexivity. Qed.
Lemma replace_data_schema : forall t rs ac s s', replace_data t rs ac s = Ok s' -> t_schema s' = t_schema s.
Proof. unfold replace_data. intros t rs ac s s' H. inv_ok. apply bulk_add_schema in H. exact H. Qed.

Lemma tds_apply_schema : forall a s s',
  tds_apply a s = Ok s' -> schema_step a (t_schema s) = Ok (t_schema s').
Proof.
  intros a s s' H.
  destruct a; cbn [tds_apply] in H; cbn [schema_step];
    try (apply bulk_add_schema in H; rewrite H; reflexivity);
    try (apply bulk_remove_schema in H; rewrite H; reflexivity);
    try (apply bulk_update_schema in H; rewrite H; reflexivity);
    try (apply replace_data_schema in H; rewrite H; reflexivity);
    (apply bind_ok in H; destruct H as [sch' [H1 H]]; apply bind_ok in H; destruct H as [d' [H2 H]];
     injection H as H; subst s'; cbn [t_schema]; exact H1).
Qed.

Lemma schema_step_record : forall a sch, is_schema_action a = false -> schema_step a sch = Ok sch.
Proof. intros a sch H. destruct a; cbn in *; try discriminate; reflexivity. Qed.

Lemma schema_apply_all_filter : forall acts sch,
  schema_apply_all (filter is_schema_action acts) sch = schema_apply_all acts sch.
Proof.
  induction acts as [|a acts IH]; intros sch; cbn; [reflexivity|].
  destruct (is_schema_action a) eqn:E; cbn.
  - destruct (schema_step a sch); cbn; [apply IH|reflexivity].
  - rewrite (schema_step_record a sch E). cbn. apply IH.
Qed.

Lemma tds_apply_all_schema : forall acts s s',
  tds_apply_all acts s = Ok s' -> schema_apply_all acts (t_schema s) = Ok (t_schema s').
Proof.
  induction acts as [|a acts IH]; cbn; intros s s' H.
  - inv_ok. reflexivity.
  - apply bind_ok in H. destruct H as [s1 [H1 H2]].
    rewrite (tds_apply_schema _ _ _ H1). cbn. apply IH. exact H2.
Qed.

(* ---------- the driver ---------- *)
Lemma versions_from_nil : forall d c, c <= d -> versions_from d c = [].
Proof. intros d c H. unfold versions_from. replace (Z.to_nat (c - d)) with O by lia. reflexivity. Qed.

Lemma versions_from_in : forall d c v, In v (versions_from d c) <-> d < v <= c.
Proof.
  intros d c v. unfold versions_from. rewrite in_map_iff. split.
  - intros [k [E Hk]]. apply in_seq in Hk. lia.
  - intros H. exists (Z.to_nat (v - d - 1)). split; [lia|]. apply in_seq. lia.
Qed.

Lemma versions_from_length : forall d c, length (versions_from d c) = Z.to_nat (c - d).
Proof. intros. unfold versions_from. rewrite map_length, seq_length. reflexivity. Qed.

Lemma nth_map_lt : forall {A B} (f : A -> B) l i a b, (i < length l)%nat -> nth i (map f l) b = f (nth i l a).
Proof.
  intros A B f l. induction l as [|x l IH]; cbn; intros i a b H; [lia|].
  destruct i as [|i]; [reflexivity|]. apply IH. lia.
Qed.

Lemma versions_from_nth : forall d c i, (i < Z.to_nat (c - d))%nat ->
  nth i (versions_from d c) 0 = d + 1 + Z.of_nat i.
Proof.
  intros d c i H. unfold versions_from.
  rewrite (nth_map_lt _ _ i O 0) by (rewrite seq_length; exact H).
  rewrite seq_nth by exact H. reflexivity.
Qed.

Lemma map_seq_sorted : forall (d : Z) n st,
  StronglySorted Z.lt (map (fun k => d + 1 + Z.of_nat k) (seq st n)).
Proof.
  intros d n. induction n as [|n IH]; intros st; cbn; constructor.
  - apply IH.
  - apply Forall_forall. intros x Hx. apply in_map_iff in Hx. destruct Hx as [k [E Hk]].
    apply in_seq in Hk. lia.
Qed.

Lemma versions_from_sorted : forall d c, StronglySorted Z.lt (versions_from d c).
Proof. intros. apply map_seq_sorted. Qed.

Lemma sorted_nodup : forall l, StronglySorted Z.lt l -> NoDup l.
Proof.
  induction l as [|x l IH]; intro H; constructor; inversion H as [|? ? Hs Hf]; subst.
  - intro Hin. rewrite Forall_forall in Hf. specialize (Hf x Hin). lia.
  - apply IH. exact Hs.
Qed.

Lemma versions_from_last : forall d c, d < c -> last (versions_from d c) 0 = c.
Proof.
  intros d c H. pose proof (versions_from_length d c) as HL.
  assert (Hn : versions_from d c <> []) by (intro E; rewrite E in HL; cbn in HL; lia).
  destruct (exists_last Hn) as [l [x E]]. rewrite E, last_last.
  assert (Hx : nth (length l) (versions_from d c) 0 = x) by (rewrite E, app_nth2, Nat.sub_diag by lia; reflexivity).
  rewrite E, app_length in HL. cbn in HL.
  rewrite versions_from_nth in Hx by lia. lia.
Qed.

Section DriverProofs.
  Variable current : Z.
  Variable need_all : Z -> bool.
  Variable migs : Z -> tds -> res (list action).

  (* the migrations of the listed versions run one after the other, each on the tdset the previous one left *)
  Inductive chain (mo : bool) : list Z -> tds -> list action -> tds -> Prop :=
  | chain_nil : forall s, chain mo [] s [] s
  | chain_cons : forall v vs s acts s1 rest s2,
      need_all v && mo = false ->
      migs v s = Ok acts -> tds_apply_all acts s = Ok s1 ->
      chain mo vs s1 rest s2 -> chain mo (v :: vs) s (acts ++ rest) s2.

  Lemma fold_err : forall mo vs e, fold_left (drv_step need_all migs mo) vs (Err e) = Err e.
  Proof. induction vs as [|v vs IH]; intros e; cbn; [reflexivity|apply IH]. Qed.

  Lemma fold_chain : forall mo vs acc s done acc' s' done',
    fold_left (drv_step need_all migs mo) vs (Ok (acc, s, done)) = Ok (acc', s', done') ->
    exists body, acc' = acc ++ body /\ done' = done ++ vs /\ chain mo vs s body s'.
  Proof.
    induction vs as [|v vs IH]; intros acc s done acc' s' done' H; cbn in H.
    - injection H as -> -> ->. exists []. rewrite !app_nil_r. repeat split. constructor.
    - destruct (need_all v && mo) eqn:En; [rewrite fold_err in H; discriminate|].
      destruct (migs v s) as [acts|e] eqn:Em; cbn in H; [|rewrite fold_err in H; discriminate].
      destruct (tds_apply_all acts s) as [s1|e] eqn:Ea; cbn in H; [|rewrite fold_err in H; discriminate].
      apply IH in H. destruct H as [body [E1 [E2 Hc]]].
      exists (acts ++ body). rewrite E1, E2, <- !app_assoc. repeat split.
      econstructor; eassumption.
  Qed.

  Lemma chain_fold : forall mo vs s body s', chain mo vs s body s' ->
    forall acc done, fold_left (drv_step need_all migs mo) vs (Ok (acc, s, done)) = Ok (acc ++ body, s', done ++ vs).
  Proof.
    induction 1 as [s|v vs s acts s1 rest s2 Hn Hm Ha Hc IH]; intros acc done; cbn.
    - rewrite !app_nil_r. reflexivity.
    - rewrite Hn, Hm. cbn. rewrite Ha. cbn. rewrite IH, <- !app_assoc. reflexivity.
  Qed.

  Lemma create_noop : forall mo s d,
    doc_version_of s = Ok d -> current <= d ->
    create_migrations current need_all migs mo s = Ok ([sv_update current], s, []).
  Proof.
    intros mo s d Hd Hle. unfold create_migrations. rewrite Hd. cbn [bind].
    rewrite versions_from_nil by exact Hle. reflexivity.
  Qed.

  Lemma create_spec : forall mo s acts s' vs,
    create_migrations current need_all migs mo s = Ok (acts, s', vs) ->
    exists d body, doc_version_of s = Ok d /\ vs = versions_from d current /\
                   acts = body ++ [sv_update current] /\ chain mo vs s body s'.
  Proof.
    intros mo s acts s' vs H. unfold create_migrations in H.
    destruct (doc_version_of s) as [d|e] eqn:Hd; cbn [bind] in H; [|discriminate].
    destruct (fold_left _ _ _) as [[[acc s1] done]|e] eqn:Hf; cbn [bind] in H; [|discriminate].
    injection H as <- <- <-. apply fold_chain in Hf. destruct Hf as [body [E1 [E2 Hc]]].
    cbn in E1, E2. subst. exists d, body. repeat split. exact Hc.
  Qed.

  (* the driver adds no failure of its own *)
  Lemma chain_total : forall (Inv : tds -> Prop) mo lo,
    (forall v s, Inv s -> lo < v <= current ->
       need_all v && mo = false /\
       exists acts s1, migs v s = Ok acts /\ tds_apply_all acts s = Ok s1 /\ Inv s1) ->
    forall vs s, Inv s -> Forall (fun v => lo < v <= current) vs ->
    exists body s', chain mo vs s body s' /\ Inv s'.
  Proof.
    intros Inv mo lo Hstep. induction vs as [|v vs IH]; intros s Hs HF.
    - exists [], s. split; [constructor|exact Hs].
    - inversion HF as [|? ? Hv Hrest]; subst.
      destruct (Hstep v s Hs Hv) as [Hn [acts [s1 [Hm [Ha Hs1]]]]].
      destruct (IH s1 Hs1 Hrest) as [body [s' [Hc Hs']]].
      exists (acts ++ body), s'. split; [econstructor; eassumption|exact Hs'].
  Qed.

  Lemma create_total : forall (Inv : tds -> Prop) mo s d,
    doc_version_of s = Ok d -> Inv s ->
    (forall v s, Inv s -> d < v <= current ->
       need_all v && mo = false /\
       exists acts s1, migs v s = Ok acts /\ tds_apply_all acts s = Ok s1 /\ Inv s1) ->
    exists body s', create_migrations current need_all migs mo s =
                      Ok (body ++ [sv_update current], s', versions_from d current) /\ Inv s'.
  Proof.
    intros Inv mo s d Hd Hs Hstep.
    destruct (chain_total Inv mo d Hstep (versions_from d current) s Hs) as [body [s' [Hc Hs']]].
    { apply Forall_forall. intros v Hv. apply versions_from_in. exact Hv. }
    exists body, s'. split; [|exact Hs'].
    unfold create_migrations. rewrite Hd. cbn [bind].
    rewrite (chain_fold _ _ _ _ _ Hc). cbn. reflexivity.
  Qed.
End DriverProofs.

(* ---------- the final schemaVersion update ---------- *)
Definition docinfo_ok (D : tds) : Prop :=
  exists rest cols v0 vs,
    lookup DOCINFO (t_data D) = Some (Some 1 :: rest, cols) /\ rid_mem (Some 1) rest = false /\
    lookup SCHEMAVERSION cols = Some (v0 :: vs).

Lemma last_index_none : forall r rows i, rid_mem r rows = false -> last_index r rows i = None.
Proof.
  intros r rows. induction rows as [|x rows IH]; intros i H; cbn; [reflexivity|].
  cbn in H. apply orb_false_elim in H. destruct H as [H1 H2]. rewrite (IH (S i) H2), H1. reflexivity.
Qed.

Lemma rid_eqb_refl : forall r, rid_eqb r r = true.
Proof. intros [z|]; cbn; [apply Z.eqb_refl|reflexivity]. Qed.

Lemma sv_update_version : forall cur D, docinfo_ok D ->
  exists D', tds_apply (sv_update cur) D = Ok D' /\ doc_version_of D' = Ok cur.
Proof.
  intros cur D [rest [cols [v0 [vs [H1 [H2 H3]]]]]].
  unfold sv_update. cbn [tds_apply]. unfold bulk_update. rewrite H1.
  cbn [indices_of]. cbn [last_index]. rewrite (last_index_none _ _ 1%nat H2). rewrite rid_eqb_refl.
  cbn [bind singles map fst snd update_cols]. rewrite H3. cbn [set_many set_nth bind update_cols].
  eexists. split; [reflexivity|].
  unfold doc_version_of. cbn [t_data]. rewrite lookup_dset_same, lookup_dset_same. reflexivity.
Qed.

Lemma update_cols_one : forall idx c vs cols cols' u,
  update_cols idx [(c, vs)] cols = Ok cols' -> seqb u c = false -> lookup u cols' = lookup u cols.
Proof.
  intros idx c vs cols cols' u H Hu. cbn [update_cols] in H.
  destruct (lookup c cols) as [old|] eqn:E.
  - apply bind_ok in H. destruct H as [new [_ H]]. injection H as <-. apply lookup_dset_other. exact Hu.
  - injection H as <-. reflexivity.
Qed.

(* what the update touches: one column of one table, no row ids, no schema *)
Lemma sv_update_effect : forall cur D D',
  tds_apply (sv_update cur) D = Ok D' ->
  t_schema D' = t_schema D /\
  (forall u, seqb u DOCINFO = false -> lookup u (t_data D') = lookup u (t_data D)) /\
  exists rows cols cols',
    lookup DOCINFO (t_data D) = Some (rows, cols) /\ lookup DOCINFO (t_data D') = Some (rows, cols') /\
    forall c, seqb c SCHEMAVERSION = false -> lookup c cols' = lookup c cols.
Proof.
  intros cur D D' H. unfold sv_update in H. cbn [tds_apply] in H. unfold bulk_update in H.
  destruct (lookup DOCINFO (t_data D)) as [[rows cols]|] eqn:E; [|discriminate].
  apply bind_ok in H. destruct H as [idx [_ H]]. apply bind_ok in H. destruct H as [cols' [Hu H]].
  injection H as <-. cbn [t_schema t_data]. split; [reflexivity|]. split.
  - intros u Hne. apply lookup_dset_other. exact Hne.
  - exists rows, cols, cols'. split; [reflexivity|]. split; [apply lookup_dset_same|].
    intros c Hc. eapply update_cols_one; [exact Hu|exact Hc].
Qed.
