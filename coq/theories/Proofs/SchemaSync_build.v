(* C08, part 1: what schema.build_schema computes (Model/SchemaSync.v), as lookups. *)
From Coq Require Import ZArith List Bool Lia Permutation.
Import ListNotations.
Require Import Grist.Model.SchemaSync.
Open Scope Z_scope.

(* ---------------------------------------------------------------- strings *)
Lemma str_eqb_refl : forall a, str_eqb a a = true.
Proof. induction a as [|x a IH]; cbn; [reflexivity|]. rewrite Z.eqb_refl, IH. reflexivity. Qed.

Lemma str_eqb_eq : forall a b, str_eqb a b = true <-> a = b.
Proof.
  induction a as [|x a IH]; destruct b as [|y b]; cbn; split; intro H; try reflexivity; try discriminate.
  - apply andb_true_iff in H. destruct H as [H1 H2]. apply Z.eqb_eq in H1. apply IH in H2. congruence.
  - inversion H; subst. rewrite Z.eqb_refl. cbn. apply str_eqb_refl.
Qed.

Lemma str_eqb_neq : forall a b, a <> b -> str_eqb a b = false.
Proof. intros a b H. destruct (str_eqb a b) eqn:E; [|reflexivity]. apply str_eqb_eq in E. contradiction. Qed.

Lemma str_eqb_false : forall a b, str_eqb a b = false -> a <> b.
Proof. intros a b H E. subst. rewrite str_eqb_refl in H. discriminate. Qed.

Lemma str_eqb_sym : forall a b, str_eqb a b = str_eqb b a.
Proof.
  intros a b. destruct (str_eqb a b) eqn:E.
  - apply str_eqb_eq in E. subst. symmetry. apply str_eqb_refl.
  - symmetry. apply str_eqb_neq. intro H. subst. rewrite str_eqb_refl in E. discriminate.
Qed.

Lemma str_dec : forall a b : str, {a = b} + {a <> b}.
Proof. apply list_eq_dec. apply Z.eq_dec. Qed.

(* ---------------------------------------------------------------- ordered dicts *)
Section ODFacts.
  Context {A : Type}.
  Implicit Types d : list (str * A).

  Lemma od_get_set_same : forall k v d, od_get k (od_set k v d) = Some v.
  Proof.
    intros k v d. induction d as [|[k' v'] t IH]; cbn.
    - rewrite str_eqb_refl. reflexivity.
    - destruct (str_eqb k' k) eqn:E; cbn; rewrite E; [reflexivity | exact IH].
  Qed.

  Lemma od_get_set_other : forall k v d k', k' <> k -> od_get k' (od_set k v d) = od_get k' d.
  Proof.
    intros k v d k' Hne. induction d as [|[k0 v0] t IH]; cbn.
    - rewrite (str_eqb_neq k k') by congruence. reflexivity.
    - destruct (str_eqb k0 k) eqn:E; cbn.
      + apply str_eqb_eq in E. subst k0. rewrite (str_eqb_neq k k') by congruence. reflexivity.
      + destruct (str_eqb k0 k'); [reflexivity | exact IH].
  Qed.

  Lemma od_get_set : forall k v d k', od_get k' (od_set k v d) = if str_eqb k k' then Some v else od_get k' d.
  Proof.
    intros k v d k'. destruct (str_eqb k k') eqn:E.
    - apply str_eqb_eq in E. subst. apply od_get_set_same.
    - apply od_get_set_other. intro H. subst. rewrite str_eqb_refl in E. discriminate.
  Qed.

  Lemma od_get_del_same : forall k d, od_get k (od_del k d) = None.
  Proof.
    intros k d. unfold od_del. induction d as [|[k' v'] t IH]; cbn; [reflexivity|].
    destruct (str_eqb k' k) eqn:E; cbn; [exact IH | rewrite E; exact IH].
  Qed.

  Lemma od_get_del_other : forall k d k', k' <> k -> od_get k' (od_del k d) = od_get k' d.
  Proof.
    intros k d k' Hne. unfold od_del. induction d as [|[k0 v0] t IH]; cbn; [reflexivity|].
    destruct (str_eqb k0 k) eqn:E; cbn.
    - apply str_eqb_eq in E. subst k0. rewrite (str_eqb_neq k k') by congruence. exact IH.
    - destruct (str_eqb k0 k'); [reflexivity | exact IH].
  Qed.

  Lemma od_get_del : forall k d k', od_get k' (od_del k d) = if str_eqb k k' then None else od_get k' d.
  Proof.
    intros k d k'. destruct (str_eqb k k') eqn:E.
    - apply str_eqb_eq in E. subst. apply od_get_del_same.
    - apply od_get_del_other. intro H. subst. rewrite str_eqb_refl in E. discriminate.
  Qed.
End ODFacts.

(* last match *)
Definition find_last {A} (p : A -> bool) (l : list A) : option A := find p (rev l).

Lemma find_app : forall {A} (p : A -> bool) l1 l2,
  find p (l1 ++ l2) = match find p l1 with Some x => Some x | None => find p l2 end.
Proof. intros A p l1 l2. induction l1 as [|x t IH]; cbn; [reflexivity|]. destruct (p x); [reflexivity | exact IH]. Qed.

Lemma find_last_cons : forall {A} (p : A -> bool) x l,
  find_last p (x :: l) = match find_last p l with Some y => Some y | None => if p x then Some x else None end.
Proof. intros. unfold find_last. cbn [rev]. rewrite find_app. cbn. reflexivity. Qed.

Lemma find_none_all : forall {A} (p : A -> bool) l, (forall x, In x l -> p x = false) -> find p l = None.
Proof.
  intros A p l H. induction l as [|x t IH]; cbn; [reflexivity|].
  rewrite (H x (or_introl eq_refl)). apply IH. intros y Hy. apply H. right. exact Hy.
Qed.

Lemma find_unique : forall {A} (p : A -> bool) l x,
  In x l -> p x = true -> (forall y, In y l -> p y = true -> y = x) -> find p l = Some x.
Proof.
  intros A p l x Hin Hp Hu. induction l as [|y t IH]; [contradiction|]. cbn.
  destruct (p y) eqn:E.
  - f_equal. apply Hu; [left; reflexivity | exact E].
  - destruct Hin as [->|Hin]; [congruence|]. apply IH; [exact Hin|]. intros z Hz. apply Hu. right. exact Hz.
Qed.

Lemma find_last_unique : forall {A} (p : A -> bool) l x,
  In x l -> p x = true -> (forall y, In y l -> p y = true -> y = x) -> find_last p l = Some x.
Proof.
  intros A p l x Hin Hp Hu. unfold find_last. apply find_unique; [apply in_rev in Hin; exact Hin | exact Hp|].
  intros y Hy. apply Hu. apply in_rev. exact Hy.
Qed.

Lemma find_last_none : forall {A} (p : A -> bool) l, (forall x, In x l -> p x = false) -> find_last p l = None.
Proof. intros A p l H. unfold find_last. apply find_none_all. intros x Hx. apply H. apply in_rev. exact Hx. Qed.

Lemma od_get_fold_set : forall {A B} (key : B -> str) (val : B -> A) (l : list B) d0 k,
  od_get k (fold_left (fun d x => od_set (key x) (val x) d) l d0) =
  match find_last (fun x => str_eqb (key x) k) l with Some x => Some (val x) | None => od_get k d0 end.
Proof.
  intros A B key val l. induction l as [|x t IH]; intros d0 k; cbn [fold_left]; [reflexivity|].
  rewrite IH, find_last_cons.
  destruct (find_last (fun x0 => str_eqb (key x0) k) t); [reflexivity|].
  rewrite od_get_set. destruct (str_eqb (key x) k); reflexivity.
Qed.

(* ---------------------------------------------------------------- sorting *)
Inductive sortedp : list crec -> Prop :=
| sp_nil : sortedp []
| sp_cons : forall x t, Forall (fun y => c_parent x <= c_parent y) t -> sortedp t -> sortedp (x :: t).

Lemma insert_sorted_perm : forall x l, Permutation (insert_sorted x l) (x :: l).
Proof.
  intros x l. induction l as [|y t IH]; cbn; [apply Permutation_refl|].
  destruct (key_le x y); [apply Permutation_refl|].
  eapply Permutation_trans; [apply perm_skip; exact IH | apply perm_swap].
Qed.

Lemma sort_cols_perm : forall l, Permutation (sort_cols l) l.
Proof.
  induction l as [|x t IH]; cbn; [constructor|].
  eapply Permutation_trans; [apply insert_sorted_perm | apply perm_skip; exact IH].
Qed.

Lemma sort_cols_in : forall l x, In x (sort_cols l) <-> In x l.
Proof.
  intros l x. split; intro H.
  - eapply Permutation_in; [apply sort_cols_perm | exact H].
  - eapply Permutation_in; [apply Permutation_sym; apply sort_cols_perm | exact H].
Qed.

Lemma key_le_true : forall x y, key_le x y = true -> c_parent x <= c_parent y.
Proof. intros x y H. unfold key_le in H. lia. Qed.

Lemma key_le_false : forall x y, key_le x y = false -> c_parent y <= c_parent x.
Proof. intros x y H. unfold key_le in H. lia. Qed.

Lemma insert_sorted_sorted : forall x l, sortedp l -> sortedp (insert_sorted x l).
Proof.
  intros x l Hs. induction Hs as [|y t Hall Hs IH]; cbn.
  - constructor; constructor.
  - destruct (key_le x y) eqn:E.
    + constructor; [|constructor; assumption].
      apply key_le_true in E. constructor; [exact E|].
      eapply Forall_impl; [|exact Hall]. cbn. intros a Ha. lia.
    + constructor; [|exact IH].
      apply key_le_false in E.
      assert (Hp : Forall (fun z => c_parent y <= c_parent z) (x :: t)) by (constructor; assumption).
      eapply Permutation_Forall; [apply Permutation_sym; apply insert_sorted_perm | exact Hp].
Qed.

Lemma sort_cols_sorted : forall l, sortedp (sort_cols l).
Proof. induction l as [|x t IH]; cbn; [constructor | apply insert_sorted_sorted; exact IH]. Qed.

(* ---------------------------------------------------------------- groupby + dict of groups *)
Definition nonempty_opt {A} (l : list A) : option (list A) := match l with [] => None | _ => Some l end.

Definition byparent (k : Z) (l : list crec) : list crec := filter (fun c => c_parent c =? k) l.

Lemma dict_last_none : forall k G, (forall kg, In kg G -> fst kg <> k) -> dict_last k G = None.
Proof.
  intros k G H. induction G as [|[k' v] t IH]; cbn; [reflexivity|].
  rewrite IH by (intros kg Hkg; apply H; right; exact Hkg).
  specialize (H (k', v) (or_introl eq_refl)). cbn in H.
  destruct (Z.eqb_spec k' k); [contradiction | reflexivity].
Qed.

Definition gb_head_ok (l : list crec) : Prop :=
  match groupby l, l with
  | (k0, _) :: _, x :: _ => k0 = c_parent x
  | [], [] => True
  | _, _ => False
  end.

Lemma groupby_facts : forall l, sortedp l ->
  gb_head_ok l /\
  (forall kg, In kg (groupby l) -> match l with x :: _ => c_parent x <= fst kg | [] => False end) /\
  (forall k, dict_last k (groupby l) = nonempty_opt (byparent k l)) /\
  (* keys after the first group are strictly larger than the first key *)
  (match groupby l with (k0, _) :: rest => forall kg, In kg rest -> k0 < fst kg | [] => True end).
Proof.
  intros l Hs. induction Hs as [|x t Hall Hs IH].
  - cbn. repeat split; tauto.
  - destruct IH as [Hhead [Hge [Hdict Hinc]]].
    unfold gb_head_ok in *. cbn [groupby].
    destruct (groupby t) as [|[k0 g0] rest] eqn:EG.
    + (* t = [] *)
      destruct t as [|y t']; [|contradiction].
      cbn. repeat split; try tauto; try (intros kg [<-|[]]; cbn; lia); try (intros kg []);
        try (intro k; unfold byparent; cbn; destruct (Z.eqb_spec (c_parent x) k); reflexivity).
    + destruct t as [|y t']; [contradiction|]. subst k0.
      assert (Hxy : c_parent x <= c_parent y) by (inversion Hall; assumption).
      destruct (Z.eqb_spec (c_parent y) (c_parent x)) as [Heq|Hne].
      * (* same group *)
        cbv iota. repeat split.
        -- cbn. exact Heq.
        -- intros kg [<-|Hin]; cbn; [lia|]. specialize (Hge kg (or_intror Hin)). cbn in Hge. lia.
        -- intro k. cbn [dict_last]. specialize (Hdict k). cbn [dict_last] in Hdict.
           unfold byparent in *.
           set (F := filter (fun c => c_parent c =? k) (y :: t')) in *.
           assert (HF : filter (fun c => c_parent c =? k) (x :: y :: t') = if c_parent x =? k then x :: F else F)
             by reflexivity.
           rewrite HF. clear HF. rewrite <- Heq.
           destruct (dict_last k rest) as [z|] eqn:ER.
           ++ destruct (Z.eqb_spec (c_parent y) k) as [Hk|Hk].
              ** exfalso. rewrite dict_last_none in ER; [discriminate|].
                 intros kg Hkg. specialize (Hinc kg Hkg). lia.
              ** exact Hdict.
           ++ destruct (Z.eqb_spec (c_parent y) k) as [Hk|Hk].
              ** destruct F as [|f F']; cbn in Hdict; [discriminate|]. inversion Hdict. reflexivity.
              ** exact Hdict.
        -- exact Hinc.
      * (* a new group in front *)
        assert (Hlt : c_parent x < c_parent y) by lia.
        cbv iota. repeat split.
        -- intros kg [<-|Hin]; cbn; [lia|]. specialize (Hge kg Hin). cbn in Hge. lia.
        -- intro k. pose proof (Hdict k) as Hd. cbn [dict_last] in Hd |- *. rewrite Hd. clear Hd. unfold byparent.
           set (F := filter (fun c => c_parent c =? k) (y :: t')).
           assert (HF : filter (fun c => c_parent c =? k) (x :: y :: t') = if c_parent x =? k then x :: F else F)
             by reflexivity.
           rewrite HF. clear HF.
           destruct (Z.eqb_spec (c_parent x) k) as [Hk|Hk].
           ++ assert (Hnone : F = []).
              { subst F. clear - Hs Hlt Hk. subst k.
                inversion Hs as [|y0 t0 Hall' Hs']; subst.
                cbn. destruct (Z.eqb_spec (c_parent y) (c_parent x)); [lia|].
                clear Hs Hs'. induction t' as [|z t'' IHt]; [reflexivity|]. cbn.
                inversion Hall' as [|z0 t0 Hz Hrest]; subst.
                destruct (Z.eqb_spec (c_parent z) (c_parent x)); [lia|].
                apply IHt. exact Hrest. }
              rewrite Hnone. reflexivity.
           ++ destruct (nonempty_opt F); reflexivity.
        -- intros kg Hin. specialize (Hge kg Hin). cbn in Hge. lia.
Qed.

Lemma dict_last_sorted : forall l k, dict_last k (groupby (sort_cols l)) = nonempty_opt (byparent k (sort_cols l)).
Proof. intros l k. apply (groupby_facts (sort_cols l) (sort_cols_sorted l)). Qed.

(* ---------------------------------------------------------------- the reverseCol -> reverseColId lookup *)
Lemma refmap_get_is_find_last : forall r l,
  refmap_get r l = option_map c_colId (find_last (fun x => c_id x =? r) l).
Proof.
  intros r l. induction l as [|x t IH]; [reflexivity|]. cbn [refmap_get]. rewrite find_last_cons, IH.
  destruct (find_last (fun x0 => c_id x0 =? r) t); cbn; [reflexivity|]. destruct (c_id x =? r); reflexivity.
Qed.

Lemma nodup_ids_unique : forall cs x y, NoDup (map c_id cs) -> In x cs -> In y cs -> c_id x = c_id y -> x = y.
Proof.
  induction cs as [|z t IH]; intros x y Hnd Hx Hy Heq; [contradiction|].
  cbn in Hnd. inversion Hnd as [|z0 t0 Hnin Hnd']; subst.
  destruct Hx as [->|Hx], Hy as [->|Hy]; try reflexivity.
  - exfalso. apply Hnin. rewrite Heq. apply in_map. exact Hy.
  - exfalso. apply Hnin. rewrite <- Heq. apply in_map. exact Hx.
  - apply IH; assumption.
Qed.

Lemma find_col_some : forall k cs x, NoDup (map c_id cs) -> In x cs -> c_id x = k -> find_col k cs = Some x.
Proof.
  intros k cs x Hnd Hin Hk. unfold find_col. apply find_unique; [exact Hin | apply Z.eqb_eq; exact Hk|].
  intros y Hy Hp. apply Z.eqb_eq in Hp. apply (nodup_ids_unique cs); try assumption. congruence.
Qed.

Lemma find_col_in : forall k cs x, find_col k cs = Some x -> In x cs /\ c_id x = k.
Proof. intros k cs x H. unfold find_col in H. apply find_some in H. destruct H as [H1 H2]. apply Z.eqb_eq in H2. tauto. Qed.

Lemma find_col_none : forall k cs, find_col k cs = None -> forall x, In x cs -> c_id x <> k.
Proof.
  intros k cs H x Hin Heq. unfold find_col in H. eapply find_none in H; [|exact Hin]. cbn in H.
  apply Z.eqb_neq in H. contradiction.
Qed.

Lemma refmap_sorted : forall cs r, NoDup (map c_id cs) ->
  refmap_get r (sort_cols cs) = option_map c_colId (find_col r cs).
Proof.
  intros cs r Hnd. rewrite refmap_get_is_find_last.
  destruct (find_col r cs) as [x|] eqn:E.
  - apply find_col_in in E. destruct E as [Hin Hid].
    rewrite (find_last_unique _ _ x); [reflexivity | apply sort_cols_in; exact Hin | apply Z.eqb_eq; exact Hid|].
    intros y Hy Hp. apply (proj1 (sort_cols_in _ _)) in Hy. apply Z.eqb_eq in Hp. apply (nodup_ids_unique cs); try assumption. congruence.
  - rewrite find_last_none; [reflexivity|]. intros x Hx. apply (proj1 (sort_cols_in _ _)) in Hx.
    apply Z.eqb_neq. apply (find_col_none r cs E x Hx).
Qed.
