(* K2: consequences for the engine's own strategy (any priority order of the work items), for programs
   written in the formula grammar, and the counterexample for formulas that handle exceptions. *)
From Coq Require Import ZArith List Bool Lia Arith Permutation.
Import ListNotations.
Require Import Grist.Model.Sched Grist.Proofs.Sched_proofs Grist.Proofs.Sched_conf_proofs.
Open Scope Z_scope.

Lemma first_dirty_none order s : dirty s = [] -> first_dirty order s = None.
Proof.
  intros H. unfold first_dirty. rewrite H. induction order as [|x o IH]; [reflexivity|].
  cbn [find]. exact IH.
Qed.

Lemma engine_strategy_final P order s : final s -> engine_strategy P order s = None.
Proof. intros [Hd Hs]. unfold engine_strategy. rewrite Hs, (first_dirty_none _ _ Hd). reflexivity. Qed.

Lemma run_stop_none P strat n s : strat s = None -> run P strat n s = s.
Proof. intros H. destruct n; cbn [run]; [reflexivity | rewrite H; reflexivity]. Qed.

Lemma run_stop_disabled P strat n s l : strat s = Some l -> exec P l s = None -> run P strat n s = s.
Proof. intros H1 H2. destruct n; cbn [run]; [reflexivity | rewrite H1, H2; reflexivity]. Qed.

Lemma run_add P strat n : forall m s, run P strat (n + m) s = run P strat m (run P strat n s).
Proof.
  induction n as [|n IH]; intros m s; [reflexivity|].
  cbn [Nat.add run]. destruct (strat s) as [l|] eqn:E1.
  - destruct (exec P l s) as [s1|] eqn:E2; [apply IH|].
    symmetry. eapply run_stop_disabled; eassumption.
  - symmetry. apply run_stop_none. exact E1.
Qed.

Lemma run_final_stable P order n m s :
  final (run P (engine_strategy P order) n s) -> (n <= m)%nat ->
  run P (engine_strategy P order) m s = run P (engine_strategy P order) n s.
Proof.
  intros F Hle. replace m with (n + (m - n))%nat by lia. rewrite run_add.
  apply run_stop_none. apply engine_strategy_final. exact F.
Qed.

Section Orders.
  Variable P : prog.
  Variable s : state.
  Variables o1 o2 : list cell.
  Hypothesis Hw : wf_init P s.
  Hypothesis Ho1 : forall c, In c (dirty s) -> In c o1.
  Hypothesis Ho2 : forall c, In c (dirty s) -> In c o2.

  Lemma two_orders_complete :
    exists n, forall m1 m2, (n <= m1)%nat -> (n <= m2)%nat ->
      complete_run P s (run P (engine_strategy P o1) m1 s) /\
      complete_run P s (run P (engine_strategy P o2) m2 s).
  Proof.
    destruct Hw as [_ [_ [Hf _]]].
    destruct (engine_run_completes P o1 s Hf Ho1) as [n1 F1].
    destruct (engine_run_completes P o2 s Hf Ho2) as [n2 F2].
    exists (Nat.max n1 n2). intros m1 m2 H1 H2.
    rewrite (run_final_stable P o1 n1 m1 s F1) by lia.
    rewrite (run_final_stable P o2 n2 m2 s F2) by lia.
    split; (split; [apply run_steps | assumption]).
  Qed.

  Theorem engine_order_irrelevant_cre :
    cre_strict_prog P ->
    exists n, forall m1 m2, (n <= m1)%nat -> (n <= m2)%nat ->
      final (run P (engine_strategy P o1) m1 s) /\ final (run P (engine_strategy P o2) m2 s) /\
      forall c, val (run P (engine_strategy P o1) m1 s) c = val (run P (engine_strategy P o2) m2 s) c.
  Proof.
    intros Hs. destruct two_orders_complete as [n Hn]. exists n. intros m1 m2 H1 H2.
    destruct (Hn m1 m2 H1 H2) as [C1 C2]. split; [apply C1|]. split; [apply C2|].
    eapply sched_confluent_cre; eassumption.
  Qed.

  Theorem engine_order_irrelevant_strict :
    strict_prog P ->
    exists n, forall m1 m2, (n <= m1)%nat -> (n <= m2)%nat ->
      final (run P (engine_strategy P o1) m1 s) /\ final (run P (engine_strategy P o2) m2 s) /\
      forall c, val (run P (engine_strategy P o1) m1 s) c = val (run P (engine_strategy P o2) m2 s) c.
  Proof.
    intros Hs. destruct two_orders_complete as [n Hn]. exists n. intros m1 m2 H1 H2.
    destruct (Hn m1 m2 H1 H2) as [C1 C2]. split; [apply C1|]. split; [apply C2|].
    eapply sched_confluent_strict; eassumption.
  Qed.

  Theorem engine_order_irrelevant_acyclic r :
    acyclic P r ->
    exists n, forall m1 m2, (n <= m1)%nat -> (n <= m2)%nat ->
      final (run P (engine_strategy P o1) m1 s) /\ final (run P (engine_strategy P o2) m2 s) /\
      forall c, val (run P (engine_strategy P o1) m1 s) c = val (run P (engine_strategy P o2) m2 s) c.
  Proof.
    intros Ha. destruct two_orders_complete as [n Hn]. exists n. intros m1 m2 H1 H2.
    destruct (Hn m1 m2 H1 H2) as [C1 C2]. split; [apply C1|]. split; [apply C2|].
    eapply sched_confluent_acyclic; eassumption.
  Qed.
End Orders.

(* formulas of the grammar without try/except are strict *)
Lemma read_index_strict idx rows : forall key acc k,
  (forall ms, strict (k ms)) -> strict (read_index idx rows key acc k Raise).
Proof.
  induction rows as [|r t IH]; intros key acc k Hk; cbn [read_index]; [apply Hk|].
  constructor; [reflexivity|]. intros z. apply IH. exact Hk.
Qed.

Lemma read_sum_strict col rs : forall acc k, (forall z, strict (k z)) -> strict (read_sum col rs acc k Raise).
Proof.
  induction rs as [|r t IH]; intros acc k Hk; cbn [read_sum]; [apply Hk|].
  constructor; [reflexivity|]. intros z. apply IH. exact Hk.
Qed.

Lemma compile_strict rows e : forall row k,
  no_try e = true -> (forall z, strict (k z)) -> strict (compile rows e row k Raise).
Proof.
  induction e as [z|col|rc col|a IHa b IHb|c IHc a IHa b IHb| |a IHa z|a IHa z|idx key IHk|idx key IHk|idx key IHk col|ks a IHa b IHb|sets col|idx key IHk col];
    intros row k Hn Hk; cbn [compile no_try] in *.
  - apply Hk.
  - constructor; [reflexivity | exact Hk].
  - constructor; [reflexivity|]. intros r. constructor; [reflexivity | exact Hk].
  - apply andb_true_iff in Hn. destruct Hn as [Ha Hb].
    apply IHa; [exact Ha|]. intros x. apply IHb; [exact Hb|]. intros y. apply Hk.
  - apply andb_true_iff in Hn. destruct Hn as [Hn Hb]. apply andb_true_iff in Hn. destruct Hn as [Hc Ha].
    apply IHc; [exact Hc|]. intros x. destruct (x >? 0); [apply IHa | apply IHb]; assumption.
  - constructor.
  - discriminate.
  - discriminate.
  - apply IHk; [exact Hn|]. intros kv. apply read_index_strict. intros ms. apply Hk.
  - apply IHk; [exact Hn|]. intros kv. apply read_index_strict. intros ms. apply Hk.
  - apply IHk; [exact Hn|]. intros kv. apply read_index_strict. intros ms. apply read_sum_strict. exact Hk.
  - apply andb_true_iff in Hn. destruct Hn as [Ha Hb]. destruct (existsb (Z.eqb row) ks); [apply IHa | apply IHb]; assumption.
  - discriminate.
  - discriminate.
Qed.

(* grammar formulas whose only handlers are "except: re-raise CircularRefError, else a constant" *)
Lemma read_index_cre idx rows : forall key acc k h,
  (forall ms, cre_strict (k ms)) -> h CircularRef = Raise CircularRef -> (forall x, cre_strict (h x)) ->
  cre_strict (read_index idx rows key acc k h).
Proof.
  induction rows as [|r t IH]; intros key acc k h Hk Hc Hh; cbn [read_index]; [apply Hk|].
  constructor; [exact Hc|]. intros [z|x]; [apply IH; assumption | apply Hh].
Qed.

Lemma read_sum_cre col rs : forall acc k h,
  (forall z, cre_strict (k z)) -> h CircularRef = Raise CircularRef -> (forall x, cre_strict (h x)) ->
  cre_strict (read_sum col rs acc k h).
Proof.
  induction rs as [|r t IH]; intros acc k h Hk Hc Hh; cbn [read_sum]; [apply Hk|].
  constructor; [exact Hc|]. intros [z|x]; [apply IH; assumption | apply Hh].
Qed.

Lemma compile_cre_strict rows e : forall row k h,
  no_cre_catch e = true -> (forall z, cre_strict (k z)) ->
  h CircularRef = Raise CircularRef -> (forall x, cre_strict (h x)) ->
  cre_strict (compile rows e row k h).
Proof.
  induction e as [z|col|rc col|a IHa b IHb|c IHc a IHa b IHb| |a IHa z|a IHa z|idx key IHk|idx key IHk|idx key IHk col|ks a IHa b IHb|sets col|idx key IHk col];
    intros row k h Hn Hk Hc Hh; cbn [compile no_cre_catch] in *.
  - apply Hk.
  - constructor; [exact Hc|]. intros [z|x]; [apply Hk | apply Hh].
  - constructor; [exact Hc|]. intros [r|x]; [|apply Hh].
    constructor; [exact Hc|]. intros [z|x]; [apply Hk | apply Hh].
  - apply andb_true_iff in Hn. destruct Hn as [Ha Hb].
    apply IHa; [exact Ha| |exact Hc|exact Hh]. intros x. apply IHb; [exact Hb| |exact Hc|exact Hh].
    intros y. apply Hk.
  - apply andb_true_iff in Hn. destruct Hn as [Hn Hb]. apply andb_true_iff in Hn. destruct Hn as [Hcc Ha].
    apply IHc; [exact Hcc| |exact Hc|exact Hh]. intros x. destruct (x >? 0); [apply IHa | apply IHb]; assumption.
  - apply Hh.
  - discriminate.
  - apply IHa; [exact Hn|exact Hk|exact Hc|]. intros [|x]; [apply Hh | apply Hk].
  - apply IHk; [exact Hn| |exact Hc|exact Hh]. intros kv. apply read_index_cre; [|exact Hc|exact Hh]. intros ms. apply Hk.
  - apply IHk; [exact Hn| |exact Hc|exact Hh]. intros kv. apply read_index_cre; [|exact Hc|exact Hh]. intros ms. apply Hk.
  - apply IHk; [exact Hn| |exact Hc|exact Hh]. intros kv. apply read_index_cre; [|exact Hc|exact Hh].
    intros ms. apply read_sum_cre; assumption.
  - apply andb_true_iff in Hn. destruct Hn as [Ha Hb].
    destruct (existsb (Z.eqb row) ks); [apply IHa | apply IHb]; assumption.
  - discriminate.
  - discriminate.
Qed.

Lemma prog_of_cre_strict cols rows :
  forallb (fun ce => no_cre_catch (snd ce)) cols = true -> cre_strict_prog (prog_of cols rows).
Proof.
  intros H c t Hc. unfold prog_of in Hc.
  destruct (existsb (Z.eqb (snd c)) rows); [|discriminate].
  destruct (lookup_col cols (fst c)) as [e|] eqn:El; [|discriminate]. inversion Hc; subst. clear Hc.
  unfold formula_tree. apply compile_cre_strict; [|intros; constructor|reflexivity|intros; constructor].
  induction cols as [|[m e'] cols IH]; cbn [lookup_col] in El; [discriminate|].
  cbn [forallb snd] in H. apply andb_true_iff in H. destruct H as [H1 H2].
  destruct (fst c =? m); [inversion El; subst; exact H1 | apply IH; assumption].
Qed.

Lemma prog_of_strict cols rows :
  forallb (fun ce => no_try (snd ce)) cols = true -> strict_prog (prog_of cols rows).
Proof.
  intros H c t Hc. unfold prog_of in Hc.
  destruct (existsb (Z.eqb (snd c)) rows); [|discriminate].
  destruct (lookup_col cols (fst c)) as [e|] eqn:El; [|discriminate]. inversion Hc; subst. clear Hc.
  unfold formula_tree. apply compile_strict; [|intros z; constructor].
  induction cols as [|[m e'] cols IH]; cbn [lookup_col] in El; [discriminate|].
  cbn [forallb snd] in H. apply andb_true_iff in H. destruct H as [H1 H2].
  destruct (fst c =? m); [inversion El; subst; exact H1 | apply IH; assumption].
Qed.

(* a document recalculated from scratch is a consistent starting point *)
Lemma lookup_col_In cols n e : lookup_col cols n = Some e -> In (n, e) cols.
Proof.
  induction cols as [|[m e'] cols IH]; cbn [lookup_col]; [discriminate|].
  destruct (n =? m) eqn:E; [apply Z.eqb_eq in E; intros H; inversion H; subst; left; reflexivity|].
  intros H. right. apply IH. exact H.
Qed.

Lemma lookup_col_some cols n e : In (n, e) cols -> lookup_col cols n <> None.
Proof.
  induction cols as [|[m e'] cols IH]; cbn [lookup_col]; [intros []|].
  intros [H|H]; [inversion H; subst; rewrite Z.eqb_refl; discriminate|].
  destruct (n =? m); [discriminate | apply IH; exact H].
Qed.

Lemma formula_cells_iff cols rows c :
  In c (formula_cells cols rows) <-> prog_of cols rows c <> None.
Proof.
  unfold formula_cells, prog_of. rewrite in_flat_map. split.
  - intros [[m e] [Hc Hr]]. apply in_map_iff in Hr. destruct Hr as [r [<- Hr]]. cbn [fst snd].
    assert (E : existsb (Z.eqb r) rows = true).
    { apply existsb_exists. exists r. split; [exact Hr | apply Z.eqb_refl]. }
    rewrite E. pose proof (lookup_col_some _ _ _ Hc) as Hl.
    destruct (lookup_col cols m); [discriminate | congruence].
  - intros H. destruct (existsb (Z.eqb (snd c)) rows) eqn:E; [|congruence].
    apply existsb_exists in E. destruct E as [r [Hr Er]]. apply Z.eqb_eq in Er. subst r.
    destruct (lookup_col cols (fst c)) as [e|] eqn:El; [|congruence].
    exists (fst c, e). split; [apply lookup_col_In; exact El|].
    apply in_map_iff. exists (snd c). split; [destruct c; reflexivity | exact Hr].
Qed.

Lemma wf_init_doc cols rows vals :
  wf_init (prog_of cols rows) (init_state (val_of vals) (formula_cells cols rows)).
Proof. apply wf_init_scratch; intros c; apply formula_cells_iff. Qed.

Lemma read_index_below lv b idx rows : forall key acc k h,
  (lv idx < b)%nat -> (forall ms, reads_below (fun c => lv (fst c)) b (k ms)) ->
  (forall x, reads_below (fun c => lv (fst c)) b (h x)) ->
  reads_below (fun c => lv (fst c)) b (read_index idx rows key acc k h).
Proof.
  induction rows as [|r t IH]; intros key acc k h Hl Hk Hh; cbn [read_index]; [apply Hk|].
  constructor; [exact Hl|]. intros [z|x]; [apply IH; assumption | apply Hh].
Qed.

Lemma read_sum_below lv b col rs : forall acc k h,
  (lv col < b)%nat -> (forall z, reads_below (fun c => lv (fst c)) b (k z)) ->
  (forall x, reads_below (fun c => lv (fst c)) b (h x)) ->
  reads_below (fun c => lv (fst c)) b (read_sum col rs acc k h).
Proof.
  induction rs as [|r t IH]; intros acc k h Hl Hk Hh; cbn [read_sum]; [apply Hk|].
  constructor; [exact Hl|]. intros [z|x]; [apply IH; assumption | apply Hh].
Qed.

Lemma require_rows_below lv b col rs k :
  (lv col < b)%nat -> reads_below (fun c => lv (fst c)) b k ->
  reads_below (fun c => lv (fst c)) b (require_rows col rs k).
Proof.
  intros Hl Hk. induction rs as [|r t IH]; cbn [require_rows]; [exact Hk|].
  constructor; [exact Hl|]. intros _. exact IH.
Qed.

Lemma compile_reads_below lv b rows e : forall row k h,
  below_level lv b e = true ->
  (forall z, reads_below (fun c => lv (fst c)) b (k z)) ->
  (forall x, reads_below (fun c => lv (fst c)) b (h x)) ->
  reads_below (fun c => lv (fst c)) b (compile rows e row k h).
Proof.
  induction e as [z|col|rc col|a IHa b' IHb|c IHc a IHa b' IHb| |a IHa z|a IHa z|idx key IHk|idx key IHk|idx key IHk col|ks a IHa b' IHb|sets col|idx key IHk col];
    intros row k h Hl Hk Hh; cbn [compile below_level] in *.
  - apply Hk.
  - constructor; [cbn [fst]; apply Nat.ltb_lt; exact Hl|]. intros [z|x]; [apply Hk | apply Hh].
  - apply andb_true_iff in Hl. destruct Hl as [H1 H2].
    constructor; [cbn [fst]; apply Nat.ltb_lt; exact H1|]. intros [r|x]; [|apply Hh].
    constructor; [cbn [fst]; apply Nat.ltb_lt; exact H2|]. intros [z|x]; [apply Hk | apply Hh].
  - apply andb_true_iff in Hl. destruct Hl as [H1 H2].
    apply IHa; [exact H1| |exact Hh]. intros x. apply IHb; [exact H2| |exact Hh]. intros y. apply Hk.
  - apply andb_true_iff in Hl. destruct Hl as [Hl H3]. apply andb_true_iff in Hl. destruct Hl as [H1 H2].
    apply IHc; [exact H1| |exact Hh]. intros x. destruct (x >? 0); [apply IHa | apply IHb]; assumption.
  - apply Hh.
  - apply IHa; [exact Hl | exact Hk | intros x; apply Hk].
  - apply IHa; [exact Hl | exact Hk | intros [|x]; [apply Hh | apply Hk]].
  - apply andb_true_iff in Hl. destruct Hl as [H1 H2]. apply Nat.ltb_lt in H1.
    apply IHk; [exact H2| |exact Hh]. intros kv. apply read_index_below; [exact H1| |exact Hh]. intros ms. apply Hk.
  - apply andb_true_iff in Hl. destruct Hl as [H1 H2]. apply Nat.ltb_lt in H1.
    apply IHk; [exact H2| |exact Hh]. intros kv. apply read_index_below; [exact H1| |exact Hh]. intros ms. apply Hk.
  - apply andb_true_iff in Hl. destruct Hl as [Hl H3]. apply andb_true_iff in Hl. destruct Hl as [H1 H2].
    apply Nat.ltb_lt in H1. apply Nat.ltb_lt in H2.
    apply IHk; [exact H3| |exact Hh]. intros kv. apply read_index_below; [exact H1| |exact Hh].
    intros ms. apply read_sum_below; assumption.
  - apply andb_true_iff in Hl. destruct Hl as [H1 H2].
    destruct (existsb (Z.eqb row) ks); [apply IHa | apply IHb]; assumption.
  - apply Nat.ltb_lt in Hl. apply require_rows_below; [exact Hl|]. apply read_sum_below; assumption.
  - apply andb_true_iff in Hl. destruct Hl as [Hl H3]. apply andb_true_iff in Hl. destruct Hl as [H1 H2].
    apply Nat.ltb_lt in H1. apply Nat.ltb_lt in H2.
    apply IHk; [exact H3| |exact Hh]. intros kv. apply read_index_below; [exact H1| |exact Hh].
    intros ms. apply require_rows_below; [exact H2|]. apply read_sum_below; assumption.
Qed.

Lemma levelled_acyclic lv cols rows :
  levelled lv cols = true -> acyclic (prog_of cols rows) (fun c => lv (fst c)).
Proof.
  intros H c t Hc. unfold prog_of in Hc.
  destruct (existsb (Z.eqb (snd c)) rows); [|discriminate].
  destruct (lookup_col cols (fst c)) as [e|] eqn:El; [|discriminate]. inversion Hc; subst. clear Hc.
  unfold formula_tree. apply compile_reads_below; [|intros; constructor|intros; constructor].
  unfold levelled in H. rewrite forallb_forall in H.
  apply lookup_col_In in El. apply (H _ El).
Qed.

(* ---------------------------------------------------------------------------------------- *)
(* A formula that handles exceptions, on a cycle: the result depends on the schedule.
     A = try: return $B / except Exception: return 7        B = $A        one row
   Starting with A: A needs B, B needs A, A is locked -> A = CircularRefError, B = CircularRefError.
   Starting with B: B needs A, A needs B, B is locked -> B = CircularRefError, A catches it -> A = 7. *)
Definition handler_cols : list (Z * expr) := [(10, ETry (ECol 11) 7); (11, ECol 10)].
Definition handler_rows : list Z := [1].
Definition handler_prog : prog := prog_of handler_cols handler_rows.
Definition handler_init : state := init_state (val_of []) (formula_cells handler_cols handler_rows).
Definition handler_run (order : list cell) : state := run handler_prog (engine_strategy handler_prog order) 20 handler_init.

Lemma handler_order_dependent :
  wf_init handler_prog handler_init /\
  complete_run handler_prog handler_init (handler_run [(10, 1); (11, 1)]) /\
  complete_run handler_prog handler_init (handler_run [(11, 1); (10, 1)]) /\
  val (handler_run [(10, 1); (11, 1)]) (10, 1) = VErr CircularRef /\
  val (handler_run [(11, 1); (10, 1)]) (10, 1) = VInt 7.
Proof.
  split; [apply wf_init_doc|].
  split; [split; [apply run_steps | apply is_final_final; vm_compute; reflexivity]|].
  split; [split; [apply run_steps | apply is_final_final; vm_compute; reflexivity]|].
  split; vm_compute; reflexivity.
Qed.

(* ---------------------------------------------------------------------------------------- *)
(* The class "handlers never catch CircularRefError" is exact handler by handler: ANY continuation that
   turns a CircularRefError it reads into an ordinary result is order-dependent in some document, namely
   a = <that formula reading b>, b = $a. *)
Section Gap.
  Variable k : value -> itree.
  Variable z : Z.
  Hypothesis Hk : k (VErr CircularRef) = Ret z.

  Definition ga : cell := (10, 1).
  Definition gb : cell := (11, 1).
  Definition pass_on (v : value) : itree := match v with VInt x => Ret x | VErr e => Raise e end.
  Definition gap_prog : prog :=
    fun c => if cell_eqb c ga then Some (Read gb k) else if cell_eqb c gb then Some (Read ga pass_on) else None.
  Definition gap_init : state := init_state (fun _ => VInt 0) [ga; gb].

  Lemma gap_wf : wf_init gap_prog gap_init.
  Proof.
    apply wf_init_scratch.
    - intros c [<-|[<-|[]]]; vm_compute; discriminate.
    - intros c Hc. unfold gap_prog in Hc.
      destruct (cell_eqb c ga) eqn:Ea; [apply cell_eqb_eq in Ea; left; congruence|].
      destruct (cell_eqb c gb) eqn:Eb; [apply cell_eqb_eq in Eb; right; left; congruence|]. congruence.
  Qed.

  Lemma gap_run_a_first : exists r,
    replay gap_prog [LPick ga; LNeed ga gb; LNeed gb ga; LCycle ga; LPop; LDone gb; LPop; LPop] gap_init = Some r /\
    final r /\ val r ga = VErr CircularRef.
  Proof.
    eexists. split; [vm_compute; reflexivity|]. split; [split; reflexivity | vm_compute; reflexivity].
  Qed.

  Lemma gap_run_b_first : exists r,
    replay gap_prog [LPick gb; LNeed gb ga; LNeed ga gb; LCycle gb; LPop; LDone ga; LPop; LPop] gap_init = Some r /\
    final r /\ val r ga = VInt z.
  Proof.
    eexists. split.
    - cbn. rewrite Hk. cbn. reflexivity.
    - split; [split; reflexivity | cbn; reflexivity].
  Qed.

  Theorem handler_gap : exists r1 r2,
    wf_init gap_prog gap_init /\ complete_run gap_prog gap_init r1 /\ complete_run gap_prog gap_init r2 /\
    val r1 ga = VErr CircularRef /\ val r2 ga = VInt z.
  Proof.
    destruct gap_run_a_first as [r1 [R1 [F1 V1]]]. destruct gap_run_b_first as [r2 [R2 [F2 V2]]].
    exists r1, r2. split; [exact gap_wf|].
    split; [split; [eapply replay_steps; exact R1 | exact F1]|].
    split; [split; [eapply replay_steps; exact R2 | exact F2]|]. split; assumption.
  Qed.
End Gap.

(* ---------------------------------------------------------------------------------------- *)
(* The engine's row loop sometimes skips a row ([engine_strategy] does not): irrelevant for the result.
   ANY strategy whose run reaches a final state ends in the values of the modelled engine strategy. *)
Theorem any_strategy_same_result P s order strat n :
  cre_strict_prog P -> wf_init P s -> (forall c, In c (dirty s) -> In c order) ->
  final (run P strat n s) ->
  exists m, final (run P (engine_strategy P order) m s) /\
            forall c, val (run P strat n s) c = val (run P (engine_strategy P order) m s) c.
Proof.
  intros Hs Hw Ho F. destruct Hw as [Hst [Hl [Hf Hc]]].
  destruct (engine_run_completes P order s Hf Ho) as [m Fm]. exists m. split; [exact Fm|].
  eapply sched_confluent_cre; [exact Hs | repeat split; eassumption | split; [apply run_steps | exact F]
                              | split; [apply run_steps | exact Fm]].
Qed.

(* ... and so does every label sequence the model accepts (a recorded engine trace that [check_trace] accepts) *)
Theorem any_replay_same_result P s order ls r :
  cre_strict_prog P -> wf_init P s -> (forall c, In c (dirty s) -> In c order) ->
  replay P ls s = Some r -> final r ->
  exists m, final (run P (engine_strategy P order) m s) /\
            forall c, val r c = val (run P (engine_strategy P order) m s) c.
Proof.
  intros Hs Hw Ho R F. destruct Hw as [Hst [Hl [Hf Hc]]].
  destruct (engine_run_completes P order s Hf Ho) as [m Fm]. exists m. split; [exact Fm|].
  eapply sched_confluent_cre; [exact Hs | repeat split; eassumption | split; [eapply replay_steps; exact R | exact F]
                              | split; [apply run_steps | exact Fm]].
Qed.
