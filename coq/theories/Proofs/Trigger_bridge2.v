(* K3 bridge, part 2: the code-level mechanism (generated functions + run_eff) fires exactly the rows the hand
   model fires; the trigger edges the generated _maybe_update_trigger_dependencies builds are the model's. *)
From Coq Require Import ZArith List Bool Lia.
Import ListNotations.
Require Import Grist.Lib.TrigEff GristGen.Trigger_gen Grist.Model.Trigger Grist.Proofs.Trigger_proofs
               Grist.Proofs.Trigger_bridge.
Open Scope Z_scope.
Arguments memz : simpl never.

(* ---------------------------------------------------------------- user-level update, with the generated trim *)
Lemma keys_columnar : forall c recs, keys (snd (columnar c recs)) = c.
Proof. intros. unfold columnar, keys. cbn [snd]. rewrite map_map. cbn [fst]. apply map_id. Qed.

Theorem bridge_doBulkUpdateRecord : forall g cols t m cols0 recs, cols_ok g cols -> fx_trim (fx g) = false ->
  (forall c, In c cols0 -> In c (map ci_id cols)) ->
  meq (run_effs g m (gen_doBulkUpdateRecord cols (fun col r => cell t r col) (fun l => l) (fun a => a)
                                            (ids recs) (snd (columnar cols0 recs))))
      (mech_user g t m (UUpd cols0 recs)).
Proof.
  intros g cols t m cols0 recs Hok Hfx Hc. rewrite upd_nf. cbv zeta.
  change (ids recs, snd (columnar cols0 recs)) with (columnar cols0 recs).
  destruct (bridge_trim_update_action t cols0 recs) as [Hr Hk].
  apply bridge_doBulkUpdateRecord_trimmed; assumption.
Qed.

(* ---------------------------------------------------------------- the model respects pointwise equality *)
Lemma existsb_reach_ext : forall g a b l, meq a b -> existsb (reach g a) l = existsb (reach g b) l.
Proof. intros g a b l H. apply existsb_ext'. intros c. apply reach_ext. exact H. Qed.

Lemma mech_doc_ext : forall g a b d, meq a b -> meq (mech_doc g a d) (mech_doc g b d).
Proof.
  intros g a b d H. pose proof (fun l => existsb_reach_ext g a b l H) as HR. destruct H as [A [B [C D]]].
  destruct d; cbn [mech_doc]; repeat split; cbn [dirty prevent stale fstale]; intros; unfold set_or, schema_fstale;
    rewrite ?A, ?B, ?C, ?D, ?HR; reflexivity.
Qed.

Lemma mech_docs_ext : forall g ds a b, meq a b -> meq (fold_left (mech_doc g) ds a) (fold_left (mech_doc g) ds b).
Proof.
  intros g ds. induction ds as [|d ds IH]; intros a b H; [exact H|]. cbn [fold_left]. apply IH. apply mech_doc_ext. exact H.
Qed.

Lemma mech_user_ext : forall g t a b x, meq a b -> meq (mech_user g t a x) (mech_user g t b x).
Proof.
  intros g t a b x H. destruct x as [cols recs|cols recs|ds]; cbn [mech_user].
  - destruct (mech_doc_ext g a b (DAdd cols recs) H) as [A [B [C D]]].
    repeat split; cbn [dirty prevent stale fstale]; intros; unfold set_or; rewrite ?A, ?B, ?C, ?D; reflexivity.
  - destruct (mech_doc_ext g a b (DUpd (trim_cols t cols recs) (trim_recs t (trim_cols t cols recs) recs)) H) as [A [B [C D]]].
    repeat split; cbn [dirty prevent stale fstale]; intros; unfold set_or; rewrite ?A, ?B, ?C, ?D; reflexivity.
  - apply mech_docs_ext. exact H.
Qed.

Lemma clear_prevent_ext : forall g a b, meq a b -> meq (clear_prevent g a) (clear_prevent g b).
Proof.
  intros g a b [A [B [C D]]]. repeat split; cbn [clear_prevent dirty prevent stale fstale]; intros;
    rewrite ?A, ?B, ?C, ?D; reflexivity.
Qed.

Lemma fired_of_ext : forall t a b, meq a b -> fired_of t a = fired_of t b.
Proof. intros t a b [A [B _]]. unfold fired_of. apply filter_ext. intros r. rewrite A, B. reflexivity. Qed.

(* ---------------------------------------------------------------- the code-level mechanism *)
(* every record action goes through the generated functions; schema actions keep the hand model (what a rename or
   a type change does to the dependency graph is not in the translated code) *)
Definition cmech_doc (g : cfg) (cols : list colinfo) (m : mech) (d : daction) : mech :=
  match d with
  | DAdd c recs => run_effs g m (gen_doc_BulkAddRecord cols (ids recs) (snd (columnar c recs)))
  | DUpd c recs => run_effs g m (gen_doc_BulkUpdateRecord cols (ids recs) (snd (columnar c recs)))
  | DRem rs => run_effs g m (gen_doc_BulkRemoveRecord cols (fun l => l) rs)
  | DRename _ | DModify _ => mech_doc g m d
  end.

Definition cmech_user (g : cfg) (cols : list colinfo) (t : tbl) (m : mech) (a : uaction) : mech :=
  match a with
  | UAdd c recs => run_effs g m (gen_doBulkAddOrReplace cols false (ids recs) (snd (columnar c recs)))
  | UUpd c recs => run_effs g m (gen_doBulkUpdateRecord cols (fun col r => cell t r col) (fun l => l) (fun x => x)
                                                         (ids recs) (snd (columnar c recs)))
  | UDocs ds => fold_left (cmech_doc g cols) ds m
  end.

Fixpoint cmech_actions (g : cfg) (cols : list colinfo) (t : tbl) (m : mech) (b : bundle) : tbl * mech :=
  match b with
  | [] => (t, m)
  | a :: b' => cmech_actions g cols (data_user t a) (cmech_user g cols t (clear_prevent g m) a) b'
  end.

Definition cfired (g : cfg) (cols : list colinfo) (t : tbl) (b : bundle) : list Z :=
  let (t', m) := cmech_actions g cols t mech0 b in fired_of t' m.

(* the columns an action writes exist in the table *)
Definition doc_cols_ok (cols : list colinfo) (d : daction) : Prop :=
  match d with DUpd c _ => forall x, In x c -> In x (map ci_id cols) | _ => True end.
Definition act_cols_ok (cols : list colinfo) (a : uaction) : Prop :=
  match a with
  | UUpd c _ => forall x, In x c -> In x (map ci_id cols)
  | UDocs ds => Forall (doc_cols_ok cols) ds
  | UAdd _ _ => True
  end.

Lemma cmech_doc_bridge : forall g cols m d, cols_ok g cols -> fx_add (fx g) = false -> doc_cols_ok cols d ->
  meq (cmech_doc g cols m d) (mech_doc g m d).
Proof.
  intros g cols m d Hok Hfx Hd. destruct d as [c recs|c recs|rs|c|c]; cbn [cmech_doc].
  - apply bridge_doc_BulkAddRecord; assumption.
  - pose proof (bridge_doc_BulkUpdateRecord g cols m (snd (columnar c recs)) recs Hok) as H.
    rewrite keys_columnar in H. apply H. exact Hd.
  - apply bridge_doc_BulkRemoveRecord; assumption.
  - apply meq_refl.
  - apply meq_refl.
Qed.

Lemma cmech_docs_bridge : forall g cols ds a b, cols_ok g cols -> fx_add (fx g) = false ->
  Forall (doc_cols_ok cols) ds -> meq a b ->
  meq (fold_left (cmech_doc g cols) ds a) (fold_left (mech_doc g) ds b).
Proof.
  intros g cols ds. induction ds as [|d ds IH]; intros a b Hok Hfx Hds H; [exact H|].
  inversion Hds as [|? ? Hd Hds']. subst. cbn [fold_left]. apply IH; try assumption.
  eapply meq_trans; [apply cmech_doc_bridge; assumption|]. apply mech_doc_ext. exact H.
Qed.

Lemma cmech_user_bridge : forall g cols t a b x, cols_ok g cols -> fx g = no_fixes -> act_cols_ok cols x ->
  meq a b -> meq (cmech_user g cols t a x) (mech_user g t b x).
Proof.
  intros g cols t a b x Hok Hfx Hx H.
  assert (Ha : fx_add (fx g) = false) by (rewrite Hfx; reflexivity).
  assert (Ht : fx_trim (fx g) = false) by (rewrite Hfx; reflexivity).
  destruct x as [c recs|c recs|ds].
  - eapply meq_trans; [|apply mech_user_ext; exact H]. cbn [cmech_user].
    pose proof (bridge_doBulkAddOrReplace g cols t a (snd (columnar c recs)) recs Hok Ha) as HB.
    rewrite keys_columnar in HB. exact HB.
  - eapply meq_trans; [|apply mech_user_ext; exact H]. cbn [cmech_user].
    apply bridge_doBulkUpdateRecord; assumption.
  - cbn [cmech_user mech_user]. apply cmech_docs_bridge; assumption.
Qed.

Lemma cmech_actions_bridge : forall g cols b t a a', cols_ok g cols -> fx g = no_fixes ->
  Forall (act_cols_ok cols) b -> meq a a' ->
  fst (cmech_actions g cols t a b) = fst (mech_actions g t a' b) /\
  meq (snd (cmech_actions g cols t a b)) (snd (mech_actions g t a' b)).
Proof.
  intros g cols b. induction b as [|x b IH]; intros t a a' Hok Hfx Hb H; [split; [reflexivity | exact H]|].
  inversion Hb as [|? ? Hx Hb']. subst. cbn [cmech_actions mech_actions]. apply IH; try assumption.
  apply cmech_user_bridge; try assumption. apply clear_prevent_ext. exact H.
Qed.

(* The code-level mechanism evaluates the trigger formula for exactly the rows the model says. *)
Theorem cfired_is_fired : forall g cols t b, cols_ok g cols -> fx g = no_fixes -> Forall (act_cols_ok cols) b ->
  cfired g cols t b = fired g t b.
Proof.
  intros g cols t b Hok Hfx Hb. unfold cfired, fired.
  destruct (cmech_actions_bridge g cols b t mech0 mech0 Hok Hfx Hb (meq_refl mech0)) as [E M].
  destruct (cmech_actions g cols t mech0 b) as [t1 m1]. destruct (mech_actions g t mech0 b) as [t2 m2].
  cbn [fst snd] in *. subst t2. apply fired_of_ext. exact M.
Qed.

(* ---------------------------------------------------------------- the trigger edges *)
(* columns the generated _maybe_update_trigger_dependencies connects to the trigger column *)
Definition edge_sources (es : list eff) : list Z :=
  flat_map (fun e => match e with EAddEdge o i => if o =? trc then [i] else [] | _ => [] end) es.

Lemma col_of_ref_id : forall g cols dc, cols_ok g cols -> In dc (map ci_id cols) -> ci_id (col_of_ref cols dc) = dc.
Proof.
  intros g cols dc Hok Hin. unfold col_of_ref. destruct (find (fun ci => ci_ref ci =? dc) cols) as [ci|] eqn:E.
  - apply find_some in E. destruct E as [Hci E]. apply Z.eqb_eq in E. rewrite <- (ok_refs _ _ Hok ci Hci). exact E.
  - apply in_map_iff in Hin. destruct Hin as [c [Hc Hcin]]. pose proof (find_none _ _ E c Hcin) as Hn. cbn in Hn.
    rewrite (ok_refs _ _ Hok c Hcin), Hc, Z.eqb_refl in Hn. discriminate.
Qed.

Definition trig_dep_col (cols : list colinfo) (col_obj : colinfo) : list eff :=
  if ci_is_formula col_obj || negb (ci_has_formula col_obj) then []
  else [EClearDeps (ci_id col_obj)] ++
       (if ci_recalcWhen (get_column cols (ci_id col_obj)) =? RecalcWhen_DEFAULT
        then flat_map (fun dc => [EAddEdge (ci_id col_obj) (ci_id (col_of_ref cols dc))])
                      (ci_recalcDeps (get_column cols (ci_id col_obj)))
        else []).

Lemma trig_deps_nf : forall cols, gen_trigger_dependencies cols false = flat_map (trig_dep_col cols) cols.
Proof. intros. reflexivity. Qed.

Theorem bridge_trigger_dependencies : forall g cols, cols_ok g cols ->
  edge_sources (gen_trigger_dependencies cols false) = (if is_default g then deps g else []) /\
  gen_trigger_dependencies cols true = [].
Proof.
  intros g cols Hok. split; [|reflexivity]. rewrite trig_deps_nf.
  rewrite (flat_map_only _ _ _ cols (trigger_col g)).
  - unfold trig_dep_col. cbn [trigger_col ci_is_formula ci_has_formula ci_id orb negb].
    rewrite (get_column_trc g cols Hok). cbn [trigger_col ci_recalcWhen ci_recalcDeps]. rewrite when_code_default.
    destruct (is_default g); [|reflexivity]. cbn [app edge_sources flat_map].
    assert (Hd : forall l, (forall c, In c l -> In c (map ci_id cols)) ->
                 flat_map (fun e => match e with EAddEdge o i => if o =? trc then [i] else [] | _ => [] end)
                          (flat_map (fun dc => [EAddEdge trc (ci_id (col_of_ref cols dc))]) l) = l).
    { intros l. induction l as [|c l IH]; intros Hl; [reflexivity|]. cbn [flat_map app]. rewrite Z.eqb_refl. cbn [app].
      rewrite (col_of_ref_id g cols c Hok (Hl c (or_introl eq_refl))). f_equal. apply IH. intros x Hx. apply Hl. right. exact Hx. }
    apply Hd. intros c Hc. apply (ok_cover _ _ Hok). unfold table_cols. apply in_or_app. left. exact Hc.
  - apply (NoDup_map_inv ci_id). apply (ok_nodup _ _ Hok).
  - apply (ok_trig _ _ Hok).
  - intros y Hy Hne. unfold trig_dep_col.
    assert (Hid : ci_id y <> trc). { intros He. apply Hne. apply (trc_col_unique g cols y Hok Hy He). }
    destruct (ok_single _ _ Hok y Hy Hid) as [H|H]; rewrite H; [reflexivity|]. rewrite orb_true_r. reflexivity.
Qed.

(* so the model's "is there a live edge from c" is membership in the generated edges, unless c was renamed *)
Corollary edge_live_generated : forall g cols m c, cols_ok g cols ->
  edge_live g m c = zmem c (edge_sources (gen_trigger_dependencies cols false)) && negb (stale m c).
Proof.
  intros g cols m c Hok. destruct (bridge_trigger_dependencies g cols Hok) as [E _]. rewrite E. unfold edge_live.
  destruct (is_default g); reflexivity.
Qed.

(* a concrete table satisfying cols_ok, for non-vacuity (and the shape the harness checks on the real engine) *)
Definition plain_col (c : Z) : colinfo :=
  {| ci_id := c; ci_ref := c; ci_is_formula := false; ci_has_formula := false; ci_recalcWhen := 0; ci_recalcDeps := [] |}.
Definition formula_col (c : Z) : colinfo :=
  {| ci_id := c; ci_ref := c; ci_is_formula := true; ci_has_formula := true; ci_recalcWhen := 0; ci_recalcDeps := [] |}.

(* decidable version of cols_ok, for concrete tables *)
Definition cols_okb (g : cfg) (cols : list colinfo) : bool :=
  (fix nodup (l : list Z) := match l with [] => true | x :: r => negb (zmem x r) && nodup r end) (map ci_id cols) &&
  forallb (fun c => ci_ref c =? ci_id c) cols &&
  existsb (fun c => (ci_id c =? trc) && (ci_ref c =? trc) && negb (ci_is_formula c) && ci_has_formula c &&
                    (ci_recalcWhen c =? when_code (when g)) &&
                    (fix eql (a b : list Z) := match a, b with [] , [] => true | x :: a', y :: b' => (x =? y) && eql a' b' | _, _ => false end)
                      (ci_recalcDeps c) (deps g)) cols &&
  forallb (fun c => (ci_id c =? trc) || ci_is_formula c || negb (ci_has_formula c)) cols &&
  forallb (fun c => zmem c (map ci_id cols)) (table_cols g).

Lemma nodupb_NoDup : forall l,
  (fix nodup (l : list Z) := match l with [] => true | x :: r => negb (zmem x r) && nodup r end) l = true -> NoDup l.
Proof.
  induction l as [|x l IH]; intros H; [constructor|]. apply andb_true_iff in H. destruct H as [H1 H2].
  constructor; [|apply IH; exact H2]. intros Hin. apply memz_In in Hin. change (zmem x l) with (memz x l) in H1.
  rewrite Hin in H1. discriminate.
Qed.

Lemma eql_eq : forall a b,
  (fix eql (a b : list Z) := match a, b with [] , [] => true | x :: a', y :: b' => (x =? y) && eql a' b' | _, _ => false end) a b = true ->
  a = b.
Proof.
  induction a as [|x a IH]; destruct b as [|y b]; intros H; try discriminate; [reflexivity|].
  apply andb_true_iff in H. destruct H as [H1 H2]. apply Z.eqb_eq in H1. subst. f_equal. apply IH. exact H2.
Qed.

Theorem cols_okb_ok : forall g cols, cols_okb g cols = true -> cols_ok g cols.
Proof.
  intros g cols H. unfold cols_okb in H. repeat (apply andb_true_iff in H; destruct H as [H ?]).
  rename H into Hnd, H3 into Hrefs, H2 into Htrig, H1 into Hsingle, H0 into Hcover.
  constructor.
  - apply nodupb_NoDup. exact Hnd.
  - intros c Hc. rewrite forallb_forall in Hrefs. apply Z.eqb_eq. apply Hrefs. exact Hc.
  - apply existsb_exists in Htrig. destruct Htrig as [c [Hc Hp]].
    repeat (apply andb_true_iff in Hp; destruct Hp as [Hp ?]).
    apply Z.eqb_eq in Hp. apply Z.eqb_eq in H3. apply Z.eqb_eq in H0. apply negb_true_iff in H2. apply eql_eq in H.
    destruct c as [i rf isf hasf rw rd]. cbn in *. subst. exact Hc.
  - intros c Hc Hne. rewrite forallb_forall in Hsingle. specialize (Hsingle c Hc).
    apply orb_true_iff in Hsingle. destruct Hsingle as [Hs|Hs].
    + apply orb_true_iff in Hs. destruct Hs as [Hs|Hs]; [apply Z.eqb_eq in Hs; contradiction | left; exact Hs].
    + right. apply negb_true_iff. exact Hs.
  - intros c Hc. rewrite forallb_forall in Hcover. apply memz_In. apply Hcover. exact Hc.
Qed.
