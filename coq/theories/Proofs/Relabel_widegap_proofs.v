(* C20: a wide gap is never crowded -- between doubles 0 <= b < e with e >= 4 b and e >= 2^-1020, up to 2^24 - 1 keys
   spread by get_range are strictly increasing and strictly inside (b, e); so prep_inserts_at_index renumbers only
   when end < 4 * max(begin, 2^-1022). *)
From Coq Require Import ZArith List Bool Lia Sorted.
Import ListNotations.
Require Import Grist.Lib.Fl64 Grist.Proofs.Fl64_proofs Grist.Proofs.Fl64_mono_proofs Grist.Proofs.Fl64_err_proofs
               Grist.Model.Relabel Grist.Proofs.Relabel_ungroup_proofs Grist.Proofs.Relabel_widespread_proofs.
Open Scope Z_scope.

Lemma mod_pow_le' x a b : 0 <= b <= a -> x mod 2 ^ a = 0 -> x mod 2 ^ b = 0.
Proof.
  intros Hab H. apply Z.mod_divide in H; [|pose proof (pow2_pos' a); lia]. destruct H as [q Hq].
  rewrite Hq. replace (2 ^ a) with (2 ^ (a - b) * 2 ^ b) by (rewrite <- Z.pow_add_r by lia; f_equal; lia).
  rewrite Z.mul_assoc. apply Z.mod_mul. pose proof (pow2_pos' b). lia.
Qed.

(* the rounding of an integer is a double *)
Lemma R_representable x : 0 <= x -> R x mod 2 ^ ulp_exp (R x) = 0.
Proof.
  intros Hx. set (kap := ulp_exp x). assert (Hk : 0 <= kap) by apply ulp_exp_nonneg.
  assert (Hpk : 0 < 2 ^ kap) by (apply pow2_pos'; lia).
  assert (HRu : R x = rne x (2 ^ kap) * 2 ^ kap) by apply R_unfold.
  pose proof (ulp_exp_upper x Hx) as Hup. fold kap in Hup.
  assert (Hrne : 0 <= rne x (2 ^ kap) <= 2 ^ 53).
  { pose proof (rne_bounds x (2 ^ kap) Hpk) as Hb. assert (0 <= x / 2 ^ kap) by (apply Z.div_pos; lia).
    assert (x / 2 ^ kap < 2 ^ 53).
    { apply Z.div_lt_upper_bound; [lia|]. rewrite <- Z.pow_add_r by lia. replace (kap + 53) with (53 + kap) by lia. exact Hup. }
    lia. }
  destruct (Z.eq_dec (rne x (2 ^ kap)) (2 ^ 53)) as [Heq|Hne].
  - rewrite HRu, Heq. rewrite <- Z.pow_add_r by lia. unfold ulp_exp. rewrite Z.log2_pow2 by lia.
    rewrite Z.max_r by lia. replace (2 ^ (53 + kap)) with (2 ^ 52 * 2 ^ (53 + kap - 52)) by (rewrite <- Z.pow_add_r by lia; f_equal; lia).
    apply Z.mod_mul. pose proof (pow2_pos' (53 + kap - 52)). lia.
  - apply (mod_pow_le' _ kap).
    + split; [apply ulp_exp_nonneg|]. unfold ulp_exp at 1.
      destruct (Z.eq_dec (R x) 0) as [E0|E0]; [rewrite E0; cbn; lia|].
      assert (HRpos : 0 < R x) by (rewrite HRu in *; nia).
      assert (Z.log2 (R x) < 53 + kap); [|lia]. apply Z.log2_lt_pow2; [lia|].
      rewrite HRu. rewrite Z.pow_add_r by lia. nia.
    + rewrite HRu. apply Z.mod_mul. lia.
Qed.

Section WideGap.
Variables (ub ue c : Z).
Let K := c + 1.
Let E := 2 ^ ulp_exp ue.
Hypothesis Hub : 0 <= ub.
Hypothesis Hub_rep : ub mod 2 ^ ulp_exp ub = 0.
Hypothesis Hue_rep : ue mod 2 ^ ulp_exp ue = 0.
Hypothesis Hbig : 2 ^ 54 <= ue.
Hypothesis Hwide : 4 * ub <= ue.
Hypothesis Hover : ue < UOVER.
Hypothesis Hc : 1 <= c.
Hypothesis HK : K <= 2 ^ 24.

Lemma E_facts : 4 <= E /\ E * 2 ^ 52 <= ue /\ ue < E * 2 ^ 53 /\ (forall x, 0 <= x <= ue -> 2 ^ ulp_exp x <= E).
Proof.
  assert (H0 : 0 < ue) by (assert (0 < 2 ^ 54) by (apply pow2_pos'; lia); lia).
  assert (HL : 54 <= Z.log2 ue) by (apply Z.log2_le_pow2; lia).
  pose proof (Z.log2_spec ue H0) as [L1 L2].
  assert (Hk : ulp_exp ue = Z.log2 ue - 52) by (unfold ulp_exp; lia).
  unfold E. rewrite Hk. split; [|split; [|split]].
  - change 4 with (2 ^ 2). apply Z.pow_le_mono_r; lia.
  - rewrite <- Z.pow_add_r by lia. replace (Z.log2 ue - 52 + 52) with (Z.log2 ue) by lia. exact L1.
  - rewrite <- Z.pow_add_r by lia. replace (Z.log2 ue - 52 + 53) with (Z.succ (Z.log2 ue)) by lia. exact L2.
  - intros x Hx. rewrite <- Hk. apply Z.pow_le_mono_r; [lia|]. apply ulp_exp_mono. lia.
Qed.

Let A := R (ue - ub).
Let kS := ulp_exp (A / K).
Let S := rne A (K * 2 ^ kS) * 2 ^ kS.

Lemma A_err : - E <= 2 * (A - (ue - ub)) <= E /\ 0 < A /\ A mod 2 ^ ulp_exp A = 0.
Proof.
  destruct E_facts as (HE4 & HElo & HEhi & Hulp). assert (HP : 0 < 2 ^ 52) by (apply pow2_pos'; lia).
  pose proof (R_err (ue - ub)) as Herr. pose proof (Hulp (ue - ub) ltac:(lia)) as Hu. unfold A.
  split; [lia|]. split; [nia | apply R_representable; lia].
Qed.

Lemma A_le : A <= ue.
Proof.
  unfold A. rewrite <- (R_exact ue) at 2; [apply R_mono; lia | | exact Hue_rep].
  assert (0 < 2 ^ 54) by (apply pow2_pos'; lia). lia.
Qed.

Lemma S_err : - (K * E) <= 2 * (S * K - A) <= K * E.
Proof.
  destruct E_facts as (HE4 & HElo & HEhi & Hulp). destruct A_err as (HA & HA0 & _). assert (HK2 : 2 <= K) by (unfold K; lia).
  assert (Hks : 2 ^ kS <= E).
  { unfold kS. apply Z.le_trans with (2 ^ ulp_exp ue); [|unfold E; lia].
    apply Z.pow_le_mono_r; [lia|]. apply ulp_exp_mono.
    apply Z.le_trans with (A / 2); [apply Z.div_le_compat_l; lia|].
    apply Z.div_le_upper_bound; [lia|]. assert (HP : 0 < 2 ^ 52) by (apply pow2_pos'; lia). nia. }
  assert (Hp : 0 < 2 ^ kS) by (apply pow2_pos', ulp_exp_nonneg).
  pose proof (rne_err A (K * 2 ^ kS) ltac:(nia)) as Herr.
  replace (S * K) with (rne A (K * 2 ^ kS) * (K * 2 ^ kS)) by (unfold S; ring). nia.
Qed.

Lemma S_bounds : 2 ^ 27 * E <= S /\ 2 * (ub + S * c) + 6 * E <= 2 * ue.
Proof.
  destruct E_facts as (HE4 & HElo & _ & _). destruct A_err as (HA & HA0 & _). pose proof S_err as HS.
  assert (HK2 : 2 <= K) by (unfold K; lia). assert (HKc : c = K - 1) by (unfold K; lia).
  assert (H24 : 2 ^ 24 * 2 ^ 28 = 2 ^ 52) by reflexivity. assert (H27 : 2 * 2 ^ 27 = 2 ^ 28) by reflexivity.
  assert (H16 : 16 <= 2 ^ 28) by (apply Z.leb_le; reflexivity). assert (H2428 : 2 ^ 24 + 6 <= 2 ^ 28) by (apply Z.leb_le; reflexivity).
  set (P24 := 2 ^ 24) in *. set (P28 := 2 ^ 28) in *. set (P27 := 2 ^ 27) in *. set (P52 := 2 ^ 52) in *.
  assert (HP24 : 0 < P24) by (unfold P24; apply pow2_pos'; lia). assert (HP27 : 0 < P27) by (unfold P27; apply pow2_pos'; lia).
  clearbody P24 P28 P27 P52. rewrite HKc. clear HKc Hover Hub_rep Hue_rep Hbig.
  assert (B0 : K * P28 <= P52) by (timeout 20 nia).
  assert (B1 : 3 * ue <= 4 * (ue - ub)) by lia.
  split.
  - (* 2 S K >= 2A - K E >= 1.5 ue - E - K E *)
    assert (B2 : 3 * (E * P52) - 2 * E - 2 * (K * E) <= 4 * (S * K)) by (timeout 20 nia).
    destruct (Z.le_gt_cases (P27 * E) S) as [Hle|Hgt]; [exact Hle|]. exfalso.
    assert (B3 : S * K < P27 * E * K) by (apply Z.mul_lt_mono_pos_r; lia).
    assert (B4 : E * (K * P28) <= E * P52) by (apply Z.mul_le_mono_nonneg_l; lia).
    assert (B4' : 4 * (P27 * E * K) = 2 * (E * (K * P28))) by (rewrite <- H27; ring).
    assert (B5a : 16 * P24 <= P28 * P24) by (apply Z.mul_le_mono_nonneg_r; lia).
    assert (B5 : 2 + 2 * K <= P52) by lia.
    assert (B5' : E * (2 + 2 * K) <= E * P52) by (apply Z.mul_le_mono_nonneg_l; lia).
    replace (E * (2 + 2 * K)) with (2 * E + 2 * (K * E)) in B5' by ring. lia.
  - assert (C1 : 2 * (S * (K - 1)) * K <= (2 * A + K * E) * (K - 1)) by (timeout 20 nia).
    assert (C2 : (2 * A) * (K - 1) <= (2 * (ue - ub) + E) * (K - 1)) by (timeout 20 nia).
    assert (C3 : K * K + 6 * K <= P52).
    { assert (K * (K + 6) <= P24 * P28) by (apply Z.mul_le_mono_nonneg; lia). lia. }
    assert (C4 : E * (K * K + 6 * K) <= ue).
    { apply Z.le_trans with (E * P52); [apply Z.mul_le_mono_nonneg_l; lia | lia]. }
    assert (C5 : 2 * ub + 6 * E * K + E * (K - 1) + K * E * (K - 1) <= 2 * ue).
    { replace (2 * ub + 6 * E * K + E * (K - 1) + K * E * (K - 1)) with (2 * ub + E * (K * K + 6 * K) - E) by ring. lia. }
    assert (C6 : (2 * ub + 6 * E) * K + (2 * (ue - ub) + E) * (K - 1) + K * E * (K - 1) <= 2 * ue * K) by (timeout 20 nia).
    assert (C7 : (2 * (ub + S * (K - 1)) + 6 * E) * K <= 2 * ue * K) by (timeout 20 nia).
    apply (Z.mul_le_mono_pos_r _ _ K); [lia | exact C7].
Qed.

Definition pk (k : Z) : Z := R (S * k).
Definition yk (k : Z) : Z := R (ub + pk k).

Lemma S_pos : 1 <= S.
Proof. pose proof S_bounds as [H _]. destruct E_facts as (HE & _). assert (0 < 2 ^ 27) by (apply pow2_pos'; lia). nia. Qed.

Lemma Sk_le k : 0 <= k <= c -> 0 <= S * k /\ ub + S * k + 3 * E <= ue.
Proof. intros Hk. pose proof S_bounds as [_ H]. pose proof S_pos. destruct E_facts as (HE & _). split; nia. Qed.

Lemma pk_err k : 0 <= k <= c -> - E <= 2 * (pk k - S * k) <= E.
Proof.
  intros Hk. destruct (Sk_le k Hk) as [H0 H1]. destruct E_facts as (HE & _ & _ & Hulp). unfold pk.
  pose proof (R_err (S * k)) as Hr. pose proof (Hulp (S * k) ltac:(lia)) as Hu. lia.
Qed.

Lemma yk_err k : 0 <= k <= c -> - (2 * E) <= 2 * (yk k - (ub + S * k)) <= 2 * E.
Proof.
  intros Hk. destruct (Sk_le k Hk) as [H0 H1]. destruct E_facts as (HE & _ & _ & Hulp). pose proof (pk_err k Hk) as Hp. unfold yk.
  assert (Hpk0 : 0 <= pk k) by (unfold pk; apply round_mag_nonneg; lia).
  pose proof (R_err (ub + pk k)) as Hr. pose proof (Hulp (ub + pk k) ltac:(lia)) as Hu. lia.
Qed.

Lemma yk_step k : 0 <= k -> k + 1 <= c -> yk k < yk (k + 1).
Proof.
  intros H0 H1. pose proof (yk_err k ltac:(lia)) as Ha. pose proof (yk_err (k + 1) ltac:(lia)) as Hb.
  pose proof S_bounds as [HS _]. destruct E_facts as (HE & _). assert (H4 : 4 <= 2 ^ 27) by (apply Z.leb_le; reflexivity). nia.
Qed.

Lemma yk_mono a b : 0 <= a -> a < b -> b <= c -> yk a < yk b.
Proof.
  intros Ha Hab Hb.
  assert (Hgen : forall d, 0 <= d -> a + d + 1 <= c -> yk a < yk (a + d + 1)).
  { intros d Hd. pattern d. apply natlike_ind; [| |exact Hd].
    - intros Hc0. replace (a + 0 + 1) with (a + 1) by lia. apply yk_step; lia.
    - intros x Hx IHx Hc1. specialize (IHx ltac:(lia)).
      pose proof (yk_step (a + x + 1) ltac:(lia) ltac:(lia)). replace (a + Z.succ x + 1) with (a + x + 1 + 1) by lia. lia. }
  replace b with (a + (b - a - 1) + 1) by lia. apply Hgen; lia.
Qed.

Lemma yk_range k : 1 <= k <= c -> ub < yk k /\ yk k + E <= ue.
Proof.
  intros Hk. pose proof (yk_err k ltac:(lia)) as He. destruct (Sk_le k ltac:(lia)) as [_ Hs]. destruct E_facts as (HE & _).
  pose proof S_bounds as [HS _]. assert (H4 : 4 <= 2 ^ 27) by (apply Z.leb_le; reflexivity). split; nia.
Qed.

Lemma limit_ge : exists l, prevfloat (FFin false ue) = FFin false l /\ ue - E <= l.
Proof.
  destruct E_facts as (HE & HElo & HEhi & Hulp). assert (HP : 2 <= 2 ^ 52) by (apply Z.leb_le; reflexivity).
  unfold prevfloat. replace (ue =? 0) with false by (symmetry; apply Z.eqb_neq; nia).
  eexists. split; [reflexivity|]. apply upred_max; [nia | nia |].
  apply (mod_pow_le' _ (ulp_exp ue)).
  - split; [apply ulp_exp_nonneg|]. apply ulp_exp_mono. lia.
  - fold E. apply Z.mod_divide in Hue_rep; [|unfold E in HE; lia]. destruct Hue_rep as [q Hq]. fold E in Hq.
    rewrite Hq. replace (q * E - E) with ((q - 1) * E) by ring. apply Z.mod_mul. lia.
Qed.

Lemma fin_small u : 0 <= u <= ue -> fin_or_inf false u = FFin false u.
Proof. intros H. unfold fin_or_inf. replace (UOVER <=? u) with false; [reflexivity|]. symmetry. apply Z.leb_gt. lia. Qed.

Lemma step_is_S : fdiv (fsub (FFin false ue) (FFin false ub)) (of_Z (c + 1)) = FFin false S.
Proof.
  destruct E_facts as (HE & HElo & _). destruct A_err as (HA & HA0 & HArep). pose proof A_le as HAle.
  assert (HP : 2 <= 2 ^ 52) by (apply Z.leb_le; reflexivity).
  assert (Hsub : fsub (FFin false ue) (FFin false ub) = FFin false A).
  { unfold fsub, fneg, fadd, sval. cbn [negb andb]. replace (ue + - ub) with (ue - ub) by ring.
    replace (ue - ub =? 0) with false by (symmetry; apply Z.eqb_neq; nia).
    replace (ue - ub <? 0) with false by (symmetry; apply Z.ltb_ge; nia). rewrite Z.abs_eq by nia.
    rewrite round_p2_mag by lia. fold (R (ue - ub)). fold A. apply fin_small. lia. }
  rewrite Hsub. fold K.
  assert (HKs : K < 2 ^ 53) by (assert (2 ^ 24 < 2 ^ 53) by (apply Z.pow_lt_mono_r; lia); lia).
  rewrite of_Z_int by (unfold K in *; lia).
  rewrite fdiv_int_spec; [| lia | exact HArep | unfold K in *; lia].
  fold kS. fold S. apply fin_small. pose proof S_pos. destruct (Sk_le c ltac:(lia)). split; [lia | nia].
Qed.

Lemma key_is_yk k : 1 <= k <= c ->
  fmin (fadd (FFin false ub) (fmul (FFin false S) (of_Z k))) (prevfloat (FFin false ue)) = FFin false (yk k).
Proof.
  intros Hk. pose proof (yk_range k Hk) as [Hy0 Hy1]. destruct E_facts as (HE & _). pose proof S_pos as HS.
  destruct (Sk_le k ltac:(lia)) as [Hs0 Hs1]. pose proof (pk_err k ltac:(lia)) as Hp.
  assert (Hpk0 : 0 <= pk k) by (unfold pk; apply round_mag_nonneg; lia).
  assert (HKs : c + 1 < 2 ^ 53) by (fold K; assert (2 ^ 24 < 2 ^ 53) by (apply Z.pow_lt_mono_r; lia); lia).
  rewrite of_Z_int by lia. rewrite fmul_int_spec by lia. fold (pk k). rewrite fin_small by lia.
  rewrite fadd_pos_spec by lia. fold (yk k). rewrite fin_small by lia.
  destruct limit_ge as (l & -> & Hl). unfold fmin, flt. cbn [is_nan negb andb ford].
  replace (l <? yk k) with false; [reflexivity|]. symmetry. apply Z.ltb_ge. lia.
Qed.

Theorem wide_gap_strict :
  StronglySorted Flt (FFin false ub :: get_range (FFin false ub) (FFin false ue) c ++ [FFin false ue]).
Proof.
  assert (Hkeys : get_range (FFin false ub) (FFin false ue) c = map (fun k => FFin false (yk k)) (zrange 1 (c + 1))).
  { unfold get_range. rewrite step_is_S. apply map_ext_in. intros k Hk. apply zrange_In in Hk. apply key_is_yk. lia. }
  rewrite Hkeys. destruct E_facts as (HE & _).
  assert (Hlt : forall a b, 0 <= a < b -> Flt (FFin false a) (FFin false b)).
  { intros a b Hab. unfold Flt. apply flt_iff. cbn [is_nan ford]. repeat split; auto. lia. }
  assert (Hgen : forall l, StronglySorted Z.lt l -> (forall k, In k l -> 1 <= k <= c) ->
            StronglySorted Flt (map (fun k => FFin false (yk k)) l ++ [FFin false ue])).
  { induction 1 as [|k t Hs IH Hk]; intros Hin; cbn [map app].
    - repeat constructor.
    - constructor; [apply IH; intros; apply Hin; right; assumption|].
      pose proof (Hin k (or_introl eq_refl)) as Hkr. pose proof (yk_range k Hkr) as Hv.
      rewrite Forall_forall in *. intros y Hy. apply in_app_or in Hy. destruct Hy as [Hy|[<-|[]]].
      + apply in_map_iff in Hy. destruct Hy as (k' & <- & Hk'). specialize (Hk k' Hk').
        pose proof (Hin k' (or_intror Hk')). apply Hlt. pose proof (yk_mono k k' ltac:(lia) Hk ltac:(lia)). lia.
      + apply Hlt. lia. }
  constructor.
  - apply Hgen; [apply zrange_sorted|]. intros k Hk. apply zrange_In in Hk. lia.
  - rewrite Forall_forall. intros y Hy. apply in_app_or in Hy. destruct Hy as [Hy|[<-|[]]].
    + apply in_map_iff in Hy. destruct Hy as (k & <- & Hk). apply zrange_In in Hk.
      pose proof (yk_range k ltac:(lia)). apply Hlt. lia.
    + apply Hlt. assert (0 < 2 ^ 54) by (apply pow2_pos'; lia). lia.
Qed.
End WideGap.
