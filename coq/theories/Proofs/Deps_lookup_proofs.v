(* The re-evaluation of a lookup-map cell (DepsLookup.eval_lookup_exec), with its post-invalidation, is a step the
   C05 kernel accepts (eval_ok with the lazily tracked reads [guardedL]). *)
From Coq Require Import ZArith List Bool Lia.
Import ListNotations.
Require Import Grist.Model.Deps Grist.Model.DepsSpec Grist.Model.DepsExec Grist.Model.DepsEval Grist.Model.DepsLookup.
Require Import Grist.Proofs.DepsSpec_proofs.
Require Import Grist.Proofs.Deps_closure_proofs Grist.Proofs.Deps_inval_proofs Grist.Proofs.Deps_order_proofs.
Require Import Grist.Proofs.Deps_rel_proofs Grist.Proofs.Deps_refine_proofs Grist.Proofs.Deps_eval_proofs.
Require Import Grist.Proofs.Deps_eval_lazy_proofs.
Open Scope Z_scope.

(* ---- a sequence of row invalidations ------------------------------------------------------------------ *)
Definition cell_closed (E : list edge) (R : relst) (M M' : mapT) : Prop :=
  forall d, in_map M' d = true -> in_map M d = false ->
  forall e r, In e E -> e_in e = fst d -> In r (aff_l R (e_rel e) [snd d]) -> in_map M' (e_out e, r) = true.

Lemma invalidate_rows_cell_closed fuel g n l g' :
  owner_ok (g_edges g) -> invalidate_deps fuel g n (Rows l) true = Some g' ->
  mono (g_map g) (g_map g') /\ batch_in (g_map g') (n, Rows l) /\
  cell_closed (g_edges g) (g_rel g) (g_map g) (g_map g').
Proof.
  intros Ho H. destruct (invalidate_deps_spec _ _ _ _ _ _ Ho H) as (Hm & Hs & Hc).
  split; [exact Hm | split; [exact Hs |]].
  intros d Hd Hn e r He Hin Hr. destruct (Hc d Hd Hn) as (y & Hy & Hp & Hcb).
  destruct (RBi_rows _ _ _ _ _ _ _ Hp) as [l2 ->].
  apply (Hcb e He Hin). cbn [snd]. rewrite affected_rows. apply in_rowset_rows. apply aff_l_In.
  exists (snd d). split; auto. apply in_rowset_rows. exact Hy.
Qed.

Lemma invalidate_list_spec fuel : forall l g g',
  owner_ok (g_edges g) -> invalidate_list fuel g l = Some g' ->
  g_edges g' = g_edges g /\ g_rel g' = g_rel g /\ mono (g_map g) (g_map g') /\
  Forall (fun b => batch_in (g_map g') (fst b, Rows (snd b))) l /\
  cell_closed (g_edges g) (g_rel g) (g_map g) (g_map g').
Proof.
  induction l as [| [n rows] l IH]; intros g g' Ho H; cbn [invalidate_list] in H.
  - inversion H; subst. repeat split; auto. intros d H1 H0. rewrite H1 in H0. discriminate.
  - destruct (invalidate_deps fuel g n (Rows rows) true) as [g1 |] eqn:H1; [| discriminate].
    destruct (invalidate_rows_frame _ _ _ _ _ _ H1) as [E1 R1].
    destruct (invalidate_rows_cell_closed _ _ _ _ _ Ho H1) as (Hm1 & Hb1 & Hc1).
    assert (Ho1 : owner_ok (g_edges g1)) by (rewrite E1; exact Ho).
    destruct (IH g1 g' Ho1 H) as (E2 & R2 & Hm2 & Hb2 & Hc2).
    rewrite E1 in E2, Hc2. rewrite R1 in R2, Hc2.
    split; [exact E2 | split; [exact R2 | split; [eapply mono_trans; eauto | split]]].
    + constructor; auto. cbn [fst snd]. eapply batch_in_mono; eauto.
    + intros d Hd Hn e r He Hin Hr. destruct (in_map (g_map g1) d) eqn:X.
      * apply (proj1 Hm2). apply (Hc1 d X Hn e r He Hin Hr).
      * apply (Hc2 d Hd X e r He Hin Hr).
Qed.

(* ---- changing the keys of one target row in the index ------------------------------------------------- *)
Fixpoint head (r : rel) : rel := match r with RComp a _ => head a | _ => r end.

Lemma head_owner via o m n : rel_owner via o = true -> head via = RLook m n -> n = o.
Proof.
  induction via as [| | c | a IHa b IHb | m0 n0]; cbn [head rel_owner]; intros Ho H; try discriminate.
  - apply andb_true_iff in Ho. apply IHa; tauto.
  - inversion H; subst. apply Z.eqb_eq in Ho. exact Ho.
Qed.

Lemma no_look_owner via o : no_look via = true -> rel_owner via o = true.
Proof.
  induction via as [| | c | a IHa b IHb | m0 n0]; cbn [no_look rel_owner]; intros H; auto; try discriminate.
  apply andb_true_iff in H. rewrite IHa, IHb; tauto.
Qed.

Lemma no_look_head_look via : no_look via = true -> head_look via = true.
Proof.
  induction via as [| | c | a IHa b IHb | m0 n0]; cbn [no_look head_look]; intros H; auto.
  apply andb_true_iff in H. rewrite IHa; tauto.
Qed.

(* relations without lookups only look at the inverse maps *)
Lemma aff_l_no_look_inv R R' via :
  (forall c t, inv R c t = inv R' c t) -> no_look via = true -> forall l, aff_l R via l = aff_l R' via l.
Proof.
  intros Hi. induction via as [| | c | a IHa b IHb | m n]; intros H l; cbn [aff_l no_look] in *; auto;
    try discriminate.
  - apply flat_map_ext'. intros t. apply Hi.
  - apply andb_true_iff in H. destruct H as [Ha Hb]. rewrite (IHb Hb). apply IHa. exact Ha.
Qed.

Section Keys.
Variables (R : relst) (m : node) (t : row) (k k' : Z).
Hypothesis Hidx : lkkeys R m t = [k].
Let R2 := set_lkkeys R m t [k'].

(* a row affected under the old index is affected under the new one, or it had looked up the old key *)
Lemma aff_keys_change via :
  head_look via = true -> forall l r, In r (aff_l R via l) ->
  In r (aff_l R2 via l) \/ (k <> k' /\ exists n', head via = RLook m n' /\ In (r, k) (lkrows R m n')).
Proof.
  induction via as [| | c | a IHa b IHb | m0 n0]; intros Hh l r H; cbn [aff_l head head_look] in *; auto.
  - apply andb_true_iff in Hh. destruct Hh as [Ha Hb].
    rewrite (aff_l_no_look_inv R R2 b (fun _ _ => eq_refl) Hb) in H. apply IHa; auto.
  - apply rows_by_keys_In in H. destruct H as (key & H1 & H2). apply in_flat_map in H2.
    destruct H2 as (q & Hq & Hkey).
    destruct (Z.eqb m0 m && Z.eqb q t) eqn:E.
    + apply andb_true_iff in E. destruct E as [E1 E2]. apply Z.eqb_eq in E1, E2. subst m0 q.
      rewrite Hidx in Hkey. destruct Hkey as [<- | []].
      destruct (Z.eq_dec k k') as [<- | Hne].
      * left. apply rows_by_keys_In. exists k. split; auto. apply in_flat_map. exists t. split; auto.
        unfold R2. cbn [set_lkkeys lkkeys]. rewrite !Z.eqb_refl. left. reflexivity.
      * right. split; auto. exists n0. auto.
    + left. apply rows_by_keys_In. exists key. split; auto. apply in_flat_map. exists q. split; auto.
      unfold R2. cbn [set_lkkeys lkkeys]. rewrite E. exact Hkey.
Qed.
End Keys.

Lemma add_edge_inv E e e' : In e (add_edge E e') -> In e E \/ e = e'.
Proof.
  unfold add_edge. destruct (existsb _ E); auto. intros H. apply in_app_or in H.
  destruct H as [H | [H | []]]; auto.
Qed.

Lemma record_reads_inv n tr : forall E e, In e (record_reads E n tr) ->
  In e E \/ exists a, In a tr /\ e = (n, fst (acell a), snd (fst a)).
Proof.
  unfold record_reads. induction tr as [| b tr IH]; intros E e H; cbn [fold_left] in H; auto.
  apply IH in H. destruct H as [H | (a & Ha & ->)].
  - apply add_edge_inv in H. destruct H as [H | ->]; auto. right. exists b. split; [left; reflexivity | reflexivity].
  - right. exists a. split; [right; exact Ha | reflexivity].
Qed.
