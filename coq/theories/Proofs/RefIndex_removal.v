(* The cleanup of referring cells (doBulkRemoveRecord) on Model/RefIndex.v: given exact reverse indexes, the removal
   of rows filters exactly the removed targets out of every referring cell. *)
From Coq Require Import ZArith List Bool Arith Lia Sorted.
Import ListNotations.
Require Import Grist.Model.RefIndex Grist.Proofs.RefIndex_proofs.

Lemma get_affected_fold : forall m ts acc, all_sorted m -> sorted acc ->
  let res := fold_left (fun a t => set_union a (inv_get t m)) ts acc in
  sorted res /\ forall r, In r res <-> In r acc \/ exists t, In t ts /\ In r (inv_get t m).
Proof.
  intros m ts. induction ts as [|t ts IH]; intros acc Hs Ha; cbn [fold_left].
  - split; [assumption|]. intros r. split; [tauto|]. intros [H|[t [[] _]]]. assumption.
  - destruct (IH (set_union acc (inv_get t m)) Hs (set_union_sorted _ _ Ha)) as [H1 H2].
    split; [exact H1|]. intros r. rewrite H2, set_union_In. split.
    + intros [[H|H]|[t' [Ht' H]]]; [left; assumption|right; exists t; split; [left; reflexivity|assumption]|].
      right. exists t'. split; [right; assumption|assumption].
    + intros [H|[t' [[->|Ht'] H]]]; [left; left; assumption|left; right; assumption|].
      right. exists t'. split; assumption.
Qed.

Lemma get_affected_rows_spec : forall m ts, all_sorted m ->
  sorted (get_affected_rows ts m) /\
  forall r, In r (get_affected_rows ts m) <-> exists t, In t ts /\ In r (inv_get t m).
Proof.
  intros m ts Hs. destruct (get_affected_fold m ts [] Hs sorted_nil) as [H1 H2].
  split; [exact H1|]. intros r. unfold get_affected_rows. rewrite H2. split; [|tauto].
  intros [[]|H]. exact H.
Qed.

Lemma mapM_ok : forall A B (f : A -> res B) (g : A -> B) l,
  (forall x, In x l -> f x = Ok (g x)) -> mapM f l = Ok (map g l).
Proof.
  intros A B f g l. induction l as [|x l IH]; intros H; [reflexivity|].
  cbn [mapM map]. rewrite (H x (or_introl eq_refl)). cbn [bind]. rewrite IH; [reflexivity|].
  intros y Hy. apply H. right. assumption.
Qed.

Lemma mapM_Forall2 : forall A B (f : A -> res B) (P : A -> B -> Prop) l,
  (forall x, In x l -> exists y, f x = Ok y /\ P x y) -> exists ys, mapM f l = Ok ys /\ Forall2 P l ys.
Proof.
  intros A B f P l. induction l as [|x l IH]; intros H.
  - exists []. split; [reflexivity|constructor].
  - destruct (H x (or_introl eq_refl)) as [y [E Hy]].
    destruct IH as [ys [E2 H2]]; [intros z Hz; apply H; right; assumption|].
    exists (y :: ys). cbn [mapM]. rewrite E. cbn [bind]. rewrite E2. cbn [bind].
    split; [reflexivity|constructor; assumption].
Qed.

(* ---- what the cleanup writes ------------------------------------------------------------------------ *)
Lemma filter_all : forall A (P : A -> bool) l, (forall x, In x l -> P x = true) -> filter P l = l.
Proof.
  intros A P l. induction l as [|x l IH]; intros H; [reflexivity|].
  cbn [filter]. rewrite (H x (or_introl eq_refl)). f_equal. apply IH. intros y Hy. apply H. right. assumption.
Qed.

Lemma cell_without_default : forall k ts, cell_without k (default k) ts = default k.
Proof. intros [] ts; cbn; [destruct (memZ 0 ts)|]; reflexivity. Qed.

Lemma cell_without_unaffected : forall k v ts,
  (forall t, In t ts -> ~ In t (value_iterable k v)) -> cell_without k v ts = v.
Proof.
  intros k v ts H. destruct k, v as [|z|l|s]; cbn [cell_without]; try reflexivity.
  - destruct (is_int_short z) eqn:Es; cbn [andb]; [|reflexivity].
    destruct (memZ z ts) eqn:Em; [|reflexivity].
    destruct (Z.eq_dec z 0) as [->|Hz]; [reflexivity|]. exfalso.
    apply memZ_In in Em. apply (H z Em). unfold value_iterable. cbn [truthy right_type].
    rewrite Es. apply Z.eqb_neq in Hz. rewrite Hz. left. reflexivity.
  - destruct (forallb is_int_short l) eqn:Es; [|reflexivity].
    destruct l as [|a l]; [reflexivity|].
    rewrite filter_all; [reflexivity|].
    intros x Hx. apply negb_true_iff. destruct (memZ x ts) eqn:Em; [|reflexivity]. exfalso.
    apply memZ_In in Em. apply (H x Em). unfold value_iterable. cbn [truthy right_type]. rewrite Es. exact Hx.
Qed.

Lemma cell_without_no_refs : forall k v ts t, In t ts -> ~ In t (value_iterable k (cell_without k v ts)).
Proof.
  intros k v ts t Ht. destruct k, v as [|z|l|s]; cbn [cell_without];
    try (unfold value_iterable; cbn [right_type truthy]; rewrite ?andb_false_r; cbn; tauto).
  - destruct (is_int_short z && memZ z ts) eqn:E; [cbn; tauto|].
    unfold value_iterable. cbn [truthy right_type].
    destruct (negb (z =? 0)%Z && is_int_short z) eqn:E2; [|cbn; tauto].
    intros [<-|[]]. apply andb_true_iff in E2. destruct E2 as [_ Es]. rewrite Es in E. cbn [andb] in E.
    apply memZ_In in Ht. congruence.
  - destruct (forallb is_int_short l) eqn:Es.
    + destruct (filter (fun t0 => negb (memZ t0 ts)) l) as [|a l'] eqn:Ef.
      * destruct l; cbn; tauto.
      * unfold value_iterable. destruct (truthy (CList (a :: l')) && right_type KRefList (CList (a :: l'))); [|cbn; tauto].
        rewrite <- Ef. intros Hin. apply filter_In in Hin. destruct Hin as [_ Hn].
        apply negb_true_iff in Hn. apply memZ_In in Ht. congruence.
    + unfold value_iterable. cbn [right_type]. rewrite Es, andb_false_r. cbn. tauto.
Qed.

Lemma cell_without_refs_sub : forall k v ts t,
  In t (value_iterable k (cell_without k v ts)) -> In t (value_iterable k v).
Proof.
  intros k v ts t. destruct k, v as [|z|l|s]; cbn [cell_without]; try tauto.
  - destruct (is_int_short z && memZ z ts); [cbn; tauto|tauto].
  - destruct (forallb is_int_short l) eqn:Es; [|tauto].
    destruct (filter (fun t0 => negb (memZ t0 ts)) l) as [|a l'] eqn:Ef.
    + destruct l; [tauto|cbn; tauto].
    + unfold value_iterable. cbn [right_type]. rewrite Es.
      destruct (truthy (CList (a :: l')) && forallb is_int_short (a :: l')); [|cbn; tauto].
      rewrite <- Ef. intros Hin. apply filter_In in Hin. destruct Hin as [Hin _].
      destruct l; [destruct Hin|]. cbn [truthy andb]. exact Hin.
Qed.

Lemma clean_up_cell_without : forall hack k v ts, value_iterable k v <> [] ->
  clean_up hack k (cell_without k v ts) = cell_without k v ts.
Proof.
  intros hack k v ts H. destruct k, v as [|z|l|s]; cbn [cell_without]; try reflexivity.
  - destruct (forallb is_int_short l); [|reflexivity].
    destruct (filter (fun t0 => negb (memZ t0 ts)) l); [destruct l|]; reflexivity.
  - exfalso. apply H. unfold value_iterable. cbn [right_type]. rewrite andb_false_r. reflexivity.
Qed.

Section RemovalProofs.
  Variable hack : list Z -> option (list Z).

  Lemma raw_get_without_affected : forall c r ts t, In t ts -> In t (refs c r) ->
    raw_get_without c r ts = Ok (cell_without (rc_kind c) (raw_get c r) ts).
  Proof.
    intros c r ts t Ht Hr. unfold raw_get_without, refs in *.
    destruct (rc_kind c) eqn:Ek; destruct (raw_get c r) as [|z|l|s] eqn:Ev;
      unfold value_iterable in Hr; cbn [truthy right_type andb] in Hr; try (destruct Hr; fail);
      try (rewrite andb_false_r in Hr; destruct Hr; fail).
    - destruct (negb (z =? 0)%Z && is_int_short z) eqn:E; [|destruct Hr].
      destruct Hr as [<-|[]]. apply andb_true_iff in E. destruct E as [_ Es].
      cbn [cell_without default]. rewrite Es. apply memZ_In in Ht. rewrite Ht. reflexivity.
    - cbn [right_type]. destruct (forallb is_int_short l) eqn:Es.
      + cbn [cell_without]. rewrite Es. destruct l as [|a l]; [destruct Hr|]. reflexivity.
      + rewrite andb_false_r in Hr. destruct Hr.
  Qed.

  Lemma unset_fold_spec : forall rows c, inv_ok c ->
    exists c1, fold_left (fun acc r => bind acc (fun c' => col_unset hack c' r)) rows (Ok c) = Ok c1 /\
      rc_kind c1 = rc_kind c /\ inv_ok c1 /\
      forall r', raw_get c1 r' = if memN r' rows then default (rc_kind c) else raw_get c r'.
  Proof.
    intros rows. induction rows as [|a rows IH]; intros c H.
    - exists c. split; [reflexivity|]. split; [reflexivity|]. split; [assumption|]. reflexivity.
    - destruct (col_unset_spec hack c a H) as [c' [E [Hk [Hg [_ Ho]]]]].
      destruct (IH c' Ho) as [c1 [E1 [Hk1 [Ho1 Hg1]]]].
      exists c1. cbn [fold_left bind]. rewrite E. split; [exact E1|]. split; [congruence|]. split; [assumption|].
      intros r'. rewrite Hg1, Hg, Hk. unfold memN. cbn [existsb]. fold (memN r' rows).
      destruct (r' =? a); destruct (memN r' rows); reflexivity.
  Qed.

  Lemma set_fold_spec : forall (f : nat -> cell) rs c, inv_ok c ->
    (forall r, In r rs -> clean_up hack (rc_kind c) (f r) = f r) ->
    exists c2, fold_left (fun acc rv => bind acc (fun c' => col_set hack c' (fst rv) (snd rv)))
                         (combine rs (map f rs)) (Ok c) = Ok c2 /\
      rc_kind c2 = rc_kind c /\ inv_ok c2 /\
      forall r', raw_get c2 r' = if memN r' rs then f r' else raw_get c r'.
  Proof.
    intros f rs. induction rs as [|a rs IH]; intros c H Hc.
    - exists c. split; [reflexivity|]. split; [reflexivity|]. split; [assumption|]. reflexivity.
    - destruct (col_set_spec hack c a (f a) H) as [c' [E [Hk [Hg [_ Ho]]]]].
      destruct (IH c' Ho) as [c2 [E2 [Hk2 [Ho2 Hg2]]]].
      { intros r Hr. rewrite Hk. apply Hc. right. assumption. }
      exists c2. cbn [map combine fold_left bind fst snd]. rewrite E. split; [exact E2|].
      split; [congruence|]. split; [assumption|].
      intros r'. rewrite Hg2, Hg. unfold memN. cbn [existsb]. fold (memN r' rs).
      destruct (r' =? a) eqn:Ea; destruct (memN r' rs); cbn [orb]; try reflexivity.
      apply Nat.eqb_eq in Ea. subst r'. apply Hc. left. reflexivity.
  Qed.
  (* the cleanup of one referring column: every cell ends up as cell_without says *)
  Lemma cleanup_spec : forall rows c1 targets, inv_ok c1 ->
    (forall r, (exists t, In t targets /\ In t (refs c1 r)) -> In r rows) ->
    exists c2,
      bind (get_updates c1 targets)
           (fun ups => match ups with
                       | [] => Ok c1
                       | _ => doc_bulk_update hack rows c1 (map fst ups) (map snd ups)
                       end) = Ok c2 /\
      rc_kind c2 = rc_kind c1 /\ inv_ok c2 /\
      forall r, raw_get c2 r = cell_without (rc_kind c1) (raw_get c1 r) targets.
  Proof.
    intros rows c1 targets Hok Hrows. pose proof Hok as [Hs Hm].
    set (k := rc_kind c1).
    set (f := fun r => cell_without k (raw_get c1 r) targets).
    destruct (get_affected_rows_spec (rc_inv c1) targets Hs) as [_ Haff].
    set (aff := get_affected_rows targets (rc_inv c1)) in *.
    assert (Haff' : forall r, In r aff <-> exists t, In t targets /\ In t (refs c1 r)).
    { intros r. rewrite Haff. split; intros [t [Ht H]]; exists t; (split; [assumption|]); apply Hm; assumption. }
    assert (Hups : get_updates c1 targets = Ok (map (fun r => (r, f r)) aff)).
    { unfold get_updates. fold aff. apply mapM_ok. intros r Hr. apply Haff' in Hr. destruct Hr as [t [Ht Hr]].
      rewrite (raw_get_without_affected c1 r targets t Ht Hr). reflexivity. }
    rewrite Hups. cbn [bind].
    assert (Hfst : map fst (map (fun r => (r, f r)) aff) = aff).
    { rewrite map_map. cbn [fst]. apply map_id. }
    assert (Hsnd : map snd (map (fun r => (r, f r)) aff) = map f aff).
    { rewrite map_map. reflexivity. }
    assert (Hunaff : forall r, ~ In r aff -> f r = raw_get c1 r).
    { intros r Hn. unfold f. apply cell_without_unaffected. intros t Ht Hr. apply Hn. apply Haff'.
      exists t. split; assumption. }
    assert (Hmain : exists c2, doc_bulk_update hack rows c1 aff (map f aff) = Ok c2 /\
                      rc_kind c2 = rc_kind c1 /\ inv_ok c2 /\ forall r, raw_get c2 r = f r).
    { unfold doc_bulk_update.
      assert (Hall : forallb (fun r => memN r rows) aff = true).
      { apply forallb_forall. intros r Hr. apply memN_In. apply Hrows. apply Haff'. assumption. }
      rewrite Hall.
      destruct (set_fold_spec f aff c1 Hok) as [c2 [E2 [Hk2 [Ho2 Hg2]]]].
      { intros r Hr. apply Haff' in Hr. destruct Hr as [t [_ Hr]]. unfold f. fold k.
        apply clean_up_cell_without. unfold refs in Hr. fold k in Hr. intros E. rewrite E in Hr. destruct Hr. }
      exists c2. split; [exact E2|]. split; [assumption|]. split; [assumption|].
      intros r. rewrite Hg2. destruct (memN r aff) eqn:Em; [reflexivity|].
      symmetry. apply Hunaff. intros Hin. apply memN_In in Hin. congruence. }
    destruct aff as [|a aff'] eqn:Eaff.
    - exists c1. cbn [map]. split; [reflexivity|]. split; [reflexivity|]. split; [assumption|].
      intros r. symmetry. apply Hunaff. intros [].
    - rewrite Hfst, Hsnd. cbn [map]. exact Hmain.
  Qed.
End RemovalProofs.

(* ---- the world ------------------------------------------------------------------------------------------ *)
Definition col_rows (trows : list nat) (w : wcol) : list nat := if w_own w then trows else w_rows w.

(* the reverse index is exact and only existing rows hold references *)
Definition wcol_ok (trows : list nat) (w : wcol) : Prop :=
  inv_ok (w_col w) /\ forall r, refs (w_col w) r <> [] -> In r (col_rows trows w).

Definition world_ok (wd : world) : Prop := Forall (wcol_ok (wd_rows wd)) (wd_cols wd).

(* the cell of row r after the removal: removed rows of the table's own columns are reset; referring cells lose
   exactly the removed targets *)
Definition expected_cell (w : wcol) (existing : list nat) (targets : list Z) (r : nat) : cell :=
  let k := rc_kind (w_col w) in
  let v1 := if w_own w && memN r existing then default k else raw_get (w_col w) r in
  if w_back w then cell_without k v1 targets else v1.

Section WorldProofs.
  Variable hack : list Z -> option (list Z).

  Lemma remove_one_spec : forall trows removed w,
    let existing := filter (fun r => memN r trows) removed in
    let trows' := filter (fun r => negb (memN r removed)) trows in
    let targets := map Z.of_nat removed in
    wcol_ok trows w ->
    exists w', remove_one hack trows' existing targets w = Ok w' /\
      w_own w' = w_own w /\ w_back w' = w_back w /\ rc_kind (w_col w') = rc_kind (w_col w) /\
      w_rows w' = col_rows trows' w /\ wcol_ok trows' w' /\
      forall r, raw_get (w_col w') r = expected_cell w existing targets r.
  Proof.
    intros trows removed w existing trows' targets [Hok Hrows].
    set (c := w_col w) in *. set (k := rc_kind c).
    (* phase 1 *)
    assert (H1 : exists c1,
               (if w_own w then fold_left (fun acc r => bind acc (fun c' => col_unset hack c' r)) existing (Ok c)
                else Ok c) = Ok c1 /\ rc_kind c1 = k /\ inv_ok c1 /\
               forall r, raw_get c1 r = if w_own w && memN r existing then default k else raw_get c r).
    { destruct (w_own w).
      - destruct (unset_fold_spec hack existing c Hok) as [c1 [E [Hk [Ho Hg]]]]. exists c1. auto.
      - exists c. split; [reflexivity|]. split; [reflexivity|]. split; [assumption|]. reflexivity. }
    destruct H1 as [c1 [E1 [Hk1 [Ho1 Hg1]]]].
    assert (Hrefs1 : forall r, refs c1 r <> [] -> refs c r <> [] /\ (w_own w = true -> ~ In r existing)).
    { intros r. unfold refs. rewrite Hk1, Hg1. fold k.
      destruct (w_own w) eqn:Eo; cbn [andb]; [|intros H; split; [assumption|discriminate]].
      destruct (memN r existing) eqn:Em.
      - rewrite iter_default. congruence.
      - intros H. split; [assumption|]. intros _ Hin. apply memN_In in Hin. congruence. }
    assert (Hin1 : forall r, refs c1 r <> [] -> In r (col_rows trows' w)).
    { intros r Hr. destruct (Hrefs1 r Hr) as [Hrc Hne]. specialize (Hrows r Hrc).
      unfold col_rows in *. destruct (w_own w); [|assumption].
      unfold trows'. apply filter_In. split; [assumption|]. apply negb_true_iff.
      destruct (memN r removed) eqn:Em; [|reflexivity]. exfalso. apply Hne; [reflexivity|].
      unfold existing. apply filter_In. split; [apply memN_In; assumption|apply memN_In; assumption]. }
    (* phase 2 *)
    assert (H2 : exists c2,
               (if w_back w
                then bind (get_updates c1 targets)
                       (fun ups => match ups with
                                   | [] => Ok c1
                                   | _ => doc_bulk_update hack (col_rows trows' w) c1 (map fst ups) (map snd ups)
                                   end)
                else Ok c1) = Ok c2 /\ rc_kind c2 = k /\ inv_ok c2 /\
               (forall r, raw_get c2 r = if w_back w then cell_without k (raw_get c1 r) targets else raw_get c1 r)).
    { destruct (w_back w).
      - destruct (cleanup_spec hack (col_rows trows' w) c1 targets Ho1) as [c2 [E2 [Hk2 [Ho2 Hg2]]]].
        { intros r [t [_ Ht]]. apply Hin1. intros E. rewrite E in Ht. destruct Ht. }
        exists c2. split; [exact E2|]. split; [congruence|]. split; [assumption|].
        intros r. rewrite Hg2, Hk1. reflexivity.
      - exists c1. split; [reflexivity|]. split; [assumption|]. split; [assumption|]. reflexivity. }
    destruct H2 as [c2 [E2 [Hk2 [Ho2 Hg2]]]].
    unfold remove_one. fold c. rewrite E1. cbn [bind]. fold (col_rows trows' w). rewrite E2. cbn [bind].
    eexists. split; [reflexivity|]. cbn [w_own w_back w_col w_rows].
    split; [reflexivity|]. split; [reflexivity|]. split; [exact Hk2|]. split; [reflexivity|]. split.
    - split; [exact Ho2|]. intros r Hr. cbn [w_col] in Hr.
      assert (Hr1 : refs c1 r <> []).
      { unfold refs in *. rewrite Hk2 in Hr. rewrite Hg2 in Hr. rewrite Hk1.
        destruct (w_back w); [|assumption]. intros E. apply Hr.
        destruct (value_iterable k (cell_without k (raw_get c1 r) targets)) as [|t l] eqn:Ev; [reflexivity|].
        exfalso. assert (Hin : In t (value_iterable k (raw_get c1 r))).
        { apply (cell_without_refs_sub k _ targets). rewrite Ev. left. reflexivity. }
        rewrite E in Hin. destruct Hin. }
      specialize (Hin1 r Hr1). unfold col_rows in *. cbn [w_own w_rows]. destruct (w_own w); assumption.
    - intros r. rewrite Hg2. unfold expected_cell. fold c k. rewrite Hg1. reflexivity.
  Qed.
  Lemma Forall2_Forall_r : forall A B (P : A -> B -> Prop) (Q : B -> Prop) l l',
    Forall2 P l l' -> (forall x y, P x y -> Q y) -> Forall Q l'.
  Proof. intros A B P Q l l' H HPQ. induction H; constructor; eauto. Qed.

  Theorem remove_rows_spec : forall wd removed, world_ok wd ->
    let existing := filter (fun r => memN r (wd_rows wd)) removed in
    let targets := map Z.of_nat removed in
    exists wd', remove_rows hack wd removed = Ok wd' /\
      wd_rows wd' = filter (fun r => negb (memN r removed)) (wd_rows wd) /\
      world_ok wd' /\
      Forall2 (fun w w' => w_own w' = w_own w /\ w_back w' = w_back w /\
                           rc_kind (w_col w') = rc_kind (w_col w) /\
                           (forall r, raw_get (w_col w') r = expected_cell w existing targets r) /\
                           w_rows w' = col_rows (filter (fun r => negb (memN r removed)) (wd_rows wd)) w)
              (wd_cols wd) (wd_cols wd').
  Proof.
    intros wd removed Hok existing targets. unfold remove_rows. fold existing. fold targets.
    set (trows' := filter (fun r => negb (memN r removed)) (wd_rows wd)).
    destruct (mapM_Forall2 _ _ (remove_one hack trows' existing targets)
                (fun w w' => w_own w' = w_own w /\ w_back w' = w_back w /\
                             rc_kind (w_col w') = rc_kind (w_col w) /\
                             w_rows w' = col_rows trows' w /\ wcol_ok trows' w' /\
                             forall r, raw_get (w_col w') r = expected_cell w existing targets r)
                (wd_cols wd)) as [cols' [E HF]].
    { intros w Hw. unfold world_ok in Hok. rewrite Forall_forall in Hok.
      apply (remove_one_spec (wd_rows wd) removed w). apply Hok. assumption. }
    rewrite E. cbn [bind]. eexists. split; [reflexivity|]. cbn [wd_rows wd_cols].
    split; [reflexivity|]. split.
    - unfold world_ok. cbn [wd_rows wd_cols]. eapply Forall2_Forall_r; [exact HF|].
      intros x y H. cbv beta in H. tauto.
    - clear E. induction HF as [|x y l l' H HF IH]; constructor; [cbv beta in H; tauto|exact IH].
  Qed.

  (* after the cleanup no referring cell mentions a removed row *)
  Lemma expected_no_refs : forall w existing targets r t, w_back w = true -> In t targets ->
    ~ In t (value_iterable (rc_kind (w_col w)) (expected_cell w existing targets r)).
  Proof.
    intros w existing targets r t Hb Ht. unfold expected_cell. rewrite Hb. apply cell_without_no_refs. assumption.
  Qed.
  (* any history of removals *)
  Fixpoint remove_seq (wd : world) (l : list (list nat)) : res world :=
    match l with
    | [] => Ok wd
    | removed :: l' => bind (remove_rows hack wd removed) (fun wd' => remove_seq wd' l')
    end.

  Lemma remove_seq_ok : forall l wd, world_ok wd -> exists wd', remove_seq wd l = Ok wd' /\ world_ok wd'.
  Proof.
    induction l as [|removed l IH]; intros wd H.
    - exists wd. split; [reflexivity|assumption].
    - destruct (remove_rows_spec wd removed H) as [wd1 [E1 [_ [H1 _]]]].
      destruct (IH wd1 H1) as [wd' [E' H']]. exists wd'. cbn [remove_seq]. rewrite E1. cbn [bind]. auto.
  Qed.

  Lemma run_inv_ok : forall k ops c, run hack k ops = Ok c -> inv_ok c /\ rc_kind c = k.
  Proof.
    intros k ops c E. destruct (run_from_ok hack true ops (col_new k) (col_new_ok k) (or_introl eq_refl)) as [c' [E' [H' K']]].
    unfold run in E. rewrite E' in E. inversion E; subst. split; [assumption|exact K'].
  Qed.
End WorldProofs.

(* END-PART-3 *)
