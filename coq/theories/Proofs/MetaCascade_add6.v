(* K6 proofs, part 18: creation of a summary table with its raw section, and CreateViewSection with group-by
   columns. *)
From Coq Require Import ZArith List Bool Lia.
Import ListNotations.
Require Import Grist.Model.MetaCascade Grist.Proofs.MetaCascade_base Grist.Proofs.MetaCascade_inv
  Grist.Proofs.MetaCascade_rm
  Grist.Proofs.MetaCascade_add Grist.Proofs.MetaCascade_add2 Grist.Proofs.MetaCascade_add3
  Grist.Proofs.MetaCascade_add4.
Open Scope Z_scope.

Lemma zseq_app : forall n k a, zseq a n ++ zseq (a + Z.of_nat n) k = zseq a (n + k).
Proof.
  induction n as [|n IH]; intros k a; simpl zseq.
  - simpl. replace (a + 0) with a by lia. reflexivity.
  - simpl. f_equal. rewrite <- IH. f_equal. f_equal. lia.
Qed.

Lemma combine3_ids : forall (f : Z * Z * Z -> crec) (a gb ks : list Z),
  (forall p, c_id (f p) = fst (fst p)) -> length a = length gb -> length gb = length ks ->
  map c_id (map f (combine (combine a gb) ks)) = a.
Proof.
  intros f a gb ks Hf H1 H2. rewrite map_map.
  rewrite (map_ext _ (fun p => fst (fst p))) by exact Hf.
  rewrite <- (map_map fst fst). rewrite combine_fst by (rewrite combine_length; lia).
  apply combine_fst. exact H1.
Qed.

Lemma add_summary_table_inv : forall name src gb gbkinds fkinds m m' t,
  Inv m -> In src (tids m) -> incl gb (cids m) ->
  add_summary_table name src gb gbkinds fkinds m = Ok (m', t) ->
  Inv m' /\ In t (tids m') /\ m_views m' = m_views m /\ incl (tids m) (tids m') /\
  (forall c, In c (m_columns m') -> c_parent c = t -> ~ In c (m_columns m)).
Proof.
  intros name src gb gbkinds fkinds m m' t0 HI Hsrc Hgb H. unfold add_summary_table in H.
  destruct (mem name (m_schema m) || mem name (map t_name (m_tables m))) eqn:En; [discriminate|].
  apply orb_false_iff in En. destruct En as [En1 En2]. apply mem_false in En1. apply mem_false in En2.
  destruct (negb (Nat.eqb (length gb) (length gbkinds)) || negb (nodupb gb)) eqn:El; [discriminate|].
  apply orb_false_iff in El. destruct El as [El _]. apply negb_false_iff in El. apply Nat.eqb_eq in El.
  set (t := next_id (tids m)) in *. set (c0 := next_id (cids m)) in *.
  set (gf := fun p : Z * Z * Z => match find_column m (snd (fst p)) with
             | Some sc => mkC (fst (fst p)) t (snd p) 0 (c_visible sc) (c_id sc) [] (c_reft sc)
             | None => mkC (fst (fst p)) t (snd p) 0 0 0 [] 0 end) in *.
  set (gcols := map gf (combine (combine (zseq c0 (length gb)) gb) gbkinds)) in *.
  set (ff := fun c => if c_kind c =? K_GROUP then mkC (c_id c) t (c_kind c) 0 0 0 [] src else c) in *.
  set (fcols := map ff (new_columns (c0 + Z.of_nat (length gb)) t fkinds)) in *.
  set (m0 := mkM (m_tables m ++ [mkT t name 0 src 0 0]) (m_columns m ++ gcols ++ fcols)
                 (m_views m) (m_sections m) (m_fields m) (m_tabbar m) (m_pages m) (m_schema m ++ [name])) in *.
  assert (E0 : m0 = extend m [mkT t name 0 src 0 0] (gcols ++ fcols) [] [] [] [] [] [name]).
  { unfold m0, extend. rewrite !app_nil_r. reflexivity. }
  assert (Ht0 : In t (tids m0)) by (unfold m0, tids; simpl; rewrite map_app; apply in_app_iff; right; left; reflexivity).
  assert (Hti : incl (tids m) (tids m0)) by (unfold m0, tids; simpl; rewrite map_app; apply incl_appl, incl_refl).
  assert (Hci : incl (cids m) (cids m0)) by (unfold m0, cids; simpl; rewrite map_app; apply incl_appl, incl_refl).
  assert (Hgid : map c_id gcols = zseq c0 (length gb)).
  { unfold gcols. apply combine3_ids; [|apply zseq_length | exact El].
    intros p. unfold gf. destruct (find_column m (snd (fst p))); reflexivity. }
  assert (Hfid : map c_id fcols = zseq (c0 + Z.of_nat (length gb)) (length fkinds)).
  { unfold fcols. rewrite map_map_id; [apply new_columns_ids|]. intros c. unfold ff. destruct (c_kind c =? K_GROUP); reflexivity. }
  assert (Hpar : forall c, In c (gcols ++ fcols) -> c_parent c = t).
  { intros c Hc. apply in_app_iff in Hc. destruct Hc as [Hc|Hc].
    - unfold gcols in Hc. apply in_map_iff in Hc. destruct Hc as [p [E _]]. subst c. unfold gf.
      destruct (find_column m (snd (fst p))); reflexivity.
    - unfold fcols in Hc. apply in_map_iff in Hc. destruct Hc as [c1 [E Hc1]]. subst c. unfold ff.
      apply new_columns_In in Hc1. destruct (c_kind c1 =? K_GROUP); [reflexivity | tauto]. }
  assert (HI0 : InvX [t] m0).
  { rewrite E0. destruct (inv_ids [] m HI) as [A [B [C1 [D1 [E1 [F1 G1]]]]]]. destruct (inv_names [] m HI) as [N1 [N2 [N3 N4]]].
    apply inv_extend; try (intros ? Hnil; exact (False_ind _ Hnil)).
    - apply (InvX_weaken [] [t]); [intros x [] | exact HI].
    - apply IdsOk_extend; try (apply IdList_nil; assumption).
      + simpl. apply IdList_snoc. exact A.
      + rewrite map_app, Hgid, Hfid, zseq_app. apply IdList_zseq. exact B.
    - unfold NamesOk, extend. simpl. rewrite map_app. simpl.
      split; [apply NoDup_snoc; assumption|]. split; [apply NoDup_snoc; assumption|].
      split; intros x Hx; apply in_app_iff in Hx; apply in_app_iff; destruct Hx as [Hx|Hx]; auto.
    - intros c Hc. rewrite <- E0. unfold ColOk. rewrite (Hpar c Hc). split; [exact Ht0|].
      apply in_app_iff in Hc. destruct Hc as [Hc|Hc].
      + unfold gcols in Hc. apply in_map_iff in Hc. destruct Hc as [p [E _]]. subst c. unfold gf.
        destruct (find_column m (snd (fst p))) as [sc|] eqn:Ef; simpl.
        * apply find_column_some in Ef. destruct Ef as [Hsc _]. destruct (inv_col [] m HI sc Hsc) as [_ [_ [Jv _]]].
          split; [left; reflexivity|]. split; [apply (Optref_mono (cids m)); assumption|].
          split; [right; apply Hci; unfold cids; apply in_map; exact Hsc | intros x []].
        * split; [left; reflexivity|]. split; [left; reflexivity|]. split; [left; reflexivity | intros x []].
      + unfold fcols in Hc. apply in_map_iff in Hc. destruct Hc as [c1 [E Hc1]]. subst c. unfold ff.
        apply new_columns_In in Hc1. destruct Hc1 as [_ [H2 [H3 [H4 H5]]]].
        destruct (c_kind c1 =? K_GROUP); simpl; [|rewrite H2, H3, H4, H5];
          (split; [left; reflexivity|]; split; [left; reflexivity|]; split; [left; reflexivity | intros x []]).
    - intros r [Hr|[]] Hx. subst r. exfalso. apply Hx. left. reflexivity. }
  pose proof (section_with_fields_inv [t] t 0 false m0 HI0 Ht0 (or_introl eq_refl)) as HI2.
  destruct (add_section_sec t 0 false m0) as [S1 [C1 [T1 V1]]].
  destruct (add_section t 0 false m0) as [m1 sraw]. simpl in HI2, S1, C1, T1, V1.
  set (m2 := add_fields sraw (visible_cols m1 t) m1) in *.
  assert (F2 : m_tables m2 = m_tables m1 /\ m_columns m2 = m_columns m1 /\ m_sections m2 = m_sections m1 /\
               m_views m2 = m_views m1) by (apply add_fields_frame).
  destruct F2 as [T2 [C2 [S2 V2]]].
  inversion H; subst m' t0. clear H.
  assert (T20 : m_tables m2 = m_tables m ++ [mkT t name 0 src 0 0]) by (rewrite T2, T1; reflexivity).
  assert (Hraw : In (mkS sraw t 0 [] false) (m_sections m2)) by (rewrite S2; exact S1).
  assert (Hfin : Inv (set_tables m2 (map (fun r => if t_id r =? t then mkT t name 0 src sraw 0 else r) (m_tables m2)))).
  { apply (upd_table_inv t (mkT t name 0 src sraw 0) m2); [exact HI2 | reflexivity | |].
    - intros r Hr Er. rewrite T20 in Hr. apply in_app_iff in Hr. destruct Hr as [Hr|[Hr|[]]].
      + exfalso. apply (next_id_fresh (tids m)). fold t. rewrite <- Er. unfold tids. apply in_map. exact Hr.
      + subst r. reflexivity.
    - unfold TableOk, SecOfTable, set_tables. cbn [m_sections m_views t_raw t_card t_id t_pview t_src].
      split; [exists (mkS sraw t 0 [] false); split; [exact Hraw | simpl; tauto]|].
      split; [left; reflexivity|]. split; [left; reflexivity|]. right.
      unfold tids. cbn [m_tables]. rewrite map_map. apply in_map_iff.
      apply in_map_iff in Hsrc. destruct Hsrc as [r [Er Hr]]. exists r.
      assert (Hne : t_id r <> t).
      { intro E. apply (next_id_fresh (tids m)). fold t. rewrite <- E. unfold tids. apply in_map. exact Hr. }
      apply Z.eqb_neq in Hne. rewrite Hne. split; [exact Er|]. try rewrite <- T2. rewrite T20.
      apply in_app_iff. left. exact Hr. }
  split; [exact Hfin|].
  assert (Etids : tids (set_tables m2 (map (fun r => if t_id r =? t then mkT t name 0 src sraw 0 else r) (m_tables m2)))
                  = tids m ++ [t]).
  { unfold tids, set_tables. cbn [m_tables]. rewrite map_map. try rewrite <- T2. rewrite T20, map_app. simpl.
    rewrite Z.eqb_refl. simpl. f_equal. apply map_ext_in. intros r Hr.
    destruct (t_id r =? t) eqn:E; [|reflexivity]. apply Z.eqb_eq in E. exfalso.
    apply (next_id_fresh (tids m)). fold t. rewrite <- E. unfold tids. apply in_map. exact Hr. }
  assert (G2 : In t (tids m ++ [t])) by (apply in_app_iff; right; left; reflexivity).
  assert (G4 : incl (tids m) (tids m ++ [t])) by (apply incl_appl, incl_refl).
  rewrite <- Etids in G2, G4.
  split; [exact G2|].
  split; [unfold set_tables; cbn [m_views]; try rewrite V2; try rewrite V1; reflexivity|].
  split; [exact G4|].
  intros c Hc Ep Hin.
  apply (next_id_fresh (tids m)). fold t. rewrite <- Ep.
  destruct (inv_col [] m HI c Hin) as [J _]. exact J.
Qed.
