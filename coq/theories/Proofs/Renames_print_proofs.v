(* C16: printing commutes with renaming -- the text of the renamed tree is the text of the tree with its name-token
   segments renamed; so patching the formula TEXT (Part B) produces the text of the renamed TREE (Part A). *)
From Coq Require Import ZArith List Bool Lia.
Import ListNotations.
Require Import Grist.Model.Renames Grist.Model.RenamesPrint.
Require Import Grist.Proofs.Renames_proofs Grist.Proofs.Renames_fresh_proofs Grist.Proofs.Renames_text_proofs.
Open Scope Z_scope.

Lemma pr_ELookup : forall d self G one t ks ob,
  pr d self G (ELookup one t ks ob) =
  [Nm t None; Lit (if one then S_LOOKUPONE else S_LOOKUPRECORDS)] ++ pr_keys d self G t true ks
  ++ pr_kw (match ks with KNil => true | _ => false end) S_ORDERBY (Some t) ob ++ [Lit S_RPAR].
Proof. reflexivity. Qed.

Lemma pr_keys_KCons : forall d self G t first k e ks,
  pr_keys d self G t first (KCons k e ks) =
  [Lit (if first then [] else S_COMMA); Nm t (Some k); Lit S_EQ] ++ pr d self G e ++ pr_keys d self G t false ks.
Proof. reflexivity. Qed.

Section PrintRename.
  Variable rt : name -> name.
  Variable rc : name -> name -> name.
  Hypothesis tab_inj : forall a b, name_eqb (rt a) (rt b) = name_eqb a b.
  Hypothesis col_inj : forall t a b, name_eqb (rc t a) (rc t b) = name_eqb a b.
  Variable d : doc.

  Notation rs := (rn_seg rt rc).
  Notation rG := (rnG rt).

  Lemma nm_col_rn : forall ot c, rs (nm_col ot c) = nm_col (option_map rt ot) (rn_opt_col rc ot c).
  Proof. intros [t|] c; reflexivity. Qed.

  Lemma pr_ob_item_rn : forall ot p,
    map rs (pr_ob_item ot p) = pr_ob_item (option_map rt ot) (fst p, rn_opt_col rc ot (snd p)).
  Proof. intros ot [b c]. cbn. rewrite nm_col_rn. reflexivity. Qed.

  Definition rn_opt_ob' (ot : option name) (ob : list (bool * name)) : list (bool * name) :=
    map (fun p => (fst p, rn_opt_col rc ot (snd p))) ob.

  Lemma rn_opt_ob_eq : forall ot ob, rn_opt_ob rc ot ob = rn_opt_ob' ot ob.
  Proof.
    intros [t|] ob; cbn; [reflexivity|]. unfold rn_opt_ob'. cbn. induction ob as [|[b c] ob IH]; [reflexivity|].
    cbn. rewrite <- IH. reflexivity.
  Qed.

  Lemma pr_ob_items_rn : forall ot ob, map rs (pr_ob_items ot ob) = pr_ob_items (option_map rt ot) (rn_opt_ob' ot ob).
  Proof.
    intros ot ob. induction ob as [|p ob IH]; [reflexivity|]. destruct ob as [|q ob].
    - cbn [pr_ob_items rn_opt_ob' map]. apply pr_ob_item_rn.
    - change (pr_ob_items ot (p :: q :: ob)) with (pr_ob_item ot p ++ [Lit S_COMMA] ++ pr_ob_items ot (q :: ob)).
      rewrite !map_app. rewrite IH. rewrite pr_ob_item_rn. reflexivity.
  Qed.

  Lemma pr_ob_rn : forall ot ob, map rs (pr_ob ot ob) = pr_ob (option_map rt ot) (rn_opt_ob' ot ob).
  Proof.
    intros ot ob. destruct ob as [|p [|q ob]].
    - reflexivity.
    - cbn [pr_ob rn_opt_ob' map]. apply pr_ob_item_rn.
    - change (pr_ob ot (p :: q :: ob)) with ([Lit S_LPAR] ++ pr_ob_items ot (p :: q :: ob) ++ [Lit S_RPAR]).
      rewrite !map_app. rewrite pr_ob_items_rn. reflexivity.
  Qed.

  Lemma pr_kw_rn : forall first kw ot ob,
    map rs (pr_kw first kw ot ob) = pr_kw first kw (option_map rt ot) (rn_opt_ob' ot ob).
  Proof.
    intros first kw ot ob. destruct ob as [|p ob]; [reflexivity|].
    change (pr_kw first kw ot (p :: ob)) with ([Lit ((if first then [] else S_COMMA) ++ kw)] ++ pr_ob ot (p :: ob)).
    rewrite map_app, pr_ob_rn. reflexivity.
  Qed.

  Lemma pr_ren_mut :
    (forall e self G,
       pr (rename_doc rt rc d) (rt self) (rG G) (ren rt rc d self G e) = map rs (pr d self G e)) /\
    (forall ks self G t first,
       pr_keys (rename_doc rt rc d) (rt self) (rG G) (rt t) first (ren_keys rt rc d self G t ks)
       = map rs (pr_keys d self G t first ks)).
  Proof.
    apply expr_keys_ind; try (intros; reflexivity).
    - (* ECol *) intros e IH c self G. cbn [ren pr]. rewrite map_app, IH, (infer_rn rt rc tab_inj col_inj).
      cbn [map]. rewrite nm_col_rn. reflexivity.
    - (* EId *) intros e IH self G. cbn [ren pr]. rewrite map_app, IH. reflexivity.
    - (* ELookup *) intros one t ks IH ob self G. rewrite ren_ELookup, !pr_ELookup. rewrite !map_app.
      rewrite IH. rewrite pr_kw_rn. cbn [option_map map rn_seg].
      replace (rn_opt_ob' (Some t) ob) with (rn_ob rc t ob) by reflexivity.
      destruct ks; reflexivity.
    - (* EComp *) intros body IHb x src IHs self G. cbn [ren pr]. rewrite !map_app. rewrite <- IHb, <- IHs.
      rewrite (comp_type_rn rt rc). reflexivity.
    - (* ECompIf *) intros body IHb x src IHs cond IHc self G. cbn [ren pr]. rewrite !map_app.
      rewrite <- IHb, <- IHs, <- IHc. rewrite (comp_type_rn rt rc). reflexivity.
    - (* EPrevNext *) intros w e IH gb ob self G. cbn [ren pr]. rewrite !map_app. rewrite <- IH.
      rewrite (infer_rn rt rc tab_inj col_inj). rewrite !pr_kw_rn. rewrite rn_opt_ob_eq.
      unfold rn_opt_ob'. rewrite !map_map. reflexivity.
    - (* EPrim1 *) intros f e IH self G. cbn [ren pr]. rewrite !map_app, <- IH. reflexivity.
    - (* EPrim2 *) intros f a IHa b IHb self G. cbn [ren pr]. rewrite !map_app, <- IHa, <- IHb. reflexivity.
    - (* EIf *) intros c IHc a IHa b IHb self G. cbn [ren pr]. rewrite !map_app, <- IHc, <- IHa, <- IHb. reflexivity.
    - (* KCons *) intros k e IHe ks IHk self G t first. rewrite ren_keys_KCons, !pr_keys_KCons.
      rewrite !map_app. rewrite <- IHe, <- IHk. reflexivity.
  Qed.

  (* patching the text of a printed formula gives the text of the renamed formula *)
  Theorem print_rename_commutes_proof : forall self f reported,
    names_complete rt rc (flatten (pr d self [] f)) (pr d self [] f) reported ->
    rename_text rt rc (flatten (pr d self [] f)) reported
    = ROk (flatten (pr (rename_doc rt rc d) (rt self) [] (ren rt rc d self [] f))).
  Proof.
    intros self f reported H. rewrite (rename_text_spec _ _ _ _ _ H).
    pose proof (proj1 pr_ren_mut f self []) as E. cbn [rnG map] in E. rewrite E. reflexivity.
  Qed.
End PrintRename.
