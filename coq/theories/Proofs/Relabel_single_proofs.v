(* C20, partial renumbering path, assembled for calls whose requests all fall into ONE gap (one group) between valid
   neighbours: whatever the model returns satisfies Spec. *)
From Coq Require Import ZArith List Bool Lia Sorted Permutation.
Import ListNotations.
Require Import Grist.Lib.Fl64 Grist.Proofs.Fl64_proofs Grist.Proofs.Fl64_mono_proofs Grist.Proofs.Fl64_err_proofs Grist.Model.Relabel
               Grist.Proofs.Sort_by_proofs Grist.Proofs.Relabel_ungroup_proofs Grist.Proofs.Relabel_check_proofs
               Grist.Proofs.Relabel_total_proofs Grist.Proofs.Relabel_renumber_proofs
               Grist.Proofs.Relabel_plain_proofs Grist.Proofs.Relabel_plain2_proofs Grist.Proofs.Relabel_guard_proofs
               Grist.Proofs.Relabel_sparse_proofs Grist.Proofs.Relabel_spread_proofs Grist.Proofs.Relabel_levels_proofs
               Grist.Proofs.Relabel_getkey_proofs Grist.Proofs.Relabel_block_proofs Grist.Proofs.Relabel_widegap_proofs.
Open Scope Z_scope.

(* ---------------------------------------------------------------------------------------------- *)
(* the sort of _do_adjust_range: rows below the gap, the new keys, rows above the gap *)

Definition itrR (R : list fl) : list (fl * bool * Z) :=
  map (fun t => (nth t R FNaN, true, Z.of_nat t)) (seq 0 (length R)).

Lemma otr_app l1 : forall l2 s, otr (l1 ++ l2) s = otr l1 s ++ otr l2 (s + length l1).
Proof.
  induction l1 as [|x t IH]; intros l2 s; cbn [app otr length]; [rewrite Nat.add_0_r; reflexivity|].
  rewrite IH. replace (S s + length t)%nat with (s + S (length t))%nat by lia. reflexivity.
Qed.

Lemma insert_split {A} (lt : A -> A -> bool) x l1 l2 :
  (forall y, In y l1 -> lt x y = false) -> (forall z r, l2 = z :: r -> lt x z = true) ->
  insert_by lt x (l1 ++ l2) = l1 ++ x :: l2.
Proof.
  intros H1 H2. destruct l2 as [|z r].
  - rewrite app_nil_r. apply insert_at_end. exact H1.
  - apply insert_middle; [exact H1 | apply (H2 z r eq_refl)].
Qed.

Lemma otr_FOP : forall l s, (forall i j, (i <= j < length l)%nat -> fle (nth i l FNaN) (nth j l FNaN) = true) ->
  ForallOrdPairs (fun a b => triple_lt b a = false) (otr l s).
Proof.
  induction l as [|x t IH]; intros s Hs; cbn [otr]; constructor.
  - rewrite Forall_forall. intros p Hp. destruct (otr_In _ _ _ Hp) as (y & j & -> & Hy & Hj).
    destruct (In_nth _ _ FNaN Hy) as (i & Hi & <-).
    assert (Hle : fle x (nth i t FNaN) = true) by (apply (Hs 0%nat (S i)); cbn; lia).
    apply fle_iff in Hle. destruct Hle as (N1 & N2 & Hle).
    cbn [triple_lt]. apply orb_false_intro.
    + destruct (flt (nth i t FNaN) x) eqn:E; [apply flt_iff in E; lia | reflexivity].
    + apply andb_false_intro2. cbn [bool_lt negb andb Bool.eqb orb]. apply Z.ltb_ge. lia.
  - apply IH. intros i j Hij. apply (Hs (S i) (S j)). cbn. lia.
Qed.

Section SortTriples.
Variables (l1 l2 R : list fl) (s1 : nat).
Hypothesis Hrows : forall i j, (i <= j < length (l1 ++ l2))%nat -> fle (nth i (l1 ++ l2) FNaN) (nth j (l1 ++ l2) FNaN) = true.
Hypothesis HR : forall i j, (i <= j < length R)%nat -> fle (nth i R FNaN) (nth j R FNaN) = true.
Hypothesis H1R : forall x r, In x l1 -> In r R -> fle x r = true.
Hypothesis HR2 : forall r x, In r R -> In x l2 -> flt r x = true.

Lemma sort_rows_keys :
  sort_by triple_lt (otr (l1 ++ l2) s1 ++ itrR R) = otr l1 s1 ++ itrR R ++ otr l2 (s1 + length l1).
Proof.
  unfold sort_by. rewrite fold_left_app.
  rewrite (fold_insert_id triple_lt (otr (l1 ++ l2) s1) []); [|intros x y _ []|apply otr_FOP; exact Hrows].
  cbn [app]. rewrite otr_app.
  (* insert the keys one by one between the two groups of rows *)
  assert (Hgen : forall r t, (t + r = length R)%nat ->
            fold_left (fun acc x => insert_by triple_lt x acc)
              (map (fun t => (nth t R FNaN, true, Z.of_nat t)) (seq t r))
              (otr l1 s1 ++ map (fun t => (nth t R FNaN, true, Z.of_nat t)) (seq 0 t) ++ otr l2 (s1 + length l1))
            = otr l1 s1 ++ itrR R ++ otr l2 (s1 + length l1)).
  { induction r as [|r IH]; intros t Ht; cbn [seq map fold_left].
    - unfold itrR. replace (length R) with t by lia. reflexivity.
    - rewrite app_assoc. rewrite insert_split.
      + rewrite <- app_assoc. cbn [app].
        replace (map (fun t0 => (nth t0 R FNaN, true, Z.of_nat t0)) (seq 0 t) ++ (nth t R FNaN, true, Z.of_nat t) :: otr l2 (s1 + length l1))
          with (map (fun t0 => (nth t0 R FNaN, true, Z.of_nat t0)) (seq 0 (S t)) ++ otr l2 (s1 + length l1))
          by (rewrite seq_S, map_app, <- app_assoc; reflexivity).
        apply IH. lia.
      + intros y Hy. apply in_app_or in Hy. destruct Hy as [Hy|Hy].
        * destruct (otr_In _ _ _ Hy) as (x & j & -> & Hx & _).
          assert (Hle : fle x (nth t R FNaN) = true) by (apply H1R; [exact Hx | apply nth_In; lia]).
          apply fle_iff in Hle. destruct Hle as (N1 & N2 & Hle). cbn [triple_lt]. apply orb_false_intro.
          -- destruct (flt (nth t R FNaN) x) eqn:E; [apply flt_iff in E; lia | reflexivity].
          -- apply andb_false_intro2. reflexivity.
        * apply in_map_iff in Hy. destruct Hy as (t' & <- & Ht'). apply in_seq in Ht'.
          assert (Hle : fle (nth t' R FNaN) (nth t R FNaN) = true) by (apply HR; lia).
          apply fle_iff in Hle. destruct Hle as (N1 & N2 & Hle). cbn [triple_lt]. apply orb_false_intro.
          -- destruct (flt (nth t R FNaN) (nth t' R FNaN)) eqn:E; [apply flt_iff in E; lia | reflexivity].
          -- apply andb_false_intro2. cbn [bool_lt negb andb Bool.eqb orb]. apply Z.ltb_ge. lia.
      + intros z rr Hz. destruct l2 as [|x2 t2]; [discriminate|]. cbn [otr] in Hz. inversion Hz; subst.
        cbn [triple_lt]. rewrite (HR2 (nth t R FNaN) x2); [reflexivity | apply nth_In; lia | left; reflexivity]. }
  apply (Hgen (length R) 0%nat). lia.
Qed.
End SortTriples.

(* ---------------------------------------------------------------------------------------------- *)
(* the loop of _do_adjust_range *)

Lemma al_add_end p : forall l, Forall (fun q => fle (snd q) (snd p) = true) l -> al_add p l = l ++ [p].
Proof.
  induction l as [|q t IH]; intros H; cbn; [reflexivity|].
  inversion H as [|? ? Hq Ht]; subst. rewrite Hq. f_equal. apply IH. exact Ht.
Qed.
Lemma al_discard_absent p : forall l, (forall q, In q l -> fst q <> fst p) -> al_discard p l = l.
Proof.
  induction l as [|q t IH]; intros H; cbn; [reflexivity|].
  replace (fst q =? fst p) with false by (symmetry; apply Z.eqb_neq; apply H; left; reflexivity).
  cbn [andb]. f_equal. apply IH. intros; apply H; right; assumption.
Qed.

Lemma phase_rows : forall l s ks adjs0 inss0,
  length ks = length l ->
  (forall q, In q adjs0 -> fst q < Z.of_nat s) ->
  StronglySorted Fle (map snd adjs0 ++ ks) ->
  fold_left adjust_step (combine (otr l s) ks) (Ok (mkwl adjs0 inss0)) =
  Ok (mkwl (adjs0 ++ combine (map Z.of_nat (seq s (length l))) ks) inss0).
Proof.
  induction l as [|x t IH]; intros s ks adjs0 inss0 Hlen Hidx Hs; destruct ks as [|k kt]; cbn [length] in Hlen; try lia;
    cbn [otr combine fold_left length seq map].
  - rewrite app_nil_r. reflexivity.
  - unfold adjust_step at 2. cbn [bind adjs inss].
    rewrite al_discard_absent by (intros q Hq; cbn [fst]; specialize (Hidx q Hq); lia).
    rewrite al_add_end.
    + rewrite IH.
      * rewrite <- app_assoc. reflexivity.
      * lia.
      * intros q Hq. apply in_app_or in Hq. destruct Hq as [Hq|[<-|[]]]; [specialize (Hidx q Hq); lia | cbn [fst]; lia].
      * rewrite map_app. cbn [map snd]. rewrite <- app_assoc. exact Hs.
    + rewrite Forall_forall. intros q Hq. cbn [snd].
      clear - Hs Hq. induction adjs0 as [|a adjs0 IHa]; [destruct Hq|]. cbn [map app] in Hs.
      inversion Hs as [|? ? H1 H2]; subst. destruct Hq as [->|Hq]; [|apply IHa; assumption].
      rewrite Forall_forall in H2. apply H2. apply in_or_app. right. left. reflexivity.
Qed.


Lemma posfin_feq x y : posfin x -> posfin y -> feq x y = true -> x = y.
Proof. intros [a ->] [b ->] H. apply feq_iff in H. cbn [ford] in H. f_equal. lia. Qed.

Lemma posfin_nn x : posfin x -> is_nan x = false.
Proof. intros [a ->]. reflexivity. Qed.

Lemma sl_remove_perm v : forall l, Forall posfin l -> posfin v -> In v l -> StronglySorted Fle l ->
  exists l', sl_remove v l = Some l' /\ Permutation l (v :: l') /\ StronglySorted Fle l'.
Proof.
  induction l as [|y t IH]; intros Hpf Hv Hin Hs; [destruct Hin|].
  inversion Hpf as [|? ? Hy Ht]; subst. inversion Hs as [|? ? Hst Hyt]; subst. cbn [sl_remove].
  destruct (feq y v) eqn:E.
  - exists t. split; [reflexivity|]. rewrite (posfin_feq y v Hy Hv E). split; [reflexivity | exact Hst].
  - destruct Hin as [->|Hin].
    + exfalso. destruct Hv as [a ->]. unfold feq in E. cbn in E. rewrite Z.eqb_refl in E. discriminate.
    + destruct (IH Ht Hv Hin Hst) as (l' & Hr & Hp & Hs'). exists (y :: l'). rewrite Hr. cbn [option_map].
      split; [reflexivity|]. split; [rewrite Hp; apply perm_swap|].
      constructor; [exact Hs'|]. rewrite Forall_forall in *. intros z Hz. apply Hyt.
      eapply Permutation_in; [symmetry; exact Hp | right; exact Hz].
Qed.

Lemma sl_add_perm v : forall l, Permutation (v :: l) (sl_add v l).
Proof.
  induction l as [|y t IH]; cbn [sl_add]; [reflexivity|]. destruct (fle y v); [|reflexivity].
  rewrite perm_swap. constructor. exact IH.
Qed.

Lemma sl_add_sorted v : forall l, is_nan v = false -> Forall (fun y => is_nan y = false) l ->
  StronglySorted Fle l -> StronglySorted Fle (sl_add v l).
Proof.
  induction l as [|y t IH]; intros Hv Hnn Hs; cbn [sl_add]; [repeat constructor|].
  inversion Hnn as [|? ? Hy Ht]; subst. inversion Hs as [|? ? Hst Hyt]; subst.
  destruct (fle y v) eqn:E.
  - constructor; [apply IH; assumption|]. rewrite Forall_forall in *. intros z Hz.
    apply (Permutation_in z (Permutation_sym (sl_add_perm v t))) in Hz. destruct Hz as [<-|Hz]; [exact E | apply Hyt; exact Hz].
  - assert (Hvy : fle v y = true).
    { apply fle_false in E; auto. apply fle_iff. repeat split; auto. lia. }
    constructor; [exact Hs|]. constructor; [exact Hvy|]. rewrite Forall_forall in *. intros z Hz.
    eapply fle_trans; [exact Hvy | apply Hyt; exact Hz].
Qed.

Definition it_old (it : (fl * bool * Z) * fl) : fl := fst (fst (fst it)).
Definition it_new (it : (fl * bool * Z) * fl) : fl := snd it.

Lemma phase_ins : forall (its : list ((fl * bool * Z) * fl)) adjs0 inss0 done,
  Forall (fun it => snd (fst (fst it)) = true) its ->
  Forall posfin (map it_old its) -> Forall posfin (map it_new its) -> Forall posfin done ->
  Permutation inss0 (map it_old its ++ done) -> StronglySorted Fle inss0 ->
  exists inss', fold_left adjust_step its (Ok (mkwl adjs0 inss0)) = Ok (mkwl adjs0 inss') /\
    Permutation inss' (map it_new its ++ done) /\ StronglySorted Fle inss'.
Proof.
  induction its as [|[[[o bb] z] k] rest IH]; intros adjs0 inss0 done Hb Ho Hn Hd Hp Hs; cbn [fold_left map app] in *.
  - exists inss0. auto.
  - inversion Hb as [|? ? Hb1 Hb2]; subst. cbn [fst snd] in Hb1. subst bb.
    inversion Ho as [|? ? Ho1 Ho2]; subst. inversion Hn as [|? ? Hn1 Hn2]; subst. unfold it_old, it_new in Ho1, Hn1. cbn [fst snd] in Ho1, Hn1.
    assert (Hpf0 : Forall posfin inss0).
    { rewrite Forall_forall. intros y Hy. apply (Permutation_in y Hp) in Hy. destruct Hy as [<-|Hy]; [exact Ho1|].
      apply in_app_or in Hy. rewrite Forall_forall in Ho2, Hd. destruct Hy; auto. }
    destruct (sl_remove_perm o inss0 Hpf0 Ho1) as (l' & Hr & Hpl & Hsl).
    { eapply Permutation_in; [symmetry; exact Hp | left; reflexivity]. }
    { exact Hs. }
    unfold adjust_step at 2. cbn [bind adjs inss]. rewrite Hr.
    assert (Hpf' : Forall posfin l').
    { rewrite Forall_forall in *. intros y Hy. apply Hpf0. eapply Permutation_in; [symmetry; exact Hpl | right; exact Hy]. }
    destruct (IH adjs0 (sl_add k l') (k :: done)) as (inss' & Hf & Hp' & Hs'); try assumption.
    + constructor; assumption.
    + rewrite <- sl_add_perm. rewrite <- Permutation_middle. constructor.
      apply (Permutation_cons_inv (a := o)). rewrite <- Hpl. exact Hp.
    + apply sl_add_sorted; [apply posfin_nn; exact Hn1 | | exact Hsl].
      rewrite Forall_forall in *. intros y Hy. apply posfin_nn. apply Hpf'. exact Hy.
    + exists inss'. split; [exact Hf|]. split; [|exact Hs'].
      rewrite Hp'. unfold it_new at 2. cbn [snd]. symmetry. apply Permutation_middle.
Qed.

(* ---------------------------------------------------------------------------------------------- *)
(* _adjust_range on a work list without adjustments whose new keys R all lie in the range: rows ab..ae-1 and the
   keys R are renumbered with NK, in the order rows below the gap, R, rows above the gap *)

Lemma sorted_perm_posfin : forall l1 l2, StronglySorted Fle l1 -> StronglySorted Flt l2 ->
  Forall posfin l1 -> Forall posfin l2 -> Permutation l1 l2 -> l1 = l2.
Proof.
  induction l1 as [|x t IH]; intros l2 H1 H2 P1 P2 HP.
  - apply Permutation_nil in HP. subst. reflexivity.
  - destruct l2 as [|y u]; [apply Permutation_sym, Permutation_nil in HP; discriminate|].
    inversion H1 as [|? ? Ht Hx]; subst. inversion H2 as [|? ? Hu Hy]; subst.
    inversion P1 as [|? ? Px Pt]; subst. inversion P2 as [|? ? Py Pu]; subst.
    assert (x = y).
    { assert (Hxin : In x (y :: u)) by (eapply Permutation_in; [exact HP | left; reflexivity]).
      assert (Hyin : In y (x :: t)) by (eapply Permutation_in; [symmetry; exact HP | left; reflexivity]).
      rewrite Forall_forall in Hx, Hy.
      destruct Hxin as [->|Hxin]; [reflexivity|]. destruct Hyin as [->|Hyin]; [reflexivity|].
      specialize (Hx _ Hyin). specialize (Hy _ Hxin). unfold Fle, Flt in *.
      apply fle_iff in Hx. apply flt_iff in Hy. lia. }
    subst y. f_equal. apply IH; auto. eapply Permutation_cons_inv. exact HP.
Qed.

Lemma map_old_combine R : forall ks, length ks = length R ->
  map it_old (combine (itrR R) ks) = R /\ map it_new (combine (itrR R) ks) = ks /\
  Forall (fun it => snd (fst (fst it)) = true) (combine (itrR R) ks).
Proof.
  unfold itrR. intros ks Hlen.
  assert (Hgen : forall r t ks, length ks = r -> (t + r = length R)%nat ->
            map it_old (combine (map (fun t => (nth t R FNaN, true, Z.of_nat t)) (seq t r)) ks) = skipn t R /\
            map it_new (combine (map (fun t => (nth t R FNaN, true, Z.of_nat t)) (seq t r)) ks) = ks /\
            Forall (fun it => snd (fst (fst it)) = true) (combine (map (fun t => (nth t R FNaN, true, Z.of_nat t)) (seq t r)) ks)).
  { induction r as [|r IH]; intros t ks0 Hl Ht; destruct ks0 as [|k kt]; cbn [length] in Hl; try lia; cbn [seq map combine].
    - rewrite skipn_all2 by lia. auto.
    - destruct (IH (S t) kt ltac:(lia) ltac:(lia)) as (I1 & I2 & I3). rewrite I1, I2.
      split; [|split; [reflexivity | constructor; [reflexivity | exact I3]]].
      unfold it_old at 1. cbn [fst]. clear - Ht.
      revert t Ht. induction R as [|x R' IHR]; intros t Ht; [cbn in Ht; lia|].
      destruct t as [|t]; [reflexivity|]. cbn [nth skipn]. apply IHR. cbn in Ht. lia. }
  destruct (Hgen (length R) 0%nat ks Hlen ltac:(lia)) as (G1 & G2 & G3). cbn [skipn] in G1. auto.
Qed.

Lemma firstn_In_l {A} k : forall (l : list A) z, In z (firstn k l) -> In z l.
Proof. induction k as [|k IH]; intros [|x t] z H; cbn in *; try tauto. destruct H; [auto | right; apply IH; assumption]. Qed.
Lemma skipn_In_l {A} k : forall (l : list A) z, In z (skipn k l) -> In z l.
Proof. induction k as [|k IH]; intros [|x t] z H; cbn in *; try tauto. right. apply IH. assumption. Qed.
Lemma firstn_plus {A} a b : forall (l : list A), firstn (a + b) l = firstn a l ++ firstn b (skipn a l).
Proof. induction a as [|a IH]; intros [|x t]; cbn; try reflexivity; [destruct b; reflexivity | f_equal; apply IH]. Qed.
Lemma skipn_plus {A} a b : forall (l : list A), skipn a (skipn b l) = skipn (b + a) l.
Proof. induction b as [|b IH]; intros [|x t]; cbn; try reflexivity; [destruct a; reflexivity | apply IH]. Qed.
Lemma nth_firstn_lt {A} (d : A) k : forall t l, (t < k)%nat -> nth t (firstn k l) d = nth t l d.
Proof. induction k as [|k IH]; intros t l Ht; [lia|]. destruct l as [|x l]; [destruct t; reflexivity|]. destruct t as [|t]; cbn; [reflexivity | apply IH; lia]. Qed.
Lemma nth_skipn_plus {A} (d : A) k : forall t l, nth t (skipn k l) d = nth (k + t) l d.
Proof. induction k as [|k IH]; intros t l; [reflexivity|]. destruct l as [|x l]; [destruct t; reflexivity|]. cbn. apply IH. Qed.

Lemma combine_app_len {A B} (l1 l2 : list A) (m1 m2 : list B) :
  length l1 = length m1 -> combine (l1 ++ l2) (m1 ++ m2) = combine l1 m1 ++ combine l2 m2.
Proof.
  revert m1. induction l1 as [|x t IH]; intros [|y u] H; cbn in *; try lia; [reflexivity|]. f_equal. apply IH. lia.
Qed.

Lemma otr_segment big : forall m s, (s + m <= length big)%nat ->
  map (fun k => (nthZ big (Z.of_nat s + Z.of_nat k) FNaN, false, Z.of_nat s + Z.of_nat k)) (seq 0 m) =
  otr (firstn m (skipn s big)) s.
Proof.
  induction m as [|m IH]; intros s Hs; [reflexivity|].
  assert (Hsk : skipn s big = nth s big FNaN :: skipn (S s) big).
  { clear IH. revert s Hs. induction big as [|x big' IHb]; intros s Hs; [cbn in Hs; lia|].
    destruct s as [|s]; [reflexivity|]. cbn [skipn nth]. apply IHb. cbn in Hs. lia. }
  rewrite Hsk. cbn [firstn otr seq map]. f_equal.
  - unfold nthZ. cbn [Z.of_nat]. rewrite Z.add_0_r, Nat2Z.id. reflexivity.
  - rewrite <- IH by lia. rewrite <- seq_shift, map_map. apply map_ext. intros k.
    replace (Z.of_nat s + Z.of_nat (S k)) with (Z.of_nat (S s) + Z.of_nat k) by lia. reflexivity.
Qed.

Lemma sublist_sorted_weak NK a b : StronglySorted Flt NK ->
  StronglySorted Fle (firstn a NK ++ skipn (a + b) NK).
Proof.
  revert a b. induction NK as [|x t IH]; intros a b Hs; [destruct a; destruct b; constructor|].
  inversion Hs as [|? ? Ht Hx]; subst. destruct a as [|a].
  - cbn [firstn app Nat.add]. clear IH. revert Hs. generalize (x :: t) as l. induction b as [|b IHb]; intros l Hl.
    + cbn. induction Hl as [|y u Hu IHu Hy]; constructor; [exact IHu|].
      rewrite Forall_forall in *. intros z Hz. apply flt_fle. apply Hy. exact Hz.
    + destruct l as [|y u]; [constructor|]. cbn [skipn]. inversion Hl; subst. apply IHb. assumption.
  - cbn [firstn app Nat.add skipn]. constructor; [apply IH; exact Ht|].
    rewrite Forall_forall in *. intros z Hz. apply flt_fle. apply Hx. apply in_app_or in Hz.
    destruct Hz as [Hz|Hz]; [eapply firstn_In_l; exact Hz | eapply skipn_In_l; exact Hz].
Qed.

Lemma flt_sorted_fle l : StronglySorted Flt l -> StronglySorted Fle l.
Proof.
  induction 1 as [|x t Ht IH Hx]; constructor; [exact IH|]. rewrite Forall_forall in *. intros z Hz. apply flt_fle, Hx, Hz.
Qed.

Section Adjust.
Variables (orig R NK : list fl) (ab g ae : nat) (rbf ref : fl).
Let n := length orig.
Let c := length R.
Hypothesis Hidx : (ab <= g <= ae)%nat /\ (ae <= n)%nat.
Hypothesis Hab : bkl orig rbf = Z.of_nat ab.
Hypothesis Hae : bkl orig ref = Z.of_nat ae.
Hypothesis Hib : bkl R rbf = 0.
Hypothesis Hie : bkl R ref = Z.of_nat c.
Hypothesis Hrows : forall i j, (i <= j < n)%nat -> fle (nth i orig FNaN) (nth j orig FNaN) = true.
Hypothesis HRs : forall i j, (i <= j < c)%nat -> fle (nth i R FNaN) (nth j R FNaN) = true.
Hypothesis H1R : forall i r, (ab <= i < g)%nat -> In r R -> fle (nth i orig FNaN) r = true.
Hypothesis HR2 : forall r i, In r R -> (g <= i < ae)%nat -> flt r (nth i orig FNaN) = true.
Hypothesis HNK : NK = get_range rbf ref (Z.of_nat (ae - ab) + Z.of_nat c).
Hypothesis HNKs : StronglySorted Flt NK.
Hypothesis HNKp : Forall posfin NK.
Hypothesis HRp : Forall posfin R.
Hypothesis HNKl : length NK = (ae - ab + c)%nat.

Let L1 := firstn (g - ab) (skipn ab orig).
Let L2 := firstn (ae - g) (skipn g orig).
Let NK1 := firstn (g - ab) NK.
Let NK2 := firstn c (skipn (g - ab) NK).
Let NK3 := skipn (g - ab + c) NK.
Definition AD : list (Z * fl) :=
  combine (map Z.of_nat (seq ab (g - ab))) NK1 ++ combine (map Z.of_nat (seq g (ae - g))) NK3.

Lemma seg_split : firstn (ae - ab) (skipn ab orig) = L1 ++ L2.
Proof.
  unfold L1, L2. destruct Hidx as [[H1 H2] H3].
  replace (ae - ab)%nat with ((g - ab) + (ae - g))%nat by lia.
  rewrite firstn_plus. f_equal. rewrite skipn_plus. replace (ab + (g - ab))%nat with g by lia. reflexivity.
Qed.

Lemma L_len : length L1 = (g - ab)%nat /\ length L2 = (ae - g)%nat.
Proof.
  unfold L1, L2. destruct Hidx as [[H1 H2] H3]. fold n in H3.
  rewrite !firstn_length, !skipn_length. fold n. lia.
Qed.

Lemma L1_nth t : (t < g - ab)%nat -> nth t L1 FNaN = nth (ab + t) orig FNaN.
Proof.
  intros Ht. unfold L1. rewrite nth_firstn_lt by exact Ht. apply nth_skipn_plus.
Qed.

Lemma L2_nth t : (t < ae - g)%nat -> nth t L2 FNaN = nth (g + t) orig FNaN.
Proof.
  intros Ht. unfold L2. rewrite nth_firstn_lt by exact Ht. apply nth_skipn_plus.
Qed.

Lemma NK_split : NK = NK1 ++ NK2 ++ NK3 /\ length NK1 = (g - ab)%nat /\ length NK2 = c /\ length NK3 = (ae - g)%nat.
Proof.
  unfold NK1, NK2, NK3. destruct Hidx as [[H1 H2] H3]. split.
  - rewrite <- (firstn_skipn (g - ab) NK) at 1. f_equal.
    rewrite <- (firstn_skipn c (skipn (g - ab) NK)) at 1. f_equal. apply skipn_plus.
  - rewrite !firstn_length, !skipn_length, HNKl. lia.
Qed.

Lemma adjust_range_noadj : adjust_range orig (mkwl [] R) rbf ref = Ok (mkwl AD NK2).
Proof.
  destruct Hidx as [[Hi1 Hi2] Hi3]. destruct L_len as [HL1 HL2]. destruct NK_split as (HNKeq & HN1 & HN2 & HN3).
  unfold adjust_range. rewrite !adj_bisect_noadj. cbn [inss]. rewrite Hab, Hae, Hib, Hie.
  unfold do_adjust_range. cbn [adjs inss].
  replace (Z.of_nat ae - Z.of_nat ab + (Z.of_nat c - 0)) with (Z.of_nat (ae - ab) + Z.of_nat c) by lia.
  rewrite <- HNK.
  (* the triples *)
  assert (Hprev : map (fun i => (adj_get_key orig (mkwl [] R) i, false, i)) (zrange (Z.of_nat ab) (Z.of_nat ae)) ++
                  map (fun i => (nthZ R i FNaN, true, i)) (zrange 0 (Z.of_nat c))
                  = otr (L1 ++ L2) ab ++ itrR R).
  { f_equal.
    - unfold zrange. replace (Z.to_nat (Z.of_nat ae - Z.of_nat ab)) with (ae - ab)%nat by lia. rewrite map_map.
      rewrite <- seg_split. rewrite <- otr_segment by (fold n; lia). apply map_ext. intros k. reflexivity.
    - rewrite zrange0_seq, map_map. unfold itrR. fold c. apply map_ext. intros t. unfold nthZ. rewrite Nat2Z.id. reflexivity. }
  rewrite Hprev.
  rewrite (sort_rows_keys L1 L2 R ab).
  2:{ intros i j Hij. rewrite <- seg_split in *. rewrite firstn_length, skipn_length in Hij. fold n in Hij.
      rewrite !nth_firstn_lt by lia. rewrite !nth_skipn_plus. apply Hrows. lia. }
  2:{ exact HRs. }
  2:{ intros x r Hx Hr. destruct (In_nth _ _ FNaN Hx) as (t & Ht & <-). rewrite HL1 in Ht. rewrite L1_nth by exact Ht.
      apply H1R; [lia | exact Hr]. }
  2:{ intros r x Hr Hx. destruct (In_nth _ _ FNaN Hx) as (t & Ht & <-). rewrite HL2 in Ht. rewrite L2_nth by exact Ht.
      apply HR2; [exact Hr | lia]. }
  rewrite HL1. replace (ab + (g - ab))%nat with g by lia.
  rewrite HNKeq. rewrite combine_app_len by (rewrite otr_length; lia).
  rewrite combine_app_len by (unfold itrR; rewrite map_length, seq_length; fold c; lia).
  rewrite !fold_left_app.
  (* rows below the gap *)
  assert (HsNK : StronglySorted Fle NK).
  { apply flt_sorted_fle. exact HNKs. }
  rewrite (phase_rows L1 ab NK1 [] R); [| lia | intros q [] |].
  2:{ cbn [map app]. unfold NK1. clear - HsNK. revert HsNK. generalize (g - ab)%nat as k. generalize NK as l.
      induction l as [|x t IH]; intros k H; [destruct k; constructor|]. destruct k as [|k]; [constructor|].
      cbn [firstn]. inversion H as [|? ? Ht Hx]; subst. constructor; [apply IH; exact Ht|].
      rewrite Forall_forall in *. intros z Hz. apply Hx. eapply firstn_In_l. exact Hz. }
  cbn [app]. rewrite HL1.
  (* the keys *)
  destruct (map_old_combine R NK2 ltac:(fold c; lia)) as (Mo & Mn & Mb).
  assert (HNK2p : Forall posfin NK2).
  { unfold NK2. rewrite Forall_forall in *. intros z Hz. apply HNKp. eapply skipn_In_l. eapply firstn_In_l. exact Hz. }
  assert (HRsorted : StronglySorted Fle R).
  { clear - HRs. fold c in HRs. unfold c in HRs. revert HRs. generalize R as l. induction l as [|x t IH]; intros H; constructor.
    - apply IH. intros i j Hij. apply (H (S i) (S j)). cbn. lia.
    - rewrite Forall_forall. intros z Hz. destruct (In_nth _ _ FNaN Hz) as (j & Hj & <-). apply (H 0%nat (S j)). cbn. lia. }
  destruct (phase_ins (combine (itrR R) NK2) (combine (map Z.of_nat (seq ab (g - ab))) NK1) R []) as (inss' & Hf & Hp & Hs').
  { exact Mb. } { rewrite Mo. exact HRp. } { rewrite Mn. exact HNK2p. } { constructor. }
  { rewrite Mo, app_nil_r. reflexivity. } { exact HRsorted. }
  rewrite Hf. rewrite Mn, app_nil_r in Hp.
  assert (HNK2s : StronglySorted Flt NK2).
  { unfold NK2. clear - HNKs. revert HNKs. generalize (g - ab)%nat as a. generalize c as k. generalize NK as l.
    assert (Hsk : forall a l, StronglySorted Flt l -> StronglySorted Flt (skipn a l)).
    { induction a as [|a IH]; intros [|x t] H; cbn; try assumption. inversion H; subst. apply IH. assumption. }
    assert (Hfn : forall k l, StronglySorted Flt l -> StronglySorted Flt (firstn k l)).
    { induction k as [|k IH]; intros [|x t] H; cbn; try constructor. inversion H as [|? ? Ht Hx]; subst. apply IH; assumption.
      inversion H as [|? ? Ht Hx]; subst. rewrite Forall_forall in *. intros z Hz. apply Hx. eapply firstn_In_l. exact Hz. }
    intros l k a H. apply Hfn, Hsk, H. }
  assert (Hinss : inss' = NK2).
  { apply sorted_perm_posfin; auto. rewrite Forall_forall in *. intros z Hz. apply HNK2p. eapply Permutation_in; [exact Hp | exact Hz]. }
  rewrite Hinss.
  (* rows above the gap *)
  rewrite (phase_rows L2 g NK3 _ NK2); [| lia | |].
  - rewrite HL2. reflexivity.
  - intros [qi qk] Hq. apply in_combine_l in Hq. apply in_map_iff in Hq. destruct Hq as (j & <- & Hj). apply in_seq in Hj. cbn [fst]. lia.
  - rewrite map_snd_combine by (rewrite map_length, seq_length; lia).
    unfold NK1, NK3. apply sublist_sorted_weak. exact HNKs.
Qed.
End Adjust.

(* ---------------------------------------------------------------------------------------------- *)
(* helpers for the assembly *)

Lemma bkl_iff l q j : (forall a b, (a <= b < length l)%nat -> fle (nth a l FNaN) (nth b l FNaN) = true) ->
  is_nan q = false -> (j < length l)%nat -> (flt (nth j l FNaN) q = true <-> Z.of_nat j < bkl l q).
Proof.
  intros Hs Hq Hj. pose proof (bkl_range l q) as Hr. unfold lenZ in Hr. split.
  - intros Hlt. destruct (Z.lt_ge_cases (Z.of_nat j) (bkl l q)) as [H|H]; [exact H|]. exfalso.
    pose proof (bkl_stop l q ltac:(unfold lenZ; lia)) as Hst. unfold nthZ in Hst.
    pose proof (Hs (Z.to_nat (bkl l q)) j ltac:(lia)) as Hle.
    apply fle_iff in Hle. destruct Hle as (N1 & N2 & Hle). apply flt_iff in Hlt. destruct Hlt as (_ & _ & Hlt).
    apply flt_false in Hst; auto. lia.
  - intros H. pose proof (bkl_prefix l q (Z.of_nat j) ltac:(lia)) as Hp. unfold nthZ in Hp. rewrite Nat2Z.id in Hp. exact Hp.
Qed.

(* applying adjustments for a run of consecutive indexes *)
Lemma apply_run vs : forall s l i, (s + length vs <= length l)%nat ->
  nth i (apply_adj l (combine (map Z.of_nat (seq s (length vs))) vs)) FNaN =
  if (s <=? i)%nat && (i <? s + length vs)%nat then nth (i - s) vs FNaN else nth i l FNaN.
Proof.
  unfold apply_adj. induction vs as [|v vt IH]; intros s l i Hl; cbn [length seq map combine fold_left].
  - replace ((s <=? i)%nat && (i <? s + 0)%nat) with false; [reflexivity|].
    symmetry. apply andb_false_iff. destruct (Nat.leb_spec s i); [right; apply Nat.ltb_ge; lia | left; reflexivity].
  - cbn [fst snd]. rewrite Nat2Z.id. cbn [length] in Hl. rewrite IH by (rewrite set_nth_length; lia).
    destruct (Nat.eq_dec i s) as [->|Hne].
    + replace ((S s <=? s)%nat && (s <? S s + length vt)%nat) with false by (symmetry; apply andb_false_iff; left; apply Nat.leb_gt; lia).
      rewrite nth_set_nth_eq by lia.
      replace ((s <=? s)%nat && (s <? s + S (length vt))%nat) with true by (symmetry; apply andb_true_intro; split; [apply Nat.leb_le | apply Nat.ltb_lt]; lia).
      rewrite Nat.sub_diag. reflexivity.
    + rewrite nth_set_nth_neq by exact Hne.
      destruct (Nat.leb_spec (S s) i), (Nat.ltb_spec i (S s + length vt)), (Nat.leb_spec s i), (Nat.ltb_spec i (s + S (length vt))); cbn [andb]; try lia; try reflexivity.
      replace (i - s)%nat with (S (i - S s)) by lia. reflexivity.
Qed.

Lemma apply_adj_app l a1 a2 : apply_adj l (a1 ++ a2) = apply_adj (apply_adj l a1) a2.
Proof. unfold apply_adj. apply fold_left_app. Qed.

(* ---------------------------------------------------------------------------------------------- *)
(* one gap *)

Lemma adj_wfb_weaken n : forall l prev prev', prev' <= prev -> adj_wfb n prev l = true -> adj_wfb n prev' l = true.
Proof.
  destruct l as [|[i v] t]; intros prev prev' Hp H; cbn [adj_wfb] in *; [reflexivity|].
  apply andb_prop in H. destruct H as [H H4]. apply andb_prop in H. destruct H as [H H3]. apply andb_prop in H. destruct H as [H1 H2].
  apply Z.ltb_lt in H1. rewrite H2, H3, H4. replace (prev' <? i) with true by (symmetry; apply Z.ltb_lt; lia). reflexivity.
Qed.

Lemma adj_wfb_run n vs : forall s prev rest, prev < Z.of_nat s -> Z.of_nat (s + length vs) <= n ->
  Forall (fun v => is_finite v = true) vs ->
  adj_wfb n (Z.of_nat (s + length vs) - 1) rest = true ->
  adj_wfb n prev (combine (map Z.of_nat (seq s (length vs))) vs ++ rest) = true.
Proof.
  induction vs as [|v vt IH]; intros s prev rest Hp Hn Hf Hr; cbn [length seq map combine app].
  - apply (adj_wfb_weaken n rest (Z.of_nat (s + 0) - 1)); [lia | exact Hr].
  - inversion Hf as [|? ? Hv Hvt]; subst. cbn [adj_wfb length] in *.
    replace (prev <? Z.of_nat s) with true by (symmetry; apply Z.ltb_lt; lia).
    replace (Z.of_nat s <? n) with true by (symmetry; apply Z.ltb_lt; lia). rewrite Hv. cbn [andb].
    apply IH; [lia | lia | exact Hvt |]. replace (S s + length vt)%nat with (s + S (length vt))%nat by lia. exact Hr.
Qed.

Lemma run_sorted vs : forall s rest, StronglySorted idx_lt rest -> Forall (fun q => Z.of_nat (s + length vs) <= fst q) rest ->
  StronglySorted idx_lt (combine (map Z.of_nat (seq s (length vs))) vs ++ rest).
Proof.
  induction vs as [|v vt IH]; intros s rest Hs Hr; cbn [length seq map combine app]; [exact Hs|].
  constructor.
  - apply IH; [exact Hs|]. rewrite Forall_forall in *. intros q Hq. specialize (Hr q Hq). cbn [length] in Hr. lia.
  - rewrite Forall_forall in *. intros q Hq. unfold idx_lt. cbn [fst]. apply in_app_or in Hq. destruct Hq as [Hq|Hq].
    + destruct q as [qi qv]. apply in_combine_l in Hq. apply in_map_iff in Hq. destruct Hq as (j & <- & Hj). apply in_seq in Hj. cbn [fst]. lia.
    + specialize (Hr q Hq). cbn [length] in Hr. lia.
Qed.

Lemma run_range (vs : list fl) n0 : forall s, Z.of_nat (s + length vs) <= n0 ->
  Forall (fun q : Z * fl => 0 <= fst q < n0) (combine (map Z.of_nat (seq s (length vs))) vs).
Proof.
  intros s Hs. rewrite Forall_forall. intros [qi qv] Hq. apply in_combine_l in Hq. apply in_map_iff in Hq.
  destruct Hq as (j & <- & Hj). apply in_seq in Hj. cbn [fst]. lia.
Qed.

Section Single.
Variables (orig keys : list fl) (g : nat).
Let n := length orig.
Let c := length keys.
Let b := group_begin orig (Z.of_nat g).
Let e := group_end orig (Z.of_nat g) (Z.of_nat c).
Hypothesis HPre : Pre orig keys.
Hypothesis Hwf : Forall wf_fl orig.
Hypothesis Hvalid : Forall (fun x => exists u, x = FFin false u /\ 0 < u < 2 ^ 2086) orig.
Hypothesis Hstrict : StronglySorted Flt orig.
Hypothesis Hsmall : lenZ orig + lenZ keys + 1 < 2 ^ 53.
Hypothesis Hkeys : keys <> [].
Hypothesis Hgroup : forall k, In k keys -> bkl orig k = Z.of_nat g.
Hypothesis Hcond : flt b fzero || fle e fzero || is_inf (fmax b e) = false.
Hypothesis Hbe : flt b e = true.

Lemma g_le_n : (g <= n)%nat.
Proof.
  destruct keys as [|k kt] eqn:E; [congruence|]. pose proof (Hgroup k ltac:(left; reflexivity)) as H.
  pose proof (bkl_range orig k) as Hr. unfold lenZ in Hr. fold n in Hr. lia.
Qed.

Lemma c_pos : (1 <= c)%nat.
Proof. unfold c. destruct keys; [congruence | cbn; lia]. Qed.

Lemma single_groups : ins_groups orig keys = [(Z.of_nat g, Z.of_nat c)].
Proof.
  unfold ins_groups.
  assert (Hmap : map (fun p => bkl orig (fst p)) (sorted_requests keys) = repeat (Z.of_nat g) c).
  { assert (Hl : length (sorted_requests keys) = c).
    { unfold sorted_requests. rewrite sort_by_length, combine_length, zrange_length. unfold lenZ, c. lia. }
    rewrite <- Hl. rewrite <- map_const. apply map_ext_in. intros p Hp.
    unfold sorted_requests in Hp. apply (proj1 (sort_by_In pair_lt _ _)) in Hp. destruct p as [k i].
    apply in_combine_l in Hp. cbn [fst]. apply Hgroup. exact Hp. }
  rewrite Hmap. apply group_counts_repeat. apply c_pos.
Qed.

Lemma orig_row i : (i < n)%nat -> exists u, nth i orig FNaN = FFin false u /\ 0 < u < 2 ^ 2086 /\ wf_fl (FFin false u).
Proof.
  intros Hi. assert (Hin : In (nth i orig FNaN) orig) by (apply nth_In; exact Hi).
  rewrite Forall_forall in Hvalid, Hwf. destruct (Hvalid _ Hin) as (u & Hu & Hb). exists u. split; [exact Hu|]. split; [exact Hb|].
  rewrite <- Hu. apply Hwf. exact Hin.
Qed.

(* the neighbours *)
Lemma b_shape : exists ub, b = FFin false ub /\ 0 <= ub < 2 ^ 2086 /\ wf_fl b /\ (0 < ub -> ub mod 2 ^ ulp_exp ub = 0) /\
  ((g = 0%nat /\ ub = 0) \/ (0 < g /\ b = nth (g - 1) orig FNaN)%nat).
Proof.
  unfold b, group_begin. pose proof g_le_n as Hg. destruct g as [|g'] eqn:Eg.
  - cbn [Z.of_nat Z.ltb Z.compare]. exists 0. split; [reflexivity|]. split; [split; [lia | apply pow2_pos'; lia]|].
    split; [unfold fzero, wf_fl, representable; split; [pose proof UOVER_big; lia | reflexivity]|]. split; [lia | left; auto].
  - replace (0 <? Z.of_nat (S g')) with true by (symmetry; apply Z.ltb_lt; lia). unfold nthZ.
    replace (Z.to_nat (Z.of_nat (S g') - 1)) with g' by lia.
    destruct (orig_row g' ltac:(lia)) as (u & Hu & Hb & Hw). exists u. rewrite Hu. split; [reflexivity|]. split; [lia|].
    split; [exact Hw|]. split; [intros _; destruct Hw as [_ Hd]; exact Hd|]. right. split; [lia|].
    replace (S g' - 1)%nat with g' by lia. symmetry. exact Hu.
Qed.

Lemma e_shape : exists ue, e = FFin false ue /\ 0 <= ue < UOVER /\ ((g < n)%nat -> e = nth g orig FNaN).
Proof.
  destruct b_shape as (ub & Hb & Hub & Hbw & _ & _).
  apply orb_false_iff in Hcond. destruct Hcond as [Hc1 Hinf]. unfold fmax in Hinf. rewrite Hbe in Hinf.
  unfold e, group_end in *. fold n. destruct (Z.ltb_spec (Z.of_nat g) (lenZ orig)) as [Hlt|Hge].
  - unfold lenZ in Hlt. fold n in Hlt. unfold nthZ. rewrite Nat2Z.id.
    destruct (orig_row g ltac:(lia)) as (u & Hu & Hbd & Hw). exists u. rewrite Hu. split; [reflexivity|].
    split; [destruct Hw as [Hr _]; lia | intros _; reflexivity].
  - fold b in Hinf |- *. rewrite Hb in *.
    assert (Hsh : pos_shape (fadd (fadd (FFin false ub) (of_Z (Z.of_nat c))) (of_Z 1))).
    { unfold lenZ in Hsmall. fold c in Hsmall. rewrite !of_Z_int by lia.
      assert (S1 : pos_shape (fadd (FFin false ub) (fint (Z.of_nat c)))) by (apply fadd_pos_shape; [lia | cbn; lia | apply fint_pos_shape; lia]).
      destruct S1 as [(u1 & -> & Hu1)| ->]; [|right; reflexivity].
      apply fadd_pos_shape; [lia | cbn [ford]; lia | apply fint_pos_shape; lia]. }
    destruct Hsh as [(u & Hu & Hbd)| Hu]; rewrite Hu in *; [|discriminate].
    exists u. split; [reflexivity|]. split; [exact Hbd|]. unfold lenZ in Hge. fold n in Hge. lia.
Qed.

Let R := get_range b e (Z.of_nat c).

Lemma R_facts : exists ub ue, b = FFin false ub /\ e = FFin false ue /\
  length R = c /\ (forall x, In x R -> exists u, x = FFin false u /\ ub <= u <= upred ue) /\
  StronglySorted Fle R /\ upred ue < ue /\ 0 <= ub < ue.
Proof.
  destruct b_shape as (ub & Hb & Hub & Hbw & _ & _). destruct e_shape as (ue & He & Hue & _).
  exists ub, ue. split; [exact Hb|]. split; [exact He|].
  pose proof c_pos as Hc. unfold lenZ in Hsmall. fold c in Hsmall.
  assert (Hcc : 1 <= Z.of_nat c /\ Z.of_nat c + 1 < 2 ^ 53) by lia.
  assert (Hbe' : flt (FFin false ub) (FFin false ue) = true) by (rewrite <- Hb, <- He; exact Hbe).
  rewrite Hb in Hbw. assert (Hf0 : 0 <= ford (FFin false ub)) by (cbn; lia).
  unfold R. rewrite Hb, He.
  split; [rewrite (range_length false ub ue (Z.of_nat c)); lia|].
  split; [intros x Hx; destruct (range_In false ub ue (Z.of_nat c) Hbw Hue Hf0 Hbe' Hcc x Hx) as (u & Hu & Hbd); exists u; cbn [ford] in Hbd; auto|].
  split; [apply (range_weakly_sorted false ub ue (Z.of_nat c) Hbw Hue Hf0 Hbe' Hcc)|].
  destruct (limit_facts false ub ue (Z.of_nat c) Hbw Hue Hf0 Hbe') as (L1 & L2 & L3). cbn [ford] in L2.
  apply flt_iff in Hbe'. cbn [ford] in Hbe'. lia.
Qed.

Lemma prep_cases :
  prep_inserts_at_index orig (mkwl [] []) (Z.of_nat g) (Z.of_nat c) =
  if is_valid_range b R e then Ok (mkwl [] R)
  else if count_range orig (mkwl [] R) b e <=? 0 then Err 1
  else r <- find_sparse_enough_range orig (mkwl [] R) b e ;;
       w2 <- adjust_range orig (mkwl [] R) (fst r) (snd r) ;;
       (let b2 := if 0 <? Z.of_nat g then adj_get_key orig w2 (Z.of_nat g - 1) else b in
        let e2 := if Z.of_nat g <? lenZ orig then adj_get_key orig w2 (Z.of_nat g) else e in
        if is_valid_range b2 (sl_irange (inss w2) b2 e2) e2 then Ok w2 else Err 2).
Proof.
  destruct R_facts as (ub & ue & Hb & He & HRl & HRin & HRs & Hlim & Hubue). pose proof c_pos as Hc.
  unfold prep_inserts_at_index. replace (Z.of_nat c <=? 0) with false by (symmetry; apply Z.leb_gt; lia).
  rewrite !adj_get_key_nil.
  change (if 0 <? Z.of_nat g then nthZ orig (Z.of_nat g - 1) FNaN else fzero) with b.
  change (if Z.of_nat g <? lenZ orig then nthZ orig (Z.of_nat g) FNaN else fadd (fadd b (of_Z (Z.of_nat c))) (of_Z 1)) with e.
  rewrite Hcond. cbn [adjs inss]. fold R.
  rewrite (sl_update_weak R []) by (cbn [app]; exact HRs). cbn [app].
  assert (Hir : sl_irange R b e = R).
  { unfold sl_irange. apply filter_all. intros x Hx. destruct (HRin x Hx) as (u & -> & Hu). rewrite Hb, He.
    apply andb_true_intro. split; apply fle_iff; cbn [is_nan ford]; repeat split; auto; lia. }
  rewrite Hir. reflexivity.
Qed.

Lemma valid_case : is_valid_range b R e = true -> Spec orig keys [] (ungroup keys R).
Proof.
  intros Hv.
  assert (Hplain : plain_path orig keys = true).
  { unfold plain_path. rewrite single_groups. cbn [forallb]. unfold plain_group, group_range. cbn [fst snd]. fold b e R.
    rewrite Hcond, Hbe, Hv. reflexivity. }
  assert (Hs' : lenZ keys + 1 < 2 ^ 53) by (unfold lenZ in *; lia).
  destruct (total_plain orig keys HPre Hwf Hs' Hplain) as [_ HS].
  unfold plain_result in HS. rewrite single_groups in HS. cbn [map concat] in HS. unfold group_range in HS. cbn [fst snd] in HS.
  fold b e R in HS. rewrite app_nil_r in HS. exact HS.
Qed.

(* rows, as facts about nth *)
Lemma rows_sorted i j : (i <= j < n)%nat -> fle (nth i orig FNaN) (nth j orig FNaN) = true.
Proof.
  intros Hij. destruct (Nat.eq_dec i j) as [->|Hne].
  - destruct (orig_row j ltac:(lia)) as (u & -> & _). apply fle_iff. cbn. repeat split; auto. lia.
  - destruct HPre as (Hs & _ & _). apply Hs. fold n. lia.
Qed.

Lemma rows_strict i j : (i < j < n)%nat -> flt (nth i orig FNaN) (nth j orig FNaN) = true.
Proof. intros Hij. apply (StronglySorted_nth _ FNaN _ Hstrict). fold n. exact Hij. Qed.

Lemma renumber_state r :
  0 < count_range orig (mkwl [] R) b e ->
  find_sparse_enough_range orig (mkwl [] R) b e = Ok r ->
  exists (ab ae : nat) (NK : list fl) (rb re : Z),
    (g = 0%nat -> rb = 0) /\
    (ab <= g <= ae)%nat /\ (ae <= n)%nat /\
    (forall j, (j < ab)%nat -> flt (nth j orig FNaN) (FFin false rb) = true) /\
    (forall j, (ae <= j < n)%nat -> flt (nth j orig FNaN) (FFin false re) = false) /\
    StronglySorted Flt (FFin false rb :: NK ++ [FFin false re]) /\ Forall posfin NK /\ length NK = (ae - ab + c)%nat /\
    adjust_range orig (mkwl [] R) (fst r) (snd r) = Ok (mkwl (AD R NK ab g ae) (firstn c (skipn (g - ab) NK))).
Proof.
  intros Hcnt Hfind.
  destruct R_facts as (ub & ue & Hb & He & HRl & HRin & HRs & Hlim & Hubue).
  destruct b_shape as (ub' & Hb' & Hub & Hbw & Hbrep & Hbcase). rewrite Hb in Hb'. inversion Hb'; subst ub'. clear Hb'.
  destruct e_shape as (ue' & He' & Hue & Hecase). rewrite He in He'. inversion He'; subst ue'. clear He'.
  pose proof c_pos as Hc. pose proof g_le_n as Hgn.
  destruct (find_sparse_inv _ _ _ _ _ Hfind) as (a & frac & Ha & Hf & Hr & Hk).
  unfold level_ok in Hk. rewrite Hr in Hk.
  set (cnt := count_range orig (mkwl [] R) (fst r) (snd r)) in *.
  apply andb_prop in Hk. destruct Hk as [Hk Hthr]. apply andb_prop in Hk. destruct Hk as [Hcp Hend].
  apply Z.ltb_lt in Hcp.
  (* the count *)
  assert (Hcnt_eq : cnt = (bkl orig (snd r) - bkl orig (fst r)) + (bkl R (snd r) - bkl R (fst r))).
  { unfold cnt, count_range. rewrite !adj_bisect_noadj. reflexivity. }
  assert (Hcnt_small : cnt < 2 ^ 53).
  { pose proof (bkl_range orig (snd r)). pose proof (bkl_range orig (fst r)). pose proof (bkl_range R (snd r)).
    pose proof (bkl_range R (fst r)). unfold lenZ in *. rewrite HRl in *. fold c in Hsmall. lia. }
  (* level 0 cannot pass *)
  assert (Ha1 : (1 <= a)%nat).
  { destruct a as [|a']; [|lia]. exfalso. destruct Hf as [-> | ->]; unfold thr in Hthr; cbn [thr_from] in Hthr;
      rewrite !of_Z_int in Hthr by lia; rewrite flt_fint in Hthr; apply Z.ltb_lt in Hthr; lia. }
  (* the range *)
  rewrite Hb in Hr. cbn [range_around_float] in Hr.
  destruct (range_around ub (Z.of_nat a)) as [r0|] eqn:Era; [|discriminate]. inversion Hr; subst r0. clear Hr.
  destruct (levels_keys_strict ub a frac cnt ltac:(lia) Hbrep ltac:(lia) Hf ltac:(lia) Hthr)
    as (rb & re & Hra & Hrb0 & Hin & HNKs & HNKp).
  rewrite Era in Hra. inversion Hra; subst r. clear Hra. cbn [fst snd] in *.
  set (rbf := FFin false rb) in *. set (ref := FFin false re) in *.
  set (ab := Z.to_nat (bkl orig rbf)). set (ae := Z.to_nat (bkl orig ref)).
  pose proof (bkl_range orig rbf) as Hrab. pose proof (bkl_range orig ref) as Hrae. unfold lenZ in Hrab, Hrae. fold n in Hrab, Hrae.
  assert (Hqn1 : is_nan rbf = false) by reflexivity. assert (Hqn2 : is_nan ref = false) by reflexivity.
  (* e <= ref *)
  apply fle_iff in Hend. destruct Hend as (_ & _ & Hend). rewrite He in Hend. cbn [ford] in Hend. unfold ref in Hend. cbn [ford] in Hend.
  (* keys of R relative to the range *)
  assert (HR_rb : forall x, In x R -> flt x rbf = false).
  { intros x Hx. destruct (HRin x Hx) as (u & -> & Hu). destruct (flt (FFin false u) rbf) eqn:E; [|reflexivity].
    apply flt_iff in E. unfold rbf in E. cbn [ford] in E. lia. }
  assert (HR_re : forall x, In x R -> flt x ref = true).
  { intros x Hx. destruct (HRin x Hx) as (u & -> & Hu). apply flt_iff. unfold ref. cbn [is_nan ford]. repeat split; auto. lia. }
  assert (Hib : bkl R rbf = 0) by (apply bkl_head_not_lt; exact HR_rb).
  assert (Hie : bkl R ref = Z.of_nat (length R)) by (rewrite (bkl_all R ref HR_re); reflexivity).
  (* ab <= g <= ae *)
  assert (Hidx : (ab <= g <= ae)%nat).
  { destruct Hbcase as [[Hg0 Hub0]|[Hg1 Hbrow]].
    - split; [|lia]. subst ub. assert (Hab0 : bkl orig rbf = 0); [|unfold ab; lia].
      destruct (Nat.eq_dec n 0) as [Hn0|Hn0]; [lia|].
      destruct (Z.eq_dec (bkl orig rbf) 0) as [E0|E0]; [exact E0|]. exfalso.
      assert (Hlt : Z.of_nat 0 < bkl orig rbf) by lia.
      apply (bkl_iff orig rbf 0%nat rows_sorted Hqn1 ltac:(fold n; lia)) in Hlt.
      destruct (orig_row 0%nat ltac:(lia)) as (u & Hu & Hbd & _). rewrite Hu in Hlt.
      apply flt_iff in Hlt. unfold rbf in Hlt. cbn [ford] in Hlt. lia.
    - assert (Hrowb : nth (g - 1) orig FNaN = FFin false ub) by (rewrite <- Hbrow; exact Hb).
      split.
      + assert (~ (Z.of_nat (g - 1) < bkl orig rbf)); [|unfold ab; lia]. intros Hlt.
        apply (bkl_iff orig rbf (g - 1) rows_sorted Hqn1 ltac:(fold n; lia)) in Hlt. rewrite Hrowb in Hlt.
        apply flt_iff in Hlt. unfold rbf in Hlt. cbn [ford] in Hlt. lia.
      + assert (Z.of_nat (g - 1) < bkl orig ref); [|unfold ae; lia].
        apply (bkl_iff orig ref (g - 1) rows_sorted Hqn2 ltac:(fold n; lia)). rewrite Hrowb.
        apply flt_iff. unfold ref. cbn [is_nan ford]. repeat split; auto; lia. }
  exists ab, ae, (get_range rbf ref cnt), rb, re.
  split; [intros Hg0; destruct Hbcase as [[_ Hu0]|[Hg1 _]]; lia|].
  assert (HNKl : length (get_range rbf ref cnt) = (ae - ab + c)%nat).
  { unfold get_range. rewrite map_length, zrange_length. rewrite Hcnt_eq, Hib, Hie, HRl. unfold ab, ae. lia. }
  split; [exact Hidx|]. split; [unfold ae; lia|].
  split.
  { intros j Hj. change (FFin false rb) with rbf. apply (bkl_iff orig rbf j rows_sorted Hqn1 ltac:(fold n; unfold ab in Hj; lia)). unfold ab in Hj. lia. }
  split.
  { intros j Hj. change (FFin false re) with ref. destruct (flt (nth j orig FNaN) ref) eqn:E; [|reflexivity].
    apply (bkl_iff orig ref j rows_sorted Hqn2 ltac:(fold n; lia)) in E. unfold ae in Hj. lia. }
  split; [exact HNKs|]. split; [exact HNKp|]. split; [exact HNKl|].
  (* the adjustment itself *)
  assert (HNKsorted : StronglySorted Flt (get_range rbf ref cnt)).
  { inversion HNKs as [|? ? Hs _]; subst. clear - Hs. revert Hs. generalize (get_range rbf ref cnt) as l.
    induction l as [|x t IH]; intros H; [constructor|]. cbn [app] in H. inversion H as [|? ? H1 H2]; subst.
    constructor; [apply IH; exact H1|]. rewrite Forall_forall in *. intros z Hz. apply H2. apply in_or_app. left. exact Hz. }
  pose proof (adjust_range_noadj orig R (get_range rbf ref cnt) ab g ae rbf ref) as Hadj'.
  rewrite HRl in Hadj'. apply Hadj'.
  - split; [exact Hidx | unfold ae; fold n; lia].
  - unfold ab. lia.
  - unfold ae. lia.
  - exact Hib.
  - rewrite Hie, HRl. reflexivity.
  - fold n. exact rows_sorted.
  - intros i j Hij. destruct (Nat.eq_dec i j) as [->|Hne].
    + destruct (HRin (nth j R FNaN) ltac:(apply nth_In; lia)) as (u & -> & _). apply fle_iff. cbn. repeat split; auto. lia.
    + apply (StronglySorted_nth _ FNaN _ HRs). rewrite HRl. lia.
  - intros i x Hi Hx. destruct (HRin x Hx) as (u & -> & Hu).
    destruct Hbcase as [[Hg0 _]|[Hg1 Hbrow]]; [lia|].
    apply (fle_trans _ (nth (g - 1) orig FNaN)); [apply rows_sorted; lia|]. rewrite <- Hbrow, Hb.
    apply fle_iff. cbn [is_nan ford]. repeat split; auto. lia.
  - intros x i Hx Hi. destruct (HRin x Hx) as (u & -> & Hu).
    assert (Hgn' : (g < n)%nat) by (unfold ae in Hi; lia).
    apply (flt_fle_trans _ (nth g orig FNaN)); [|apply rows_sorted; lia]. rewrite <- (Hecase Hgn'), He.
    apply flt_iff. cbn [is_nan ford]. repeat split; auto. lia.
  - f_equal. rewrite Hcnt_eq, Hib, Hie, HRl. unfold ab, ae. lia.
  - exact HNKsorted.
  - exact HNKp.
  - rewrite Forall_forall. intros x Hx. destruct (HRin x Hx) as (u & -> & _). eexists; reflexivity.
  - exact HNKl.
Qed.

(* ---- Spec from the state after the renumbering *)
Section FromState.
Variables (ab ae : nat) (NK : list fl) (rb re : Z).
Let rbf := FFin false rb.
Let ref := FFin false re.
Hypothesis Hidx : (ab <= g <= ae)%nat.
Hypothesis Hae : (ae <= n)%nat.
Hypothesis Hbelow : forall j, (j < ab)%nat -> flt (nth j orig FNaN) rbf = true.
Hypothesis Habove : forall j, (ae <= j < n)%nat -> flt (nth j orig FNaN) ref = false.
Hypothesis HNKs : StronglySorted Flt (rbf :: NK ++ [ref]).
Hypothesis HNKp : Forall posfin NK.
Hypothesis HNKl : length NK = (ae - ab + c)%nat.

Let NK1 := firstn (g - ab) NK.
Let NK2 := firstn c (skipn (g - ab) NK).
Let NK3 := skipn (g - ab + c) NK.

Lemma NK_lt p q : (p < q < length NK)%nat -> flt (nth p NK FNaN) (nth q NK FNaN) = true.
Proof.
  intros H. pose proof (StronglySorted_nth _ FNaN _ HNKs (S p) (S q)) as Hs. cbn [length nth] in Hs.
  rewrite !app_nth1 in Hs by lia. apply Hs. rewrite app_length. cbn [length]. lia.
Qed.
Lemma NK_gt_rb p : (p < length NK)%nat -> flt rbf (nth p NK FNaN) = true.
Proof.
  intros H. pose proof (StronglySorted_nth _ FNaN _ HNKs 0%nat (S p)) as Hs. cbn [length nth] in Hs.
  rewrite app_nth1 in Hs by lia. apply Hs. rewrite app_length. cbn [length]. lia.
Qed.
Lemma NK_lt_re p : (p < length NK)%nat -> flt (nth p NK FNaN) ref = true.
Proof.
  intros H. pose proof (StronglySorted_nth _ FNaN _ HNKs (S p) (S (length NK))) as Hs. cbn [length nth] in Hs.
  rewrite app_nth1 in Hs by lia. rewrite app_nth2 in Hs by lia. rewrite Nat.sub_diag in Hs. cbn [nth] in Hs.
  apply Hs. rewrite app_length. cbn [length]. lia.
Qed.

Definition val (j : nat) : fl :=
  if (j <? ab)%nat then nth j orig FNaN
  else if (j <? g)%nat then nth (j - ab) NK FNaN
  else if (j <? ae)%nat then nth (j - ab + c) NK FNaN
  else nth j orig FNaN.

Lemma lens : length NK1 = (g - ab)%nat /\ length NK3 = (ae - g)%nat /\ length NK2 = c.
Proof. unfold NK1, NK2, NK3. rewrite !firstn_length, !skipn_length, HNKl. lia. Qed.

Lemma V2_nth j : (j < n)%nat -> nth j (apply_adj orig (AD R NK ab g ae)) FNaN = val j.
Proof.
  intros Hj. destruct lens as (Hl1 & Hl3 & _). destruct R_facts as (_ & _ & _ & _ & HRl & _). 
  unfold AD. cbv zeta. replace (length R) with c by (destruct R_facts as (? & ? & _ & _ & H & _); symmetry; exact H).
  fold NK1 NK3. rewrite apply_adj_app.
  rewrite <- Hl3 at 1. rewrite apply_run by (rewrite apply_adj_length, Hl3; fold n; lia).
  unfold val. rewrite Hl3.
  destruct (Nat.ltb_spec j ab), (Nat.ltb_spec j g), (Nat.ltb_spec j ae), (Nat.leb_spec g j), (Nat.ltb_spec j (g + (ae - g))); cbn [andb]; try lia.
  - rewrite <- Hl1 at 1. rewrite apply_run by (rewrite Hl1; fold n; lia). rewrite Hl1.
    destruct (Nat.leb_spec ab j), (Nat.ltb_spec j (ab + (g - ab))); cbn [andb]; try lia. reflexivity.
  - rewrite <- Hl1 at 1. rewrite apply_run by (rewrite Hl1; fold n; lia). rewrite Hl1.
    destruct (Nat.leb_spec ab j), (Nat.ltb_spec j (ab + (g - ab))); cbn [andb]; try lia.
    unfold NK1. apply nth_firstn_lt. lia.
  - unfold NK3. rewrite nth_skipn_plus. f_equal. lia.
  - rewrite <- Hl1 at 1. rewrite apply_run by (rewrite Hl1; fold n; lia). rewrite Hl1.
    destruct (Nat.leb_spec ab j), (Nat.ltb_spec j (ab + (g - ab))); cbn [andb]; try lia. reflexivity.
Qed.

Lemma above_le j : (ae <= j < n)%nat -> fle ref (nth j orig FNaN) = true.
Proof.
  intros Hj. pose proof (Habove j Hj) as H. destruct (orig_row j ltac:(lia)) as (u & Hu & _). rewrite Hu in *.
  apply flt_false in H; auto. apply fle_iff. unfold ref in *. cbn [is_nan ford] in *. repeat split; auto.
Qed.

Lemma val_mono i j : (i < j < n)%nat -> flt (val i) (val j) = true.
Proof.
  intros Hij. unfold val.
  destruct (Nat.ltb_spec i ab), (Nat.ltb_spec i g), (Nat.ltb_spec i ae),
           (Nat.ltb_spec j ab), (Nat.ltb_spec j g), (Nat.ltb_spec j ae); try lia.
  - apply rows_strict. lia.
  - eapply flt_trans; [apply Hbelow; lia | apply NK_gt_rb; lia].
  - eapply flt_trans; [apply Hbelow; lia | apply NK_gt_rb; lia].
  - apply rows_strict. lia.
  - apply NK_lt. lia.
  - apply NK_lt. lia.
  - eapply flt_fle_trans; [apply NK_lt_re; lia | apply above_le; lia].
  - apply NK_lt. lia.
  - eapply flt_fle_trans; [apply NK_lt_re; lia | apply above_le; lia].
  - apply rows_strict. lia.
Qed.

Lemma NK2_sorted : StronglySorted Flt NK2.
Proof.
  unfold NK2. assert (Hs : StronglySorted Flt NK).
  { inversion HNKs as [|? ? H _]; subst. clear - H. revert H. generalize NK as l. induction l as [|x t IH]; intros H; [constructor|].
    cbn [app] in H. inversion H as [|? ? H1 H2]; subst. constructor; [apply IH; exact H1|].
    rewrite Forall_forall in *. intros z Hz. apply H2. apply in_or_app. left. exact Hz. }
  assert (Hsk : forall a l, StronglySorted Flt l -> StronglySorted Flt (skipn a l)).
  { induction a as [|a IH]; intros [|x t] H; cbn; try assumption. inversion H; subst. apply IH. assumption. }
  assert (Hfn : forall k l, StronglySorted Flt l -> StronglySorted Flt (firstn k l)).
  { induction k as [|k IH]; intros [|x t] H; cbn; try constructor. inversion H as [|? ? Ht Hx]; subst. apply IH; assumption.
    inversion H as [|? ? Ht Hx]; subst. rewrite Forall_forall in *. intros z Hz. apply Hx. eapply firstn_In_l. exact Hz. }
  apply Hfn, Hsk, Hs.
Qed.

Lemma NK2_nth s : (s < c)%nat -> nth s NK2 FNaN = nth (g - ab + s) NK FNaN.
Proof. intros Hs. unfold NK2. rewrite nth_firstn_lt by exact Hs. apply nth_skipn_plus. Qed.

Theorem spec_from_state : Spec orig keys (AD R NK ab g ae) (ungroup keys NK2).
Proof.
  destruct lens as (Hl1 & Hl3 & Hl2). destruct HPre as (Hsorted & Hnn_o & Hnn_k). pose proof c_pos as Hc.
  assert (Hlen_ins : length (ungroup keys NK2) = length keys) by (apply ungroup_len; exact Hl2).
  assert (Hfin : forall x, In x NK -> is_finite x = true).
  { intros x Hx. rewrite Forall_forall in HNKp. destruct (HNKp x Hx) as (u & ->). reflexivity. }
  constructor.
  - (* adjustments well-formed *)
    assert (Hwfb : adj_wfb (lenZ orig) (-1) (AD R NK ab g ae) = true).
    { unfold AD. cbv zeta. replace (length R) with c by (destruct R_facts as (? & ? & _ & _ & H & _); symmetry; exact H).
      fold NK1 NK3. rewrite <- Hl1 at 1. apply adj_wfb_run; [lia | rewrite Hl1; unfold lenZ; fold n; lia | |].
      - rewrite Forall_forall. intros x Hx. apply Hfin. eapply firstn_In_l. exact Hx.
      - rewrite <- (app_nil_r (combine (map Z.of_nat (seq g (ae - g))) NK3)). rewrite <- Hl3 at 1.
        apply adj_wfb_run; [rewrite Hl1; lia | rewrite Hl3; unfold lenZ; fold n; lia | | reflexivity].
        rewrite Forall_forall. intros x Hx. apply Hfin. eapply skipn_In_l. exact Hx. }
    intros a Ha. destruct (adj_wfb_spec _ _ _ Hwfb a Ha) as (H1 & H2 & H3). split; [lia|]. split; assumption.
  - intros i j Hij. fold n in Hij. rewrite !V2_nth by lia. pose proof (val_mono i j ltac:(lia)) as Hm.
    split; [apply flt_fle; exact Hm | intros _; exact Hm].
  - exact Hlen_ins.
  - rewrite Forall_forall. intros x Hx. apply ungroup_In in Hx. apply Hfin. unfold NK2 in Hx. eapply skipn_In_l. eapply firstn_In_l. exact Hx.
  - intros k i Hk Hi. fold n in Hi. fold c in Hk. rewrite V2_nth by exact Hi.
    assert (Hink : In (nth k (ungroup keys NK2) FNaN) NK2).
    { apply (ungroup_In keys NK2). apply nth_In. rewrite Hlen_ins. exact Hk. }
    destruct (In_nth _ _ FNaN Hink) as (s & Hs & Hsv). rewrite Hl2 in Hs. rewrite <- Hsv. rewrite NK2_nth by exact Hs.
    assert (Hkey : In (nth k keys FNaN) keys) by (apply nth_In; exact Hk).
    assert (Hkn : is_nan (nth k keys FNaN) = false) by (rewrite Forall_forall in Hnn_k; apply Hnn_k; exact Hkey).
    pose proof (bkl_iff orig (nth k keys FNaN) i rows_sorted Hkn ltac:(fold n; lia)) as Hiff.
    rewrite (Hgroup _ Hkey) in Hiff. unfold val.
    destruct (Nat.lt_ge_cases i g) as [Hig|Hig].
    + replace (flt (nth i orig FNaN) (nth k keys FNaN)) with true by (symmetry; apply Hiff; lia).
      destruct (Nat.ltb_spec i ab); [|destruct (Nat.ltb_spec i g); [|lia]].
      * eapply flt_trans; [apply Hbelow; lia | apply NK_gt_rb; lia].
      * apply NK_lt. lia.
    + replace (flt (nth i orig FNaN) (nth k keys FNaN)) with false.
      2:{ symmetry. destruct (flt (nth i orig FNaN) (nth k keys FNaN)) eqn:E; [|reflexivity]. destruct Hiff as [Hi1 _]. specialize (Hi1 eq_refl). lia. }
      destruct (Nat.ltb_spec i ab); [lia|]. destruct (Nat.ltb_spec i g); [lia|]. destruct (Nat.ltb_spec i ae).
      * apply NK_lt. lia.
      * eapply flt_fle_trans; [apply NK_lt_re; lia | apply above_le; lia].
  - intros k1 k2 Hk1 Hk2 Hreq. apply (ungroup_order keys Hnn_k NK2 Hl2 NK2_sorted); assumption.
Qed.

Lemma AD_sorted : StronglySorted idx_lt (AD R NK ab g ae) /\ Forall (fun q => 0 <= fst q < lenZ orig) (AD R NK ab g ae).
Proof.
  destruct lens as (Hl1 & Hl3 & _). unfold AD. cbv zeta.
  replace (length R) with c by (destruct R_facts as (? & ? & _ & _ & H & _); symmetry; exact H). fold NK1 NK3.
  split.
  - rewrite <- Hl1 at 1. apply run_sorted.
    + rewrite <- (app_nil_r (combine (map Z.of_nat (seq g (ae - g))) NK3)). rewrite <- Hl3 at 1. apply run_sorted; constructor.
    + rewrite Forall_forall. intros [qi qv] Hq. apply in_combine_l in Hq. apply in_map_iff in Hq. destruct Hq as (j & <- & Hj).
      apply in_seq in Hj. cbn [fst]. lia.
  - apply Forall_app. split.
    + rewrite <- Hl1 at 1. apply run_range. unfold lenZ. fold n. lia.
    + rewrite <- Hl3 at 1. apply run_range. unfold lenZ. fold n. lia.
Qed.

Lemma get_key_val j : (j < n)%nat -> adj_get_key orig (mkwl (AD R NK ab g ae) NK2) (Z.of_nat j) = val j.
Proof.
  intros Hj. destruct AD_sorted as [Hs Hr]. rewrite (adj_get_key_virtual orig _ NK2 j Hs Hr ltac:(fold n; exact Hj)).
  apply V2_nth. exact Hj.
Qed.

(* the final assertion of prep_inserts_at_index holds in the renumbered state *)
Lemma final_assert_ok : (g < n)%nat -> (g = 0%nat -> rb = 0) ->
  let w2 := mkwl (AD R NK ab g ae) NK2 in
  let b2 := if 0 <? Z.of_nat g then adj_get_key orig w2 (Z.of_nat g - 1) else b in
  let e2 := if Z.of_nat g <? lenZ orig then adj_get_key orig w2 (Z.of_nat g) else e in
  is_valid_range b2 (sl_irange (inss w2) b2 e2) e2 = true.
Proof.
  intros Hgn Hg0 w2 b2 e2. destruct lens as (Hl1 & Hl3 & Hl2). pose proof c_pos as Hc.
  assert (He2 : e2 = val g).
  { unfold e2. replace (Z.of_nat g <? lenZ orig) with true by (symmetry; apply Z.ltb_lt; unfold lenZ; fold n; lia).
    apply get_key_val. exact Hgn. }
  assert (Hb2 : forall s, (s < c)%nat -> flt b2 (nth s NK2 FNaN) = true).
  { intros s Hs. rewrite NK2_nth by exact Hs. unfold b2. destruct (Z.ltb_spec 0 (Z.of_nat g)) as [Hg|Hg].
    - replace (Z.of_nat g - 1) with (Z.of_nat (g - 1)) by lia. unfold w2. rewrite get_key_val by lia. unfold val.
      destruct (Nat.ltb_spec (g - 1) ab); [|destruct (Nat.ltb_spec (g - 1) g); [|lia]].
      + eapply flt_trans; [apply Hbelow; lia | apply NK_gt_rb; lia].
      + apply NK_lt. lia.
    - assert (g = 0%nat) by lia. destruct b_shape as (ub & Hb & _ & _ & _ & [[_ Hu0]|[Hgp _]]); [|lia].
      rewrite Hb, Hu0. pose proof (NK_gt_rb (g - ab + s) ltac:(lia)) as Hgt. unfold rbf in Hgt. rewrite (Hg0 H) in Hgt. exact Hgt. }
  assert (He2' : forall s, (s < c)%nat -> flt (nth s NK2 FNaN) e2 = true).
  { intros s Hs. rewrite NK2_nth by exact Hs. rewrite He2. unfold val.
    destruct (Nat.ltb_spec g ab); [lia|]. destruct (Nat.ltb_spec g g); [lia|]. destruct (Nat.ltb_spec g ae).
    - apply NK_lt. lia.
    - eapply flt_fle_trans; [apply NK_lt_re; lia | apply above_le; lia]. }
  assert (Hir : sl_irange (inss w2) b2 e2 = NK2).
  { unfold w2. cbn [inss]. unfold sl_irange. apply filter_all. intros x Hx. destruct (In_nth _ _ FNaN Hx) as (s & Hs & <-).
    rewrite Hl2 in Hs. apply andb_true_intro. split; apply flt_fle; auto. }
  rewrite Hir. unfold is_valid_range. apply all_distinct_sorted. constructor.
  - pose proof NK2_sorted as HS. clear Hir. revert HS He2'. rewrite <- Hl2. generalize NK2 as l.
    induction l as [|x l IHl]; intros HS He; cbn [app]; [repeat constructor|].
    inversion HS as [|? ? H1 H2]; subst. constructor.
    + apply IHl; [exact H1|]. intros s Hs. apply (He (S s)). cbn [length]. lia.
    + rewrite Forall_forall in *. intros y Hy. apply in_app_or in Hy. destruct Hy as [Hy|[<-|[]]]; [apply H2; exact Hy|].
      apply (He 0%nat). cbn [length]. lia.
  - rewrite Forall_forall. intros y Hy. apply in_app_or in Hy. destruct Hy as [Hy|[<-|[]]].
    + destruct (In_nth _ _ FNaN Hy) as (s & Hs & <-). rewrite Hl2 in Hs. apply Hb2. exact Hs.
    + eapply flt_trans; [apply (Hb2 0%nat); lia | apply (He2' 0%nat); lia].
Qed.
End FromState.

Theorem single_gap_correct adj ins : prepare_inserts_model orig keys = Ok (adj, ins) -> Spec orig keys adj ins.
Proof.
  unfold prepare_inserts_model. rewrite single_groups. cbn [fold_left bind fst snd]. rewrite prep_cases.
  destruct (is_valid_range b R e) eqn:Ev.
  - cbn [bind adjs inss]. intros H. inversion H; subst. apply valid_case. exact Ev.
  - destruct (count_range orig (mkwl [] R) b e <=? 0) eqn:Ec; [cbn [bind]; discriminate|]. apply Z.leb_gt in Ec.
    destruct (find_sparse_enough_range orig (mkwl [] R) b e) as [r|cf] eqn:Ef; cbn [bind]; [|discriminate].
    destruct (renumber_state r Ec Ef) as (ab & ae & NK & rb & re & _ & Hidx & Hae & Hbelow & Habove & HNKs & HNKp & HNKl & Ea).
    rewrite Ea. cbn [bind].
    match goal with |- context [if ?t then Ok ?w else Err 2] => destruct t end; cbn [bind]; [|discriminate].
    intros H. inversion H; subst.
    cbn [adjs inss]. apply (spec_from_state ab ae NK rb re); assumption.
Qed.

(* ---------------------------------------------------------------------------------------------- *)
(* no exception: a range is found, for tables of fewer than 2^20 rows and a gap before an existing row *)

Hypothesis Hfew : lenZ orig + lenZ keys < 2 ^ 20.
Hypothesis Hgn : (g < n)%nat.

Lemma thr130_55 : flt (fint (2 ^ 20)) (thr f130 55) = true.
Proof. vm_compute. reflexivity. Qed.

Lemma invalid_narrow ub ue : b = FFin false ub -> e = FFin false ue -> is_valid_range b R e = false ->
  ue < 2 ^ 54 \/ ue < 4 * ub.
Proof.
  intros Hb He Hinv. destruct (Z.lt_ge_cases ue (2 ^ 54)) as [H1|H1]; [left; exact H1|].
  destruct (Z.lt_ge_cases ue (4 * ub)) as [H2|H2]; [right; exact H2|]. exfalso.
  destruct b_shape as (ub' & Hb' & Hub & Hbw & Hbrep & _). rewrite Hb in Hb'. inversion Hb'; subst ub'.
  destruct e_shape as (ue' & He' & Hue & Hecase). rewrite He in He'. inversion He'; subst ue'.
  assert (Hue_rep : ue mod 2 ^ ulp_exp ue = 0).
  { destruct (orig_row g Hgn) as (u & Hu & _ & Hw). rewrite <- (Hecase Hgn), He in Hu. inversion Hu; subst u. destruct Hw as [_ Hd]. exact Hd. }
  assert (Hub_rep : ub mod 2 ^ ulp_exp ub = 0).
  { destruct (Z.eq_dec ub 0) as [->|H0]; [reflexivity | apply Hbrep; lia]. }
  pose proof c_pos as Hc. unfold lenZ in Hfew. fold c in Hfew.
  assert (HK24 : Z.of_nat c + 1 <= 2 ^ 24) by (assert (2 ^ 20 <= 2 ^ 24) by (apply Z.pow_le_mono_r; lia); lia).
  pose proof (wide_gap_strict ub ue (Z.of_nat c) ltac:(lia) Hue_rep H1 H2 ltac:(lia) ltac:(lia) HK24) as Hs.
  unfold R in Hinv. rewrite Hb, He in Hinv. unfold is_valid_range in Hinv. rewrite (all_distinct_sorted _ Hs) in Hinv. discriminate.
Qed.

Lemma range_total ub (a : nat) : 0 <= ub < 2 ^ 2086 -> (a < 64)%nat ->
  exists rb re, range_around ub (Z.of_nat a) = Some (FFin false rb, FFin false re) /\ 0 <= rb <= ub /\ ub < re /\
    (53 <= Z.of_nat a -> 0 < ub -> re = 2 ^ (if ub <? P52 then Z.of_nat a else Z.log2 ub + Z.of_nat a - 52)) /\
    (ub = 0 -> re = 2 ^ (Z.of_nat a + 1021)).
Proof.
  intros Hu Ha. destruct (Z.eq_dec ub 0) as [->|H0].
  - exists 0, (2 ^ (Z.of_nat a + 1021)). rewrite range_around_zero by lia. split; [reflexivity|].
    assert (0 < 2 ^ (Z.of_nat a + 1021)) by (apply pow2_pos'; lia). repeat split; intros; (lia || reflexivity).
  - destruct (Z.le_gt_cases 53 (Z.of_nat a)) as [Hh|Hl].
    + destruct (range_around_high ub (Z.of_nat a) ltac:(lia) ltac:(lia) ltac:(lia)) as (Hr & HuT & HT).
      eexists 0, _. split; [exact Hr|]. repeat split; intros; (lia || reflexivity).
    + assert (Hov : 2 * ub < UOVER).
      { rewrite UOVER_eq. apply Z.lt_le_trans with (2 ^ 2087).
        - replace 2087 with (Z.succ 2086) by reflexivity. rewrite Z.pow_succ_r by lia. lia.
        - apply Z.pow_le_mono_r; lia. }
      pose proof (range_around_block ub (Z.of_nat a) ltac:(lia) ltac:(lia) Hov) as Hr.
      destruct (block_facts ub (Z.of_nat a) ltac:(lia) ltac:(lia)) as (Ht & Hin & _ & _ & _ & _ & Hrb).
      eexists _, _. split; [exact Hr|]. repeat split; intros; (lia || reflexivity).
Qed.

Lemma level_count_pos (a : nat) : is_valid_range b R e = false -> (a < 64)%nat ->
  exists rb re, range_around_float b (Z.of_nat a) = Ok (FFin false rb, FFin false re) /\
    0 < count_range orig (mkwl [] R) (FFin false rb) (FFin false re) /\
    (forall ub, b = FFin false ub -> 0 <= rb <= ub /\ ub < re /\
       (53 <= Z.of_nat a -> 0 < ub -> re = 2 ^ (if ub <? P52 then Z.of_nat a else Z.log2 ub + Z.of_nat a - 52)) /\
       (ub = 0 -> re = 2 ^ (Z.of_nat a + 1021))).
Proof.
  intros Hinv Ha. destruct R_facts as (ub & ue & Hb & He & HRl & HRin & HRs & Hlim & Hubue).
  destruct b_shape as (ub' & Hb' & Hub & Hbw & Hbrep & Hbcase). rewrite Hb in Hb'. inversion Hb'; subst ub'. clear Hb'.
  destruct (range_total ub a Hub Ha) as (rb & re & Hra & Hrb & Hre & Hhigh & Hzero).
  exists rb, re. split; [rewrite Hb; cbn [range_around_float]; rewrite Hra; reflexivity|].
  split; [|intros ub2 Hb2; rewrite Hb in Hb2; inversion Hb2; subst ub2; auto].
  set (rbf := FFin false rb). set (ref := FFin false re).
  unfold count_range. rewrite !adj_bisect_noadj. cbn [inss].
  assert (Hqn1 : is_nan rbf = false) by reflexivity. assert (Hqn2 : is_nan ref = false) by reflexivity.
  assert (Hmono_o : bkl orig rbf <= bkl orig ref).
  { apply bkl_mono. intros x _ Hx. apply flt_iff in Hx. apply flt_iff. unfold rbf, ref in *. cbn [is_nan ford] in *. intuition lia. }
  assert (Hmono_R : bkl R rbf <= bkl R ref).
  { apply bkl_mono. intros x _ Hx. apply flt_iff in Hx. apply flt_iff. unfold rbf, ref in *. cbn [is_nan ford] in *. intuition lia. }
  destruct Hbcase as [[Hg0 Hu0]|[Hg1 Hbrow]].
  - (* the gap before the first row: the first new key is counted *)
    subst ub. assert (Hrb0 : rb = 0) by lia.
    destruct (invalid_narrow 0 ue Hb He Hinv) as [Hn|Hn]; [|lia].
    pose proof c_pos as Hc. destruct R as [|x t] eqn:ER; [cbn in HRl; lia|].
    destruct (HRin x (or_introl eq_refl)) as (u & Hx & Hu).
    assert (Hx1 : flt x rbf = false).
    { rewrite Hx. unfold rbf. destruct (flt (FFin false u) (FFin false rb)) eqn:E; [|reflexivity]. apply flt_iff in E. cbn [ford] in E. lia. }
    assert (Hx2 : flt x ref = true).
    { rewrite Hx. apply flt_iff. unfold ref. cbn [is_nan ford]. repeat split; auto.
      rewrite (Hzero eq_refl). assert (2 ^ 54 <= 2 ^ (Z.of_nat a + 1021)) by (apply Z.pow_le_mono_r; lia). lia. }
    cbn [bkl]. rewrite Hx1, Hx2. pose proof (bkl_range t ref). lia.
  - (* the row before the gap lies in the range *)
    assert (Hrowb : nth (g - 1) orig FNaN = FFin false ub) by (rewrite <- Hbrow; exact Hb).
    assert (H1 : ~ (Z.of_nat (g - 1) < bkl orig rbf)).
    { intros Hlt. apply (bkl_iff orig rbf (g - 1) rows_sorted Hqn1 ltac:(fold n; lia)) in Hlt. rewrite Hrowb in Hlt.
      apply flt_iff in Hlt. unfold rbf in Hlt. cbn [ford] in Hlt. lia. }
    assert (H2 : Z.of_nat (g - 1) < bkl orig ref).
    { apply (bkl_iff orig ref (g - 1) rows_sorted Hqn2 ltac:(fold n; lia)). rewrite Hrowb.
      apply flt_iff. unfold ref. cbn [is_nan ford]. repeat split; auto; lia. }
    lia.
Qed.

Lemma level55_ok : is_valid_range b R e = false -> level_ok orig (mkwl [] R) b e (thr f130 55) (Z.of_nat 55) = true.
Proof.
  intros Hinv. destruct (level_count_pos 55 Hinv ltac:(lia)) as (rb & re & Hr & Hcnt & Hfacts).
  destruct R_facts as (ub & ue & Hb & He & HRl & _ & _ & _ & Hubue).
  destruct (Hfacts ub Hb) as (Hrb & Hre & Hhigh & Hzero).
  unfold level_ok. rewrite Hr. cbn [fst snd].
  replace (0 <? count_range orig (mkwl [] R) (FFin false rb) (FFin false re)) with true by (symmetry; apply Z.ltb_lt; exact Hcnt).
  cbn [andb]. apply andb_true_intro. split.
  - (* end <= rend *)
    rewrite He. apply fle_iff. cbn [is_nan ford]. repeat split; auto.
    destruct (invalid_narrow ub ue Hb He Hinv) as [Hn|Hn].
    + destruct (Z.eq_dec ub 0) as [E0|E0].
      * rewrite (Hzero E0). assert (2 ^ 54 <= 2 ^ (Z.of_nat 55 + 1021)) by (apply Z.pow_le_mono_r; lia). lia.
      * rewrite (Hhigh ltac:(lia) ltac:(lia)). rewrite P52_eq. destruct (Z.ltb_spec ub (2 ^ 52)) as [Hs|Hs].
        -- assert (2 ^ 54 <= 2 ^ Z.of_nat 55) by (apply Z.pow_le_mono_r; lia). lia.
        -- assert (52 <= Z.log2 ub) by (apply Z.log2_le_pow2; lia).
           assert (2 ^ 54 <= 2 ^ (Z.log2 ub + Z.of_nat 55 - 52)) by (apply Z.pow_le_mono_r; lia). lia.
    + assert (Hub0 : 0 < ub) by lia. rewrite (Hhigh ltac:(lia) Hub0). rewrite P52_eq. destruct (Z.ltb_spec ub (2 ^ 52)) as [Hs|Hs].
      * assert (4 * 2 ^ 52 <= 2 ^ Z.of_nat 55) by (change (4 * 2 ^ 52) with (2 ^ 54); apply Z.pow_le_mono_r; lia). lia.
      * pose proof (Z.log2_spec ub Hub0) as [_ L2].
        assert (4 * 2 ^ Z.succ (Z.log2 ub) = 2 ^ (Z.log2 ub + Z.of_nat 55 - 52)).
        { change 4 with (2 ^ 2). rewrite <- Z.pow_add_r by (pose proof (Z.log2_nonneg ub); lia). f_equal. lia. }
        lia.
  - (* the count is below 1.3^55 *)
    set (cnt := count_range orig (mkwl [] R) (FFin false rb) (FFin false re)) in *.
    assert (Hle : cnt <= 2 ^ 20).
    { unfold cnt, count_range. rewrite !adj_bisect_noadj. cbn [inss].
      pose proof (bkl_range orig (FFin false re)). pose proof (bkl_range orig (FFin false rb)).
      pose proof (bkl_range R (FFin false re)). pose proof (bkl_range R (FFin false rb)). unfold lenZ in *. rewrite HRl in *. fold c in Hfew. lia. }
    assert (H53 : 2 ^ 20 < 2 ^ 53) by (apply Z.pow_lt_mono_r; lia).
    rewrite of_Z_int by lia. apply (fle_flt_trans _ (fint (2 ^ 20))); [|exact thr130_55].
    rewrite fle_fint. apply Z.leb_le. exact Hle.
Qed.

Theorem single_gap_total : exists adj ins, prepare_inserts_model orig keys = Ok (adj, ins) /\ Spec orig keys adj ins.
Proof.
  unfold prepare_inserts_model. rewrite single_groups. cbn [fold_left bind fst snd]. rewrite prep_cases.
  destruct (is_valid_range b R e) eqn:Ev.
  - cbn [bind adjs inss]. eexists. eexists. split; [reflexivity|]. apply valid_case. exact Ev.
  - (* the first assertion *)
    destruct R_facts as (ub & ue & Hb & He & HRl & HRin & HRs & Hlim & Hubue).
    destruct b_shape as (ub' & Hb' & Hub & Hbw & _ & _). rewrite Hb in Hb'. inversion Hb'; subst ub'. clear Hb'.
    destruct e_shape as (ue' & He' & Hue & _). rewrite He in He'. inversion He'; subst ue'. clear He'.
    pose proof c_pos as Hc. unfold lenZ in Hsmall. fold c in Hsmall.
    assert (Hcnt : 0 < count_range orig (mkwl [] R) b e).
    { pose proof (first_assert_guard orig [] false ub ue (Z.of_nat c)) as Hg. cbv zeta in Hg.
      rewrite <- Hb, <- He in Hg. fold R in Hg. rewrite (sl_update_weak R []) in Hg by (cbn [app]; exact HRs). cbn [app] in Hg.
      assert (Z.of_nat c <= count_range orig (mkwl [] R) b e); [|lia].
      apply Hg; try (rewrite Hb in *; assumption); try lia.
      - rewrite Hb. cbn [ford]. lia.
      - intros x [].
      - constructor. }
    replace (count_range orig (mkwl [] R) b e <=? 0) with false by (symmetry; apply Z.leb_gt; exact Hcnt).
    (* a range is found *)
    destruct (find_sparse_finds orig (mkwl [] R) b e 55 ltac:(lia)) as (r & a & frac & Ha & Hf & Hfind & _ & _).
    { intros a Ha. destruct (level_count_pos a Ev Ha) as (rb & re & Hr & Hc0 & _). unfold level_passes. rewrite Hr. cbn [fst snd].
      apply Z.ltb_lt. exact Hc0. }
    { exact (level55_ok Ev). }
    rewrite Hfind. cbn [bind].
    destruct (renumber_state r Hcnt Hfind) as (ab & ae & NK & rb & re & Hg0 & Hidx & Hae & Hbelow & Habove & HNKs & HNKp & HNKl & Ea).
    rewrite Ea. cbn [bind].
    pose proof (final_assert_ok ab ae NK rb re Hidx Hae Hbelow Habove HNKs HNKl Hgn Hg0) as Hfin. cbv zeta in Hfin.
    rewrite Hfin. cbn [adjs inss]. eexists. eexists. split; [reflexivity|].
    apply (spec_from_state ab ae NK rb re); assumption.
Qed.
End Single.

(* the neighbours of a gap before an existing row are valid when the positions are *)
Lemma gap_neighbours_valid orig (g : nat) cnt :
  Forall (fun x => exists u, x = FFin false u /\ 0 < u < 2 ^ 2086) orig -> StronglySorted Flt orig -> (g < length orig)%nat ->
  let b := group_begin orig (Z.of_nat g) in let e := group_end orig (Z.of_nat g) cnt in
  flt b fzero || fle e fzero || is_inf (fmax b e) = false /\ flt b e = true.
Proof.
  intros Hvalid Hstrict Hg b e.
  assert (Hrow : forall i, (i < length orig)%nat -> exists u, nth i orig FNaN = FFin false u /\ 0 < u).
  { intros i Hi. rewrite Forall_forall in Hvalid. destruct (Hvalid _ (nth_In orig FNaN Hi)) as (u & Hu & Hb). exists u. split; [exact Hu | lia]. }
  assert (He : exists ue, e = FFin false ue /\ 0 < ue).
  { unfold e, group_end. replace (Z.of_nat g <? lenZ orig) with true by (symmetry; apply Z.ltb_lt; unfold lenZ; lia).
    unfold nthZ. rewrite Nat2Z.id. apply Hrow. exact Hg. }
  destruct He as (ue & He & Hue).
  assert (Hb : exists ub, b = FFin false ub /\ 0 <= ub < ue).
  { unfold b, group_begin. destruct g as [|g'].
    - cbn [Z.of_nat Z.ltb Z.compare]. exists 0. split; [reflexivity | lia].
    - replace (0 <? Z.of_nat (S g')) with true by (symmetry; apply Z.ltb_lt; lia). unfold nthZ.
      replace (Z.to_nat (Z.of_nat (S g') - 1)) with g' by lia.
      destruct (Hrow g' ltac:(lia)) as (u & Hu & Hu0). exists u. split; [exact Hu|]. split; [lia|].
      pose proof (StronglySorted_nth _ FNaN _ Hstrict g' (S g') ltac:(lia)) as Hlt. unfold Flt in Hlt.
      rewrite Hu in Hlt. unfold e, group_end in He. replace (Z.of_nat (S g') <? lenZ orig) with true in He by (symmetry; apply Z.ltb_lt; unfold lenZ; lia).
      unfold nthZ in He. rewrite Nat2Z.id in He. rewrite He in Hlt. apply flt_iff in Hlt. cbn [ford] in Hlt. lia. }
  destruct Hb as (ub & Hb & Hub). rewrite Hb, He. split.
  - unfold flt, fle, fmax. cbn [is_nan negb andb ford fzero]. 
    replace (ub <? 0) with false by (symmetry; apply Z.ltb_ge; lia). replace (ue <=? 0) with false by (symmetry; apply Z.leb_gt; lia).
    cbn [orb]. destruct (flt (FFin false ub) (FFin false ue)); reflexivity.
  - apply flt_iff. cbn [is_nan ford]. repeat split; auto; lia.
Qed.

(* total correctness for one gap before an existing row: no exception and Spec *)
Theorem one_gap_total orig keys (g : nat) :
  Pre orig keys -> Forall wf_fl orig ->
  Forall (fun x => exists u, x = FFin false u /\ 0 < u < 2 ^ 2086) orig -> StronglySorted Flt orig ->
  lenZ orig + lenZ keys < 2 ^ 20 -> keys <> [] ->
  (forall k, In k keys -> bkl orig k = Z.of_nat g) -> (g < length orig)%nat ->
  exists adj ins, prepare_inserts_model orig keys = Ok (adj, ins) /\ Spec orig keys adj ins.
Proof.
  intros HPre Hwf Hvalid Hstrict Hfew Hk Hgroup Hg.
  destruct (gap_neighbours_valid orig g (Z.of_nat (length keys)) Hvalid Hstrict Hg) as [Hcond Hbe].
  assert (Hsmall : lenZ orig + lenZ keys + 1 < 2 ^ 53).
  { assert (2 ^ 20 + 1 < 2 ^ 53) by (apply Z.ltb_lt; reflexivity). lia. }
  exact (single_gap_total orig keys g HPre Hwf Hvalid Hstrict Hsmall Hk Hgroup Hcond Hbe Hfew Hg).
Qed.
