(* Chained summary tables: the loop of apply_user_actions ends after at most (number of levels + 1) rounds, in a
   state where every level is settled (hence an exact group-by of its rewritten source). *)
From Coq Require Import ZArith List Bool Lia.
Import ListNotations.
Require Import Grist.Model.Summary Grist.Model.SummaryChain Grist.Proofs.Summary_proofs
  Grist.Proofs.Summary_inc_proofs.
Open Scope Z_scope.

(* ------------------------------------------------------------------ clean-up with nothing removed *)

Lemma clean_atom_nil : forall a, clean_atom [] a = a.
Proof. destruct a; reflexivity. Qed.

Lemma clean_cells_nil : forall refs cells, clean_cells refs [] cells = cells.
Proof.
  induction refs as [|b rs IH]; intros cells; [destruct cells; reflexivity|].
  destruct cells as [|c cs]; [reflexivity|]. simpl. rewrite IH. f_equal.
  unfold clean_cell. destruct b; [|reflexivity]. destruct c as [a|l| |]; try reflexivity.
  - rewrite clean_atom_nil. reflexivity.
  - f_equal. induction l as [|a t IHl]; [reflexivity|]. simpl.
    replace (keep_atom [] a) with true by (destruct a; reflexivity). rewrite IHl. reflexivity.
Qed.

Lemma clean_key_nil : forall refs k, clean_key refs [] k = k.
Proof.
  induction refs as [|b rs IH]; intros k; [destruct k; reflexivity|].
  destruct k as [|a t]; [reflexivity|]. simpl. rewrite IH. destruct b; [rewrite clean_atom_nil|]; reflexivity.
Qed.

Lemma cleanup_src_nil : forall refs src, cleanup_src refs [] src = src.
Proof.
  intros refs src. unfold cleanup_src. induction src as [|r t IH]; [reflexivity|]. simpl.
  rewrite IH, clean_cells_nil. destruct r; reflexivity.
Qed.

Lemma cleanup_keys_nil : forall refs summ, cleanup_keys refs [] summ = summ.
Proof.
  intros refs summ. unfold cleanup_keys. induction summ as [|r t IH]; [reflexivity|]. simpl.
  rewrite IH, clean_key_nil. destruct r; reflexivity.
Qed.

Lemma cleanup_src_ids : forall refs rem src, map fst (cleanup_src refs rem src) = map fst src.
Proof. intros. unfold cleanup_src. rewrite map_map. reflexivity. Qed.

Lemma cleanup_keys_ids : forall refs rem summ, map fst (cleanup_keys refs rem summ) = map fst summ.
Proof. intros. unfold cleanup_keys. rewrite map_map. reflexivity. Qed.

(* ------------------------------------------------------------------ one level, one round *)

Definition wf_level (lv : level) : Prop := NoDup (map fst (lsrc lv)) /\ NoDup (map fst (lsumm lv)).
Definition lsettled (lv : level) : Prop := settled (lkinds lv) (lsrc lv) (lsumm lv) (lprev lv).

Lemma lpass_eq : forall lv, pass (lkinds lv) (lprev lv) (lsrc lv) (lsumm lv) = (fst (lpass lv), snd (lpass lv)).
Proof. intros lv. unfold lpass. destruct (pass _ _ _ _); reflexivity. Qed.

Lemma filter_empty_none : forall rows, forallb nonempty_group rows = true -> filter empty_group rows = [].
Proof.
  induction rows as [|r t IH]; intros H; [reflexivity|]. simpl in *.
  apply andb_true_iff in H. destruct H as [Hr Ht]. unfold empty_group at 1. rewrite Hr. simpl. exact (IH Ht).
Qed.

Lemma wf_after_round : forall rem lv, wf_level lv -> wf_level (after_round rem lv).
Proof.
  intros rem lv [Hs Hm]. split; simpl.
  - rewrite cleanup_src_ids. exact Hs.
  - rewrite cleanup_keys_ids. unfold lrows. rewrite auto_remove_filter. apply NoDup_map_filter.
    eapply pass_ids_NoDup; [apply lpass_eq|exact Hm].
Qed.

(* a settled level stays as it is and removes nothing *)
Lemma settled_level_round : forall lv, lsettled lv ->
  lremoved lv = [] /\ forallb nonempty_group (lrows lv) = true /\ lsettled (after_round [] lv).
Proof.
  intros lv Hs. destruct (settled_pass _ _ _ _ Hs) as [hs' [Hp Hq]].
  assert (Hf : fst (lpass lv) = lsumm lv) by (unfold lpass; rewrite Hp; reflexivity).
  assert (Hh : snd (lpass lv) = hs') by (unfold lpass; rewrite Hp; reflexivity).
  pose proof Hs as [_ [_ [_ Hne]]].
  assert (Hrows : lrows lv = with_groups (lsumm lv) (lprev lv)).
  { unfold lrows. rewrite Hf, Hh. symmetry. apply with_groups_equiv. exact Hq. }
  assert (Hall : forallb nonempty_group (lrows lv) = true) by (rewrite Hrows; exact Hne).
  split; [unfold lremoved; rewrite (filter_empty_none _ Hall); reflexivity|]. split; [exact Hall|].
  unfold lsettled, after_round. simpl. rewrite cleanup_src_nil, cleanup_keys_nil.
  rewrite Hrows, (auto_remove_all _ _ Hne), Hh.
  apply (settled_equiv _ _ _ (lprev lv)); [exact Hs|apply hequiv_sym; exact Hq].
Qed.

(* any level whose references are not rewritten in this round is settled after it *)
Lemma any_level_round : forall lv, wf_level lv -> lsettled (after_round [] lv).
Proof.
  intros lv [Hs Hm]. unfold lsettled, after_round. simpl. rewrite cleanup_src_nil, cleanup_keys_nil.
  unfold lrows. rewrite auto_remove_filter. pose proof (lpass_eq lv) as Hp.
  split; [exact Hs|]. split; [eapply pass_fst; exact Hp|]. split.
  - eapply round_fixpoint; eassumption.
  - rewrite <- filter_with_groups. apply forallb_filter_self.
Qed.

(* ------------------------------------------------------------------ the chain *)

Fixpoint prefix_settled (n : nat) (c : list level) : Prop :=
  match n, c with
  | O, _ => True
  | S _, [] => True
  | S m, lv :: t => lsettled lv /\ prefix_settled m t
  end.

Lemma chain_step_wf : forall c rem, Forall wf_level c -> Forall wf_level (chain_step rem c).
Proof.
  induction c as [|lv t IH]; intros rem H; [constructor|]. inversion H; subst. simpl.
  constructor; [apply wf_after_round; assumption|apply IH; assumption].
Qed.

Lemma chain_step_length : forall c rem, length (chain_step rem c) = length c.
Proof. induction c as [|lv t IH]; intros rem; simpl; [reflexivity|]. rewrite IH. reflexivity. Qed.

(* each round settles one more level, bottom up *)
Lemma chain_step_progress : forall c n, Forall wf_level c -> prefix_settled n c ->
  prefix_settled (S n) (chain_step [] c).
Proof.
  induction c as [|lv t IH]; intros n Hwf Hps; [exact I|].
  inversion Hwf as [|x l Hlv Ht]; subst. cbn [chain_step prefix_settled]. destruct n as [|m].
  - split; [apply any_level_round; exact Hlv|exact I].
  - destruct Hps as [Hs Hrest]. destruct (settled_level_round lv Hs) as [Hrem [_ Hs']].
    split; [exact Hs'|]. rewrite Hrem. apply IH; assumption.
Qed.

Lemma prefix_settled_all : forall c n, (length c <= n)%nat -> prefix_settled n c -> Forall lsettled c.
Proof.
  induction c as [|lv t IH]; intros n Hn H; [constructor|]. destruct n as [|m]; [simpl in Hn; lia|].
  destruct H as [Hs Ht]. constructor; [exact Hs|]. apply (IH m); [simpl in Hn; lia|exact Ht].
Qed.

Lemma all_settled_quiet : forall c, Forall lsettled c -> chain_quiet c = true.
Proof.
  intros c H. unfold chain_quiet. apply forallb_forall. intros lv Hin.
  rewrite Forall_forall in H. exact (proj1 (proj2 (settled_level_round lv (H lv Hin)))).
Qed.

Lemma chain_loop_ends : forall m c n, Forall wf_level c -> prefix_settled n c -> (length c <= n + m)%nat ->
  exists c', forall fuel, (S m <= fuel)%nat -> chain_loop fuel c = Some c'.
Proof.
  induction m as [|m IH]; intros c n Hwf Hps Hlen.
  - exists c. intros fuel Hf. destruct fuel as [|f]; [lia|]. simpl.
    rewrite (all_settled_quiet c); [reflexivity|]. apply (prefix_settled_all c n); [lia|exact Hps].
  - destruct (chain_quiet c) eqn:Eq.
    + exists c. intros fuel Hf. destruct fuel as [|f]; [lia|]. simpl. rewrite Eq. reflexivity.
    + destruct (IH (chain_step [] c) (S n)) as [c' Hc'].
      * apply chain_step_wf. exact Hwf.
      * apply chain_step_progress; assumption.
      * rewrite chain_step_length. lia.
      * exists c'. intros fuel Hf. destruct fuel as [|f]; [lia|]. simpl. rewrite Eq. apply Hc'. lia.
Qed.

Theorem chain_terminates : forall c, Forall wf_level c ->
  exists c', forall fuel, (S (length c) <= fuel)%nat -> chain_loop fuel c = Some c'.
Proof. intros c Hwf. apply (chain_loop_ends (length c) c 0); [exact Hwf|exact I|lia]. Qed.

Lemma chain_loop_result : forall fuel c c', chain_loop fuel c = Some c' -> Forall wf_level c ->
  Forall wf_level c' /\ chain_quiet c' = true.
Proof.
  induction fuel as [|f IH]; intros c c' H Hwf; [discriminate|]. simpl in H.
  destruct (chain_quiet c) eqn:Eq.
  - inversion H; subst. split; assumption.
  - apply (IH _ _ H). apply chain_step_wf. exact Hwf.
Qed.

(* a level of the final chain is an exact group-by of its (rewritten) source *)
Theorem chain_level_exact : forall fuel c c' lv,
  chain_loop fuel c = Some c' -> Forall wf_level c -> In lv c' -> no_raise (lkinds lv) (lsrc lv) ->
  (forall k, In k (map okey (lrows lv)) <-> exists r, In r (lsrc lv) /\ In k (keys_of (lkinds lv) (snd r))) /\
  NoDup (map okey (lrows lv)) /\
  (forall i k g, In (i, k, g) (lrows lv) -> g = rows_with_key (lkinds lv) (lsrc lv) k /\ g <> []).
Proof.
  intros fuel c c' lv H Hwf Hin Hg.
  destruct (chain_loop_result _ _ _ H Hwf) as [Hwf' Hq].
  rewrite Forall_forall in Hwf'. destruct (Hwf' lv Hin) as [Hs Hm].
  unfold chain_quiet in Hq. rewrite forallb_forall in Hq. specialize (Hq lv Hin).
  pose proof (lpass_eq lv) as Hp.
  assert (E : lrows lv = filter nonempty_group (with_groups (fst (lpass lv)) (snd (lpass lv)))).
  { unfold lrows. symmetry. apply forallb_filter_id. exact Hq. }
  rewrite E. split; [|split].
  - intros k. eapply ex_keys; eassumption.
  - eapply ex_keys_NoDup; eassumption.
  - intros i k g Hi. eapply (ex_groups _ _ _ _ _ _ Hm Hp Hg i k g). exact Hi.
Qed.

(* ------------------------------------------------------------------ incremental evaluation on a chain *)

(* entries that contain the same ids are interchangeable as previous entries *)
Lemma pass_hequiv : forall kinds src p1 p2 s,
  Forall2 hequiv p1 p2 ->
  exists s' h1 h2, pass kinds p1 src s = (s', h1) /\ pass kinds p2 src s = (s', h2) /\ Forall2 hequiv h1 h2.
Proof.
  intros kinds src p1 p2. induction src as [|r t IH]; intros s Hq; simpl.
  - exists s, [], []. repeat split; constructor.
  - rewrite !helper_is_list. unfold helper_list.
    destruct (row_keys kinds (snd r)) as [ks|].
    + set (s1 := s ++ number_from (next_id s) (missing_keys s ks)).
      destruct (IH s1 Hq) as [s' [h1 [h2 [H1 [H2 H3]]]]]. rewrite H1, H2.
      eexists s', _, _. split; [reflexivity|]. split; [reflexivity|].
      constructor; [split; [reflexivity|tauto]|exact H3].
    + destruct (IH s Hq) as [s' [h1 [h2 [H1 [H2 H3]]]]]. rewrite H1, H2.
      eexists s', _, _. split; [reflexivity|]. split; [reflexivity|].
      constructor; [|exact H3]. split; [reflexivity|]. simpl. apply hequiv_entry. exact Hq.
Qed.

Definition lequiv (a b : level) : Prop :=
  lkinds a = lkinds b /\ lrefs a = lrefs b /\ lsrc a = lsrc b /\ lsumm a = lsumm b /\
  Forall2 hequiv (lprev a) (lprev b).

Definition lcv (d : list Z) (lv : level) : Prop :=
  clean_valid (lkinds lv) d (lprev lv) (lsrc lv) (lsumm lv).

Lemma level_round_d : forall d rem a b, lequiv a b -> lcv d a ->
  lrows_d d a = lrows b /\ lremoved_d d a = lremoved b /\ lequiv (after_round_d d rem a) (after_round rem b).
Proof.
  intros d rem a b [Hk [Hr [Hs [Hm Hq]]]] Hcv. unfold lcv in Hcv.
  destruct (pass_d_full _ _ _ _ _ Hcv) as [s' [hsd [hs [Hd [Hp Hqd]]]]].
  destruct (pass_hequiv (lkinds a) (lsrc a) (lprev a) (lprev b) (lsumm a) Hq) as [s0 [h1 [h2 [H1 [H2 H3]]]]].
  rewrite Hp in H1. inversion H1; subst s0 h1; clear H1.
  assert (Hfin : Forall2 hequiv hsd h2) by (eapply hequiv_trans; eassumption).
  assert (Ea : lpass_d d a = (s', hsd)) by exact Hd.
  assert (Eb : lpass b = (s', h2)) by (unfold lpass; rewrite <- Hk, <- Hs, <- Hm; exact H2).
  assert (Erows : lrows_d d a = lrows b).
  { unfold lrows_d, lrows. rewrite Ea, Eb. simpl. apply with_groups_equiv. exact Hfin. }
  split; [exact Erows|]. split; [unfold lremoved_d, lremoved; rewrite Erows; reflexivity|].
  unfold lequiv, after_round_d, after_round. simpl. rewrite Erows, Ea, Eb, Hk, Hr, Hs. simpl.
  repeat split; try reflexivity. exact Hfin.
Qed.

Lemma chain_step_d_equiv : forall c c0 ds rem,
  Forall2 lequiv c c0 -> Forall2 lcv ds c ->
  Forall2 lequiv (chain_step_d ds rem c) (chain_step rem c0) /\ chain_quiet_d ds c = chain_quiet c0.
Proof.
  intros c c0 ds rem He. revert ds rem. induction He as [|a b t t0 Hab _ IH]; intros ds rem Hcv.
  - split; [constructor|reflexivity].
  - inversion Hcv as [|d a' ds' t' Hd Hrest]; subst. cbn [chain_step_d chain_step chain_quiet_d hd tl].
    destruct (level_round_d d rem a b Hab Hd) as [Hrows [Hrem Heq]].
    destruct (IH ds' (lremoved b) Hrest) as [Hstep Hquiet]. split.
    + constructor; [exact Heq|]. rewrite Hrem. exact Hstep.
    + unfold chain_quiet in *. simpl. rewrite Hrows, Hquiet. reflexivity.
Qed.

(* at every round, at every level, the entries that are not re-evaluated are up to date *)
Fixpoint chain_cv (dss : list (list (list Z))) (c : list level) : Prop :=
  match dss with
  | [] => True
  | ds :: rest => Forall2 lcv ds c /\ chain_cv rest (chain_step_d ds [] c)
  end.

Theorem chain_inc_is_full : forall dss c c0,
  Forall2 lequiv c c0 -> chain_cv dss c ->
  match chain_loop_d dss c with
  | Some (ds, c') => exists c0', chain_loop (length dss) c0 = Some c0' /\ Forall2 lequiv c' c0' /\
                                 Forall2 lcv ds c' /\ chain_quiet_d ds c' = true
  | None => chain_loop (length dss) c0 = None
  end.
Proof.
  induction dss as [|ds rest IH]; intros c c0 He Hcv; [reflexivity|].
  destruct Hcv as [Hcv Hrest]. cbn [chain_loop_d chain_loop length].
  destruct (chain_step_d_equiv c c0 ds [] He Hcv) as [Hstep Hq]. rewrite <- Hq.
  destruct (chain_quiet_d ds c) eqn:Eq.
  - exists c0. repeat split; assumption.
  - apply IH; assumption.
Qed.

Lemma lequiv_refl : forall c, Forall2 lequiv c c.
Proof.
  induction c as [|lv t IH]; constructor; [|exact IH].
  unfold lequiv. repeat split; try reflexivity. apply hequiv_refl.
Qed.

(* the tables the incremental chain ends with are those of chain_loop: exact group-bys *)
Theorem chain_inc_exact : forall dss c ds c' d lv,
  Forall wf_level c -> chain_cv dss c -> chain_loop_d dss c = Some (ds, c') ->
  In (d, lv) (combine ds c') -> no_raise (lkinds lv) (lsrc lv) ->
  (forall k, In k (map okey (lrows_d d lv)) <-> exists r, In r (lsrc lv) /\ In k (keys_of (lkinds lv) (snd r))) /\
  NoDup (map okey (lrows_d d lv)) /\
  (forall i k g, In (i, k, g) (lrows_d d lv) -> g = rows_with_key (lkinds lv) (lsrc lv) k /\ g <> []).
Proof.
  intros dss c ds c' d lv Hwf Hcv Hloop Hin Hg.
  pose proof (chain_inc_is_full dss c c (lequiv_refl c) Hcv) as H. rewrite Hloop in H.
  destruct H as [c0' [H0 [He [Hlcv _]]]].
  assert (Hex : exists lv0, In lv0 c0' /\ lequiv lv lv0 /\ lcv d lv).
  { clear H0 Hloop Hcv. revert ds Hlcv Hin. induction He as [|a b t t0 Hab _ IH]; intros ds Hlcv Hin.
    - destruct ds; simpl in Hin; contradiction.
    - inversion Hlcv as [|d' a' ds' t' Hd Hrest]; subst. simpl in Hin. destruct Hin as [E|Hin].
      + inversion E; subst. exists b. split; [left; reflexivity|]. split; assumption.
      + destruct (IH ds' Hrest Hin) as [lv0 [H1 [H2 H3]]]. exists lv0. split; [right; exact H1|]. split; assumption. }
  destruct Hex as [lv0 [Hin0 [Hlv Hd]]].
  destruct (level_round_d d [] lv lv0 Hlv Hd) as [Hrows _]. rewrite Hrows.
  destruct Hlv as [Hk [_ [Hs _]]]. rewrite Hk, Hs in *.
  exact (chain_level_exact _ _ _ _ H0 Hwf Hin0 Hg).
Qed.

(* and it ends within k+1 rounds *)
Theorem chain_inc_terminates : forall dss c,
  Forall wf_level c -> chain_cv dss c -> (S (length c) <= length dss)%nat ->
  chain_loop_d dss c <> None.
Proof.
  intros dss c Hwf Hcv Hlen.
  pose proof (chain_inc_is_full dss c c (lequiv_refl c) Hcv) as H.
  destruct (chain_terminates c Hwf) as [c' Hc'].
  destruct (chain_loop_d dss c) as [[ds cd]|]; [discriminate|].
  rewrite (Hc' (length dss) Hlen) in H. discriminate.
Qed.
