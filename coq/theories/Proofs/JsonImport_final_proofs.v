(* Key sorting (normalize), the statements about import_ttables, first_available_key and what the dumped
   form can be read back to (C33). *)
From Coq Require Import ZArith List Bool Arith Lia Permutation.
From Coq Require Ascii String DecimalString DecimalNat.
Import ListNotations.
Require Import Grist.Model.JsonImport Grist.Model.JsonImportSpec.
Require Import Grist.Proofs.JsonImport_proofs Grist.Proofs.JsonImport_tables_proofs.
Require Import Grist.Proofs.JsonImport_repr_proofs Grist.Proofs.JsonImport_count_proofs.

(* ------------------------------------------------------------------ sorted(value.items()) *)

Lemma insert_kv_perm kv l : Permutation (insert_kv kv l) (kv :: l).
Proof.
  induction l as [|h t IH]; cbn; [reflexivity|]. destruct (str_ltb (fst kv) (fst h)); [reflexivity|].
  rewrite IH. apply perm_swap.
Qed.

Lemma sort_kvs_perm l : Permutation (sort_kvs l) l.
Proof.
  unfold sort_kvs. induction l as [|h t IH]; cbn; [reflexivity|]. rewrite insert_kv_perm. apply perm_skip. exact IH.
Qed.

Definition nkv (kv : str * json) : str * json := match kv with (k, x) => (k, normalize x) end.

Lemma normalize_obj kvs : normalize (JObj kvs) = JObj (sort_kvs (map nkv kvs)).
Proof. reflexivity. Qed.

Lemma top_items_normalize d : top_items (normalize d) = map normalize (top_items d).
Proof. destruct d; reflexivity. Qed.

Lemma map_fst_nkv kvs : map fst (map nkv kvs) = map fst kvs.
Proof. rewrite map_map. apply map_ext. intros [k x]. reflexivity. Qed.

Lemma wf_normalize : forall v, wf_json v -> wf_json (normalize v).
Proof.
  induction v as [s|l IH|kvs IH] using json_ind2; intros Hwf.
  - exact I.
  - cbn [normalize]. apply wf_arr_all. intros e He. apply in_map_iff in He. destruct He as [e0 [<- He0]].
    rewrite Forall_forall in IH. apply IH; [exact He0|]. rewrite wf_arr_all in Hwf. auto.
  - rewrite normalize_obj. apply wf_obj_all. apply wf_obj_all in Hwf. destruct Hwf as [Hnd Hall]. split.
    + eapply Permutation_NoDup; [|rewrite <- (map_fst_nkv kvs) in Hnd; exact Hnd].
      apply Permutation_map. symmetry. apply sort_kvs_perm.
    + intros kv Hkv. apply (Permutation_in _ (sort_kvs_perm _)) in Hkv.
      apply in_map_iff in Hkv. destruct Hkv as [[k x] [<- Hin]]. cbn.
      rewrite Forall_forall in IH. apply (IH (k, x) Hin). apply (Hall (k, x) Hin).
Qed.

Definition norm_act (a : action) : action :=
  match a with
  | AScalar k s => AScalar k s
  | AObj k x => AObj k (normalize x)
  | AElem k e => AElem k (normalize e)
  end.

Lemma map_flat_map {A B C} (f : B -> C) (g : A -> list B) (l : list A) :
  map f (flat_map g l) = flat_map (fun x => map f (g x)) l.
Proof. induction l as [|x l IH]; cbn; [reflexivity|]. rewrite map_app, IH. reflexivity. Qed.

Lemma field_plan_normalize k x : field_plan k (normalize x) = map norm_act (field_plan k x).
Proof.
  destruct x as [s|l|o]; cbn [normalize field_plan map norm_act]; try reflexivity.
  rewrite !map_map. reflexivity.
Qed.

Lemma plan_normalize v : Permutation (plan (normalize v)) (map norm_act (plan v)).
Proof.
  unfold plan. destruct v as [s|l|kvs].
  - reflexivity.
  - cbn [normalize fields flat_map fst snd field_plan]. rewrite !app_nil_r, !map_map. reflexivity.
  - rewrite normalize_obj. cbn [fields].
    rewrite (Permutation_flat_map _ (sort_kvs_perm (map nkv kvs))).
    rewrite flat_map_map', map_flat_map.
    erewrite flat_map_ext; [reflexivity|]. intros [k x]. cbn [nkv fst snd]. apply field_plan_normalize.
Qed.

Lemma perm_flat_map_pointwise {A B} (f g : A -> list B) l :
  (forall a, In a l -> Permutation (f a) (g a)) -> Permutation (flat_map f l) (flat_map g l).
Proof.
  induction l as [|a l IH]; intros H; cbn; [reflexivity|]. apply Permutation_app.
  - apply H. left. reflexivity.
  - apply IH. intros b Hb. apply H. right. exact Hb.
Qed.

Lemma doc_scalars_normalize : forall v T, Permutation (doc_scalars (normalize v) T) (doc_scalars v T).
Proof.
  induction v as [v IH] using json_children_ind. intros T.
  rewrite !doc_scalars_plan, (Permutation_flat_map _ (plan_normalize v)), flat_map_map'.
  apply perm_flat_map_pointwise. intros a Ha. destruct a as [k s|k x|k e]; cbn [norm_act act_scalars].
  - reflexivity.
  - apply IH. eapply in_children_plan; [exact Ha|left; reflexivity].
  - apply IH. eapply in_children_plan; [exact Ha|left; reflexivity].
Qed.

Lemma doc_items_normalize : forall v T, Permutation (doc_items (normalize v) T) (doc_items v T).
Proof.
  induction v as [v IH] using json_children_ind. intros T.
  rewrite !doc_items_plan. apply perm_skip.
  rewrite (Permutation_flat_map _ (plan_normalize v)), flat_map_map'.
  apply perm_flat_map_pointwise. intros a Ha. destruct a as [k s|k x|k e]; cbn [norm_act act_items].
  - reflexivity.
  - apply IH. eapply in_children_plan; [exact Ha|left; reflexivity].
  - apply IH. eapply in_children_plan; [exact Ha|left; reflexivity].
Qed.

Lemma in_fields_normalize v k x : In (k, x) (fields v) -> In (k, normalize x) (fields (normalize v)).
Proof.
  destruct v as [s|l|kvs]; cbn [fields].
  - intros [H|[]]. inversion H; subst. left. reflexivity.
  - intros [H|[]]. inversion H; subst. left. reflexivity.
  - intros H. rewrite normalize_obj. cbn [fields]. apply (Permutation_in _ (Permutation_sym (sort_kvs_perm _))).
    apply (in_map nkv) in H. exact H.
Qed.

Section Final.
Variable inc : str -> bool.
Variable ts : list ttable.

(* the tables represent the document as given (keys in document order) when they represent the document
   with sorted keys *)
Lemma repr_normalize : forall v T row, repr inc ts (normalize v) T row -> repr inc ts v T row.
Proof.
  induction v as [v IH] using json_children_ind. intros T row H.
  inversion H as [v' T' row' Hrow Hs Ho Ha]; subst. apply Repr.
  - exact Hrow.
  - intros k s r Hin. apply Hs. apply (in_fields_normalize v k (JS s)). exact Hin.
  - intros k o Hin. apply in_fields_normalize in Hin as Hin'. rewrite normalize_obj in Hin'.
    destruct (Ho k _ Hin') as [rw [Hr Hc]]. exists rw. split; [|exact Hc].
    apply IH; [|rewrite normalize_obj; exact Hr].
    eapply in_children_plan; [apply in_plan_obj; exact Hin|left; reflexivity].
  - intros k l e Hin He. apply in_fields_normalize in Hin as Hin'. cbn [normalize] in Hin'.
    destruct (Ha k _ (normalize e) Hin' (in_map normalize l e He)) as [rw [Hr Hc]]. exists rw. split; [|exact Hc].
    apply IH; [|exact Hr]. eapply in_children_plan; [eapply in_plan_elem; eauto|left; reflexivity].
Qed.

(* whatever is represented, its parts are represented (all depths) *)
Lemma item_at_repr d name :
  (forall v, In v (top_items d) -> exists row, repr inc ts v name row) ->
  forall v T, item_at d name v T -> exists row, repr inc ts v T row.
Proof.
  intros Htop v T H. induction H as [v Hv|v T k o _ IH Hin|v T k l e _ IH Hin He].
  - apply Htop. exact Hv.
  - destruct IH as [row Hr]. inversion Hr as [? ? ? _ _ Ho _]; subst.
    destruct (Ho k o Hin) as [rw [Hr' _]]. eauto.
  - destruct IH as [row Hr]. inversion Hr as [? ? ? _ _ _ Ha]; subst.
    destruct (Ha k l e Hin He) as [rw [Hr' _]]. eauto.
Qed.

Lemma repr_row_some v T row : repr inc ts v T row -> inc T = true -> exists r, row = Some r /\ 1 <= r <= tnrows ts T.
Proof.
  intros H Hi. inversion H as [? ? ? Hrow _ _ _]; subst. destruct row as [r|]; cbn in Hrow.
  - exists r. tauto.
  - congruence.
Qed.

End Final.

(* ------------------------------------------------------------------ the import *)

Section Import.
Variables incs excs name : str.
Variable d : json.
Let inc := is_included (split_opt incs) (split_opt excs).
Let ts := import_ttables incs excs name d.

Lemma ts_eq : ts = ttables (run_items inc name (map normalize (top_items d)) []).
Proof. unfold ts, import_ttables, import_log. rewrite top_items_normalize. reflexivity. Qed.

Lemma wf_top_items : wf_json d -> forall v, In v (top_items d) -> wf_json v.
Proof.
  intros Hwf v Hv. destruct d as [s|l|kvs]; cbn [top_items] in Hv.
  - destruct Hv as [<-|[]]. exact Hwf.
  - rewrite wf_arr_all in Hwf. auto.
  - destruct Hv as [<-|[]]. exact Hwf.
Qed.

Lemma wf_norm_items : wf_json d -> forall v, In v (map normalize (top_items d)) -> wf_json v.
Proof.
  intros Hwf v Hv. apply in_map_iff in Hv. destruct Hv as [v0 [<- Hv0]]. apply wf_normalize.
  apply wf_top_items; assumption.
Qed.

Lemma import_rectangular t c : In t ts -> In c (t_columns t) -> length (col_cells c) = t_nrows t.
Proof.
  intros Ht Hc. unfold ts, import_ttables in Ht. apply in_ttables in Ht. destruct Ht as [T ->].
  apply dump_rtable_rectangular. exact Hc.
Qed.

Lemma import_top_items :
  wf_json d ->
  (inc name = true -> tnrows ts name = length (top_items d)) /\
  (inc name = false -> tnrows ts name = 0) /\
  forall i v, nth_error (top_items d) i = Some v ->
    repr inc ts v name (if inc name then Some (S i) else None).
Proof.
  intros Hwf. rewrite ts_eq.
  destruct (run_items_repr inc name (map normalize (top_items d)) [] (wf_norm_items Hwf) (bounded_nil))
    as [Hcnt Hrep].
  split; [|split].
  - intros Hi. rewrite tnrows_log, Hcnt, Hi, map_length. reflexivity.
  - intros Hi. rewrite tnrows_log, Hcnt, Hi. reflexivity.
  - intros i v Hnth. apply repr_normalize. apply (Hrep i (normalize v)).
    rewrite nth_error_map, Hnth. reflexivity.
Qed.

Lemma import_item_at : wf_json d -> forall v T, item_at d name v T -> exists row, repr inc ts v T row.
Proof.
  intros Hwf. apply item_at_repr. intros v Hv. apply In_nth_error in Hv. destruct Hv as [i Hi].
  destruct (import_top_items Hwf) as [_ [_ H]]. eauto.
Qed.

Lemma import_scalars_once T k s :
  wf_json d -> s <> SNull ->
  tcount ts T k (CS s) = count_if (fun t => kept inc t && triple_eqb t (T, k, s)) (doc_scalars_top name d).
Proof.
  intros Hwf Hs. rewrite ts_eq, (scalars_once_log inc name _ T k s (wf_norm_items Hwf) Hs).
  unfold doc_scalars_top. rewrite flat_map_map'. apply count_if_perm.
  apply perm_flat_map_pointwise. intros v _. apply doc_scalars_normalize.
Qed.

Lemma import_rows_exactly T :
  tnrows ts T = count_if (fun T' => inc T' && str_eqb T' T) (doc_items_top name d).
Proof.
  rewrite ts_eq, (rows_exactly_log inc name _ T). unfold doc_items_top. rewrite flat_map_map'.
  apply count_if_perm. apply perm_flat_map_pointwise. intros v _. apply doc_items_normalize.
Qed.

End Import.

(* ------------------------------------------------------------------ first_available_key *)

Lemma mem_str_in s l : mem_str s l = true <-> In s l.
Proof.
  induction l as [|x l IH]; cbn; [split; [discriminate|intros []]|].
  rewrite orb_true_iff, IH, str_eqb_eq. tauto.
Qed.

Lemma dec_inj a b : dec a = dec b -> a = b.
Proof.
  unfold dec. intros H.
  assert (Hf : forall x y : Ascii.ascii, Z.of_nat (Ascii.nat_of_ascii x) = Z.of_nat (Ascii.nat_of_ascii y) -> x = y).
  { intros x y E. apply Nat2Z.inj in E. rewrite <- (Ascii.ascii_nat_embedding x), <- (Ascii.ascii_nat_embedding y), E. reflexivity. }
  assert (Hm : forall l1 l2 : list Ascii.ascii,
             map (fun a => Z.of_nat (Ascii.nat_of_ascii a)) l1 = map (fun a => Z.of_nat (Ascii.nat_of_ascii a)) l2 -> l1 = l2).
  { induction l1 as [|x l1 IH]; intros [|y l2] E; cbn in E; try discriminate; [reflexivity|].
    inversion E. f_equal; auto. }
  apply Hm in H.
  assert (Hs : DecimalString.NilEmpty.string_of_uint (Nat.to_uint a) = DecimalString.NilEmpty.string_of_uint (Nat.to_uint b)).
  { rewrite <- (String.string_of_list_ascii_of_string (DecimalString.NilEmpty.string_of_uint (Nat.to_uint a))), H.
    apply String.string_of_list_ascii_of_string. }
  assert (Hu : Some (Nat.to_uint a) = Some (Nat.to_uint b)).
  { rewrite <- !DecimalString.NilEmpty.usu, Hs. reflexivity. }
  inversion Hu as [Hu']. rewrite <- (DecimalNat.Unsigned.of_to a), <- (DecimalNat.Unsigned.of_to b), Hu'. reflexivity.
Qed.

Lemma fak_from_spec keys name fuel : forall i,
  mem_str (fak_from keys name i fuel) keys = true ->
  forall j, i <= j <= i + fuel -> In (name ++ dec j) keys.
Proof.
  induction fuel as [|f IH]; intros i H j Hj; cbn [fak_from] in H.
  - assert (j = i) by lia. subst. apply mem_str_in. exact H.
  - destruct (mem_str (name ++ dec i) keys) eqn:E.
    + destruct (Nat.eq_dec j i) as [->|Hne]; [apply mem_str_in; exact E|].
      apply (IH (S i) H). lia.
    + congruence.
Qed.

Lemma fak_fresh keys name : mem_str (first_available_key keys name) keys = false.
Proof.
  unfold first_available_key. destruct (mem_str name keys) eqn:E; [|exact E].
  destruct (mem_str (fak_from keys name 2 (length keys)) keys) eqn:F; [|reflexivity]. exfalso.
  assert (Hall := fak_from_spec keys name (length keys) 2 F).
  set (cands := map (fun j => name ++ dec j) (seq 2 (S (length keys)))).
  assert (Hnd : NoDup cands).
  { unfold cands. apply FinFun.Injective_map_NoDup; [|apply seq_NoDup].
    intros a b Hab. apply app_inv_head in Hab. apply dec_inj. exact Hab. }
  assert (Hincl : incl cands keys).
  { intros x Hx. unfold cands in Hx. apply in_map_iff in Hx. destruct Hx as [j [<- Hj]]. apply in_seq in Hj.
    apply Hall. lia. }
  apply NoDup_incl_length in Hincl; [|exact Hnd]. unfold cands in Hincl. rewrite map_length, seq_length in Hincl.
  exact (Nat.nle_succ_diag_l _ Hincl).
Qed.

Lemma fak_from_shape keys name fuel : forall i,
  exists j, i <= j /\ fak_from keys name i fuel = name ++ dec j.
Proof.
  induction fuel as [|f IH]; intros i; cbn [fak_from].
  - exists i. split; [lia|reflexivity].
  - destruct (mem_str (name ++ dec i) keys).
    + destruct (IH (S i)) as [j [Hj E]]. exists j. split; [lia|exact E].
    + exists i. split; [lia|reflexivity].
Qed.

Lemma fak_shape keys name :
  first_available_key keys name = name \/ exists i, 2 <= i /\ first_available_key keys name = name ++ dec i.
Proof.
  unfold first_available_key. destruct (mem_str name keys); [right|left; reflexivity].
  apply fak_from_shape.
Qed.

(* the parent column of a dumped table gets an id that no data column has *)
Lemma parent_col_fresh rt c :
  t_parent (dump_rtable rt) = Some c -> mem_str (col_id c) (map col_id (t_data (dump_rtable rt))) = false.
Proof.
  cbn [dump_rtable t_parent t_data]. destruct (first_parent (map snd (snd rt))) as [[pt pr]|]; [|discriminate].
  intros H. inversion H; subst c. cbn [col_id]. apply fak_fresh.
Qed.

(* ------------------------------------------------------------------ reading the dumped form back *)

Lemma dumped_nrows_some t :
  t_columns t <> [] -> (forall c, In c (t_columns t) -> length (col_cells c) = t_nrows t) ->
  dumped_nrows (dump_ttable t) = Some (t_nrows t).
Proof.
  intros Hne Hrect. unfold dumped_nrows, dump_ttable. cbn [snd].
  destruct (t_columns t) as [|c cs] eqn:E; [contradiction|]. cbn [map dump_col snd].
  rewrite map_length. f_equal. apply Hrect. left. reflexivity.
Qed.

Lemma prefixb_app p s : prefixb p (p ++ s) = true.
Proof. induction p as [|x p IH]; cbn; [reflexivity|]. rewrite Z.eqb_refl, IH. reflexivity. Qed.

Lemma undump_dump ty c : cell_described ty c = true -> undump ty (dump_value c) = c.
Proof.
  destruct c as [s|[t r]]; cbn [cell_described dump_value].
  - destruct s as [|b|n|f|s]; cbn [undump]; try reflexivity.
    intros H. apply negb_true_iff in H. rewrite H. reflexivity.
  - intros H. apply str_eqb_eq in H. subst ty. cbn [undump]. rewrite prefixb_app.
    rewrite skipn_app, skipn_all, Nat.sub_diag, Nat2Z.id. reflexivity.
Qed.

Lemma column_readable c :
  (forall x, In x (col_cells c) -> cell_described (col_type c) x = true) ->
  map (undump (snd (fst (dump_col c)))) (snd (dump_col c)) = col_cells c.
Proof.
  intros H. unfold dump_col. cbn [fst snd]. rewrite map_map. rewrite <- (map_id (col_cells c)) at 2.
  apply map_ext_in. intros x Hx. apply undump_dump. apply H. exact Hx.
Qed.

(* ------------------------------------------------------------------ the parent column; column ids *)

Lemma import_parent_column incs excs name d t c :
  In t (import_ttables incs excs name d) -> t_parent t = Some c ->
  mem_str (col_id c) (map col_id (t_data t)) = false /\
  (exists pt, col_type c = s_RefColon ++ pt /\ (col_id c = pt \/ exists i, 2 <= i /\ col_id c = pt ++ dec i)) /\
  forall x, In x (col_cells c) -> x = cnone \/ exists r, x = CR r.
Proof.
  intros Ht Hp. unfold import_ttables in Ht. apply in_ttables in Ht. destruct Ht as [T ->].
  split; [apply parent_col_fresh; exact Hp|].
  cbn [dump_rtable t_parent t_data] in Hp.
  destruct (first_parent (map snd (snd (T, rows_of_table _ T)))) as [[pt pr]|]; [|discriminate].
  inversion Hp; subst c. cbn [col_type col_id col_cells]. split.
  - exists pt. split; [reflexivity|]. apply fak_shape.
  - intros x Hx. apply in_map_iff in Hx. destruct Hx as [p [<- _]]. destruct p as [r|]; cbn; eauto.
Qed.

Lemma dict_set_keys k c d :
  map fst (dict_set k c d) = if mem_str k (map fst d) then map fst d else map fst d ++ [k].
Proof.
  induction d as [|[k' c'] t IH]; cbn [dict_set map fst mem_str]; [reflexivity|].
  destruct (str_eqb k' k) eqn:E; cbn [map fst orb]; [reflexivity|]. rewrite IH.
  destruct (mem_str k (map fst t)); reflexivity.
Qed.

Lemma dict_set_nodup k c d : NoDup (map fst d) -> NoDup (map fst (dict_set k c d)).
Proof.
  intros H. rewrite dict_set_keys. destruct (mem_str k (map fst d)) eqn:E; [exact H|].
  apply (Permutation_NoDup (Permutation_cons_append _ _)). constructor; [|exact H].
  intros Hin. apply mem_str_in in Hin. congruence.
Qed.

Lemma dict_update_nodup row : forall d, NoDup (map fst d) -> NoDup (map fst (dict_update d row)).
Proof.
  unfold dict_update. induction row as [|[k c] row IH]; intros d H; cbn [fold_left]; [exact H|].
  apply IH. apply dict_set_nodup. exact H.
Qed.

Lemma transpose_ids_nodup rows : NoDup (map col_id (transpose rows)).
Proof.
  unfold transpose. rewrite map_map. cbn [col_id].
  change (fun x : str * cell => fst x) with (@fst str cell).
  generalize (rev rows). intros l.
  assert (H : forall d, NoDup (map fst d) -> NoDup (map fst (fold_left dict_update l d))).
  { induction l as [|r l IH]; intros d Hd; cbn [fold_left]; [exact Hd|]. apply IH. apply dict_update_nodup. exact Hd. }
  apply H. constructor.
Qed.

Lemma import_column_ids_distinct incs excs name d t :
  In t (import_ttables incs excs name d) -> NoDup (map col_id (t_columns t)).
Proof.
  intros Ht. assert (Ht' := Ht). unfold import_ttables in Ht. apply in_ttables in Ht. destruct Ht as [T Heq].
  unfold t_columns. rewrite map_app.
  assert (Hd : NoDup (map col_id (t_data t))) by (subst t; apply transpose_ids_nodup).
  destruct (t_parent t) as [c|] eqn:Ep; cbn [map]; [|rewrite app_nil_r; exact Hd].
  apply (Permutation_NoDup (Permutation_cons_append _ _)). constructor; [|exact Hd].
  intros Hin. apply mem_str_in in Hin.
  destruct (import_parent_column incs excs name d t c Ht' Ep) as [Hf _]. congruence.
Qed.
