(* K6 proofs, part 17: doBulkRemoveRecord with back-reference clearing leaves no reference to a removed
   record, for every Ref/RefList column of the modelled metadata tables. *)
From Coq Require Import ZArith List Bool Lia.
Import ListNotations.
Require Import Grist.Model.MetaCascade Grist.Proofs.MetaCascade_base.
Open Scope Z_scope.

(* all cells of the metadata that hold a reference to a record of the given table *)
Definition refs_to_columns (m : meta) : list Z :=
  concat (map (fun c => [c_display c; c_visible c; c_src c] ++ c_rules c) (m_columns m)) ++
  concat (map (fun f => [f_col f; f_display f; f_visible f] ++ f_rules f) (m_fields m)) ++
  concat (map s_rules (m_sections m)).

Definition refs_to_tables (m : meta) : list Z :=
  map c_parent (m_columns m) ++ map c_reft (m_columns m) ++ map s_table (m_sections m) ++ map t_src (m_tables m).

Definition refs_to_sections (m : meta) : list Z :=
  map t_raw (m_tables m) ++ map t_card (m_tables m) ++ map f_section (m_fields m).

Definition refs_to_views (m : meta) : list Z :=
  map t_pview (m_tables m) ++ map s_view (m_sections m) ++ map snd (m_tabbar m) ++ map snd (m_pages m).

Lemma clr_not_in : forall ids v, In (clr ids v) ids -> clr ids v = 0.
Proof. intros ids v H. destruct (clr_cases ids v) as [[_ E]|[Hn E]]; [exact E | rewrite E in H; contradiction]. Qed.

Lemma clrl_not_in : forall ids l x, In x (clrl ids l) -> In x ids -> x = 0.
Proof. intros ids l x H Hin. apply clrl_In in H. destruct H as [_ Hn]. contradiction. Qed.

Theorem rm_columns_no_refs : forall ids m x, In x (refs_to_columns (rm_columns ids m)) -> In x ids -> x = 0.
Proof.
  intros ids m x H Hin. unfold refs_to_columns in H. simpl in H.
  apply in_app_iff in H. destruct H as [H|H]; [|apply in_app_iff in H; destruct H as [H|H]].
  - apply in_concat in H. destruct H as [l [Hl Hx]]. apply in_map_iff in Hl. destruct Hl as [c' [E Hc']]. subst l.
    apply in_map_iff in Hc'. destruct Hc' as [c [E Hc]]. subst c'. simpl in Hx.
    destruct Hx as [Hx|[Hx|[Hx|Hx]]].
    + destruct (mem (c_src c) (display_cleared ids m)); [congruence|]. subst x. apply clr_not_in. exact Hin.
    + destruct (mem (c_src c) (visible_cleared ids m)); [congruence|]. subst x. apply clr_not_in. exact Hin.
    + subst x. apply clr_not_in. exact Hin.
    + apply (clrl_not_in ids (c_rules c) x Hx Hin).
  - apply in_concat in H. destruct H as [l [Hl Hx]]. apply in_map_iff in Hl. destruct Hl as [f' [E Hf']]. subst l.
    apply in_map_iff in Hf'. destruct Hf' as [f [E Hf]]. subst f'. simpl in Hx.
    destruct Hx as [Hx|[Hx|[Hx|Hx]]]; try (subst x; apply clr_not_in; exact Hin).
    apply (clrl_not_in ids (f_rules f) x Hx Hin).
  - apply in_concat in H. destruct H as [l [Hl Hx]]. apply in_map_iff in Hl. destruct Hl as [s' [E Hs']]. subst l.
    apply in_map_iff in Hs'. destruct Hs' as [s [E Hs]]. subst s'. simpl in Hx.
    apply (clrl_not_in ids (s_rules s) x Hx Hin).
Qed.

Ltac clr_map H Hin :=
  let y := fresh "y" in let E := fresh "E" in let Hy := fresh "Hy" in
  apply in_map_iff in H; destruct H as [y [E Hy]];
  try (apply in_map_iff in Hy; destruct Hy as [? [? ?]]; subst y);
  simpl in E; subst; apply clr_not_in; exact Hin.

Theorem rm_tables_no_refs : forall ids m x, In x (refs_to_tables (rm_tables ids m)) -> In x ids -> x = 0.
Proof.
  intros ids m x H Hin. unfold refs_to_tables in H. simpl in H.
  repeat (apply in_app_iff in H; destruct H as [H|H]); clr_map H Hin.
Qed.

Theorem rm_sections_no_refs : forall ids m x, In x (refs_to_sections (rm_sections ids m)) -> In x ids -> x = 0.
Proof.
  intros ids m x H Hin. unfold refs_to_sections in H. simpl in H.
  repeat (apply in_app_iff in H; destruct H as [H|H]); clr_map H Hin.
Qed.

Theorem rm_views_no_refs : forall ids m x, In x (refs_to_views (rm_views ids m)) -> In x ids -> x = 0.
Proof.
  intros ids m x H Hin. unfold refs_to_views in H. simpl in H.
  repeat (apply in_app_iff in H; destruct H as [H|H]); clr_map H Hin.
Qed.

(* and the removed records themselves are gone *)
Theorem rm_columns_gone : forall ids m x, In x ids -> ~ In x (cids (rm_columns ids m)).
Proof.
  intros ids m x Hin H. unfold cids in H. simpl in H. rewrite map_map in H. simpl in H.
  apply in_map_iff in H. destruct H as [c [E Hc]]. apply filter_In in Hc. destruct Hc as [_ Hn].
  apply negb_mem_true in Hn. subst x. contradiction.
Qed.

Theorem rm_tables_gone : forall ids m x, In x ids -> ~ In x (tids (rm_tables ids m)).
Proof.
  intros ids m x Hin H. unfold tids in H. simpl in H. rewrite map_map in H. simpl in H.
  apply in_map_iff in H. destruct H as [c [E Hc]]. apply filter_In in Hc. destruct Hc as [_ Hn].
  apply negb_mem_true in Hn. subst x. contradiction.
Qed.

Theorem rm_sections_gone : forall ids m x, In x ids -> ~ In x (sids (rm_sections ids m)).
Proof.
  intros ids m x Hin H. unfold sids in H. simpl in H.
  apply in_map_iff in H. destruct H as [c [E Hc]]. apply filter_In in Hc. destruct Hc as [_ Hn].
  apply negb_mem_true in Hn. subst x. contradiction.
Qed.

Theorem rm_views_gone : forall ids m x, In x ids -> ~ In x (m_views (rm_views ids m)).
Proof.
  intros ids m x Hin H. simpl in H. apply filter_In in H. destruct H as [_ Hn].
  apply negb_mem_true in Hn. contradiction.
Qed.
