(* The two reference statements of C33 at every depth of the document, from import_item_at. *)
From Coq Require Import ZArith List Bool Arith Lia.
Import ListNotations.
Require Import Grist.Model.JsonImport Grist.Model.JsonImportSpec.
Require Import Grist.Proofs.JsonImport_proofs Grist.Proofs.JsonImport_final_proofs.

Section Named.
Variables incs excs name : str.
Variable d : json.
Let inc := is_included (split_opt incs) (split_opt excs).
Let ts := import_ttables incs excs name d.

Lemma import_nested_object v T k o :
  wf_json d -> item_at d name v T -> In (k, JObj o) (fields v) -> inc T = true -> inc (sub T k) = true ->
  exists r r', repr inc ts v T (Some r) /\ repr inc ts (JObj o) (sub T k) (Some r') /\
               tcell ts T k r = Some (CR (sub T k, r')).
Proof.
  intros Hwf Hit Hin HiT HiK.
  destruct (import_item_at incs excs name d Hwf v T Hit) as [row Hr]. fold inc ts in Hr.
  destruct (repr_row_some inc ts v T row Hr HiT) as [r [-> _]].
  inversion Hr as [? ? ? _ _ Ho _]; subst. destruct (Ho k o Hin) as [row' [Hr' Hc]].
  destruct (repr_row_some inc ts _ _ row' Hr' HiK) as [r' [-> _]].
  exists r, r'. split; [exact Hr|]. split; [exact Hr'|]. apply Hc; reflexivity.
Qed.

Lemma import_array_element v T k l e :
  wf_json d -> item_at d name v T -> In (k, JArr l) (fields v) -> In e l -> inc T = true -> inc (sub T k) = true ->
  exists r r', repr inc ts v T (Some r) /\ repr inc ts e (sub T k) (Some r') /\
               tparent ts (sub T k) r' = Some (CR (T, r)).
Proof.
  intros Hwf Hit Hin He HiT HiK.
  destruct (import_item_at incs excs name d Hwf v T Hit) as [row Hr]. fold inc ts in Hr.
  destruct (repr_row_some inc ts v T row Hr HiT) as [r [-> _]].
  inversion Hr as [? ? ? _ _ _ Ha]; subst. destruct (Ha k l e Hin He) as [row' [Hr' Hc]].
  destruct (repr_row_some inc ts _ _ row' Hr' HiK) as [r' [-> _]].
  exists r, r'. split; [exact Hr|]. split; [exact Hr'|]. apply Hc; reflexivity.
Qed.

(* a scalar of an item is the cell of its row *)
Lemma import_scalar_at v T k s :
  wf_json d -> item_at d name v T -> In (k, JS s) (fields v) -> inc T = true -> inc (sub T k) = true ->
  exists r, repr inc ts v T (Some r) /\ tcell ts T k r = Some (CS s).
Proof.
  intros Hwf Hit Hin HiT HiK.
  destruct (import_item_at incs excs name d Hwf v T Hit) as [row Hr]. fold inc ts in Hr.
  destruct (repr_row_some inc ts v T row Hr HiT) as [r [-> _]].
  inversion Hr as [? ? ? _ Hs _ _]; subst. exists r. split; [exact Hr|]. apply (Hs k s r Hin eq_refl HiK).
Qed.

End Named.
