(* Lemmas about Model/PredicateRename.v (C17). *)
From Coq Require Import ZArith List Bool Lia String.
Import ListNotations.
Require Import Grist.Model.Predicate Grist.Model.PredicateRename Grist.Proofs.Predicate_proofs.
Open Scope Z_scope.
Open Scope list_scope.
Notation length := List.length.

Lemma str_eqb_eq a b : str_eqb a b = true <-> a = b.
Proof.
  revert b; induction a as [|x a IH]; intros [|y b]; cbn; split; try congruence; try discriminate.
  - intros H. apply andb_true_iff in H. destruct H as [H1 H2]. apply Z.eqb_eq in H1. apply IH in H2. congruence.
  - intros H. inversion H; subst. rewrite Z.eqb_refl. apply IH. reflexivity.
Qed.

Lemma str_eqb_refl a : str_eqb a a = true.
Proof. apply str_eqb_eq; reflexivity. Qed.

(* ------------------------------------------------------------------------------------------- *)
(* The collector returns the converter's tree, and fails exactly when the converter fails. *)

Lemma mapMc_map_fst {A B C} (f : A -> cres (B * C)) (g : A -> cres B) l :
  Forall (fun x => map_cres fst (f x) = g x) l -> map_cres (map fst) (mapMc f l) = mapMc g l.
Proof.
  induction 1 as [|x t Hx _ IH]; [reflexivity|]. rewrite !mapMc_cons, <- Hx, <- IH.
  destruct (f x) as [[b c]|]; cbn; [|reflexivity]. destruct (mapMc f t); reflexivity.
Qed.

Definition visit_kw (k : collector) (kw : option str * expr) : cres ((option str * tree) * list entity) :=
  match kw with (n, v) => bindc (visit k v) (fun rv => Ok ((n, fst rv), snd rv)) end.

Lemma visit_call k p f args kws :
  visit k (ECall p f args kws) =
  if negb (forallb kw_named kws) then Err (ErrUnsupported p) else
  bindc (mapMc (visit k) args) (fun ras =>
  bindc (mapMc (visit_kw k) kws) (fun rks =>
  bindc (visit k f) (fun rf =>
    Ok (TCall (fst rf) (map fst ras) (map fst rks),
        List.concat (map snd ras) ++ List.concat (map snd rks) ++ snd rf)))).
Proof. reflexivity. Qed.

Lemma visit_convert k : forall e, map_cres fst (visit k e) = convert e.
Proof.
  induction e using expr_ind2.
  - cbn [visit convert]. rewrite <- (mapMc_map_fst (visit k) (convert) vs H).
    destruct (mapMc (visit k) vs); reflexivity.
  - destruct op; [|reflexivity]. cbn [visit convert]. rewrite <- IHe1, <- IHe2.
    destruct (visit k e1) as [[? ?]|]; cbn; [|reflexivity]. destruct (visit k e2) as [[? ?]|]; reflexivity.
  - destruct op; [|reflexivity]. cbn [visit convert]. rewrite <- IHe. destruct (visit k e) as [[? ?]|]; reflexivity.
  - cbn [visit convert]. destruct ops as [|op [|? ?]]; try reflexivity. destruct cs as [|c0 [|? ?]]; try reflexivity.
    inversion H as [|? ? Hc _]; subst. rewrite <- IHe, <- Hc.
    destruct (visit k e) as [[? ?]|]; cbn; [|reflexivity]. destruct (visit k c0) as [[? ?]|]; reflexivity.
  - cbn. destruct (named_constant id); reflexivity.
  - cbn. destruct (negb (const_plain c)); reflexivity.
  - cbn [visit convert]. rewrite <- IHe. destruct (visit k e) as [[? ?]|]; reflexivity.
  - cbn [visit convert]. rewrite <- (mapMc_map_fst (visit k) (convert) es H).
    destruct (mapMc (visit k) es); reflexivity.
  - cbn [visit convert]. rewrite <- (mapMc_map_fst (visit k) (convert) es H).
    destruct (mapMc (visit k) es); reflexivity.
  - rewrite visit_call, convert_call. destruct (negb (forallb kw_named kws)); [reflexivity|].
    rewrite <- (mapMc_map_fst (visit k) (convert) args H), <- IHe.
    assert (Hk : map_cres (map fst) (mapMc (visit_kw k) kws) = mapMc (conv_kw) kws).
    { apply mapMc_map_fst. clear - H0. induction H0 as [|[n v] t Hv _ IH]; constructor; [|exact IH].
      cbn in *. rewrite <- Hv. destruct (visit k v) as [[? ?]|]; reflexivity. }
    rewrite <- Hk.
    destruct (mapMc (visit k) args); cbn; [|reflexivity].
    destruct (mapMc (visit_kw k) kws); cbn; [|reflexivity].
    destruct (visit k e) as [[? ?]|]; reflexivity.
  - reflexivity.
Qed.

Lemma visit_ok_convert k e t ents : visit k e = Ok (t, ents) -> convert e = Ok t.
Proof. intros H. rewrite <- (visit_convert k e), H. reflexivity. Qed.

Lemma visit_is_ok k e : is_ok (visit k e) = is_ok (convert e).
Proof. rewrite <- (visit_convert k e). destruct (visit k e); reflexivity. Qed.

(* ------------------------------------------------------------------------------------------- *)
(* The collectors look at the converted parent; that is the same as looking at the shape of the AST. *)

Ltac conv_inv H :=
  repeat match type of H with
         | bindc ?x _ = _ => destruct x; cbn [bindc] in H
         | (if ?b then _ else _) = _ => destruct b
         | match ?x with _ => _ end = _ => destruct x
         end; try discriminate.

Lemma convert_name_inv v id :
  convert v = Ok (TName id) -> exists p, v = EName p id /\ named_constant id = None.
Proof.
  intros H. destruct v; cbn [convert] in H; try (conv_inv H; fail).
  destruct (named_constant id0) eqn:E; inversion H; subst. eauto.
Qed.

Lemma convert_attr_inv v u a :
  convert v = Ok (TAttr u a) -> exists p v' ap, v = EAttribute p v' a ap /\ convert v' = Ok u.
Proof.
  intros H. destruct v; cbn [convert] in H; try (conv_inv H; fail).
  destruct (convert v) eqn:E; cbn in H; inversion H; subst. eauto.
Qed.

Lemma is_name_agree n v tv :
  named_constant (lit n) = None -> convert v = Ok tv -> is_name tv n = is_ename v n.
Proof.
  intros Hn H. destruct v; try (cbn [is_ename]; destruct tv; try reflexivity;
    destruct (convert_name_inv _ _ H) as [p' [Hv _]]; discriminate).
  cbn [convert] in H. cbn [is_ename]. destruct (named_constant id) eqn:E; inversion H; subst; cbn [is_name]; [|reflexivity].
  destruct (str_eqb id (lit n)) eqn:Es; [|reflexivity]. apply str_eqb_eq in Es. subst. congruence.
Qed.

Lemma classify_agree k v tv a ap :
  convert v = Ok tv -> classify k tv a ap = classify_ast k v a ap.
Proof.
  intros H. unfold classify, classify_ast.
  rewrite !(fun n Hn => is_name_agree n v tv Hn H) by reflexivity.
  destruct k; try reflexivity.
  destruct (is_ename v "rec" || is_ename v "newRec"); [reflexivity|]. destruct (is_ename v "user"); [reflexivity|].
  destruct tv; try (destruct v; try reflexivity; cbn [convert] in H; conv_inv H; fail).
  destruct (convert_attr_inv _ _ _ H) as [p [v' [ap' [-> Hv']]]].
  rewrite (is_name_agree "user" v' tv (eq_refl) Hv'). reflexivity.
Qed.

Lemma new_attr_pos r k tv a p1 p2 : new_attr r (classify k tv a p1) a = new_attr r (classify k tv a p2) a.
Proof.
  unfold classify. destruct k.
  - destruct (is_name tv "rec" || is_name tv "newRec"); [reflexivity|]. destruct (is_name tv "user"); [reflexivity|].
    destruct tv; try reflexivity. destruct (is_name tv "user"); reflexivity.
  - destruct (is_name tv "choice"); [reflexivity|]. destruct (is_name tv "rec"); reflexivity.
  - destruct (is_name tv "rec" || is_name tv "oldRec"); reflexivity.
Qed.

(* ------------------------------------------------------------------------------------------- *)
(* The entities appended by the real traversal are [collect]. *)

Lemma concat_map_snd_collect {A T} (f : A -> cres (T * list entity)) (g : A -> list entity) l rs :
  Forall (fun x => forall r, f x = Ok r -> snd r = g x) l -> mapMc f l = Ok rs ->
  List.concat (map snd rs) = flat_map g l.
Proof.
  intros HF. revert rs. induction HF as [|x t Hx _ IH]; intros rs H.
  - inversion H; reflexivity.
  - rewrite mapMc_cons in H. destruct (f x) as [r|] eqn:E; cbn in H; [|discriminate].
    destruct (mapMc f t) as [rs'|]; cbn in H; [|discriminate]. inversion H; subst.
    cbn. rewrite (Hx r eq_refl), (IH rs' eq_refl). reflexivity.
Qed.

Lemma visit_collect k : forall e r, visit k e = Ok r -> snd r = collect k e.
Proof.
  induction e using expr_ind2; intros r Hr.
  - cbn [visit collect] in *. destruct (mapMc (visit k) vs) as [rs|] eqn:E; cbn in Hr; [|discriminate].
    inversion Hr; subst. cbn. exact (concat_map_snd_collect _ _ vs rs H E).
  - destruct op; [|discriminate]. cbn [visit collect] in *.
    destruct (visit k e1) as [r1|] eqn:E1; cbn in Hr; [|discriminate].
    destruct (visit k e2) as [r2|] eqn:E2; cbn in Hr; [|discriminate].
    inversion Hr; subst. cbn. rewrite (IHe1 r1 eq_refl), (IHe2 r2 eq_refl). reflexivity.
  - destruct op; [|discriminate]. cbn [visit collect] in *.
    destruct (visit k e) as [r1|] eqn:E1; cbn in Hr; [|discriminate]. inversion Hr; subst. cbn. apply IHe; reflexivity.
  - cbn [visit collect] in *. destruct ops as [|op [|? ?]]; try discriminate. destruct cs as [|c0 [|? ?]]; try discriminate.
    inversion H as [|? ? Hc _]; subst.
    destruct (visit k e) as [r1|] eqn:E1; cbn in Hr; [|discriminate].
    destruct (visit k c0) as [r2|] eqn:E2; cbn in Hr; [|discriminate].
    inversion Hr; subst. cbn. rewrite (IHe r1 eq_refl), (Hc r2 eq_refl), app_nil_r. reflexivity.
  - cbn in Hr. destruct (named_constant id); inversion Hr; reflexivity.
  - cbn in Hr. destruct (negb (const_plain c)); inversion Hr; reflexivity.
  - cbn [visit collect] in *. destruct (visit k e) as [[tv ev]|] eqn:E1; cbn in Hr; [|discriminate].
    inversion Hr; subst. cbn [snd fst]. pose proof (IHe (tv, ev) eq_refl) as Hc. cbn [snd] in Hc. rewrite Hc. f_equal.
    apply classify_agree. exact (visit_ok_convert k e tv ev E1).
  - cbn [visit collect] in *. destruct (mapMc (visit k) es) as [rs|] eqn:E; cbn in Hr; [|discriminate].
    inversion Hr; subst. cbn. exact (concat_map_snd_collect _ _ es rs H E).
  - cbn [visit collect] in *. destruct (mapMc (visit k) es) as [rs|] eqn:E; cbn in Hr; [|discriminate].
    inversion Hr; subst. cbn. exact (concat_map_snd_collect _ _ es rs H E).
  - rewrite visit_call in Hr. cbn [collect]. destruct (negb (forallb kw_named kws)); [discriminate|].
    destruct (mapMc (visit k) args) as [ras|] eqn:Ea; cbn in Hr; [|discriminate].
    destruct (mapMc (visit_kw k) kws) as [rks|] eqn:Ek; cbn in Hr; [|discriminate].
    destruct (visit k e) as [rf|] eqn:Ef; cbn in Hr; [|discriminate].
    inversion Hr; subst. cbn [snd].
    rewrite (concat_map_snd_collect _ _ args ras H Ea), (IHe rf eq_refl).
    rewrite (concat_map_snd_collect (visit_kw k) (fun kw => collect k (snd kw)) kws rks); [reflexivity| |exact Ek].
    clear - H0. induction H0 as [|[n v] t Hv _ IH]; constructor; [|exact IH].
    intros r Hr. cbn in *. destruct (visit k v) as [rv|] eqn:E; cbn in Hr; [|discriminate].
    inversion Hr; subst. cbn. apply Hv. reflexivity.
  - discriminate.
Qed.

(* ------------------------------------------------------------------------------------------- *)
(* collect = exactly the classified Attribute sub-expressions. *)


Lemma collect_child k x e : child x e -> incl (collect k x) (collect k e).
Proof.
  intros Hc ent Hin. destruct Hc; cbn [collect].
  - apply in_flat_map. eauto.
  - apply in_or_app; auto.
  - apply in_or_app; auto.
  - assumption.
  - apply in_or_app; auto.
  - apply in_or_app; right. apply in_flat_map. eauto.
  - apply in_or_app; auto.
  - apply in_flat_map. eauto.
  - apply in_flat_map. eauto.
  - apply in_or_app; right. apply in_or_app; auto.
  - apply in_or_app; left. apply in_flat_map. eauto.
  - apply in_or_app; right. apply in_or_app; left. apply in_flat_map. exists (k0, x). auto.
Qed.

Lemma collect_subexpr k x e : subexpr x e -> incl (collect k x) (collect k e).
Proof.
  induction 1 as [|y e _ IH Hc]; [apply incl_refl|].
  eapply incl_tran; [exact IH | apply collect_child; exact Hc].
Qed.

Definition attr_source k ent e : Prop :=
  exists p v a ap, subexpr (EAttribute p v a ap) e /\ In ent (classify_ast k v a ap).

Lemma attr_source_up k ent x e : child x e -> attr_source k ent x -> attr_source k ent e.
Proof.
  intros Hc [p [v [a [ap [Hs Hin]]]]]. exists p, v, a, ap. split; [|exact Hin].
  eapply sub_step; eauto.
Qed.

Lemma collect_sound k : forall e ent, In ent (collect k e) -> attr_source k ent e.
Proof.
  induction e using expr_ind2; cbn [collect]; intros ent Hin.
  - apply in_flat_map in Hin. destruct Hin as [x [Hx Hin]]. rewrite Forall_forall in H.
    eapply attr_source_up; [constructor; exact Hx | eauto].
  - apply in_app_or in Hin. destruct Hin as [Hin|Hin];
      [eapply attr_source_up; [apply ch_binl | eauto] | eapply attr_source_up; [apply ch_binr | eauto]].
  - eapply attr_source_up; [constructor | eauto].
  - apply in_app_or in Hin. destruct Hin as [Hin|Hin].
    + eapply attr_source_up; [apply ch_cmpl | eauto].
    + apply in_flat_map in Hin. destruct Hin as [x [Hx Hin]]. rewrite Forall_forall in H.
      eapply attr_source_up; [apply ch_cmpc; exact Hx | eauto].
  - destruct Hin.
  - destruct Hin.
  - apply in_app_or in Hin. destruct Hin as [Hin|Hin].
    + eapply attr_source_up; [constructor | eauto].
    + exists p, e, a, ap. split; [apply sub_refl | exact Hin].
  - apply in_flat_map in Hin. destruct Hin as [x [Hx Hin]]. rewrite Forall_forall in H.
    eapply attr_source_up; [constructor; exact Hx | eauto].
  - apply in_flat_map in Hin. destruct Hin as [x [Hx Hin]]. rewrite Forall_forall in H.
    eapply attr_source_up; [constructor; exact Hx | eauto].
  - apply in_app_or in Hin. destruct Hin as [Hin|Hin]; [|apply in_app_or in Hin; destruct Hin as [Hin|Hin]].
    + apply in_flat_map in Hin. destruct Hin as [x [Hx Hin]]. rewrite Forall_forall in H.
      eapply attr_source_up; [apply ch_callarg; exact Hx | eauto].
    + apply in_flat_map in Hin. destruct Hin as [[n x] [Hx Hin]]. rewrite Forall_forall in H0.
      eapply attr_source_up; [eapply ch_callkw; exact Hx | exact (H0 _ Hx ent Hin)].
    + eapply attr_source_up; [apply ch_callf | eauto].
  - destruct Hin.
Qed.

Lemma collect_complete k e ent : attr_source k ent e -> In ent (collect k e).
Proof.
  intros [p [v [a [ap [Hs Hin]]]]]. apply (collect_subexpr k _ e Hs). cbn [collect]. apply in_or_app; auto.
Qed.

(* attribute chains *)
Fixpoint chain_ents (k : collector) (b : expr) (l : list (str * Z)) : list entity :=
  match l with
  | [] => []
  | (a, ap) :: t => classify_ast k b a ap ++ chain_ents k (EAttribute (1, 0) b a ap) t
  end.

Lemma collect_chain k : forall l b, collect k (chain b l) = collect k b ++ chain_ents k b l.
Proof.
  induction l as [|[a ap] t IH]; intros b; cbn [chain chain_ents].
  - rewrite app_nil_r; reflexivity.
  - rewrite IH. cbn [collect]. rewrite app_assoc. reflexivity.
Qed.

(* below the second attribute of a chain nothing is collected *)
Lemma chain_ents_deep k : forall l p1 p2 u a1 ap1 a2 ap2,
  chain_ents k (EAttribute p1 (EAttribute p2 u a1 ap1) a2 ap2) l = [].
Proof.
  induction l as [|[a ap] t IH]; intros; cbn [chain_ents]; [reflexivity|]. rewrite IH.
  destruct k; reflexivity.
Qed.

Lemma chain_ents_after_name k : forall l p n a ap,
  is_ename (EName p n) "user" = false \/ k <> ACL ->
  chain_ents k (EAttribute (1, 0) (EName p n) a ap) l = [].
Proof.
  intros l p n a ap Hn. destruct l as [|[a' ap'] t]; cbn [chain_ents]; [reflexivity|].
  rewrite chain_ents_deep, app_nil_r. unfold classify_ast. cbn [is_ename].
  destruct k; try reflexivity. destruct Hn as [Hn|Hn]; [|congruence]. cbn [is_ename] in Hn. rewrite Hn. reflexivity.
Qed.

(* ------------------------------------------------------------------------------------------- *)
(* Renaming the AST and converting = converting and renaming the tree. *)

Lemma mapMc_map_commute {A B} (f : A -> cres B) (ra : A -> A) (rb : B -> B) l :
  Forall (fun x => f (ra x) = map_cres rb (f x)) l ->
  mapMc f (map ra l) = map_cres (map rb) (mapMc f l).
Proof.
  induction 1 as [|x t Hx _ IH]; [reflexivity|]. cbn [map]. rewrite !mapMc_cons, Hx, IH.
  destruct (f x); cbn; [|reflexivity]. destruct (mapMc f t); reflexivity.
Qed.

Lemma kw_named_map {A B} (g : A -> B) (kws : list (option str * A)) :
  forallb kw_named (map (fun kw => match kw with (n, v) => (n, g v) end) kws) = forallb kw_named kws.
Proof. induction kws as [|[n v] t IH]; cbn; [reflexivity|]. rewrite IH. reflexivity. Qed.

Lemma rename_commutes_lemma k r : forall e,
  convert (rename_ast k r e) = map_cres (rename_tree k r) (convert e).
Proof.
  induction e using expr_ind2.
  - cbn [rename_ast convert]. rewrite (mapMc_map_commute _ _ (rename_tree k r) vs H).
    destruct (mapMc (convert) vs); reflexivity.
  - destruct op; [|reflexivity]. cbn [rename_ast convert]. rewrite IHe1, IHe2.
    destruct (convert e1); cbn; [|reflexivity]. destruct (convert e2); reflexivity.
  - destruct op; [|reflexivity]. cbn [rename_ast convert]. rewrite IHe. destruct (convert e); reflexivity.
  - cbn [rename_ast convert]. destruct ops as [|op [|? ?]]; try reflexivity.
    destruct cs as [|c0 [|? ?]]; try reflexivity.
    inversion H as [|? ? Hc _]; subst. cbn [map]. rewrite IHe, Hc.
    destruct (convert e); cbn; [|reflexivity]. destruct (convert c0); reflexivity.
  - cbn. destruct (named_constant id); reflexivity.
  - cbn. destruct (negb (const_plain c)); reflexivity.
  - cbn [rename_ast convert]. rewrite IHe. destruct (convert e) as [tv|] eqn:E; cbn; [|reflexivity].
    rewrite <- (classify_agree k e tv a ap E), (new_attr_pos r k tv a ap 0). reflexivity.
  - cbn [rename_ast convert]. rewrite (mapMc_map_commute _ _ (rename_tree k r) es H).
    destruct (mapMc (convert) es); reflexivity.
  - cbn [rename_ast convert]. rewrite (mapMc_map_commute _ _ (rename_tree k r) es H).
    destruct (mapMc (convert) es); reflexivity.
  - cbn [rename_ast]. rewrite !convert_call, kw_named_map.
    destruct (negb (forallb kw_named kws)); [reflexivity|].
    rewrite (mapMc_map_commute _ _ (rename_tree k r) args H), IHe.
    assert (Hk : mapMc (conv_kw) (map (fun kw => match kw with (n, v) => (n, rename_ast k r v) end) kws)
                 = map_cres (map (fun kw => match kw with (n, v) => (n, rename_tree k r v) end))
                            (mapMc (conv_kw) kws)).
    { apply mapMc_map_commute. clear - H0. induction H0 as [|[n v] t Hv _ IH]; constructor; [|exact IH].
      cbn in *. rewrite Hv. destruct (convert v); reflexivity. }
    rewrite Hk.
    destruct (mapMc (convert) args); cbn; [|reflexivity].
    destruct (mapMc (conv_kw) kws); cbn; [|reflexivity].
    destruct (convert e); reflexivity.
  - reflexivity.
Qed.

(* a renamer that renames nothing leaves AST and tree alone *)
Lemma new_attr_none ents a : new_attr (fun _ _ _ => None) ents a = a.
Proof. destruct ents; reflexivity. Qed.

(* ------------------------------------------------------------------------------------------- *)
(* The comma-separated column list. *)
Definition comma_free (s : str) : bool := forallb (fun c => negb (c =? 44)) s.

Lemma split_comma_nonempty s : split_comma s <> [].
Proof. destruct s as [|c t]; cbn; [discriminate|]. destruct (c =? 44); [discriminate|]. destruct (split_comma t); discriminate. Qed.

Lemma join_split s : join_comma (split_comma s) = s.
Proof.
  induction s as [|c t IH]; [reflexivity|]. cbn [split_comma]. destruct (c =? 44) eqn:E.
  - apply Z.eqb_eq in E. subst. pose proof (split_comma_nonempty t) as Hn.
    destruct (split_comma t) as [|h r]; [congruence|]. cbn [join_comma app] in *. rewrite IH. reflexivity.
  - pose proof (split_comma_nonempty t) as Hn. destruct (split_comma t) as [|h r]; [congruence|].
    destruct r as [|h2 r']; cbn [join_comma] in *; rewrite <- IH; reflexivity.
Qed.

Lemma split_comma_free_one x : comma_free x = true -> split_comma x = [x].
Proof.
  induction x as [|c t IH]; [reflexivity|]. cbn. intros H. apply andb_true_iff in H. destruct H as [H1 H2].
  apply negb_true_iff in H1. rewrite H1, (IH H2). reflexivity.
Qed.

Lemma split_comma_app x rest : comma_free x = true -> split_comma (x ++ 44 :: rest) = x :: split_comma rest.
Proof.
  induction x as [|c t IH]; [reflexivity|]. cbn. intros H. apply andb_true_iff in H. destruct H as [H1 H2].
  apply negb_true_iff in H1. rewrite H1, (IH H2). reflexivity.
Qed.

Lemma split_join l : l <> [] -> forallb comma_free l = true -> split_comma (join_comma l) = l.
Proof.
  induction l as [|x t IH]; [congruence|]. intros _ H. cbn in H. apply andb_true_iff in H. destruct H as [H1 H2].
  destruct t as [|y t'].
  - cbn. apply split_comma_free_one; assumption.
  - change (join_comma (x :: y :: t')) with (x ++ 44 :: join_comma (y :: t')).
    rewrite (split_comma_app x _ H1), IH; [reflexivity|discriminate|assumption].
Qed.

Lemma split_comma_free s : forallb comma_free (split_comma s) = true.
Proof.
  induction s as [|c t IH]; [reflexivity|]. cbn [split_comma]. destruct (c =? 44) eqn:E.
  - cbn. exact IH.
  - destruct (split_comma t) as [|h r]; cbn in *; rewrite ?E; [reflexivity|]. exact IH.
Qed.

Definition renames_comma_free (rs : renames) : bool :=
  forallb (fun row => match row with (_, _, n) => comma_free n end) rs.

Lemma renames_get_comma_free rs t c n : renames_comma_free rs = true -> renames_get rs t c = Some n -> comma_free n = true.
Proof.
  induction rs as [|[[t' c'] n'] rest IH]; cbn; [discriminate|]. intros H Hg.
  apply andb_true_iff in H. destruct H as [H1 H2].
  destruct (str_eqb t t' && str_eqb c c'); [inversion Hg; subst; assumption | eauto].
Qed.

Lemma rename_col_comma_free rs t c : renames_comma_free rs = true -> comma_free c = true -> comma_free (rename_col rs t c) = true.
Proof.
  intros Hr Hc. unfold rename_col. destruct (renames_get rs t c) as [n|] eqn:E; [|assumption].
  destruct (is_empty n); [assumption|]. eapply renames_get_comma_free; eauto.
Qed.

Lemma rename_colids_split rs t s :
  renames_comma_free rs = true ->
  split_comma (join_comma (map (rename_col rs t) (split_comma s))) = map (rename_col rs t) (split_comma s).
Proof.
  intros Hr. apply split_join.
  - pose proof (split_comma_nonempty s). destruct (split_comma s); [congruence|discriminate].
  - rewrite forallb_map. pose proof (split_comma_free s) as Hf. rewrite forallb_forall in Hf.
    apply forallb_forall. intros c Hc. apply rename_col_comma_free; auto.
Qed.

Lemma rename_colids_spec rs t s :
  renames_comma_free rs = true ->
  match rename_colids rs t s with
  | Some new => new <> s /\ split_comma new = map (rename_col rs t) (split_comma s)
  | None => s = [] \/ s = lit "*" \/ map (rename_col rs t) (split_comma s) = split_comma s
  end.
Proof.
  intros Hr. unfold rename_colids. destruct (is_empty s) eqn:E1; cbn [orb].
  - left. destruct s; [reflexivity|discriminate].
  - destruct (str_eqb s (lit "*")) eqn:E2; [right; left; apply str_eqb_eq; exact E2|].
    destruct (str_eqb (join_comma (map (rename_col rs t) (split_comma s))) s) eqn:E3.
    + right; right. apply str_eqb_eq in E3. rewrite <- (rename_colids_split rs t s Hr), E3. reflexivity.
    + split; [|apply rename_colids_split; exact Hr]. intros Heq. rewrite Heq, str_eqb_refl in E3. discriminate.
Qed.

(* ------------------------------------------------------------------------------------------- *)
(* process_renames on formulas that do not parse, and when there is nothing to rename. *)

Lemma process_renames_rejected k r formula dollars e :
  is_ok (convert e) = false -> process_renames k r formula true dollars (Some e) = PRText formula.
Proof.
  intros H. unfold process_renames. cbn [negb]. rewrite <- (visit_is_ok k) in H. destruct (visit k e); [discriminate|reflexivity].
Qed.

Lemma apply_patches_nil text : apply_patches text [] = text.
Proof. reflexivity. Qed.

Lemma rename_patches_none dollars ents : rename_patches (fun _ _ _ => None) dollars ents = [].
Proof. induction ents as [|x t IH]; [reflexivity|]. cbn. exact IH. Qed.

Lemma rename_patches_no_hit r dollars ents :
  (forall ent, In ent ents -> r (e_type ent) (e_name ent) (e_extra ent) = None) -> rename_patches r dollars ents = [].
Proof.
  induction ents as [|x t IH]; intros H; [reflexivity|]. cbn. rewrite (H x (or_introl eq_refl)). cbn. apply IH.
  intros ent Hin. apply H. right; exact Hin.
Qed.

(* ------------------------------------------------------------------------------------------- *)
(* Patching from the right = building the output left to right, keeping the text between the patches. *)
Lemma wf_bound off text ps : wf_patches off text ps -> 0 <= off <= Z.of_nat (length text).
Proof.
  revert off. induction ps as [|p t IH]; cbn; intros off H; [exact H|].
  destruct H as [H1 [H2 H3]]. specialize (IH _ H3). lia.
Qed.

Lemma firstn_app_le {A} n (l m : list A) : (n <= length l)%nat -> firstn n (l ++ m) = firstn n l.
Proof. intros H. rewrite firstn_app. replace (n - length l)%nat with 0%nat by lia. cbn. apply app_nil_r. Qed.

Lemma skipn_app_exact {A} n (l m : list A) : length l = n -> skipn n (l ++ m) = m.
Proof. intros H. subst. rewrite skipn_app, skipn_all, Nat.sub_diag. reflexivity. Qed.

Lemma firstn_split {A} a b (l : list A) : firstn (a + b) l = firstn a l ++ firstn b (skipn a l).
Proof.
  revert l; induction a as [|a IH]; intros l; [reflexivity|]. destruct l as [|x l]; cbn.
  - rewrite firstn_nil. reflexivity.
  - rewrite IH. reflexivity.
Qed.

Lemma fold_right_spec text : forall ps off, wf_patches off text ps ->
  fold_right (fun p acc => apply_patch acc p) text ps = firstn (Z.to_nat off) text ++ spec_apply off text ps.
Proof.
  induction ps as [|p t IH]; intros off H.
  - cbn. symmetry. apply firstn_skipn.
  - cbn [fold_right spec_apply]. cbn in H. destruct H as [H1 [H2 H3]]. rewrite (IH _ H3).
    pose proof (wf_bound _ _ _ H3) as Hb. unfold apply_patch.
    assert (Hlen : length (firstn (Z.to_nat (p_end p)) text) = Z.to_nat (p_end p)) by (apply firstn_length_le; lia).
    rewrite firstn_app_le by lia. rewrite (skipn_app_exact _ _ _ Hlen).
    rewrite firstn_firstn. replace (Init.Nat.min (Z.to_nat (p_start p)) (Z.to_nat (p_end p))) with (Z.to_nat (p_start p)) by lia.
    unfold slice. replace (Z.to_nat (p_start p)) with (Z.to_nat off + Z.to_nat (p_start p - off))%nat at 1 by lia.
    rewrite firstn_split, <- app_assoc. reflexivity.
Qed.

Fixpoint starts_above (s : Z) (ps : list patch) : Prop :=
  match ps with [] => True | p :: t => s < p_start p /\ starts_above s t end.

Lemma wf_starts_above off text ps : wf_patches off text ps -> forall s, s < off -> starts_above s ps.
Proof.
  revert off. induction ps as [|p t IH]; cbn; intros off H s Hs; [exact I|].
  destruct H as [H1 [H2 H3]]. split; [lia|]. apply (IH _ H3). lia.
Qed.

Lemma insert_desc_last p l : (forall q, In q l -> p_start p < p_start q) -> insert_desc p l = l ++ [p].
Proof.
  induction l as [|q t IH]; intros H; [reflexivity|]. cbn.
  destruct (p_start q <=? p_start p) eqn:E.
  - apply Z.leb_le in E. specialize (H q (or_introl eq_refl)). lia.
  - rewrite IH; [reflexivity|]. intros q' Hq'. apply H. right; exact Hq'.
Qed.

Lemma starts_above_In s ps : starts_above s ps -> forall q, In q ps -> s < p_start q.
Proof. induction ps as [|p t IH]; cbn; intros H q Hq; [destruct Hq|]. destruct H as [H1 H2]. destruct Hq as [<-|Hq]; auto. Qed.

Lemma sort_desc_ascending text : forall ps off, wf_patches off text ps -> sort_desc ps = rev ps.
Proof.
  induction ps as [|p t IH]; intros off H; [reflexivity|]. cbn in H. destruct H as [H1 [H2 H3]].
  unfold sort_desc in *. cbn [fold_right rev]. rewrite (IH _ H3). apply insert_desc_last.
  intros q Hq. apply in_rev in Hq. apply (starts_above_In _ _ (wf_starts_above _ _ _ H3 (p_start p) H2) q Hq).
Qed.

Theorem apply_patches_spec text ps : wf_patches 0 text ps -> apply_patches text ps = spec_apply 0 text ps.
Proof.
  intros H. unfold apply_patches. rewrite (sort_desc_ascending text ps 0 H).
  change (fold_left apply_patch (rev ps) text) with (fold_left (fun x y => (fun p acc => apply_patch acc p) y x) (rev ps) text).
  rewrite <- fold_left_rev_right, rev_involutive.
  rewrite (fold_right_spec text ps 0 H). reflexivity.
Qed.
