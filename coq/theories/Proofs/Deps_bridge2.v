(* Bridging lemmas, part 2: the worklist of Graph.invalidate_deps and the edge recording of Engine._use_node. *)
From Coq Require Import ZArith List Bool Lia.
Import ListNotations.
Require Import Grist.Model.Deps Grist.Model.DepsSpec Grist.Model.DepsExec Grist.Model.DepsEval Grist.Lib.DepsGenPrelude.
Require Import Grist.Proofs.Deps_closure_proofs Grist.Proofs.Deps_inval_proofs Grist.Proofs.Deps_order_proofs.
Require Import Grist.Proofs.Deps_eval_proofs Grist.Proofs.Deps_bridge.
Require Import GristGen.Deps_gen.
Open Scope Z_scope.

Lemma fold_push {A B} (f : A -> B) l : forall rest,
  fold_left (fun st a => f a :: st) l rest = rev (map f l) ++ rest.
Proof.
  induction l as [| a l IH]; intros rest; cbn [fold_left map rev]; [reflexivity |].
  rewrite IH, <- app_assoc. reflexivity.
Qed.

(* the generated worklist IS the model's worklist *)
Theorem bridge_inval fuel : forall g st incl, gen_inval fuel g st incl = inval fuel g st incl.
Proof.
  induction fuel as [| f IH]; intros g st incl; [reflexivity |].
  cbn [gen_inval inval]. destruct st as [| [n x] rest]; [reflexivity |].
  destruct incl; cbn [negb].
  - destruct (is_all (g_map g n)); [apply IH |].
    destruct x as [| l].
    + unfold g_clear, g_set_map. cbn [g_edges g_rel g_map g_nodes]. rewrite bridge_clear_dependencies.
      destruct (clear_dependencies (g_edges g) (g_rel g) n) as [E' R']. cbn [fst snd g_edges g_rel].
      rewrite (fold_push (fun edge => (e_out edge, affected R' (e_rel edge) AllRows))). apply IH.
    + unfold g_add_rows, g_set_map, gen_old_rows. cbn [g_edges g_rel g_map g_nodes].
      match goal with |- context [existsb ?p l] => destruct (existsb p l) end; cbn [negb]; [| apply IH].
      rewrite (fold_push (fun edge => (e_out edge, affected (g_rel g) (e_rel edge) (Rows l)))). apply IH.
  - rewrite (fold_push (fun edge => (e_out edge, affected (g_rel g) (e_rel edge) x))). apply IH.
Qed.

Theorem bridge_invalidate_deps fuel g n x incl : gen_invalidate_deps fuel g n x incl = invalidate_deps fuel g n x incl.
Proof. apply bridge_inval. Qed.

(* ---- Engine._use_node ------------------------------------------------------------------------------------- *)
Lemma add_edge_idem E e : In e E -> add_edge E e = E.
Proof.
  intros H. unfold add_edge.
  assert (X : existsb (edge_eqb e) E = true) by (apply existsb_exists; exists e; split; [exact H | apply edge_eqb_refl]).
  rewrite X. reflexivity.
Qed.

(* _recompute_edge_set only short-cuts add_edge: while every edge it holds is in the graph, recording through it
   is exactly add_edge *)
Theorem bridge_use_node cur E seen node relation :
  (forall e, In e seen -> In e E) ->
  let r := gen_use_node_record false true cur E seen node relation in
  fst r = add_edge E (cur, node, relation) /\ (forall e, In e (snd r) -> In e (fst r)).
Proof.
  intros Hs. unfold gen_use_node_record. cbn zeta.
  destruct (edge_mem (cur, node, relation) seen) eqn:M; cbn [negb fst snd].
  - unfold edge_mem in M. apply existsb_exists in M. destruct M as (e & He & Heq). apply edge_eqb_eq in Heq. subst e.
    rewrite (add_edge_idem E _ (Hs _ He)). split; auto.
  - split; [reflexivity |]. intros e [<- | He]; [apply add_edge_has | apply add_edge_incl; apply Hs; exact He].
Qed.

Theorem bridge_use_node_off cur E seen node relation :
  gen_use_node_record true true cur E seen node relation = (E, seen) /\
  gen_use_node_record false false cur E seen node relation = (E, seen).
Proof. split; reflexivity. Qed.

(* a whole evaluation: the reads of a formula recorded through _use_node are the model's record_reads *)
Fixpoint run_use (cur : node) (tr : list access) (E seen : list edge) : list edge * list edge :=
  match tr with
  | [] => (E, seen)
  | a :: t => let r := gen_use_node_record false true cur E seen (fst (acell a)) (snd (fst a)) in run_use cur t (fst r) (snd r)
  end.

Theorem bridge_record_reads cur tr : forall E seen,
  (forall e, In e seen -> In e E) -> fst (run_use cur tr E seen) = record_reads E cur tr.
Proof.
  unfold record_reads. induction tr as [| a t IH]; intros E seen Hs; cbn [run_use fold_left]; [reflexivity |].
  destruct (bridge_use_node cur E seen (fst (acell a)) (snd (fst a)) Hs) as [H1 H2]. cbn zeta in H1, H2.
  rewrite (IH _ _ H2), H1. reflexivity.
Qed.
