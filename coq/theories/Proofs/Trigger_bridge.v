(* K3 bridge: the functions of coq/gen/Trigger_gen.v (translated from /repo on every run by harness/tg2v.py) do what
   the hand-written mechanism of Model/Trigger.v says.  The generated functions yield EFFECTS (exemptions and
   invalidations asked of the engine); [run_eff] gives an effect its meaning for the trigger column (this is the
   hand-written part: what DepGraph.invalidate_deps reaches, Model/Trigger.v [reach]); the bridging lemmas say that
   running the generated effects equals the corresponding step of the model, pointwise. *)
From Coq Require Import ZArith List Bool Lia.
Import ListNotations.
Require Import Grist.Lib.TrigEff GristGen.Trigger_gen Grist.Model.Trigger Grist.Proofs.Trigger_proofs.
Open Scope Z_scope.
Arguments memz : simpl never.

(* ---------------------------------------------------------------- the table as the code sees it *)
Definition when_code (w : recalc_when) : Z := match w with DEFAULT => 0 | NEVER => 1 | MANUAL_UPDATES => 2 end.

Definition trigger_col (g : cfg) : colinfo :=
  {| ci_id := trc; ci_ref := trc; ci_is_formula := false; ci_has_formula := true;
     ci_recalcWhen := when_code (when g); ci_recalcDeps := deps g |}.

(* cols describes the table of configuration g: distinct column ids, metadata refs = ids (the model numbers
   columns once), the trigger column as configured, no other trigger column, every column that matters present *)
Record cols_ok (g : cfg) (cols : list colinfo) : Prop := {
  ok_nodup : NoDup (map ci_id cols);
  ok_refs : forall c, In c cols -> ci_ref c = ci_id c;
  ok_trig : In (trigger_col g) cols;
  ok_single : forall c, In c cols -> ci_id c <> trc -> ci_is_formula c = true \/ ci_has_formula c = false;
  ok_cover : forall c, In c (table_cols g) -> In c (map ci_id cols)
}.

(* ---------------------------------------------------------------- meaning of an effect for the trigger column *)
Definition rows_mem (r : Z) (s : rowsel) : bool := match s with AllRows => true | Rows l => zmem r l end.

Definition run_eff (g : cfg) (m : mech) (e : eff) : mech :=
  match e with
  | EPrevent node rows b =>
      if node =? trc
      then {| dirty := dirty m;
              prevent := fun r => zmem r (gen_prevent_recalc (if prevent m r then [r] else []) rows b);
              stale := stale m; fstale := fstale m |}
      else m
  | EInvalidate node rows incl =>
      (* the node itself when asked to (include_self), and whatever invalidate_deps reaches: every edge into the
         trigger column carries a SingleRowsIdentityRelation (the generated get_affected_rows) *)
      {| dirty := fun r => dirty m r || ((node =? trc) && incl && rows_mem r rows)
                                     || (reach g m node && rows_mem r (gen_get_affected_rows rows));
         prevent := prevent m; stale := stale m; fstale := fstale m |}
  | EClearDeps _ | EAddEdge _ _ => m
  end.
Definition run_effs (g : cfg) (m : mech) (es : list eff) : mech := fold_left (run_eff g) es m.

(* pointwise equality of mechanism states *)
Definition meq (a b : mech) : Prop :=
  (forall r, dirty a r = dirty b r) /\ (forall r, prevent a r = prevent b r) /\
  (forall c, stale a c = stale b c) /\ (forall c, fstale a c = fstale b c).

Lemma meq_refl : forall m, meq m m.
Proof. intros m. repeat split. Qed.
Lemma meq_sym : forall a b, meq a b -> meq b a.
Proof. intros a b [A [B [C D]]]. repeat split; intros; symmetry; auto. Qed.
Lemma meq_trans : forall a b c, meq a b -> meq b c -> meq a c.
Proof.
  intros a b c [A [B [C D]]] [A' [B' [C' D']]].
  repeat split; intros; [rewrite A|rewrite B|rewrite C|rewrite D]; auto.
Qed.

(* ---------------------------------------------------------------- small facts *)
Lemma zmem_memz : forall x l, zmem x l = memz x l.
Proof. reflexivity. Qed.

Lemma existsb_ext' : forall (A : Type) (f h : A -> bool) l, (forall x, f x = h x) -> existsb f l = existsb h l.
Proof. intros A f h l H. induction l as [|x l IH]; [reflexivity|]. cbn. rewrite H, IH. reflexivity. Qed.

Lemma reach_ext : forall g a b c, meq a b -> reach g a c = reach g b c.
Proof.
  intros g a b c [_ [_ [S F]]]. unfold reach, via_self, via_readers, edge_live. rewrite S, F. f_equal.
  apply existsb_ext'. intros f. rewrite S, F. reflexivity.
Qed.

(* effects do not touch the edges *)
Lemma run_eff_stale : forall g m e, (forall c, stale (run_eff g m e) c = stale m c) /\ (forall c, fstale (run_eff g m e) c = fstale m c).
Proof. intros g m e. destruct e; cbn; try (destruct (node =? trc)); split; reflexivity. Qed.

Lemma run_effs_stale : forall g es m,
  (forall c, stale (run_effs g m es) c = stale m c) /\ (forall c, fstale (run_effs g m es) c = fstale m c).
Proof.
  intros g es. induction es as [|e es IH]; intros m; [split; reflexivity|]. cbn [run_effs fold_left].
  destruct (IH (run_eff g m e)) as [A B]. destruct (run_eff_stale g m e) as [C D].
  split; intros c; [rewrite A, C | rewrite B, D]; reflexivity.
Qed.

Lemma reach_run_effs : forall g es m c, reach g (run_effs g m es) c = reach g m c.
Proof.
  intros g es m c. destruct (run_effs_stale g es m) as [A B]. unfold reach, via_self, via_readers, edge_live.
  rewrite A, B. f_equal. apply existsb_ext'. intros f. rewrite A, B. reflexivity.
Qed.

Lemma run_effs_app : forall g a b m, run_effs g m (a ++ b) = run_effs g (run_effs g m a) b.
Proof. intros. unfold run_effs. apply fold_left_app. Qed.

(* what one effect adds to the dirty set *)
Definition dirt (g : cfg) (m : mech) (e : eff) (r : Z) : bool :=
  match e with
  | EInvalidate node rows incl =>
      ((node =? trc) && incl && rows_mem r rows) || (reach g m node && rows_mem r (gen_get_affected_rows rows))
  | _ => false
  end.

Lemma run_effs_dirty : forall g es m r,
  dirty (run_effs g m es) r = dirty m r || existsb (fun e => dirt g m e r) es.
Proof.
  intros g es. induction es as [|e es IH]; intros m r; [cbn; rewrite orb_false_r; reflexivity|].
  cbn [run_effs fold_left existsb]. fold (run_effs g (run_eff g m e) es). rewrite IH.
  assert (Hd : forall e' , dirt g (run_eff g m e) e' r = dirt g m e' r).
  { intros e'. destruct e'; cbn [dirt]; try reflexivity.
    replace (reach g (run_eff g m e) node) with (reach g m node); [reflexivity|].
    symmetry. apply (reach_run_effs g [e] m node). }
  rewrite (existsb_ext' _ _ _ es Hd).
  destruct e; cbn [run_eff dirt]; try (destruct (node =? trc)); cbn [dirty orb];
    rewrite ?orb_assoc; reflexivity.
Qed.

(* ---------------------------------------------------------------- BRIDGE 1: the pure pieces *)
(* schema.RecalcWhen *)
Lemma bridge_recalc_when :
  RecalcWhen_DEFAULT = when_code DEFAULT /\ RecalcWhen_NEVER = when_code NEVER /\
  RecalcWhen_MANUAL_UPDATES = when_code MANUAL_UPDATES.
Proof. repeat split; reflexivity. Qed.

Lemma when_code_default : forall g, (when_code (when g) =? RecalcWhen_DEFAULT) = is_default g.
Proof. intros g. unfold is_default. destruct (when g); reflexivity. Qed.
Lemma when_code_never : forall g, (when_code (when g) =? RecalcWhen_NEVER) = is_never g.
Proof. intros g. unfold is_never. destruct (when g); reflexivity. Qed.
Lemma when_code_manual : forall g, (when_code (when g) =? RecalcWhen_MANUAL_UPDATES) = is_manual g.
Proof. intros g. unfold is_manual. destruct (when g); reflexivity. Qed.

(* docmodel recalcOnChangesToSelf = the model's selfdep *)
Lemma bridge_recalcOnChangesToSelf : forall g, gen_recalcOnChangesToSelf (trigger_col g) = selfdep g.
Proof. intros g. unfold gen_recalcOnChangesToSelf, selfdep. cbn [trigger_col ci_recalcWhen ci_ref ci_recalcDeps].
  rewrite when_code_default. reflexivity. Qed.

(* SingleRowsIdentityRelation: ALL_ROWS is not passed on, explicit rows are *)
Lemma bridge_get_affected_rows :
  gen_get_affected_rows AllRows = Rows [] /\ forall l, gen_get_affected_rows (Rows l) = Rows l.
Proof. split; reflexivity. Qed.

(* column.is_formula is the stored flag *)
Lemma bridge_is_formula : forall b, gen_is_formula b = b.
Proof. reflexivity. Qed.

(* Engine.prevent_recalc: add to / take from the set of exempt rows *)
Lemma zmem_filter : forall r p l, zmem r (filter p l) = zmem r l && p r.
Proof.
  intros r p l. unfold zmem. induction l as [|x l IH]; [reflexivity|]. cbn [filter existsb].
  destruct (Z.eqb_spec r x) as [->|Hne].
  - destruct (p x); cbn [existsb]; [rewrite Z.eqb_refl; reflexivity|]. rewrite IH, andb_false_r. reflexivity.
  - destruct (p x); cbn [existsb]; [apply Z.eqb_neq in Hne; rewrite Hne|]; exact IH.
Qed.

Lemma bridge_prevent_recalc : forall r S rows b,
  zmem r (gen_prevent_recalc S rows b) = if b then zmem r S || zmem r rows else zmem r S && negb (zmem r rows).
Proof.
  intros r S rows b. unfold gen_prevent_recalc, set_union, set_diff. destruct b.
  - unfold zmem. apply existsb_app.
  - apply zmem_filter.
Qed.

Lemma run_eff_prevent : forall g m rows b r,
  prevent (run_eff g m (EPrevent trc rows b)) r =
  if b then prevent m r || zmem r rows else prevent m r && negb (zmem r rows).
Proof.
  intros g m rows b r. cbn [run_eff]. rewrite Z.eqb_refl. cbn [prevent]. rewrite bridge_prevent_recalc.
  destruct (prevent m r); [|reflexivity]. unfold zmem at 1 3. cbn [existsb]. rewrite Z.eqb_refl. reflexivity.
Qed.

(* the exempt set after a list of effects in which every exemption is a should_prevent=True one *)
Definition prev_hit (r : Z) (e : eff) : bool :=
  match e with EPrevent node rows true => (node =? trc) && zmem r rows | _ => false end.
Definition only_true (e : eff) : bool := match e with EPrevent _ _ false => false | _ => true end.

Lemma run_effs_prevent_true : forall g es m r,
  forallb only_true es = true -> prevent (run_effs g m es) r = prevent m r || existsb (prev_hit r) es.
Proof.
  intros g es. induction es as [|e es IH]; intros m r H; [cbn; rewrite orb_false_r; reflexivity|].
  cbn [forallb] in H. apply andb_true_iff in H. destruct H as [He H].
  cbn [run_effs fold_left existsb]. fold (run_effs g (run_eff g m e) es). rewrite (IH _ _ H).
  destruct e as [node rows b| | |]; try (cbn; rewrite ?orb_assoc; reflexivity).
  destruct b; [|discriminate]. cbn [prev_hit]. destruct (Z.eqb_spec node trc) as [->|Hne].
  - rewrite run_eff_prevent. cbn [andb]. rewrite orb_assoc. reflexivity.
  - cbn [run_eff]. apply Z.eqb_neq in Hne. rewrite Hne. reflexivity.
Qed.

(* ---------------------------------------------------------------- normal forms of the generated invalidations *)
Lemma flat_map_single : forall (A B : Type) (f : A -> B) l, flat_map (fun x => [f x]) l = map f l.
Proof. intros. induction l as [|x l IH]; [reflexivity|]. cbn. rewrite IH. reflexivity. Qed.

Definition inv_eff (rows : rowsel) (rc : list Z) (col : colinfo) : eff :=
  EInvalidate (ci_id col) rows (ci_is_formula col || (ci_has_formula col && zmem (ci_id col) rc)).

Lemma inv_records_nf : forall allc rows colids rc,
  gen_invalidate_records allc rows colids rc =
  map (inv_eff rows rc) (match colids with None => allc | Some cs => map (get_column allc) cs end).
Proof.
  intros. unfold gen_invalidate_records, gen_invalidate_column, inv_eff. cbv zeta.
  destruct colids; apply flat_map_single.
Qed.

Lemma existsb_map' : forall (A B : Type) (f : A -> B) (p : B -> bool) l, existsb p (map f l) = existsb (fun x => p (f x)) l.
Proof. intros. induction l as [|x l IH]; [reflexivity|]. cbn. rewrite IH. reflexivity. Qed.

Lemma existsb_and_const : forall (A : Type) (p : A -> bool) b l, existsb (fun x => p x && b) l = existsb p l && b.
Proof.
  intros. induction l as [|x l IH]; [reflexivity|]. cbn. rewrite IH. destruct (p x); destruct b; cbn;
    rewrite ?andb_false_r, ?andb_true_r; reflexivity.
Qed.

Lemma existsb_ext_in : forall (A : Type) (f h : A -> bool) l, (forall x, In x l -> f x = h x) -> existsb f l = existsb h l.
Proof.
  intros A f h l H. induction l as [|x l IH]; [reflexivity|]. cbn. rewrite (H x (or_introl eq_refl)), IH; [reflexivity|].
  intros y Hy. apply H. right. exact Hy.
Qed.

Lemma existsb_or_split : forall (A : Type) (f h : A -> bool) l,
  existsb (fun x => f x || h x) l = existsb f l || existsb h l.
Proof.
  intros. induction l as [|x l IH]; [reflexivity|]. cbn. rewrite IH.
  destruct (f x); destruct (h x); destruct (existsb f l); destruct (existsb h l); reflexivity.
Qed.

(* ---------------------------------------------------------------- looking columns up *)
Lemma get_column_id : forall cols x, In x (map ci_id cols) -> ci_id (get_column cols x) = x.
Proof.
  intros cols x H. unfold get_column. destruct (find (fun ci => ci_id ci =? x) cols) as [ci|] eqn:E.
  - apply find_some in E. destruct E as [_ E]. apply Z.eqb_eq in E. exact E.
  - apply in_map_iff in H. destruct H as [c [Hc Hin]]. pose proof (find_none _ _ E c Hin) as Hn. cbn in Hn.
    rewrite Hc, Z.eqb_refl in Hn. discriminate.
Qed.

Lemma get_column_in : forall cols c, NoDup (map ci_id cols) -> In c cols -> get_column cols (ci_id c) = c.
Proof.
  intros cols c. unfold get_column. induction cols as [|a cols IH]; intros Hnd Hin; [destruct Hin|].
  cbn [find]. destruct (Z.eqb_spec (ci_id a) (ci_id c)) as [He|Hne].
  - destruct Hin as [->|Hin]; [reflexivity|]. cbn in Hnd. inversion Hnd as [|? ? Hni _]. exfalso. apply Hni.
    rewrite He. apply in_map. exact Hin.
  - destruct Hin as [->|Hin]; [congruence|]. cbn in Hnd. inversion Hnd. apply IH; assumption.
Qed.

Lemma get_column_member : forall cols x, In x (map ci_id cols) -> In (get_column cols x) cols.
Proof.
  intros cols x H. unfold get_column. destruct (find (fun ci => ci_id ci =? x) cols) as [ci|] eqn:E.
  - apply find_some in E. tauto.
  - apply in_map_iff in H. destruct H as [c [Hc Hin]]. pose proof (find_none _ _ E c Hin) as Hn. cbn in Hn.
    rewrite Hc, Z.eqb_refl in Hn. discriminate.
Qed.

Lemma trc_col_unique : forall g cols c, cols_ok g cols -> In c cols -> ci_id c = trc -> c = trigger_col g.
Proof.
  intros g cols c Hok Hin Hid. rewrite <- (get_column_in cols c (ok_nodup _ _ Hok) Hin).
  rewrite Hid. change trc with (ci_id (trigger_col g)). apply get_column_in; [apply (ok_nodup _ _ Hok) | apply (ok_trig _ _ Hok)].
Qed.

Lemma get_column_trc : forall g cols, cols_ok g cols -> get_column cols trc = trigger_col g.
Proof.
  intros g cols Hok. change trc with (ci_id (trigger_col g)).
  apply get_column_in; [apply (ok_nodup _ _ Hok) | apply (ok_trig _ _ Hok)].
Qed.

Lemma trc_in_ids : forall g cols, cols_ok g cols -> In trc (map ci_id cols).
Proof. intros g cols Hok. change trc with (ci_id (trigger_col g)). apply in_map. apply (ok_trig _ _ Hok). Qed.

(* what reaches the trigger node lies in table_cols *)
Lemma reach_table_cols : forall g m c, reach g m c = true -> In c (table_cols g).
Proof.
  intros g m c H. unfold table_cols. apply in_or_app. unfold reach in H. apply orb_true_iff in H. destruct H as [H|H].
  - left. unfold via_self, edge_live in H. repeat (apply andb_true_iff in H; destruct H as [H ?]).
    apply memz_In. assumption.
  - right. unfold via_readers in H. apply existsb_exists in H. destruct H as [f [Hf _]].
    apply readers_In in Hf. apply in_map_iff. exists (f, c). split; [reflexivity | exact Hf].
Qed.

Lemma existsb_reach_cover : forall g m ids, (forall c, In c (table_cols g) -> In c ids) ->
  existsb (reach g m) ids = existsb (reach g m) (table_cols g).
Proof.
  intros g m ids Hc. destruct (existsb (reach g m) (table_cols g)) eqn:E.
  - apply existsb_exists in E. destruct E as [c [Hin Hr]]. apply existsb_exists. exists c. split; [apply Hc; exact Hin | exact Hr].
  - destruct (existsb (reach g m) ids) eqn:E2; [|reflexivity]. apply existsb_exists in E2. destruct E2 as [c [_ Hr]].
    pose proof (existsb_false_In _ _ _ E c (reach_table_cols g m c Hr)) as Hf. cbn beta in Hf. congruence.
Qed.

(* what one generated invalidation of a column of the table adds *)
Lemma dirt_inv : forall g cols m rows rc col r, cols_ok g cols -> In col cols ->
  dirt g m (inv_eff (Rows rows) rc col) r =
  (((ci_id col =? trc) && zmem trc rc) || reach g m (ci_id col)) && zmem r rows.
Proof.
  intros g cols m rows rc col r Hok Hin. unfold inv_eff. cbn [dirt rows_mem gen_get_affected_rows is_all_rows].
  destruct (Z.eqb_spec (ci_id col) trc) as [He|Hne].
  - rewrite (trc_col_unique g cols col Hok Hin He). cbn [trigger_col ci_id ci_is_formula ci_has_formula].
    cbn [andb orb]. destruct (zmem trc rc); destruct (reach g m trc); destruct (zmem r rows); reflexivity.
  - cbn [andb orb]. reflexivity.
Qed.

Lemma dirty_inv_records_all : forall g cols m rows rc r, cols_ok g cols ->
  existsb (fun e => dirt g m e r) (gen_invalidate_records cols (Rows rows) None rc) =
  (zmem trc rc || existsb (reach g m) (table_cols g)) && zmem r rows.
Proof.
  intros g cols m rows rc r Hok. rewrite inv_records_nf, existsb_map'.
  rewrite (existsb_ext_in _ _ _ cols (fun col Hin => dirt_inv g cols m rows rc col r Hok Hin)).
  rewrite existsb_and_const, existsb_or_split, existsb_and_const. f_equal. f_equal.
  - replace (existsb (fun x => ci_id x =? trc) cols) with true; [reflexivity|]. symmetry.
    apply existsb_true_intro with (x := trigger_col g); [apply (ok_trig _ _ Hok) | reflexivity].
  - rewrite <- (existsb_map' _ _ ci_id (reach g m) cols). apply existsb_reach_cover. apply (ok_cover _ _ Hok).
Qed.

Lemma dirty_inv_records_some : forall g cols m rows ks r, cols_ok g cols ->
  (forall c, In c ks -> In c (map ci_id cols)) ->
  existsb (fun e => dirt g m e r) (gen_invalidate_records cols (Rows rows) (Some ks) []) =
  existsb (reach g m) ks && zmem r rows.
Proof.
  intros g cols m rows ks r Hok Hks. rewrite inv_records_nf, existsb_map', existsb_map'.
  rewrite <- existsb_and_const. apply existsb_ext_in. intros c Hc.
  rewrite (dirt_inv g cols m rows [] _ r Hok (get_column_member cols c (Hks c Hc))).
  rewrite (get_column_id cols c (Hks c Hc)). change (zmem trc []) with false. rewrite andb_false_r. reflexivity.
Qed.

(* invalidations never exempt *)
Lemma prevent_inv_records : forall g m cols rows colids rc r,
  prevent (run_effs g m (gen_invalidate_records cols rows colids rc)) r = prevent m r.
Proof.
  intros. rewrite inv_records_nf. set (l := match colids with None => cols | Some cs => map (get_column cols) cs end).
  clearbody l. revert m. induction l as [|c l IH]; intros m; [reflexivity|]. cbn [map run_effs fold_left].
  fold (run_effs g (run_eff g m (inv_eff rows rc c)) (map (inv_eff rows rc) l)). rewrite IH. reflexivity.
Qed.

(* ---------------------------------------------------------------- BRIDGE 2: the doc actions *)
(* docactions.BulkAddRecord -> Engine.add_records -> invalidate_records(all columns) *)
Lemma bridge_doc_BulkAddRecord : forall g cols m c recs cv, cols_ok g cols -> fx_add (fx g) = false ->
  meq (run_effs g m (gen_doc_BulkAddRecord cols (ids recs) cv)) (mech_doc g m (DAdd c recs)).
Proof.
  intros g cols m c recs cv Hok Hfx. unfold gen_doc_BulkAddRecord, gen_add_records. cbn [mech_doc].
  destruct (run_effs_stale g (gen_invalidate_records cols (Rows (ids recs)) None []) m) as [S F].
  repeat split; cbn [dirty prevent stale fstale]; intros r; try (rewrite ?S, ?F; reflexivity).
  - rewrite run_effs_dirty, dirty_inv_records_all by exact Hok. unfold set_or. reflexivity.
  - rewrite prevent_inv_records. unfold set_or. rewrite Hfx. cbn [andb]. rewrite orb_false_r. reflexivity.
Qed.

(* docactions.BulkRemoveRecord (of rows that exist) *)
Lemma bridge_doc_BulkRemoveRecord : forall g cols m rs, cols_ok g cols ->
  meq (run_effs g m (gen_doc_BulkRemoveRecord cols (fun l => l) rs)) (mech_doc g m (DRem rs)).
Proof.
  intros g cols m rs Hok. unfold gen_doc_BulkRemoveRecord. cbn [mech_doc]. destruct rs as [|x rs].
  - cbn [nonempty negb run_effs fold_left]. repeat split; cbn [dirty]; intros r; try reflexivity.
    unfold set_or. change (memz r []) with false. rewrite andb_false_r, orb_false_r. reflexivity.
  - cbn [nonempty negb]. set (l := x :: rs).
    destruct (run_effs_stale g (gen_invalidate_records cols (Rows l) None []) m) as [S F].
    repeat split; cbn [dirty prevent stale fstale]; intros r; try (rewrite ?S, ?F; reflexivity).
    + rewrite run_effs_dirty, dirty_inv_records_all by exact Hok. unfold set_or. reflexivity.
    + apply prevent_inv_records.
Qed.

(* docactions.BulkUpdateRecord: exempt the written data columns, invalidate the written columns *)
Definition upd_prevents (cols : list colinfo) (rows : list Z) (columns : list (Z * list Z)) : list eff :=
  flat_map (fun kv => let col := get_column cols (fst kv) in
                      if negb (ci_is_formula col) then [EPrevent (ci_id col) rows true] else []) columns.

Lemma doc_upd_nf : forall cols rows columns,
  gen_doc_BulkUpdateRecord cols rows columns =
  upd_prevents cols rows columns ++ gen_invalidate_records cols (Rows rows) (Some (keys columns)) [].
Proof.
  intros. unfold gen_doc_BulkUpdateRecord, upd_prevents. cbv zeta. f_equal.
  induction columns as [|[k v] l IH]; [reflexivity|]. cbn [flat_map app fst]. rewrite <- IH.
  destruct (negb (ci_is_formula (get_column cols k))); reflexivity.
Qed.

Lemma upd_prevents_facts : forall g cols rows columns r, cols_ok g cols ->
  (forall c, In c (keys columns) -> In c (map ci_id cols)) ->
  forallb only_true (upd_prevents cols rows columns) = true /\
  existsb (prev_hit r) (upd_prevents cols rows columns) = memz trc (keys columns) && zmem r rows /\
  (forall m, existsb (fun e => dirt g m e r) (upd_prevents cols rows columns) = false).
Proof.
  intros g cols rows columns r Hok. unfold upd_prevents. induction columns as [|[k v] l IH]; intros Hks.
  - repeat split.
  - assert (Hl : forall c, In c (keys l) -> In c (map ci_id cols)) by (intros c Hc; apply Hks; right; exact Hc).
    destruct (IH Hl) as [A [B C]]. assert (Hk : In k (map ci_id cols)) by (apply Hks; left; reflexivity).
    cbn [flat_map fst]. rewrite forallb_app, !existsb_app, A, B. unfold keys. cbn [map fst]. fold (keys l).
    unfold memz at 2. cbn [existsb]. fold (memz trc (keys l)). rewrite (get_column_id cols k Hk).
    assert (Hf : k = trc -> ci_is_formula (get_column cols k) = false).
    { intros ->. rewrite (get_column_trc g cols Hok). reflexivity. }
    destruct (ci_is_formula (get_column cols k)) eqn:Ef; cbn [negb forallb existsb only_true prev_hit dirt andb orb].
    + split; [reflexivity|]. split; [|intros m; apply C].
      destruct (Z.eqb_spec trc k) as [He|Hne]; [symmetry in He; specialize (Hf He); discriminate | reflexivity].
    + split; [reflexivity|]. split; [|intros m; apply C]. rewrite orb_false_r, (Z.eqb_sym k trc).
      destruct (trc =? k); destruct (zmem r rows); destruct (memz trc (keys l)); reflexivity.
Qed.

Lemma bridge_doc_BulkUpdateRecord : forall g cols m columns recs, cols_ok g cols ->
  (forall c, In c (keys columns) -> In c (map ci_id cols)) ->
  meq (run_effs g m (gen_doc_BulkUpdateRecord cols (ids recs) columns)) (mech_doc g m (DUpd (keys columns) recs)).
Proof.
  intros g cols m columns recs Hok Hks. rewrite doc_upd_nf. cbn [mech_doc].
  destruct (run_effs_stale g (upd_prevents cols (ids recs) columns ++
                              gen_invalidate_records cols (Rows (ids recs)) (Some (keys columns)) []) m) as [S F].
  repeat split; cbn [dirty prevent stale fstale]; intros r; try (rewrite ?S, ?F; reflexivity);
    destruct (upd_prevents_facts g cols (ids recs) columns r Hok Hks) as [A [B C]].
  - rewrite run_effs_dirty, existsb_app, C, dirty_inv_records_some by assumption. unfold set_or. reflexivity.
  - rewrite run_effs_app, prevent_inv_records, run_effs_prevent_true, B by exact A. unfold set_or. reflexivity.
Qed.

(* running effects respects pointwise equality of the starting states *)
Lemma run_eff_meq : forall g a b e, meq a b -> meq (run_eff g a e) (run_eff g b e).
Proof.
  intros g a b e H. pose proof (fun c => reach_ext g a b c H) as HR. destruct H as [A [B [C D]]].
  destruct e as [node rows sp|node rows incl| |]; cbn [run_eff]; try (repeat split; assumption).
  - destruct (node =? trc); repeat split; cbn [dirty prevent stale fstale]; intros; rewrite ?A, ?B, ?C, ?D; reflexivity.
  - repeat split; cbn [dirty prevent stale fstale]; intros; rewrite ?A, ?B, ?C, ?D, ?HR; reflexivity.
Qed.

Lemma run_effs_meq : forall g es a b, meq a b -> meq (run_effs g a es) (run_effs g b es).
Proof.
  intros g es. induction es as [|e es IH]; intros a b H; [exact H|]. cbn [run_effs fold_left].
  apply IH. apply run_eff_meq. exact H.
Qed.

(* ---------------------------------------------------------------- BRIDGE 3: user-level add *)
Lemma zmem_flat_map : forall (A : Type) x (f : A -> list Z) l, zmem x (flat_map f l) = existsb (fun a => zmem x (f a)) l.
Proof.
  intros. induction l as [|a l IH]; [reflexivity|]. cbn [flat_map existsb]. unfold zmem in *. rewrite existsb_app, IH. reflexivity.
Qed.

Definition recalc_cols_of (cols : list colinfo) (cv : list (Z * list Z)) : list Z :=
  flat_map (fun col => if zmem (ci_id col) (keys cv) then []
                       else if ci_recalcWhen (get_column cols (ci_id col)) =? RecalcWhen_NEVER then [] else [ci_id col]) cols.

Lemma recalc_cols_trc : forall g cols cv, cols_ok g cols ->
  zmem trc (recalc_cols_of cols cv) = negb (memz trc (keys cv)) && negb (is_never g).
Proof.
  intros g cols cv Hok. unfold recalc_cols_of. rewrite zmem_flat_map.
  rewrite (existsb_ext_in _ _ (fun col => (ci_id col =? trc) && (negb (memz trc (keys cv)) && negb (is_never g))) cols).
  - rewrite existsb_and_const.
    replace (existsb (fun x => ci_id x =? trc) cols) with true; [reflexivity|]. symmetry.
    apply existsb_true_intro with (x := trigger_col g); [apply (ok_trig _ _ Hok) | reflexivity].
  - intros col Hin. destruct (Z.eqb_spec (ci_id col) trc) as [He|Hne].
    + rewrite He, (get_column_trc g cols Hok). cbn [trigger_col ci_recalcWhen]. rewrite when_code_never.
      change (zmem trc (keys cv)) with (memz trc (keys cv)).
      destruct (memz trc (keys cv)); [reflexivity|]. destruct (is_never g); [reflexivity|].
      unfold zmem. cbn. reflexivity.
    + cbn [andb]. destruct (zmem (ci_id col) (keys cv)); [reflexivity|].
      destruct (ci_recalcWhen (get_column cols (ci_id col)) =? RecalcWhen_NEVER); [reflexivity|].
      unfold zmem. cbn [existsb]. rewrite Z.eqb_sym. apply Z.eqb_neq in Hne. rewrite Hne. reflexivity.
Qed.

Lemma add_nf : forall cols rows cv,
  gen_doBulkAddOrReplace cols false rows cv =
  gen_invalidate_records cols (Rows rows) None [] ++ gen_invalidate_records cols (Rows rows) None (recalc_cols_of cols cv).
Proof. intros. reflexivity. Qed.

Lemma bridge_doBulkAddOrReplace : forall g cols t m cv recs, cols_ok g cols -> fx_add (fx g) = false ->
  meq (run_effs g m (gen_doBulkAddOrReplace cols false (ids recs) cv)) (mech_user g t m (UAdd (keys cv) recs)).
Proof.
  intros g cols t m cv recs Hok Hfx. rewrite add_nf. cbn [mech_user mech_doc].
  set (A := gen_invalidate_records cols (Rows (ids recs)) None []).
  set (B := gen_invalidate_records cols (Rows (ids recs)) None (recalc_cols_of cols cv)).
  destruct (run_effs_stale g (A ++ B) m) as [S F].
  repeat split; cbn [dirty prevent stale fstale]; intros r; try (rewrite ?S, ?F; reflexivity).
  - rewrite run_effs_dirty, existsb_app. unfold A, B. rewrite !dirty_inv_records_all by exact Hok.
    rewrite (recalc_cols_trc g cols cv Hok). unfold set_or. change (zmem trc []) with false.
    change (zmem r (ids recs)) with (memz r (ids recs)).
    destruct (dirty m r); destruct (existsb (reach g m) (table_cols g)); destruct (memz r (ids recs));
      destruct (memz trc (keys cv)); destruct (is_never g); reflexivity.
  - rewrite run_effs_app. unfold A, B. rewrite !prevent_inv_records. unfold set_or. rewrite Hfx. cbn [andb negb].
    rewrite orb_false_r, andb_true_r. reflexivity.
Qed.

(* ---------------------------------------------------------------- BRIDGE 4: user-level update *)
(* the pass over the trigger-formula columns at the end of doBulkUpdateRecord, for one column *)
Definition upd_pass_col (cols : list colinfo) (rows : list Z) (cv : list (Z * list Z)) (col_obj : colinfo) : list eff :=
  if ci_is_formula col_obj || negb (ci_has_formula col_obj) then []
  else (if ci_recalcWhen (get_column cols (ci_id col_obj)) =? RecalcWhen_MANUAL_UPDATES
        then gen_invalidate_column col_obj (Rows rows) true else []) ++
       (if zmem (ci_id col_obj) (keys cv) && gen_recalcOnChangesToSelf (get_column cols (ci_id col_obj))
        then [EPrevent (ci_id col_obj) rows false] else []).

Lemma upd_nf : forall cols raw_get rows columns,
  gen_doBulkUpdateRecord cols raw_get (fun l => l) (fun a => a) rows columns =
  let a := gen_trim_update_action raw_get (rows, columns) in
  gen_doc_BulkUpdateRecord cols (act_rows a) (act_cols a) ++
  (if nonempty (act_cols a) then flat_map (upd_pass_col cols (act_rows a) (act_cols a)) cols else []).
Proof. intros. reflexivity. Qed.

Lemma flat_map_only : forall (A B : Type) (f : A -> list B) l x,
  NoDup l -> In x l -> (forall y, In y l -> y <> x -> f y = []) -> flat_map f l = f x.
Proof.
  intros A B f.
  assert (Hnil : forall (l : list A), (forall y, In y l -> f y = []) -> flat_map f l = []).
  { intros l0 H. induction l0 as [|b l0 IH0]; [reflexivity|]. cbn [flat_map]. rewrite (H b (or_introl eq_refl)).
    cbn. apply IH0. intros y Hy. apply H. right. exact Hy. }
  intros l x Hnd. induction l as [|a l IH]; intros Hin Hz; [destruct Hin|].
  inversion Hnd as [|? ? Hni Hnd']. subst. cbn [flat_map]. destruct Hin as [->|Hin].
  - rewrite (Hnil l); [apply app_nil_r|]. intros y Hy. apply Hz; [right; exact Hy|]. intros ->. contradiction.
  - rewrite (Hz a); [|left; reflexivity|intros ->; contradiction]. cbn. apply IH; [assumption|assumption|].
    intros y Hy. apply Hz. right. exact Hy.
Qed.

Lemma upd_pass_nf : forall g cols rows cv, cols_ok g cols ->
  flat_map (upd_pass_col cols rows cv) cols =
  (if is_manual g then [EInvalidate trc (Rows rows) true] else []) ++
  (if memz trc (keys cv) && selfdep g then [EPrevent trc rows false] else []).
Proof.
  intros g cols rows cv Hok.
  rewrite (flat_map_only _ _ _ cols (trigger_col g)).
  - unfold upd_pass_col. cbn [trigger_col ci_is_formula ci_has_formula ci_id orb negb].
    rewrite (get_column_trc g cols Hok), bridge_recalcOnChangesToSelf. cbn [trigger_col ci_recalcWhen].
    rewrite when_code_manual. reflexivity.
  - apply (NoDup_map_inv ci_id). apply (ok_nodup _ _ Hok).
  - apply (ok_trig _ _ Hok).
  - intros y Hy Hne. unfold upd_pass_col.
    assert (Hid : ci_id y <> trc). { intros He. apply Hne. apply (trc_col_unique g cols y Hok Hy He). }
    destruct (ok_single _ _ Hok y Hy Hid) as [H|H]; rewrite H; [reflexivity|]. rewrite orb_true_r. reflexivity.
Qed.

(* ---------------------------------------------------------------- BRIDGE 5: Engine.trim_update_action *)
(* the model's records (row, values by column) in the columnar form of a Bulk action *)
Definition vals (recs : list wrec) (c : Z) : list Z := map (fun w => wval w c) recs.
Definition columnar (cols0 : list Z) (recs : list wrec) : bulk_action := (ids recs, map (fun c => (c, vals recs c)) cols0).

Definition differs (raw_get : Z -> Z -> Z) (kv : Z * list Z) (p : nat * Z) : bool :=
  negb (znth (snd kv) (fst p) =? raw_get (fst kv) (snd p)).

Definition trim_nf (raw_get : Z -> Z -> Z) (rows : list Z) (cv : list (Z * list Z)) : bulk_action :=
  let cols := filter (fun kv => existsb (differs raw_get kv) (enumerate rows)) cv in
  let sub := map fst (filter (fun p => existsb (fun kv => differs raw_get kv p) cols) (enumerate rows)) in
  (map (znth rows) sub, map (fun kv => (fst kv, map (znth (snd kv)) sub)) cols).

Lemma map_pair_id : forall (A B : Type) (l : list (A * B)), map (fun '(a, b) => (a, b)) l = l.
Proof. intros. induction l as [|[a b] l IH]; [reflexivity|]. cbn. rewrite IH. reflexivity. Qed.

Lemma trim_gen_nf : forall raw_get rows cv, gen_trim_update_action raw_get (rows, cv) = trim_nf raw_get rows cv.
Proof.
  intros. unfold gen_trim_update_action, trim_nf. cbv zeta. cbn [act_rows act_cols fst snd].
  rewrite !map_pair_id.
  assert (Hc : filter (fun '(col_obj, values) => existsb (fun '(i, row_id) => negb (znth values i =? raw_get col_obj row_id))
                                                          (enumerate rows)) cv =
               filter (fun kv => existsb (differs raw_get kv) (enumerate rows)) cv).
  { apply filter_ext. intros [c v]. apply existsb_ext'. intros [i r]. reflexivity. }
  rewrite Hc. set (cols := filter _ cv).
  assert (Hs : map (fun '(i, _) => i)
                   (filter (fun '(i, row_id) => existsb (fun '(col_obj, values) => negb (znth values i =? raw_get col_obj row_id)) cols)
                           (enumerate rows)) =
               map fst (filter (fun p => existsb (fun kv => differs raw_get kv p) cols) (enumerate rows))).
  { rewrite (filter_ext _ (fun p => existsb (fun kv => differs raw_get kv p) cols)).
    - apply map_ext. intros [i r]. reflexivity.
    - intros [i r]. apply existsb_ext'. intros [c v]. reflexivity. }
  rewrite Hs. f_equal. apply map_ext. intros [c v]. reflexivity.
Qed.

(* position j of the columnar values of (pre ++ w :: rest) is w's value *)
Lemma znth_vals_middle : forall pre w rest c, znth (vals (pre ++ w :: rest) c) (length pre) = wval w c.
Proof.
  intros. unfold znth, vals. rewrite map_app. rewrite app_nth2; rewrite map_length; [|lia].
  rewrite Nat.sub_diag. reflexivity.
Qed.
Lemma znth_ids_middle : forall pre w rest, znth (ids (pre ++ w :: rest)) (length pre) = fst w.
Proof.
  intros. unfold znth, ids. rewrite map_app. rewrite app_nth2; rewrite map_length; [|lia].
  rewrite Nat.sub_diag. reflexivity.
Qed.

Lemma snoc_shift : forall (pre : list wrec) w rest, (pre ++ [w]) ++ rest = pre ++ w :: rest /\ length (pre ++ [w]) = S (length pre).
Proof. intros. split; [rewrite <- app_assoc; reflexivity | rewrite app_length; cbn; lia]. Qed.

(* "some row differs in column c" = the model's test, for the rows from position |pre| on *)
Lemma enum_exists : forall t c recs pre,
  existsb (differs (fun col r => cell t r col) (c, vals (pre ++ recs) c)) (combine (seq (length pre) (length recs)) (ids recs)) =
  existsb (fun w => changed t w c) recs.
Proof.
  intros t c recs. induction recs as [|w recs IH]; intros pre; [reflexivity|].
  cbn [length seq ids map combine existsb]. fold (ids recs). f_equal.
  - unfold differs. cbn [fst snd]. rewrite znth_vals_middle. reflexivity.
  - destruct (snoc_shift pre w recs) as [E L]. rewrite <- E, <- L. apply IH.
Qed.

Lemma filter_map_comm : forall (A B : Type) (f : A -> B) (p : B -> bool) l,
  filter p (map f l) = map f (filter (fun x => p (f x)) l).
Proof.
  intros. induction l as [|x l IH]; [reflexivity|]. cbn. destruct (p (f x)); cbn; rewrite IH; reflexivity.
Qed.

Lemma trim_cols_bridge : forall t cols0 recs,
  filter (fun kv => existsb (differs (fun col r => cell t r col) kv) (enumerate (ids recs)))
         (map (fun c => (c, vals recs c)) cols0) =
  map (fun c => (c, vals recs c)) (trim_cols t cols0 recs).
Proof.
  intros. rewrite filter_map_comm. unfold trim_cols. f_equal. apply filter_ext. intros c.
  unfold enumerate. unfold ids at 1. rewrite map_length. fold (ids recs). apply (enum_exists t c recs []).
Qed.

Lemma rows_sub_bridge : forall t cols' recs0 pre,
  map (znth (ids (pre ++ recs0)))
      (map fst (filter (fun p => existsb (fun c => differs (fun col r => cell t r col) (c, vals (pre ++ recs0) c) p) cols')
                       (combine (seq (length pre) (length recs0)) (ids recs0)))) =
  ids (filter (fun w => existsb (changed t w) cols') recs0).
Proof.
  intros t cols' recs0. induction recs0 as [|w recs IH]; intros pre; [reflexivity|].
  cbn [length seq ids map combine filter]. fold (ids recs).
  assert (Hp : existsb (fun c => differs (fun col r => cell t r col) (c, vals (pre ++ w :: recs) c) (length pre, fst w)) cols' =
               existsb (changed t w) cols').
  { apply existsb_ext'. intros c. unfold differs. cbn [fst snd]. rewrite znth_vals_middle. reflexivity. }
  rewrite Hp. destruct (snoc_shift pre w recs) as [E L]. specialize (IH (pre ++ [w])). rewrite E, L in IH.
  destruct (existsb (changed t w) cols'); cbn [map fst ids]; fold (ids (filter (fun w0 => existsb (changed t w0) cols') recs)).
  - rewrite znth_ids_middle. f_equal. exact IH.
  - exact IH.
Qed.

Theorem bridge_trim_update_action : forall t cols0 recs,
  let a' := gen_trim_update_action (fun col r => cell t r col) (columnar cols0 recs) in
  act_rows a' = ids (trim_recs t (trim_cols t cols0 recs) recs) /\ keys (act_cols a') = trim_cols t cols0 recs.
Proof.
  intros t cols0 recs. unfold columnar. rewrite trim_gen_nf. unfold trim_nf. cbv zeta.
  rewrite trim_cols_bridge. cbn [act_rows act_cols fst snd]. split.
  - rewrite (filter_ext _ (fun p => existsb (fun c => differs (fun col r => cell t r col) (c, vals recs c) p) (trim_cols t cols0 recs))).
    + unfold enumerate. unfold ids at 2. rewrite map_length. fold (ids recs).
      apply (rows_sub_bridge t (trim_cols t cols0 recs) recs []).
    + intros p. apply existsb_map'.
  - unfold keys. rewrite !map_map. cbn [fst]. apply map_id.
Qed.

(* the trimmed action a' is what trim_update_action returns for (cols0, recs) on table t *)
Lemma bridge_doBulkUpdateRecord_trimmed : forall g cols t m cols0 recs a',
  cols_ok g cols -> fx_trim (fx g) = false ->
  act_rows a' = ids (trim_recs t (trim_cols t cols0 recs) recs) -> keys (act_cols a') = trim_cols t cols0 recs ->
  (forall c, In c cols0 -> In c (map ci_id cols)) ->
  meq (run_effs g m (gen_doc_BulkUpdateRecord cols (act_rows a') (act_cols a') ++
                     (if nonempty (act_cols a') then flat_map (upd_pass_col cols (act_rows a') (act_cols a')) cols else [])))
      (mech_user g t m (UUpd cols0 recs)).
Proof.
  intros g cols t m cols0 recs a' Hok Hfx Hr Hk Hc0. cbn [mech_user].
  set (cols' := trim_cols t cols0 recs) in *. set (recs' := trim_recs t cols' recs) in *.
  assert (Hks : forall c, In c (keys (act_cols a')) -> In c (map ci_id cols)).
  { intros c Hc. rewrite Hk in Hc. apply trim_cols_In in Hc. apply Hc0. tauto. }
  rewrite run_effs_app, Hr.
  pose proof (bridge_doc_BulkUpdateRecord g cols m (act_cols a') recs' Hok Hks) as HD. rewrite Hk in HD.
  assert (Hne : nonempty (act_cols a') = nonnil cols').
  { rewrite <- Hk. unfold keys. destruct (act_cols a'); reflexivity. }
  rewrite Hne, (upd_pass_nf g cols (ids recs') (act_cols a') Hok), Hk.
  set (T := (if nonnil cols' then _ else [])).
  pose proof (run_effs_meq g T _ _ HD) as HT. eapply meq_trans; [exact HT|]. clear HT HD.
  set (m1 := mech_doc g m (DUpd cols' recs')). unfold T. clear T.
  destruct (nonnil cols') eqn:En; cbn [andb].
  2: { cbn [run_effs fold_left]. repeat split; cbn [dirty prevent]; intros r; unfold set_or; cbn [andb];
       rewrite ?orb_false_r, ?Hfx; cbn [andb negb]; rewrite ?orb_false_r, ?andb_true_r; reflexivity. }
  destruct (is_manual g) eqn:Em; destruct (memz trc cols' && selfdep g) eqn:Es;
    cbn [app run_effs fold_left run_eff]; rewrite ?Z.eqb_refl;
    repeat split; cbn [dirty prevent stale fstale]; intros r; unfold set_or; rewrite ?Hfx; cbn [andb orb negb];
    rewrite ?bridge_prevent_recalc, ?orb_false_r, ?andb_true_r; try reflexivity.
  all: cbn [rows_mem gen_get_affected_rows is_all_rows]; change (zmem r (ids recs')) with (memz r (ids recs')).
  all: try (apply andb_true_iff in Es; destruct Es as [Es1 Es2]; rewrite Es1, Es2).
  all: try (destruct (prevent m1 r); unfold zmem; cbn [existsb]; rewrite ?Z.eqb_refl;
            destruct (memz r (ids recs')); reflexivity).
  all: try (destruct (dirty m1 r); destruct (reach g m1 trc); destruct (memz r (ids recs')); reflexivity).
Qed.
