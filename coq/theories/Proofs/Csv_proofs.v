(* Proofs about the CSV importer model (C32).  Model/Csv.v is hand-written and compared with the running
   importer on every run; nothing here depends on the oracle `isnum` (_is_numeric). *)
From Coq Require Import ZArith List Bool Arith Lia Sorted.
Import ListNotations.
Require Import Grist.Model.Csv.

(* ---- lists ------------------------------------------------------------------------------------- *)

Lemma In_skipn : forall {A} n (l : list A) x, In x (skipn n l) -> In x l.
Proof.
  intros A n l x H. rewrite <- (firstn_skipn n l). apply in_or_app. right. exact H.
Qed.

Lemma In_firstn : forall {A} n (l : list A) x, In x (firstn n l) -> In x l.
Proof.
  intros A n l x H. rewrite <- (firstn_skipn n l). apply in_or_app. left. exact H.
Qed.

Lemma In_skipn_split : forall {A} (l : list A) a n x,
  In x (skipn a l) -> In x (skipn a (firstn n l)) \/ In x (skipn n l).
Proof.
  induction l as [|y l IH]; intros a n x H.
  - destruct a; contradiction.
  - destruct a as [|a].
    + cbn [skipn] in H |- *. rewrite <- (firstn_skipn n (y :: l)) in H. apply in_app_or in H. exact H.
    + cbn [skipn] in H. destruct n as [|n].
      * right. cbn [skipn]. right. eapply In_skipn. exact H.
      * cbn [firstn skipn]. apply IH. exact H.
Qed.

Lemma nth_error_seq : forall n s i, nth_error (seq s n) i = if i <? n then Some (s + i) else None.
Proof.
  induction n as [|n IH]; intros s i.
  - destruct i; reflexivity.
  - destruct i as [|i]; cbn [seq nth_error].
    + rewrite Nat.add_0_r. reflexivity.
    + rewrite IH. change (S i <? S n) with (i <? n). destruct (i <? n); [f_equal; lia | reflexivity].
Qed.

Lemma hd_error_firstn : forall {A} n (l : list A), hd_error (firstn (S n) l) = hd_error l.
Proof. intros A n [|x l]; reflexivity. Qed.

(* ---- cells ------------------------------------------------------------------------------------- *)

Lemma nonblank_not_nil : forall c, empty c = false -> is_nil c = false.
Proof. intros [|x c] H; [discriminate H | reflexivity]. Qed.

Lemma count_nonempty_le_length : forall r, count_nonempty r <= length r.
Proof.
  induction r as [|c t IH]; cbn [count_nonempty length]; [lia|].
  destruct ((count_nonempty t =? 0) && empty c); lia.
Qed.

(* a non-blank cell lies below the trimmed length *)
Lemma nonblank_lt_count : forall r j c,
  nth_error r j = Some c -> empty c = false -> j < count_nonempty r.
Proof.
  induction r as [|x t IH]; intros j c Hn He.
  - destruct j; discriminate Hn.
  - cbn [count_nonempty]. destruct j as [|j]; cbn [nth_error] in Hn.
    + inversion Hn; subst x. rewrite He, andb_false_r. lia.
    + specialize (IH _ _ Hn He).
      destruct (count_nonempty t =? 0) eqn:E; [apply Nat.eqb_eq in E; lia|]. cbn [andb]. lia.
Qed.

(* and the cell just below the trimmed length is non-blank *)
Lemma count_nonempty_last : forall r j,
  count_nonempty r = S j -> exists c, nth_error r j = Some c /\ empty c = false.
Proof.
  induction r as [|x t IH]; intros j H; [discriminate H|].
  cbn [count_nonempty] in H.
  destruct (count_nonempty t =? 0) eqn:E; cbn [andb] in H.
  - apply Nat.eqb_eq in E. destruct (empty x) eqn:Ex; [discriminate H|].
    rewrite E in H. inversion H; subst j. exists x. split; [reflexivity | exact Ex].
  - apply Nat.eqb_neq in E. destruct j as [|j]; [lia|].
    injection H as H'. destruct (IH _ H') as [c [Hc Hec]]. exists c. split; [exact Hc | exact Hec].
Qed.

(* ---- build_columns / get_table_data --------------------------------------------------------------- *)

Lemma build_columns_In : forall cols headers k col,
  In col (build_columns k cols headers) ->
  exists i d h, nth_error cols i = Some d /\ nth_error headers i = Some h /\
                col = {| c_index := k + i; c_id := h; c_data := d |} /\
                is_nil h && forallb is_nil d = false.
Proof.
  induction cols as [|d cols IH]; intros headers k col H; [contradiction|].
  destruct headers as [|h headers]; [contradiction|].
  cbn [build_columns] in H.
  destruct (is_nil h && forallb is_nil d) eqn:E.
  - destruct (IH _ _ _ H) as [i [d' [h' [H1 [H2 [H3 H4]]]]]].
    exists (S i), d', h'. repeat split; try assumption. rewrite H3. f_equal. lia.
  - destruct H as [H|H].
    + exists 0, d, h. repeat split; try assumption. rewrite <- H. f_equal. lia.
    + destruct (IH _ _ _ H) as [i [d' [h' [H1 [H2 [H3 H4]]]]]].
      exists (S i), d', h'. repeat split; try assumption. rewrite H3. f_equal. lia.
Qed.

Lemma build_columns_complete : forall cols headers k i d h,
  nth_error cols i = Some d -> nth_error headers i = Some h ->
  is_nil h && forallb is_nil d = false ->
  In {| c_index := k + i; c_id := h; c_data := d |} (build_columns k cols headers).
Proof.
  induction cols as [|d0 cols IH]; intros headers k i d h H1 H2 H3.
  - destruct i; discriminate H1.
  - destruct headers as [|h0 headers]; [destruct i; discriminate H2|].
    cbn [build_columns]. destruct i as [|i]; cbn [nth_error] in H1, H2.
    + inversion H1; inversion H2; subst. rewrite H3. left. f_equal. lia.
    + assert (Hin : In {| c_index := S k + i; c_id := h; c_data := d |} (build_columns (S k) cols headers))
        by (apply IH; assumption).
      replace (k + S i) with (S k + i) by lia.
      destruct (is_nil h0 && forallb is_nil d0); [exact Hin | right; exact Hin].
Qed.

Lemma build_columns_ge : forall cols headers k col,
  In col (build_columns k cols headers) -> k <= c_index col.
Proof.
  intros cols headers k col H. destruct (build_columns_In _ _ _ _ H) as [i [d [h [_ [_ [E _]]]]]].
  rewrite E. cbn. lia.
Qed.

Lemma build_columns_sorted : forall cols headers k,
  StronglySorted lt (map c_index (build_columns k cols headers)).
Proof.
  induction cols as [|d cols IH]; intros headers k; [constructor|].
  destruct headers as [|h headers]; [constructor|].
  cbn [build_columns]. destruct (is_nil h && forallb is_nil d); [apply IH|].
  cbn [map c_index]. constructor; [apply IH|].
  apply Forall_forall. intros x Hx. apply in_map_iff in Hx. destruct Hx as [col [E Hc]].
  apply build_columns_ge in Hc. lia.
Qed.

Lemma nth_error_get_table_data : forall rows n i,
  nth_error (get_table_data rows n) i = if i <? n then Some (map (fun r => nth i r []) rows) else None.
Proof.
  intros rows n i. unfold get_table_data. rewrite nth_error_map, nth_error_seq.
  destruct (i <? n); reflexivity.
Qed.

(* every output column: its index is below the width, its data is that input column (padded), its id is
   the header at that index *)
Lemma table_column_verbatim : forall rows headers col,
  In col (build_columns 0 (get_table_data rows (length headers)) headers) ->
  c_index col < length headers /\
  c_data col = map (fun r => nth (c_index col) r []) rows /\
  nth_error headers (c_index col) = Some (c_id col).
Proof.
  intros rows headers col H.
  destruct (build_columns_In _ _ _ _ H) as [i [d [h [H1 [H2 [E _]]]]]].
  rewrite nth_error_get_table_data in H1. subst col. cbn [c_index c_data c_id Nat.add].
  destruct (i <? length headers) eqn:Hi; [|discriminate H1].
  apply Nat.ltb_lt in Hi. inversion H1. auto.
Qed.

(* ---- the heart of C32: cells are kept exactly when every data row fits the width ------------------- *)

Lemma cells_kept_of_fit : forall rows headers,
  (forall r, In r rows -> count_nonempty r <= length headers) ->
  cells_kept rows (build_columns 0 (get_table_data rows (length headers)) headers).
Proof.
  intros rows headers Hfit. split.
  - intros col Hc. destruct (table_column_verbatim _ _ _ Hc) as [_ [E _]]. rewrite E. apply map_length.
  - intros i j r c Hr Hc He.
    assert (Hj : j < length headers).
    { specialize (Hfit r (nth_error_In _ _ Hr)). pose proof (nonblank_lt_count _ _ _ Hc He). lia. }
    destruct (nth_error headers j) as [h|] eqn:Hh; [|apply nth_error_None in Hh; lia].
    set (d := map (fun r0 : row => nth j r0 []) rows).
    assert (Hdi : nth_error d i = Some c).
    { unfold d. rewrite (map_nth_error _ _ _ Hr). f_equal. apply nth_error_nth. exact Hc. }
    exists {| c_index := j; c_id := h; c_data := d |}. repeat split; [|exact Hdi].
    change j with (0 + j) at 1. apply build_columns_complete.
    + rewrite nth_error_get_table_data. apply Nat.ltb_lt in Hj. rewrite Hj. reflexivity.
    + exact Hh.
    + apply andb_false_iff. right.
      destruct (forallb is_nil d) eqn:F; [|reflexivity].
      rewrite forallb_forall in F. specialize (F c (nth_error_In _ _ Hdi)).
      rewrite (nonblank_not_nil _ He) in F. discriminate F.
Qed.

Lemma fit_of_cells_kept : forall rows headers r,
  cells_kept rows (build_columns 0 (get_table_data rows (length headers)) headers) ->
  In r rows -> count_nonempty r <= length headers.
Proof.
  intros rows headers r [_ Hk] Hr.
  destruct (le_lt_dec (count_nonempty r) (length headers)) as [Hle|Hlt]; [exact Hle|exfalso].
  destruct (count_nonempty r) as [|j] eqn:Ec; [lia|].
  destruct (count_nonempty_last _ _ Ec) as [c [Hc He]].
  destruct (In_nth_error _ _ Hr) as [i Hi].
  destruct (Hk _ _ _ _ Hi Hc He) as [col [Hin [Hidx _]]].
  destruct (table_column_verbatim _ _ _ Hin) as [Hlt' _]. lia.
Qed.

Lemma cells_kept_fit_iff : forall rows headers,
  cells_kept rows (build_columns 0 (get_table_data rows (length headers)) headers) <->
  rows_fit (length headers) rows = true.
Proof.
  intros rows headers. unfold rows_fit. rewrite forallb_forall. split.
  - intros H r Hr. apply Nat.leb_le. eapply fit_of_cells_kept; eassumption.
  - intros H. apply cells_kept_of_fit. intros r Hr. apply Nat.leb_le. apply H. exact Hr.
Qed.

(* ---- widths -------------------------------------------------------------------------------------- *)

Lemma expand_headers_length : forall hs off rows,
  length (expand_headers hs off rows) =
  Nat.max (length hs) (list_max (map count_nonempty (skipn off rows))).
Proof.
  intros. unfold expand_headers. rewrite app_length, map_length, repeat_length. lia.
Qed.

Lemma expand_headers_ge : forall hs off rows, length hs <= length (expand_headers hs off rows).
Proof. intros. rewrite expand_headers_length. lia. Qed.

Lemma expand_headers_covers : forall hs off rows r,
  In r (skipn off rows) -> count_nonempty r <= length (expand_headers hs off rows).
Proof.
  intros hs off rows r Hr. rewrite expand_headers_length.
  assert (H : list_max (map count_nonempty (skipn off rows)) <= list_max (map count_nonempty (skipn off rows)))
    by lia.
  apply list_max_le in H. rewrite Forall_forall in H.
  specialize (H (count_nonempty r) (in_map count_nonempty _ _ Hr)). lia.
Qed.

Lemma take_rows_In : forall n rows r, In r (take_rows n rows) -> In r rows.
Proof.
  intros n rows r H. unfold take_rows in H. destruct (0 <? n)%Z; [eapply In_firstn; exact H | exact H].
Qed.

Lemma any_header_repeat : forall n, any_header (repeat [] n) = false.
Proof. induction n as [|n IH]; [reflexivity | exact IH]. Qed.

(* ---- the repaired importer ------------------------------------------------------------------------ *)

Lemma statement_iff : forall repaired isnum g o,
  C32_statement repaired isnum g o <->
  rows_fit (csv_width repaired isnum g o) (csv_data_rows isnum g o) = true.
Proof.
  intros. unfold C32_statement, import_csv_gen, csv_width. apply cells_kept_fit_iff.
Qed.

Lemma repaired_keeps_cells : forall isnum g o, C32_statement true isnum g o.
Proof.
  intros isnum g o. unfold C32_statement, import_csv_gen. apply cells_kept_of_fit.
  intros r Hr. unfold csv_data_rows, csv_offset in Hr. apply take_rows_In in Hr.
  unfold csv_headers. destruct (header_decision isnum o g) as [off hs]. cbn [fst] in Hr.
  unfold widen. apply expand_headers_covers. exact Hr.
Qed.

(* ---- column_count_modal: its value is 0 or the number of non-empty cells (>= 2) of some row ------- *)

Lemma bump_In : forall k cs k' n', In (k', n') (bump k cs) -> k' = k \/ exists n'', In (k', n'') cs.
Proof.
  induction cs as [|[k0 n0] cs IH]; intros k' n' H; cbn [bump] in H.
  - destruct H as [H|[]]. inversion H. left; reflexivity.
  - destruct (k =? k0) eqn:E.
    + destruct H as [H|H].
      * inversion H; subst. right. exists n0. left. reflexivity.
      * right. exists n'. right. exact H.
    + destruct H as [H|H].
      * inversion H; subst. right. exists n'. left. reflexivity.
      * destruct (IH _ _ H) as [->|[n'' Hn]]; [left; reflexivity | right; exists n''; right; exact Hn].
Qed.

Definition key_ok (rows : grid) (k : nat) : Prop := 2 <= k /\ exists r, In r rows /\ nonempty_cells r = k.

Lemma modal_counts_keys : forall rows k n, In (k, n) (modal_counts rows) -> key_ok rows k.
Proof.
  intros rows. unfold modal_counts.
  assert (G : forall l cs, (forall k n, In (k, n) cs -> key_ok rows k) -> (forall r, In r l -> In r rows) ->
              forall k n, In (k, n) (fold_left (fun cs r => let l := nonempty_cells r in
                                                           if 1 <? l then bump l cs else cs) l cs) ->
              key_ok rows k).
  { induction l as [|r l IH]; intros cs Hcs Hl k n H; cbn [fold_left] in H.
    - eapply Hcs; exact H.
    - eapply IH; [| |exact H].
      + intros k' n' H'. cbv zeta in H'. destruct (1 <? nonempty_cells r) eqn:E.
        * destruct (bump_In _ _ _ _ H') as [->|[n'' Hn]].
          -- split; [apply Nat.ltb_lt in E; lia|]. exists r. split; [apply Hl; left; reflexivity|reflexivity].
          -- eapply Hcs; exact Hn.
        * eapply Hcs; exact H'.
      + intros r' Hr'. apply Hl. right. exact Hr'. }
  intros k n H. eapply G; [| |exact H]; [intros ? ? []|auto].
Qed.

Lemma first_max_In : forall l best, In (first_max best l) (best :: l).
Proof.
  induction l as [|kv l IH]; intros best; cbn [first_max]; [left; reflexivity|].
  destruct (snd best <? snd kv).
  - destruct (IH kv) as [H|H]; [right; left; exact H | right; right; exact H].
  - destruct (IH best) as [H|H]; [left; exact H | right; right; exact H].
Qed.

Lemma modal_zero_or_key : forall rows,
  column_count_modal rows = 0 \/ key_ok rows (column_count_modal rows).
Proof.
  intros rows. unfold column_count_modal.
  destruct (modal_counts rows) as [|kv t] eqn:E; [left; reflexivity|right].
  pose proof (first_max_In t kv) as H. rewrite <- E in H.
  destruct (first_max kv t) as [k n]. cbn [fst]. eapply modal_counts_keys. exact H.
Qed.

Lemma nonempty_cells_le_count : forall r, nonempty_cells r <= count_nonempty r.
Proof.
  unfold nonempty_cells. induction r as [|c t IH]; cbn [filter count_nonempty length]; [lia|].
  destruct (empty c) eqn:E; cbn [negb length].
  - rewrite andb_true_r. destruct (count_nonempty t =? 0) eqn:Z; [apply Nat.eqb_eq in Z|]; lia.
  - rewrite andb_false_r. lia.
Qed.

(* ---- find_first_non_empty_row --------------------------------------------------------------------- *)

Lemma ffner_from_spec : forall modal rows i off r,
  ffner_from modal i rows = (off, r) ->
  (off = 0 /\ r = [] /\ forall x, In x rows -> count_nonempty x < modal - 1) \/
  (exists k, off = S (i + k) /\ nth_error rows k = Some r /\ modal - 1 <= count_nonempty r /\
             forall k' x, k' < k -> nth_error rows k' = Some x -> count_nonempty x < modal - 1).
Proof.
  intros modal. induction rows as [|x rows IH]; intros i off r H; cbn [ffner_from] in H.
  - inversion H. left. repeat split. intros ? [].
  - destruct (modal - 1 <=? count_nonempty x) eqn:E.
    + inversion H; subst. right. exists 0. apply Nat.leb_le in E.
      repeat split; [f_equal; lia | exact E | intros k' y Hk; lia].
    + apply Nat.leb_gt in E. destruct (IH _ _ _ H) as [[H1 [H2 H3]]|[k [H1 [H2 [H3 H4]]]]].
      * left. repeat split; try assumption. intros y [<-|Hy]; [exact E | apply H3; exact Hy].
      * right. exists (S k). repeat split; [lia | exact H2 | exact H3 |].
        intros [|k'] y Hk Hy; cbn [nth_error] in Hy; [inversion Hy; subst; exact E|].
        eapply H4; [|exact Hy]. lia.
Qed.

(* the result of find_first_non_empty_row: nothing for an empty sample, else a row of the sample *)
Lemma ffner_spec : forall rows off r,
  find_first_non_empty_row rows = (off, r) ->
  (rows = [] /\ off = 0 /\ r = []) \/
  (exists k, off = S k /\ nth_error rows k = Some r /\
             (r = [] -> hd_error rows = Some [] /\ column_count_modal rows = 0)).
Proof.
  intros rows off r H. unfold find_first_non_empty_row in H.
  destruct (ffner_from_spec _ _ _ _ _ H) as [[H1 [H2 H3]]|[k [H1 [H2 [H3 H4]]]]].
  - left. destruct rows as [|x rows]; [auto|exfalso].
    destruct (modal_zero_or_key (x :: rows)) as [Z|[Hk [y [Hy Ey]]]].
    + specialize (H3 x (or_introl eq_refl)). lia.
    + specialize (H3 y Hy). pose proof (nonempty_cells_le_count y). lia.
  - right. exists k. split; [exact H1 | split; [exact H2 | intros ->]].
    cbn [count_nonempty] in H3.
    assert (Z : column_count_modal rows = 0).
    { destruct (modal_zero_or_key rows) as [Z|[Hk _]]; [exact Z | lia]. }
    split; [|exact Z].
    destruct k as [|k]; [destruct rows; [discriminate H2 | cbn in H2 |- *; exact H2]|].
    destruct rows as [|x rows]; [discriminate H2|].
    specialize (H4 0 x (Nat.lt_0_succ _) eq_refl). rewrite Z in H4. lia.
Qed.

Lemma skipn_nth_error_cons : forall {A} (l : list A) k x,
  nth_error l k = Some x -> skipn k l = x :: skipn (S k) l.
Proof.
  induction l as [|y l IH]; intros k x H; [destruct k; discriminate H|].
  destruct k as [|k]; cbn [nth_error] in H.
  - inversion H. reflexivity.
  - cbn [skipn]. rewrite (IH _ _ H). reflexivity.
Qed.

(* ---- the current importer: the width covers every data row of the sample --------------------------- *)

Definition covers (hs : list cell) (rows : grid) : Prop :=
  forall r, In r rows -> count_nonempty r <= length hs.

Lemma decision_covers : forall isnum o g off hs,
  header_decision isnum o g = (off, hs) ->
  ~ blank_first_row_case g o ->
  covers hs (skipn off (firstn sample_len g)).
Proof.
  intros isnum o g off hs H Hnb. unfold header_decision in H.
  set (sample := firstn sample_len g) in *.
  unfold headers_guess in H.
  destruct (find_first_non_empty_row sample) as [off0 header] eqn:Ef.
  destruct (ffner_spec _ _ _ Ef) as [[Hs [Ho Hh]]|[k [Ho [Hk Hblank]]]].
  - (* empty sample *)
    intros r Hr. rewrite Hs in Hr. destruct off; contradiction.
  - destruct header as [|h0 ht] eqn:Eh.
    + (* the candidate row is a blank line *)
      destruct (Hblank eq_refl) as [Hhd Hmod].
      cbn [any_header existsb negb andb] in H.
      assert (Ht : o_headers o = Some true).
      { destruct (o_headers o) as [[|]|] eqn:Eo; [reflexivity| |]; exfalso; apply Hnb;
          (split; [|split; [exact Hmod | congruence]]);
          unfold sample, sample_len in Hhd; rewrite hd_error_firstn in Hhd; exact Hhd. }
      rewrite Ht in H. cbn [andb] in H. inversion H; subst.
      intros r Hr. apply expand_headers_covers. exact Hr.
    + rewrite <- Eh in *. clear Eh h0 ht.
      destruct (is_header isnum header (skipn off0 sample)) eqn:Eis.
      * (* header accepted *)
        set (hs1 := expand_headers header off0 sample) in *.
        destruct ((match o_headers o with Some b => b | None => any_header hs1 end) && negb (any_header hs1)).
        -- inversion H; subst. intros r Hr. apply expand_headers_covers. exact Hr.
        -- destruct (negb (match o_headers o with Some b => b | None => any_header hs1 end) && any_header hs1).
           ++ inversion H; subst. intros r Hr. rewrite repeat_length.
              replace (S k - 1) with k in Hr by lia.
              rewrite (skipn_nth_error_cons _ _ _ Hk) in Hr. destruct Hr as [<-|Hr].
              ** pose proof (count_nonempty_le_length header) as Hc1.
                 pose proof (expand_headers_ge header (S k) sample) as Hc2. fold hs1 in Hc2. lia.
              ** apply (expand_headers_covers header). exact Hr.
           ++ inversion H; subst. intros r Hr. apply expand_headers_covers. exact Hr.
      * (* header rejected: all headers are "" *)
        set (hs1 := expand_headers [] (off0 - 1) sample) in *.
        assert (Hany : any_header hs1 = false).
        { unfold hs1, expand_headers. cbn [map app]. apply any_header_repeat. }
        rewrite Hany in H. rewrite andb_false_r in H. cbn [negb] in H. rewrite andb_true_r in H.
        destruct (match o_headers o with Some b => b | None => false end).
        -- inversion H; subst. intros r Hr. apply expand_headers_covers. exact Hr.
        -- inversion H; subst. intros r Hr. apply expand_headers_covers. exact Hr.
Qed.

Lemma current_keeps_cells : forall isnum g o,
  late_rows_fit isnum g o -> ~ blank_first_row_case g o -> C32_statement false isnum g o.
Proof.
  intros isnum g o Hlate Hnb. unfold C32_statement, import_csv_gen. apply cells_kept_of_fit.
  intros r Hr. unfold csv_data_rows, csv_offset in Hr. apply take_rows_In in Hr.
  unfold late_rows_fit, csv_width in Hlate. unfold csv_headers in *.
  destruct (header_decision isnum o g) as [off hs] eqn:Ed. cbn [fst widen] in *.
  destruct (In_skipn_split _ _ sample_len _ Hr) as [H|H].
  - eapply decision_covers; eassumption.
  - rewrite Forall_forall in Hlate. apply Hlate. exact H.
Qed.

(* the first hypothesis is implied by "the file has at most 100 rows" *)
Lemma short_grid_late_rows_fit : forall isnum g o, length g <= sample_len -> late_rows_fit isnum g o.
Proof.
  intros isnum g o H. unfold late_rows_fit. rewrite skipn_all2 by exact H. constructor.
Qed.

(* ---- unconditional facts about the output ----------------------------------------------------------- *)

Lemma columns_rectangular : forall repaired isnum g o col,
  In col (import_csv_gen repaired isnum g o) -> length (c_data col) = length (csv_data_rows isnum g o).
Proof.
  intros repaired isnum g o col H. unfold import_csv_gen in H.
  destruct (table_column_verbatim _ _ _ H) as [_ [E _]]. rewrite E. apply map_length.
Qed.

Lemma columns_verbatim : forall repaired isnum g o col,
  In col (import_csv_gen repaired isnum g o) ->
  c_index col < csv_width repaired isnum g o /\
  c_data col = map (fun r => nth (c_index col) r []) (csv_data_rows isnum g o) /\
  nth_error (csv_headers repaired isnum g o) (c_index col) = Some (c_id col).
Proof.
  intros repaired isnum g o col H. unfold import_csv_gen in H. unfold csv_width.
  apply table_column_verbatim. exact H.
Qed.

Lemma columns_in_order : forall repaired isnum g o,
  StronglySorted lt (map c_index (import_csv_gen repaired isnum g o)).
Proof. intros. unfold import_csv_gen. apply build_columns_sorted. Qed.

(* a column with a header text or a non-"" data cell, inside the width, is never removed *)
Lemma column_kept : forall repaired isnum g o j h,
  nth_error (csv_headers repaired isnum g o) j = Some h ->
  is_nil h = false \/ (exists r, In r (csv_data_rows isnum g o) /\ is_nil (nth j r []) = false) ->
  In {| c_index := j; c_id := h; c_data := map (fun r => nth j r []) (csv_data_rows isnum g o) |}
     (import_csv_gen repaired isnum g o).
Proof.
  intros repaired isnum g o j h Hh Hkeep. unfold import_csv_gen.
  change j with (0 + j) at 1. apply build_columns_complete; [|exact Hh|].
  - rewrite nth_error_get_table_data.
    assert (Hj : j < length (csv_headers repaired isnum g o)) by (apply nth_error_Some; congruence).
    apply Nat.ltb_lt in Hj. rewrite Hj. reflexivity.
  - apply andb_false_iff. destruct Hkeep as [Hn|[r [Hr Hn]]]; [left; exact Hn|right].
    destruct (forallb is_nil _) eqn:F; [|reflexivity].
    rewrite forallb_forall in F. rewrite (F (nth j r [])) in Hn; [discriminate Hn|].
    apply in_map_iff. exists r. split; [reflexivity | exact Hr].
Qed.

(* ---- narrowness: without NUM_ROWS, late_rows_fit is also necessary ---------------------------------- *)

Lemma In_skipn_le : forall {A} (l : list A) a n x, a <= n -> In x (skipn n l) -> In x (skipn a l).
Proof.
  induction l as [|y l IH]; intros a n x Hle H.
  - destruct n; contradiction.
  - destruct a as [|a]; [eapply In_skipn; exact H|].
    destruct n as [|n]; [lia|]. cbn [skipn] in *. eapply IH; [|exact H]. lia.
Qed.

Lemma ffner_offset_le : forall rows off r, find_first_non_empty_row rows = (off, r) -> off <= length rows.
Proof.
  intros rows off r H. destruct (ffner_spec _ _ _ H) as [[_ [-> _]]|[k [-> [Hk _]]]]; [lia|].
  assert (k < length rows) by (apply nth_error_Some; congruence). lia.
Qed.

Lemma decision_offset_le : forall isnum o g off hs,
  header_decision isnum o g = (off, hs) -> off <= sample_len.
Proof.
  intros isnum o g off hs H. unfold header_decision, headers_guess in H.
  destruct (find_first_non_empty_row (firstn sample_len g)) as [off0 header] eqn:Ef.
  pose proof (ffner_offset_le _ _ _ Ef) as Hle.
  pose proof (firstn_le_length sample_len g) as Hlen.
  assert (Hgoal : forall a, a <= off0 -> a <= sample_len) by (intros; lia).
  destruct header as [|h0 ht].
  - destruct (_ && negb (any_header [])); [inversion H; subst; auto|].
    destruct (_ && any_header []); inversion H; subst; apply Hgoal; lia.
  - destruct (is_header isnum (h0 :: ht) (skipn off0 (firstn sample_len g)));
      (destruct (_ && negb (any_header _)); [inversion H; subst; auto|]);
      (destruct (_ && any_header _); inversion H; subst; apply Hgoal; lia).
Qed.

Lemma late_rows_fit_necessary : forall isnum g o,
  (o_num_rows o <= 0)%Z -> C32_statement false isnum g o -> late_rows_fit isnum g o.
Proof.
  intros isnum g o Hn H. apply statement_iff in H. unfold rows_fit in H. rewrite forallb_forall in H.
  unfold late_rows_fit. apply Forall_forall. intros r Hr. apply Nat.leb_le. apply H.
  unfold csv_data_rows, take_rows. replace (0 <? o_num_rows o)%Z with false by (symmetry; apply Z.ltb_ge; exact Hn).
  unfold csv_offset. destruct (header_decision isnum o g) as [off hs] eqn:Ed. cbn [fst].
  pose proof (decision_offset_le _ _ _ _ _ Ed) as Hoff.
  eapply In_skipn_le; eassumption.
Qed.

(* ---- decision procedures for the hypotheses, witnesses ---------------------------------------------- *)

Lemma late_rows_fit_dec : forall isnum g o,
  rows_fit (csv_width false isnum g o) (skipn sample_len g) = true -> late_rows_fit isnum g o.
Proof.
  intros isnum g o H. unfold rows_fit in H. rewrite forallb_forall in H.
  unfold late_rows_fit. apply Forall_forall. intros r Hr. apply Nat.leb_le. apply H. exact Hr.
Qed.

Definition no_numbers (c : cell) : bool := false.
Definition default_options : options := {| o_headers := None; o_num_rows := 0 |}.
Definition s (c : Z) : cell := [c].

(* 100 rows `a,b` then one row `x,y,z` *)
Definition late_wide_witness : grid := repeat [s 97; s 98] 100 ++ [[s 120; s 121; s 122]].
(* a blank first line, then single-column data *)
Definition blank_first_witness : grid := [[]; [s 97]; [s 98]].
(* header, a three-cell row inside the sample, a three-cell row after it *)
Definition fitting_example : grid :=
  [[78; 97; 109; 101]; [67; 105; 116; 121]]%Z :: repeat [s 97; s 98] 4 ++ [[s 97; s 98; s 99]] ++
  repeat [s 97; s 98] 95 ++ [[s 120; s 121; s 122]].

Lemma late_wide_refutes : ~ C32_statement false no_numbers late_wide_witness default_options.
Proof. intro H. apply statement_iff in H. vm_compute in H. discriminate H. Qed.

Lemma blank_first_refutes : ~ C32_statement false no_numbers blank_first_witness default_options.
Proof. intro H. apply statement_iff in H. vm_compute in H. discriminate H. Qed.
