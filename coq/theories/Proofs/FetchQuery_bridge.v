(* C41 -- bridging: Engine.fetch_table as translated from /repo on every run (GristGen.FetchQuery_gen.fetch_table)
   equals the hand model Model/FetchQuery.fetch.  The loop lemmas take the loop body up to pointwise equality, so
   they apply to whatever variable names the translator generates; an edit of the Python source that changes what a
   loop does makes the side condition (or the final rewriting) fail. *)
From Coq Require Import ZArith List Bool Lia.
Import ListNotations.
Require Import Grist.Lib.PyVal Grist.Lib.PyImp Grist.Model.FetchQuery Grist.Model.FetchQueryPy.
Require Import Grist.Proofs.FetchQuery_proofs GristGen.FetchQuery_gen.
Open Scope Z_scope.

Definition lift (r : result table_data) : exc table_data :=
  match r with Ok x => Val x | ErrKeyError c => Exn (KeyError c) end.

(* ---- loop 1: for col_id, values in query.items() *)
Definition q_body (t : table) (x : str * qvalues) (st : list (column * qvalues)) : exc (ctrl * list (column * qvalues)) :=
  bind (py_get_column t (fst x)) (fun col =>
  py_try (py_set_of (snd x)) CTypeError (fun v => Val (Next, st ++ [(col, v)])) (Val (Next, st ++ [(col, snd x)]))).

Lemma loop_query : forall t q acc body,
  (forall x s, body x s = q_body t x s) ->
  py_for (query_in q) acc body =
  match prepare_query t q with
  | Ok qc => Val (false, acc ++ qc)
  | ErrKeyError c => Exn (KeyError c)
  end.
Proof.
  intros t q. induction q as [|[cid vals] rest IH]; intros acc body Hb; simpl.
  - rewrite app_nil_r. reflexivity.
  - rewrite Hb. unfold q_body, py_get_column. simpl.
    destruct (get_column t cid) as [c|]; simpl; [|reflexivity].
    assert (Hstep : py_try (if forallb hashable vals then Val (QSet (py_set vals)) else Exn TypeError) CTypeError
                      (fun v => Val (Next, acc ++ [(c, v)])) (Val (Next, acc ++ [(c, QList vals)]))
                    = Val (Next, acc ++ [(c, prep_values vals)])).
    { unfold prep_values. destruct (forallb hashable vals); reflexivity. }
    rewrite Hstep. fold (query_in rest). rewrite (IH _ body Hb).
    destruct (prepare_query t rest) as [qc|e]; [|reflexivity]. rewrite <- app_assoc. reflexivity.
Qed.

(* ---- loop 2: for r in table.row_ids: for (c, values) in query_cols: try ... break / else append *)
Definition in_body (r : Z) (x : column * qvalues) (st : unit) : exc (ctrl * unit) :=
  py_try (py_in_qvalues (raw_get (fst x) r) (snd x)) CTypeError
         (fun b => if negb b then Val (Brk, tt) else Val (Next, tt)) (Val (Brk, tt)).

Lemma loop_match : forall r qc body,
  (forall x s, body x s = in_body r x s) -> py_for qc tt body = Val (negb (row_ok qc r), tt).
Proof.
  intros r qc. induction qc as [|[c vs] rest IH]; intros body Hb; simpl; [reflexivity|].
  rewrite Hb. unfold in_body, py_in_qvalues. simpl.
  destruct (cell_in (raw_get c r) vs) as [[|]|]; simpl; try reflexivity.
  apply IH. exact Hb.
Qed.

Definition row_body (qc : list (column * qvalues)) (r : Z) (st : list Z) : exc (ctrl * list Z) :=
  if row_ok qc r then Val (Next, st ++ [r]) else Val (Next, st).

Lemma loop_rows : forall qc rows acc body,
  (forall r s, body r s = row_body qc r s) ->
  py_for rows acc body = Val (false, acc ++ filter (row_ok qc) rows).
Proof.
  intros qc rows. induction rows as [|r rest IH]; intros acc body Hb; simpl.
  - rewrite app_nil_r. reflexivity.
  - rewrite Hb. unfold row_body. destruct (row_ok qc r); rewrite (IH _ body Hb).
    + rewrite <- app_assoc. reflexivity.
    + reflexivity.
Qed.

(* ---- loop 3: for c in table.all_columns.values(): if <selected>: column_values[c.col_id] = [...] *)
Definition col_body (f p : bool) (rows : list Z) (c : column) (st : list (str * list val))
  : exc (ctrl * list (str * list val)) :=
  if col_selected f p c then Val (Next, py_dict_set str_eqb st (col_id c) (map (raw_get c) rows)) else Val (Next, st).

Lemma loop_cols : forall f p rows cols acc body,
  (forall c s, body c s = col_body f p rows c s) ->
  NoDup (map fst acc ++ map col_id cols) ->
  py_for cols acc body =
  Val (false, acc ++ map (fun c => (col_id c, map (raw_get c) rows)) (filter (col_selected f p) cols)).
Proof.
  intros f p rows cols. induction cols as [|c rest IH]; intros acc body Hb Hnd; simpl.
  - rewrite app_nil_r. reflexivity.
  - rewrite Hb. unfold col_body. destruct (col_selected f p c) eqn:Hsel.
    + rewrite py_dict_set_new.
      * rewrite (IH _ body Hb).
        -- simpl. rewrite <- app_assoc. reflexivity.
        -- rewrite map_app. simpl. rewrite <- app_assoc. exact Hnd.
      * intros k' v' Hin. destruct (str_eqb k' (col_id c)) eqn:E; [|reflexivity]. exfalso.
        apply str_eqb_eq in E. subst k'. apply NoDup_remove_2 in Hnd. apply Hnd.
        apply in_or_app. left. apply in_map_iff. exists (col_id c, v'). auto.
    + apply (IH _ body Hb). apply NoDup_remove_1 in Hnd. exact Hnd.
Qed.

(* what the code after the query loop does, for given query_cols: used for both branches of `if query:` *)
Lemma and_chain : forall f p c,
  (f || negb (col_is_formula c)) && (p || negb (col_is_private c)) && negb (str_eqb (col_id c) [105; 100])
  && negb (is_virtual_column (col_id c)) = col_selected f p c.
Proof. reflexivity. Qed.

Theorem fetch_table_bridge : forall tables table_id formulas private q,
  NoDup (map col_id (t_cols (tables table_id))) ->
  fetch_table tables table_id formulas private (query_in q) = lift (fetch (tables table_id) formulas private q).
Proof.
  intros tables table_id f p q Hnd. unfold fetch_table, fetch. cbv zeta.
  set (t := tables table_id) in *.
  assert (Hq : py_nonempty (query_in q) = py_nonempty q) by (destruct q; reflexivity).
  rewrite Hq. destruct q as [|x q'] eqn:Eq.
  - (* query empty: no query columns *)
    simpl py_nonempty. cbv iota. simpl prepare_query. cbv iota.
    erewrite (loop_rows [] (row_ids t) []).
    2:{ intros r s. erewrite loop_match by (intros [c vs] []; reflexivity).
        unfold row_body. simpl. reflexivity. }
    simpl. erewrite (loop_cols f p _ (t_cols t) []).
    2:{ intros c s. unfold col_body. rewrite <- and_chain. reflexivity. }
    2:{ exact Hnd. }
    reflexivity.
  - rewrite <- Eq. assert (Hne : py_nonempty q = true) by (subst q; reflexivity). rewrite Hne.
    erewrite (loop_query t q []) by (intros [cid vs] s; reflexivity).
    destruct (prepare_query t q) as [qc|e]; [|reflexivity]. simpl.
    erewrite (loop_rows qc (row_ids t) []).
    2:{ intros r s. erewrite loop_match by (intros [c vs] []; reflexivity).
        unfold row_body. simpl. destruct (row_ok qc r); reflexivity. }
    simpl. erewrite (loop_cols f p _ (t_cols t) []).
    2:{ intros c s. unfold col_body. rewrite <- and_chain. reflexivity. }
    2:{ exact Hnd. }
    reflexivity.
Qed.
