(* K6 proofs: chart/form sections and sections on an existing summary table. *)
From Coq Require Import ZArith List Bool Lia.
Import ListNotations.
Require Import Grist.Model.MetaCascade Grist.Proofs.MetaCascade_base Grist.Proofs.MetaCascade_inv
  Grist.Proofs.MetaCascade_rm
  Grist.Proofs.MetaCascade_add Grist.Proofs.MetaCascade_add2 Grist.Proofs.MetaCascade_add3
  Grist.Proofs.MetaCascade_add4 Grist.Proofs.MetaCascade_add7 Grist.Proofs.MetaCascade_regroup.
Open Scope Z_scope.

Lemma view_for_inv : forall t v m m1 v1, Inv m -> view_for t v m = Ok (m1, v1) ->
  Inv m1 /\ In v1 (m_views m1) /\ tids m1 = tids m /\ m_columns m1 = m_columns m /\ m_tables m1 = m_tables m.
Proof.
  intros t v m m1 v1 HI H. unfold view_for in H. destruct (v =? 0).
  - destruct (add_view_inv [] t false m m1 v1 HI H) as [J1 [J2 [_ [_ J5]]]].
    destruct (add_view_frame t false m m1 v1 H) as [F1 F2]. tauto.
  - destruct (mem v (m_views m)) eqn:Em; [|discriminate]. inversion H; subst m1 v1.
    split; [exact HI|]. split; [apply mem_In; exact Em|]. tauto.
Qed.

(* a new section of table t in view v1 showing columns of t *)
Lemma section_showing_inv : forall t v1 shown m,
  Inv m -> In t (tids m) -> In v1 (m_views m) -> cols_of_table m shown t = true ->
  Inv (let '(m2, s) := add_section t v1 false m in add_fields s shown m2).
Proof.
  intros t v1 shown m HI Ht Hv Hc.
  pose proof (add_section_inv [] t v1 false m HI Ht (or_intror Hv)) as H2.
  destruct (add_section_sec t v1 false m) as [S2 [C2 _]].
  destruct (add_section t v1 false m) as [m2 s]. simpl in H2, S2, C2.
  apply add_fields_inv; [exact H2|]. intros c Hin.
  destruct (cols_of_table_spec m shown t c Hc Hin) as [cr [Hcr [E1 E2]]].
  exists (mkS s t v1 [] false), cr. split; [exact S2|]. split; [reflexivity|]. split; [rewrite C2; exact Hcr|].
  split; [exact E1 | simpl; exact E2].
Qed.

Lemma cols_of_table_ext : forall m m' cols t,
  m_columns m' = m_columns m -> cols_of_table m' cols t = cols_of_table m cols t.
Proof. intros m m' cols t E. unfold cols_of_table. rewrite E. reflexivity. Qed.

Lemma create_section_shown_inv : forall t v shown m m', Inv m -> create_section_shown t v shown m = Ok m' -> Inv m'.
Proof.
  intros t v shown m m' HI H. unfold create_section_shown in H.
  destruct (t =? 0); [discriminate|].
  destruct (negb (mem t (tids m))) eqn:Et; [discriminate|]. apply negb_false_iff in Et. apply mem_In in Et.
  destruct (view_for t v m) as [[m1 v1]| |] eqn:Ev; unfold bind in H; cbv beta iota in H; try discriminate.
  destruct (view_for_inv t v m m1 v1 HI Ev) as [HI1 [Hv1 [T1 _]]].
  destruct (negb (cols_of_table m1 shown t)) eqn:Ec; [discriminate|]. apply negb_false_iff in Ec.
  assert (Ht1 : In t (tids m1)) by (rewrite T1; exact Et).
  pose proof (section_showing_inv t v1 shown m1 HI1 Ht1 Hv1 Ec) as J.
  destruct (add_section t v1 false m1) as [m2 s]. inversion H; subst m'. exact J.
Qed.

Lemma create_summary_existing_inv : forall src v gb target added shown m m',
  Inv m -> create_summary_existing src v gb target added shown m = Ok m' -> Inv m'.
Proof.
  intros src v gb target added shown m m' HI H. unfold create_summary_existing in H.
  destruct ((src =? 0) || negb (mem src (tids m))) eqn:Es.
  { destruct (src =? 0); discriminate. }
  destruct (negb (cols_of_table m gb src)); [discriminate|].
  destruct (view_for src v m) as [[m1 v1]| |] eqn:Ev; unfold bind in H; cbv beta iota in H; try discriminate.
  destruct (view_for_inv src v m m1 v1 HI Ev) as [HI1 [Hv1 _]].
  destruct (find_summary m1 src gb) as [st|] eqn:Ef; [|discriminate].
  destruct (negb (t_id st =? target)) eqn:Et; [discriminate|].
  apply negb_false_iff in Et. apply Z.eqb_eq in Et.
  apply find_some in Ef. destruct Ef as [Hst _].
  assert (Ht : In target (tids m1)) by (rewrite <- Et; unfold tids; apply in_map; exact Hst).
  pose proof (append_columns_inv target added m1 HI1 Ht) as HI2.
  set (m2 := set_columns m1 (m_columns m1 ++ new_columns (next_id (cids m1)) target added)) in *.
  destruct (negb (cols_of_table m2 shown target)) eqn:Ec; [discriminate|]. apply negb_false_iff in Ec.
  assert (Ht2 : In target (tids m2)) by exact Ht.
  assert (Hv2 : In v1 (m_views m2)) by exact Hv1.
  pose proof (section_showing_inv target v1 shown m2 HI2 Ht2 Hv2 Ec) as J.
  destruct (add_section target v1 false m2) as [m3 s]. inversion H; subst m'. exact J.
Qed.
