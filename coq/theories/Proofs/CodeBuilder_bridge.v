(* C19: the code generated from codebuilder.py on every run (coq/gen/CodeBuilder_gen.v, by harness/cb2v.py) is,
   function by function, the hand-written model of Model/Codegen.v.  Replacer/make_patch are the generated ones of
   C37 (coq/gen/TextBuilder_gen.v) with their bridge to Model/TextBuilder.v. *)
From Coq Require Import ZArith List Bool Lia.
Import ListNotations.
Require Import Grist.Model.Codegen Grist.Proofs.Codegen_proofs.
Require Import Grist.Model.TextBuilder Grist.Lib.TbPrelude Grist.Proofs.TextBuilder_proofs.
Require Import GristGen.TextBuilder_gen Grist.Proofs.TextBuilder_bridge.
Require Import Grist.Lib.CbPrelude GristGen.CodeBuilder_gen.
Open Scope Z_scope.

(* ---- matches of a line-anchored pattern ---- *)
Definition shiftm (d : Z) (m : rmatch) : rmatch := (m_start m + d, m_end m + d, m_group1 m).

Lemma lm_from_shift f : forall ls off d, lm_from (off + d) f ls = map (shiftm d) (lm_from off f ls).
Proof.
  induction ls as [|l r IH]; intros off d; [reflexivity|]. cbn [lm_from]. rewrite map_app.
  replace (off + d + len l + 1) with (off + len l + 1 + d) by lia. rewrite IH. f_equal.
  destruct (f l) as [[k g]|]; [|reflexivity]. cbn. unfold shiftm, m_start, m_end, m_group1. cbn.
  f_equal. f_equal. f_equal; lia.
Qed.

Definition fits (f : list Z -> option (Z * list Z)) : Prop := forall l k g, f l = Some (k, g) -> 0 <= k <= len l.

Lemma lm_from_bounds f : fits f -> forall ls off m, In m (lm_from off f ls) -> off <= m_start m <= m_end m.
Proof.
  intros Hf. induction ls as [|l r IH]; intros off m H; [destruct H|].
  cbn [lm_from] in H. apply in_app_or in H. destruct H as [H|H].
  - destruct (f l) as [[k g]|] eqn:E; [|destruct H]. destruct H as [<-|[]].
    pose proof (Hf _ _ _ E). unfold m_start, m_end. cbn. lia.
  - apply IH in H. pose proof (len_nonneg l). lia.
Qed.

Lemma subst_split t repl : forall ms ip m, 0 <= ip <= m ->
  match ms with [] => True | x :: _ => m <= m_start x end ->
  subst_from t ip ms repl = sub t ip m ++ subst_from t m ms repl.
Proof.
  intros ms ip m Hm Hc. destruct ms as [|x ms]; cbn [subst_from].
  - apply from_split. lia.
  - rewrite (sub_split t ip m (m_start x)) by lia. rewrite <- app_assoc. reflexivity.
Qed.

Lemma subst_shift P t repl : forall ms ip, 0 <= ip -> Forall (fun m => 0 <= m_end m) ms ->
  subst_from (P ++ t) (len P + ip) (map (shiftm (len P)) ms) repl = subst_from t ip ms repl.
Proof.
  induction ms as [|m r IH]; intros ip Hip Hall; cbn [map subst_from].
  - rewrite from_app_r by lia. f_equal. lia.
  - inversion Hall; subst. unfold shiftm at 1 2. unfold m_start at 1, m_end at 2. cbn [fst snd].
    rewrite sub_app_r by lia.
    replace (len P + ip - len P) with ip by lia. replace (m_start m + len P - len P) with (m_start m) by lia.
    replace (m_end m + len P) with (len P + m_end m) by lia. rewrite IH by assumption. reflexivity.
Qed.

(* what the substitution does to one line *)
Definition rw (f : list Z -> option (Z * list Z)) (repl l : list Z) : list Z :=
  match f l with Some (k, _) => repl ++ from l k | None => l end.

Lemma sub_line_tail (l rest : list Z) k : 0 <= k <= len l ->
  sub (l ++ NL :: rest) k (len l + 1) = from l k ++ [NL].
Proof.
  intros Hk. pose proof (len_nonneg l). rewrite (sub_split _ k (len l) (len l + 1)) by lia.
  rewrite sub_app_l by lia. rewrite sub_app_r by lia.
  replace (len l - len l) with 0 by lia. replace (len l + 1 - len l) with 1 by lia.
  f_equal. unfold sub, from. rewrite firstn_all2; [reflexivity|]. rewrite skipn_length. unfold len in *. lia.
Qed.

Lemma lm_from_cons off f l r :
  lm_from off f (l :: r) = match f l with Some (k, g) => [(off, off + k, g)] | None => [] end
                           ++ lm_from (off + len l + 1) f r.
Proof. reflexivity. Qed.

Lemma subst_lines f repl : fits f -> forall ls l,
  subst_from (l ++ join_tail ls) 0 (lm_from 0 f (l :: ls)) repl = rw f repl l ++ join_tail (map (rw f repl) ls).
Proof.
  intros Hf. induction ls as [|l' ls IH]; intros l.
  - cbn [join_tail lm_from map]. rewrite !app_nil_r. unfold rw.
    destruct (f l) as [[k g]|] eqn:E; cbn [subst_from].
    + pose proof (Hf _ _ _ E). unfold m_start, m_end. cbn [fst snd].
      rewrite sub_nil_ge by lia. rewrite Z.add_0_l. reflexivity.
    + apply from_0.
  - cbn [join_tail map]. rewrite lm_from_cons. replace (0 + len l + 1) with (0 + (len l + 1)) by lia. rewrite (lm_from_shift f (l' :: ls) 0 (len l + 1)).
    set (t' := l' ++ join_tail ls). set (P := l ++ [NL]).
    assert (Et : l ++ NL :: t' = P ++ t') by (unfold P; rewrite <- app_assoc; reflexivity).
    assert (HP : len P = len l + 1) by (unfold P; rewrite len_app; reflexivity).
    assert (Hall : Forall (fun m => 0 <= m_end m) (lm_from 0 f (l' :: ls))).
    { apply Forall_forall. intros m Hm. apply (lm_from_bounds f Hf) in Hm. lia. }
    assert (Hhead : match map (shiftm (len l + 1)) (lm_from 0 f (l' :: ls)) with
                    | [] => True | x :: _ => len l + 1 <= m_start x end).
    { destruct (lm_from 0 f (l' :: ls)) as [|x r] eqn:Ex; [exact I|]. cbn [map].
      assert (Hx : In x (lm_from 0 f (l' :: ls))) by (rewrite Ex; left; reflexivity).
      apply (lm_from_bounds f Hf) in Hx. unfold shiftm, m_start in *. cbn [fst]. lia. }
    pose proof (len_nonneg l) as Hl.
    assert (Hrest : forall k, 0 <= k <= len l ->
              subst_from (l ++ NL :: t') k (map (shiftm (len l + 1)) (lm_from 0 f (l' :: ls))) repl
              = from l k ++ NL :: rw f repl l' ++ join_tail (map (rw f repl) ls)).
    { intros k Hk. rewrite (subst_split _ _ _ k (len l + 1)) by (lia || exact Hhead).
      rewrite sub_line_tail by lia. rewrite Et. rewrite <- HP.
      pose proof (subst_shift P t' repl (lm_from 0 f (l' :: ls)) 0 ltac:(lia) Hall) as HS.
      rewrite Z.add_0_r in HS. rewrite HS.
      unfold t'. rewrite IH. rewrite <- app_assoc. reflexivity. }
    unfold rw at 1. destruct (f l) as [[k g]|] eqn:E.
    + pose proof (Hf _ _ _ E). change ([(0, 0 + k, g)] ++ ?x) with ((0, 0 + k, g) :: x).
      cbn [subst_from]. unfold m_start at 1, m_end at 1. cbn [fst snd].
      rewrite sub_nil_ge by lia. rewrite Z.add_0_l. cbn [app]. rewrite (Hrest k) by lia.
      rewrite <- app_assoc. reflexivity.
    + cbn [app]. rewrite (Hrest 0) by lia. rewrite from_0. reflexivity.
Qed.

Lemma subst_text f repl t : fits f ->
  subst_from t 0 (lm_from 0 f (lines_nl t)) repl = join_nl (map (rw f repl) (lines_nl t)).
Proof.
  intros Hf. pose proof (join_lines_nl t) as J. destruct (lines_nl t) as [|l ls] eqn:E.
  - unfold lines_nl in E. destruct (split_nl t); discriminate.
  - cbn [join_nl map] in *. rewrite <- J at 1. apply subst_lines. exact Hf.
Qed.

(* ---- from matches to patches to the Replacer's text ---- *)
Definition mkp (t repl : list Z) (m : rmatch) : patch := make_patch t (m_start m) (m_end m) repl.

Lemma bridge_make_regexp_patches t r repl :
  gen_make_regexp_patches t r repl = map (mkp t repl) (re_finditer r t).
Proof. unfold gen_make_regexp_patches. apply map_ext. intros m. apply bridge_make_patch. Qed.

Fixpoint chain (n ip : Z) (ms : list rmatch) : Prop :=
  match ms with
  | [] => 0 <= ip <= n
  | m :: r => 0 <= ip <= m_start m /\ m_start m <= m_end m <= n /\ chain n (m_end m) r
  end.

Lemma chain_weaken n : forall ms ip ip', chain n ip ms -> 0 <= ip' <= ip -> chain n ip' ms.
Proof. destruct ms as [|m r]; intros ip ip' H H'; cbn [chain] in *; [lia|]. destruct H as [H1 [H2 H3]]. repeat split; try lia. exact H3. Qed.

Lemma chain_wf t repl : forall ms ip, chain (len t) ip ms -> wf_from t ip (map (mkp t repl) ms).
Proof.
  induction ms as [|m r IH]; intros ip H; cbn [chain map wf_from] in *; [exact H|].
  destruct H as [H1 [H2 H3]].
  assert (Es : p_start (mkp t repl m) = m_start m) by reflexivity.
  assert (Ee : p_end (mkp t repl m) = m_end m) by reflexivity.
  assert (Eo : p_old (mkp t repl m) = py_slice t (m_start m) (m_end m)) by reflexivity.
  rewrite Es, Ee, Eo. repeat split; try lia.
  - apply py_slice_sub; lia.
  - apply IH. exact H3.
Qed.

Lemma splice_subst t repl : forall ms ip,
  splice t ip (map pcore (map (mkp t repl) ms)) = subst_from t ip ms repl.
Proof.
  induction ms as [|m r IH]; intros ip; [reflexivity|]. cbn [map splice subst_from].
  unfold pcore, mkp at 1, make_patch, p_start, p_end, p_new. cbn [fst snd]. rewrite IH. reflexivity.
Qed.

Lemma lm_chain f : fits f -> forall ls l off, 0 <= off ->
  chain (off + len (l ++ join_tail ls)) off (lm_from off f (l :: ls)).
Proof.
  intros Hf. induction ls as [|l' ls IH]; intros l off Hoff; rewrite lm_from_cons.
  - cbn [join_tail lm_from]. rewrite !app_nil_r. pose proof (len_nonneg l).
    destruct (f l) as [[k g]|] eqn:E; cbn [app chain]; [|lia].
    pose proof (Hf _ _ _ E). unfold m_start, m_end. cbn [fst snd]. lia.
  - cbn [join_tail]. pose proof (len_nonneg l) as Hl. pose proof (len_nonneg (l' ++ join_tail ls)) as Hr.
    assert (En : off + len (l ++ NL :: l' ++ join_tail ls) = off + len l + 1 + len (l' ++ join_tail ls)).
    { rewrite len_app, len_cons. lia. }
    rewrite En. specialize (IH l' (off + len l + 1) ltac:(lia)).
    destruct (f l) as [[k g]|] eqn:E; cbn [app chain].
    + pose proof (Hf _ _ _ E). unfold m_start, m_end. cbn [fst snd]. repeat split; try lia.
      eapply chain_weaken; [exact IH|lia].
    + eapply chain_weaken; [exact IH|lia].
Qed.

Lemma lm_adj f t repl : fits f -> forall ls off, adj_sorted (map (mkp t repl) (lm_from off f ls)).
Proof.
  intros Hf. induction ls as [|l ls IH]; intros off; [exact I|]. rewrite lm_from_cons.
  specialize (IH (off + len l + 1)).
  destruct (f l) as [[k g]|] eqn:E; cbn [app map]; [|exact IH].
  cbn [adj_sorted]. split; [|exact IH].
  destruct (lm_from (off + len l + 1) f ls) as [|x r] eqn:Ex; cbn [map]; [exact I|].
  assert (Hx : In x (lm_from (off + len l + 1) f ls)) by (rewrite Ex; left; reflexivity).
  apply (lm_from_bounds f Hf) in Hx. pose proof (len_nonneg l).
  unfold patch_leb, patch_compare, mkp, make_patch, p_start. cbn [fst snd]. unfold m_start at 1. cbn [fst].
  replace (off ?= m_start x) with Lt by (symmetry; apply Z.compare_lt_iff; lia). reflexivity.
Qed.

Lemma replacer_lines f t repl : fits f ->
  replacer_text gen_replacer_init t (map (mkp t repl) (lm_from 0 f (lines_nl t)))
  = Ok (join_nl (map (rw f repl) (lines_nl t))).
Proof.
  intros Hf. unfold replacer_text. rewrite bridge_replacer_init.
  assert (Hwf : wf_from t 0 (map (mkp t repl) (lm_from 0 f (lines_nl t)))).
  { apply chain_wf. pose proof (join_lines_nl t) as J. destruct (lines_nl t) as [|l ls] eqn:E.
    - unfold lines_nl in E. destruct (split_nl t); discriminate.
    - cbn [join_nl] in J. rewrite <- J at 1. apply (lm_chain f Hf ls l 0). lia. }
  rewrite replacer_init_ok; rewrite sort_id by (apply lm_adj; exact Hf); [|exact Hwf].
  cbn [bind snd]. rewrite splice_subst. rewrite subst_text by exact Hf. reflexivity.
Qed.

(* ---- each pattern fits its line ---- *)
Lemma fits_indent_line : fits f_indent_line.
Proof. intros l k g H. unfold f_indent_line in H. destruct (has_nonspace l); inversion H. pose proof (len_nonneg l). lia. Qed.
Lemma fits_line_start : fits f_line_start.
Proof. intros l k g H. inversion H. pose proof (len_nonneg l). lia. Qed.
Lemma fits_ws_only : fits f_ws_only.
Proof.
  intros l k g H. unfold f_ws_only in H. destruct l as [|c r]; [discriminate|].
  destruct (forallb is_sp_tab (c :: r)); inversion H. pose proof (len_nonneg (c :: r)). lia.
Qed.
Lemma prefix_len (p l r : list Z) : l = p ++ r -> 0 <= len p <= len l.
Proof. intros ->. rewrite len_app. pose proof (len_nonneg p). pose proof (len_nonneg r). lia. Qed.
Lemma fits_leading_ws : fits f_leading_ws.
Proof.
  intros l k g H. unfold f_leading_ws in H. pose proof (take_drop_while is_sp_tab l) as E.
  destruct (drop_while is_sp_tab l) as [|c r]; [discriminate|]. inversion H; subst k g.
  apply (f_equal (@len Z)) in E. rewrite len_app, len_cons in E.
  pose proof (len_nonneg (take_while is_sp_tab l)). pose proof (len_nonneg r). lia.
Qed.
Lemma fits_line_prefix p : fits (f_line_prefix p).
Proof.
  intros l k g H. unfold f_line_prefix in H. destruct (strip_prefix_opt p l) as [r|] eqn:E; inversion H; subst.
  apply strip_prefix_opt_some in E. eapply prefix_len; eauto.
Qed.
Lemma fits_unindent ind : fits (f_unindent ind).
Proof.
  intros l k g H. unfold f_unindent in H. destruct (strip_prefix_opt ind l) as [r|] eqn:E; [|discriminate].
  destruct (has_nonspace r); inversion H; subst. apply strip_prefix_opt_some in E. eapply prefix_len; eauto.
Qed.

Lemma from_prefix (p r : list Z) : from (p ++ r) (len p) = r.
Proof. rewrite from_app_r by lia. rewrite Z.sub_diag. apply from_0. Qed.

(* ---- _indent ---- *)
Lemma rw_indent ind l : rw f_indent_line ind l = indent_line ind l.
Proof. unfold rw, f_indent_line, indent_line. destruct (has_nonspace l); [rewrite from_0|]; reflexivity. Qed.

Theorem bridge_indent body ind : gen_indent body ind = Ok (indent_re ind body).
Proof.
  unfold gen_indent. rewrite bridge_make_regexp_patches. unfold gen_indent_line_re. cbn [re_finditer].
  rewrite replacer_lines by exact fits_indent_line. unfold indent_re. do 2 f_equal. apply map_ext. apply rw_indent.
Qed.

(* ---- re.sub with the line patterns ---- *)
Lemma re_sub_lines f repl t : fits f ->
  subst_from t 0 (lm_from 0 f (lines_nl t)) repl = join_nl (map (rw f repl) (lines_nl t)).
Proof. apply subst_text. Qed.

Lemma bridge_comment t : re_sub gen_line_start_re [HASH; SP] (rstrip t) = comment_re t.
Proof.
  unfold re_sub, gen_line_start_re. cbn [re_finditer]. rewrite re_sub_lines by exact fits_line_start.
  unfold comment_re. reflexivity.
Qed.

(* ---- _create_syntax_error_code ---- *)
Theorem bridge_create_syntax_error_code printable name msg line col ltext t :
  gen_create_syntax_error_code printable name msg line col ltext t
  = stub_code printable name msg line (col + 1) ltext t.
Proof.
  unfold gen_create_syntax_error_code. change [35; 32] with [HASH; SP]. rewrite bridge_comment.
  unfold stub_code, stub_with, raise_stmt. repeat rewrite <- app_assoc. reflexivity.
Qed.

(* ---- _dedent ---- *)
Lemma rw_ws_only l : rw f_ws_only [] l = strip_ws_only l.
Proof.
  unfold rw, f_ws_only, strip_ws_only. destruct l as [|c r]; [reflexivity|].
  destruct (forallb is_sp_tab (c :: r)); [|reflexivity]. cbn [app]. apply from_all.
Qed.

Lemma strip_ws_only_nlfree l : nlfree l -> nlfree (strip_ws_only l).
Proof. intros H. unfold strip_ws_only. destruct (forallb is_sp_tab l); [intros []|exact H]. Qed.

Lemma groups_lm f : forall ls off,
  map m_group1 (lm_from off f ls) = flat_map (fun l => match f l with Some (_, g) => [g] | None => [] end) ls.
Proof.
  induction ls as [|l r IH]; intros off; [reflexivity|]. rewrite lm_from_cons, map_app. cbn [flat_map].
  rewrite IH. destruct (f l) as [[k g]|]; reflexivity.
Qed.

Lemma bridge_shared_indent t :
  common_prefix (re_findall gen_leading_whitespace_re (re_sub gen_whitespace_only_re [] t)) = shared_indent t.
Proof.
  unfold re_findall, re_sub, gen_leading_whitespace_re, gen_whitespace_only_re. cbn [re_finditer].
  rewrite re_sub_lines by exact fits_ws_only. unfold shared_indent. f_equal.
  pose proof (lines_nl_nlfree t) as Hfree. destruct (lines_nl t) as [|l ls] eqn:E.
  { unfold lines_nl in E. destruct (split_nl t); discriminate. }
  cbn [map]. inversion Hfree; subst. rewrite lines_nl_of_join.
  - rewrite groups_lm. rewrite <- map_cons. rewrite (map_ext _ _ rw_ws_only). apply flat_map_ext.
    intros x. unfold f_leading_ws, leading_ws. destruct (drop_while is_sp_tab x); reflexivity.
  - rewrite rw_ws_only. apply strip_ws_only_nlfree. assumption.
  - apply Forall_map. eapply Forall_impl; [|eassumption]. intros x Hx. rewrite rw_ws_only. apply strip_ws_only_nlfree. exact Hx.
Qed.

Theorem bridge_dedent body : gen_dedent body = Ok (dedent_re body).
Proof.
  unfold gen_dedent. rewrite bridge_shared_indent. unfold dedent_re.
  destruct (shared_indent body) as [|c sh] eqn:E; cbn [nonempty]; [reflexivity|].
  rewrite bridge_make_regexp_patches. cbn [re_finditer].
  rewrite replacer_lines by apply fits_line_prefix. do 2 f_equal. apply map_ext. intros l.
  unfold rw, f_line_prefix. destruct (strip_prefix_opt (c :: sh) l) as [r|] eqn:Es; [|reflexivity].
  apply strip_prefix_opt_some in Es. rewrite Es. cbn [app]. change (c :: sh ++ r) with ((c :: sh) ++ r).
  apply from_prefix.
Qed.

(* ---- the un-indent of multi-line literals ---- *)
Theorem bridge_unindent_sub ind t : re_sub (RE_unindent ind) [] t = unindent_re ind t.
Proof.
  unfold re_sub, unindent_re. cbn [re_finditer]. pose proof (join_lines_nl t) as J.
  destruct (lines_nl t) as [|l ls] eqn:E.
  { unfold lines_nl in E. destruct (split_nl t); discriminate. }
  assert (Hm : lm_from (len l + 1) (f_unindent ind) ls = lm_from 0 (fun _ => None) [l] ++ lm_from (0 + len l + 1) (f_unindent ind) ls)
    by reflexivity.
  set (f' := fun x : list Z => if list_eq_dec Z.eq_dec x l then None else f_unindent ind x).
  (* direct: the first line is copied, the others are rewritten *)
  cbn [join_nl] in J. rewrite <- J at 1. clear Hm f'.
  destruct ls as [|l' ls'].
  - cbn [lm_from subst_from join_tail map join_nl]. rewrite app_nil_r. apply from_0.
  - cbn [join_tail]. set (t' := l' ++ join_tail ls'). set (P := l ++ [NL]).
    assert (Et : l ++ NL :: t' = P ++ t') by (unfold P; rewrite <- app_assoc; reflexivity).
    assert (HP : len P = len l + 1) by (unfold P; rewrite len_app; reflexivity).
    pose proof (fits_unindent ind) as Hf. pose proof (len_nonneg l) as Hl.
    replace (len l + 1) with (0 + (len l + 1)) by lia. rewrite lm_from_shift.
    rewrite (subst_split _ _ _ 0 (len l + 1)).
    + rewrite sub_line_tail by lia. rewrite from_0. rewrite Et. rewrite <- HP.
      pose proof (subst_shift P t' [] (lm_from 0 (f_unindent ind) (l' :: ls')) 0 ltac:(lia)) as HS.
      rewrite Z.add_0_r in HS. rewrite HS.
      * unfold t'. rewrite subst_lines by exact Hf. cbn [join_nl map join_tail]. rewrite <- app_assoc. cbn [app].
        assert (Hrw : forall x, rw (f_unindent ind) [] x = unindent_line ind x).
        { intros x. unfold rw, f_unindent, unindent_line. destruct (strip_prefix_opt ind x) as [r|] eqn:Es; [|reflexivity].
          destruct (has_nonspace r); [|reflexivity]. apply strip_prefix_opt_some in Es. rewrite Es. cbn [app]. apply from_prefix. }
        rewrite Hrw. rewrite (map_ext _ _ Hrw). reflexivity.
      * apply Forall_forall. intros m Hm. apply (lm_from_bounds _ Hf) in Hm. lia.
    + lia.
    + destruct (lm_from 0 (f_unindent ind) (l' :: ls')) as [|x r] eqn:Ex; [exact I|]. cbn [map].
      assert (Hx : In x (lm_from 0 (f_unindent ind) (l' :: ls'))) by (rewrite Ex; left; reflexivity).
      apply (lm_from_bounds _ Hf) in Hx. unfold shiftm, m_start in *. cbn [fst]. lia.
Qed.

(* ---- _multiline_string_nodes, make_formula_body ---- *)
Require Import Grist.Model.CodeBuilder.

Theorem bridge_multiline_string_nodes : forall n, gen_multiline_string_nodes n = ml_nodes n.
Proof.
  fix IH 1. intros [k s t ch]. cbn [gen_multiline_string_nodes ml_nodes].
  assert (Ek : is_Constant (Node k s t ch) || is_JoinedStr (Node k s t ch) = is_literal_kind k)
    by (destruct k; reflexivity).
  rewrite Ek. cbn [node_text node_children].
  change 10 with NL. clear Ek. destruct (is_literal_kind k && mem NL t); [reflexivity|].
  induction ch as [|c ch IHc]; [reflexivity|]. cbn [flat_map]. rewrite IH, IHc. reflexivity.
Qed.

Lemma fold_res_append {A B} (g : B -> A) : forall (l : list B) (init : list A),
  fold_res (fun st x => Ok (st ++ [g x])) l init = Ok (init ++ map g l).
Proof.
  induction l as [|x r IH]; intros init; cbn [fold_res map]; [rewrite app_nil_r; reflexivity|].
  cbn [bind]. rewrite IH. rewrite <- app_assoc. reflexivity.
Qed.

Lemma fold_res_ext {S E} (f g : S -> E -> res S) : (forall st x, f st x = g st x) ->
  forall l st, fold_res f l st = fold_res g l st.
Proof.
  intros H. induction l as [|x r IH]; intros st; cbn [fold_res]; [reflexivity|].
  rewrite H. destruct (g st x); cbn [bind]; [apply IH|reflexivity|reflexivity].
Qed.

Theorem bridge_make_formula_body fb have_ml tree ind :
  gen_make_formula_body fb have_ml tree ind = make_body fb have_ml tree ind.
Proof.
  unfold gen_make_formula_body, make_body. rewrite bridge_indent. cbn [bind].
  destruct (nonempty ind && have_ml); [|reflexivity].
  change [100; 101; 102; 32; 102; 40; 41; 58; 10] with dummy_def.
  rewrite bridge_multiline_string_nodes.
  assert (Eb : forall n, (node_start n, node_end n, node_text n, re_sub (RE_unindent ind) [] (node_text n))
                         = unindent_patch ind n).
  { intros n. unfold unindent_patch. rewrite bridge_unindent_sub. reflexivity. }
  cbn [app]. erewrite fold_res_ext; [|intros st n; rewrite Eb; reflexivity].
  rewrite (fold_res_append (unindent_patch ind)). cbn [bind app]. unfold replacer_text.
  rewrite bridge_replacer_init. reflexivity.
Qed.

(* ---- the first statements of _do_make_formula_body: line ends, then _dedent ---- *)
Lemma nl_bounds : forall t off m, In m (nl_matches off t) -> off <= m_start m /\ m_start m < m_end m <= off + len t.
Proof.
  induction t as [|c r IH]; intros off m H; [destruct H|]. cbn [nl_matches] in H. rewrite len_cons.
  pose proof (len_nonneg r) as Hr.
  assert (G : In m (nl_matches (off + 1) r) -> off <= m_start m /\ m_start m < m_end m <= off + (1 + len r)).
  { intros Hi. apply IH in Hi. lia. }
  destruct (c =? CR); [|exact (G H)]. destruct H as [<-|H]; [|exact (G H)].
  unfold m_start, m_end. cbn [fst snd]. destruct r as [|d r']; [cbn; lia|].
  rewrite len_cons in *. pose proof (len_nonneg r'). destruct (d =? NL); lia.
Qed.

Lemma chain_raise n : forall ms ip ip', chain n ip ms -> ip <= ip' ->
  match ms with [] => ip' <= n | m :: _ => ip' <= m_start m end -> chain n ip' ms.
Proof. destruct ms as [|m r]; intros ip ip' H H1 H2; cbn [chain] in *; [lia|]. destruct H as [Ha [Hb Hc]]. repeat split; try lia. exact Hc. Qed.

Lemma nl_chain : forall t off, 0 <= off -> chain (off + len t) off (nl_matches off t).
Proof.
  induction t as [|c r IH]; intros off Hoff; cbn [nl_matches chain]; [unfold len; cbn; lia|].
  rewrite len_cons. pose proof (len_nonneg r) as Hr. specialize (IH (off + 1) ltac:(lia)).
  replace (off + (1 + len r)) with (off + 1 + len r) by lia.
  destruct (c =? CR).
  - assert (Hw : 1 <= match r with d :: _ => if d =? NL then 2 else 1 | [] => 1 end <= 1 + len r).
    { destruct r as [|d r']; [unfold len; cbn; lia|]. rewrite len_cons. pose proof (len_nonneg r'). destruct (d =? NL); lia. }
    cbn [chain]. unfold m_start, m_end. cbn [fst snd].
    set (w := match r with d :: _ => if d =? NL then 2 else 1 | [] => 1 end) in *.
    repeat split; try lia.
    eapply chain_raise; [exact IH|lia|]. fold (m_start).
    destruct (nl_matches (off + 1) r) as [|x xs] eqn:Ex; [lia|].
    assert (Hx : In x (nl_matches (off + 1) r)) by (rewrite Ex; left; reflexivity).
    destruct r as [|d r']; [destruct Hx|]. destruct (d =? NL) eqn:Ed; [|apply nl_bounds in Hx; lia].
    cbn [nl_matches] in Hx. assert (Ecr : (d =? CR) = false) by (apply Z.eqb_eq in Ed; subst d; reflexivity).
    rewrite Ecr in Hx. apply nl_bounds in Hx. lia.
  - eapply chain_weaken; [exact IH|lia].
Qed.

Lemma nl_adj t repl : forall t' off, adj_sorted (map (mkp t repl) (nl_matches off t')).
Proof.
  induction t' as [|c r IH]; intros off; [exact I|]. cbn [nl_matches]. specialize (IH (off + 1)).
  destruct (c =? CR); [|exact IH]. cbn [map adj_sorted]. split; [|exact IH].
  destruct (nl_matches (off + 1) r) as [|x xs] eqn:Ex; cbn [map]; [exact I|].
  assert (Hx : In x (nl_matches (off + 1) r)) by (rewrite Ex; left; reflexivity). apply nl_bounds in Hx.
  unfold patch_leb, patch_compare, mkp, make_patch, p_start. cbn [fst snd]. unfold m_start at 1. cbn [fst].
  replace (off ?= m_start x) with Lt by (symmetry; apply Z.compare_lt_iff; lia). reflexivity.
Qed.

Lemma nl_head_ge : forall r off ip, ip <= off ->
  match nl_matches off r with [] => True | x :: _ => ip <= m_start x end.
Proof.
  intros r off ip H. destruct (nl_matches off r) as [|x xs] eqn:Ex; [exact I|].
  assert (Hx : In x (nl_matches off r)) by (rewrite Ex; left; reflexivity). apply nl_bounds in Hx. lia.
Qed.

Lemma nl_subst : forall r P,
  subst_from (P ++ r) (len P) (nl_matches (len P) r) [NL] = universal_newlines r.
Proof.
  induction r as [|c r1 IH]; intros P.
  - cbn [nl_matches subst_from universal_newlines]. rewrite app_nil_r. apply from_all.
  - pose proof (len_nonneg P) as HP. set (T := P ++ c :: r1).
    assert (ET : T = (P ++ [c]) ++ r1) by (unfold T; rewrite <- app_assoc; reflexivity).
    assert (EL : len (P ++ [c]) = len P + 1) by (rewrite len_app; reflexivity).
    assert (Hsub : sub T (len P) (len P + 1) = [c]).
    { unfold T. rewrite sub_app_r by lia. rewrite Z.sub_diag. replace (len P + 1 - len P) with 1 by lia. reflexivity. }
    specialize (IH (P ++ [c])). rewrite <- ET, EL in IH.
    cbn [nl_matches universal_newlines]. destruct (c =? CR) eqn:Ec.
    + cbn [subst_from]. unfold m_start at 1, m_end at 1. cbn [fst snd]. rewrite sub_nil_ge by lia. cbn [app].
      destruct r1 as [|d r2].
      * f_equal. exact IH.
      * destruct (d =? NL) eqn:Ed; [|f_equal; exact IH].
        assert (Edc : (d =? CR) = false) by (apply Z.eqb_eq in Ed; subst d; reflexivity).
        assert (Hh : match nl_matches (len P + 1) (d :: r2) with [] => True | x :: _ => len P + 2 <= m_start x end).
        { cbn [nl_matches]. rewrite Edc. apply nl_head_ge. lia. }
        rewrite (subst_split T [NL] _ (len P + 1) (len P + 2) ltac:(lia) Hh) in IH.
        assert (Hs2 : sub T (len P + 1) (len P + 2) = [d]).
        { unfold T. rewrite sub_app_r by lia. replace (len P + 1 - len P) with 1 by lia.
          replace (len P + 2 - len P) with 2 by lia. reflexivity. }
        rewrite Hs2 in IH. cbn [universal_newlines] in IH. rewrite Edc in IH. cbn [app] in IH.
        injection IH as IH. cbn [universal_newlines]. rewrite Edc.
        apply Z.eqb_eq in Ed. subst d. f_equal. f_equal. exact IH.
    + rewrite (subst_split T [NL] _ (len P) (len P + 1)) by (lia || (apply nl_head_ge; lia)).
      rewrite Hsub. cbn [app]. f_equal. exact IH.
Qed.

Lemma nl_none : forall t off, nl_matches off t = [] -> universal_newlines t = t.
Proof.
  induction t as [|c r IH]; intros off H; [reflexivity|]. cbn [nl_matches] in H. cbn [universal_newlines].
  destruct (c =? CR); [discriminate|]. f_equal. eapply IH; eauto.
Qed.

Theorem bridge_formula_text f : gen_formula_text f = Ok (formula_text f).
Proof.
  unfold gen_formula_text, formula_text. rewrite bridge_make_regexp_patches. unfold gen_universal_newline_re.
  cbn [re_finditer]. change [10] with [NL].
  destruct (nonempty (map (mkp f [NL]) (nl_matches 0 f))) eqn:En.
  - unfold replacer_text. rewrite bridge_replacer_init.
    rewrite replacer_init_ok; rewrite sort_id by apply nl_adj.
    + cbn [bind snd]. rewrite splice_subst. pose proof (nl_subst f []) as Hs. cbn [app] in Hs.
      replace (len []) with 0 in Hs by reflexivity. rewrite Hs. rewrite bridge_dedent. reflexivity.
    + apply chain_wf. pose proof (nl_chain f 0 ltac:(lia)) as Hc. rewrite Z.add_0_l in Hc. exact Hc.
  - cbn [bind]. rewrite bridge_dedent. cbn [bind].
    destruct (nl_matches 0 f) as [|m ms] eqn:E; [|discriminate En]. rewrite (nl_none f 0 E). reflexivity.
Qed.

(* ---- _do_make_formula_body: the loop over ast.walk(tree) ---- *)
Theorem bridge_walk formula io oo nodes : gen_walk io oo nodes formula = Ok (walk_model formula io oo nodes).
Proof.
  unfold gen_walk, walk_model.
  match goal with |- context [fold_res ?B nodes _] => set (body := B) end.
  assert (Hstep : forall h ps n,
            body (h, ps) n = Ok (h || is_ml_literal n, ps ++ dollar_patches formula io oo n)).
  { intros h ps n. unfold body. cbv beta iota zeta. unfold is_ml_literal, dollar_patches.
    assert (Ek : is_Constant n || is_JoinedStr n = is_literal_kind (node_kind n)).
    { unfold is_Constant, is_JoinedStr. destruct (node_kind n); reflexivity. }
    rewrite Ek. change 10 with NL. change [68; 79; 76; 76; 65; 82] with Dollar.s_DOLLAR.
    change [114; 101; 99; 46] with Dollar.s_rec.
    destruct (is_literal_kind (node_kind n) && mem NL (node_text n));
      [rewrite orb_true_r|rewrite orb_false_r]; cbn [bind];
      (destruct (is_Name n && starts_with Dollar.s_DOLLAR (name_id n)); cbn [bind]; [|rewrite app_nil_r; reflexivity];
       unfold gen_map_back_offset; rewrite bridge_get_input_pos; cbn [fst bind]; unfold gen_DOLLAR_REGEX, re_match_at;
       destruct (Dollar.dollar_match_at formula (get_input_pos io oo (node_start n))); cbn [bind];
       [rewrite bridge_make_patch; reflexivity|rewrite app_nil_r; reflexivity]). }
  assert (G : forall ns h ps, fold_res body ns (h, ps)
              = Ok (h || existsb is_ml_literal ns, ps ++ flat_map (dollar_patches formula io oo) ns)).
  { induction ns as [|n ns IH]; intros h ps; cbn [fold_res existsb flat_map].
    - rewrite orb_false_r, app_nil_r. reflexivity.
    - rewrite Hstep. cbn [bind]. rewrite IH. rewrite orb_assoc, app_assoc. reflexivity. }
  rewrite G. reflexivity.
Qed.
