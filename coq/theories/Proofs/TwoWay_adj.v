(* What get_reverse_adjustments computes (Model/TwoWay.v): one entry per target whose membership may change, carrying
   the increasing list of the source rows that refer to it after the update. *)
From Coq Require Import ZArith List Bool Arith Lia Sorted.
Import ListNotations.
Require Import Grist.Model.RefIndex Grist.Model.TwoWay Grist.Proofs.RefIndex_proofs.

Fixpoint aff_find (t : Z) (m : affected) : option ref_updates :=
  match m with
  | [] => None
  | (k, u) :: m' => if Z.eqb t k then Some u else aff_find t m'
  end.

Definition aff_get (t : Z) (m : affected) : ref_updates :=
  match aff_find t m with Some u => u | None => ru_empty end.

Lemma aff_find_update_same : forall t f m, aff_find t (aff_update t f m) = Some (f (aff_get t m)).
Proof.
  intros t f m. unfold aff_get. induction m as [|[k u] m IH]; cbn.
  - rewrite Z.eqb_refl. reflexivity.
  - destruct (Z.eqb t k) eqn:E; cbn; rewrite E; [reflexivity|exact IH].
Qed.

Lemma aff_find_update_other : forall t t' f m, t <> t' -> aff_find t' (aff_update t f m) = aff_find t' m.
Proof.
  intros t t' f m Hne. induction m as [|[k u] m IH]; cbn.
  - destruct (Z.eqb t' t) eqn:E; [apply Z.eqb_eq in E; congruence|reflexivity].
  - destruct (Z.eqb t k) eqn:E; cbn.
    + apply Z.eqb_eq in E. subst k. destruct (Z.eqb t' t) eqn:E2; [apply Z.eqb_eq in E2; congruence|reflexivity].
    + destruct (Z.eqb t' k); [reflexivity|exact IH].
Qed.

Lemma aff_get_update_same : forall t f m, aff_get t (aff_update t f m) = f (aff_get t m).
Proof. intros. unfold aff_get at 1. rewrite aff_find_update_same. reflexivity. Qed.

Lemma aff_get_update_other : forall t t' f m, t <> t' -> aff_get t' (aff_update t f m) = aff_get t' m.
Proof. intros. unfold aff_get. rewrite aff_find_update_other by assumption. reflexivity. Qed.

Lemma aff_keys_update : forall t f m k, In k (map fst (aff_update t f m)) <-> k = t \/ In k (map fst m).
Proof.
  intros t f m k. induction m as [|[k0 u] m IH]; cbn.
  - intuition.
  - destruct (Z.eqb t k0) eqn:E; cbn.
    + apply Z.eqb_eq in E. subst k0. intuition.
    + rewrite IH. intuition.
Qed.

Lemma aff_keys_nodup : forall t f m, NoDup (map fst m) -> NoDup (map fst (aff_update t f m)).
Proof.
  intros t f m. induction m as [|[k0 u] m IH]; intros H; cbn.
  - constructor; [intros []|constructor].
  - inversion H as [|x l Hn Hd]; subst. destruct (Z.eqb t k0) eqn:E; cbn.
    + constructor; assumption.
    + constructor; [|apply IH; assumption]. intros Hin. apply aff_keys_update in Hin.
      destruct Hin as [->|Hin]; [rewrite Z.eqb_refl in E; discriminate|contradiction].
Qed.

Lemma aff_find_key : forall t m, aff_find t m <> None <-> In t (map fst m).
Proof.
  intros t m. induction m as [|[k u] m IH]; cbn.
  - split; [congruence|intros []].
  - destruct (Z.eqb t k) eqn:E.
    + apply Z.eqb_eq in E. subst. split; [left; reflexivity|discriminate].
    + rewrite IH. apply Z.eqb_neq in E. split; [right; assumption|intros [H|H]; [congruence|assumption]].
Qed.

(* all sets of an `affected` are strictly increasing *)
Definition aff_sorted (m : affected) : Prop :=
  forall t, sorted (ru_removals (aff_get t m)) /\ sorted (ru_additions (aff_get t m)).

Lemma aff_sorted_nil : aff_sorted [].
Proof. intros t. cbn. split; constructor. Qed.

(* one inner loop: for target in targets: affected[target].<which>.add(r) *)
Lemma aff_fold_remove : forall r ts m, aff_sorted m -> NoDup (map fst m) ->
  let m' := fold_left (fun a t => aff_update t (ru_remove r) a) ts m in
  aff_sorted m' /\ NoDup (map fst m') /\
  (forall k, In k (map fst m') <-> In k (map fst m) \/ In k ts) /\
  (forall t x, In x (ru_removals (aff_get t m')) <-> In x (ru_removals (aff_get t m)) \/ (x = r /\ In t ts)) /\
  (forall t, ru_additions (aff_get t m') = ru_additions (aff_get t m)).
Proof.
  intros r ts. induction ts as [|a ts IH]; intros m Hs Hn; cbn [fold_left].
  - split; [assumption|]. split; [assumption|]. split; [intros k; cbn; tauto|]. split; [|reflexivity].
    intros t x. cbn. tauto.
  - assert (Hs1 : aff_sorted (aff_update a (ru_remove r) m)).
    { intros t. destruct (Z.eq_dec a t) as [->|Hne].
      - rewrite aff_get_update_same. cbn. destruct (Hs t) as [H1 H2]. split; [apply set_add_sorted|]; assumption.
      - rewrite aff_get_update_other by assumption. apply Hs. }
    destruct (IH _ Hs1 (aff_keys_nodup a _ m Hn)) as [H1 [H2 [H3 [H4 H5]]]].
    split; [exact H1|]. split; [exact H2|]. split; [|split].
    + intros k. rewrite H3, aff_keys_update. cbn [In]. assert (a = k <-> k = a) by (split; congruence). tauto.
    + intros t x. rewrite H4. destruct (Z.eq_dec a t) as [->|Hne].
      * rewrite aff_get_update_same. cbn [ru_remove ru_removals]. rewrite set_add_In. cbn [In]. tauto.
      * rewrite aff_get_update_other by assumption. cbn [In]. tauto.
    + intros t. rewrite H5. destruct (Z.eq_dec a t) as [->|Hne].
      * rewrite aff_get_update_same. reflexivity.
      * rewrite aff_get_update_other by assumption. reflexivity.
Qed.

Lemma aff_fold_add : forall r ts m, aff_sorted m -> NoDup (map fst m) ->
  let m' := fold_left (fun a t => aff_update t (ru_add r) a) ts m in
  aff_sorted m' /\ NoDup (map fst m') /\
  (forall k, In k (map fst m') <-> In k (map fst m) \/ In k ts) /\
  (forall t x, In x (ru_additions (aff_get t m')) <-> In x (ru_additions (aff_get t m)) \/ (x = r /\ In t ts)) /\
  (forall t, ru_removals (aff_get t m') = ru_removals (aff_get t m)).
Proof.
  intros r ts. induction ts as [|a ts IH]; intros m Hs Hn; cbn [fold_left].
  - split; [assumption|]. split; [assumption|]. split; [intros k; cbn; tauto|]. split; [|reflexivity].
    intros t x. cbn. tauto.
  - assert (Hs1 : aff_sorted (aff_update a (ru_add r) m)).
    { intros t. destruct (Z.eq_dec a t) as [->|Hne].
      - rewrite aff_get_update_same. cbn. destruct (Hs t) as [H1 H2]. split; [|apply set_add_sorted]; assumption.
      - rewrite aff_get_update_other by assumption. apply Hs. }
    destruct (IH _ Hs1 (aff_keys_nodup a _ m Hn)) as [H1 [H2 [H3 [H4 H5]]]].
    split; [exact H1|]. split; [exact H2|]. split; [|split].
    + intros k. rewrite H3, aff_keys_update. cbn [In]. assert (a = k <-> k = a) by (split; congruence). tauto.
    + intros t x. rewrite H4. destruct (Z.eq_dec a t) as [->|Hne].
      * rewrite aff_get_update_same. cbn [ru_add ru_additions]. rewrite set_add_In. cbn [In]. tauto.
      * rewrite aff_get_update_other by assumption. cbn [In]. tauto.
    + intros t. rewrite H5. destruct (Z.eq_dec a t) as [->|Hne].
      * rewrite aff_get_update_same. reflexivity.
      * rewrite aff_get_update_other by assumption. reflexivity.
Qed.

(* END-PART-1 *)
