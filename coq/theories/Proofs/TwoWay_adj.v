(* What get_reverse_adjustments computes (Model/TwoWay.v): one entry per target whose membership may change, carrying
   the increasing list of the source rows that refer to it after the update. *)
From Coq Require Import ZArith List Bool Arith Lia Sorted.
Import ListNotations.
Require Import Grist.Model.RefIndex Grist.Model.TwoWay Grist.Proofs.RefIndex_proofs.

Fixpoint aff_find (t : Z) (m : affected) : option ref_updates :=
  match m with
  | [] => None
  | (k, u) :: m' => if Z.eqb t k then Some u else aff_find t m'
  end.

Definition aff_get (t : Z) (m : affected) : ref_updates :=
  match aff_find t m with Some u => u | None => ru_empty end.

Lemma aff_find_update_same : forall t f m, aff_find t (aff_update t f m) = Some (f (aff_get t m)).
Proof.
  intros t f m. unfold aff_get. induction m as [|[k u] m IH]; cbn.
  - rewrite Z.eqb_refl. reflexivity.
  - destruct (Z.eqb t k) eqn:E; cbn; rewrite E; [reflexivity|exact IH].
Qed.

Lemma aff_find_update_other : forall t t' f m, t <> t' -> aff_find t' (aff_update t f m) = aff_find t' m.
Proof.
  intros t t' f m Hne. induction m as [|[k u] m IH]; cbn.
  - destruct (Z.eqb t' t) eqn:E; [apply Z.eqb_eq in E; congruence|reflexivity].
  - destruct (Z.eqb t k) eqn:E; cbn.
    + apply Z.eqb_eq in E. subst k. destruct (Z.eqb t' t) eqn:E2; [apply Z.eqb_eq in E2; congruence|reflexivity].
    + destruct (Z.eqb t' k); [reflexivity|exact IH].
Qed.

Lemma aff_get_update_same : forall t f m, aff_get t (aff_update t f m) = f (aff_get t m).
Proof. intros. unfold aff_get at 1. rewrite aff_find_update_same. reflexivity. Qed.

Lemma aff_get_update_other : forall t t' f m, t <> t' -> aff_get t' (aff_update t f m) = aff_get t' m.
Proof. intros. unfold aff_get. rewrite aff_find_update_other by assumption. reflexivity. Qed.

Lemma aff_keys_update : forall t f m k, In k (map fst (aff_update t f m)) <-> k = t \/ In k (map fst m).
Proof.
  intros t f m k. induction m as [|[k0 u] m IH]; cbn.
  - intuition.
  - destruct (Z.eqb t k0) eqn:E; cbn.
    + apply Z.eqb_eq in E. subst k0. intuition.
    + rewrite IH. intuition.
Qed.

Lemma aff_keys_nodup : forall t f m, NoDup (map fst m) -> NoDup (map fst (aff_update t f m)).
Proof.
  intros t f m. induction m as [|[k0 u] m IH]; intros H; cbn.
  - constructor; [intros []|constructor].
  - inversion H as [|x l Hn Hd]; subst. destruct (Z.eqb t k0) eqn:E; cbn.
    + constructor; assumption.
    + constructor; [|apply IH; assumption]. intros Hin. apply aff_keys_update in Hin.
      destruct Hin as [->|Hin]; [rewrite Z.eqb_refl in E; discriminate|contradiction].
Qed.

Lemma aff_find_key : forall t m, aff_find t m <> None <-> In t (map fst m).
Proof.
  intros t m. induction m as [|[k u] m IH]; cbn.
  - split; [congruence|intros []].
  - destruct (Z.eqb t k) eqn:E.
    + apply Z.eqb_eq in E. subst. split; [left; reflexivity|discriminate].
    + rewrite IH. apply Z.eqb_neq in E. split; [right; assumption|intros [H|H]; [congruence|assumption]].
Qed.

(* all sets of an `affected` are strictly increasing *)
Definition aff_sorted (m : affected) : Prop :=
  forall t, sorted (ru_removals (aff_get t m)) /\ sorted (ru_additions (aff_get t m)).

Lemma aff_sorted_nil : aff_sorted [].
Proof. intros t. cbn. split; constructor. Qed.

(* one inner loop: for target in targets: affected[target].<which>.add(r) *)
Lemma aff_fold_remove : forall r ts m, aff_sorted m -> NoDup (map fst m) ->
  let m' := fold_left (fun a t => aff_update t (ru_remove r) a) ts m in
  aff_sorted m' /\ NoDup (map fst m') /\
  (forall k, In k (map fst m') <-> In k (map fst m) \/ In k ts) /\
  (forall t x, In x (ru_removals (aff_get t m')) <-> In x (ru_removals (aff_get t m)) \/ (x = r /\ In t ts)) /\
  (forall t, ru_additions (aff_get t m') = ru_additions (aff_get t m)).
Proof.
  intros r ts. induction ts as [|a ts IH]; intros m Hs Hn; cbn [fold_left].
  - split; [assumption|]. split; [assumption|]. split; [intros k; cbn; tauto|]. split; [|reflexivity].
    intros t x. cbn. tauto.
  - assert (Hs1 : aff_sorted (aff_update a (ru_remove r) m)).
    { intros t. destruct (Z.eq_dec a t) as [->|Hne].
      - rewrite aff_get_update_same. cbn. destruct (Hs t) as [H1 H2]. split; [apply set_add_sorted|]; assumption.
      - rewrite aff_get_update_other by assumption. apply Hs. }
    destruct (IH _ Hs1 (aff_keys_nodup a _ m Hn)) as [H1 [H2 [H3 [H4 H5]]]].
    split; [exact H1|]. split; [exact H2|]. split; [|split].
    + intros k. rewrite H3, aff_keys_update. cbn [In]. assert (a = k <-> k = a) by (split; congruence). tauto.
    + intros t x. rewrite H4. destruct (Z.eq_dec a t) as [->|Hne].
      * rewrite aff_get_update_same. cbn [ru_remove ru_removals]. rewrite set_add_In. cbn [In]. tauto.
      * rewrite aff_get_update_other by assumption. cbn [In]. tauto.
    + intros t. rewrite H5. destruct (Z.eq_dec a t) as [->|Hne].
      * rewrite aff_get_update_same. reflexivity.
      * rewrite aff_get_update_other by assumption. reflexivity.
Qed.

Lemma aff_fold_add : forall r ts m, aff_sorted m -> NoDup (map fst m) ->
  let m' := fold_left (fun a t => aff_update t (ru_add r) a) ts m in
  aff_sorted m' /\ NoDup (map fst m') /\
  (forall k, In k (map fst m') <-> In k (map fst m) \/ In k ts) /\
  (forall t x, In x (ru_additions (aff_get t m')) <-> In x (ru_additions (aff_get t m)) \/ (x = r /\ In t ts)) /\
  (forall t, ru_removals (aff_get t m') = ru_removals (aff_get t m)).
Proof.
  intros r ts. induction ts as [|a ts IH]; intros m Hs Hn; cbn [fold_left].
  - split; [assumption|]. split; [assumption|]. split; [intros k; cbn; tauto|]. split; [|reflexivity].
    intros t x. cbn. tauto.
  - assert (Hs1 : aff_sorted (aff_update a (ru_add r) m)).
    { intros t. destruct (Z.eq_dec a t) as [->|Hne].
      - rewrite aff_get_update_same. cbn. destruct (Hs t) as [H1 H2]. split; [|apply set_add_sorted]; assumption.
      - rewrite aff_get_update_other by assumption. apply Hs. }
    destruct (IH _ Hs1 (aff_keys_nodup a _ m Hn)) as [H1 [H2 [H3 [H4 H5]]]].
    split; [exact H1|]. split; [exact H2|]. split; [|split].
    + intros k. rewrite H3, aff_keys_update. cbn [In]. assert (a = k <-> k = a) by (split; congruence). tauto.
    + intros t x. rewrite H4. destruct (Z.eq_dec a t) as [->|Hne].
      * rewrite aff_get_update_same. cbn [ru_add ru_additions]. rewrite set_add_In. cbn [In]. tauto.
      * rewrite aff_get_update_other by assumption. cbn [In]. tauto.
    + intros t. rewrite H5. destruct (Z.eq_dec a t) as [->|Hne].
      * rewrite aff_get_update_same. reflexivity.
      * rewrite aff_get_update_other by assumption. reflexivity.
Qed.

(* the outer loop over (source row, old value, new value) *)
Definition adj_step (iter : cell -> list Z) (aff : affected) (x : nat * (cell * cell)) : affected :=
  if negb (cell_eqb (snd (snd x)) (fst (snd x))) then
    fold_left (fun a t => aff_update t (ru_add (fst x)) a) (iter (snd (snd x)))
      (fold_left (fun a t => aff_update t (ru_remove (fst x)) a) (iter (fst (snd x))) aff)
  else aff.

Definition changed_old (iter : cell -> list Z) (trs : list (nat * (cell * cell))) (t : Z) (x : nat) : Prop :=
  exists o n, In (x, (o, n)) trs /\ cell_eqb n o = false /\ In t (iter o).
Definition changed_new (iter : cell -> list Z) (trs : list (nat * (cell * cell))) (t : Z) (x : nat) : Prop :=
  exists o n, In (x, (o, n)) trs /\ cell_eqb n o = false /\ In t (iter n).

Lemma aff_outer : forall iter trs m, aff_sorted m -> NoDup (map fst m) ->
  let m' := fold_left (adj_step iter) trs m in
  aff_sorted m' /\ NoDup (map fst m') /\
  (forall k, In k (map fst m') <-> In k (map fst m) \/ exists x, changed_old iter trs k x \/ changed_new iter trs k x) /\
  (forall t x, In x (ru_removals (aff_get t m')) <-> In x (ru_removals (aff_get t m)) \/ changed_old iter trs t x) /\
  (forall t x, In x (ru_additions (aff_get t m')) <-> In x (ru_additions (aff_get t m)) \/ changed_new iter trs t x).
Proof.
  intros iter trs. induction trs as [|[r [o n]] trs IH]; intros m Hs Hn; cbn [fold_left].
  - split; [assumption|]. split; [assumption|]. unfold changed_old, changed_new. split; [|split].
    + intros k. split; [tauto|]. intros [H|[x [[o [n [[] _]]]|[o [n [[] _]]]]]]. assumption.
    + intros t x. split; [tauto|]. intros [H|[o [n [[] _]]]]. assumption.
    + intros t x. split; [tauto|]. intros [H|[o [n [[] _]]]]. assumption.
  - set (m1 := adj_step iter m (r, (o, n))).
    assert (H1 : aff_sorted m1 /\ NoDup (map fst m1) /\
                 (forall k, In k (map fst m1) <->
                            In k (map fst m) \/ (cell_eqb n o = false /\ (In k (iter o) \/ In k (iter n)))) /\
                 (forall t x, In x (ru_removals (aff_get t m1)) <->
                              In x (ru_removals (aff_get t m)) \/ (x = r /\ cell_eqb n o = false /\ In t (iter o))) /\
                 (forall t x, In x (ru_additions (aff_get t m1)) <->
                              In x (ru_additions (aff_get t m)) \/ (x = r /\ cell_eqb n o = false /\ In t (iter n)))).
    { unfold m1, adj_step. cbn [fst snd]. destruct (cell_eqb n o) eqn:E; cbn [negb].
      - split; [assumption|]. split; [assumption|]. split; [|split]; intros; split; try tauto;
          intros [H|H]; try assumption; destruct H as [? H]; try discriminate; destruct H; discriminate.
      - destruct (aff_fold_remove r (iter o) m Hs Hn) as [A1 [A2 [A3 [A4 A5]]]].
        destruct (aff_fold_add r (iter n) _ A1 A2) as [B1 [B2 [B3 [B4 B5]]]].
        split; [exact B1|]. split; [exact B2|]. split; [|split].
        + intros k. rewrite B3, A3. tauto.
        + intros t x. rewrite B5, A4. tauto.
        + intros t x. rewrite B4, A5. tauto. }
    destruct H1 as [Hs1 [Hn1 [K1 [R1 D1]]]].
    destruct (IH m1 Hs1 Hn1) as [Hs' [Hn' [K' [R' D']]]].
    split; [exact Hs'|]. split; [exact Hn'|]. unfold changed_old, changed_new in *. split; [|split].
    + intros k. rewrite K', K1. split.
      * intros [[H|[E [H|H]]]|[x [[o' [n' [Hin H]]]|[o' [n' [Hin H]]]]]].
        -- left. assumption.
        -- right. exists r. left. exists o, n. split; [left; reflexivity|split; assumption].
        -- right. exists r. right. exists o, n. split; [left; reflexivity|split; assumption].
        -- right. exists x. left. exists o', n'. split; [right; assumption|assumption].
        -- right. exists x. right. exists o', n'. split; [right; assumption|assumption].
      * intros [H|[x [[o' [n' [[Heq|Hin] [E H]]]]|[o' [n' [[Heq|Hin] [E H]]]]]]].
        -- left. left. assumption.
        -- inversion Heq; subst. left. right. split; [assumption|left; assumption].
        -- right. exists x. left. exists o', n'. split; [assumption|split; assumption].
        -- inversion Heq; subst. left. right. split; [assumption|right; assumption].
        -- right. exists x. right. exists o', n'. split; [assumption|split; assumption].
    + intros t x. rewrite R', R1. split.
      * intros [[H|[-> [E H]]]|[o' [n' [Hin H]]]].
        -- left. assumption.
        -- right. exists o, n. split; [left; reflexivity|split; assumption].
        -- right. exists o', n'. split; [right; assumption|assumption].
      * intros [H|[o' [n' [[Heq|Hin] [E H]]]]].
        -- left. left. assumption.
        -- inversion Heq; subst. left. right. split; [reflexivity|split; assumption].
        -- right. exists o', n'. split; [assumption|split; assumption].
    + intros t x. rewrite D', D1. split.
      * intros [[H|[-> [E H]]]|[o' [n' [Hin H]]]].
        -- left. assumption.
        -- right. exists o, n. split; [left; reflexivity|split; assumption].
        -- right. exists o', n'. split; [right; assumption|assumption].
      * intros [H|[o' [n' [[Heq|Hin] [E H]]]]].
        -- left. left. assumption.
        -- inversion Heq; subst. left. right. split; [reflexivity|split; assumption].
        -- right. exists o', n'. split; [assumption|split; assumption].
Qed.

Lemma fold_discard_spec : forall rs s, sorted s ->
  let s' := fold_left (fun s0 r => set_discard r s0) rs s in
  sorted s' /\ forall x, In x s' <-> In x s /\ ~ In x rs.
Proof.
  induction rs as [|r rs IH]; intros s Hs; cbn [fold_left].
  - split; [assumption|]. intros x. cbn. tauto.
  - destruct (IH (set_discard r s) (set_discard_sorted r s Hs)) as [H1 H2]. split; [exact H1|].
    intros x. rewrite H2, set_discard_In by assumption. cbn [In].
    assert (r = x <-> x = r) by (split; congruence). tauto.
Qed.

Lemma fold_add_spec : forall rs s, sorted s ->
  let s' := fold_left (fun s0 r => set_add r s0) rs s in
  sorted s' /\ forall x, In x s' <-> In x s \/ In x rs.
Proof.
  induction rs as [|r rs IH]; intros s Hs; cbn [fold_left].
  - split; [assumption|]. intros x. cbn. tauto.
  - destruct (IH (set_add r s) (set_add_sorted r s Hs)) as [H1 H2]. split; [exact H1|].
    intros x. rewrite H2, set_add_In. cbn [In]. assert (r = x <-> x = r) by (split; congruence). tauto.
Qed.

Lemma get_affected_single : forall t m, all_sorted m ->
  sorted (get_affected_rows [t] m) /\ forall x, In x (get_affected_rows [t] m) <-> In x (inv_get t m).
Proof.
  intros t m Hs. unfold get_affected_rows. cbn [fold_left]. split.
  - apply set_union_sorted. apply sorted_nil.
  - intros x. rewrite set_union_In. cbn. tauto.
Qed.

(* the result of get_reverse_adjustments *)
Theorem adj_spec : forall rows olds news iter inv, all_sorted inv ->
  let trs := combine rows (combine olds news) in
  let adj := get_reverse_adjustments_ref rows olds news iter inv in
  NoDup (map fst adj) /\
  (forall t, In t (map fst adj) <-> exists x, changed_old iter trs t x \/ changed_new iter trs t x) /\
  (forall t l, In (t, l) adj ->
     sorted l /\
     forall x, In x l <-> (In x (inv_get t inv) /\ ~ changed_old iter trs t x) \/ changed_new iter trs t x).
Proof.
  intros rows olds news iter inv Hinv trs adj.
  destruct (aff_outer iter trs [] aff_sorted_nil (NoDup_nil _)) as [Hs [Hn [Hk [Hr Ha]]]].
  set (aff := fold_left (adj_step iter) trs []) in *.
  assert (Hadj : adj = map (fun tu : Z * ref_updates =>
                              (fst tu,
                               fold_left (fun s r => set_add r s) (ru_additions (snd tu))
                                 (fold_left (fun s r => set_discard r s) (ru_removals (snd tu))
                                    (get_affected_rows [fst tu] inv)))) aff).
  { reflexivity. }
  assert (Hfst : map fst adj = map fst aff).
  { rewrite Hadj, map_map. reflexivity. }
  split; [rewrite Hfst; exact Hn|]. split.
  - intros t. rewrite Hfst, Hk. cbn [map In]. tauto.
  - intros t l Hin. rewrite Hadj in Hin. apply in_map_iff in Hin. destruct Hin as [[t' u] [Heq Hin]].
    cbn [fst snd] in Heq. inversion Heq; subst t' l. clear Heq.
    assert (Hu : u = aff_get t aff).
    { unfold aff_get. clear - Hin Hn. induction aff as [|[k u0] aff IH]; [destruct Hin|].
      cbn [aff_find]. cbn [map fst] in Hn. inversion Hn as [|? ? Hnot Hn']; subst.
      destruct Hin as [Heq|Hin].
      - inversion Heq; subst. rewrite Z.eqb_refl. reflexivity.
      - destruct (Z.eqb t k) eqn:E; [|apply IH; assumption].
        apply Z.eqb_eq in E. subst k. exfalso. apply Hnot. apply in_map_iff. exists (t, u). split; [reflexivity|assumption]. }
    destruct (get_affected_single t inv Hinv) as [G1 G2].
    destruct (fold_discard_spec (ru_removals u) _ G1) as [D1 D2].
    destruct (fold_add_spec (ru_additions u) _ D1) as [A1 A2].
    split; [exact A1|]. intros x. rewrite A2, D2, G2. subst u. rewrite Hr, Ha. cbn [aff_get aff_find ru_empty ru_removals ru_additions In]. tauto.
Qed.

(* END-PART-3 *)
