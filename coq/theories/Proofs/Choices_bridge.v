(* C39 -- bridging: ChoiceColumn.rename_choices, the two _rename_cell_choice methods and the two fragments of
   UserActions.RenameChoices as translated from /repo on every run (GristGen.Choices_gen) equal the pieces of the
   hand model Model/Choices.v.  Loop lemmas take the loop body up to pointwise equality. *)
From Coq Require Import ZArith List Bool Lia.
Import ListNotations.
Require Import Grist.Lib.PyVal Grist.Lib.PyImp Grist.Model.Choices Grist.Model.ChoicesPy.
Require Import Grist.Proofs.Choices_proofs GristGen.Choices_gen.
Open Scope Z_scope.

(* ---- the cell: _rename_cell_choice behind the guard of rename_choices *)

Lemma existsb_id_map : forall {A} (f : A -> bool) l, existsb (fun b : bool => b) (map f l) = existsb f l.
Proof. intros A f l. induction l as [|x t IH]; simpl; [reflexivity|]. rewrite IH. reflexivity. Qed.

Lemma get_default_self : forall ren v, py_ren_get_default ren v v = rename_elem ren v.
Proof.
  intros ren v. destruct v; try reflexivity. simpl. unfold ren_apply. destruct (ren_get ren s); reflexivity.
Qed.

Definition as_val (o : option val) : val := match o with Some n => n | None => VNone end.

Lemma rename_cell_not_none : forall k ren v n, rename_cell k ren v = Some n -> val_is_none n = false.
Proof.
  intros k ren v n H. destruct k, v; simpl in H; try discriminate.
  - destruct (ren_get ren s); [|discriminate]. injection H as <-. reflexivity.
  - destruct (forallb is_str l); [|discriminate]. destruct (existsb _ l); [|discriminate]. injection H as <-. reflexivity.
  - destruct (forallb is_str l); [|discriminate]. destruct (existsb _ l); [|discriminate]. injection H as <-. reflexivity.
Qed.

(* guard false: the model does not rename; guard true: the translated method returns the model's answer *)
Lemma cell_bridge : forall k ren v,
  (negb (val_is_none v) && py_is_right_type k v = false -> rename_cell k ren v = None) /\
  (negb (val_is_none v) && py_is_right_type k v = true ->
   rename_cell_choice k ren v = Val (as_val (rename_cell k ren v))).
Proof.
  intros k ren v. destruct k, v; simpl; split; intros H; try reflexivity; try discriminate.
  - unfold rename_cell_choice_Choice. simpl. destruct (ren_get ren s); reflexivity.
  - rewrite H. reflexivity.
  - rewrite H. unfold rename_cell_choice_ChoiceList. simpl. rewrite existsb_id_map.
    destruct (existsb (in_renames ren) l); [|reflexivity]. simpl. do 2 f_equal.
    apply map_ext. intros a. apply get_default_self.
  - rewrite H. reflexivity.
  - rewrite H. unfold rename_cell_choice_ChoiceList. simpl. rewrite existsb_id_map.
    destruct (existsb (in_renames ren) l); [|reflexivity]. simpl. do 2 f_equal.
    apply map_ext. intros a. apply get_default_self.
Qed.

(* ---- the scan: rename_choices *)

Definition zs (U : list (nat * val)) : list Z * list val := (map (fun u => Z.of_nat (fst u)) U, map snd U).

Definition scan_body (k : ckind) (ren : renames) (x : Z * val) (st : list Z * list val)
  : exc (ctrl * (list Z * list val)) :=
  if negb (val_is_none (snd x)) && py_is_right_type k (snd x) then
    bind (rename_cell_choice k ren (snd x)) (fun v' =>
      if negb (val_is_none v') then Val (Next, (fst st ++ [fst x], snd st ++ [v'])) else Val (Next, st))
  else Val (Next, st).

Lemma scan_loop : forall k ren data i rs vs body,
  (forall x s, body x s = scan_body k ren x s) ->
  py_for (py_enumerate_from (Z.of_nat i) data) (rs, vs) body =
  Val (false, (rs ++ fst (zs (updates_from k ren i data)), vs ++ snd (zs (updates_from k ren i data)))).
Proof.
  intros k ren data. induction data as [|v t IH]; intros i rs vs body Hb; simpl.
  - rewrite !app_nil_r. reflexivity.
  - rewrite Hb. unfold scan_body. cbn [fst snd].
    replace (Z.of_nat i + 1) with (Z.of_nat (S i)) by lia.
    destruct (cell_bridge k ren v) as [Hf Ht].
    destruct (negb (val_is_none v) && py_is_right_type k v) eqn:G.
    + rewrite (Ht eq_refl). simpl. destruct (rename_cell k ren v) as [n|] eqn:Hr; simpl.
      * rewrite (rename_cell_not_none _ _ _ _ Hr). simpl. rewrite (IH (S i) _ _ body Hb).
        simpl. rewrite <- !app_assoc. reflexivity.
      * apply (IH (S i) _ _ body Hb).
    + rewrite (Hf eq_refl). apply (IH (S i) _ _ body Hb).
Qed.

Theorem rename_choices_bridge : forall k ren data,
  rename_choices k data ren = Val (zs (updates k ren data)).
Proof.
  intros k ren data. unfold rename_choices, py_enumerate, updates. cbv zeta.
  erewrite (scan_loop k ren data 0 [] []).
  2:{ intros [r v] [rs vs]. unfold scan_body. cbn [fst snd]. reflexivity. }
  reflexivity.
Qed.

(* ---- the only-records filter of RenameChoices *)

Lemma py_is_record_nat : forall ids i, py_is_record ids (Z.of_nat i) = is_record ids i.
Proof.
  intros ids i. unfold py_is_record, is_record. rewrite Nat2Z.id. f_equal. f_equal.
  - destruct (0 <? Z.of_nat i) eqn:E1, (0 <? i)%nat eqn:E2; try reflexivity.
    + apply Z.ltb_lt in E1. apply Nat.ltb_ge in E2. lia.
    + apply Z.ltb_ge in E1. apply Nat.ltb_lt in E2. lia.
  - destruct (Z.of_nat i <? Z.of_nat (length ids)) eqn:E1, (i <? length ids)%nat eqn:E2; try reflexivity.
    + apply Z.ltb_lt in E1. apply Nat.ltb_ge in E2. lia.
    + apply Z.ltb_ge in E1. apply Nat.ltb_lt in E2. lia.
Qed.

Lemma zip_zs : forall U, py_zip (fst (zs U)) (snd (zs U)) = map (fun u => (Z.of_nat (fst u), snd u)) U.
Proof. induction U as [|u t IH]; simpl; [reflexivity|]. unfold py_zip in *. simpl in *. rewrite IH. reflexivity. Qed.

Lemma filter_records_zs : forall ids U,
  filter (fun p : Z * val => let '(r, _) := p in py_is_record ids r) (map (fun u => (Z.of_nat (fst u), snd u)) U)
  = map (fun u => (Z.of_nat (fst u), snd u)) (only_records ids U).
Proof.
  intros ids U. unfold only_records. induction U as [|[i v] t IH]; simpl; [reflexivity|].
  rewrite py_is_record_nat. destruct (is_record ids i); simpl; rewrite IH; reflexivity.
Qed.

Theorem rename_records_bridge : forall k ren ids data,
  rename_records k data ids ren = Val (zs (only_records ids (updates k ren data))).
Proof.
  intros k ren ids data. unfold rename_records. rewrite rename_choices_bridge. simpl bind. cbv zeta.
  set (U := updates k ren data).
  change (let '(row_ids, values) := zs U in
          Val (map (fun '(r, _) => r) (map (fun '(r, v) => (r, v))
                 (filter (fun '(r, _) => py_is_record ids r) (py_zip row_ids values))),
               map (fun '(_, v) => py_encode_object v) (map (fun '(r, v) => (r, v))
                 (filter (fun '(r, _) => py_is_record ids r) (py_zip row_ids values))))
          = Val (zs (only_records ids U))).
  destruct (zs U) as [rs vs] eqn:E. assert (Hz : py_zip rs vs = py_zip (fst (zs U)) (snd (zs U))) by (rewrite E; reflexivity).
  rewrite Hz, zip_zs, filter_records_zs. unfold zs. rewrite !map_map. f_equal.
Qed.

(* ---- the filter loop of RenameChoices (the records are those of the column) *)

Fixpoint collect (recs : list frec) (outs : list (option (list (str * fentry)))) : list Z * list (list (str * fentry)) :=
  match recs, outs with
  | r :: rs, Some n :: os => (fst r :: fst (collect rs os), n :: snd (collect rs os))
  | _ :: rs, None :: os => collect rs os
  | _, _ => ([], [])
  end.

Definition py_rename (ren : renames) (v : val) : val := if is_str v then py_ren_get_default ren v v else v.

Lemma py_rename_elem : forall ren v, py_rename ren v = rename_elem ren v.
Proof. intros ren v. unfold py_rename. destruct v; try reflexivity. apply get_default_self. Qed.

Definition new_filter_of (ren : renames) (es : list (str * fentry)) : list (str * fentry) :=
  map (fun '(k, e) => (k, if fentry_is_list e then FList (map (fun v => py_rename ren v) (fentry_elems e)) else e)) es.

Lemma new_filter_of_spec : forall ren es, new_filter_of ren es = rename_entries ren es.
Proof.
  intros ren es. unfold new_filter_of, rename_entries. apply map_ext. intros [k e]. simpl.
  destruct e as [l|t]; simpl; [|reflexivity]. do 2 f_equal. apply map_ext. apply py_rename_elem.
Qed.

Definition filt_body (ren : renames) (r : frec) (st : list Z * list (list (str * fentry)))
  : exc (ctrl * (list Z * list (list (str * fentry)))) :=
  if negb (filt_nonempty (snd r)) then Val (Next, st)
  else bind (py_jv_items (snd r)) (fun es =>
         if negb (py_jv_eq_dict (snd r) (new_filter_of ren es))
         then Val (Next, (fst st ++ [fst r], snd st ++ [new_filter_of ren es])) else Val (Next, st)).

Lemma filt_loop : forall ren c recs ra va body,
  (forall r s, body r s = filt_body ren r s) ->
  py_for recs (ra, va) body =
  match rename_filters ren c (map (fun r => (c, snd r)) recs) with
  | Ok outs => Val (false, (ra ++ fst (collect recs outs), va ++ snd (collect recs outs)))
  | Err _ => Exn AttributeError
  end.
Proof.
  intros ren c recs. induction recs as [|[i f] t IH]; intros ra va body Hb; simpl.
  - rewrite !app_nil_r. reflexivity.
  - rewrite Hb, Z.eqb_refl. unfold filt_body. cbn [fst snd]. destruct f as [|es|]; simpl.
    + rewrite (IH _ _ body Hb). destruct (rename_filters ren c _); reflexivity.
    + rewrite new_filter_of_spec. destruct (entries_eqb es (rename_entries ren es)); simpl;
        rewrite (IH _ _ body Hb); destruct (rename_filters ren c _); try reflexivity.
      simpl. rewrite <- !app_assoc. reflexivity.
    + reflexivity.
Qed.

Theorem rename_filter_records_bridge : forall ren c recs,
  rename_filter_records ren recs =
  match rename_filters ren c (map (fun r => (c, snd r)) recs) with
  | Ok outs => Val (collect recs outs)
  | Err _ => Exn AttributeError
  end.
Proof.
  intros ren c recs. unfold rename_filter_records. cbv zeta.
  erewrite (filt_loop ren c recs [] []).
  2:{ intros [i f] [rs vs]. unfold filt_body, new_filter_of, py_rename, py_json_loads. cbn [fst snd]. reflexivity. }
  destruct (rename_filters ren c _) as [outs|]; [|reflexivity]. simpl. destruct (collect recs outs); reflexivity.
Qed.

(* ---- the guard of the data half: `if not col.is_formula():` *)
Theorem rename_guard_bridge : forall is_formula has_formula,
  rename_guard is_formula has_formula = Val (negb is_formula).
Proof. intros. reflexivity. Qed.
