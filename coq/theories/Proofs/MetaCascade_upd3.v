(* K6 proofs, part 15: RenameTable (ordinary table without summary tables). *)
From Coq Require Import ZArith List Bool Lia.
Import ListNotations.
Require Import Grist.Model.MetaCascade Grist.Proofs.MetaCascade_base Grist.Proofs.MetaCascade_inv
  Grist.Proofs.MetaCascade_rm Grist.Proofs.MetaCascade_add3.
Open Scope Z_scope.

Lemma NoDup_map_inj_on : forall (f : Z -> Z) (l : list Z),
  NoDup l -> (forall a b, In a l -> In b l -> f a = f b -> a = b) -> NoDup (map f l).
Proof.
  intros f. induction l as [|x t IH]; intros Hn Hinj; simpl; [constructor|].
  inversion Hn; subst. constructor.
  - intros Hin. apply in_map_iff in Hin. destruct Hin as [y [E Hy]].
    assert (y = x) by (apply Hinj; [right; exact Hy | left; reflexivity | exact E]). subst y. contradiction.
  - apply IH; [assumption|]. intros a b Ha Hb. apply Hinj; right; assumption.
Qed.

Lemma rename_table_inv : forall t name m m', Inv m -> rename_table t name m = Ok m' -> Inv m'.
Proof.
  intros t name m m' HI H. unfold rename_table in H.
  destruct (find_table m t) as [tr|] eqn:Ef; [|discriminate]. apply find_table_some in Ef. destruct Ef as [Htr Eid].
  destruct (mem name (m_schema m) || negb (t_src tr =? 0) || existsb (fun x => t_src x =? t) (m_tables m)) eqn:Ec;
    [discriminate|].
  apply orb_false_iff in Ec. destruct Ec as [Ec _]. apply orb_false_iff in Ec. destruct Ec as [Ec _].
  apply mem_false in Ec. inversion H; subst m'. clear H.
  destruct HI as [I1 I2 I3 I4 I5 I6 I7 I8].
  set (upd := fun x => if t_id x =? t then mkT t name (t_pview x) (t_src x) (t_raw x) (t_card x) else x).
  set (rho := fun n => if n =? t_name tr then name else n).
  assert (Hid : forall x, t_id (upd x) = t_id x).
  { intros x. unfold upd. destruct (t_id x =? t) eqn:E; [apply Z.eqb_eq in E; simpl; congruence | reflexivity]. }
  assert (Et : map t_id (map upd (m_tables m)) = tids m) by (apply map_map_id; exact Hid).
  destruct I1 as [[A1 A2] Irest]. destruct I8 as [N1 [N2 [N3 N4]]].
  assert (Hname : forall x, In x (m_tables m) -> t_name (upd x) = rho (t_name x)).
  { intros x Hx. unfold upd, rho. destruct (t_id x =? t) eqn:E.
    - apply Z.eqb_eq in E. assert (x = tr) by (apply (NoDup_map_inj t_id (m_tables m)); try assumption; congruence).
      subst x. simpl. rewrite Z.eqb_refl. reflexivity.
    - destruct (t_name x =? t_name tr) eqn:E2; [|reflexivity]. apply Z.eqb_eq in E2.
      assert (x = tr) by (apply (NoDup_map_inj t_name (m_tables m)); assumption). subst x.
      apply Z.eqb_neq in E. congruence. }
  assert (En : map t_name (map upd (m_tables m)) = map rho (map t_name (m_tables m))).
  { rewrite !map_map. apply map_ext_in. exact Hname. }
  assert (Hinj : forall l, ~ In name l -> forall a b, In a l -> In b l -> rho a = rho b -> a = b).
  { intros l Hl a b Ha Hb. unfold rho. destruct (a =? t_name tr) eqn:E1, (b =? t_name tr) eqn:E2; intros E.
    - apply Z.eqb_eq in E1, E2. congruence.
    - subst b. contradiction.
    - subst a. contradiction.
    - exact E. }
  assert (Ecn : ~ In name (map t_name (m_tables m))) by (intro Hin; apply Ec; apply N3; exact Hin).
  constructor; simpl.
  - unfold IdsOk, tids. simpl. rewrite Et. split; [split; assumption | exact Irest].
  - intros c Hc. specialize (I2 c Hc). unfold ColOk, tids in *. simpl. rewrite Et. exact I2.
  - exact I3.
  - intros s Hs. specialize (I4 s Hs). unfold SecOk, tids in *. simpl. rewrite Et. exact I4.
  - intros x' Hx' _. apply in_map_iff in Hx'. destruct Hx' as [x [E Hx]]. subst x'.
    assert (Hnil : ~ In (t_id x) []) by (intros []). specialize (I5 x Hx Hnil). destruct I5 as [J1 [J2 [J3 J4]]].
    unfold TableOk, tids. simpl m_tables. rewrite Et. rewrite Hid.
    assert (Efld : t_raw (upd x) = t_raw x /\ t_card (upd x) = t_card x /\ t_pview (upd x) = t_pview x /\
                   t_src (upd x) = t_src x).
    { unfold upd. destruct (t_id x =? t); simpl; tauto. }
    destruct Efld as [F1 [F2 [F3 F4]]]. rewrite F1, F2, F3, F4. tauto.
  - exact I6.
  - exact I7.
  - unfold NamesOk. simpl. fold upd. fold rho. rewrite En.
    split; [apply NoDup_map_inj_on; [exact N1 | apply Hinj; exact Ecn]|].
    split; [apply NoDup_map_inj_on; [exact N2 | apply Hinj; exact Ec]|].
    split; apply incl_map; assumption.
Qed.
