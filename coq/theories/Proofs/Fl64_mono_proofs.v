(* Lib/Fl64.v: rounding is monotone; prevfloat is the largest double below a positive double.  (C20) *)
From Coq Require Import ZArith List Bool Lia.
Import ListNotations.
Require Import Grist.Lib.Fl64 Grist.Proofs.Fl64_proofs.
Open Scope Z_scope.

(* ---- rne *)
Lemma rne_bounds a D : 0 < D -> a / D <= rne a D <= a / D + 1.
Proof.
  intros HD. unfold rne. destruct (2 * (a mod D) ?= D); [destruct (Z.even (a / D))|..]; lia.
Qed.

Lemma rne_mono a1 a2 D : 0 < D -> a1 <= a2 -> rne a1 D <= rne a2 D.
Proof.
  intros HD Hle.
  assert (Hq : a1 / D <= a2 / D) by (apply Z.div_le_mono; lia).
  destruct (Z.eq_dec (a1 / D) (a2 / D)) as [Heq|Hne].
  - assert (Hr : a1 mod D <= a2 mod D).
    { rewrite (Z.mod_eq a1 D), (Z.mod_eq a2 D) by lia. rewrite Heq. lia. }
    unfold rne. rewrite Heq.
    destruct (Z.compare_spec (2 * (a1 mod D)) D), (Z.compare_spec (2 * (a2 mod D)) D);
      destruct (Z.even (a2 / D)); lia.
  - pose proof (rne_bounds a1 D HD). pose proof (rne_bounds a2 D HD). lia.
Qed.

Lemma rne_p2_spec a sh : 0 <= sh -> rne_p2 a sh = rne a (2 ^ sh).
Proof.
  intros Hsh. unfold rne_p2. destruct (sh <=? 0) eqn:E.
  - apply Z.leb_le in E. assert (sh = 0) by lia. subst. cbn [Z.pow]. unfold rne.
    rewrite Z.div_1_r, Z.mod_1_r. cbn. reflexivity.
  - apply Z.leb_gt in E. unfold rne.
    rewrite Z.shiftr_div_pow2, Z.land_ones, Z.shiftl_mul_pow2 by lia.
    assert (HP : 2 ^ sh = 2 * 2 ^ (sh - 1)) by (rewrite <- Z.pow_succ_r by lia; f_equal; lia).
    rewrite Z.mul_1_l.
    destruct (Z.compare_spec (a mod 2 ^ sh) (2 ^ (sh - 1))), (Z.compare_spec (2 * (a mod 2 ^ sh)) (2 ^ sh));
      try lia; reflexivity.
Qed.

(* ---- the magnitude chosen by round_p2 *)
Definition round_mag (n s : Z) : Z :=
  let k := ulp_exp (n / 2 ^ s) in rne n (2 ^ (s + k)) * 2 ^ k.

Lemma round_p2_mag neg n s : 0 <= s -> round_p2 neg n s = fin_or_inf neg (round_mag n s).
Proof.
  intros Hs. unfold round_p2, round_mag, fin_or_inf.
  rewrite Z.shiftr_div_pow2 by lia. pose proof (ulp_exp_nonneg (n / 2 ^ s)).
  rewrite rne_p2_spec by lia. rewrite Z.shiftl_mul_pow2 by lia. reflexivity.
Qed.

Lemma ulp_exp_mono q1 q2 : q1 <= q2 -> ulp_exp q1 <= ulp_exp q2.
Proof. intros H. unfold ulp_exp. pose proof (Z.log2_le_mono _ _ H). lia. Qed.

Lemma ulp_exp_upper q : 0 <= q -> q < 2 ^ (53 + ulp_exp q).
Proof.
  intros Hq. destruct (Z.eq_dec q 0) as [->|Hne]; [apply pow2_pos'; pose proof (ulp_exp_nonneg 0); lia|].
  apply Z.log2_lt_pow2; [lia|]. unfold ulp_exp. lia.
Qed.

Lemma ulp_exp_lower q : 0 < ulp_exp q -> 2 ^ (52 + ulp_exp q) <= q.
Proof.
  intros Hk. unfold ulp_exp in *. assert (Hl : 52 < Z.log2 q) by lia.
  rewrite Z.max_r by lia. replace (52 + (Z.log2 q - 52)) with (Z.log2 q) by lia.
  assert (0 < q) by (destruct (Z.le_gt_cases q 0) as [H|H]; [rewrite Z.log2_nonpos in Hl; lia | lia]).
  apply Z.log2_spec. lia.
Qed.

Lemma round_mag_mono n1 n2 s : 0 <= s -> 0 <= n1 <= n2 -> round_mag n1 s <= round_mag n2 s.
Proof.
  intros Hs Hn. unfold round_mag.
  assert (Hps : 0 < 2 ^ s) by (apply pow2_pos'; lia).
  set (q1 := n1 / 2 ^ s). set (q2 := n2 / 2 ^ s).
  assert (Hq : q1 <= q2) by (apply Z.div_le_mono; lia).
  assert (Hq1 : 0 <= q1) by (apply Z.div_pos; lia).
  pose proof (ulp_exp_mono _ _ Hq) as Hk. pose proof (ulp_exp_nonneg q1) as Hk1.
  set (k1 := ulp_exp q1) in *. set (k2 := ulp_exp q2) in *.
  destruct (Z.eq_dec k1 k2) as [Heq|Hne].
  - rewrite <- Heq. apply Z.mul_le_mono_nonneg_r; [apply Z.pow_nonneg; lia|].
    apply rne_mono; [apply pow2_pos'; lia | lia].
  - assert (Hlt : k1 < k2) by lia.
    (* n1 rounds to at most 2^(53+k1), n2 to at least 2^(52+k2) *)
    assert (H1 : rne n1 (2 ^ (s + k1)) * 2 ^ k1 <= 2 ^ (53 + k1)).
    { assert (Hup : q1 < 2 ^ (53 + k1)) by (apply ulp_exp_upper; exact Hq1).
      assert (Hn1 : n1 < 2 ^ (53 + k1) * 2 ^ s).
      { unfold q1 in Hup. pose proof (Z.mul_succ_div_gt n1 (2 ^ s) Hps). nia. }
      assert (Hd : n1 / 2 ^ (s + k1) < 2 ^ 53).
      { apply Z.div_lt_upper_bound; [apply pow2_pos'; lia|].
        rewrite <- Z.pow_add_r by lia. replace (s + k1 + 53) with (53 + k1 + s) by lia.
        rewrite Z.pow_add_r by lia. exact Hn1. }
      pose proof (rne_bounds n1 (2 ^ (s + k1)) ltac:(apply pow2_pos'; lia)) as Hb.
      replace (2 ^ (53 + k1)) with (2 ^ 53 * 2 ^ k1) by (rewrite <- Z.pow_add_r by lia; reflexivity).
      apply Z.mul_le_mono_nonneg_r; [apply Z.pow_nonneg; lia | lia]. }
    assert (H2 : 2 ^ (52 + k2) <= rne n2 (2 ^ (s + k2)) * 2 ^ k2).
    { assert (Hlow : 2 ^ (52 + k2) <= q2) by (apply ulp_exp_lower; fold k2; lia).
      assert (Hn2 : 2 ^ (52 + k2) * 2 ^ s <= n2).
      { unfold q2 in Hlow. pose proof (Z.mul_div_le n2 (2 ^ s) Hps). nia. }
      assert (Hd : 2 ^ 52 <= n2 / 2 ^ (s + k2)).
      { apply Z.div_le_lower_bound; [apply pow2_pos'; lia|].
        rewrite <- Z.pow_add_r by lia. replace (s + k2 + 52) with (52 + k2 + s) by lia.
        rewrite Z.pow_add_r by lia. exact Hn2. }
      pose proof (rne_bounds n2 (2 ^ (s + k2)) ltac:(apply pow2_pos'; lia)) as Hb.
      replace (2 ^ (52 + k2)) with (2 ^ 52 * 2 ^ k2) by (rewrite <- Z.pow_add_r by lia; reflexivity).
      apply Z.mul_le_mono_nonneg_r; [apply Z.pow_nonneg; lia | lia]. }
    assert (2 ^ (53 + k1) <= 2 ^ (52 + k2)) by (apply Z.pow_le_mono_r; lia). lia.
Qed.

Lemma round_mag_nonneg n s : 0 <= s -> 0 <= n -> 0 <= round_mag n s.
Proof.
  intros Hs Hn. unfold round_mag. pose proof (ulp_exp_nonneg (n / 2 ^ s)).
  apply Z.mul_nonneg_nonneg; [|apply Z.pow_nonneg; lia].
  pose proof (rne_bounds n (2 ^ (s + ulp_exp (n / 2 ^ s))) ltac:(apply pow2_pos'; lia)).
  assert (0 <= n / 2 ^ (s + ulp_exp (n / 2 ^ s))) by (apply Z.div_pos; [lia | apply pow2_pos'; lia]). lia.
Qed.

Lemma UOVER_lt_UINF : UOVER < UINF.
Proof. rewrite UOVER_eq, UINF_eq. apply Z.pow_lt_mono_r; lia. Qed.

Lemma ford_fin_or_inf_mono u1 u2 : 0 <= u1 <= u2 -> ford (fin_or_inf false u1) <= ford (fin_or_inf false u2).
Proof.
  intros H. unfold fin_or_inf. pose proof UOVER_lt_UINF.
  destruct (Z.leb_spec UOVER u1), (Z.leb_spec UOVER u2); cbn [ford]; lia.
Qed.

Lemma round_p2_mono n1 n2 s : 0 <= s -> 0 <= n1 <= n2 ->
  ford (round_p2 false n1 s) <= ford (round_p2 false n2 s).
Proof.
  intros Hs Hn. rewrite !round_p2_mag by lia. apply ford_fin_or_inf_mono.
  split; [apply round_mag_nonneg; lia | apply round_mag_mono; lia].
Qed.

Lemma round_p2_shape n s : 0 <= s -> 0 <= n ->
  exists r, round_p2 false n s = r /\ is_nan r = false /\ 0 <= ford r.
Proof.
  intros Hs Hn. eexists; split; [reflexivity|]. rewrite round_p2_mag by lia.
  pose proof (round_mag_nonneg n s Hs Hn). unfold fin_or_inf. pose proof UOVER_lt_UINF.
  assert (0 < UOVER) by (rewrite UOVER_eq; apply pow2_pos'; lia).
  destruct (UOVER <=? round_mag n s); cbn; split; auto; lia.
Qed.

(* ---- wf_flb decides wf_fl *)
Lemma wf_flb_sound x : wf_flb x = true -> wf_fl x.
Proof.
  destruct x as [| |s u]; unfold wf_flb, wf_fl, representable; auto. intros H.
  apply andb_prop in H. destruct H as [H H3]. apply andb_prop in H. destruct H as [H1 H2].
  apply Z.leb_le in H1. apply Z.ltb_lt in H2. apply Z.eqb_eq in H3.
  rewrite Z.land_ones in H3 by apply ulp_exp_nonneg. split; [lia | exact H3].
Qed.

(* ---- prevfloat: upred u is the largest representable magnitude below u *)
Lemma upred_lt u : 0 < u -> upred u < u.
Proof.
  intros Hu. unfold upred. destruct (u <=? P53) eqn:E; [lia|]. apply Z.leb_gt in E.
  rewrite P53_eq in E. assert (H53 : 2 ^ 53 <= u - 1) by lia.
  assert (Hl : 53 <= Z.log2 (u - 1)) by (apply Z.log2_le_pow2; lia).
  set (k := Z.log2 (u - 1) - 52). assert (0 <= k) by lia.
  rewrite Z.shiftr_div_pow2, Z.shiftl_mul_pow2 by lia.
  pose proof (Z.mul_div_le (u - 1) (2 ^ k) ltac:(apply pow2_pos'; lia)). lia.
Qed.

Lemma upred_nonneg u : 0 < u -> 0 <= upred u.
Proof.
  intros Hu. unfold upred. destruct (u <=? P53) eqn:E; [lia|]. apply Z.leb_gt in E.
  rewrite P53_eq in E. assert (Hl : 53 <= Z.log2 (u - 1)) by (apply Z.log2_le_pow2; lia).
  set (k := Z.log2 (u - 1) - 52). assert (0 <= k) by lia.
  rewrite Z.shiftr_div_pow2, Z.shiftl_mul_pow2 by lia.
  apply Z.mul_nonneg_nonneg; [apply Z.div_pos; [lia | apply pow2_pos'; lia] | apply Z.pow_nonneg; lia].
Qed.

Lemma upred_max u v : 0 < u -> 0 <= v < u -> v mod 2 ^ ulp_exp v = 0 -> v <= upred u.
Proof.
  intros Hu Hv Hdiv. unfold upred. destruct (u <=? P53) eqn:E; [lia|]. apply Z.leb_gt in E.
  rewrite P53_eq in E. set (w := u - 1). assert (Hw : 2 ^ 53 <= w) by (unfold w; lia).
  assert (Hl : 53 <= Z.log2 w) by (apply Z.log2_le_pow2; lia).
  set (k := Z.log2 w - 52). assert (Hk : 0 <= k) by (unfold k; lia).
  rewrite Z.shiftr_div_pow2, Z.shiftl_mul_pow2 by lia.
  assert (Hpk : 0 < 2 ^ k) by (apply pow2_pos'; lia).
  destruct (Z.eq_dec v 0) as [->|Hv0].
  { apply Z.mul_nonneg_nonneg; [apply Z.div_pos; lia | lia]. }
  assert (Hlv : Z.log2 v <= Z.log2 w) by (apply Z.log2_le_mono; unfold w; lia).
  destruct (Z.eq_dec (Z.log2 v) (Z.log2 w)) as [Heq|Hne].
  - unfold ulp_exp in Hdiv. rewrite Heq in Hdiv. rewrite Z.max_r in Hdiv by lia. fold k in Hdiv.
    apply Z.mod_divide in Hdiv; [|lia]. destruct Hdiv as [c Hc].
    assert (c <= w / 2 ^ k) by (apply Z.div_le_lower_bound; [lia | unfold w; lia]). nia.
  - assert (Hvlt : v < 2 ^ Z.log2 w) by (apply Z.log2_lt_pow2; lia).
    assert (Hsplit : 2 ^ Z.log2 w = 2 ^ 52 * 2 ^ k) by (rewrite <- Z.pow_add_r by lia; f_equal; unfold k; lia).
    assert (Hwle : 2 ^ Z.log2 w <= w) by (apply Z.log2_spec; lia).
    assert (2 ^ 52 <= w / 2 ^ k) by (apply Z.div_le_lower_bound; [lia | lia]). nia.
Qed.

(* ---- shapes: results that are >= +0 and not NaN *)
Definition pos_shape (x : fl) : Prop := (exists u, x = FFin false u /\ 0 <= u < UOVER) \/ x = FInf false.

Lemma pos_shape_nonnan x : pos_shape x -> is_nan x = false /\ 0 <= ford x.
Proof.
  intros [(u & -> & Hu)| ->]; split; try reflexivity; cbn [ford]; [lia|].
  rewrite UINF_eq. apply Z.pow_nonneg. lia.
Qed.

Lemma fin_or_inf_pos_shape u : 0 <= u -> pos_shape (fin_or_inf false u).
Proof.
  intros Hu. unfold fin_or_inf. destruct (Z.leb_spec UOVER u); [right; reflexivity | left; eauto].
Qed.

Lemma round_p2_pos_shape n s : 0 <= s -> 0 <= n -> pos_shape (round_p2 false n s).
Proof. intros Hs Hn. rewrite round_p2_mag by lia. apply fin_or_inf_pos_shape, round_mag_nonneg; lia. Qed.

Lemma rne_nonneg a D : 0 < D -> 0 <= a -> 0 <= rne a D.
Proof. intros HD Ha. pose proof (rne_bounds a D HD). assert (0 <= a / D) by (apply Z.div_pos; lia). lia. Qed.

Lemma shiftr_ulp_pos u : 0 < u -> 0 < Z.shiftr u (ulp_exp u).
Proof.
  intros Hu. rewrite Z.shiftr_div_pow2 by apply ulp_exp_nonneg.
  apply Z.div_str_pos. split; [apply pow2_pos', ulp_exp_nonneg|].
  unfold ulp_exp. destruct (Z.max_spec 0 (Z.log2 u - 52)) as [[_ ->]|[_ ->]].
  - apply Z.le_trans with (2 ^ Z.log2 u); [apply Z.pow_le_mono_r; lia | apply Z.log2_spec; lia].
  - cbn. lia.
Qed.

Lemma UOVER_big : 2 ^ 60 < UOVER.
Proof. rewrite UOVER_eq. apply Z.pow_lt_mono_r; lia. Qed.

Lemma fdiv_pos_shape u1 u2 : 0 <= u1 < UOVER -> 0 < u2 -> pos_shape (fdiv (FFin false u1) (FFin false u2)).
Proof.
  intros H1 H2. unfold fdiv. cbn [xorb]. replace (u2 =? 0) with false by (symmetry; apply Z.eqb_neq; lia).
  pose proof (shiftr_ulp_pos u2 H2) as Hm2.
  assert (Hm1 : 0 <= Z.shiftr u1 (ulp_exp u1) <= u1).
  { rewrite Z.shiftr_div_pow2 by apply ulp_exp_nonneg.
    pose proof (pow2_pos' _ (ulp_exp_nonneg u1)). split; [apply Z.div_pos; lia|].
    apply Z.div_le_upper_bound; [lia | nia]. }
  destruct (0 <=? ulp_exp u1 + 1074 - ulp_exp u2) eqn:E.
  - apply fin_or_inf_pos_shape. rewrite Z.shiftl_mul_pow2 by apply ulp_exp_nonneg.
    apply Z.mul_nonneg_nonneg; [|apply Z.pow_nonneg; lia].
    apply rne_nonneg; [lia|]. apply Z.shiftl_nonneg. lia.
  - left. eexists; split; [reflexivity|]. apply Z.leb_gt in E.
    assert (HD : 0 < Z.shiftl (Z.shiftr u2 (ulp_exp u2)) (- (ulp_exp u1 + 1074 - ulp_exp u2))).
    { rewrite Z.shiftl_mul_pow2 by lia. apply Z.mul_pos_pos; [lia | apply pow2_pos'; lia]. }
    split; [apply rne_nonneg; lia|].
    pose proof (rne_bounds (Z.shiftr u1 (ulp_exp u1)) _ HD) as Hb.
    assert (Z.shiftr u1 (ulp_exp u1) / Z.shiftl (Z.shiftr u2 (ulp_exp u2)) (- (ulp_exp u1 + 1074 - ulp_exp u2))
            <= Z.shiftr u1 (ulp_exp u1)) by (apply Z.div_le_upper_bound; [lia | nia]).
    (* a quotient of magnitudes rounded to an integer: at most u1 + 1, and u1 + 1 < UOVER unless u1 is huge, in
       which case the divisor >= 2 halves it *)
    assert (Hge2 : 2 <= Z.shiftl (Z.shiftr u2 (ulp_exp u2)) (- (ulp_exp u1 + 1074 - ulp_exp u2))).
    { rewrite Z.shiftl_mul_pow2 by lia.
      assert (2 ^ 1 <= 2 ^ (- (ulp_exp u1 + 1074 - ulp_exp u2))) by (apply Z.pow_le_mono_r; lia).
      change (2 ^ 1) with 2 in H0. nia. }
    assert (Z.shiftr u1 (ulp_exp u1) / Z.shiftl (Z.shiftr u2 (ulp_exp u2)) (- (ulp_exp u1 + 1074 - ulp_exp u2)) * 2
            <= Z.shiftr u1 (ulp_exp u1)).
    { pose proof (Z.mul_div_le (Z.shiftr u1 (ulp_exp u1)) _ HD). nia. }
    pose proof UOVER_big. change (2 ^ 60) with 1152921504606846976 in H3. lia.
Qed.

(* x * k for an integer 1 <= k: shape and monotonicity in k *)
Lemma fmul_int_mono step k1 k2 : pos_shape step -> 1 <= k1 <= k2 -> k2 < 2 ^ 53 ->
  pos_shape (fmul step (fint k1)) /\ pos_shape (fmul step (fint k2)) /\
  ford (fmul step (fint k1)) <= ford (fmul step (fint k2)).
Proof.
  intros Hs Hk Hk2. assert (H1074 : 0 < 2 ^ 1074) by (apply pow2_pos'; lia).
  destruct Hs as [(u & -> & Hu)| ->]; unfold fmul, fint; cbn [xorb].
  - split; [apply round_p2_pos_shape; nia|]. split; [apply round_p2_pos_shape; nia|].
    apply round_p2_mono; [lia|]. split; nia.
  - replace (k1 * 2 ^ 1074 =? 0) with false by (symmetry; apply Z.eqb_neq; nia).
    replace (k2 * 2 ^ 1074 =? 0) with false by (symmetry; apply Z.eqb_neq; nia).
    split; [right; reflexivity|]. split; [right; reflexivity | lia].
Qed.

Lemma round_p2_zero : round_p2 false 0 0 = FFin false 0.
Proof. reflexivity. Qed.

(* b + x for a double b >= 0 and x of positive shape *)
Lemma fadd_pos_mono sb ub x1 x2 :
  0 <= ub < UOVER -> ub mod 2 ^ ulp_exp ub = 0 -> 0 <= ford (FFin sb ub) ->
  pos_shape x1 -> pos_shape x2 -> ford x1 <= ford x2 ->
  pos_shape (fadd (FFin sb ub) x1) /\ pos_shape (fadd (FFin sb ub) x2) /\
  ford (FFin sb ub) <= ford (fadd (FFin sb ub) x1) /\
  ford (fadd (FFin sb ub) x1) <= ford (fadd (FFin sb ub) x2).
Proof.
  intros Hub Hdiv Hfb H1 H2 Hle.
  set (fb := ford (FFin sb ub)) in *.
  assert (Hfbv : fb = sval sb ub) by (unfold fb; destruct sb; reflexivity).
  assert (Hfb' : 0 <= fb < UOVER /\ fb mod 2 ^ ulp_exp fb = 0).
  { destruct sb; cbn in Hfbv; subst fb; cbn [ford] in *; [|auto].
    assert (ub = 0) by lia. subst ub. cbn. split; [|reflexivity]. pose proof UOVER_big. lia. }
  destruct Hfb' as [Hfbr Hfbd].
  assert (Hexact : round_p2 false fb 0 = FFin false fb).
  { replace fb with (fb * 2 ^ 0) at 1 by (rewrite Z.pow_0_r; lia). apply round_p2_exact; auto; lia. }
  (* uniform description of b + x *)
  assert (Hadd : forall x, pos_shape x ->
            pos_shape (fadd (FFin sb ub) x) /\
            ford (fadd (FFin sb ub) x) = match x with FFin _ ux => ford (round_p2 false (fb + ux) 0) | _ => UINF end).
  { intros x [(u & -> & Hu)| ->].
    - unfold fadd. rewrite <- Hfbv. cbn [sval].
      destruct (fb + u =? 0) eqn:E.
      + apply Z.eqb_eq in E. rewrite E. rewrite andb_false_r. split; [left; exists 0; pose proof UOVER_big; split; [reflexivity | lia] | reflexivity].
      + apply Z.eqb_neq in E. replace (fb + u <? 0) with false by (symmetry; apply Z.ltb_ge; lia).
        rewrite Z.abs_eq by lia. split; [apply round_p2_pos_shape; lia | reflexivity].
    - cbn. split; [right; reflexivity | reflexivity]. }
  destruct (Hadd x1 H1) as [S1 F1]. destruct (Hadd x2 H2) as [S2 F2].
  split; [exact S1|]. split; [exact S2|]. rewrite F1, F2. pose proof UOVER_lt_UINF as HUU.
  destruct H1 as [(u1 & -> & Hu1)| ->], H2 as [(u2 & -> & Hu2)| ->]; cbn [ford] in Hle |- *.
  - split.
    + replace fb with (ford (round_p2 false fb 0)) at 1 by (rewrite Hexact; reflexivity).
      apply round_p2_mono; lia.
    + apply round_p2_mono; lia.
  - split.
    + replace fb with (ford (round_p2 false fb 0)) at 1 by (rewrite Hexact; reflexivity).
      apply round_p2_mono; lia.
    + destruct (round_p2_pos_shape (fb + u1) 0 ltac:(lia) ltac:(lia)) as [(w & -> & Hw)| ->]; cbn [ford]; lia.
  - lia.
  - split; lia.
Qed.

(* fmin with a finite limit *)
Lemma fmin_limit y l : pos_shape y -> 0 <= l < UOVER ->
  exists u, fmin y (FFin false l) = FFin false u /\ u = Z.min (ford y) l.
Proof.
  intros Hy Hl. unfold fmin, flt. pose proof UOVER_lt_UINF.
  destruct Hy as [(u & -> & Hu)| ->]; cbn [is_nan negb andb ford].
  - destruct (Z.ltb_spec l u); eexists; split; try reflexivity; lia.
  - replace (l <? UINF) with true by (symmetry; apply Z.ltb_lt; lia). eexists; split; [reflexivity | lia].
Qed.
