(* Bridge between predicate_formula.process_renames as GENERATED from the source (GristGen.ProcessRenames_gen,
   regenerated on every run by harness/pr2v.py) and the hand-written process_renames of Model/PredicateRename.v. *)
From Coq Require Import ZArith List Bool String.
Import ListNotations.
Require Import Grist.Model.Predicate Grist.Model.PredicateRename Grist.Model.PredVisit.
Require Import GristGen.Predicate_gen GristGen.ProcessRenames_gen Grist.Proofs.Predicate_bridge.
Open Scope Z_scope.
Open Scope list_scope.

Section Bridge.
  Context (k : collector) (r : renamer) (renamer : gent -> option str).
  (* the Python renamer sees a NamedEntity; the model renamer its type, name and extra *)
  Hypothesis renamer_agrees : forall e, renamer (gent_of e) = r (e_type e) (e_name e) (e_extra e).

  Lemma patch_loop dollars ents acc :
    fold_left (fun patches subject =>
                 match renamer subject with
                 | Some n => patches ++ [map_back_patch dollars (g_pos subject)
                                           (g_pos subject + Z.of_nat (List.length (g_name subject))) n]
                 | None => patches
                 end) (map gent_of ents) acc
    = acc ++ rename_patches r dollars ents.
  Proof.
    revert acc. induction ents as [|e t IH]; intros acc; cbn [map fold_left rename_patches flat_map].
    - rewrite app_nil_r. reflexivity.
    - rewrite IH, renamer_agrees. fold (rename_patches r dollars t).
      destruct (r (e_type e) (e_name e) (e_extra e)) as [n|]; cbn [app].
      + rewrite <- List.app_assoc. reflexivity.
      + reflexivity.
  Qed.

  Theorem gen_process_renames_bridge (formula : str) (dollar_ok : bool) (dollars : list Z) (ast : option expr) :
    match ast with Some e => wf_expr e = true | None => True end ->
    gen_process_renames k renamer formula (if dollar_ok then Some dollars else None) ast
    = process_renames k r formula dollar_ok dollars ast.
  Proof.
    intros Hwf. unfold gen_process_renames, process_renames. cbv zeta.
    destruct dollar_ok; cbn [negb]; [|reflexivity].
    destruct ast as [e|]; [|reflexivity].
    rewrite (gen_collect_bridge k e Hwf).
    destruct (visit k e) as [[t ents]|err]; cbn [lift_visit app]; [|reflexivity].
    rewrite patch_loop. reflexivity.
  Qed.
End Bridge.
