(* The executable invalidation (DepsExec) meets the guarantees the C05 kernel asks of an edit. *)
From Coq Require Import ZArith List Bool Lia.
Import ListNotations.
Require Import Grist.Model.Deps Grist.Model.DepsSpec Grist.Model.DepsExec.
Require Import Grist.Proofs.DepsSpec_proofs.
Require Import Grist.Proofs.Deps_closure_proofs Grist.Proofs.Deps_inval_proofs Grist.Proofs.Deps_order_proofs.
Require Import Grist.Proofs.Deps_rel_proofs.
Open Scope Z_scope.

(* engine state seen by the kernel: recompute_map as the dirty predicate *)
Definition to_state (v : cell -> Z) (f : cell -> option itree) (g : gst) : state :=
  mkS v f (in_map (g_map g)) (g_edges g) (g_rel g).

Definition all_rows_batches (st : list (node * rowset)) : Prop :=
  Forall (fun b => exists l, snd b = Rows l) st.

(* a walk over row batches never clears dependencies: graph and relation state are untouched *)
Lemma inval_rows_frame fuel : forall g st g',
  all_rows_batches st -> inval fuel g st true = Some g' ->
  g_edges g' = g_edges g /\ g_rel g' = g_rel g.
Proof.
  induction fuel as [| f IH]; intros g st g' Hs H; [discriminate |].
  cbn [inval] in H. destruct st as [| [n x] rest]; [inversion H; auto |].
  inversion Hs as [| b st' [l Hl] Hrest]; subst. cbn [snd] in Hl. subst x. cbn [negb] in H.
  assert (Hp : forall E R, all_rows_batches (rev (pushes E R n (Rows l)) ++ rest)).
  { intros E R. apply Forall_app. split; auto. apply Forall_forall. intros b Hb.
    rewrite <- in_rev in Hb. unfold pushes in Hb. apply in_map_iff in Hb.
    destruct Hb as (e & <- & _). cbn [snd]. rewrite affected_rows. eauto. }
  destruct (is_all (g_map g n)); [apply (IH _ _ _ Hrest H) |].
  match type of H with context [existsb ?p l] => destruct (existsb p l) end.
  - destruct (IH _ _ _ (Hp _ _) H) as [A B]. cbn [g_edges g_rel] in *. auto.
  - destruct (IH _ _ _ Hrest H) as [A B]. cbn [g_edges g_rel] in *. auto.
Qed.

Lemma invalidate_rows_frame fuel g n l incl g' :
  invalidate_deps fuel g n (Rows l) incl = Some g' ->
  g_edges g' = g_edges g /\ g_rel g' = g_rel g.
Proof.
  unfold invalidate_deps. destruct incl.
  - apply inval_rows_frame. constructor; [cbn [snd]; eauto | constructor].
  - destruct fuel as [| f]; [discriminate |]. cbn [inval negb]. apply inval_rows_frame.
    apply Forall_app. split; [| constructor]. apply Forall_forall. intros b Hb.
    rewrite <- in_rev in Hb. unfold pushes in Hb. apply in_map_iff in Hb.
    destruct Hb as (e & <- & _). cbn [snd]. rewrite affected_rows. eauto.
Qed.

Section DataEdit.
Variable guarded : state -> cell -> cell -> (Z -> Z) -> Prop.

(* UpdateRecord on a data cell d (column.set, then Engine.invalidate_records -> invalidate_column ->
   Graph.invalidate_deps(node, [row], recompute_map, include_self=False)) *)
Theorem data_edit_ok fuel v f g d x g' :
  owner_ok (g_edges g) -> f d = None ->
  invalidate_deps fuel g (fst d) (Rows [snd d]) false = Some g' ->
  (* the lazily tracked reads (lookup maps) are not data cells and do not look at column data *)
  (forall c d0 p, guarded (to_state v f g) c d0 p ->
     guarded (to_state (upd v d x) f g') c d0 p /\ p (upd v d x d0) = p (v d0)) ->
  edit_ok guarded (to_state v f g) (fun c => cell_eqb c d) (to_state (upd v d x) f g').
Proof.
  intros Ho Hf H Hg.
  destruct (invalidate_deps_spec _ _ _ _ _ _ Ho H) as (Hm & Hs & Hc).
  destruct (invalidate_rows_frame _ _ _ _ _ _ H) as [HE HR].
  constructor; cbn [to_state val fml dirty edges rst].
  - intros c Hc0. apply upd_other. intros ->. rewrite cell_eqb_refl in Hc0. discriminate.
  - reflexivity.
  - intros c Hd _. apply Hm. exact Hd.
  - intros c Hc0 Hfc. apply cell_eqb_eq in Hc0. subst c. contradiction.
  - intros d0 c Hd0 (via & Hin & Hcov) _. cbn [to_state edges rst] in Hin, Hcov.
    apply covers_In in Hcov. destruct c as [cn cr]. cbn [fst snd] in *.
    destruct Hd0 as [[Hd0 _] | [Hn Ho0]].
    + apply cell_eqb_eq in Hd0. subst d0.
      apply (Hs (cn, fst d, via) Hin eq_refl). cbn [snd e_rel]. rewrite affected_rows.
      apply in_rowset_rows. exact Hcov.
    + destruct (Hc d0 Hn Ho0) as (y & Hy & Hp & Hcb).
      destruct (RBi_rows _ _ _ _ _ _ _ Hp) as [l ->].
      apply (Hcb (cn, fst d0, via) Hin eq_refl). cbn [snd e_rel]. rewrite affected_rows.
      apply in_rowset_rows. apply aff_l_In. exists (snd d0). split; auto.
      apply in_rowset_rows. exact Hy.
  - intros d0 c _ _ (via & Hin & Hcov). exists via. cbn [to_state edges rst] in *.
    rewrite HE, HR. auto.
  - intros c d0 p _ _ G. apply Hg. exact G.
Qed.
End DataEdit.
