(* K6 proofs, part 20: update_summary_section under its guard keeps the invariant. *)
From Coq Require Import ZArith List Bool Lia.
Import ListNotations.
Require Import Grist.Model.MetaCascade Grist.Proofs.MetaCascade_base Grist.Proofs.MetaCascade_inv
  Grist.Proofs.MetaCascade_rm
  Grist.Proofs.MetaCascade_add Grist.Proofs.MetaCascade_add2 Grist.Proofs.MetaCascade_add3
  Grist.Proofs.MetaCascade_add4 Grist.Proofs.MetaCascade_add6 Grist.Proofs.MetaCascade_add7.
Open Scope Z_scope.

Lemma append_columns_inv : forall t kinds m,
  Inv m -> In t (tids m) -> Inv (set_columns m (m_columns m ++ new_columns (next_id (cids m)) t kinds)).
Proof.
  intros t kinds m HI Ht.
  assert (E : set_columns m (m_columns m ++ new_columns (next_id (cids m)) t kinds)
              = extend m [] (new_columns (next_id (cids m)) t kinds) [] [] [] [] [] []).
  { destruct m. unfold set_columns, extend. simpl. rewrite !app_nil_r. reflexivity. }
  rewrite E. destruct (inv_ids [] m HI) as [A [B [C [D [E' [F G]]]]]].
  apply inv_extend; try (intros ? Hnil; exact (False_ind _ Hnil)); try exact HI.
  - apply IdsOk_extend; try (apply IdList_nil; assumption). rewrite new_columns_ids. apply IdList_zseq. exact B.
  - apply NamesOk_extend_same. apply (inv_names [] m HI).
  - intros c Hc. apply new_columns_In in Hc. destruct Hc as [H1 [H2 [H3 [H4 H5]]]].
    unfold ColOk. rewrite H1, H2, H3, H4, H5. unfold tids, extend. simpl. rewrite app_nil_r.
    split; [exact Ht|]. split; [left; reflexivity|]. split; [left; reflexivity|]. split; [left; reflexivity | intros x []].
Qed.

Lemma regroup_target_inv : forall r m m1 tgt,
  Inv m -> regroup_target r m = Ok (m1, tgt) -> Inv m1 /\ In tgt (tids m1).
Proof.
  intros r m m1 tgt HI H. unfold regroup_target in H.
  destruct (negb (mem (rg_sec r) (sids m))); [discriminate|].
  destruct (negb (mem (rg_src r) (tids m) && cols_of_table m (rg_gb r) (rg_src r))) eqn:Es; [discriminate|].
  apply negb_false_iff in Es. apply andb_true_iff in Es. destruct Es as [Es Eg].
  apply mem_In in Es. apply cols_of_table_incl in Eg.
  destruct (rg_target r =? 0).
  - destruct (add_summary_table_inv _ _ _ _ _ _ _ _ HI Es Eg H) as [J1 [J2 _]]. split; assumption.
  - destruct (mem (rg_target r) (tids m)) eqn:Et; [|discriminate]. apply mem_In in Et.
    inversion H; subst m1 tgt. split; [apply append_columns_inv; assumption|].
    unfold tids, set_columns. simpl. exact Et.
Qed.

Lemma regroup_fields_inv : forall r tgt m1,
  Inv m1 -> In tgt (tids m1) -> regroup_guard r tgt m1 = true -> Inv (regroup_fields r tgt m1).
Proof.
  intros r tgt m1 HI1 Ht Hg. unfold regroup_guard in Hg.
  apply andb_true_iff in Hg. destruct Hg as [Hg G3]. apply andb_true_iff in Hg. destruct Hg as [G1 G2].
  rewrite forallb_forall in G2, G3.
  assert (G1' : forall t, In t (m_tables m1) -> t_raw t <> rg_sec r /\ t_card t <> rg_sec r).
  { intros t Ht0. apply negb_true_iff in G1.
    destruct ((t_raw t =? rg_sec r) || (t_card t =? rg_sec r)) eqn:E.
    - exfalso. assert (existsb (fun t0 => (t_raw t0 =? rg_sec r) || (t_card t0 =? rg_sec r)) (m_tables m1) = true)
        by (apply existsb_exists; exists t; split; assumption). congruence.
    - apply orb_false_iff in E. destruct E as [E1 E2]. apply Z.eqb_neq in E1, E2. split; assumption. }
  set (sec := rg_sec r) in *.
  set (h := fun f => match lookup (f_id f) (rg_remap r) with Some c => with_fcol c f | None => f end).
  set (g := fun s => if s_id s =? sec then with_stable tgt s else s).
  pose proof (rm_fields_inv [] (rg_dels r) m1 HI1) as HI2.
  set (m2 := rm_fields (rg_dels r) m1) in *.
  set (m' := regroup_fields r tgt m1) in *.
  assert (Hh : forall f, f_id (h f) = f_id f /\ f_section (h f) = f_section f /\ f_display (h f) = f_display f /\
                         f_visible (h f) = f_visible f /\ f_rules (h f) = f_rules f).
  { intros f. unfold h. destruct (lookup (f_id f) (rg_remap r)); simpl; tauto. }
  assert (Hgs : forall s, s_id (g s) = s_id s /\ s_view (g s) = s_view s /\ s_rules (g s) = s_rules s).
  { intros s. unfold g. destruct (s_id s =? sec); simpl; tauto. }
  set (nf := new_fields (next_id (map f_id (map h (m_fields m2)))) sec (rg_new r)).
  assert (EF : m_fields m' = map h (m_fields m2) ++ nf) by reflexivity.
  assert (ES : m_sections m' = map g (m_sections m2)) by reflexivity.
  assert (ET : m_tables m' = m_tables m2) by reflexivity.
  assert (EC : m_columns m' = m_columns m2) by reflexivity.
  assert (EV : m_views m' = m_views m2) by reflexivity.
  assert (Etid : tids m' = tids m2) by reflexivity.
  assert (Ecid : cids m' = cids m2) by reflexivity.
  assert (Efid0 : map f_id (map h (m_fields m2)) = fids m2) by (apply map_map_id; intros f; apply Hh).
  destruct HI2 as [I1 I2 I3 I4 I5 I6 I7 I8].
  constructor.
  - destruct I1 as [A [B [C [D [E [F G]]]]]]. unfold IdsOk. rewrite Etid, Ecid, EV.
    split; [exact A|]. split; [exact B|]. split; [exact C|].
    split; [unfold sids; rewrite ES; rewrite map_map_id; [exact D | intros s; apply Hgs]|].
    split; [|split; assumption].
    unfold fids. rewrite EF, map_app. unfold nf. rewrite new_fields_ids, Efid0. apply IdList_zseq. exact E.
  - intros c Hc. rewrite EC in Hc. specialize (I2 c Hc). unfold ColOk in *. rewrite Etid, Ecid. exact I2.
  - intros f Hf.
    assert (Hopt : Optref (cids m') (f_display f) /\ Optref (cids m') (f_visible f) /\ incl (f_rules f) (cids m')).
    { rewrite Ecid. rewrite EF in Hf. apply in_app_iff in Hf. destruct Hf as [Hf|Hf].
      - apply in_map_iff in Hf. destruct Hf as [f0 [E0 Hf0]]. subst f. destruct (Hh f0) as [_ [_ [H3 [H4 H5]]]].
        rewrite H3, H4, H5. destruct (I3 f0 Hf0) as [_ J]. exact J.
      - apply new_fields_In in Hf. destruct Hf as [_ [_ [H3 [H4 H5]]]]. rewrite H3, H4, H5.
        split; [left; reflexivity|]. split; [left; reflexivity | intros x []]. }
    split; [|exact Hopt].
    destruct (f_section f =? sec) eqn:Esec.
    + apply Z.eqb_eq in Esec. specialize (G3 f Hf). fold sec in G3.
      rewrite Esec in G3. rewrite Z.eqb_refl in G3. simpl in G3. rewrite Esec. apply col_of_section_iff. exact G3.
    + apply Z.eqb_neq in Esec. rewrite EF in Hf. apply in_app_iff in Hf. destruct Hf as [Hf|Hf].
      * apply in_map_iff in Hf. destruct Hf as [f0 [E0 Hf0]].
        assert (Hf1 : In f0 (m_fields m1)) by (unfold m2 in Hf0; simpl in Hf0; apply filter_In in Hf0; tauto).
        assert (Es0 : f_section f0 <> sec) by (destruct (Hh f0) as [_ [H2 _]]; rewrite <- H2, E0; exact Esec).
        specialize (G2 f0 Hf1). apply Z.eqb_neq in Es0. rewrite Es0 in G2. simpl in G2.
        assert (Ehf : h f0 = f0) by (unfold h; destruct (lookup (f_id f0) (rg_remap r)); [discriminate | reflexivity]).
        rewrite Ehf in E0. subst f0.
        destruct (I3 f Hf0) as [[sr [cr [Hs [H1 [Hc [H2 H3]]]]]] _].
        exists sr, cr. rewrite ES, EC. split.
        { apply in_map_iff. exists sr. split; [|exact Hs]. unfold g. rewrite H1. apply Z.eqb_neq in Esec.
          rewrite Esec. reflexivity. }
        tauto.
      * apply new_fields_In in Hf. destruct Hf as [H1 _]. contradiction.
  - intros s' Hs'. rewrite ES in Hs'. apply in_map_iff in Hs'. destruct Hs' as [s [E Hs]]. subst s'.
    destruct (I4 s Hs) as [J1 [J2 J3]]. destruct (Hgs s) as [_ [H2 H3]].
    unfold SecOk. rewrite Etid, Ecid, EV, H2, H3. split; [|split; assumption].
    unfold g. destruct (s_id s =? sec); [simpl; exact Ht | exact J1].
  - intros t Ht0 Hx. rewrite ET in Ht0. destruct (I5 t Ht0 Hx) as [J1 [J2 [J3 J4]]].
    destruct (G1' t Ht0) as [Nr Nc].
    assert (Hsec : forall sid, sid <> sec -> SecOfTable m2 sid (t_id t) -> SecOfTable m' sid (t_id t)).
    { intros sid Hn [s [Hs [H1 H2]]]. exists s. rewrite ES. split; [|tauto].
      apply in_map_iff. exists s. split; [|exact Hs]. unfold g. rewrite H1. apply Z.eqb_neq in Hn. rewrite Hn. reflexivity. }
    unfold TableOk. rewrite Etid, EV. split; [apply Hsec; assumption|].
    split; [destruct J2 as [J2|J2]; [left; exact J2 | right; apply Hsec; assumption] | split; assumption].
  - intros b Hb. apply (I6 b Hb).
  - intros b Hb. apply (I7 b Hb).
  - exact I8.
Qed.

Lemma apply_regroup_guarded_inv : forall r m m', Inv m -> apply_regroup_guarded r m = Ok m' -> Inv m'.
Proof.
  intros r m m' HI H. unfold apply_regroup_guarded in H.
  destruct (regroup_target r m) as [[m1 tgt]| |] eqn:Et; simpl in H; try discriminate.
  destruct (regroup_target_inv r m m1 tgt HI Et) as [HI1 Ht].
  destruct (regroup_guard r tgt m1) eqn:Eg; [|discriminate]. inversion H; subst m'.
  apply regroup_fields_inv; assumption.
Qed.

Lemma apply_regroups_guarded_inv : forall rs m m', Inv m -> apply_regroups_guarded rs m = Ok m' -> Inv m'.
Proof.
  induction rs as [|r t IH]; intros m m' HI H; simpl in H.
  - inversion H; subst. exact HI.
  - destruct (apply_regroup_guarded r m) as [m1| |] eqn:E; simpl in H; try discriminate.
    apply (IH m1 m'); [apply (apply_regroup_guarded_inv r m m1 HI E) | exact H].
Qed.

(* the guarded run is the faithful run whenever it is defined *)
Lemma apply_regroup_guarded_agrees : forall r m m', apply_regroup_guarded r m = Ok m' -> apply_regroup r m = Ok m'.
Proof.
  intros r m m' H. unfold apply_regroup_guarded, apply_regroup in *.
  destruct (regroup_target r m) as [[m1 tgt]| |]; simpl in *; try discriminate.
  destruct (regroup_guard r tgt m1); [exact H | discriminate].
Qed.

Lemma apply_regroups_guarded_agrees : forall rs m m', apply_regroups_guarded rs m = Ok m' -> apply_regroups rs m = Ok m'.
Proof.
  induction rs as [|r t IH]; intros m m' H; simpl in *; [exact H|].
  destruct (apply_regroup_guarded r m) as [m1| |] eqn:E; simpl in H; try discriminate.
  rewrite (apply_regroup_guarded_agrees r m m1 E). simpl. apply IH. exact H.
Qed.
