(* K6 proofs, part 20: update_summary_section (regrouping a section) keeps the invariant when the section is not
   the raw or record-card section of a table. *)
From Coq Require Import ZArith List Bool Lia.
Import ListNotations.
Require Import Grist.Model.MetaCascade Grist.Proofs.MetaCascade_base Grist.Proofs.MetaCascade_inv
  Grist.Proofs.MetaCascade_rm
  Grist.Proofs.MetaCascade_add Grist.Proofs.MetaCascade_add2 Grist.Proofs.MetaCascade_add3
  Grist.Proofs.MetaCascade_add4 Grist.Proofs.MetaCascade_add6 Grist.Proofs.MetaCascade_add7 Grist.Proofs.MetaCascade_sumd.
Open Scope Z_scope.

Lemma append_columns_inv : forall t kinds m,
  Inv m -> In t (tids m) -> Inv (set_columns m (m_columns m ++ new_columns (next_id (cids m)) t kinds)).
Proof.
  intros t kinds m HI Ht.
  assert (E : set_columns m (m_columns m ++ new_columns (next_id (cids m)) t kinds)
              = extend m [] (new_columns (next_id (cids m)) t kinds) [] [] [] [] [] []).
  { destruct m. unfold set_columns, extend. simpl. rewrite !app_nil_r. reflexivity. }
  rewrite E. destruct (inv_ids [] m HI) as [A [B [C [D [E' [F G]]]]]].
  apply inv_extend; try (intros ? Hnil; exact (False_ind _ Hnil)); try exact HI.
  - apply IdsOk_extend; try (apply IdList_nil; assumption). rewrite new_columns_ids. apply IdList_zseq. exact B.
  - apply NamesOk_extend_same. apply (inv_names [] m HI).
  - intros c Hc. apply new_columns_In in Hc. destruct Hc as [H1 [H2 [H3 [H4 H5]]]].
    unfold ColOk. rewrite H1, H2, H3, H4, H5. unfold tids, extend. simpl. rewrite app_nil_r.
    split; [exact Ht|]. split; [left; reflexivity|]. split; [left; reflexivity|]. split; [left; reflexivity | intros x []].
Qed.

Lemma add_summary_table_sections : forall name src gb gbkinds fkinds m m' t,
  add_summary_table name src gb gbkinds fkinds m = Ok (m', t) -> incl (m_sections m) (m_sections m').
Proof.
  intros name src gb gbkinds fkinds m m' t H. unfold add_summary_table in H.
  destruct (mem name (m_schema m) || mem name (map t_name (m_tables m))); [discriminate|].
  destruct (negb (Nat.eqb (length gb) (length gbkinds)) || negb (nodupb gb)); [discriminate|].
  unfold add_section in H. cbv zeta in H. cbn [fst snd] in H. inversion H; subst m'. clear H.
  unfold set_tables, add_fields, set_fields, set_sections. cbn [m_sections]. apply incl_appl, incl_refl.
Qed.

Lemma regroup_target_inv : forall r m m1 tgt,
  Inv m -> regroup_target r m = Ok (m1, tgt) ->
  Inv m1 /\ In tgt (tids m1) /\ In (rg_sec r) (sids m1).
Proof.
  intros r m m1 tgt HI H. unfold regroup_target in H.
  destruct (negb (mem (rg_sec r) (sids m))) eqn:Esec; [discriminate|].
  apply negb_false_iff in Esec. apply mem_In in Esec.
  destruct (negb (mem (rg_src r) (tids m) && cols_of_table m (rg_gb r) (rg_src r))) eqn:Es; [discriminate|].
  apply negb_false_iff in Es. apply andb_true_iff in Es. destruct Es as [Es Eg].
  apply mem_In in Es. apply cols_of_table_incl in Eg.
  destruct (rg_target r =? 0).
  - destruct (add_summary_table_d_inv _ _ _ _ _ _ _ _ _ HI Es Eg H) as [J1 [J2 [_ Hs]]].
    split; [exact J1|]. split; [exact J2|].
    unfold sids in *. apply in_map_iff in Esec. destruct Esec as [s [E Hs0]]. apply in_map_iff. exists s.
    split; [exact E | apply Hs; exact Hs0].
  - destruct (mem (rg_target r) (tids m)) eqn:Et; [|discriminate]. apply mem_In in Et.
    inversion H; subst m1 tgt. split; [apply append_columns_inv; assumption|].
    split; [unfold tids, set_columns; simpl; exact Et | unfold sids, set_columns; simpl; exact Esec].
Qed.

Lemma cols_of_table_spec : forall m cols t c, cols_of_table m cols t = true -> In c cols ->
  exists cr, In cr (m_columns m) /\ c_id cr = c /\ c_parent cr = t.
Proof.
  intros m cols t c H Hc. unfold cols_of_table in H. rewrite forallb_forall in H. specialize (H c Hc).
  apply existsb_exists in H. destruct H as [cr [Hcr Hp]]. apply andb_true_iff in Hp. destruct Hp as [H1 H2].
  apply Z.eqb_eq in H1, H2. exists cr. tauto.
Qed.

Lemma lookup_In : forall k l c, lookup k l = Some c -> In c (map snd l).
Proof.
  intros k. induction l as [|[a b] t IH]; intros c H; simpl in *; [discriminate|].
  destruct (a =? k); [inversion H; subst; left; reflexivity | right; apply IH; exact H].
Qed.
