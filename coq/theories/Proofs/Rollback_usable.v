(* "The engine stays usable": after a rollback that restored the document, recomputing any set of dirty cells
   changes nothing, so a following Calculate emits no action (C04, second half). *)
From stdpp Require Import gmap sorting.
Require Import Grist.Model.Rollback Grist.Proofs.Rollback_proofs Grist.Proofs.Rollback_actions.
Open Scope Z_scope.

Lemma cset_same rows col r : wf_col rows col -> cset col r (cget col r) = col.
Proof.
  intros Hw. destruct col as [ci data]. unfold cset, cget, cdefault in *. simpl in *. f_equal.
  destruct (data !! r) as [v|] eqn:E; simpl.
  - destruct (proj1 (map_Forall_lookup _ _) Hw _ _ E) as [Hv _]. simpl in Hv. rewrite decide_False by exact Hv.
    apply insert_id. exact E.
  - rewrite decide_True by reflexivity. apply delete_notin. exact E.
Qed.

Section Usable.
  (* the value a formula cell's formula yields on a document: a function of the document alone (no clock, no
     randomness, no dependence on evaluation order or caches) *)
  Variable eval : doc -> name -> name -> rowid -> val.

  Definition cell := (name * name * rowid)%type.

  Definition formula_cell (d : doc) (x : cell) : Prop :=
    exists tb col, d_tables d !! x.1.1 = Some tb /\ t_cols tb !! x.1.2 = Some col /\
                   ci_isformula (c_info col) = true /\ x.2 ∈ t_rows tb.

  (* every formula cell holds the value of its formula (what C05 establishes for documents reached by complete
     bundles; in particular nothing is stale) *)
  Definition consistent (d : doc) : Prop :=
    forall x tb col, d_tables d !! x.1.1 = Some tb -> t_cols tb !! x.1.2 = Some col ->
      ci_isformula (c_info col) = true -> x.2 ∈ t_rows tb -> cget col x.2 = eval d x.1.1 x.1.2 x.2.

  (* recompute one dirty cell, then the next one on the result (as _update_loop does) *)
  Definition recalc_cell (d : doc) (x : cell) : doc :=
    upd_table x.1.1 (upd_col x.1.2 (fun col => cset col x.2 (eval d x.1.1 x.1.2 x.2))) d.
  Definition recalc (d : doc) (dirty : list cell) : doc := foldl recalc_cell d dirty.
  (* the cell changes a Calculate over the dirty cells would report *)
  Fixpoint calc_emits (d : doc) (dirty : list cell) : list (cell * val) :=
    match dirty with
    | [] => []
    | x :: rest =>
        let v := eval d x.1.1 x.1.2 x.2 in
        let old := d_tables d !! x.1.1 ≫= fun tb => t_cols tb !! x.1.2 ≫= fun col => Some (cget col x.2) in
        (if decide (old = Some v) then [] else [(x, v)]) ++ calc_emits (recalc_cell d x) rest
    end.

  Lemma recalc_cell_id d x : wf d -> consistent d -> formula_cell d x -> recalc_cell d x = d.
  Proof.
    intros Hw Hc (tb & col & Ht & Hcol & Hf & Hr). unfold recalc_cell.
    rewrite (upd_table_tset _ _ _ _ Ht). rewrite <- (tset_id _ _ _ Ht) at 2. f_equal.
    rewrite <- (upd_col_id x.1.2 tb) at 2. apply upd_col_ext. intros col' Hcol'. assert (col' = col) by congruence. subst col'.
    rewrite <- (Hc x tb col Ht Hcol Hf Hr).
    destruct (wf_schema_of_table _ _ _ Hw Ht) as (sc & _ & Hwt).
    apply (cset_same (t_rows tb)). exact (proj2 (wf_table_col _ _ _ _ Hwt Hcol)).
  Qed.

  Theorem usable_after d dirty :
    wf d -> consistent d -> Forall (formula_cell d) dirty -> recalc d dirty = d /\ calc_emits d dirty = [].
  Proof.
    intros Hw Hc Hd. induction Hd as [|x dirty Hx _ IH]; [split; reflexivity|].
    unfold recalc in *. simpl. rewrite (recalc_cell_id d x Hw Hc Hx). split; [exact (proj1 IH)|].
    rewrite (proj2 IH), app_nil_r. destruct Hx as (tb & col & Ht & Hcol & Hf & Hr). rewrite Ht. simpl. rewrite Hcol. simpl.
    rewrite decide_True; [reflexivity|]. f_equal. exact (Hc x tb col Ht Hcol Hf Hr).
  Qed.
End Usable.
