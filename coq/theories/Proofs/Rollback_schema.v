(* Crash points inside schema doc actions that the saved_schema restore of apply_doc_action does repair (C04). *)
From stdpp Require Import gmap sorting.
Require Import Grist.Model.Rollback Grist.Proofs.Rollback_proofs Grist.Proofs.Rollback_actions Grist.Proofs.Rollback_undo
  Grist.Proofs.Rollback_run Grist.Proofs.Rollback_inside Grist.Proofs.Rollback_flush.
Open Scope Z_scope.

Definition is_sch (m : mstep) : Prop := exists sch, m = MSchema sch.

(* only the schema clone and in-place mutations of engine.schema have run: the Table/Column objects are untouched *)
Lemma exec_sch_steps rest : forall st st',
  Forall is_sch rest -> exec_all st rest = Some st' ->
  d_tables (ms_doc st') = d_tables (ms_doc st) /\ ms_undo st' = ms_undo st /\ ms_pending st' = ms_pending st /\
  ms_saved st' = ms_saved st.
Proof.
  induction rest as [|m rest IH]; intros st st' Hf H.
  - injection H as <-. auto.
  - inversion Hf as [|? ? [sch ->] Hf']; subst. simpl in H. destruct (IH _ _ Hf' H) as (H1 & H2 & H3 & H4).
    simpl in *. auto.
Qed.

Section Schema.
  Variable ord : name -> list name.
  Variable s0 : doc.
  Variable u0 : list action.

  Lemma rollback_tables st st' :
    Inv ord s0 u0 st -> d_tables (ms_doc st') = d_tables (ms_doc st) -> ms_undo st' = ms_undo st ->
    ms_saved st' = Some (d_schema (ms_doc st)) ->
    rollback ord (length u0) st' = Some s0.
  Proof.
    intros (Hw & Hsv & ua & Hu & Hre) Ht Hun Hs. unfold rollback, restore_schema.
    rewrite Hun, Hu, drop_app, Hs, Ht, doc_eta, (rebuild_id _ Hw). exact Hre.
  Qed.

  (* (a) any schema action, crash after the clone and the in-place schema mutation(s), before rebuild_usercode *)
  Lemma rollback_before_rebuild st rest st' :
    Inv ord s0 u0 st -> Forall is_sch rest -> exec_all st (MSave :: rest) = Some st' ->
    rollback ord (length u0) st' = Some s0.
  Proof.
    intros HI Hf H. simpl in H. destruct (exec_sch_steps rest _ _ Hf H) as (H1 & H2 & _ & H4). simpl in *.
    apply (rollback_tables st st' HI H1 H2 H4).
  Qed.

  (* (b) AddColumn / AddTable, crash after rebuild_usercode and before the undo append: the restored schema makes
     rebuild_usercode destroy the (still empty) new column / table again *)
  Lemma rollback_add_column_rebuilt st t c ci sch' rest st' :
    Inv ord s0 u0 st ->
    steps_of ord (ms_doc st) (AddColumn t c ci) = MSave :: MSchema sch' :: MRebuild :: rest ->
    exec_all st [MSave; MSchema sch'; MRebuild] = Some st' ->
    rollback ord (length u0) st' = Some s0.
  Proof.
    intros HI Hsteps Hex. pose proof HI as (Hw & Hsv & ua & Hu & Hre). set (d := ms_doc st) in *.
    unfold steps_of in Hsteps. destruct (d_tables d !! t) as [tb|] eqn:Ht; [|discriminate].
    destruct (d_schema d !! t) as [sc|] eqn:Hs; [|discriminate].
    destruct (bool_decide (is_Some (t_cols tb !! c))) eqn:Ec; [discriminate|].
    apply bool_decide_eq_false in Ec. assert (Hc : t_cols tb !! c = None) by (destruct (t_cols tb !! c); [exfalso; eauto|reflexivity]).
    injection Hsteps as <- _. assert (Hwt : wf_table sc tb) by (eapply wf_lookup; eauto).
    cbn [exec_all exec_step] in Hex. injection Hex as <-.
    unfold rollback, restore_schema, on_doc. cbn [ms_doc ms_undo ms_saved d_tables d_schema]. fold d.
    rewrite (rebuild_one d t _ Hw), Ht, (rebuild_table_add_col sc tb c ci Hwt Hc). cbn [d_tables]. rewrite Hu, drop_app.
    set (d1 := mk_doc (<[t := <[c := ci]> sc]> (d_schema d)) (<[t := Table (t_rows tb) (<[c := new_col ci]> (t_cols tb))]> (d_tables d))).
    assert (Hw1 : wf d1) by (apply wf_tset; [exact Hw|apply wf_table_insert; [exact Hwt|reflexivity|apply wf_col_new]]).
    replace {| d_schema := d_schema d; d_tables := <[t := Table (t_rows tb) (<[c := new_col ci]> (t_cols tb))]> (d_tables d) |}
      with {| d_schema := <[t := delete c (<[c := ci]> sc)]> (d_schema d1); d_tables := d_tables d1 |}.
    2: { unfold d1, mk_doc. simpl. rewrite insert_insert, (delete_insert _ _ _ (wf_table_col_none _ _ _ Hwt Hc)), (insert_id _ _ _ Hs). reflexivity. }
    rewrite (rebuild_one d1 t _ Hw1). unfold d1 at 2. simpl. rewrite lookup_insert.
    rewrite (rebuild_table_del_col (<[c := ci]> sc) _ c) by (apply wf_table_insert; [exact Hwt|reflexivity|apply wf_col_new]).
    simpl. rewrite (delete_insert _ _ _ Hc), table_eta. unfold d1, mk_doc. simpl.
    rewrite !insert_insert, (delete_insert _ _ _ (wf_table_col_none _ _ _ Hwt Hc)), (insert_id _ _ _ Hs), (insert_id _ _ _ Ht), doc_eta.
    exact Hre.
  Qed.

  Lemma rollback_add_table_rebuilt st t cols sch' rest st' :
    Inv ord s0 u0 st ->
    steps_of ord (ms_doc st) (AddTable t cols) = MSave :: MSchema sch' :: MRebuild :: rest ->
    exec_all st [MSave; MSchema sch'; MRebuild] = Some st' ->
    rollback ord (length u0) st' = Some s0.
  Proof.
    intros HI Hsteps Hex. pose proof HI as (Hw & Hsv & ua & Hu & Hre). set (d := ms_doc st) in *.
    unfold steps_of in Hsteps. destruct (d_tables d !! t) as [tb|] eqn:Ht; [discriminate|].
    injection Hsteps as <- _. cbn [exec_all exec_step] in Hex. injection Hex as <-.
    unfold rollback, restore_schema, on_doc. cbn [ms_doc ms_undo ms_saved d_tables d_schema]. fold d.
    rewrite (rebuild_one d t _ Hw), Ht, rebuild_table_none. cbn [d_tables]. rewrite Hu, drop_app.
    set (d1 := mk_doc (<[t := list_to_map cols]> (d_schema d)) (<[t := Table ∅ (new_col <$> list_to_map cols)]> (d_tables d))).
    assert (Hw1 : wf d1) by (apply wf_tset; [exact Hw|apply wf_table_new]).
    assert (Hs : d_schema d !! t = None) by (apply (wf_none _ _ Hw Ht)).
    replace {| d_schema := d_schema d; d_tables := <[t := Table ∅ (new_col <$> list_to_map cols)]> (d_tables d) |}
      with {| d_schema := delete t (d_schema d1); d_tables := d_tables d1 |}
      by (unfold d1, mk_doc; simpl; rewrite (delete_insert _ _ _ Hs); reflexivity).
    rewrite (rebuild_delete d1 t Hw1). unfold d1, mk_doc. simpl.
    rewrite (delete_insert _ _ _ Hs), (delete_insert _ _ _ Ht), doc_eta. exact Hre.
  Qed.

  (* crash points restored by the saved_schema snapshot, in addition to covered_point:
     (a) inside ANY schema doc action after the clone and the in-place mutation(s) of engine.schema, before the first
         rebuild_usercode;  (b) inside AddColumn / AddTable after rebuild_usercode, before the undo append. *)
  Definition snapshot_point (cur : option event) (done : list mstep) : Prop :=
    (exists rest, done = MSave :: rest /\ Forall is_sch rest) \/
    (exists a sch', cur = Some (EDoc a) /\ (exists t c ci, a = AddColumn t c ci \/ exists cols, a = AddTable t cols) /\
                    done = [MSave; MSchema sch'; MRebuild]).

  Theorem rollback_covered_or_snapshot es : forall st k st_k cur done,
    Inv ord s0 u0 st -> Forall no_replace_ev es ->
    run_until_crash ord st es k = Crashed st_k cur done ->
    ms_pending st_k = [] -> covered_point cur done \/ snapshot_point cur done ->
    rollback ord (length u0) st_k = Some s0.
  Proof.
    induction es as [|e es IH]; intros st k st_k cur done HI Hnr H Hp Hcov; simpl in H.
    - destruct k; [|discriminate]. injection H as <- <- <-. apply (rollback_inv ord s0 u0 st); auto. left. exact (proj1 (proj2 HI)).
    - inversion Hnr as [|? ? Hnr1 Hnr2]; subst.
      destruct (exec_upto st (event_steps ord (ms_doc st) e) k []) as [[st' dn] r] eqn:E.
      destruct (exec_upto_spec _ _ _ _ _ _ _ E) as (l & rest & Hdn & Hsteps & Hex & Hrest). simpl in Hdn. subst dn.
      destruct r as [k'|].
      + rewrite (Hrest (ltac:(eauto))), app_nil_r in Hsteps. subst l.
        destruct (run_pending _ _ _ _ _ _ _ H) as (p2 & Hp2). rewrite Hp in Hp2. symmetry in Hp2. apply app_eq_nil in Hp2 as [Hp' _].
        destruct (exec_all_pending _ _ _ Hex) as (p1 & Hp1). rewrite Hp' in Hp1. symmetry in Hp1. apply app_eq_nil in Hp1 as [Hp0 _].
        eapply IH; [eapply event_complete; eauto|exact Hnr2|exact H|exact Hp|exact Hcov].
      + destruct Hcov as [Hcov|Hsnap].
        * assert (Hrun : run_until_crash ord st (e :: es) k = Crashed st_k cur done) by (simpl; rewrite E; exact H).
          exact (rollback_covered ord s0 u0 (e :: es) st k st_k cur done HI Hnr Hrun Hp Hcov).
        * injection H as <- <- <-. destruct Hsnap as [(rst & -> & Hf)|(a & sch' & [= ->] & (t & c & ci & Ha) & ->)].
          -- eapply rollback_before_rebuild; eauto.
          -- simpl in Hsteps. unfold doc_steps in Hsteps.
             destruct Ha as [->|[cols ->]]; simpl normalize in Hsteps;
               [eapply rollback_add_column_rebuilt|eapply rollback_add_table_rebuilt]; eauto.
  Qed.
End Schema.

Theorem rollback_flush_snapshot ord s es k st cur done :
  wf s -> Forall no_replace_ev es ->
  run_until_crash ord (init_state s []) es k = Crashed st cur done ->
  ms_pending st = [] -> covered_point cur done \/ snapshot_point cur done ->
  rollback_flush ord st (sum_log (run_log ord (init_state s []) es k)) = Some s.
Proof.
  intros Hw Hnr Hrun Hp Hcov. rewrite (rollback_flush_no_pending _ _ _ _ _ _ _ Hrun Hp).
  exact (rollback_covered_or_snapshot ord s [] es _ k st cur done (Inv_init ord s [] Hw) Hnr Hrun Hp Hcov).
Qed.
