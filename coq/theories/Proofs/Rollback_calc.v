(* Pending calc deltas of one recomputed column are rolled back by flush + revert (C04). *)
From stdpp Require Import gmap sorting.
Require Import Grist.Model.Rollback Grist.Proofs.Rollback_proofs Grist.Proofs.Rollback_actions Grist.Proofs.Rollback_undo
  Grist.Proofs.Rollback_run Grist.Proofs.Rollback_inside Grist.Proofs.Rollback_flush.
Open Scope Z_scope.

(* the last value assigned to row r by a list of (row, value) writes *)
Definition lastv (l : list (rowid * val)) (r : rowid) : option val :=
  foldl (fun acc rv => if decide (rv.1 = r) then Some rv.2 else acc) None l.

Lemma lastv_snoc l r0 v r : lastv (l ++ [(r0, v)]) r = if decide (r0 = r) then Some v else lastv l r.
Proof. unfold lastv. rewrite foldl_app. reflexivity. Qed.

Lemma lastv_None l r : lastv l r = None <-> r ∉ l.*1.
Proof.
  induction l as [|[r0 v] l IH] using rev_ind; [simpl; split; [intros _; apply not_elem_of_nil|reflexivity]|].
  rewrite lastv_snoc, fmap_app, elem_of_app. simpl. destruct (decide (r0 = r)) as [->|Hne].
  - split; [discriminate|]. intros H. exfalso. apply H. right. left.
  - rewrite IH. split; [intros H [?|Hx]; [contradiction|apply elem_of_list_singleton in Hx; congruence]|intros H Hx; apply H; left; exact Hx].
Qed.

Lemma cget_cset_list_last l : forall col r, cget (cset_list col l) r = default (cget col r) (lastv l r).
Proof.
  induction l as [|[r0 v] l IH] using rev_ind; intros col r; [reflexivity|].
  unfold cset_list in *. rewrite foldl_app. simpl. rewrite cget_cset, lastv_snoc.
  destruct (decide (r = r0)) as [->|Hne]; [rewrite decide_True by reflexivity; reflexivity|].
  rewrite decide_False by (intros E; apply Hne; symmetry; exact E). apply IH.
Qed.

(* ActionSummary.add_changes on one column's delta map, all `before` values read from col at the batch start *)
Definition merge_changes (m : gmap rowid (val * val)) (ch : list (rowid * val * val)) : gmap rowid (val * val) :=
  foldl (fun m ch => <[ch.1.1 := (from_option fst ch.1.2 (m !! ch.1.1), ch.2)]> m) m ch.

Lemma merge_changes_spec col cells : forall m r,
  merge_changes m (map (fun rv => (rv.1, cget col rv.1, rv.2)) cells) !! r
  = match lastv cells r with
    | None => m !! r
    | Some v => Some (from_option fst (cget col r) (m !! r), v)
    end.
Proof.
  induction cells as [|[r0 v] cells IH] using rev_ind; intros m r; [reflexivity|].
  unfold merge_changes in *. rewrite map_app, foldl_app, lastv_snoc. simpl.
  destruct (decide (r0 = r)) as [->|Hne].
  - rewrite lookup_insert. f_equal. f_equal. rewrite IH. destruct (lastv cells r); reflexivity.
  - rewrite lookup_insert_ne by auto. apply IH.
Qed.

(* ---------------------------------------------------------------------------------------------------------- *)
Section OneCalcColumn.
  Variable ord : name -> list name.
  Variable s : doc.                  (* the document at the checkpoint *)
  Variable T C : name.               (* the recomputed column *)
  Variable tbs : table.
  Variable col0 : column.
  Hypothesis Hwfs : wf s.
  Hypothesis HT : d_tables s !! T = Some tbs.
  Hypothesis HC : t_cols tbs !! C = Some col0.

  (* the events of the bundle: record updates that do not write column C of T, and recalculations of that column *)
  Definition ev_ok (e : event) : Prop :=
    match e with
    | EDoc a => match normalize a with
                | BulkUpdateRecord t _ vals => ~ (t = T /\ C ∈ vals.*1)
                | _ => False end
    | ECalc t c _ => t = T /\ c = C
    end.

  (* the document with the recomputed column put back to its checkpoint content *)
  Definition rho (d : doc) : doc := upd_table T (upd_col C (fun _ => col0)) d.

  Lemma rho_idem_col f d : rho (upd_table T (upd_col C f) d) = rho d.
  Proof. unfold rho. rewrite upd_table_compose. apply upd_table_ext. intros tb _. rewrite upd_col_compose. reflexivity. Qed.

  Lemma upd_table_tset_ne t t' f tb d : t ≠ t' -> upd_table t f (tset t' tb d) = tset t' tb (upd_table t f d).
  Proof.
    intros Hne. unfold upd_table, tset. simpl. f_equal. apply map_eq. intros x.
    destruct (decide (x = t)) as [E1|H1].
    - subst x. rewrite lookup_alter, lookup_insert_ne, lookup_insert_ne, lookup_alter by auto. reflexivity.
    - rewrite lookup_alter_ne by auto. destruct (decide (x = t')) as [E2|H2].
      + subst x. rewrite !lookup_insert. reflexivity.
      + rewrite !lookup_insert_ne by auto. rewrite lookup_alter_ne by auto. reflexivity.
  Qed.

  Lemma upd_table_tset_eq t f tb d : upd_table t f (tset t tb d) = tset t (f tb) d.
  Proof. rewrite (upd_table_tset t f (tset t tb d) tb) by apply tset_lookup. apply tset_tset. Qed.

  (* writing other columns commutes with resetting column C *)
  Lemma write_cols_reset rows vals tb :
    C ∉ vals.*1 ->
    upd_col C (fun _ => col0) (write_cols rows vals tb) = write_cols rows vals (upd_col C (fun _ => col0) tb).
  Proof.
    intros Hn. apply table_ext.
    - rewrite write_cols_rows. simpl. rewrite write_cols_rows. reflexivity.
    - intros c. rewrite write_cols_lookup. simpl. destruct (decide (c = C)) as [->|Hne].
      + rewrite !lookup_alter, write_cols_lookup. destruct (t_cols tb !! C); simpl; [|reflexivity].
        rewrite col_writes_notin by exact Hn. reflexivity.
      + rewrite !lookup_alter_ne by auto. rewrite write_cols_lookup. reflexivity.
  Qed.

  Lemma upd_col_lookup_ne c g tb c' : c' ≠ c -> t_cols (upd_col c g tb) !! c' = t_cols tb !! c'.
  Proof. intros H. unfold upd_col. simpl. apply lookup_alter_ne. auto. Qed.

  Lemma update_undo_reset rows vals tb :
    C ∉ vals.*1 -> update_undo (upd_col C (fun _ => col0) tb) rows vals = update_undo tb rows vals.
  Proof.
    intros Hn. unfold update_undo. induction vals as [|cv vals IH]; [reflexivity|].
    assert (cv.1 ≠ C) by (intros E; apply Hn; rewrite <- E; left).
    cbn [omap list_omap]. rewrite upd_col_lookup_ne by assumption.
    rewrite IH by (intros Hx; apply Hn; right; exact Hx). reflexivity.
  Qed.

  Definition one_sm (m : gmap rowid (val * val)) : summary :=
    Summary [] [((false, T), TableDelta ∅ ∅ [] [((false, C), m)])].

  (* the summary holds, for every row of the recomputed column that changed, its checkpoint value and its current one *)
  Definition Jsum (log : list sumcall) (col : column) : Prop :=
    (summary_of log = sm_empty /\ col = col0) \/
    exists m, summary_of log = one_sm m /\
      forall r, match m !! r with
                | None => cget col r = cget col0 r
                | Some ba => ba.1 = cget col0 r /\ ba.2 = cget col r /\ r ∈ t_rows tbs
                end.

  Definition J (st : mstate) (log : list sumcall) : Prop :=
    ms_saved st = None /\ wf (ms_doc st) /\
    (exists tb col, d_tables (ms_doc st) !! T = Some tb /\ t_rows tb = t_rows tbs /\
                    t_cols tb !! C = Some col /\ c_info col = c_info col0 /\ Jsum log col) /\
    wf (rho (ms_doc st)) /\ replay ord (rho (ms_doc st)) (rev (ms_undo st)) = Some s.

  Lemma sum_log_cells t rows vals : sum_log (concat (map (cell_steps t rows) vals)) = [].
  Proof.
    induction vals as [|cv vals IH]; [reflexivity|]. simpl. rewrite sum_log_app, IH, app_nil_r.
    unfold cell_steps. induction (zip rows cv.2) as [|rv l IHl]; [reflexivity|]. simpl. exact IHl.
  Qed.

  Lemma rho_schema d : d_schema (rho d) = d_schema d.
  Proof. reflexivity. Qed.

  Lemma rho_lookup_ne d t : t ≠ T -> d_tables (rho d) !! t = d_tables d !! t.
  Proof. intros H. unfold rho, upd_table. simpl. apply lookup_alter_ne. auto. Qed.

  Lemma rho_lookup_T d tb : d_tables d !! T = Some tb -> d_tables (rho d) !! T = Some (upd_col C (fun _ => col0) tb).
  Proof. intros H. unfold rho, upd_table. simpl. rewrite lookup_alter, H. reflexivity. Qed.

  Lemma J_update st log a st' :
    J st log -> ev_ok (EDoc a) ->
    exec_all st (event_steps ord (ms_doc st) (EDoc a)) = Some st' ->
    J st' log /\ sum_log (event_steps ord (ms_doc st) (EDoc a)) = [].
  Proof.
    intros (Hsv & Hw & (tbT & col & HtT & Hrows & HcC & Hinfo & Hsum) & Hwr & Hrep) Hok Hex.
    simpl in *. unfold doc_steps in *. destruct (normalize a) as [| | | | |t rows vals| | | | | | | |] eqn:En; try contradiction.
    set (d := ms_doc st) in *.
    destruct (d_tables d !! t) as [tb|] eqn:Ht.
    2: { exfalso. unfold steps_of in Hex. rewrite Ht in Hex. discriminate. }
    rewrite <- (mstate_eta st), Hsv in Hex. fold d in Hex.
    destruct (exec_update ord d t tb rows vals _ _ _ _ Ht Hex) as (Hr & Hk & ->).
    destruct (wf_schema_of_table _ _ _ Hw Ht) as (sc & Hs & Hwt).
    split.
    2: { unfold steps_of. rewrite Ht. rewrite bool_decide_eq_true_2 by exact Hr. unfold update_steps.
         rewrite (known_prefix_all _ _ Hk), bool_decide_eq_true_2 by reflexivity. simpl. apply sum_log_cells. }
    assert (Hnc : t = T -> C ∉ vals.*1) by (intros E Hin; apply Hok; auto).
    (* the table of t in rho d, and rho of the new document *)
    set (tbr := if decide (t = T) then upd_col C (fun _ => col0) tb else tb).
    assert (Htr : d_tables (rho d) !! t = Some tbr).
    { unfold tbr. destruct (decide (t = T)) as [E|Hne]; [subst t; apply rho_lookup_T; exact Ht|rewrite rho_lookup_ne by exact Hne; exact Ht]. }
    assert (Hrho' : rho (tset t (write_cols rows vals tb) d) = tset t (write_cols rows vals tbr) (rho d)).
    { unfold tbr. destruct (decide (t = T)) as [E|Hne].
      - subst t. unfold rho at 1. rewrite upd_table_tset_eq, (write_cols_reset _ _ _ (Hnc eq_refl)).
        unfold rho. rewrite (upd_table_tset _ _ _ _ Ht), tset_tset. reflexivity.
      - unfold rho. apply upd_table_tset_ne. auto. }
    assert (Hundo : update_undo tbr rows vals = update_undo tb rows vals).
    { unfold tbr. destruct (decide (t = T)) as [E|Hne]; [apply update_undo_reset; auto|reflexivity]. }
    assert (Hrr : Forall (fun r => r ∈ t_rows tbr) rows) by (unfold tbr; destruct (decide (t = T)); exact Hr).
    assert (Hkr : Forall (known tbr) vals).
    { unfold tbr. destruct (decide (t = T)) as [E|Hne]; [|exact Hk]. eapply Forall_impl; [exact Hk|]. intros cv [cl Hcl].
      unfold known. destruct (decide (cv.1 = C)) as [E2|Hne2].
      - rewrite E2. unfold upd_col. simpl. rewrite lookup_alter. rewrite E2 in Hcl. rewrite Hcl. eexists. reflexivity.
      - rewrite upd_col_lookup_ne by exact Hne2. eexists. exact Hcl. }
    destruct (undo_update ord (rho d) t tbr sc rows vals Hwr Htr Hs Hrr Hkr) as [Hwr' Hu'].
    destruct (undo_update ord d t tb sc rows vals Hw Ht Hs Hr Hk) as [Hw' _].
    split; [reflexivity|]. split; [exact Hw'|]. split.
    - destruct (decide (t = T)) as [E|Hne].
      + subst t. assert (tb = tbT) by congruence. subst tbT. exists (write_cols rows vals tb), col.
        split; [apply tset_lookup|]. split; [rewrite write_cols_rows; exact Hrows|].
        split; [rewrite write_cols_lookup, HcC; simpl; rewrite col_writes_notin by (apply Hnc; reflexivity); reflexivity|].
        split; assumption.
      + exists tbT, col. split; [simpl; rewrite lookup_insert_ne by auto; exact HtT|]. repeat split; assumption.
    - simpl. rewrite Hrho'. split; [exact Hwr'|]. rewrite rev_app_distr. simpl. rewrite <- Hundo, Hu'. exact Hrep.
  Qed.

  Lemma sum_log_sets t c (l : list (rowid * val)) : sum_log (map (fun rv => MSetCell t c rv.1 rv.2) l) = [].
  Proof. induction l as [|rv l IH]; [reflexivity|]. simpl. exact IH. Qed.

  Lemma assoc_get_here {K V} `{EqDecision K} (k : K) (v : V) l : assoc_get k ((k, v) :: l) = Some v.
  Proof. simpl. rewrite decide_True by reflexivity. reflexivity. Qed.

  Lemma sm_step_first ch : sm_step sm_empty (SAddChanges T C ch) = one_sm (merge_changes ∅ ch).
  Proof. reflexivity. Qed.

  Lemma sm_step_next m ch : sm_step (one_sm m) (SAddChanges T C ch) = one_sm (merge_changes m ch).
  Proof.
    unfold sm_step, one_sm, for_table, put_table, td_add_changes, merge_changes. simpl.
    repeat (rewrite decide_True by reflexivity; simpl). reflexivity.
  Qed.

  Lemma lastv_Some_in l r v : lastv l r = Some v -> r ∈ l.*1.
  Proof. intros H. destruct (decide (r ∈ l.*1)) as [|Hn]; [assumption|]. apply lastv_None in Hn. congruence. Qed.

  Lemma J_calc st log cells st' :
    J st log ->
    exec_all st (event_steps ord (ms_doc st) (ECalc T C cells)) = Some st' ->
    J st' (log ++ sum_log (event_steps ord (ms_doc st) (ECalc T C cells))).
  Proof.
    intros HJ Hex. destruct cells as [|rv0 cells0] eqn:Ecells.
    { simpl in *. injection Hex as <-. rewrite app_nil_r. exact HJ. }
    rewrite <- Ecells in *. assert (Hne : cells ≠ []) by (rewrite Ecells; discriminate). clear Ecells.
    destruct HJ as (Hsv & Hw & (tb & col & Ht & Hrows & Hc & Hinfo & Hsum) & Hwr & Hrep).
    set (d := ms_doc st) in *.
    assert (Hsteps : event_steps ord d (ECalc T C cells) =
      if bool_decide (Forall (fun rv => rv.1 ∈ t_rows tb) cells)
      then map (fun rv => MSetCell T C rv.1 rv.2) cells ++ [MSum (SAddChanges T C (map (fun rv => (rv.1, cget col rv.1, rv.2)) cells))]
      else [MFail]).
    { unfold event_steps. destruct cells; [contradiction|]. rewrite Ht, Hc. reflexivity. }
    rewrite Hsteps in *. destruct (bool_decide (Forall _ cells)) eqn:Eb; [|discriminate].
    apply bool_decide_eq_true in Eb. rewrite Forall_forall in Eb.
    rewrite exec_set_cells in Hex. simpl in Hex. injection Hex as <-.
    rewrite sum_log_app, sum_log_sets. simpl.
    destruct (wf_schema_of_table _ _ _ Hw Ht) as (sc & Hs & Hwt).
    destruct (wf_table_col _ _ _ _ Hwt Hc) as [Hsc Hwc].
    set (col' := cset_list col cells). set (tb' := upd_col C (fun cl => cset_list cl cells) tb).
    assert (Hd' : upd_table T (upd_col C (fun cl => cset_list cl cells)) d = tset T tb' d) by (apply upd_table_tset; exact Ht).
    assert (Hc' : t_cols tb' !! C = Some col') by (unfold tb', upd_col; simpl; rewrite lookup_alter, Hc; reflexivity).
    assert (Hin : forall r, r ∈ cells.*1 -> r ∈ t_rows tb).
    { intros r Hr. apply elem_of_list_fmap in Hr as (rv & -> & Hrv). apply Eb. exact Hrv. }
    split; [exact Hsv|]. split.
    { cbn [ms_doc]. fold d. rewrite Hd'. apply (wf_tset_same d T sc); [exact Hw|exact Hs|].
      eapply wf_table_same_schema; [exact Hwt|unfold tb', upd_col; simpl; apply dom_alter_L|].
      intros c0 cl' Hl. destruct (decide (c0 = C)) as [->|Hn0].
      - rewrite Hc' in Hl. injection Hl as <-. exists col. split; [exact Hc|]. split; [apply cset_list_info|].
        apply wf_col_cset_list; [exact Hwc|exact Hin].
      - unfold tb' in Hl. rewrite upd_col_lookup_ne in Hl by exact Hn0. exists cl'. split; [exact Hl|]. split; [reflexivity|].
        exact (proj2 (wf_table_col _ _ _ _ Hwt Hl)). }
    split.
    { exists tb', col'. cbn [ms_doc]. fold d. rewrite Hd'. split; [apply tset_lookup|]. split; [exact Hrows|]. split; [exact Hc'|].
      split; [unfold col'; rewrite cset_list_info; exact Hinfo|].
      right. unfold summary_of. rewrite foldl_app. simpl. fold (summary_of log).
      assert (Hkey : forall m, (forall r, match m !! r with
                                      | None => cget col r = cget col0 r
                                      | Some ba => ba.1 = cget col0 r /\ ba.2 = cget col r /\ r ∈ t_rows tbs end) ->
                forall r, match merge_changes m (map (fun rv => (rv.1, cget col rv.1, rv.2)) cells) !! r with
                          | None => cget col' r = cget col0 r
                          | Some ba => ba.1 = cget col0 r /\ ba.2 = cget col' r /\ r ∈ t_rows tbs end).
      { intros m Hm r. rewrite merge_changes_spec. unfold col'. rewrite cget_cset_list_last. specialize (Hm r).
        destruct (lastv cells r) as [v|] eqn:El; simpl.
        - split; [|split; [reflexivity|rewrite <- Hrows; apply Hin; eapply lastv_Some_in; exact El]].
          destruct (m !! r) as [[b a]|]; simpl in *; [tauto|exact Hm].
        - exact Hm. }
      destruct Hsum as [[Hsm ->]|(m & Hsm & Hm)].
      - exists (merge_changes ∅ (map (fun rv => (rv.1, cget col0 rv.1, rv.2)) cells)). rewrite Hsm. split; [apply sm_step_first|].
        apply Hkey. intros r. rewrite lookup_empty. reflexivity.
      - exists (merge_changes m (map (fun rv => (rv.1, cget col rv.1, rv.2)) cells)). rewrite Hsm. split; [apply sm_step_next|].
        apply Hkey. exact Hm. }
    simpl. rewrite rho_idem_col. split; [exact Hwr|exact Hrep].
  Qed.

  Definition changed_rows (m : gmap rowid (val * val)) : list rowid :=
    filter (fun r => from_option (fun ba : val * val => bool_decide (ba.1 ≠ ba.2)) false (m !! r) = true)
           (merge_sort Z.le (map fst (map_to_list m))).

  Lemma changed_rows_in m r : r ∈ changed_rows m <-> exists b a, m !! r = Some (b, a) /\ b ≠ a.
  Proof.
    unfold changed_rows. rewrite elem_of_list_filter, merge_sort_Permutation. split.
    - intros [H1 _]. match type of H1 with context [from_option _ _ ?x] => destruct x as [[b a]|] eqn:E end; simpl in H1.
      + apply bool_decide_eq_true in H1. exists b, a. split; [exact E|exact H1].
      + discriminate H1.
    - intros (b & a & Hm & Hne). split; [|].
      { match goal with |- context [from_option _ _ ?x] => replace x with (Some (b, a)) by (symmetry; exact Hm) end. simpl. apply bool_decide_eq_true. exact Hne. }
      apply elem_of_list_fmap. exists (r, (b, a)). split; [reflexivity|]. apply elem_of_map_to_list. exact Hm.
  Qed.

  Lemma filter_nothing {A} (P : A -> Prop) `{forall x, Decision (P x)} (l : list A) :
    (forall x, x ∈ l -> ~ P x) -> filter P l = [].
  Proof.
    induction l as [|x l IH]; intros Hn; [reflexivity|]. rewrite filter_cons_False by (apply Hn; left).
    apply IH. intros y Hy. apply Hn. right. exact Hy.
  Qed.

  Lemma flush_one m :
    flush_undo_of (one_sm m)
    = ([], match changed_rows m with
           | [] => []
           | _ => [BulkUpdateRecord T (changed_rows m) [(C, map (fun r => from_option fst 0 (m !! r)) (changed_rows m))]]
           end).
  Proof.
    unfold flush_undo_of, one_sm. simpl. unfold changes_to_undo. simpl.
    repeat (rewrite decide_True by reflexivity; simpl). fold (changed_rows m).
    rewrite (filter_all (fun r => (∅ : gmap rowid bool) !! r ≠ Some false)) by (apply Forall_forall; intros r _; rewrite lookup_empty; discriminate).
    rewrite (filter_all (fun r => (∅ : gmap rowid bool) !! r ≠ Some false)) by (apply Forall_forall; intros r _; rewrite lookup_empty; discriminate).
    rewrite (filter_nothing (fun r => r ∉ changed_rows m)) by (intros x Hx Hn; exact (Hn Hx)).
    destruct (changed_rows m); reflexivity.
  Qed.

  Lemma rho_id d tb : d_tables d !! T = Some tb -> t_cols tb !! C = Some col0 -> rho d = d.
  Proof.
    intros Ht Hc. unfold rho. rewrite (upd_table_tset _ _ _ _ Ht). rewrite <- (tset_id T tb d Ht) at 2. f_equal.
    rewrite <- (upd_col_id C tb) at 2. apply upd_col_ext. intros cl Hcl. congruence.
  Qed.

  Local Opaque col_writes.

  (* flush + revert from a state satisfying the invariant gives the checkpoint document *)
  Lemma J_flush st log : J st log -> rollback_flush ord st log = Some s.
  Proof.
    intros (Hsv & Hw & (tb & col & Ht & Hrows & Hc & Hinfo & Hsum) & Hwr & Hrep).
    unfold rollback_flush, restore_schema, flush_undo. rewrite Hsv. set (d := ms_doc st) in *.
    destruct Hsum as [[Hsm ->]|(m & Hsm & Hm)]; rewrite Hsm.
    - change (flush_undo_of sm_empty) with (@nil action, @nil action). simpl. rewrite app_nil_r.
      rewrite <- (rho_id d tb Ht Hc). exact Hrep.
    - rewrite flush_one. cbn [fst snd app]. rewrite rev_app_distr, replay_app.
      destruct (wf_schema_of_table _ _ _ Hw Ht) as (sc & Hs & Hwt).
      destruct (wf_table_col _ _ _ _ Hwt Hc) as [Hsc Hwc].
      assert (Hwc0 : wf_col (t_rows tb) col0).
      { destruct (wf_schema_of_table _ _ _ Hwfs HT) as (sc0 & _ & Hwt0). rewrite Hrows. exact (proj2 (wf_table_col _ _ _ _ Hwt0 HC)). }
      (* the column equals the checkpoint column wherever the summary says nothing changed *)
      assert (Hsame : forall r, r ∉ changed_rows m -> cget col r = cget col0 r).
      { intros r Hn. specialize (Hm r). destruct (m !! r) as [[b a]|] eqn:E; [|exact Hm]. simpl in Hm.
        destruct Hm as (H1 & H2 & _). destruct (decide (b = a)) as [->|Hne]; [congruence|].
        exfalso. apply Hn. apply changed_rows_in. eauto. }
      destruct (changed_rows m) as [|r0 rs] eqn:Ech.
      + simpl. assert (col = col0).
        { apply (col_ext (t_rows tb) (t_rows tb)); [exact Hwc|exact Hwc0|exact Hinfo|]. intros r. apply Hsame. apply not_elem_of_nil. }
        subst col. rewrite <- (rho_id d tb Ht Hc). exact Hrep.
      + rewrite <- Ech in *. clear Ech. set (rows := changed_rows m) in *.
        set (bs := map (fun r => from_option fst 0 (m !! r)) rows).
        assert (Hin : forall r, r ∈ rows -> r ∈ t_rows tb).
        { intros r Hr. apply changed_rows_in in Hr as (b & a & E & _). specialize (Hm r). rewrite E in Hm. rewrite Hrows. tauto. }
        assert (Hstep : replay ord d [BulkUpdateRecord T rows [(C, bs)]] = Some (rho d)).
        { apply replay1. rewrite apply_doc_unfold. simpl normalize.
          rewrite (exec_update_ok ord d T tb); [|exact Ht|apply Forall_forall; exact Hin|].
          2: { constructor; [|constructor]. eexists. exact Hc. }
          cbn [fmap option_fmap option_map ms_doc]. f_equal. unfold rho. rewrite (upd_table_tset _ _ _ _ Ht). f_equal.
          apply table_ext; [rewrite write_cols_rows; reflexivity|]. intros c. rewrite write_cols_lookup. simpl.
          destruct (decide (c = C)) as [->|Hne].
          - rewrite lookup_alter, Hc. simpl. f_equal.
            apply (col_ext (t_rows tb) (t_rows tb)); [apply col_writes_wf; assumption|exact Hwc0|rewrite col_writes_info; exact Hinfo|].
            intros r. destruct (decide (r ∈ rows)) as [Hr|Hr].
            + rewrite (col_writes_restores C rows (fun r => from_option fst 0 (m !! r))); [|left| |exact Hr].
              * apply changed_rows_in in Hr as (b & a & E & _). pose proof (Hm r) as Hmr.
                transitivity (from_option fst 0 (Some (b, a))); [f_equal; exact E|].
                simpl. destruct (m !! r) as [[b' a']|]; [|discriminate]. injection E as -> ->. simpl in Hmr. tauto.
              * intros cv Hcv _. apply elem_of_list_singleton in Hcv. subst cv. reflexivity.
            + rewrite col_writes_other by exact Hr. apply Hsame. exact Hr.
          - rewrite lookup_alter_ne by auto. destruct (t_cols tb !! c) as [cl|]; simpl; [|reflexivity].
            rewrite col_writes_notin by (intros Hx; apply elem_of_list_singleton in Hx; simpl in Hx; congruence). reflexivity. }
        simpl rev. rewrite Hstep. simpl. exact Hrep.
  Qed.

  Lemma J_event st log e st' :
    J st log -> ev_ok e -> exec_all st (event_steps ord (ms_doc st) e) = Some st' ->
    J st' (log ++ sum_log (event_steps ord (ms_doc st) e)).
  Proof.
    intros HJ Hok Hex. destruct e as [a|t c cells].
    - destruct (J_update st log a st' HJ Hok Hex) as [HJ' ->]. rewrite app_nil_r. exact HJ'.
    - destruct Hok as [-> ->]. apply J_calc; assumption.
  Qed.

  Lemma run_calc es : forall st k st_k cur log,
    J st log -> Forall ev_ok es ->
    run_until_crash ord st es k = Crashed st_k cur [] ->
    rollback_flush ord st_k (log ++ sum_log (run_log ord st es k)) = Some s.
  Proof.
    induction es as [|e es IH]; intros st k st_k cur log HJ Hok H; simpl in *.
    - destruct k; [|discriminate]. injection H as <- <-. rewrite app_nil_r. apply J_flush. exact HJ.
    - inversion Hok as [|? ? Hok1 Hok2]; subst.
      destruct (exec_upto st (event_steps ord (ms_doc st) e) k []) as [[st' dn] r] eqn:E.
      destruct (exec_upto_spec _ _ _ _ _ _ _ E) as (l & rest & Hdn & Hsteps & Hex & Hrest). simpl in Hdn. subst dn.
      destruct r as [k'|].
      + rewrite (Hrest (ltac:(eauto))), app_nil_r in Hsteps. subst l.
        rewrite sum_log_app, app_assoc. eapply IH; [eapply J_event; eauto|exact Hok2|exact H].
      + injection H as <- <- ->. simpl in Hex. injection Hex as <-. simpl. rewrite app_nil_r. apply J_flush. exact HJ.
  Qed.

  Lemma J_init : J (init_state s []) [].
  Proof.
    split; [reflexivity|]. split; [exact Hwfs|]. split.
    - exists tbs, col0. split; [exact HT|]. split; [reflexivity|]. split; [exact HC|]. split; [reflexivity|]. left. split; reflexivity.
    - simpl. rewrite (rho_id s tbs HT HC). split; [exact Hwfs|reflexivity].
  Qed.

  Theorem pending_calc_rolled_back_1 es k st cur :
    Forall ev_ok es ->
    run_until_crash ord (init_state s []) es k = Crashed st cur [] ->
    rollback_flush ord st (sum_log (run_log ord (init_state s []) es k)) = Some s.
  Proof. intros Hok H. exact (run_calc es _ _ _ _ [] J_init Hok H). Qed.
End OneCalcColumn.

(* bundles made of record updates and recalculations of ONE column (t, c) that no update of the bundle writes *)
Definition upd_or_calc (t c : name) (e : event) : Prop :=
  match e with
  | EDoc a => match normalize a with
              | BulkUpdateRecord t' _ vals => ~ (t' = t /\ c ∈ vals.*1)
              | _ => False end
  | ECalc t' c' _ => t' = t /\ c' = c
  end.

Theorem pending_calc_rolled_back ord (s : doc) (t c : name) (es : list event) (k : nat) st cur :
  wf s -> is_Some (d_tables s !! t ≫= fun tb => t_cols tb !! c) ->
  Forall (upd_or_calc t c) es ->
  run_until_crash ord (init_state s []) es k = Crashed st cur [] ->
  rollback_flush ord st (sum_log (run_log ord (init_state s []) es k)) = Some s.
Proof.
  intros Hw [col0 Hc] Hok H. destruct (d_tables s !! t) as [tbs|] eqn:Ht; [|discriminate]. simpl in Hc.
  exact (pending_calc_rolled_back_1 ord s t c tbs col0 Hw Ht Hc es k st cur Hok H).
Qed.
