(* Soundness of the invalidate_deps worklist (DepsExec.inval). *)
From Coq Require Import ZArith List Bool Lia.
Import ListNotations.
Require Import Grist.Model.Deps Grist.Model.DepsSpec Grist.Model.DepsExec.
Require Import Grist.Proofs.Deps_closure_proofs.
Open Scope Z_scope.

Lemma zmem_In x l : zmem x l = true <-> In x l.
Proof.
  unfold zmem. rewrite existsb_exists. split.
  - intros (y & Hy & E). apply Z.eqb_eq in E. subst. exact Hy.
  - intros H. exists x. split; auto. apply Z.eqb_refl.
Qed.

Lemma zmem_app x a b : zmem x (a ++ b) = zmem x a || zmem x b.
Proof. unfold zmem. apply existsb_app. Qed.

Definition mapT := node -> option rowset.
Definition allN (M : mapT) : node -> bool := fun o => is_all (M o).

Definition mono (M M' : mapT) : Prop :=
  (forall c, in_map M c = true -> in_map M' c = true) /\
  (forall n, is_all (M n) = true -> is_all (M' n) = true).

Lemma mono_refl M : mono M M.
Proof. split; auto. Qed.

Lemma mono_trans M1 M2 M3 : mono M1 M2 -> mono M2 M3 -> mono M1 M3.
Proof. intros [a b] [c d]. split; auto. Qed.

Definition batch_in (M : mapT) (b : node * rowset) : Prop :=
  forall r, in_rowset r (snd b) = true -> in_map M (fst b, r) = true.

Lemma is_all_in_map M n r : is_all (M n) = true -> in_map M (n, r) = true.
Proof.
  unfold is_all, in_map. cbn [fst snd]. destruct (M n) as [[| l] |]; try discriminate. reflexivity.
Qed.

Lemma is_all_batch_in M n x : is_all (M n) = true -> batch_in M (n, x).
Proof. intros H r _. apply is_all_in_map. exact H. Qed.

Lemma batch_in_mono M M' b : mono M M' -> batch_in M b -> batch_in M' b.
Proof. intros [H _] B r Hr. apply H. apply B. exact Hr. Qed.

Lemma map_set_same M n x : map_set M n x n = Some x.
Proof. unfold map_set. rewrite Z.eqb_refl. reflexivity. Qed.

Lemma map_set_other M n x k : k <> n -> map_set M n x k = M k.
Proof. intros H. unfold map_set. destruct (Z.eqb k n) eqn:E; auto. apply Z.eqb_eq in E. contradiction. Qed.

Lemma mono_set_all M n : mono M (map_set M n AllRows).
Proof.
  split.
  - intros [k r] H. unfold in_map in *. cbn [fst snd] in *.
    destruct (Z.eq_dec k n) as [-> | Hk].
    + rewrite map_set_same. reflexivity.
    + rewrite map_set_other; auto.
  - intros k H. destruct (Z.eq_dec k n) as [-> | Hk].
    + rewrite map_set_same. reflexivity.
    + rewrite map_set_other; auto.
Qed.

Definition old_rows (M : mapT) (n : node) : list row :=
  match M n with Some (Rows o) => o | _ => [] end.

Lemma mono_set_rows M n l : is_all (M n) = false -> mono M (map_set M n (Rows (old_rows M n ++ l))).
Proof.
  intros Hn. split.
  - intros [k r] H. unfold in_map in *. cbn [fst snd] in *.
    destruct (Z.eq_dec k n) as [-> | Hk].
    + rewrite map_set_same. cbn [in_rowset]. rewrite zmem_app. unfold old_rows.
      destruct (M n) as [[| o] |]; try discriminate. cbn [in_rowset] in H. rewrite H. reflexivity.
    + rewrite map_set_other; auto.
  - intros k H. destruct (Z.eq_dec k n) as [-> | Hk].
    + rewrite H in Hn. discriminate.
    + rewrite map_set_other; auto.
Qed.

Lemma allN_set_rows M n l k : is_all (M n) = false -> allN (map_set M n (Rows l)) k = allN M k.
Proof.
  intros Hn. unfold allN. destruct (Z.eq_dec k n) as [-> | Hk].
  - rewrite map_set_same, Hn. reflexivity.
  - rewrite map_set_other; auto.
Qed.

(* a cell entered by map_set ... (Rows (old ++ l)) that was not there before *)
Lemma new_in_set_rows M n l d :
  is_all (M n) = false ->
  in_map (map_set M n (Rows (old_rows M n ++ l))) d = true -> in_map M d = false ->
  fst d = n /\ zmem (snd d) l = true /\ zmem (snd d) (old_rows M n) = false.
Proof.
  intros Hn H1 H0. destruct d as [k r]. unfold in_map in *. cbn [fst snd] in *.
  destruct (Z.eq_dec k n) as [-> | Hk].
  - rewrite map_set_same in H1. cbn [in_rowset] in H1. rewrite zmem_app in H1. unfold old_rows in *.
    destruct (M n) as [[| o] |]; try discriminate; cbn [in_rowset] in H0.
    + rewrite H0 in H1. cbn in H1. auto.
    + cbn in H1. auto.
  - rewrite map_set_other in H1; auto. rewrite H1 in H0. discriminate.
Qed.

Lemma new_in_set_all M n d :
  in_map (map_set M n AllRows) d = true -> in_map M d = false -> fst d = n.
Proof.
  intros H1 H0. destruct d as [k r]. unfold in_map in *. cbn [fst snd] in *.
  destruct (Z.eq_dec k n) as [-> | Hk]; auto.
  rewrite map_set_other in H1; auto. rewrite H1 in H0. discriminate.
Qed.

Lemma in_pushes E R n x e :
  In e E -> e_in e = n -> In (e_out e, affected R (e_rel e) x) (pushes E R n x).
Proof.
  intros He Hn. unfold pushes. apply in_map_iff. exists e. split; auto.
  apply filter_In. split; auto. apply Z.eqb_eq. exact Hn.
Qed.

Section Walk.
Variable E0 : list edge.
Variable R0 : relst.
Hypothesis Hown : owner_ok E0.

(* relation of the graph during the walk to the graph at its start *)
Record Inv (g : gst) : Prop := {
  i_sub : forall e, In e (g_edges g) -> In e E0;
  i_edges : forall e, In e E0 -> In e (g_edges g) \/ is_all (g_map g (e_out e)) = true;
  i_rel : agree_except (allN (g_map g)) R0 (g_rel g)
}.

(* the batch (n, x) was propagated: its image under every edge recorded at the start is dirty *)
Definition closed_batch (M' : mapT) (n : node) (x : rowset) : Prop :=
  forall e, In e E0 -> e_in e = n -> batch_in M' (e_out e, affected R0 (e_rel e) x).

(* P: any property of batches that holds of the start batch and is passed along the edges
   (instantiated with "reachable from the start batch" for tightness) *)
Variable P : node -> rowset -> Prop.
Hypothesis Pstep : forall n x e, P n x -> In e E0 -> e_in e = n ->
  P (e_out e) (affected R0 (e_rel e) x).

Definition stack_ok (M : mapT) (st : list (node * rowset)) : Prop :=
  Forall (fun b => is_all (M (fst b)) = true \/ P (fst b) (snd b)) st.

Lemma stack_ok_mono M M' st : mono M M' -> stack_ok M st -> stack_ok M' st.
Proof.
  intros [_ Hm] H. eapply Forall_impl; [| exact H]. intros b [Hb | Hb]; auto.
Qed.

Definition new_closed (M M' : mapT) : Prop :=
  forall d, in_map M' d = true -> in_map M d = false ->
    exists x, in_rowset (snd d) x = true /\ P (fst d) x /\ closed_batch M' (fst d) x.

Lemma pushes_ok g n x :
  Inv g -> P n x -> stack_ok (g_map g) (rev (pushes (g_edges g) (g_rel g) n x)).
Proof.
  intros I Hp. apply Forall_forall. intros b Hb. rewrite <- in_rev in Hb.
  unfold pushes in Hb. apply in_map_iff in Hb. destruct Hb as (e & <- & He).
  apply filter_In in He. destruct He as [He Hn]. apply Z.eqb_eq in Hn. cbn [fst snd].
  destruct (is_all (g_map g (e_out e))) eqn:A; [left; reflexivity | right].
  pose proof (i_sub g I e He) as He0.
  rewrite <- (affected_agree (allN (g_map g)) R0 (g_rel g) (e_rel e) (e_out e) (i_rel g I) (Hown e He0) A).
  apply (Pstep n x e Hp He0 Hn).
Qed.

(* what one propagation step guarantees once the rest of the walk has entered its pushes *)
Lemma pushed_closed g M' n x :
  Inv g -> mono (g_map g) M' ->
  Forall (batch_in M') (rev (pushes (g_edges g) (g_rel g) n x)) ->
  closed_batch M' n x.
Proof.
  intros I Hm Hp e He Hin.
  destruct (is_all (g_map g (e_out e))) eqn:A.
  - apply is_all_batch_in. apply Hm. exact A.
  - destruct (i_edges g I e He) as [Hg | Hg]; [| rewrite Hg in A; discriminate].
    rewrite (affected_agree (allN (g_map g)) R0 (g_rel g) (e_rel e) (e_out e) (i_rel g I) (Hown e He) A).
    rewrite Forall_forall in Hp. apply Hp. rewrite <- in_rev. apply in_pushes; auto.
Qed.

Lemma inval_post fuel : forall g stack g',
  inval fuel g stack true = Some g' -> Inv g -> stack_ok (g_map g) stack ->
  Inv g' /\ mono (g_map g) (g_map g') /\ Forall (batch_in (g_map g')) stack /\
  new_closed (g_map g) (g_map g').
Proof.
  induction fuel as [| f IH]; intros g stack g' H I S; [discriminate |].
  cbn [inval] in H. destruct stack as [| [n x] rest].
  - inversion H; subst. refine (conj I (conj (mono_refl _) (conj (Forall_nil _) _))).
    intros d H1 H0. rewrite H1 in H0. discriminate.
  - cbn [negb] in H. destruct (is_all (g_map g n)) eqn:A.
    + inversion S as [| b st Sb Srest]; subst.
      destruct (IH _ _ _ H I Srest) as (I' & Hm & Hr & Hc).
      refine (conj I' (conj Hm (conj _ Hc))).
      constructor; auto. apply is_all_batch_in. apply Hm. exact A.
    + inversion S as [| b st Sb Srest]; subst. cbn [fst snd] in Sb.
      destruct Sb as [Sb | Sb]; [rewrite Sb in A; discriminate |].
      destruct x as [| l].
      * destruct (clear_dependencies (g_edges g) (g_rel g) n) as [E' R'] eqn:HC.
        set (g1 := mkG E' R' (map_set (g_map g) n AllRows) (n :: g_nodes g)) in *.
        assert (HE' : E' = filter (fun e => negb (Z.eqb (e_out e) n)) (g_edges g)).
        { unfold clear_dependencies in HC. inversion HC. reflexivity. }
        assert (HR' : R' = snd (clear_dependencies (g_edges g) (g_rel g) n)) by (rewrite HC; reflexivity).
        assert (I1 : Inv g1).
        { constructor; cbn [g_edges g_map g_rel g1].
          - intros e He. rewrite HE' in He. apply filter_In in He. apply (i_sub g I). tauto.
          - intros e He. destruct (Z.eq_dec (e_out e) n) as [X | X].
            + right. rewrite X, map_set_same. reflexivity.
            + destruct (i_edges g I e He) as [Hg | Hg].
              * left. rewrite HE'. apply filter_In. split; auto.
                apply negb_true_iff. apply Z.eqb_neq. exact X.
              * right. rewrite map_set_other; auto.
          - eapply agree_trans.
            + eapply agree_weaken; [| exact (i_rel g I)]. intros k Hk. unfold allN in *.
              destruct (Z.eq_dec k n) as [-> | X]; [rewrite map_set_same in Hk; discriminate |].
              rewrite map_set_other in Hk; auto.
            + rewrite HR'. eapply agree_weaken; [| apply clear_dependencies_agree].
              * intros k Hk. unfold allN in Hk. apply Z.eqb_neq. intros ->.
                rewrite map_set_same in Hk. discriminate.
              * intros e He. apply Hown. apply (i_sub g I). exact He. }
        assert (S1 : stack_ok (g_map g1) (rev (pushes (g_edges g1) (g_rel g1) n AllRows) ++ rest)).
        { apply Forall_app. split; [apply pushes_ok; auto |].
          eapply stack_ok_mono; [| exact Srest]. apply mono_set_all. }
        destruct (IH _ _ _ H I1 S1) as (I' & Hm & Hr & Hc). cbn [g_map g_edges g_rel g1] in *.
        apply Forall_app in Hr. destruct Hr as [Hp Hrest].
        pose proof (mono_trans _ _ _ (mono_set_all (g_map g) n) Hm) as Hm0.
        refine (conj I' (conj Hm0 (conj _ _))).
        { constructor; auto. apply is_all_batch_in. apply Hm. cbn [fst]. rewrite map_set_same. reflexivity. }
        intros d H1 H0. destruct (in_map (map_set (g_map g) n AllRows) d) eqn:X.
        { exists AllRows. rewrite (new_in_set_all _ _ _ X H0).
          split; [reflexivity | split; [exact Sb |]]. apply (pushed_closed g1); auto. }
        { apply Hc; auto. }
      * set (M1 := map_set (g_map g) n (Rows (old_rows (g_map g) n ++ l))) in *.
        set (g1 := mkG (g_edges g) (g_rel g) M1 (n :: g_nodes g)) in *.
        assert (HA : forall k, allN M1 k = allN (g_map g) k).
        { intros k. apply allN_set_rows. exact A. }
        assert (I1 : Inv g1).
        { constructor; cbn [g_edges g_map g_rel g1].
          - apply (i_sub g I).
          - intros e He. destruct (i_edges g I e He) as [Hg | Hg]; auto.
            right. fold (allN M1 (e_out e)). rewrite HA. exact Hg.
          - eapply agree_weaken; [| exact (i_rel g I)]. intros k Hk. rewrite <- HA. exact Hk. }
        pose proof (mono_set_rows (g_map g) n l A) as Hm1. fold M1 in Hm1.
        fold (old_rows (g_map g) n) in H. fold M1 in H. fold g1 in H.
        destruct (existsb (fun r => negb (zmem r (old_rows (g_map g) n))) l) eqn:X.
        -- assert (S1 : stack_ok (g_map g1) (rev (pushes (g_edges g1) (g_rel g1) n (Rows l)) ++ rest)).
           { apply Forall_app. split; [apply pushes_ok; auto |].
             eapply stack_ok_mono; [| exact Srest]. exact Hm1. }
           destruct (IH _ _ _ H I1 S1) as (I' & Hm & Hr & Hc). cbn [g_map g_edges g_rel g1] in *.
           apply Forall_app in Hr. destruct Hr as [Hp Hrest].
           pose proof (mono_trans _ _ _ Hm1 Hm) as Hm0.
           refine (conj I' (conj Hm0 (conj _ _))).
           { constructor; auto. intros r Hq. cbn [fst snd in_rowset] in Hq. apply Hm.
             unfold in_map, M1. cbn [fst snd]. rewrite map_set_same. cbn [in_rowset].
             rewrite zmem_app, Hq. apply orb_true_r. }
           intros d H1 H0. destruct (in_map M1 d) eqn:Y.
           { destruct (new_in_set_rows _ _ _ _ A Y H0) as (F1 & F2 & _).
             exists (Rows l). rewrite F1. split; [exact F2 | split; [exact Sb |]].
             apply (pushed_closed g1); auto. }
           { apply Hc; auto. }
        -- assert (S1 : stack_ok (g_map g1) rest).
           { eapply stack_ok_mono; [| exact Srest]. exact Hm1. }
           destruct (IH _ _ _ H I1 S1) as (I' & Hm & Hr & Hc). cbn [g_map g_edges g_rel g1] in *.
           pose proof (mono_trans _ _ _ Hm1 Hm) as Hm0.
           refine (conj I' (conj Hm0 (conj _ _))).
           { constructor; auto. intros r Hq. cbn [fst snd in_rowset] in Hq. apply Hm.
             unfold in_map, M1. cbn [fst snd]. rewrite map_set_same. cbn [in_rowset].
             rewrite zmem_app, Hq. apply orb_true_r. }
           intros d H1 H0. destruct (in_map M1 d) eqn:Y.
           { destruct (new_in_set_rows _ _ _ _ A Y H0) as (F1 & F2 & F3). exfalso.
             assert (existsb (fun r => negb (zmem r (old_rows (g_map g) n))) l = true).
             { apply existsb_exists. exists (snd d). split; [apply zmem_In; exact F2 |].
               rewrite F3. reflexivity. }
             congruence. }
           { apply Hc; auto. }
Qed.

End Walk.
