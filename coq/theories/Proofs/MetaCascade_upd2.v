(* K6 proofs, part 14: SetDisplayFormula, AddEmptyRule, direct rule updates, section options, RenameTable. *)
From Coq Require Import ZArith List Bool Lia.
Import ListNotations.
Require Import Grist.Model.MetaCascade Grist.Proofs.MetaCascade_base Grist.Proofs.MetaCascade_inv
  Grist.Proofs.MetaCascade_rm Grist.Proofs.MetaCascade_add Grist.Proofs.MetaCascade_add2
  Grist.Proofs.MetaCascade_add3 Grist.Proofs.MetaCascade_upd.
Open Scope Z_scope.

Lemma FieldOk_with_fdisplay : forall m f d, FieldOk m f -> Optref (cids m) d -> FieldOk m (with_fdisplay d f).
Proof. intros m f d [J1 [J2 [J3 J4]]] Hd. unfold FieldOk, with_fdisplay. simpl. tauto. Qed.

Lemma FieldOk_with_frules : forall m f r, FieldOk m f -> incl r (cids m) -> FieldOk m (with_frules r f).
Proof. intros m f r [J1 [J2 [J3 J4]]] Hr. unfold FieldOk, with_frules. simpl. tauto. Qed.

Lemma SecOk_with_srules : forall m s r, SecOk m s -> incl r (cids m) -> SecOk m (with_srules r s).
Proof. intros m s r [J1 [J2 J3]] Hr. unfold SecOk, with_srules. simpl. tauto. Qed.

Lemma set_display_inv : forall X t fld col set reuse m m',
  InvX X m -> set_display t fld col set reuse m = Ok m' -> InvX X m'.
Proof.
  intros X t fld col set reuse m m' HI H. unfold set_display in H.
  destruct (negb (mem t (tids m))) eqn:Et; [discriminate|].
  apply negb_false_iff in Et. apply mem_In in Et.
  destruct (negb (fld =? 0)).
  - destruct (negb (col =? 0)); [discriminate|].
    destruct (find_field m fld) as [f|]; [|discriminate].
    destruct (helper_col t (f_display f) set reuse m) as [[m1 r]| |] eqn:Eh; simpl in H; try discriminate.
    destruct (helper_col_inv X t _ _ _ m m1 r HI Et Eh) as [J1 [J2 [J3 J4]]].
    destruct r as [d|]; [|inversion H; subst; exact J1].
    destruct (d =? f_display f); [inversion H; subst; exact J1|].
    destruct (field_in_raw m1 f); [discriminate|]. inversion H; subst m'.
    apply upd_field_inv; [exact J1 | reflexivity |].
    intros f0 Hf0. apply FieldOk_with_fdisplay; [apply (inv_fld X m1 J1 f0 Hf0) | apply J4; reflexivity].
  - destruct (negb (col =? 0)); [|inversion H; subst; exact HI].
    destruct (find_column m col) as [c|]; [|discriminate].
    destruct ((c_src c =? 0) && is_summary_table m (c_parent c)); [discriminate|].
    destruct (helper_col t (c_display c) set reuse m) as [[m1 r]| |] eqn:Eh; simpl in H; try discriminate.
    destruct (helper_col_inv X t _ _ _ m m1 r HI Et Eh) as [J1 [J2 [J3 J4]]].
    destruct r as [d|]; [|inversion H; subst; exact J1].
    destruct (d =? c_display c); [inversion H; subst; exact J1|]. inversion H; subst m'.
    apply set_col_display_inv; [exact J1 | apply J4; reflexivity].
Qed.

Lemma add_hidden_column_facts : forall X t kind reft m m1 h,
  InvX X m -> add_hidden_column t kind reft m = Ok (m1, h) ->
  InvX X m1 /\ In h (cids m1) /\ incl (cids m) (cids m1) /\ m_fields m1 = m_fields m /\
  m_sections m1 = m_sections m /\ incl (m_columns m) (m_columns m1).
Proof.
  intros X t kind reft m m1 h HI H. pose proof (add_hidden_column_inv X t kind reft m m1 h HI H) as J.
  unfold add_hidden_column in H. destruct (mem t (tids m)); [|discriminate].
  destruct (do_add_column_extend t kind reft m) as [E1 E2].
  destruct (do_add_column t kind reft m) as [m2 h2]. simpl in *. inversion H as [[Hm Hh]]. clear H.
  split; [exact J|]. rewrite <- Hm, <- Hh, E2. rewrite E1. unfold extend, cids. simpl. rewrite !app_nil_r, map_app. simpl.
  split; [apply in_app_iff; right; left; reflexivity|].
  split; [apply incl_appl, incl_refl|]. split; [reflexivity|]. split; [reflexivity | apply incl_appl, incl_refl].
Qed.

Lemma add_rule_inv : forall X t fld col m m', InvX X m -> add_rule t fld col m = Ok m' -> InvX X m'.
Proof.
  intros X t fld col m m' HI H. unfold add_rule in H.
  destruct (negb (fld =? 0)).
  - destruct (find_field m fld) as [f|] eqn:Ef; [|discriminate]. apply find_field_some in Ef. destruct Ef as [Hf _].
    destruct (add_hidden_column t K_RULE 0 m) as [[m1 h]| |] eqn:Ea; simpl in H; try discriminate.
    destruct (add_hidden_column_facts X t K_RULE 0 m m1 h HI Ea) as [J1 [J2 [J3 [J4 _]]]].
    destruct (field_in_raw m1 f); [discriminate|]. inversion H; subst m'.
    apply upd_field_inv; [exact J1 | reflexivity |].
    intros f0 Hf0. apply FieldOk_with_frules; [apply (inv_fld X m1 J1 f0 Hf0)|].
    intros x Hx. apply in_app_iff in Hx. destruct Hx as [Hx|[Hx|[]]]; [|subst x; exact J2].
    apply J3. destruct (inv_fld X m HI f Hf) as [_ [_ [_ Jr]]]. apply Jr. exact Hx.
  - destruct (negb (col =? 0)).
    + destruct (find_column m col) as [c|] eqn:Ec; [|discriminate]. apply find_column_some in Ec. destruct Ec as [Hc _].
      destruct (add_hidden_column t K_RULE 0 m) as [[m1 h]| |] eqn:Ea; simpl in H; try discriminate.
      destruct (add_hidden_column_facts X t K_RULE 0 m m1 h HI Ea) as [J1 [J2 [J3 _]]].
      inversion H; subst m'. apply upd_column_inv; [exact J1 | intros; split; reflexivity |].
      intros c0 Hc0. apply ColOk_with_crules; [apply (inv_col X m1 J1 c0 Hc0)|].
      intros x Hx. apply in_app_iff in Hx. destruct Hx as [Hx|[Hx|[]]]; [|subst x; exact J2].
      apply J3. destruct (inv_col X m HI c Hc) as [_ [_ [_ [_ Jr]]]]. apply Jr. exact Hx.
    + destruct (find_table m t) as [tr|]; [|discriminate].
      destruct (find_section m (t_raw tr)) as [s|] eqn:Es; [|discriminate].
      apply find_section_some in Es. destruct Es as [Hs _].
      destruct (add_hidden_column t K_ROWRULE 0 m) as [[m1 h]| |] eqn:Ea; simpl in H; try discriminate.
      destruct (add_hidden_column_facts X t K_ROWRULE 0 m m1 h HI Ea) as [J1 [J2 [J3 _]]].
      inversion H; subst m'. apply upd_section_inv; [exact J1 | intros; split; reflexivity |].
      intros s0 Hs0. apply SecOk_with_srules; [apply (inv_sec X m1 J1 s0 Hs0)|].
      intros x Hx. apply in_app_iff in Hx. destruct Hx as [Hx|[Hx|[]]]; [|subst x; exact J2].
      apply J3. destruct (inv_sec X m HI s Hs) as [_ [_ Jr]]. apply Jr. exact Hx.
Qed.

Lemma sublist_of_incl : forall a b, sublist_of a b = true -> incl a b.
Proof. intros a b H. apply all_in_incl. exact H. Qed.

Lemma set_rules_inv : forall X owner i r m m', InvX X m -> set_rules owner i r m = Ok m' -> InvX X m'.
Proof.
  intros X owner i r m m' HI H. unfold set_rules in H.
  destruct (owner =? 0).
  - destruct (find_column m i) as [c|] eqn:Ec; [|discriminate]. apply find_column_some in Ec. destruct Ec as [Hc _].
    destruct (sublist_of r (c_rules c)) eqn:Es; [|discriminate]. apply sublist_of_incl in Es.
    inversion H; subst m'. apply upd_column_inv; [exact HI | intros; split; reflexivity |].
    intros c0 Hc0. apply ColOk_with_crules; [apply (inv_col X m HI c0 Hc0)|].
    destruct (inv_col X m HI c Hc) as [_ [_ [_ [_ Jr]]]]. intros x Hx. apply Jr. apply Es. exact Hx.
  - destruct (owner =? 1).
    + destruct (find_field m i) as [f|] eqn:Ef; [|discriminate]. apply find_field_some in Ef. destruct Ef as [Hf _].
      destruct (sublist_of r (f_rules f)) eqn:Es; simpl in H; [|discriminate]. apply sublist_of_incl in Es.
      destruct (field_in_raw m f); [discriminate|]. inversion H; subst m'.
      apply upd_field_inv; [exact HI | reflexivity |].
      intros f0 Hf0. apply FieldOk_with_frules; [apply (inv_fld X m HI f0 Hf0)|].
      destruct (inv_fld X m HI f Hf) as [_ [_ [_ Jr]]]. intros x Hx. apply Jr. apply Es. exact Hx.
    + destruct (find_section m i) as [s|] eqn:Ef; [|discriminate]. apply find_section_some in Ef. destruct Ef as [Hs _].
      destruct (sublist_of r (s_rules s)) eqn:Es; simpl in H; [|discriminate]. apply sublist_of_incl in Es.
      destruct (is_card m s); [discriminate|]. inversion H; subst m'.
      apply upd_section_inv; [exact HI | intros; split; reflexivity |].
      intros s0 Hs0. apply SecOk_with_srules; [apply (inv_sec X m HI s0 Hs0)|].
      destruct (inv_sec X m HI s Hs) as [_ [_ Jr]]. intros x Hx. apply Jr. apply Es. exact Hx.
Qed.

Lemma set_custom_inv : forall X i b m m', InvX X m -> set_custom i b m = Ok m' -> InvX X m'.
Proof.
  intros X i b m m' HI H. unfold set_custom in H. destruct (find_section m i); [|discriminate].
  inversion H; subst m'. apply upd_section_inv; [exact HI | intros; split; reflexivity |].
  intros s0 Hs0. destruct (inv_sec X m HI s0 Hs0) as [J1 [J2 J3]]. unfold SecOk. simpl. tauto.
Qed.
