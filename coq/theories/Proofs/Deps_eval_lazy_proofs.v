(* The evaluation step of the executable model with LAZILY tracked lookup reads: a read of a lookup-map cell
   observes only "is this row's key k" and is recorded as the registration (row, k) in the _LookupRelation. *)
From Coq Require Import ZArith List Bool Lia.
Import ListNotations.
Require Import Grist.Model.Deps Grist.Model.DepsSpec Grist.Model.DepsExec Grist.Model.DepsEval.
Require Import Grist.Proofs.DepsSpec_proofs.
Require Import Grist.Proofs.Deps_closure_proofs Grist.Proofs.Deps_inval_proofs Grist.Proofs.Deps_order_proofs.
Require Import Grist.Proofs.Deps_rel_proofs Grist.Proofs.Deps_refine_proofs Grist.Proofs.Deps_eval_proofs.
Open Scope Z_scope.

(* reader c observes "key of the lookup-map cell d = k", and (row of c, k) is registered in the relation
   (lookup map = node of d, referring node = node of c) *)
Definition guardedL (s : state) (c d : cell) (p : Z -> Z) : Prop :=
  exists k, (forall z, p z = if Z.eqb z k then 1 else 0) /\ In (snd c, k) (lkrows (rst s) (fst d) (fst c)).

Theorem eval_exec_lazy_ok v f g c t lks l :
  f c = Some t -> g_map g (fst c) = Some (Rows l) -> in_map (g_map g) c = true ->
  Forall (fun a => f (acell a) <> None -> in_map (g_map g) (acell a) = false) (trace v t) ->
  owner_ok (g_edges g) -> (forall e, In e (g_edges g) -> head_look (e_rel e) = true) ->
  (* c is not itself a lookup-map cell somebody observes (those have their own step, with post-invalidation) *)
  (forall x p, ~ guardedL (to_state v f g) x c p) ->
  Forall (fun a =>
            covers (g_rel (snd (eval_exec v g c t lks))) (snd (fst a)) (snd (acell a)) (snd c) = true \/
            guardedL (to_state (fst (eval_exec v g c t lks)) f (snd (eval_exec v g c t lks))) c (acell a) (snd a))
         (trace v t) ->
  eval_ok guardedL (to_state v f g) c t
          (to_state (fst (eval_exec v g c t lks)) f (snd (eval_exec v g c t lks))).
Proof.
  intros Hf HM Hd Hclean Ho Hh Hnog Hcov.
  set (R1 := reset_dependencies (g_edges g) (g_rel g) (fst c) (Rows [snd c])).
  set (R2 := add_lookups R1 (fst c) (snd c) lks).
  assert (Hsim : lk_sim (snd c) (g_rel g) R2).
  { eapply lk_sim_trans; [apply reset_dependencies_sim | apply add_lookups_sim]. }
  assert (Hother : forall m k, k <> fst c -> lkrows (g_rel g) m k = lkrows R2 m k).
  { intros m k Hk. unfold R2. rewrite add_lookups_other; auto. unfold R1.
    rewrite reset_dependencies_other; auto. }
  constructor; cbn [to_state val fml dirty edges rst eval_exec fst snd g_edges g_rel g_map].
  - exact Hf.
  - exact Hd.
  - exact Hclean.
  - reflexivity.
  - reflexivity.
  - intros x Hx Hdx. eapply in_map_remove_other; eauto.
  - intros _. rewrite Forall_forall in *. intros a Ha. destruct (Hcov a Ha) as [Hc | Hg].
    + left. split.
      * exists (snd (fst a)). cbn [to_state edges rst]. split; [apply record_reads_has; exact Ha | exact Hc].
      * intros Hfa. cbn [to_state fml dirty] in *.
        destruct (in_map (map_remove (g_map g) c) (acell a)) eqn:X; auto.
        apply in_map_remove in X. rewrite (Hclean a Ha Hfa) in X. discriminate.
    + right. exact Hg.
  - intros d x Hd1 Hd0. apply in_map_remove in Hd1. rewrite Hd1 in Hd0. discriminate.
  - intros d x Hx _ _ (via & Hin & Hc). cbn [to_state edges rst] in *. exists via. split.
    + apply record_reads_incl. exact Hin.
    + pose proof (Ho _ Hin) as Hown. cbn [e_rel e_out fst snd] in Hown.
      destruct (Z.eq_dec (fst x) (fst c)) as [E | E].
      * apply covers_In. apply covers_In in Hc.
        apply (aff_l_sim (snd c) (g_rel g) R2 via Hsim (Hh _ Hin)); auto.
        intros X. apply Hx. destruct x, c. cbn [fst snd] in *. congruence.
      * unfold covers in *.
        rewrite <- (affected_agree (fun k => Z.eqb k (fst c)) (g_rel g) R2 via (fst x)
                      (lk_sim_agree _ _ _ _ Hsim Hother) Hown); auto.
        apply Z.eqb_neq. exact E.
  - intros x d p Hx _ _ G. split.
    + destruct G as (k & Hp & Hin). exists k. split; [exact Hp |]. cbn [to_state rst] in *.
      destruct (Z.eq_dec (fst x) (fst c)) as [E | E].
      * destruct Hsim as (_ & _ & H3). apply (H3 (fst d) (fst x) (snd x, k)).
        -- cbn [fst]. intros X. apply Hx. destruct x, c. cbn [fst snd] in *. congruence.
        -- exact Hin.
      * pose proof (Hother (fst d) (fst x) E) as Ho2. unfold R2, R1 in Ho2.
        cbn [to_state rst g_rel]. rewrite <- Ho2. exact Hin.
    + assert (d <> c).
      { intros ->. apply (Hnog x p). exact G. }
      rewrite upd_other; auto.
Qed.
