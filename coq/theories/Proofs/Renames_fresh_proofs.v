(* C16: from equivariance under injective renamings to single renames to FRESH names, and the round trip. *)
From Coq Require Import ZArith List Bool Lia.
Import ListNotations.
Require Import Grist.Model.Renames Grist.Proofs.Renames_proofs.
Open Scope Z_scope.

Ltac nb := repeat match goal with
  | H : name_eqb _ _ = true |- _ => apply name_eqb_eq in H; subst
  | H : name_eqb _ _ = false |- _ => apply name_eqb_neq in H
  end.

(* ---- the transposition ---------------------------------------------------------------------------- *)
Lemma swap_invol : forall a b x, swap a b (swap a b x) = x.
Proof.
  intros a b x. unfold swap. destruct (name_eqb x a) eqn:Exa; nb.
  - rewrite name_eqb_refl. destruct (name_eqb b a) eqn:E; nb; reflexivity.
  - destruct (name_eqb x b) eqn:Exb; nb.
    + rewrite name_eqb_refl. reflexivity.
    + rewrite (proj2 (name_eqb_neq x a) Exa), (proj2 (name_eqb_neq x b) Exb). reflexivity.
Qed.

Lemma swap_inj : forall a b x y, name_eqb (swap a b x) (swap a b y) = name_eqb x y.
Proof.
  intros a b x y. destruct (name_eqb x y) eqn:E.
  - nb. apply name_eqb_refl.
  - apply name_eqb_neq. nb. intro H. apply E.
    rewrite <- (swap_invol a b x), <- (swap_invol a b y). rewrite H. reflexivity.
Qed.

Lemma swap_other : forall a b x, x <> a -> x <> b -> swap a b x = x.
Proof.
  intros a b x Ha Hb. unfold swap. rewrite (proj2 (name_eqb_neq x a) Ha), (proj2 (name_eqb_neq x b) Hb). reflexivity.
Qed.

Lemma swap_ren1 : forall a b x, x <> b -> swap a b x = ren1 a b x.
Proof.
  intros a b x Hb. unfold swap, ren1. destruct (name_eqb x a); [reflexivity|].
  rewrite (proj2 (name_eqb_neq x b) Hb). reflexivity.
Qed.

Lemma colS_inj : forall T a b t x y, name_eqb (colS T a b t x) (colS T a b t y) = name_eqb x y.
Proof. intros. unfold colS. destruct (name_eqb t T); [apply swap_inj | reflexivity]. Qed.

Lemma colS_group : forall T a b, a <> GROUP -> b <> GROUP ->
  forall t c, name_eqb (colS T a b t c) GROUP = name_eqb c GROUP.
Proof.
  intros T a b Ha Hb t c. unfold colS. destruct (name_eqb t T); [|reflexivity]. unfold swap.
  destruct (name_eqb c a) eqn:Eca; nb.
  - rewrite (proj2 (name_eqb_neq b GROUP) Hb), (proj2 (name_eqb_neq a GROUP) Ha). reflexivity.
  - destruct (name_eqb c b) eqn:Ecb; nb; [|reflexivity].
    rewrite (proj2 (name_eqb_neq b GROUP) Hb), (proj2 (name_eqb_neq a GROUP) Ha). reflexivity.
Qed.

Lemma colS_col1 : forall T a b t c, (t, c) <> (T, b) -> colS T a b t c = col1 T a b t c.
Proof.
  intros T a b t c H. unfold colS, col1. destruct (name_eqb t T) eqn:E; [|reflexivity]. nb.
  apply swap_ren1. congruence.
Qed.

(* ---- values without table names ------------------------------------------------------------------- *)
Lemma rn_val_id : forall v, rn_val id_tab v = v.
Proof.
  apply val_ind'; try reflexivity. intros vs H. cbn. f_equal.
  induction H as [|v vs Hv _ IH]; [reflexivity|]. cbn. rewrite Hv, IH. reflexivity.
Qed.

Lemma rn_res_id : forall r, rn_res id_tab r = r.
Proof. intros [v|k]; cbn; [rewrite rn_val_id|]; reflexivity. Qed.

(* observation that forgets table names (the encoded value of a typed reference cell is the row id) *)
Fixpoint obs (v : val) : val :=
  match v with
  | VRec _ r => VRec [] r
  | VRecs _ rs => VRecs [] rs
  | VList vs => VList (map obs vs)
  | _ => v
  end.
Definition obs_res (r : R val) : R val := match r with ROk v => ROk (obs v) | RErr k => RErr k end.

Lemma obs_rn : forall rt v, obs (rn_val rt v) = obs v.
Proof.
  intro rt. apply val_ind'; try reflexivity. intros vs H. cbn. f_equal. rewrite map_map.
  induction H as [|v vs Hv _ IH]; [reflexivity|]. cbn. rewrite Hv, IH. reflexivity.
Qed.

Lemma obs_res_rn : forall rt r, obs_res (rn_res rt r) = obs_res r.
Proof. intros rt [v|k]; cbn; [rewrite obs_rn|]; reflexivity. Qed.

(* ---- the standard builtins do not look at table names ---------------------------------------------- *)
Lemma sum_ints_rn : forall rt vs, sum_ints (map (rn_val rt) vs) = sum_ints vs.
Proof.
  intros rt vs. induction vs as [|v vs IH]; [reflexivity|]. destruct v; cbn; rewrite IH; reflexivity.
Qed.

(* Python == looks at table names: equivariant for INJECTIVE renamings of table names *)
Lemma val_eqb_rn : forall rt, (forall a b, name_eqb (rt a) (rt b) = name_eqb a b) ->
  forall a b, val_eqb (rn_val rt a) (rn_val rt b) = val_eqb a b.
Proof.
  intros rt Hinj. apply (val_ind' (fun a => forall b, val_eqb (rn_val rt a) (rn_val rt b) = val_eqb a b)).
  - intro b. destruct b; reflexivity.
  - intros n b. destruct b; reflexivity.
  - intros s b. destruct b; reflexivity.
  - intros t r b. destruct b; try reflexivity. cbn. rewrite Hinj. reflexivity.
  - intros t rs b. destruct b; try reflexivity. cbn. rewrite Hinj. reflexivity.
  - intros vs HF b. destruct b as [| | | | |ws]; try reflexivity. cbn [rn_val val_eqb]. revert ws.
    induction HF as [|v vs Hv _ IH]; intros ws; destruct ws as [|w ws]; try reflexivity.
    cbn [map]. rewrite Hv, IH. reflexivity.
Qed.

Lemma std_prim1_nat : forall rt f v, std_prim1 f (rn_val rt v) = rn_res rt (std_prim1 f v).
Proof.
  intros rt f v. unfold std_prim1.
  destruct (f =? 0). { destruct v; cbn; try reflexivity. rewrite map_length. reflexivity. }
  destruct (f =? 1). { destruct v; cbn; try reflexivity. rewrite sum_ints_rn. reflexivity. }
  destruct (f =? 2). { destruct v; cbn; try reflexivity; rewrite !map_map; reflexivity. }
  destruct (f =? 4). { cbn. destruct v as [| | | | |vs]; try reflexivity. destruct vs; reflexivity. }
  reflexivity.
Qed.

Lemma truthy_rn : forall rt v, truthy (rn_val rt v) = truthy v.
Proof. intros rt v. destruct v as [| | | | |vs]; try reflexivity. destruct vs; reflexivity. Qed.

Lemma std_prim2_nat : forall rt, (forall a b, name_eqb (rt a) (rt b) = name_eqb a b) ->
  forall f a b, std_prim2 f (rn_val rt a) (rn_val rt b) = rn_res rt (std_prim2 f a b).
Proof.
  intros rt Hinj f a b. unfold std_prim2.
  destruct (f =? 0). { destruct a, b; cbn; try reflexivity. rewrite map_app. reflexivity. }
  destruct (f =? 1). { rewrite (val_eqb_rn rt Hinj). reflexivity. }
  destruct (f =? 2). { destruct a, b; try reflexivity. cbn. rewrite Hinj. destruct (name_eqb t t0); reflexivity. }
  destruct (f =? 3). { rewrite truthy_rn. destruct (truthy a); reflexivity. }
  reflexivity.
Qed.

(* ---- a rename depends only on what it does to the names the formula uses ---------------------------- *)
Lemma rn_ob_ext : forall rc1 rc2 t ob, (forall p, In p ob -> rc1 t (snd p) = rc2 t (snd p)) -> rn_ob rc1 t ob = rn_ob rc2 t ob.
Proof. intros rc1 rc2 t ob H. unfold rn_ob. apply map_ext_in. intros p Hp. rewrite (H p Hp). reflexivity. Qed.

Lemma ren_ext_mut : forall rt1 rc1 rt2 rc2 d,
  (forall e self G,
     (forall t, In t (tab_uses e) -> rt1 t = rt2 t) ->
     (forall t c, In (t, c) (col_uses d self G e) -> rc1 t c = rc2 t c) ->
     ren rt1 rc1 d self G e = ren rt2 rc2 d self G e) /\
  (forall ks self G t,
     (forall t', In t' (key_tab_uses ks) -> rt1 t' = rt2 t') ->
     (forall t' c, In (t', c) (key_uses d self G t ks) -> rc1 t' c = rc2 t' c) ->
     ren_keys rt1 rc1 d self G t ks = ren_keys rt2 rc2 d self G t ks).
Proof.
  intros rt1 rc1 rt2 rc2 d. apply expr_keys_ind; try (intros; reflexivity).
  - (* EDollar *) intros c self G _ Hc. cbn. rewrite (Hc self c); [reflexivity | left; reflexivity].
  - (* ECol *) intros e IH c self G Ht Hc. cbn in *. rewrite (IH self G).
    + destruct (infer d self G e) as [t|]; cbn; [|reflexivity]. rewrite (Hc t c); [reflexivity | left; reflexivity].
    + exact Ht.
    + intros t c' Hin. apply Hc. apply in_or_app. right. exact Hin.
  - (* EId *) intros e IH self G Ht Hc. cbn in *. rewrite (IH self G Ht Hc). reflexivity.
  - (* ELookup *) intros one t ks IH ob self G Ht Hc. rewrite !ren_ELookup. cbn in Ht, Hc.
    rewrite (Ht t (or_introl eq_refl)). rewrite (IH self G t).
    + rewrite (rn_ob_ext rc1 rc2 t ob); [reflexivity|]. intros p Hp. apply Hc. apply in_or_app. right.
      apply in_map_iff. exists p. split; [reflexivity | exact Hp].
    + intros t' Hin. apply Ht. right. exact Hin.
    + intros t' c Hin. apply Hc. apply in_or_app. left. exact Hin.
  - (* EAll *) intros t self G Ht _. cbn in *. rewrite (Ht t (or_introl eq_refl)). reflexivity.
  - (* EComp *) intros body IHb x src IHs self G Ht Hc. cbn in *. rewrite (IHb self), (IHs self G); try reflexivity.
    + intros t Hin. apply Ht. apply in_or_app. right. exact Hin.
    + intros t c Hin. apply Hc. apply in_or_app. right. exact Hin.
    + intros t Hin. apply Ht. apply in_or_app. left. exact Hin.
    + intros t c Hin. apply Hc. apply in_or_app. left. exact Hin.
  - (* ECompIf *) intros body IHb x src IHs cond IHc self G Ht Hc. cbn in *.
    rewrite (IHb self), (IHs self G), (IHc self); try reflexivity.
    + intros t Hin. apply Ht. rewrite !in_app_iff. tauto.
    + intros t c Hin. apply Hc. rewrite !in_app_iff. tauto.
    + intros t Hin. apply Ht. rewrite !in_app_iff. tauto.
    + intros t c Hin. apply Hc. rewrite !in_app_iff. tauto.
    + intros t Hin. apply Ht. rewrite !in_app_iff. tauto.
    + intros t c Hin. apply Hc. rewrite !in_app_iff. tauto.
  - (* EPrevNext *) intros w e IH gb ob self G Ht Hc. cbn in *. rewrite (IH self G).
    + destruct (infer d self G e) as [t|]; cbn; [|reflexivity]. f_equal.
      * apply map_ext_in. intros c Hin. apply Hc. rewrite !in_app_iff. left. left.
        apply in_map_iff. exists c. split; [reflexivity | exact Hin].
      * apply rn_ob_ext. intros p Hp. apply Hc. rewrite !in_app_iff. left. right.
        apply in_map_iff. exists p. split; [reflexivity | exact Hp].
    + exact Ht.
    + intros t c Hin. apply Hc. apply in_or_app. right. exact Hin.
  - (* EPrim1 *) intros f e IH self G Ht Hc. cbn in *. rewrite (IH self G Ht Hc). reflexivity.
  - (* EPrim2 *) intros f a IHa b IHb self G Ht Hc. cbn in *. rewrite (IHa self G), (IHb self G); try reflexivity.
    + intros t Hin. apply Ht. rewrite !in_app_iff. tauto.
    + intros t c Hin. apply Hc. rewrite !in_app_iff. tauto.
    + intros t Hin. apply Ht. rewrite !in_app_iff. tauto.
    + intros t c Hin. apply Hc. rewrite !in_app_iff. tauto.
  - (* EIf *) intros c IHc a IHa b IHb self G Ht Hc. cbn in *.
    rewrite (IHc self G), (IHa self G), (IHb self G); try reflexivity.
    + intros t Hin. apply Ht. rewrite !in_app_iff. tauto.
    + intros t c' Hin. apply Hc. rewrite !in_app_iff. tauto.
    + intros t Hin. apply Ht. rewrite !in_app_iff. tauto.
    + intros t c' Hin. apply Hc. rewrite !in_app_iff. tauto.
    + intros t Hin. apply Ht. rewrite !in_app_iff. tauto.
    + intros t c' Hin. apply Hc. rewrite !in_app_iff. tauto.
  - (* KCons *) intros k e IHe ks IHk self G t Ht Hc. rewrite !ren_keys_KCons. cbn in Ht, Hc.
    rewrite (Hc t k (or_introl eq_refl)). rewrite (IHe self G), (IHk self G t); try reflexivity.
    + intros t' Hin. apply Ht. rewrite !in_app_iff. tauto.
    + intros t' c Hin. apply Hc. right. rewrite !in_app_iff. tauto.
    + intros t' Hin. apply Ht. rewrite !in_app_iff. tauto.
    + intros t' c Hin. apply Hc. right. rewrite !in_app_iff. tauto.
Qed.

Lemma ren_id_mut : forall d,
  (forall e self G, ren id_tab id_col d self G e = e) /\
  (forall ks self G t, ren_keys id_tab id_col d self G t ks = ks).
Proof.
  intro d.
  assert (Hob : forall t ob, rn_ob id_col t ob = ob).
  { intros t ob. unfold rn_ob, id_col. induction ob as [|[b c] ob IH]; [reflexivity|]. cbn. rewrite IH. reflexivity. }
  apply expr_keys_ind; try (intros; reflexivity).
  - intros e IH c self G. cbn. rewrite IH. destruct (infer d self G e); reflexivity.
  - intros e IH self G. cbn. rewrite IH. reflexivity.
  - intros one t ks IH ob self G. rewrite ren_ELookup. rewrite IH, Hob. reflexivity.
  - intros body IHb x src IHs self G. cbn. rewrite IHb, IHs. reflexivity.
  - intros body IHb x src IHs cond IHc self G. cbn. rewrite IHb, IHs, IHc. reflexivity.
  - intros w e IH gb ob self G. cbn. rewrite IH. destruct (infer d self G e); cbn.
    + rewrite Hob. unfold id_col. rewrite map_id. reflexivity.
    + rewrite map_id. reflexivity.
  - intros f e IH self G. cbn. rewrite IH. reflexivity.
  - intros f a IHa b IHb self G. cbn. rewrite IHa, IHb. reflexivity.
  - intros c IHc a IHa b IHb self G. cbn. rewrite IHc, IHa, IHb. reflexivity.
  - intros k e IHe ks IHk self G t. rewrite ren_keys_KCons. rewrite IHe, IHk. reflexivity.
Qed.

(* ---- static types commute with an injective renaming; two renamings compose -------------------------- *)
Section Compose.
  Variable rt1 : name -> name.
  Variable rc1 : name -> name -> name.
  Hypothesis tab_inj : forall a b, name_eqb (rt1 a) (rt1 b) = name_eqb a b.
  Hypothesis col_inj : forall t a b, name_eqb (rc1 t a) (rc1 t b) = name_eqb a b.
  Variable d : doc.

  Definition rnG (G : tenv) : tenv := map (fun p => (fst p, option_map rt1 (snd p))) G.

  Lemma lookup_env_rnG : forall x G, lookup_env x (rnG G) = option_map (option_map rt1) (lookup_env x G).
  Proof.
    intros x G. induction G as [|[y o] G IH]; [reflexivity|]. cbn. destruct (name_eqb y x); [reflexivity | exact IH].
  Qed.

  Lemma infer_rn : forall e self G,
    infer (rename_doc rt1 rc1 d) (rt1 self) (rnG G) (ren rt1 rc1 d self G e) = option_map rt1 (infer d self G e).
  Proof.
    induction e; intros self G; try reflexivity.
    - cbn. rewrite lookup_env_rnG. destruct (lookup_env x G) as [o|]; reflexivity.
    - cbn. apply (col_target_rn rt1 rc1 tab_inj col_inj).
    - cbn [ren infer]. rewrite IHe. destruct (infer d self G e) as [t|]; [|reflexivity]. cbn.
      apply (col_target_rn rt1 rc1 tab_inj col_inj).
    - cbn [ren infer]. apply IHe.
  Qed.

  Lemma comp_type_rn : forall src self G, comp_type (ren rt1 rc1 d self G src) = option_map rt1 (comp_type src).
  Proof. intros src self G. destruct src; reflexivity. Qed.

  Variable rt2 : name -> name.
  Variable rc2 : name -> name -> name.

  Lemma ren_compose_mut :
    (forall e self G,
       ren rt2 rc2 (rename_doc rt1 rc1 d) (rt1 self) (rnG G) (ren rt1 rc1 d self G e)
       = ren (fun t => rt2 (rt1 t)) (fun t c => rc2 (rt1 t) (rc1 t c)) d self G e) /\
    (forall ks self G t,
       ren_keys rt2 rc2 (rename_doc rt1 rc1 d) (rt1 self) (rnG G) (rt1 t) (ren_keys rt1 rc1 d self G t ks)
       = ren_keys (fun t => rt2 (rt1 t)) (fun t c => rc2 (rt1 t) (rc1 t c)) d self G t ks).
  Proof.
    assert (Hob : forall t ob, rn_ob rc2 (rt1 t) (rn_ob rc1 t ob) = rn_ob (fun t c => rc2 (rt1 t) (rc1 t c)) t ob).
    { intros t ob. unfold rn_ob. rewrite map_map. reflexivity. }
    apply expr_keys_ind; try (intros; reflexivity).
    - (* ECol *) intros e IH c self G. cbn [ren]. rewrite IH, infer_rn.
      destruct (infer d self G e); reflexivity.
    - (* EId *) intros e IH self G. cbn [ren]. rewrite IH. reflexivity.
    - (* ELookup *) intros one t ks IH ob self G. rewrite !ren_ELookup. rewrite IH, Hob. reflexivity.
    - (* EComp *) intros body IHb x src IHs self G. cbn [ren]. rewrite IHs. rewrite comp_type_rn.
      change ((x, option_map rt1 (comp_type src)) :: rnG G) with (rnG ((x, comp_type src) :: G)).
      rewrite IHb. reflexivity.
    - (* ECompIf *) intros body IHb x src IHs cond IHc self G. cbn [ren]. rewrite IHs. rewrite comp_type_rn.
      change ((x, option_map rt1 (comp_type src)) :: rnG G) with (rnG ((x, comp_type src) :: G)).
      rewrite IHb, IHc. reflexivity.
    - (* EPrevNext *) intros w e IH gb ob self G. cbn [ren]. rewrite IH, infer_rn.
      destruct (infer d self G e) as [t|]; cbn [option_map rn_opt_ob]; rewrite map_map; [rewrite Hob|]; reflexivity.
    - (* EPrim1 *) intros f e IH self G. cbn [ren]. rewrite IH. reflexivity.
    - (* EPrim2 *) intros f a IHa b IHb self G. cbn [ren]. rewrite IHa, IHb. reflexivity.
    - (* EIf *) intros c IHc a IHa b IHb self G. cbn [ren]. rewrite IHc, IHa, IHb. reflexivity.
    - (* KCons *) intros k e IHe ks IHk self G t. rewrite !ren_keys_KCons. rewrite IHe, IHk. reflexivity.
  Qed.
End Compose.

(* ---- documents: two renamings that agree on everything the document mentions ------------------------- *)
Definition agree_doc rt1 rc1 rt2 rc2 (d : doc) : Prop :=
  forall tb, In tb d ->
    rt1 (tname tb) = rt2 (tname tb) /\
    forall co, In co (tcols tb) ->
      rc1 (tname tb) (cname co) = rc2 (tname tb) (cname co) /\
      rn_ctyp rt1 (ctype co) = rn_ctyp rt2 (ctype co) /\
      (forall f, cformula co = Some f -> ren rt1 rc1 d (tname tb) [] f = ren rt2 rc2 d (tname tb) [] f) /\
      (forall p, In p (cdata co) -> rn_val rt1 (snd p) = rn_val rt2 (snd p)).

Lemma rename_doc_ext : forall rt1 rc1 rt2 rc2 d,
  agree_doc rt1 rc1 rt2 rc2 d -> rename_doc rt1 rc1 d = rename_doc rt2 rc2 d.
Proof.
  intros rt1 rc1 rt2 rc2 d H. unfold rename_doc. apply map_ext_in. intros tb Htb.
  destruct (H tb Htb) as [Ht Hc]. unfold rn_table. rewrite Ht. f_equal.
  apply map_ext_in. intros co Hco. destruct (Hc co Hco) as [H1 [H2 [H3 H4]]].
  unfold rn_column. rewrite H1, H2. f_equal.
  - destruct (cformula co) as [f|]; [|reflexivity]. cbn. rewrite (H3 f eq_refl). reflexivity.
  - apply map_ext_in. intros p Hp. rewrite (H4 p Hp). reflexivity.
Qed.

(* b is a fresh column name for table T: T has no column b and no formula refers to a column b of T *)
Definition fresh_col (d : doc) (T b : name) : Prop :=
  (forall tb co, In tb d -> In co (tcols tb) -> (tname tb, cname co) <> (T, b)) /\
  (forall tb co f, In tb d -> In co (tcols tb) -> cformula co = Some f -> ~ In (T, b) (col_uses d (tname tb) [] f)).

(* b is a fresh table name: no table, reference type, formula or stored value mentions it *)
Definition fresh_tab (d : doc) (b : name) : Prop :=
  forall tb, In tb d ->
    tname tb <> b /\
    forall co, In co (tcols tb) ->
      ctype co <> CRef b /\ ctype co <> CRefList b /\
      (forall f, cformula co = Some f -> ~ In b (tab_uses f)) /\
      (forall p rt, In p (cdata co) -> rn_val rt (snd p) = snd p).

Lemma ren_col1_colS : forall d T a b self G f,
  ~ In (T, b) (col_uses d self G f) -> ren id_tab (col1 T a b) d self G f = ren id_tab (colS T a b) d self G f.
Proof.
  intros d T a b self G f H. apply (proj1 (ren_ext_mut id_tab (col1 T a b) id_tab (colS T a b) d)).
  - reflexivity.
  - intros t c Hin. symmetry. apply colS_col1. intro E. inversion E; subst. contradiction.
Qed.

Lemma fresh_col_agree : forall d T a b,
  fresh_col d T b -> agree_doc id_tab (col1 T a b) id_tab (colS T a b) d.
Proof.
  intros d T a b [H1 H2] tb Htb. split; [reflexivity|]. intros co Hco. repeat split.
  - symmetry. apply colS_col1. apply H1; assumption.
  - intros f Hf. apply ren_col1_colS. eapply H2; eauto.
Qed.

Lemma ren_tab1_swap : forall d a b self G f,
  ~ In b (tab_uses f) -> ren (ren1 a b) id_col d self G f = ren (swap a b) id_col d self G f.
Proof.
  intros d a b self G f H. apply (proj1 (ren_ext_mut (ren1 a b) id_col (swap a b) id_col d)).
  - intros t Hin. symmetry. apply swap_ren1. intro E. subst. contradiction.
  - reflexivity.
Qed.

Lemma fresh_tab_agree : forall d a b,
  fresh_tab d b -> agree_doc (ren1 a b) id_col (swap a b) id_col d.
Proof.
  intros d a b H tb Htb. destruct (H tb Htb) as [Hn Hc]. split; [symmetry; apply swap_ren1; exact Hn|].
  intros co Hco. destruct (Hc co Hco) as [H1 [H2 [H3 H4]]]. repeat split.
  - destruct (ctype co) as [|u|u]; cbn; [reflexivity| |]; f_equal; symmetry; apply swap_ren1; congruence.
  - intros f Hf. apply ren_tab1_swap. eapply H3; eauto.
  - intros p Hp. rewrite !(H4 p _ Hp). reflexivity.
Qed.

(* ---- the single-rename theorems ------------------------------------------------------------------------ *)
(* The name `group` matters only for a column that carries the group formula (a reference list computed by
   table.getSummarySourceGroup): such a column of T may be renamed a -> b only if neither name is `group`.
   Any other column may be renamed from or to `group`. *)
Definition group_ok (d : doc) (T a b : name) : Prop :=
  forall tb co, In tb d -> In co (tcols tb) -> is_grp co = true -> tname tb = T ->
    (cname co = a \/ cname co = b) -> a <> GROUP /\ b <> GROUP.

Lemma group_ok_of_neq : forall d T a b, a <> GROUP -> b <> GROUP -> group_ok d T a b.
Proof. intros d T a b Ha Hb tb co _ _ _ _ _. split; assumption. Qed.

Lemma group_ok_stable : forall d T a b, group_ok d T a b ->
  forall tb co, In tb d -> In co (tcols tb) -> is_grp co = true ->
    name_eqb (colS T a b (tname tb) (cname co)) GROUP = name_eqb (cname co) GROUP.
Proof.
  intros d T a b Hgo tb co Htb Hco Hg.
  destruct (name_eqb (tname tb) T) eqn:Et; [|unfold colS; rewrite Et; reflexivity].
  pose proof (proj1 (name_eqb_eq _ _) Et) as ET.
  destruct (name_eqb (cname co) a) eqn:Ea.
  - destruct (Hgo tb co Htb Hco Hg ET (or_introl (proj1 (name_eqb_eq _ _) Ea))) as [Ha Hb].
    apply colS_group; assumption.
  - destruct (name_eqb (cname co) b) eqn:Eb.
    + destruct (Hgo tb co Htb Hco Hg ET (or_intror (proj1 (name_eqb_eq _ _) Eb))) as [Ha Hb].
      apply colS_group; assumption.
    + unfold colS, swap. rewrite Et, Ea, Eb. reflexivity.
Qed.

Theorem rename_column_preserves_eval_proof : forall prim1 prim2 fuel d T a b self row f,
  doc_wf d -> wf_static d self [] f = true ->
  group_ok d T a b ->
  fresh_col d T b -> ~ In (T, b) (col_uses d self [] f) ->
  eval_formula prim1 prim2 fuel (rename_doc id_tab (col1 T a b) d) self row (ren id_tab (col1 T a b) d self [] f)
  = eval_formula prim1 prim2 fuel d self row f.
Proof.
  intros prim1 prim2 fuel d T a b self row f Hd Hf Hgo Hfr Hnf.
  rewrite (rename_doc_ext _ _ _ _ d (fresh_col_agree d T a b Hfr)). rewrite (ren_col1_colS d T a b self [] f Hnf).
  rewrite <- (rn_res_id (eval_formula prim1 prim2 fuel d self row f)).
  apply (eval_formula_rn id_tab (colS T a b) prim1 prim2); try assumption.
  - reflexivity.
  - apply colS_inj.
  - intros g v. rewrite rn_val_id, rn_res_id. reflexivity.
  - intros g x y. rewrite !rn_val_id, rn_res_id. reflexivity.
  - apply group_ok_stable. exact Hgo.
Qed.

Theorem rename_table_preserves_eval_proof : forall prim1 prim2 fuel d a b self row f,
  (forall g v, prim1 g (rn_val (swap a b) v) = rn_res (swap a b) (prim1 g v)) ->
  (forall g x y, prim2 g (rn_val (swap a b) x) (rn_val (swap a b) y) = rn_res (swap a b) (prim2 g x y)) ->
  doc_wf d -> wf_static d self [] f = true ->
  fresh_tab d b -> ~ In b (tab_uses f) -> self <> b ->
  eval_formula prim1 prim2 fuel (rename_doc (ren1 a b) id_col d) (ren1 a b self) row (ren (ren1 a b) id_col d self [] f)
  = rn_res (swap a b) (eval_formula prim1 prim2 fuel d self row f).
Proof.
  intros prim1 prim2 fuel d a b self row f Hp1 Hp2 Hd Hf Hfr Hnf Hs.
  rewrite (rename_doc_ext _ _ _ _ d (fresh_tab_agree d a b Hfr)). rewrite (ren_tab1_swap d a b self [] f Hnf).
  rewrite <- (swap_ren1 a b self Hs).
  apply (eval_formula_rn (swap a b) id_col prim1 prim2); try assumption.
  - apply swap_inj.
  - reflexivity.
  - reflexivity.
Qed.

(* rename (T,a) -> b, then (T,b) -> a: every formula is back to what it was *)
Theorem rename_column_roundtrip_proof : forall d T a b self f,
  fresh_col d T b -> ~ In (T, b) (col_uses d self [] f) ->
  ren id_tab (col1 T b a) (rename_doc id_tab (col1 T a b) d) self [] (ren id_tab (col1 T a b) d self [] f) = f.
Proof.
  intros d T a b self f Hfr Hnf.
  rewrite (rename_doc_ext _ _ _ _ d (fresh_col_agree d T a b Hfr)). rewrite (ren_col1_colS d T a b self [] f Hnf).
  pose proof (proj1 (ren_compose_mut id_tab (colS T a b) (fun x y => eq_refl) (colS_inj T a b) d id_tab (col1 T b a))
                f self []) as Hc.
  cbn [rnG map] in Hc. unfold id_tab at 3 in Hc. rewrite Hc.
  rewrite <- (proj1 (ren_id_mut d) f self []) at 2.
  apply (proj1 (ren_ext_mut _ _ id_tab id_col d)).
  - reflexivity.
  - intros t c Hin. unfold id_tab, id_col, col1, colS. destruct (name_eqb t T) eqn:Et; [|reflexivity]. nb.
    unfold swap, ren1. destruct (name_eqb c a) eqn:Eca; nb.
    + rewrite name_eqb_refl. reflexivity.
    + destruct (name_eqb c b) eqn:Ecb; nb; [contradiction|]. rewrite (proj2 (name_eqb_neq c b) Ecb). reflexivity.
Qed.

Theorem rename_table_roundtrip_proof : forall d a b self f,
  fresh_tab d b -> ~ In b (tab_uses f) -> self <> b ->
  ren (ren1 b a) id_col (rename_doc (ren1 a b) id_col d) (ren1 a b self) [] (ren (ren1 a b) id_col d self [] f) = f.
Proof.
  intros d a b self f Hfr Hnf Hs.
  rewrite (rename_doc_ext _ _ _ _ d (fresh_tab_agree d a b Hfr)). rewrite (ren_tab1_swap d a b self [] f Hnf).
  rewrite <- (swap_ren1 a b self Hs).
  pose proof (proj1 (ren_compose_mut (swap a b) id_col (swap_inj a b) (fun t x y => eq_refl) d (ren1 b a) id_col)
                f self []) as Hc.
  cbn [rnG map] in Hc. rewrite Hc.
  rewrite <- (proj1 (ren_id_mut d) f self []) at 2.
  apply (proj1 (ren_ext_mut _ _ id_tab id_col d)).
  - intros t Hin. unfold id_tab, swap, ren1. destruct (name_eqb t a) eqn:Eta; nb.
    + rewrite name_eqb_refl. reflexivity.
    + destruct (name_eqb t b) eqn:Etb; nb; [contradiction|]. rewrite (proj2 (name_eqb_neq t b) Etb). reflexivity.
  - reflexivity.
Qed.
