(* K2 with lookups: the update loop with mid-loop invalidation ([xstep]).  What the engine's rule "lookup
   nodes are processed first" buys: no invalidation is ever lost. *)
From Coq Require Import ZArith List Bool Lia Arith Wellfounded.
Import ListNotations.
Require Import Grist.Model.Sched Grist.Proofs.Sched_proofs Grist.Proofs.Sched_conf_proofs.
Open Scope Z_scope.

Section X.
  Variable P : prog.
  Variables isidx iskey : Z -> bool.
  Notation xstep := (xstep P isidx iskey).
  Notation xsteps := (xsteps P isidx iskey).
  Notation lf_steps := (lf_steps P isidx iskey).
  Notation special := (special isidx iskey).
  Notation idx_dirty := (idx_dirty isidx).

  Lemma xexec_sound xl x x' : xexec P isidx iskey xl x = Some x' -> xstep x x'.
  Proof.
    destruct x as [s d l]. destruct xl as [lb|cs]; cbn [xexec xst xdone xlost]; intros H.
    - destruct (exec P lb s) as [s'|] eqn:E; [|discriminate]. inversion H; subst.
      apply xs_step. eapply exec_sound. exact E.
    - destruct cs as [|c0 cs']; [discriminate|]. remember (c0 :: cs') as cs eqn:Ecs.
      destruct (idx_dirty s) eqn:Ei; cbn [andb] in H; [|discriminate].
      match type of H with (if ?b then _ else _) = _ => destruct b eqn:Ef end; [|discriminate].
      injection H as <-. apply xs_inval; [rewrite Ecs; discriminate | exact Ei|].
      intros c Hc. rewrite forallb_forall in Ef. specialize (Ef c Hc).
      apply andb_true_iff in Ef. destruct Ef as [Ef E3]. apply andb_true_iff in Ef. destruct Ef as [E1 E2].
      apply negb_true_iff in E1. apply negb_true_iff in E2.
      split; [exact E1|]. split; [exact E2|]. destruct (P c); [discriminate | discriminate].
  Qed.

  Lemma xreplay_sound ls : forall x x', xreplay P isidx iskey ls x = Some x' -> xsteps x x'.
  Proof.
    induction ls as [|l ls IH]; cbn [xreplay]; intros x x' H; [inversion H; constructor|].
    destruct (xexec P isidx iskey l x) as [x1|] eqn:E; [|discriminate].
    econstructor; [eapply xexec_sound; exact E | apply IH; exact H].
  Qed.

  (* ------------------------------------------------------------------------------------ *)
  Lemma idx_dirty_In s : idx_dirty s = true <-> exists c, In c (dirty s) /\ isidx (fst c) = true.
  Proof. unfold Sched.idx_dirty. apply existsb_exists. Qed.

  Lemma idx_dirty_step s s' : step P s s' -> idx_dirty s' = true -> idx_dirty s = true.
  Proof.
    intros St H. apply idx_dirty_In in H. destruct H as [c [Hc Hi]]. apply idx_dirty_In.
    exists c. split; [eapply step_dirty_subset; eassumption | exact Hi].
  Qed.

  (* while an index cell is dirty, only index and key cells have been computed; nothing was lost *)
  Definition no_loss_inv (x : xstate) : Prop :=
    xlost x = false /\ (idx_dirty (xst x) = true -> forall c, In c (xdone x) -> special c = true).

  Lemma no_loss_step x x' :
    xstep x x' -> lookups_first_step isidx iskey x x' ->
    no_loss_inv x -> no_loss_inv x'.
  Proof.
    intros St LF [Hl Hd]. destruct St as [s s' d l St|s d l cs Hne Hi Hcs]; cbn [xst xdone xlost] in *.
    - split; [exact Hl|]. intros Hi' c Hc. pose proof (idx_dirty_step _ _ St Hi') as Hi.
      apply in_app_or in Hc. destruct Hc as [Hc|Hc]; [|apply Hd; assumption].
      destruct (special c) eqn:Es; [reflexivity|]. unfold lookups_first_step in LF. cbn [xst] in LF.
      rewrite (LF c Hc Es) in Hi. discriminate.
    - assert (Hnone : existsb (fun c => mem c d) cs = false).
      { destruct (existsb (fun c => mem c d) cs) eqn:E; [|reflexivity]. exfalso.
        apply existsb_exists in E. destruct E as [c [Hc Hm]]. apply mem_In in Hm.
        pose proof (Hd Hi c Hm) as Hs. destruct (Hcs c Hc) as [_ [Hs' _]]. congruence. }
      split; [rewrite Hl, Hnone; reflexivity|]. intros _ c Hc. apply Hd; [exact Hi | exact Hc].
  Qed.

  Theorem lookups_first_no_lost x x' : lf_steps x x' -> no_loss_inv x -> no_loss_inv x'.
  Proof. induction 1 as [x|x1 x2 x3 St LF _ IH]; intros H; [exact H|]. apply IH. eapply no_loss_step; eassumption. Qed.

  Corollary lookups_first_no_lost_from_start s x' :
    lf_steps (mkx s [] false) x' -> xlost x' = false.
  Proof.
    intros H. apply (lookups_first_no_lost _ _ H). split; [reflexivity|]. intros _ c [].
  Qed.

  (* ------------------------------------------------------------------------------------ *)
  (* the engine's strategy with index cells first in the priority order is "lookups first", provided the formulas of
     index and key cells read only key cells and data cells (lookup depth 1) *)
  Inductive reads_key : itree -> Prop :=
  | rk_ret z : reads_key (Ret z)
  | rk_raise e : reads_key (Raise e)
  | rk_read c k : (iskey (fst c) = true \/ P c = None) -> (forall v, reads_key (k v)) -> reads_key (Read c k).

  Hypothesis depth1 : forall c t, P c = Some t -> special c = true -> reads_key t.

  Lemma eval_need_key vl isd t d : reads_key t -> eval vl isd t = ONeed d -> iskey (fst d) = true \/ P d = None.
  Proof.
    induction 1 as [z|e|c k Hc Hk IH]; cbn [eval]; intros H; try discriminate.
    destruct (isd c); [inversion H; subst; exact Hc | eapply IH; exact H].
  Qed.

  Variable order : list cell.
  Hypothesis idx_first : forall s c, first_dirty order s = Some c -> idx_dirty s = true -> isidx (fst c) = true.

  (* while an index cell is dirty, every cell on the work stack is an index or key cell *)
  Definition stack_special (s : state) : Prop :=
    idx_dirty s = true -> forall f, In f (stack s) -> special (fst f) = true.

  Lemma newly_clean_finish s c v x : In x (newly_clean s (finish s c v)) -> x = c.
  Proof.
    unfold newly_clean. rewrite filter_In. cbn [finish dirty]. intros [Hx Hm].
    destruct (cell_eq_dec x c) as [E|Ne]; [exact E|].
    rewrite mem_remove_other in Hm by exact Ne. apply mem_In in Hx. rewrite Hx in Hm. discriminate.
  Qed.

  Lemma newly_clean_same s s' : dirty s' = dirty s -> newly_clean s s' = [].
  Proof.
    intros E. unfold newly_clean. rewrite E. induction (dirty s) as [|a l IH]; [reflexivity|].
    cbn [filter]. assert (Ha : mem a (a :: l) = true) by (apply mem_In; left; reflexivity).
    rewrite Ha. cbn [negb].
    (* the remaining elements are all members of a :: l *)
    clear IH Ha. assert (G : forall m, (forall y, In y m -> In y (a :: l)) -> filter (fun c => negb (mem c (a :: l))) m = []).
    { induction m as [|y m IHm]; intros Hm; [reflexivity|]. cbn [filter].
      assert (Hy : mem y (a :: l) = true) by (apply mem_In; apply Hm; left; reflexivity).
      rewrite Hy. cbn [negb]. apply IHm. intros z Hz. apply Hm. right. exact Hz. }
    apply G. intros y Hy. right. exact Hy.
  Qed.

  Theorem engine_strategy_lookups_first s l s' d lo :
    has_formulas P s -> stack_special s ->
    engine_strategy P order s = Some l -> exec P l s = Some s' ->
    lookups_first_step isidx iskey (mkx s d lo) (mkx s' (newly_clean s s' ++ d) lo) /\ stack_special s'.
  Proof.
    intros HF HS Hl He. unfold lookups_first_step. cbn [xst].
    assert (Sub : idx_dirty s' = true -> idx_dirty s = true).
    { apply idx_dirty_step. eapply exec_sound. exact He. }
    unfold engine_strategy in Hl. destruct (stack s) as [|[c lk] rest] eqn:Es.
    - (* pick *) destruct (first_dirty order s) as [c|] eqn:Ef; [|discriminate]. inversion Hl; subst l. clear Hl.
      cbn [exec] in He. rewrite Es in He. destruct (mem c (dirty s)); [|discriminate]. inversion He; subst s'. clear He.
      split; [rewrite newly_clean_same by reflexivity; intros x []|].
      intros Hi f [<-|[]]. cbn [fst]. unfold Sched.special. rewrite (idx_first s c Ef Hi). reflexivity.
    - assert (Hc : idx_dirty s = true -> special c = true).
      { intros Hi. apply (HS Hi (c, lk)). rewrite Es. left. reflexivity. }
      destruct (mem c (dirty s)) eqn:Ed.
      + destruct (mem c (locked s)) eqn:Elk.
        * (* cycle *) inversion Hl; subst l. clear Hl. cbn [exec] in He.
          rewrite Es, cell_eqb_refl, Ed, Elk in He. cbn [andb] in He. inversion He; subst s'. clear He.
          split.
          -- intros x Hx Hsp. apply newly_clean_finish in Hx. subst x.
             destruct (idx_dirty s) eqn:Hi; [rewrite (Hc eq_refl) in Hsp; discriminate | reflexivity].
          -- intros Hi f Hf. cbn [finish stack] in Hf. apply (HS (Sub Hi) f Hf).
        * destruct (run_formula P s c) as [[v|dd]|] eqn:Er; [| |discriminate]; inversion Hl; subst l; clear Hl;
            cbn [exec] in He; rewrite Es, cell_eqb_refl, Ed, Elk, Er in He; cbn [andb negb] in He.
          -- (* done *) inversion He; subst s'. clear He. split.
             ++ intros x Hx Hsp. apply newly_clean_finish in Hx. subst x.
                destruct (idx_dirty s) eqn:Hi; [rewrite (Hc eq_refl) in Hsp; discriminate | reflexivity].
             ++ intros Hi f Hf. cbn [finish stack] in Hf. apply (HS (Sub Hi) f Hf).
          -- (* need *) rewrite cell_eqb_refl in He. inversion He; subst s'. clear He. split.
             ++ rewrite newly_clean_same by reflexivity. intros x [].
             ++ intros Hi f Hf. cbn [stack] in Hf. pose proof (Sub Hi) as Hi0.
                destruct Hf as [<-|Hf]; [|apply (HS Hi0 f); rewrite Es; exact Hf]. cbn [fst].
                unfold run_formula in Er. destruct (P c) as [t|] eqn:Ep; [|discriminate]. inversion Er as [Er'].
                pose proof (eval_need_dirty _ _ _ _ Er') as Hdd.
                destruct (eval_need_key _ _ _ _ (depth1 c t Ep (Hc Hi0)) Er') as [Hk|Hn].
                ** unfold Sched.special. rewrite Hk. apply orb_true_r.
                ** exfalso. apply (HF dd); [apply mem_In; exact Hdd | exact Hn].
      + (* the frame's cell is clean: pop, or an opportunistic evaluation of a cell of the same node *)
        assert (Pop : forall sp, exec P LPop s = Some sp ->
                  (forall x, In x (newly_clean s sp) -> special x = false -> idx_dirty s = false) /\ stack_special sp).
        { intros sp Hp. cbn [exec] in Hp. rewrite Es, Ed in Hp. inversion Hp; subst sp. clear Hp. split.
          - rewrite newly_clean_same by reflexivity. intros x [].
          - intros Hi f Hf. cbn [stack] in Hf. apply (HS Hi f). rewrite Es. right. exact Hf. }
        destruct lk as [lc|]; [|inversion Hl; subst l; apply Pop; exact He].
        destruct (find (fun x => Z.eqb (fst x) (fst c) && mem x (dirty s)) order) as [x|] eqn:Ef;
          [|inversion Hl; subst l; apply Pop; exact He].
        apply find_some in Ef. destruct Ef as [_ Ef]. apply andb_true_iff in Ef. destruct Ef as [Efc Efd].
        apply Z.eqb_eq in Efc.
        destruct (run_formula P s x) as [[v|dd]|] eqn:Er; try (inversion Hl; subst l; apply Pop; exact He).
        inversion Hl; subst l. clear Hl. cbn [exec] in He. rewrite Efd, Er in He. inversion He; subst s'. clear He.
        split.
        * intros y Hy Hsp. apply newly_clean_finish in Hy. subst y.
          destruct (idx_dirty s) eqn:Hi; [|reflexivity]. pose proof (Hc eq_refl) as Hcs.
          unfold Sched.special in *. rewrite Efc in Hsp. congruence.
        * intros Hi f Hf. cbn [finish stack] in Hf. apply (HS (Sub Hi) f Hf).
  Qed.

  (* runs of the engine strategy interleaved with arbitrary (legal) invalidations *)
  Inductive eng_xsteps : xstate -> xstate -> Prop :=
  | ex_refl x : eng_xsteps x x
  | ex_inval s d lo cs x'' :
      cs <> [] -> idx_dirty s = true ->
      (forall c, In c cs -> mem c (dirty s) = false /\ special c = false /\ P c <> None) ->
      eng_xsteps (mkx (add_dirty s (filter (fun c => negb (mem c d)) cs)) d (lo || existsb (fun c => mem c d) cs)) x'' ->
      eng_xsteps (mkx s d lo) x''
  | ex_strat s d lo l s' x'' :
      engine_strategy P order s = Some l -> exec P l s = Some s' ->
      eng_xsteps (mkx s' (newly_clean s s' ++ d) lo) x'' ->
      eng_xsteps (mkx s d lo) x''.

  Lemma newly_clean_superset s s' : (forall c, In c (dirty s) -> In c (dirty s')) -> newly_clean s s' = [].
  Proof.
    intros H. unfold newly_clean. induction (dirty s) as [|a l IH]; [reflexivity|]. cbn [filter].
    assert (Ha : mem a (dirty s') = true) by (apply mem_In; apply H; left; reflexivity).
    rewrite Ha. cbn [negb]. apply IH. intros c Hc. apply H. right. exact Hc.
  Qed.

  Theorem engine_lookups_first_no_lost x x' :
    eng_xsteps x x' -> has_formulas P (xst x) -> stack_special (xst x) -> no_loss_inv x ->
    xsteps x x' /\ no_loss_inv x'.
  Proof.
    induction 1 as [x|s d lo cs x'' Hne Hi Hcs Hrest IH|s d lo l s' x'' Hl He Hrest IH]; intros HF HS HN.
    - split; [constructor | exact HN].
    - set (cs' := filter (fun c => negb (mem c d)) cs) in *.
      assert (St : xstep (mkx s d lo) (mkx (add_dirty s cs') d (lo || existsb (fun c => mem c d) cs)))
        by (apply xs_inval; assumption).
      assert (LF : lookups_first_step isidx iskey (mkx s d lo) (mkx (add_dirty s cs') d (lo || existsb (fun c => mem c d) cs))).
      { intros c Hc. cbn [xst] in Hc. rewrite newly_clean_superset in Hc; [destruct Hc|].
        intros y Hy. cbn [add_dirty dirty]. apply in_or_app. right. exact Hy. }
      destruct IH as [IH1 IH2]; cbn [xst].
      + intros c Hc. cbn [add_dirty dirty] in Hc. apply in_app_or in Hc. destruct Hc as [Hc|Hc]; [|apply HF; exact Hc].
        apply filter_In in Hc. destruct Hc as [Hc _]. apply (Hcs c Hc).
      + intros _ f Hf. cbn [add_dirty stack] in Hf. apply (HS Hi f Hf).
      + eapply no_loss_step; eassumption.
      + split; [econstructor; eassumption | exact IH2].
    - destruct (engine_strategy_lookups_first s l s' d lo HF HS Hl He) as [LF HS'].
      assert (St : step P s s') by (eapply exec_sound; exact He).
      destruct IH as [IH1 IH2]; cbn [xst].
      + eapply has_formulas_step; eassumption.
      + exact HS'.
      + eapply no_loss_step; [apply xs_step; exact St | exact LF | exact HN].
      + split; [econstructor; [apply xs_step; exact St | exact IH1] | exact IH2].
  Qed.
End X.

(* ---------------------------------------------------------------------------------------- *)
(* termination with invalidation: every cell is computed at most once per loop (a cell that was computed is
   never made dirty again), so even with arbitrary invalidations the loop ends.  [U] lists the formula cells. *)
Section XTermination.
  Variable P : prog.
  Variables isidx iskey : Z -> bool.
  Variable U : list cell.
  Hypothesis HU : forall c, P c <> None -> In c U.

  Definition xinv (x : xstate) : Prop :=
    forall c, In c (dirty (xst x)) -> In c U /\ mem c (xdone x) = false.

  Definition lex {A B} (ltA : A -> A -> Prop) (ltB : B -> B -> Prop) (p q : A * B) : Prop :=
    ltA (fst p) (fst q) \/ (fst p = fst q /\ ltB (snd p) (snd q)).

  Lemma lex_wf {A B} (ltA : A -> A -> Prop) (ltB : B -> B -> Prop) :
    well_founded ltA -> well_founded ltB -> well_founded (lex ltA ltB).
  Proof.
    intros WA WB [a b]. revert b. induction (WA a) as [a _ IHa]. intros b.
    induction (WB b) as [b _ IHb]. constructor. intros [a' b'] [H|[E H]]; cbn [fst snd] in *.
    - apply IHa. exact H.
    - subst a'. apply IHb. exact H.
  Qed.

  Definition not_done (x : xstate) : nat := length (filter (fun c => negb (mem c (xdone x))) U).
  Definition untouched (x : xstate) : nat :=
    length (filter (fun c => negb (mem c (xdone x)) && negb (mem c (dirty (xst x)))) U).
  Definition xmeasure (x : xstate) : nat * (nat * (nat * (nat * nat * nat))) :=
    (not_done x, (untouched x, ((if xlost x then 0 else 1)%nat, measure (xst x)))).
  Definition xlt := lex lt (lex lt (lex lt lt3)).

  Lemma xlt_wf : well_founded xlt.
  Proof. repeat apply lex_wf; try apply lt_wf. apply lt3_wf. Qed.

  Lemma filter_len_le (f g : cell -> bool) l :
    (forall x, g x = true -> f x = true) -> (length (filter g l) <= length (filter f l))%nat.
  Proof.
    intros H. induction l as [|a l IH]; cbn [filter length]; [lia|].
    destruct (g a) eqn:Eg; [rewrite (H a Eg); cbn [length]; lia | destruct (f a); cbn [length]; lia].
  Qed.

  Lemma filter_len_lt (f g : cell -> bool) l c :
    (forall x, g x = true -> f x = true) -> In c l -> f c = true -> g c = false ->
    (length (filter g l) < length (filter f l))%nat.
  Proof.
    intros H Hc Hf Hg. induction l as [|a l IH]; [destruct Hc|]. cbn [filter].
    pose proof (filter_len_le f g l H) as Hle.
    destruct Hc as [->|Hc].
    - rewrite Hf, Hg. cbn [length]. lia.
    - specialize (IH Hc). destruct (g a) eqn:Eg; [rewrite (H a Eg); cbn [length]; lia | destruct (f a); cbn [length]; lia].
  Qed.

  Lemma add_dirty_nil s : add_dirty s [] = s.
  Proof. destruct s. reflexivity. Qed.

  Lemma xinv_step x x' : xstep P isidx iskey x x' -> xinv x -> xinv x'.
  Proof.
    intros St Hx. destruct St as [s s' d l St|s d l cs Hne Hi Hcs]; intros c Hc; cbn [xst xdone] in *.
    - pose proof (step_dirty_subset _ _ _ c St Hc) as Hc0. destruct (Hx c Hc0) as [H1 H2]. split; [exact H1|].
      apply mem_false. intros Hin. apply in_app_or in Hin. destruct Hin as [Hin|Hin].
      + unfold newly_clean in Hin. apply filter_In in Hin. destruct Hin as [_ Hm]. apply mem_In in Hc.
        rewrite Hc in Hm. discriminate.
      + apply mem_false in H2. contradiction.
    - cbn [add_dirty dirty] in Hc. apply in_app_or in Hc. destruct Hc as [Hc|Hc]; [|apply Hx; exact Hc].
      apply filter_In in Hc. destruct Hc as [Hc Hm]. apply negb_true_iff in Hm.
      split; [apply HU; apply (Hcs c Hc) | exact Hm].
  Qed.

  Lemma xstep_measure x x' : xstep P isidx iskey x x' -> xinv x -> x' <> x -> xlt (xmeasure x') (xmeasure x).
  Proof.
    intros St Hx Hne. destruct St as [s s' d l St|s d l cs Hcsne Hi Hcs].
    - assert (Fin : forall c v, mem c (dirty s) = true ->
                xlt (xmeasure (mkx (finish s c v) (newly_clean s (finish s c v) ++ d) l)) (xmeasure (mkx s d l))).
      { intros c v Hc. left. unfold xmeasure, not_done. cbn [fst xdone].
        destruct (Hx c (proj1 (mem_In _ _) Hc)) as [HcU Hcd]. cbn [xdone] in Hcd.
        apply (filter_len_lt _ _ U c); [| exact HcU | rewrite Hcd; reflexivity |].
        - intros y Hy. apply negb_true_iff in Hy. apply negb_true_iff. apply mem_false. apply mem_false in Hy.
          intros Hin. apply Hy. apply in_or_app. right. exact Hin.
        - apply negb_false_iff. apply mem_In. apply in_or_app. left. unfold newly_clean. apply filter_In.
          split; [apply mem_In; exact Hc|]. cbn [finish dirty]. rewrite mem_remove_same. reflexivity. }
      assert (Same : forall s1, dirty s1 = dirty s -> lt3 (measure s1) (measure s) ->
                xlt (xmeasure (mkx s1 (newly_clean s s1 ++ d) l)) (xmeasure (mkx s d l))).
      { intros s1 Ed Hm. rewrite (newly_clean_same s s1 Ed). cbn [app].
        right. split; [reflexivity|]. right. split; [unfold xmeasure, untouched; cbn [fst snd xst xdone]; rewrite Ed; reflexivity|].
        right. split; [reflexivity | exact Hm]. }
      pose proof (step_measure P s s' St) as Hm.
      destruct St; try (apply Fin; assumption); apply Same; try reflexivity; exact Hm.
    - set (cs' := filter (fun c => negb (mem c d)) cs) in *.
      destruct cs' as [|c0 cs''] eqn:Ecs.
      + rewrite add_dirty_nil in *. destruct l.
        * exfalso. apply Hne. reflexivity.
        * destruct (existsb (fun c => mem c d) cs) eqn:Ee; [|exfalso; apply Hne; reflexivity].
          right. split; [reflexivity|]. right. split; [reflexivity|]. left. cbn. lia.
      + right. split; [reflexivity|]. left. unfold xmeasure, untouched. cbn [fst snd xst xdone].
        assert (Hc0 : In c0 cs') by (rewrite Ecs; left; reflexivity).
        unfold cs' in Hc0. apply filter_In in Hc0. destruct Hc0 as [Hc0 Hd0]. destruct (Hcs c0 Hc0) as [Hnd [_ Hp]].
        apply (filter_len_lt _ _ U c0); [| apply HU; exact Hp | rewrite Hd0, Hnd; reflexivity |].
        * intros y Hy. apply andb_true_iff in Hy. destruct Hy as [H1 H2]. rewrite H1. cbn [andb].
          apply negb_true_iff in H2. apply negb_true_iff. apply mem_false. apply mem_false in H2.
          intros Hin. apply H2. cbn [add_dirty dirty]. apply in_or_app. right. exact Hin.
        * apply andb_false_iff. right. apply negb_false_iff. apply mem_In. cbn [add_dirty dirty].
          apply in_or_app. left. left. reflexivity.
  Qed.

  Theorem xstep_wf : well_founded (fun x' x => xinv x /\ xstep P isidx iskey x x' /\ x' <> x).
  Proof.
    eapply wf_incl; [|apply (wf_inverse_image _ _ xlt xmeasure xlt_wf)].
    intros x' x [Hx [St Hne]]. apply xstep_measure; assumption.
  Qed.
End XTermination.

(* ---------------------------------------------------------------------------------------- *)
(* once no index cell is dirty no invalidation can happen any more: the rest of the loop is a run of the
   plain scheduler, to which the confluence theorems apply *)
Section Phase2.
  Variable P : prog.
  Variables isidx iskey : Z -> bool.

  Lemma xsteps_after_lookups x x' :
    xsteps P isidx iskey x x' -> idx_dirty isidx (xst x) = false ->
    steps P (xst x) (xst x') /\ idx_dirty isidx (xst x') = false /\ xlost x' = xlost x.
  Proof.
    induction 1 as [x|x1 x2 x3 St _ IH]; intros Hi; [split; [constructor | split; [exact Hi | reflexivity]]|].
    destruct St as [s s' d l St|s d l cs Hne Hi' Hcs]; cbn [xst xlost] in *.
    - assert (Hi2 : idx_dirty isidx s' = false).
      { destruct (idx_dirty isidx s') eqn:E; [|reflexivity].
        rewrite (idx_dirty_step P isidx s s' St E) in Hi. discriminate. }
      destruct (IH Hi2) as [H1 [H2 H3]]. split; [econstructor; eassumption | split; assumption].
    - congruence.
  Qed.

  Theorem result_after_lookups v0 x fin :
    (forall c t, P c = Some t -> tame P v0 t) ->
    idx_dirty isidx (xst x) = false -> Inv P v0 (xst x) ->
    xsteps P isidx iskey x fin -> final (xst fin) ->
    forall c, consistent P v0 c (val (xst fin) c).
  Proof.
    intros Ht Hi HI Hx [Hd _] c. destruct (xsteps_after_lookups x fin Hx Hi) as [Hs _].
    destruct (Inv_steps P v0 Ht _ _ Hs HI) as [I1 _]. apply I1. rewrite Hd. reflexivity.
  Qed.
End Phase2.

(* ---------------------------------------------------------------------------------------- *)
(* What the rule buys, on a concrete document (replayed on the real engine by harness/props/c06.py):
     Z = len(T.lookupRecords(D=$D))    B = $Z + $E      rows 1, 2;  D = [1, 2], E = [0, 0]
   bundle [UpdateRecord 2 {D: 1}, UpdateRecord 1 {E: 9}].  At the start of the update loop the index cell of row 2,
   Z[2], B[1], B[2] are dirty; Z[1] (which looked up the key 1 that row 2 now also has) is still clean.
   Lookups LAST: B[1] is computed from the stale Z[1]; when the index cell is recomputed it invalidates Z[1] and
   B[1], but B[1] was already computed: the invalidation is lost, B[1] stays 10.  Lookups FIRST: 11, the
   from-scratch value. *)
Definition lk_cols : list (Z * expr) := [(4, ECol 1); (10, ECount 4 (ECol 1)); (11, EAdd (ECol 10) (ECol 2))].
Definition lk_rows : list Z := [1; 2].
Definition lk_prog : prog := prog_of lk_cols lk_rows.
Definition lk_vals : list (cell * value) :=
  [((1,1),VInt 1); ((1,2),VInt 1); ((2,1),VInt 9); ((2,2),VInt 0); ((4,1),VInt 1); ((4,2),VInt 2);
   ((10,1),VInt 1); ((10,2),VInt 1); ((11,1),VInt 1); ((11,2),VInt 1)].
Definition lk_start : xstate := mkx (init_state (val_of lk_vals) [(4,2); (10,2); (11,1); (11,2)]) [] false.
Definition lk_isidx (n : Z) : bool := n =? 4.
Definition lk_iskey (n : Z) : bool := false.
Definition lk_last : list xlabel :=
  [XL (LPick (11,1)); XL (LDone (11,1)); XL LPop; XL (LPick (11,2)); XL (LNeed (11,2) (10,2));
   XL (LNeed (10,2) (4,2)); XI [(10,1); (11,1)]; XL (LDone (4,2)); XL LPop; XL (LDone (10,2));
   XL (LOpp (10,1)); XL LPop; XL (LDone (11,2)); XL LPop].
Definition lk_first : list xlabel :=
  [XL (LPick (4,2)); XI [(10,1)]; XL (LDone (4,2)); XL LPop; XL (LPick (10,1)); XL (LDone (10,1)); XL LPop;
   XL (LPick (10,2)); XL (LDone (10,2)); XL LPop; XL (LPick (11,1)); XL (LDone (11,1)); XL LPop;
   XL (LPick (11,2)); XL (LDone (11,2)); XL LPop].

Theorem lookups_last_loses_an_invalidation :
  exists x1 x2,
    xsteps lk_prog lk_isidx lk_iskey lk_start x1 /\ final (xst x1) /\ xlost x1 = true /\
    val (xst x1) (11,1) = VInt 10 /\
    xsteps lk_prog lk_isidx lk_iskey lk_start x2 /\ final (xst x2) /\ xlost x2 = false /\
    val (xst x2) (11,1) = VInt 11 /\
    scr lk_prog (val_of lk_vals) 5 (11,1) = Some (VInt 11).
Proof.
  destruct (xreplay lk_prog lk_isidx lk_iskey lk_last lk_start) as [x1|] eqn:E1; [|vm_compute in E1; discriminate].
  destruct (xreplay lk_prog lk_isidx lk_iskey lk_first lk_start) as [x2|] eqn:E2; [|vm_compute in E2; discriminate].
  exists x1, x2.
  pose proof (xreplay_sound _ _ _ _ _ _ E1) as S1. pose proof (xreplay_sound _ _ _ _ _ _ E2) as S2.
  split; [exact S1|]. clear S1. split; [|split; [|split; [|split; [exact S2|clear S2]]]].
  - vm_compute in E1. injection E1 as <-. split; reflexivity.
  - vm_compute in E1. injection E1 as <-. reflexivity.
  - vm_compute in E1. injection E1 as <-. vm_compute. reflexivity.
  - vm_compute in E2. injection E2 as <-.
    split; [split; reflexivity|]. split; [reflexivity|]. split; vm_compute; reflexivity.
Qed.
