(* K6 proofs, part 2: the invariant as propositions (with a set X of tables exempt from the raw/record-card
   requirement, used in the middle of a table removal) and its equivalence with the boolean refs_core. *)
From Coq Require Import ZArith List Bool Lia.
Import ListNotations.
Require Import Grist.Model.MetaCascade Grist.Proofs.MetaCascade_base.
Open Scope Z_scope.

Definition ColOk (m : meta) (c : crec) : Prop :=
  In (c_parent c) (tids m) /\ Optref (cids m) (c_display c) /\ Optref (cids m) (c_visible c) /\
  Optref (cids m) (c_src c) /\ incl (c_rules c) (cids m).

Definition ColOfSection (m : meta) (s c : Z) : Prop :=
  exists sr cr, In sr (m_sections m) /\ s_id sr = s /\ In cr (m_columns m) /\ c_id cr = c /\
                c_parent cr = s_table sr.

Definition FieldOk (m : meta) (f : frec) : Prop :=
  ColOfSection m (f_section f) (f_col f) /\ Optref (cids m) (f_display f) /\ Optref (cids m) (f_visible f) /\
  incl (f_rules f) (cids m).

Definition SecOk (m : meta) (s : srec) : Prop :=
  In (s_table s) (tids m) /\ Optref (m_views m) (s_view s) /\ incl (s_rules s) (cids m).

Definition SecOfTable (m : meta) (sid t : Z) : Prop :=
  exists s, In s (m_sections m) /\ s_id s = sid /\ s_table s = t.

Definition TableOk (m : meta) (t : trec) : Prop :=
  SecOfTable m (t_raw t) (t_id t) /\ (t_card t = 0 \/ SecOfTable m (t_card t) (t_id t)) /\
  Optref (m_views m) (t_pview t) /\ Optref (tids m) (t_src t).

Definition IdList (l : list Z) : Prop := NoDup l /\ Forall (fun x => 0 < x) l.

Definition IdsOk (m : meta) : Prop :=
  IdList (tids m) /\ IdList (cids m) /\ IdList (m_views m) /\ IdList (sids m) /\ IdList (fids m) /\
  IdList (map fst (m_tabbar m)) /\ IdList (map fst (m_pages m)).

Definition NamesOk (m : meta) : Prop :=
  NoDup (map t_name (m_tables m)) /\ NoDup (m_schema m) /\
  incl (map t_name (m_tables m)) (m_schema m) /\ incl (m_schema m) (map t_name (m_tables m)).

Record InvX (X : list Z) (m : meta) : Prop := mkInv {
  inv_ids : IdsOk m;
  inv_col : forall c, In c (m_columns m) -> ColOk m c;
  inv_fld : forall f, In f (m_fields m) -> FieldOk m f;
  inv_sec : forall s, In s (m_sections m) -> SecOk m s;
  inv_tab : forall t, In t (m_tables m) -> ~ In (t_id t) X -> TableOk m t;
  inv_bar : forall b, In b (m_tabbar m) -> In (snd b) (m_views m);
  inv_pag : forall b, In b (m_pages m) -> In (snd b) (m_views m);
  inv_names : NamesOk m }.

Definition Inv (m : meta) : Prop := InvX [] m.

(* every display / rule helper column has a user *)
Definition Used (m : meta) : Prop := forall c, In c (m_columns m) -> col_unused m c = false.

(* ---------------------------------------------------------------------------------------------- *)
(* boolean <-> Prop *)

Lemma idlist_iff : forall l, nodupb l && posb l = true <-> IdList l.
Proof. intros. unfold IdList. rewrite andb_true_iff, nodupb_NoDup, posb_Forall. tauto. Qed.

Lemma ids_ok_iff : forall m, ids_ok m = true <-> IdsOk m.
Proof.
  intros m. unfold ids_ok, IdsOk.
  repeat rewrite andb_true_iff. repeat rewrite nodupb_NoDup. repeat rewrite posb_Forall.
  unfold IdList. tauto.
Qed.

Lemma col_ok_iff : forall m c, col_ok m c = true <-> ColOk m c.
Proof.
  intros. unfold col_ok, ColOk. repeat rewrite andb_true_iff.
  rewrite mem_In, !optref_iff, all_in_incl. tauto.
Qed.

Lemma col_of_section_iff : forall m s c, col_of_section m s c = true <-> ColOfSection m s c.
Proof.
  intros. unfold col_of_section, ColOfSection. rewrite existsb_exists. split.
  - intros [sr [Hs H]]. apply andb_true_iff in H. destruct H as [H1 H2].
    apply existsb_exists in H2. destruct H2 as [cr [Hc H2]]. apply andb_true_iff in H2. destruct H2 as [H2 H3].
    exists sr, cr. rewrite Z.eqb_eq in *. tauto.
  - intros [sr [cr [Hs [H1 [Hc [H2 H3]]]]]]. exists sr. split; [exact Hs|].
    apply andb_true_iff. split; [apply Z.eqb_eq; exact H1|].
    apply existsb_exists. exists cr. split; [exact Hc|].
    apply andb_true_iff. split; apply Z.eqb_eq; assumption.
Qed.

Lemma field_ok_iff : forall m f, field_ok m f = true <-> FieldOk m f.
Proof.
  intros. unfold field_ok, FieldOk. repeat rewrite andb_true_iff.
  rewrite col_of_section_iff, !optref_iff, all_in_incl. tauto.
Qed.

Lemma sec_ok_iff : forall m s, sec_ok m s = true <-> SecOk m s.
Proof.
  intros. unfold sec_ok, SecOk. repeat rewrite andb_true_iff.
  rewrite mem_In, optref_iff, all_in_incl. tauto.
Qed.

Lemma sec_of_table_iff : forall m sid t, sec_of_table m sid t = true <-> SecOfTable m sid t.
Proof.
  intros. unfold sec_of_table, SecOfTable. rewrite existsb_exists. split.
  - intros [s [Hs H]]. apply andb_true_iff in H. rewrite !Z.eqb_eq in H. exists s. tauto.
  - intros [s [Hs [H1 H2]]]. exists s. split; [exact Hs|]. apply andb_true_iff. rewrite !Z.eqb_eq. tauto.
Qed.

Lemma table_ok_iff : forall m t, table_ok m t = true <-> TableOk m t.
Proof.
  intros. unfold table_ok, TableOk. repeat rewrite andb_true_iff.
  rewrite orb_true_iff, Z.eqb_eq, !sec_of_table_iff, !optref_iff. tauto.
Qed.

Lemma names_ok_iff : forall m, names_ok m = true <-> NamesOk m.
Proof.
  intros. unfold names_ok, NamesOk. repeat rewrite andb_true_iff.
  rewrite !nodupb_NoDup, !all_in_incl. tauto.
Qed.

Lemma refs_core_iff : forall m, refs_core m = true <-> Inv m.
Proof.
  intros m. unfold refs_core. repeat rewrite andb_true_iff. repeat rewrite forallb_forall.
  rewrite ids_ok_iff, names_ok_iff. split.
  - intros [[[[[[[H1 H2] H3] H4] H5] H6] H7] H8]. constructor; try assumption.
    + intros c Hc. apply col_ok_iff. apply H2. exact Hc.
    + intros f Hf. apply field_ok_iff. apply H3. exact Hf.
    + intros s Hs. apply sec_ok_iff. apply H4. exact Hs.
    + intros t Ht _. apply table_ok_iff. apply H5. exact Ht.
    + intros b Hb. apply mem_In. apply H6. exact Hb.
    + intros b Hb. apply mem_In. apply H7. exact Hb.
  - intros [I1 I2 I3 I4 I5 I6 I7 I8].
    refine (conj (conj (conj (conj (conj (conj (conj I1 _) _) _) _) _) _) I8).
    + intros c Hc. apply col_ok_iff. apply I2. exact Hc.
    + intros f Hf. apply field_ok_iff. apply I3. exact Hf.
    + intros s Hs. apply sec_ok_iff. apply I4. exact Hs.
    + intros t Ht. apply table_ok_iff. apply I5; [exact Ht | simpl; tauto].
    + intros b Hb. apply mem_In. apply I6. exact Hb.
    + intros b Hb. apply mem_In. apply I7. exact Hb.
Qed.

Lemma helpers_used_iff : forall m, helpers_used m = true <-> Used m.
Proof.
  intros m. unfold helpers_used, Used. rewrite forallb_forall. split; intros H c Hc.
  - apply negb_true_iff. apply H. exact Hc.
  - apply negb_true_iff. apply H. exact Hc.
Qed.

Lemma RefsResolve_iff : forall m, RefsResolve m = true <-> Inv m /\ Used m.
Proof. intros. unfold RefsResolve. rewrite andb_true_iff, refs_core_iff, helpers_used_iff. tauto. Qed.

Lemma InvX_weaken : forall X Y m, incl X Y -> InvX X m -> InvX Y m.
Proof.
  intros X Y m Hi [I1 I2 I3 I4 I5 I6 I7 I8]. constructor; try assumption.
  intros t Ht Hn. apply I5; [exact Ht|]. intro H. apply Hn. apply Hi. exact H.
Qed.
