(* C16: evaluation is equivariant under injective renamings of table and column names (tree level). *)
From Coq Require Import ZArith List Bool Lia.
Import ListNotations.
Require Import Grist.Model.Renames.
Open Scope Z_scope.

(* ---- names -------------------------------------------------------------------------------------- *)
Lemma name_eqb_eq : forall a b, name_eqb a b = true <-> a = b.
Proof.
  induction a as [|x a IH]; destruct b as [|y b]; cbn; split; intro H; try reflexivity; try discriminate.
  - apply andb_true_iff in H. destruct H as [H1 H2]. apply Z.eqb_eq in H1. apply IH in H2. congruence.
  - inversion H; subst. rewrite Z.eqb_refl. cbn. apply IH. reflexivity.
Qed.

Lemma name_eqb_refl : forall a, name_eqb a a = true.
Proof. intro a. apply name_eqb_eq. reflexivity. Qed.

Lemma name_eqb_neq : forall a b, name_eqb a b = false <-> a <> b.
Proof.
  intros a b. split; intro H.
  - intro E. apply name_eqb_eq in E. congruence.
  - destruct (name_eqb a b) eqn:E; [apply name_eqb_eq in E; contradiction | reflexivity].
Qed.

Lemma name_eqb_sym : forall a b, name_eqb a b = name_eqb b a.
Proof.
  intros a b. destruct (name_eqb a b) eqn:E.
  - apply name_eqb_eq in E. subst. symmetry. apply name_eqb_refl.
  - symmetry. apply name_eqb_neq. apply name_eqb_neq in E. congruence.
Qed.

(* ---- results ------------------------------------------------------------------------------------ *)
Definition rfmap {A B} (g : A -> B) (r : R A) : R B :=
  match r with ROk a => ROk (g a) | RErr k => RErr k end.

Lemma rbind_ok : forall {A B} (r : R A) (k : A -> R B) b,
  rbind r k = ROk b -> exists a, r = ROk a /\ k a = ROk b.
Proof. intros A B r k b H. destruct r as [a|e]; cbn in H; [eauto | discriminate]. Qed.

Lemma rbind_fmap : forall {A B C} (g : A -> B) (r : R A) (k : B -> R C),
  rbind (rfmap g r) k = rbind r (fun a => k (g a)).
Proof. intros. destruct r; reflexivity. Qed.

Lemma rfmap_bind : forall {A B C} (g : B -> C) (r : R A) (k : A -> R B),
  rfmap g (rbind r k) = rbind r (fun a => rfmap g (k a)).
Proof. intros. destruct r; reflexivity. Qed.

Lemma rbind_ext : forall {A B} (r : R A) (k k' : A -> R B),
  (forall a, r = ROk a -> k a = k' a) -> rbind r k = rbind r k'.
Proof. intros A B r k k' H. destruct r; cbn; [apply H; reflexivity | reflexivity]. Qed.

Lemma rmap_ext : forall {A B} (f g : A -> R B) l, (forall x, In x l -> f x = g x) -> rmap f l = rmap g l.
Proof.
  intros A B f g l. induction l as [|x t IH]; intro H; cbn; [reflexivity|].
  rewrite (H x (or_introl eq_refl)). rewrite IH; [reflexivity|]. intros y Hy. apply H. right. exact Hy.
Qed.

Lemma rmap_map : forall {A B C} (g : A -> B) (f : B -> R C) l, rmap f (map g l) = rmap (fun x => f (g x)) l.
Proof. intros. induction l as [|x t IH]; cbn; [reflexivity|]. rewrite IH. reflexivity. Qed.

Lemma rmap_fmap : forall {A B C} (g : B -> C) (f : A -> R B) (f' : A -> R C) l,
  (forall x, In x l -> f' x = rfmap g (f x)) -> rmap f' l = rfmap (map g) (rmap f l).
Proof.
  intros A B C g f f' l. induction l as [|x t IH]; intro H; cbn; [reflexivity|].
  rewrite (H x (or_introl eq_refl)). rewrite IH by (intros y Hy; apply H; right; exact Hy).
  destruct (f x); cbn; [|reflexivity]. destruct (rmap f t); reflexivity.
Qed.

Lemma rfilter_ext : forall {A} (f g : A -> R bool) l, (forall x, In x l -> f x = g x) -> rfilter f l = rfilter g l.
Proof.
  intros A f g l. induction l as [|x t IH]; intro H; cbn; [reflexivity|].
  rewrite (H x (or_introl eq_refl)). rewrite IH; [reflexivity|]. intros y Hy. apply H. right. exact Hy.
Qed.

Lemma rfilter_in : forall {A} (f : A -> R bool) l m x, rfilter f l = ROk m -> In x m -> In x l.
Proof.
  intros A f l. induction l as [|y t IH]; intros m x H Hin; cbn in H.
  - inversion H; subst. exact Hin.
  - apply rbind_ok in H. destruct H as [b [_ H]]. apply rbind_ok in H. destruct H as [ys [Hys H]].
    inversion H; subst. destruct b.
    + destruct Hin as [E|Hin]; [left; exact E | right; eapply IH; eauto].
    + right. eapply IH; eauto.
Qed.

Lemma find_map : forall {A} (p p' : A -> bool) (g : A -> A) l,
  (forall x, p' (g x) = p x) -> find p' (map g l) = option_map g (find p l).
Proof.
  intros A p p' g l H. induction l as [|x t IH]; cbn; [reflexivity|].
  rewrite H. destruct (p x); [reflexivity | exact IH].
Qed.

(* ---- sorting ------------------------------------------------------------------------------------ *)
Lemma insert_by_map : forall {A B} (g : A -> B) (lt : A -> A -> bool) (lt' : B -> B -> bool) x l,
  (forall a b, lt' (g a) (g b) = lt a b) -> insert_by lt' (g x) (map g l) = map g (insert_by lt x l).
Proof.
  intros A B g lt lt' x l H. induction l as [|y t IH]; cbn; [reflexivity|].
  rewrite H. destruct (lt y x); cbn; [rewrite IH|]; reflexivity.
Qed.

Lemma sort_by_map : forall {A B} (g : A -> B) (lt : A -> A -> bool) (lt' : B -> B -> bool) l,
  (forall a b, lt' (g a) (g b) = lt a b) -> sort_by lt' (map g l) = map g (sort_by lt l).
Proof.
  intros A B g lt lt' l H. unfold sort_by. induction l as [|x t IH]; cbn; [reflexivity|].
  rewrite IH. apply insert_by_map. exact H.
Qed.

(* ---- an induction principle for values (lists of values inside) -------------------------------- *)
Section ValInd.
  Variable P : val -> Prop.
  Hypothesis HNone : P VNone.
  Hypothesis HInt : forall n, P (VInt n).
  Hypothesis HStr : forall s, P (VStr s).
  Hypothesis HRec : forall t r, P (VRec t r).
  Hypothesis HRecs : forall t rs, P (VRecs t rs).
  Hypothesis HList : forall vs, Forall P vs -> P (VList vs).

  Fixpoint val_ind' (v : val) : P v :=
    match v with
    | VNone => HNone
    | VInt n => HInt n
    | VStr s => HStr s
    | VRec t r => HRec t r
    | VRecs t rs => HRecs t rs
    | VList vs => HList vs ((fix go (l : list val) : Forall P l :=
                              match l with [] => Forall_nil P | x :: t => Forall_cons x (val_ind' x) (go t) end) vs)
    end.
End ValInd.

(* has_tab v T: if v is a record (set) at all, it is one of table T *)
Definition has_tab (v : val) (T : name) : Prop :=
  match v with VRec t _ => t = T | VRecs t _ => t = T | _ => True end.

Definition env_ok (G : tenv) (env : list (name * val)) : Prop :=
  forall x T v, lookup_env x G = Some (Some T) -> lookup_env x env = Some v -> has_tab v T.

Lemma find_table_name : forall d t tb, find_table d t = Some tb -> tname tb = t.
Proof. intros d t tb H. apply find_some in H. destruct H as [_ H]. apply name_eqb_eq. exact H. Qed.

Lemma find_table_in : forall d t tb, find_table d t = Some tb -> In tb d.
Proof. intros d t tb H. apply find_some in H. tauto. Qed.

Lemma find_col_in : forall tb c co, find_col tb c = Some co -> In co (tcols tb).
Proof. intros tb c co H. apply find_some in H. tauto. Qed.

(* ================================================================================================= *)
Section Equiv.
  Variable rn_tab : name -> name.
  Variable rn_col : name -> name -> name.
  Variable prim1 : Z -> val -> R val.
  Variable prim2 : Z -> val -> val -> R val.

  (* the renaming is injective on table names and, per table, on column names *)
  Hypothesis tab_inj : forall a b, name_eqb (rn_tab a) (rn_tab b) = name_eqb a b.
  Hypothesis col_inj : forall t a b, name_eqb (rn_col t a) (rn_col t b) = name_eqb a b.
  (* no column is renamed from or to the special name `group` *)
  Hypothesis group_stable : forall t c, name_eqb (rn_col t c) GROUP = name_eqb c GROUP.
  (* builtins do not look at table names *)
  Hypothesis prim1_nat : forall f v, prim1 f (rn_val rn_tab v) = rn_res rn_tab (prim1 f v).
  Hypothesis prim2_nat : forall f a b, prim2 f (rn_val rn_tab a) (rn_val rn_tab b) = rn_res rn_tab (prim2 f a b).

  Notation rv := (rn_val rn_tab).
  Notation rr := (rn_res rn_tab).
  Notation rtab := (rn_table rn_tab rn_col).
  Notation rcolumn := (rn_column rn_tab rn_col).
  Notation rdoc := (rename_doc rn_tab rn_col).

  Lemma rr_fmap : forall r, rr r = rfmap rv r.
  Proof. intros [v|k]; reflexivity. Qed.

  (* ---- values ---- *)
  Lemma truthy_rv : forall v, truthy (rv v) = truthy v.
  Proof. destruct v as [| | | | |vs]; try reflexivity. destruct vs; reflexivity. Qed.

  Lemma key_eqb_rv : forall a b, key_eqb (rv a) (rv b) = key_eqb a b.
  Proof. destruct a, b; reflexivity. Qed.

  Lemma keys_eqb_rv : forall a b, keys_eqb (map rv a) (map rv b) = keys_eqb a b.
  Proof.
    induction a as [|x a IH]; destruct b as [|y b]; cbn; try reflexivity.
    rewrite key_eqb_rv, IH. reflexivity.
  Qed.

  Lemma val_lt_rv : forall a b, val_lt (rv a) (rv b) = val_lt a b.
  Proof. destruct a, b; reflexivity. Qed.

  Lemma key_lt_rv : forall ds a b, key_lt ds (map rv a) (map rv b) = key_lt ds a b.
  Proof.
    induction ds as [|dsc ds IH]; intros a b; [destruct a, b; reflexivity|].
    destruct a as [|x a], b as [|y b]; try reflexivity. cbn [map key_lt].
    rewrite !val_lt_rv, IH. reflexivity.
  Qed.

  Lemma ids_of_rv : forall vs, ids_of (map rv vs) = ids_of vs.
  Proof.
    induction vs as [|v vs IH]; [reflexivity|]. destruct v; cbn; try reflexivity; rewrite IH; reflexivity.
  Qed.

  Lemma flat_ids_rv : forall vs, flat_ids (map rv vs) = flat_ids vs.
  Proof.
    unfold flat_ids. induction vs as [|v vs IH]; [reflexivity|]. cbn [map flat_map]. rewrite IH.
    destruct v; reflexivity.
  Qed.

  Lemma wrap_rv : forall ty v, wrap (rn_ctyp rn_tab ty) (rv v) = rr (wrap ty v).
  Proof.
    intros ty v. destruct ty as [|u|u]; cbn; [reflexivity | destruct v; reflexivity |].
    destruct v as [| | | | |vs]; try reflexivity. cbn. rewrite ids_of_rv. destruct (ids_of vs); reflexivity.
  Qed.

  Lemma elems_rv : forall v, elems (rv v) = rfmap (map rv) (elems v).
  Proof.
    destruct v as [| | | |t rs|vs]; try reflexivity. cbn. f_equal. rewrite !map_map. reflexivity.
  Qed.

  Lemma prevnext_rv : forall w t r s, prevnext w (rn_tab t) r s = rv (prevnext w t r s).
  Proof.
    intros w t r s. unfold prevnext. destruct (index_of r s 0) as [i|]; [|reflexivity].
    destruct (w =? 0); [destruct i; reflexivity|]. destruct (w =? 1); reflexivity.
  Qed.

  Lemma lookup_env_rv : forall x (env : list (name * val)),
    lookup_env x (map (fun p => (fst p, rv (snd p))) env) = option_map rv (lookup_env x env).
  Proof.
    intros x env. induction env as [|[y v] env IH]; [reflexivity|]. cbn. destruct (name_eqb y x); [reflexivity | exact IH].
  Qed.

  (* ---- schema ---- *)
  Variable d : doc.

  Lemma find_table_rn : forall l t,
    find_table (map (rtab d) l) (rn_tab t) = option_map (rtab d) (find_table l t).
  Proof. intros l t. unfold find_table. apply find_map. intro tb. cbn. apply tab_inj. Qed.

  Lemma find_col_rn : forall tb c,
    find_col (rtab d tb) (rn_col (tname tb) c) = option_map (rcolumn d (tname tb)) (find_col tb c).
  Proof. intros tb c. unfold find_col. cbn. apply find_map. intro co. cbn. apply col_inj. Qed.

  Lemma col_target_rn : forall t c,
    col_target (rdoc d) (rn_tab t) (rn_col t c) = option_map rn_tab (col_target d t c).
  Proof.
    intros t c. unfold col_target, rename_doc. rewrite find_table_rn.
    destruct (find_table d t) as [tb|] eqn:Ht; [|reflexivity]. cbn [option_map].
    rewrite <- (find_table_name _ _ _ Ht). rewrite find_col_rn.
    destruct (find_col tb c) as [co|]; [|reflexivity]. cbn. destruct (ctype co); reflexivity.
  Qed.

  Lemma ren_group : forall dd self G f, ren rn_tab rn_col dd self G f = EGroup <-> f = EGroup.
  Proof. intros dd self G f. destruct f; cbn; split; intro H; try discriminate; reflexivity. Qed.

  Lemma summary_source_rn : forall t,
    summary_source (rdoc d) (rn_tab t) = option_map rn_tab (summary_source d t).
  Proof.
    intro t. unfold summary_source, rename_doc. rewrite find_table_rn.
    destruct (find_table d t) as [tb|] eqn:Ht; [|reflexivity]. cbn [option_map].
    assert (Hg : find_col (rtab d tb) GROUP = option_map (rcolumn d (tname tb)) (find_col tb GROUP)).
    { unfold find_col. cbn. apply find_map. intro co. cbn. apply group_stable. }
    rewrite Hg. destruct (find_col tb GROUP) as [co|]; [|reflexivity]. cbn.
    destruct (ctype co) as [|u|u]; cbn; try reflexivity.
    - destruct (cformula co) as [f|]; cbn; [|reflexivity]. destruct (ren rn_tab rn_col d (tname tb) [] f); reflexivity.
    - destruct (cformula co) as [f|]; cbn; [|reflexivity].
      destruct f; cbn; reflexivity.
  Qed.

  Lemma rows_of_rn : forall t, rows_of (rdoc d) (rn_tab t) = rows_of d t.
  Proof.
    intro t. unfold rows_of, rename_doc. rewrite find_table_rn. destruct (find_table d t); reflexivity.
  Qed.
End Equiv.
