(* C16: evaluation is equivariant under injective renamings of table and column names (tree level). *)
From Coq Require Import ZArith List Bool Lia.
Import ListNotations.
Require Import Grist.Model.Renames.
Open Scope Z_scope.

(* ---- names -------------------------------------------------------------------------------------- *)
Lemma name_eqb_eq : forall a b, name_eqb a b = true <-> a = b.
Proof.
  induction a as [|x a IH]; destruct b as [|y b]; cbn; split; intro H; try reflexivity; try discriminate.
  - apply andb_true_iff in H. destruct H as [H1 H2]. apply Z.eqb_eq in H1. apply IH in H2. congruence.
  - inversion H; subst. rewrite Z.eqb_refl. cbn. apply IH. reflexivity.
Qed.

Lemma name_eqb_refl : forall a, name_eqb a a = true.
Proof. intro a. apply name_eqb_eq. reflexivity. Qed.

Lemma name_eqb_neq : forall a b, name_eqb a b = false <-> a <> b.
Proof.
  intros a b. split; intro H.
  - intro E. apply name_eqb_eq in E. congruence.
  - destruct (name_eqb a b) eqn:E; [apply name_eqb_eq in E; contradiction | reflexivity].
Qed.

Lemma name_eqb_sym : forall a b, name_eqb a b = name_eqb b a.
Proof.
  intros a b. destruct (name_eqb a b) eqn:E.
  - apply name_eqb_eq in E. subst. symmetry. apply name_eqb_refl.
  - symmetry. apply name_eqb_neq. apply name_eqb_neq in E. congruence.
Qed.

(* ---- results ------------------------------------------------------------------------------------ *)
Definition rfmap {A B} (g : A -> B) (r : R A) : R B :=
  match r with ROk a => ROk (g a) | RErr k => RErr k end.

Lemma rbind_ok : forall {A B} (r : R A) (k : A -> R B) b,
  rbind r k = ROk b -> exists a, r = ROk a /\ k a = ROk b.
Proof. intros A B r k b H. destruct r as [a|e]; cbn in H; [eauto | discriminate]. Qed.

Lemma rbind_fmap : forall {A B C} (g : A -> B) (r : R A) (k : B -> R C),
  rbind (rfmap g r) k = rbind r (fun a => k (g a)).
Proof. intros. destruct r; reflexivity. Qed.

Lemma rfmap_bind : forall {A B C} (g : B -> C) (r : R A) (k : A -> R B),
  rfmap g (rbind r k) = rbind r (fun a => rfmap g (k a)).
Proof. intros. destruct r; reflexivity. Qed.

Lemma rbind_ext : forall {A B} (r : R A) (k k' : A -> R B),
  (forall a, r = ROk a -> k a = k' a) -> rbind r k = rbind r k'.
Proof. intros A B r k k' H. destruct r; cbn; [apply H; reflexivity | reflexivity]. Qed.

Lemma rmap_ext : forall {A B} (f g : A -> R B) l, (forall x, In x l -> f x = g x) -> rmap f l = rmap g l.
Proof.
  intros A B f g l. induction l as [|x t IH]; intro H; cbn; [reflexivity|].
  rewrite (H x (or_introl eq_refl)). rewrite IH; [reflexivity|]. intros y Hy. apply H. right. exact Hy.
Qed.

Lemma rmap_map : forall {A B C} (g : A -> B) (f : B -> R C) l, rmap f (map g l) = rmap (fun x => f (g x)) l.
Proof. intros. induction l as [|x t IH]; cbn; [reflexivity|]. rewrite IH. reflexivity. Qed.

Lemma rmap_fmap : forall {A B C} (g : B -> C) (f : A -> R B) (f' : A -> R C) l,
  (forall x, In x l -> f' x = rfmap g (f x)) -> rmap f' l = rfmap (map g) (rmap f l).
Proof.
  intros A B C g f f' l. induction l as [|x t IH]; intro H; cbn; [reflexivity|].
  rewrite (H x (or_introl eq_refl)). rewrite IH by (intros y Hy; apply H; right; exact Hy).
  destruct (f x); cbn; [|reflexivity]. destruct (rmap f t); reflexivity.
Qed.

Lemma rfilter_ext : forall {A} (f g : A -> R bool) l, (forall x, In x l -> f x = g x) -> rfilter f l = rfilter g l.
Proof.
  intros A f g l. induction l as [|x t IH]; intro H; cbn; [reflexivity|].
  rewrite (H x (or_introl eq_refl)). rewrite IH; [reflexivity|]. intros y Hy. apply H. right. exact Hy.
Qed.

Lemma rfilter_in : forall {A} (f : A -> R bool) l m x, rfilter f l = ROk m -> In x m -> In x l.
Proof.
  intros A f l. induction l as [|y t IH]; intros m x H Hin; cbn in H.
  - inversion H; subst. exact Hin.
  - apply rbind_ok in H. destruct H as [b [_ H]]. apply rbind_ok in H. destruct H as [ys [Hys H]].
    inversion H; subst. destruct b.
    + destruct Hin as [E|Hin]; [left; exact E | right; eapply IH; eauto].
    + right. eapply IH; eauto.
Qed.

Lemma find_map : forall {A} (p p' : A -> bool) (g : A -> A) l,
  (forall x, p' (g x) = p x) -> find p' (map g l) = option_map g (find p l).
Proof.
  intros A p p' g l H. induction l as [|x t IH]; cbn; [reflexivity|].
  rewrite H. destruct (p x); [reflexivity | exact IH].
Qed.

(* ---- sorting ------------------------------------------------------------------------------------ *)
Lemma insert_by_map : forall {A B} (g : A -> B) (lt : A -> A -> bool) (lt' : B -> B -> bool) x l,
  (forall a b, lt' (g a) (g b) = lt a b) -> insert_by lt' (g x) (map g l) = map g (insert_by lt x l).
Proof.
  intros A B g lt lt' x l H. induction l as [|y t IH]; cbn; [reflexivity|].
  rewrite H. destruct (lt y x); cbn; [rewrite IH|]; reflexivity.
Qed.

Lemma sort_by_map : forall {A B} (g : A -> B) (lt : A -> A -> bool) (lt' : B -> B -> bool) l,
  (forall a b, lt' (g a) (g b) = lt a b) -> sort_by lt' (map g l) = map g (sort_by lt l).
Proof.
  intros A B g lt lt' l H. unfold sort_by. induction l as [|x t IH]; cbn; [reflexivity|].
  rewrite IH. apply insert_by_map. exact H.
Qed.

Lemma filter_map_comm : forall {A B} (g : A -> B) (f : A -> bool) (f' : B -> bool) l,
  (forall x, f' (g x) = f x) -> filter f' (map g l) = map g (filter f l).
Proof.
  intros A B g f f' l H. induction l as [|x t IH]; [reflexivity|]. cbn. rewrite H. destruct (f x); cbn; rewrite IH; reflexivity.
Qed.

Lemma last_map_comm : forall {A B} (g : A -> B) l d, last (map g l) (g d) = g (last l d).
Proof.
  intros A B g l d. induction l as [|x t IH]; [reflexivity|]. destruct t as [|y t]; [reflexivity|].
  exact IH.
Qed.

Lemma hd_map_comm : forall {A B} (g : A -> B) l d, hd (g d) (map g l) = g (hd d l).
Proof. intros A B g l d. destruct l; reflexivity. Qed.

(* ---- an induction principle for values (lists of values inside) -------------------------------- *)
Section ValInd.
  Variable P : val -> Prop.
  Hypothesis HNone : P VNone.
  Hypothesis HInt : forall n, P (VInt n).
  Hypothesis HStr : forall s, P (VStr s).
  Hypothesis HRec : forall t r, P (VRec t r).
  Hypothesis HRecs : forall t rs, P (VRecs t rs).
  Hypothesis HList : forall vs, Forall P vs -> P (VList vs).

  Fixpoint val_ind' (v : val) : P v :=
    match v with
    | VNone => HNone
    | VInt n => HInt n
    | VStr s => HStr s
    | VRec t r => HRec t r
    | VRecs t rs => HRecs t rs
    | VList vs => HList vs ((fix go (l : list val) : Forall P l :=
                              match l with [] => Forall_nil P | x :: t => Forall_cons x (val_ind' x) (go t) end) vs)
    end.
End ValInd.

Scheme expr_mut := Induction for expr Sort Prop
  with keys_mut := Induction for keys Sort Prop.
Combined Scheme expr_keys_ind from expr_mut, keys_mut.

Lemma map_VInt_rn : forall f rs, map (rn_val f) (map VInt rs) = map VInt rs.
Proof. intros f rs. induction rs as [|r rs IH]; cbn; [reflexivity | rewrite IH; reflexivity]. Qed.

Lemma eval_ELookup : forall p1 p2 d cf self row env one t ks ob,
  eval p1 p2 d cf self row env (ELookup one t ks ob) =
  rbind (eval_keys p1 p2 d cf self row env ks) (fun kvs =>
  rbind (rows_of d t) (fun rows =>
  rbind (rfilter (fun r => row_matches cf t r kvs) rows) (fun m =>
  rbind (sort_rows cf t ob m) (fun s => ROk (if one then VRec t (hd 0 s) else VRecs t s))))).
Proof. reflexivity. Qed.

Lemma eval_keys_KCons : forall p1 p2 d cf self row env k e ks,
  eval_keys p1 p2 d cf self row env (KCons k e ks) =
  rbind (eval p1 p2 d cf self row env e) (fun v =>
  rbind (eval_keys p1 p2 d cf self row env ks) (fun t => ROk ((k, v) :: t))).
Proof. reflexivity. Qed.

Lemma ren_ELookup : forall rt rc d self G one t ks ob,
  ren rt rc d self G (ELookup one t ks ob) = ELookup one (rt t) (ren_keys rt rc d self G t ks) (rn_ob rc t ob).
Proof. reflexivity. Qed.

Lemma ren_keys_KCons : forall rt rc d self G t k e ks,
  ren_keys rt rc d self G t (KCons k e ks) = KCons (rc t k) (ren rt rc d self G e) (ren_keys rt rc d self G t ks).
Proof. reflexivity. Qed.

(* has_tab v T: if v is a record (set) at all, it is one of table T *)
Definition has_tab (v : val) (T : name) : Prop :=
  match v with VRec t _ => t = T | VRecs t _ => t = T | _ => True end.

Definition env_ok (G : tenv) (env : list (name * val)) : Prop :=
  forall x T v, lookup_env x G = Some (Some T) -> lookup_env x env = Some v -> has_tab v T.

Lemma find_table_name : forall d t tb, find_table d t = Some tb -> tname tb = t.
Proof. intros d t tb H. apply find_some in H. destruct H as [_ H]. apply name_eqb_eq. exact H. Qed.

Lemma find_table_in : forall d t tb, find_table d t = Some tb -> In tb d.
Proof. intros d t tb H. apply find_some in H. tauto. Qed.

Lemma find_col_in : forall tb c co, find_col tb c = Some co -> In co (tcols tb).
Proof. intros tb c co H. apply find_some in H. tauto. Qed.

(* ================================================================================================= *)
Section Equiv.
  Variable rn_tab : name -> name.
  Variable rn_col : name -> name -> name.
  Variable prim1 : Z -> val -> R val.
  Variable prim2 : Z -> val -> val -> R val.

  (* the renaming is injective on table names and, per table, on column names *)
  Hypothesis tab_inj : forall a b, name_eqb (rn_tab a) (rn_tab b) = name_eqb a b.
  Hypothesis col_inj : forall t a b, name_eqb (rn_col t a) (rn_col t b) = name_eqb a b.
  (* builtins do not look at table names *)
  Hypothesis prim1_nat : forall f v, prim1 f (rn_val rn_tab v) = rn_res rn_tab (prim1 f v).
  Hypothesis prim2_nat : forall f a b, prim2 f (rn_val rn_tab a) (rn_val rn_tab b) = rn_res rn_tab (prim2 f a b).

  Notation rv := (rn_val rn_tab).
  Notation rr := (rn_res rn_tab).
  Notation rtab := (rn_table rn_tab rn_col).
  Notation rcolumn := (rn_column rn_tab rn_col).
  Notation rdoc := (rename_doc rn_tab rn_col).

  Lemma rr_fmap : forall r, rr r = rfmap rv r.
  Proof. intros [v|k]; reflexivity. Qed.

  (* ---- values ---- *)
  Lemma truthy_rv : forall v, truthy (rv v) = truthy v.
  Proof. destruct v as [| | | | |vs]; try reflexivity. destruct vs; reflexivity. Qed.

  Lemma key_eqb_rv : forall a b, key_eqb (rv a) (rv b) = key_eqb a b.
  Proof. destruct a, b; reflexivity. Qed.

  Lemma keys_eqb_rv : forall a b, keys_eqb (map rv a) (map rv b) = keys_eqb a b.
  Proof.
    induction a as [|x a IH]; destruct b as [|y b]; cbn; try reflexivity.
    rewrite key_eqb_rv, IH. reflexivity.
  Qed.

  Lemma val_lt_rv : forall a b, val_lt (rv a) (rv b) = val_lt a b.
  Proof. destruct a, b; reflexivity. Qed.

  Lemma key_lt_rv : forall ds a b, key_lt ds (map rv a) (map rv b) = key_lt ds a b.
  Proof.
    induction ds as [|dsc ds IH]; intros a b; [destruct a, b; reflexivity|].
    destruct a as [|x a], b as [|y b]; try reflexivity. cbn [map key_lt].
    rewrite !val_lt_rv, IH. reflexivity.
  Qed.

  Lemma ids_of_rv : forall vs, ids_of (map rv vs) = ids_of vs.
  Proof.
    induction vs as [|v vs IH]; [reflexivity|]. destruct v; cbn; try reflexivity; rewrite IH; reflexivity.
  Qed.

  Lemma flat_ids_rv : forall vs, flat_ids (map rv vs) = flat_ids vs.
  Proof.
    unfold flat_ids. induction vs as [|v vs IH]; [reflexivity|]. cbn [map flat_map]. rewrite IH.
    destruct v; reflexivity.
  Qed.

  Lemma wrap_rv : forall ty v, wrap (rn_ctyp rn_tab ty) (rv v) = rr (wrap ty v).
  Proof.
    intros ty v. destruct ty as [|u|u]; cbn; [reflexivity | destruct v; reflexivity |].
    destruct v as [| | | | |vs]; try reflexivity. cbn. rewrite ids_of_rv. destruct (ids_of vs); reflexivity.
  Qed.

  Lemma elems_rv : forall v, elems (rv v) = rfmap (map rv) (elems v).
  Proof.
    destruct v as [| | | |t rs|vs]; try reflexivity. cbn. f_equal. rewrite !map_map. reflexivity.
  Qed.

  Definition gk (x : list val * Z) : list val * Z := (map rv (fst x), snd x).

  Lemma krow_lt_rv : forall ds pa a pb b, krow_lt ds pa (gk a) pb (gk b) = krow_lt ds pa a pb b.
  Proof. intros. unfold krow_lt, gk. cbn [fst snd]. rewrite !key_lt_rv. reflexivity. Qed.

  Lemma prevnext_tab : forall w t ds p me ks,
    prevnext w (rn_tab t) ds p me ks = rv (prevnext w t ds p me ks).
  Proof. intros. unfold prevnext. destruct (w =? 0); [reflexivity|]. destruct (w =? 1); reflexivity. Qed.

  Lemma prevnext_rv : forall w t ds p me ks,
    prevnext w (rn_tab t) ds p (gk me) (map gk ks) = rv (prevnext w t ds p me ks).
  Proof.
    intros w t ds p me ks. unfold prevnext.
    rewrite (filter_map_comm gk (fun k => krow_lt ds true k p me)) by (intro k; apply krow_lt_rv).
    rewrite (filter_map_comm gk (fun k => krow_lt ds p me true k)) by (intro k; apply krow_lt_rv).
    destruct (w =? 0).
    - change (([] : list val), 0) with (gk ([], 0)). rewrite last_map_comm. reflexivity.
    - destruct (w =? 1).
      + change (([] : list val), 0) with (gk ([], 0)). rewrite hd_map_comm. reflexivity.
      + rewrite map_length. reflexivity.
  Qed.

  Lemma lookup_env_rv : forall x (env : list (name * val)),
    lookup_env x (map (fun p => (fst p, rv (snd p))) env) = option_map rv (lookup_env x env).
  Proof.
    intros x env. induction env as [|[y v] env IH]; [reflexivity|]. cbn. destruct (name_eqb y x); [reflexivity | exact IH].
  Qed.

  (* ---- schema ---- *)
  Variable d : doc.
  (* a column that would turn its table into a summary table if named `group` (a reference list with the group
     formula) is not renamed from or to the name `group`; all other columns may be *)
  Hypothesis group_stable : forall tb co, In tb d -> In co (tcols tb) -> is_grp co = true ->
    name_eqb (rn_col (tname tb) (cname co)) GROUP = name_eqb (cname co) GROUP.

  Lemma find_table_rn : forall l t,
    find_table (map (rtab d) l) (rn_tab t) = option_map (rtab d) (find_table l t).
  Proof. intros l t. unfold find_table. apply find_map. intro tb. cbn. apply tab_inj. Qed.

  Lemma find_col_rn : forall tb c,
    find_col (rtab d tb) (rn_col (tname tb) c) = option_map (rcolumn d (tname tb)) (find_col tb c).
  Proof. intros tb c. unfold find_col. cbn. apply find_map. intro co. cbn. apply col_inj. Qed.

  Lemma col_target_rn : forall t c,
    col_target (rdoc d) (rn_tab t) (rn_col t c) = option_map rn_tab (col_target d t c).
  Proof.
    intros t c. unfold col_target, rename_doc. rewrite find_table_rn.
    destruct (find_table d t) as [tb|] eqn:Ht; [|reflexivity]. cbn [option_map].
    rewrite <- (find_table_name _ _ _ Ht). rewrite find_col_rn.
    destruct (find_col tb c) as [co|]; [|reflexivity]. cbn. destruct (ctype co); reflexivity.
  Qed.

  Lemma ren_group : forall dd self G f, ren rn_tab rn_col dd self G f = EGroup <-> f = EGroup.
  Proof. intros dd self G f. destruct f; cbn; split; intro H; try discriminate; reflexivity. Qed.

  Definition grp_src (co : column) : option name :=
    match ctype co, cformula co with CRefList s, Some EGroup => Some s | _, _ => None end.

  Lemma grp_src_rn : forall t co, grp_src (rcolumn d t co) = option_map rn_tab (grp_src co).
  Proof.
    intros t co. unfold grp_src. cbn.
    destruct (ctype co) as [|u|u]; destruct (cformula co) as [f|]; try reflexivity; destruct f; reflexivity.
  Qed.

  Lemma is_grp_none : forall co, is_grp co = false -> grp_src co = None.
  Proof.
    intros co H. unfold is_grp in H. unfold grp_src.
    destruct (ctype co); destruct (cformula co) as [f|]; try reflexivity; destruct f; try reflexivity; discriminate.
  Qed.

  Lemma summary_source_rn : forall t,
    summary_source (rdoc d) (rn_tab t) = option_map rn_tab (summary_source d t).
  Proof.
    intro t. unfold summary_source, rename_doc. rewrite find_table_rn.
    destruct (find_table d t) as [tb|] eqn:Ht; [|reflexivity]. cbn [option_map].
    pose proof (find_table_in _ _ _ Ht) as Hin.
    change (match find_col (rtab d tb) GROUP with Some co => grp_src co | None => None end
            = option_map rn_tab (match find_col tb GROUP with Some co => grp_src co | None => None end)).
    destruct (name_eqb (rn_col (tname tb) GROUP) GROUP) eqn:EG.
    - (* the name group stays: the same column is found *)
      apply name_eqb_eq in EG.
      assert (Hg : find_col (rtab d tb) GROUP = option_map (rcolumn d (tname tb)) (find_col tb GROUP)).
      { unfold find_col. cbn. apply find_map. intro co. cbn.
        transitivity (name_eqb (rn_col (tname tb) (cname co)) (rn_col (tname tb) GROUP)); [rewrite EG; reflexivity|].
        apply col_inj. }
      rewrite Hg. destruct (find_col tb GROUP) as [co|]; [|reflexivity]. cbn [option_map]. apply grp_src_rn.
    - (* the name group moves: neither before nor after is a group-formula column named group *)
      assert (Hold : match find_col tb GROUP with Some co => grp_src co | None => None end = None).
      { destruct (find_col tb GROUP) as [co|] eqn:Hc; [|reflexivity]. apply is_grp_none.
        destruct (is_grp co) eqn:Eg; [|reflexivity]. exfalso.
        unfold find_col in Hc. apply find_some in Hc. destruct Hc as [Hco Hn].
        pose proof (group_stable tb co Hin Hco Eg) as Hs. rewrite Hn in Hs. apply name_eqb_eq in Hn.
        rewrite Hn, EG in Hs. discriminate. }
      rewrite Hold. cbn [option_map].
      destruct (find_col (rtab d tb) GROUP) as [co'|] eqn:Hc'; [|reflexivity].
      unfold find_col in Hc'. apply find_some in Hc'. destruct Hc' as [Hco' Hn']. cbn [rn_table tcols] in Hco'.
      apply in_map_iff in Hco'. destruct Hco' as [co [E Hco]]. subst co'. cbn in Hn'.
      rewrite grp_src_rn. rewrite is_grp_none; [reflexivity|].
      destruct (is_grp co) eqn:Eg; [|reflexivity]. exfalso.
      pose proof (group_stable tb co Hin Hco Eg) as Hs. rewrite Hn' in Hs. symmetry in Hs. apply name_eqb_eq in Hs.
      rewrite Hs, EG in Hn'. discriminate.
  Qed.

  Lemma rows_of_rn : forall t, rows_of (rdoc d) (rn_tab t) = rows_of d t.
  Proof.
    intro t. unfold rows_of, rename_doc. rewrite find_table_rn. destruct (find_table d t); reflexivity.
  Qed.

  (* ---- evaluation, given that the cell function is equivariant and respects column types ---- *)
  Variable cellf cellf' : name -> Z -> name -> R val.
  Hypothesis Hcell : forall t r c, cellf' (rn_tab t) r (rn_col t c) = rr (cellf t r c).
  Hypothesis Hsound : forall t r c u v, col_target d t c = Some u -> cellf t r c = ROk v -> has_tab v u.

  Notation ev := (eval prim1 prim2 d cellf).
  Notation ev' := (eval prim1 prim2 (rdoc d) cellf').
  Notation renv := (map (fun p : name * val => (fst p, rv (snd p)))).

  Lemma keyvals_rn : forall (t : name) (r : Z) (cs : list name),
    rmap (fun c => cellf' (rn_tab t) r c) (map (rn_col t) cs) = rfmap (map rv) (rmap (fun c => cellf t r c) cs).
  Proof.
    intros t r cs. rewrite rmap_map. apply rmap_fmap. intros c _. rewrite <- rr_fmap. apply Hcell.
  Qed.

  Lemma obvals_rn : forall t r (ob : list (bool * name)),
    rmap (fun p => cellf' (rn_tab t) r (snd p)) (rn_ob rn_col t ob) = rfmap (map rv) (rmap (fun p => cellf t r (snd p)) ob).
  Proof.
    intros t r ob. unfold rn_ob. rewrite rmap_map. cbn [snd]. apply rmap_fmap.
    intros p _. rewrite <- rr_fmap. apply Hcell.
  Qed.

  Lemma keyed_rows_rn : forall t ob rows,
    keyed_rows cellf' (rn_tab t) (rn_ob rn_col t ob) rows = rfmap (map gk) (keyed_rows cellf t ob rows).
  Proof.
    intros t ob rows. unfold keyed_rows.
    rewrite (rmap_fmap gk (fun r => rbind (rmap (fun p => cellf t r (snd p)) ob) (fun kv => ROk (kv, r)))).
    - rewrite rbind_fmap. destruct (rmap _ rows) as [keyed|k]; [|reflexivity]. cbn [rbind rfmap]. f_equal.
      unfold rn_ob. rewrite map_map. cbn [fst].
      apply (sort_by_map gk (fun a b => key_lt (map fst ob) (fst a) (fst b))).
      intros a b. unfold gk. cbn [fst]. apply key_lt_rv.
    - intros r _. rewrite obvals_rn. destruct (rmap (fun p => cellf t r (snd p)) ob); reflexivity.
  Qed.

  Lemma sort_rows_rn : forall t ob rows,
    sort_rows cellf' (rn_tab t) (rn_ob rn_col t ob) rows = sort_rows cellf t ob rows.
  Proof.
    intros t ob rows. unfold sort_rows. rewrite keyed_rows_rn. rewrite rbind_fmap. apply rbind_ext.
    intros ks _. rewrite map_map. reflexivity.
  Qed.

  Lemma row_matches_rn : forall t r kvs,
    row_matches cellf' (rn_tab t) r (map (fun kv => (rn_col t (fst kv), rv (snd kv))) kvs) = row_matches cellf t r kvs.
  Proof.
    intros t r kvs. unfold row_matches. rewrite rmap_map. cbn [fst snd]. f_equal.
    apply rmap_ext. intros kv _. rewrite Hcell. destruct (cellf t r (fst kv)); cbn; [|reflexivity].
    rewrite key_eqb_rv. reflexivity.
  Qed.

  Lemma attr_rn : forall v T c, has_tab v T ->
    attr (rdoc d) cellf' (rv v) (rn_col T c) = rr (attr d cellf v c).
  Proof.
    intros v T c Ht. destruct v as [| | |t r|t rs|]; try reflexivity; cbn in Ht; subst t; cbn [rn_val attr].
    - apply Hcell.
    - rewrite (rmap_fmap rv (fun r => cellf T r c)) by (intros r _; rewrite <- rr_fmap; apply Hcell).
      rewrite col_target_rn. destruct (rmap (fun r => cellf T r c) rs) as [vs|]; cbn; [|reflexivity].
      destruct (col_target d T c); cbn; [rewrite flat_ids_rv|]; reflexivity.
  Qed.

  Lemma infer_sound : forall e self G env row v T,
    env_ok G env -> infer d self G e = Some T -> ev self row env e = ROk v -> has_tab v T.
  Proof.
    induction e; intros self G env row v T Hok Hinf Hev; cbn in Hinf; try discriminate.
    - inversion Hinf; subst. cbn in Hev. inversion Hev; subst. reflexivity.
    - cbn in Hev. destruct (lookup_env x G) as [o|] eqn:HG; [|discriminate]. subst o.
      destruct (lookup_env x env) as [v0|] eqn:He; [|discriminate]. inversion Hev; subst.
      eapply Hok; eauto.
    - cbn in Hev. eapply Hsound; eauto.
    - destruct (infer d self G e) as [t1|] eqn:H1; [|discriminate]. cbn in Hev.
      apply rbind_ok in Hev. destruct Hev as [v1 [Hv1 Hattr]].
      pose proof (IHe self G env row v1 t1 Hok H1 Hv1) as Ht.
      destruct v1 as [| | |t r|t rs|]; cbn in Hattr; try discriminate; cbn in Ht; subst t.
      + eapply Hsound; eauto.
      + apply rbind_ok in Hattr. destruct Hattr as [vs [_ Hr]]. rewrite Hinf in Hr. inversion Hr; subst. reflexivity.
    - inversion Hinf; subst. cbn in Hev.
      apply rbind_ok in Hev. destruct Hev as [? [_ Hev]]. apply rbind_ok in Hev. destruct Hev as [? [_ Hev]].
      apply rbind_ok in Hev. destruct Hev as [? [_ Hev]]. apply rbind_ok in Hev. destruct Hev as [? [_ Hev]].
      inversion Hev; subst. destruct one; reflexivity.
    - inversion Hinf; subst. cbn in Hev. apply rbind_ok in Hev. destruct Hev as [? [_ Hev]].
      inversion Hev; subst. reflexivity.
    - cbn in Hev. apply rbind_ok in Hev. destruct Hev as [v1 [Hv1 Hev]].
      pose proof (IHe self G env row v1 T Hok Hinf Hv1) as Ht.
      destruct v1 as [| | |t r| |]; try discriminate. cbn in Ht. subst t.
      apply rbind_ok in Hev. destruct Hev as [? [_ Hev]]. apply rbind_ok in Hev. destruct Hev as [? [_ Hev]].
      apply rbind_ok in Hev. destruct Hev as [? [_ Hev]]. apply rbind_ok in Hev. destruct Hev as [s [_ Hev]].
      apply rbind_ok in Hev. destruct Hev as [kv [_ Hev]].
      inversion Hev; subst. unfold prevnext.
      destruct (w =? 0); [reflexivity|]. destruct (w =? 1); reflexivity.
  Qed.

  Lemma comp_elems_typed : forall src self env row v vs T el,
    comp_type src = Some T -> ev self row env src = ROk v -> elems v = ROk vs -> In el vs -> has_tab el T.
  Proof.
    intros src self env row v vs T el Hc Hev Hel Hin. destruct src; cbn in Hc; try discriminate; inversion Hc; subst.
    - cbn in Hev.
      apply rbind_ok in Hev. destruct Hev as [? [_ Hev]]. apply rbind_ok in Hev. destruct Hev as [? [_ Hev]].
      apply rbind_ok in Hev. destruct Hev as [? [_ Hev]]. apply rbind_ok in Hev. destruct Hev as [s [_ Hev]].
      inversion Hev; subst. destruct one; cbn in Hel; [discriminate|]. inversion Hel; subst.
      apply in_map_iff in Hin. destruct Hin as [r [E _]]. subst. reflexivity.
    - cbn in Hev. apply rbind_ok in Hev. destruct Hev as [rows [_ Hev]]. inversion Hev; subst.
      cbn in Hel. inversion Hel; subst. apply in_map_iff in Hin. destruct Hin as [r [E _]]. subst. reflexivity.
  Qed.

  Lemma env_ok_cons : forall G env x o el,
    env_ok G env -> (forall T, o = Some T -> has_tab el T) -> env_ok ((x, o) :: G) ((x, el) :: env).
  Proof.
    intros G env x o el Hok Hel y T v HG He. cbn in HG, He. destruct (name_eqb x y).
    - inversion HG; inversion He; subst. apply Hel. reflexivity.
    - eapply Hok; eauto.
  Qed.

  Definition rkv (t : name) (kv : name * val) : name * val := (rn_col t (fst kv), rv (snd kv)).

  Lemma eval_rn_mut :
    (forall e self G env row, env_ok G env -> wf_static d self G e = true ->
       ev' (rn_tab self) row (renv env) (ren rn_tab rn_col d self G e) = rr (ev self row env e)) /\
    (forall ks self G env row t, env_ok G env -> wf_keys d self G ks = true ->
       eval_keys prim1 prim2 (rdoc d) cellf' (rn_tab self) row (renv env) (ren_keys rn_tab rn_col d self G t ks)
       = rfmap (map (rkv t)) (eval_keys prim1 prim2 d cellf self row env ks)).
  Proof.
    apply expr_keys_ind.
    - (* EInt *) intros; reflexivity.
    - (* EStr *) intros; reflexivity.
    - (* ENone *) intros; reflexivity.
    - (* ERec *) intros; reflexivity.
    - (* EVar *) intros x self G env row _ _. cbn. rewrite lookup_env_rv. destruct (lookup_env x env); reflexivity.
    - (* EDollar *) intros c self G env row _ _. cbn. apply Hcell.
    - (* ECol *) intros e IH c self G env row Hok Hwf. cbn in Hwf. apply andb_true_iff in Hwf. destruct Hwf as [Hwf Hi].
      destruct (infer d self G e) as [T|] eqn:Hinf; [|discriminate].
      cbn [ren eval]. rewrite Hinf. cbn [rn_opt_col]. rewrite (IH self G env row Hok Hwf).
      destruct (ev self row env e) as [v|k] eqn:Hev; [|reflexivity]. cbn [rn_res rbind].
      apply attr_rn. eapply infer_sound; eauto.
    - (* EId *) intros e IH self G env row Hok Hwf. cbn in Hwf. cbn [ren eval]. rewrite (IH self G env row Hok Hwf).
      destruct (ev self row env e) as [v|k]; [|reflexivity]. destruct v; try reflexivity.
      cbn. rewrite map_VInt_rn. reflexivity.
    - (* ELookup *) intros one t ks IH ob self G env row Hok Hwf. cbn in Hwf. rewrite ren_ELookup, !eval_ELookup.
      rewrite (IH self G env row t Hok Hwf).
      destruct (eval_keys prim1 prim2 d cellf self row env ks) as [kvs|k]; [|reflexivity]. cbn [rfmap rbind].
      rewrite rows_of_rn. destruct (rows_of d t) as [rows|k]; [|reflexivity]. cbn [rbind].
      rewrite (rfilter_ext _ (fun r => row_matches cellf t r kvs)) by (intros r _; apply row_matches_rn).
      destruct (rfilter (fun r => row_matches cellf t r kvs) rows) as [m|k]; [|reflexivity]. cbn [rbind].
      rewrite sort_rows_rn. destruct (sort_rows cellf t ob m) as [s|k]; [|reflexivity]. cbn. destruct one; reflexivity.
    - (* EAll *) intros t self G env row _ _. cbn. rewrite rows_of_rn. destruct (rows_of d t); reflexivity.
    - (* EComp *) intros body IHb x src IHs self G env row Hok Hwf. cbn in Hwf. apply andb_true_iff in Hwf.
      destruct Hwf as [Hws Hwb]. cbn [ren eval]. rewrite (IHs self G env row Hok Hws).
      destruct (ev self row env src) as [v|k] eqn:Hsrc; [|reflexivity]. cbn [rn_res rbind].
      rewrite elems_rv. destruct (elems v) as [vs|k] eqn:Hel; [|reflexivity]. cbn [rfmap rbind].
      rewrite rmap_map.
      rewrite (rmap_fmap rv (fun el => ev self row ((x, el) :: env) body)).
      + destruct (rmap (fun el => ev self row ((x, el) :: env) body) vs); reflexivity.
      + intros el Hin. rewrite <- rr_fmap.
        apply (IHb self ((x, comp_type src) :: G) ((x, el) :: env) row); [|exact Hwb].
        apply env_ok_cons; [exact Hok|]. intros T HT. eapply comp_elems_typed; eauto.
    - (* ECompIf *) intros body IHb x src IHs cond IHc self G env row Hok Hwf. cbn in Hwf.
      apply andb_true_iff in Hwf. destruct Hwf as [Hwf Hwc]. apply andb_true_iff in Hwf. destruct Hwf as [Hws Hwb].
      cbn [ren eval]. rewrite (IHs self G env row Hok Hws).
      destruct (ev self row env src) as [v|k] eqn:Hsrc; [|reflexivity]. cbn [rn_res rbind].
      rewrite elems_rv. destruct (elems v) as [vs|k] eqn:Hel; [|reflexivity]. cbn [rfmap rbind].
      rewrite rmap_map.
      rewrite (rmap_fmap (option_map rv)
                 (fun el => rbind (ev self row ((x, el) :: env) cond) (fun c =>
                            if truthy c then rbind (ev self row ((x, el) :: env) body) (fun b => ROk (Some b))
                            else ROk None))).
      + destruct (rmap _ vs) as [out|k]; [|reflexivity]. cbn. do 2 f_equal.
        induction out as [|o out IHo]; [reflexivity|]. destruct o; cbn; rewrite IHo; reflexivity.
      + intros el Hin.
        assert (Hok' : env_ok ((x, comp_type src) :: G) ((x, el) :: env)).
        { apply env_ok_cons; [exact Hok|]. intros T HT. eapply comp_elems_typed; eauto. }
        pose proof (IHc self _ _ row Hok' Hwc) as Ec. pose proof (IHb self _ _ row Hok' Hwb) as Eb.
        cbn [map fst snd] in Ec, Eb. rewrite Ec.
        destruct (ev self row ((x, el) :: env) cond) as [c|k]; [|reflexivity]. cbn [rn_res rbind rfmap].
        rewrite truthy_rv. destruct (truthy c); [|reflexivity]. rewrite Eb.
        destruct (ev self row ((x, el) :: env) body); reflexivity.
    - (* EPrevNext *) intros w e IH gb ob self G env row Hok Hwf. cbn in Hwf. apply andb_true_iff in Hwf.
      destruct Hwf as [Hwf Hi]. cbn [ren eval]. rewrite (IH self G env row Hok Hwf).
      destruct (ev self row env e) as [v|k] eqn:Hev; [|reflexivity]. cbn [rn_res rbind].
      destruct v as [| | |t r| |]; try reflexivity. cbn [rn_val]. rewrite rows_of_rn.
      destruct (rows_of d t) as [rows|k]; [|reflexivity]. cbn [rbind].
      destruct (infer d self G e) as [T|] eqn:Hinf.
      + pose proof (infer_sound e self G env row _ T Hok Hinf Hev) as Ht. cbn in Ht. subst t.
        cbn [rn_opt_col rn_opt_ob]. rewrite keyvals_rn. rewrite rbind_fmap.
        destruct (rmap (fun c => cellf T r c) gb) as [mine|k]; [|reflexivity]. cbn [rbind].
        rewrite (rfilter_ext _ (fun r' => rbind (rmap (fun c => cellf T r' c) gb)
                                              (fun theirs => ROk (keys_eqb mine theirs)))).
        * destruct (rfilter _ rows) as [grp|k]; [|reflexivity]. cbn [rbind]. rewrite keyed_rows_rn, rbind_fmap.
          destruct (keyed_rows cellf T ob grp) as [ks|k]; [|reflexivity]. cbn [rbind].
          rewrite obvals_rn, rbind_fmap.
          destruct (rmap (fun p => cellf T r (snd p)) ob) as [kv|k]; [|reflexivity]. cbn [rbind rn_res].
          rewrite summary_source_rn. f_equal.
          replace (map fst (rn_ob rn_col T ob)) with (map fst ob) by (unfold rn_ob; rewrite map_map; reflexivity).
          change (map rv kv, r) with (gk (kv, r)).
          destruct (summary_source d T); cbn [option_map]; apply prevnext_rv.
        * intros r' _. rewrite keyvals_rn. rewrite rbind_fmap. apply rbind_ext. intros theirs _.
          rewrite keys_eqb_rv. reflexivity.
      + destruct gb; [|discriminate]. destruct ob; [|discriminate]. cbn.
        destruct (rfilter _ rows) as [grp|k]; [|reflexivity]. cbn [rbind].
        change (keyed_rows cellf' (rn_tab t) [] grp) with (keyed_rows cellf t [] grp).
        destruct (keyed_rows cellf t [] grp) as [ks|k]; [|reflexivity]. cbn [rbind rn_res].
        rewrite summary_source_rn. f_equal.
        destruct (summary_source d t); cbn [option_map]; apply prevnext_tab.
    - (* EPrim1 *) intros f e IH self G env row Hok Hwf. cbn in Hwf. cbn [ren eval]. rewrite (IH self G env row Hok Hwf).
      destruct (ev self row env e); [|reflexivity]. cbn. apply prim1_nat.
    - (* EPrim2 *) intros f a IHa b IHb self G env row Hok Hwf. cbn in Hwf. apply andb_true_iff in Hwf.
      destruct Hwf as [Ha Hb]. cbn [ren eval]. rewrite (IHa self G env row Hok Ha), (IHb self G env row Hok Hb).
      destruct (f =? 3).
      + destruct (ev self row env a) as [va|k]; [|reflexivity]. cbn [rn_res rbind]. rewrite truthy_rv.
        destruct (truthy va); reflexivity.
      + destruct (ev self row env a); [|reflexivity]. destruct (ev self row env b); [|reflexivity]. cbn. apply prim2_nat.
    - (* EIf *) intros c IHc a IHa b IHb self G env row Hok Hwf. cbn in Hwf. apply andb_true_iff in Hwf.
      destruct Hwf as [Hwf Hb]. apply andb_true_iff in Hwf. destruct Hwf as [Hc Ha]. cbn [ren eval].
      rewrite (IHc self G env row Hok Hc). destruct (ev self row env c) as [vc|k]; [|reflexivity]. cbn [rn_res rbind].
      rewrite truthy_rv. destruct (truthy vc); [apply IHa | apply IHb]; assumption.
    - (* EGroup *) intros self G env row _ _. cbn [ren eval]. rewrite summary_source_rn.
      unfold rename_doc. rewrite find_table_rn.
      destruct (summary_source d self); destruct (find_table d self); reflexivity.
    - (* KNil *) intros; reflexivity.
    - (* KCons *) intros k e IHe ks IHk self G env row t Hok Hwf. cbn in Hwf. apply andb_true_iff in Hwf.
      destruct Hwf as [He Hk]. rewrite ren_keys_KCons, !eval_keys_KCons. rewrite (IHe self G env row Hok He), (IHk self G env row t Hok Hk).
      destruct (ev self row env e); [|reflexivity].
      destruct (eval_keys prim1 prim2 d cellf self row env ks); reflexivity.
  Qed.
End Equiv.

(* ================================================================================================= *)
Lemma wrap_has_tab : forall ty x v, wrap ty x = ROk v ->
  match ty with CRef u => has_tab v u | CRefList u => has_tab v u | CPlain => True end.
Proof.
  intros ty x v H. destruct ty as [|u|u]; [exact I| |].
  - destruct x; cbn in H; inversion H; reflexivity.
  - destruct x as [| | | | |vs]; cbn in H; try (inversion H; reflexivity).
    destruct (ids_of vs); inversion H; reflexivity.
Qed.

Section Cells.
  Variable rn_tab : name -> name.
  Variable rn_col : name -> name -> name.
  Variable prim1 : Z -> val -> R val.
  Variable prim2 : Z -> val -> val -> R val.
  Hypothesis tab_inj : forall a b, name_eqb (rn_tab a) (rn_tab b) = name_eqb a b.
  Hypothesis col_inj : forall t a b, name_eqb (rn_col t a) (rn_col t b) = name_eqb a b.
  Hypothesis prim1_nat : forall f v, prim1 f (rn_val rn_tab v) = rn_res rn_tab (prim1 f v).
  Hypothesis prim2_nat : forall f a b, prim2 f (rn_val rn_tab a) (rn_val rn_tab b) = rn_res rn_tab (prim2 f a b).
  Variable d : doc.
  Hypothesis group_stable : forall tb co, In tb d -> In co (tcols tb) -> is_grp co = true ->
    name_eqb (rn_col (tname tb) (cname co)) GROUP = name_eqb (cname co) GROUP.
  Hypothesis Hwf : doc_wf d.

  Notation rv := (rn_val rn_tab).
  Notation rr := (rn_res rn_tab).
  Notation rdoc := (rename_doc rn_tab rn_col).

  Lemma cell_sound : forall n t r c u v,
    col_target d t c = Some u -> cell prim1 prim2 d n t r c = ROk v -> has_tab v u.
  Proof.
    intros n t r c u v Hct Hc. destruct n; [discriminate|]. cbn [cell] in Hc. unfold col_target in Hct.
    destruct (find_table d t) as [tb|]; [|discriminate]. destruct (find_col tb c) as [co|]; [|discriminate].
    assert (Hw : forall x, wrap (ctype co) x = ROk v -> has_tab v u).
    { intros x Hx. apply wrap_has_tab in Hx. destruct (ctype co); inversion Hct; subst; exact Hx. }
    destruct (cformula co) as [f|].
    - destruct (existsb (Z.eqb r) (trows tb)).
      + apply rbind_ok in Hc. destruct Hc as [x [_ Hx]]. eapply Hw; eauto.
      + eapply Hw; eauto.
    - eapply Hw; eauto.
  Qed.

  Lemma data_at_rn : forall l r, data_at (map (fun p : Z * val => (fst p, rv (snd p))) l) r = rv (data_at l r).
  Proof.
    assert (Hl : forall (l : list (Z * val)) r, lookup_z r (map (fun p : Z * val => (fst p, rv (snd p))) l)
                                              = option_map rv (lookup_z r l)).
    { intros l r. induction l as [|[y v] l IH]; [reflexivity|]. cbn. destruct (y =? r); [reflexivity | exact IH]. }
    intros l r. unfold data_at. rewrite !Hl. destruct (lookup_z r l); [reflexivity|].
    destruct (lookup_z 0 l); reflexivity.
  Qed.

  Lemma cell_rn : forall n t r c,
    cell prim1 prim2 (rdoc d) n (rn_tab t) r (rn_col t c) = rr (cell prim1 prim2 d n t r c).
  Proof.
    induction n as [|n IHn]; intros t r c; [reflexivity|]. cbn [cell].
    unfold rename_doc at 1. rewrite (find_table_rn rn_tab rn_col tab_inj).
    destruct (find_table d t) as [tb|] eqn:Ht; [|reflexivity]. cbn [option_map].
    pose proof (find_table_name _ _ _ Ht) as En. subst t.
    rewrite (find_col_rn rn_tab rn_col col_inj).
    destruct (find_col tb c) as [co|] eqn:Hc; [|reflexivity]. cbn [option_map rn_column cformula ctype cdata].
    destruct (cformula co) as [f|] eqn:Hf; cbn [option_map].
    - destruct (eval_rn_mut rn_tab rn_col prim1 prim2 tab_inj col_inj prim1_nat prim2_nat d group_stable
                  (cell prim1 prim2 d n) (cell prim1 prim2 (rdoc d) n) IHn (cell_sound n)) as [He _].
      specialize (He f (tname tb) [] [] r). cbn [map] in He. cbn [rn_table trows].
      destruct (existsb (Z.eqb r) (trows tb)); [|rewrite data_at_rn; apply wrap_rv].
      rewrite He.
      + destruct (eval prim1 prim2 d (cell prim1 prim2 d n) (tname tb) r [] f); [|reflexivity]. cbn. apply wrap_rv.
      + intros x T v HG. discriminate.
      + eapply Hwf; eauto using find_table_in, find_col_in.
    - rewrite data_at_rn. apply wrap_rv.
  Qed.

  (* Evaluation is equivariant: consistently renaming tables and columns in the schema and in every reference
     changes no value (records carry the renamed table name). *)
  Theorem eval_formula_rn : forall fuel self row f,
    wf_static d self [] f = true ->
    eval_formula prim1 prim2 fuel (rdoc d) (rn_tab self) row (ren rn_tab rn_col d self [] f)
    = rr (eval_formula prim1 prim2 fuel d self row f).
  Proof.
    intros fuel self row f Hf. unfold eval_formula.
    destruct (eval_rn_mut rn_tab rn_col prim1 prim2 tab_inj col_inj prim1_nat prim2_nat d group_stable
                (cell prim1 prim2 d fuel) (cell prim1 prim2 (rdoc d) fuel) (cell_rn fuel) (cell_sound fuel)) as [He _].
    apply (He f self [] [] row); [|exact Hf]. intros x T v HG. discriminate.
  Qed.
End Cells.
