(* K5, third part: undo.  An undo bundle applies the inverse doc actions (source cells back, removed summary rows
   re-added with their ids, added ones removed) and then runs the same settle loop.  The helper column is a
   formula column: its cells are not restored, they are re-evaluated. *)
From Coq Require Import ZArith List Bool Lia.
Import ListNotations.
Require Import Grist.Model.Summary Grist.Proofs.Summary_proofs Grist.Proofs.Summary_inc_proofs.
Open Scope Z_scope.

(* without raising formulas the previous entries do not matter for a full round *)
Lemma helper_list_stale_irrelevant : forall kinds st1 st2 s cells,
  row_keys kinds cells <> None -> helper_list kinds st1 s cells = helper_list kinds st2 s cells.
Proof.
  intros kinds st1 st2 s cells H. unfold helper_list. destruct (row_keys kinds cells); [reflexivity|congruence].
Qed.

Lemma pass_prev_irrelevant : forall kinds p1 p2 src s,
  no_raise kinds src -> pass kinds p1 src s = pass kinds p2 src s.
Proof.
  intros kinds p1 p2 src. induction src as [|r t IH]; intros s Hg; simpl; [reflexivity|].
  rewrite !helper_is_list.
  rewrite (helper_list_stale_irrelevant kinds (entry p1 (fst r)) (entry p2 (fst r)) s (snd r))
    by (apply Hg; left; reflexivity).
  destruct (helper_list kinds (entry p2 (fst r)) s (snd r)) as [s1 h].
  rewrite (IH s1) by (intros r' Hr'; apply Hg; right; exact Hr'). reflexivity.
Qed.

(* the guard: looks up, never adds; and makes no difference when every key has its row *)
Lemma helper_guarded_keeps_table : forall kinds stale s cells, fst (helper_guarded kinds stale s cells) = s.
Proof. intros. unfold helper_guarded. destruct (row_keys kinds cells); reflexivity. Qed.

Lemma helper_guarded_same : forall kinds stale s cells,
  (forall ks k, row_keys kinds cells = Some ks -> In k ks -> first_match s k <> None) ->
  helper_guarded kinds stale s cells = helper_list kinds stale s cells.
Proof.
  intros kinds stale s cells H. unfold helper_guarded, helper_list.
  destruct (row_keys kinds cells) as [ks|]; [|reflexivity].
  rewrite (missing_none s ks) by (intros k Hk; eapply H; [reflexivity|exact Hk]).
  simpl. rewrite !app_nil_r. reflexivity.
Qed.

(* entries that are not re-evaluated in any round stay what they were *)
Lemma pass_d_untouched : forall kinds d prev src s s' hs r,
  pass_d kinds d prev src s = (s', hs) -> NoDup (map fst src) -> In r src -> mem_z (fst r) d = false ->
  entry hs (fst r) = entry prev (fst r).
Proof.
  intros kinds d prev src. induction src as [|x t IH]; intros s s' hs r H Hnd Hin Hd; [contradiction|].
  simpl in H. inversion Hnd as [|y l Hy Hl]; subst.
  destruct (mem_z (fst x) d) eqn:Ex.
  - destruct (helper kinds (entry prev (fst x)) s (snd x)) as [s1 h].
    destruct (pass_d kinds d prev t s1) as [s2 hs'] eqn:Ep. inversion H; subst. simpl.
    destruct Hin as [->|Hin]; [congruence|].
    destruct (Z.eqb_spec (fst x) (fst r)) as [E|E].
    + exfalso. apply Hy. rewrite E. apply in_map. exact Hin.
    + eapply IH; eassumption.
  - destruct (pass_d kinds d prev t s) as [s2 hs'] eqn:Ep. inversion H; subst. simpl.
    destruct Hin as [->|Hin]; [rewrite Z.eqb_refl; reflexivity|].
    destruct (Z.eqb_spec (fst x) (fst r)) as [E|E].
    + exfalso. apply Hy. rewrite E. apply in_map. exact Hin.
    + eapply IH; eassumption.
Qed.

Lemma settle_trace_st_untouched : forall dirties kinds prev src s s' hs r,
  settle_trace_st kinds prev src s dirties = Some (s', hs) -> NoDup (map fst src) -> In r src ->
  (forall d, In d dirties -> mem_z (fst r) d = false) ->
  entry hs (fst r) = entry prev (fst r).
Proof.
  induction dirties as [|d rest IH]; intros kinds prev src s s' hs r H Hnd Hin Hd; [discriminate|].
  cbn [settle_trace_st] in H. destruct (pass_d kinds d prev src s) as [s1 hs1] eqn:Ep.
  pose proof (pass_d_untouched _ _ _ _ _ _ _ r Ep Hnd Hin (Hd d (or_introl eq_refl))) as E1.
  destruct rest as [|d2 rest'].
  - destruct (forallb nonempty_group (with_groups s1 hs1)); [|discriminate]. inversion H; subst. exact E1.
  - rewrite <- E1. eapply IH; [exact H|exact Hnd|exact Hin|]. intros d' Hd'. apply Hd. right. exact Hd'.
Qed.

(* ------------------------------------------------------------------ undo gives back the table *)

(* State A (settled) was followed by some bundle; the undo puts the source cells and the summary rows of A back
   (doc actions) and re-evaluates the helper cells in d.  If the entries of the records that are NOT re-evaluated
   are those they had in A, the loop ends with exactly the table of A: same row ids, keys and groups - no row is
   created again, none is removed again. *)
Theorem undo_restores : forall kinds srcA summA hsA hsB d rest,
  settled kinds srcA summA hsA -> no_raise kinds srcA ->
  (forall r, In r srcA -> mem_z (fst r) d = false ->
             forall i, In i (entry hsB (fst r)) <-> In i (entry hsA (fst r))) ->
  rest <> [] ->
  settle_trace kinds hsB srcA summA (d :: rest) = Some (with_groups summA hsA).
Proof.
  intros kinds srcA summA hsA hsB d rest Hs Hg He Hrest.
  pose proof Hs as [Hnd [Hal [Hv Hne]]].
  assert (Hcv : clean_valid kinds d hsB srcA summA).
  { intros r Hr Hd. specialize (Hv r Hr eq_refl). specialize (He r Hr Hd).
    unfold hspec in *. destruct (row_keys kinds (snd r)) as [ks|]; [|reflexivity].
    destruct Hv as [H1 H2]. split.
    - intros k Hk. destruct (H1 k Hk) as [i [Hi Hf]]. exists i. split; [apply He; exact Hi|exact Hf].
    - intros i Hi. apply He in Hi. exact (H2 i Hi). }
  rewrite (settle_trace_full _ _ _ _ _ _ Hnd Hcv Hrest).
  destruct (settled_pass _ _ _ _ Hs) as [hs' [Hp Hq]].
  rewrite (pass_prev_irrelevant kinds hsA hsB srcA summA Hg) in Hp.
  rewrite (settle_loop_closed _ _ _ _ _ _ Hnd Hp 0).
  rewrite <- (with_groups_equiv _ _ _ Hq). rewrite (forallb_filter_id _ _ Hne). reflexivity.
Qed.

(* Forward and back: from the settled state A a bundle leads to (summB, hsB); the undo restores source cells and
   summary rows of A and re-evaluates at least every helper cell the forward bundle evaluated (in particular
   those of all changed records).  Then the table of A comes back. *)
Theorem undo_roundtrip : forall kinds srcA summA hsA srcB summIn dirtiesF summB hsB d rest,
  settled kinds srcA summA hsA -> no_raise kinds srcA -> NoDup (map fst srcB) ->
  settle_trace_st kinds hsA srcB summIn dirtiesF = Some (summB, hsB) ->
  (forall r, In r srcA -> mem_z (fst r) d = false ->
             In r srcB /\ forall dF, In dF dirtiesF -> mem_z (fst r) dF = false) ->
  rest <> [] ->
  settle_trace kinds hsB srcA summA (d :: rest) = Some (with_groups summA hsA).
Proof.
  intros kinds srcA summA hsA srcB summIn dirtiesF summB hsB d rest Hs Hg HndB HF Hd Hrest.
  apply undo_restores; try assumption.
  intros r Hr Hc. destruct (Hd r Hr Hc) as [HrB Hnot].
  rewrite (settle_trace_st_untouched _ _ _ _ _ _ _ r HF HndB HrB Hnot). tauto.
Qed.
