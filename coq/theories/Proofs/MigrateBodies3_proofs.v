(* C25 -- migration bodies proved total, third batch: whole tables written (20, 14) and columns re-typed (3, 17). *)
From Coq Require Import ZArith Bool String List Lia.
Import ListNotations.
Require Import Grist.Model.Migrate Grist.Model.MigrateSites Grist.Model.MigrateBodies.
Require Import Grist.Proofs.Migrate_proofs Grist.Proofs.MigrateBodies_proofs Grist.Proofs.MigrateBodies2_proofs.
Open Scope Z_scope.
Local Arguments zs : simpl never.

(* ---------- ReplaceTableData on a typed table ---------- *)
Lemma replace_data_step : forall t rs acols s, J s -> typed_table t s ->
  Forall (fun cv : str * list val => length (snd cv) = length rs) acols ->
  exists s', tds_apply (ReplaceTableData t rs acols) s = Ok s' /\ J s' /\ (forall u, has_table u s -> has_table u s').
Proof.
  intros t rs acols s HJ [rows [cols [sc [Hd [Hs HF]]]]] Hlen. cbn [tds_apply]. unfold replace_data. rewrite Hd.
  set (s0 := mkTds (dset t ([], map (fun cv => (fst cv, @nil val)) cols) (t_data s)) (t_schema s)).
  assert (HJ0 : J s0).
  { intros u rows0 cols0 H. unfold s0 in H. cbn [t_data t_schema] in *. rewrite lookup_dset_cases in H. destruct (seqb u t) eqn:Q.
    - injection H as <- <-. apply seqb_eq in Q. subst u. split; [|eauto]. apply Forall_forall. intros cv _. cbn. apply Nat.le_0_l.
    - apply HJ. exact H. }
  assert (Hty0 : typed_table t s0).
  { unfold typed_table, s0. cbn [t_data t_schema]. rewrite lookup_dset_same. eexists _, _, sc. split; [reflexivity|]. split; [exact Hs|].
    eapply (forall_fst_map (fun k => exists ci, lookup k sc = Some ci /\ ci_typed ci)); [|exact HF]. rewrite map_map. reflexivity. }
  destruct (bulk_add_step t rs acols s0 HJ0 Hty0 Hlen) as [s' [E [HJ' [_ [T _]]]]].
  exists s'. split; [exact E|]. split; [exact HJ'|]. intros u [td Hu]. apply T. unfold has_table, s0. cbn [t_data].
  rewrite lookup_dset_cases. destruct (seqb u t); eauto.
Qed.

(* ---------- migration 20 ---------- *)
Lemma pre20_sound : forall s, pre20 s = true -> exists acts s', m20 s = Ok acts /\ tds_apply_all acts s = Ok s' /\ J s'.
Proof.
  intros s H. unfold pre20 in H. split_pre H. pose proof (J_b_sound _ H) as HJ.
  pose proof (has_table_b_sound _ _ P4) as Ht. pose proof (has_table_b_sound _ _ P3) as Htv. pose proof (has_table_b_sound _ _ P2) as Hv.
  unfold m20. rewrite (table_records_ok _ _ Ht). cbn [bind]. cbv zeta. rewrite (table_records_ok _ _ Htv). cbn [bind].
  (* the view -> table name map: values are tableId cells of table records, all strings *)
  match goal with |- exists acts s', bind (?G (recs T_TABLEVIEWS s) []) _ = _ /\ _ =>
    assert (Hm : forall l acc, (forall tv, In tv l -> In tv (recs T_TABLEVIEWS s)) ->
                   Forall (fun kv : val * val => is_text (snd kv) = true) acc ->
                   exists m, G l acc = Ok m /\ Forall (fun kv : val * val => is_text (snd kv) = true) m) end.
  { induction l as [|tv l IH]; intros acc Hsub Hacc; [eauto|].
    pose proof (proj1 (forallb_forall _ _) P0 tv (Hsub tv (or_introl eq_refl))) as Q. cbv beta in Q.
    apply andb_prop in Q. destruct Q as [Q1 Q2]. unfold fld_is in Q1, Q2.
    destruct (fld (zs "tableRef") tv) as [tr|]; [|discriminate Q1]. cbn [bind]. unfold hash_key at 1. rewrite Q1. cbn [bind].
    match goal with |- context [match ?X with Some _ => _ | None => _ end] => destruct X as [t|] eqn:G1 end.
    - destruct (fld (zs "viewRef") tv) as [vr|]; [|discriminate Q2]. cbn [bind]. unfold hash_key at 1. rewrite Q2. cbn [bind].
      assert (Htid : fld_is is_text (zs "tableId") t = true).
      { eapply (pd_get_forall (fun r => fld_is is_text (zs "tableId") r = true)); [|exact G1].
        apply (by_id_forall (fun r => fld_is is_text (zs "tableId") r = true)); [|constructor].
        apply Forall_forall. intros r Hr. exact (proj1 (forallb_forall _ _) P1 r Hr). }
      unfold fld_is in Htid. destruct (fld (zs "tableId") t) as [tid|]; [|discriminate Htid]. cbn [bind].
      apply IH; [intros; apply Hsub; right; assumption|]. apply (pd_set_forall (fun v => is_text v = true)); assumption.
    - apply IH; [intros; apply Hsub; right; assumption|exact Hacc]. }
  destruct (Hm (recs T_TABLEVIEWS s) []) as [tvmap [-> Htvmap]]; [auto|constructor|]. cbn [bind].
  rewrite (table_records_ok _ _ Hv). cbn [bind].
  match goal with |- exists acts s', bind ?A _ = _ /\ _ => assert (Hk : exists keyed, A = Ok keyed) end.
  { apply mapM_some. apply Forall_forall. intros v Hin.
    pose proof (proj1 (forallb_forall _ _) P v Hin) as Q. cbv beta in Q. apply andb_prop in Q. destruct Q as [Q1 Q2].
    match goal with |- context [match ?X with Some _ => _ | None => _ end] => destruct X as [tid|] eqn:G2 end.
    - pose proof (pd_get_forall (fun x => is_text x = true) _ tvmap tid Htvmap G2) as Ht2. destruct tid; try discriminate Ht2.
      cbn [as_str bind]. destruct (fst v) as [z|]; [|discriminate Q2]. cbn. eauto.
    - unfold fld_is in Q1. destruct (fld (zs "name") v) as [nm|]; [|discriminate Q1]. destruct nm; try discriminate Q1. cbn. eauto. }
  destruct Hk as [keyed ->]. cbn [bind]. cbv zeta.
  match goal with |- context [AddTable T_PAGES ?cols] =>
    destruct (add_table_step T_PAGES cols s HJ eq_refl) as [s1 [E1 [HJ1 _]]];
    pose proof (add_table_typed T_PAGES cols s s1 eq_refl E1) as Hty1 end.
  edestruct (replace_data_step T_PAGES) as [s2 [E2 [HJ2 _]]]; [exact HJ1|exact Hty1| |].
  2: { eexists. exists s2. split; [reflexivity|]. cbn [tds_apply_all]. rewrite E1. cbn [bind]. rewrite E2. cbn [bind]. auto. }
  unfold seq_ids. repeat (constructor; [cbn [snd]; repeat rewrite map_length; rewrite ?seq_length; reflexivity|]). constructor.
Qed.

(* ---------- constant lists that also add records to the tables they create (migration 14) ---------- *)
Fixpoint const_ok2 (created : list str) (acts : list action) : bool :=
  match acts with
  | [] => true
  | AddColumn t c ci :: r => ci_typed_b ci && const_ok2 created r
  | AddTable t cols :: r => forallb ci_wf_b cols && const_ok2 (t :: created) r
  | UpdateRecord t rid cols :: r => negb (smem t created) && const_ok2 created r
  | AddRecord t rid cols :: r => smem t created && const_ok2 created r
  | BulkAddRecord t rs cols :: r =>
      smem t created && forallb (fun cv => Nat.eqb (length (snd cv)) (length rs)) cols && const_ok2 created r
  | _ => false
  end.

Lemma typed_add_table : forall t cols s s' u, forallb ci_wf_b cols = true ->
  tds_apply (AddTable t cols) s = Ok s' -> typed_table u s -> typed_table u s'.
Proof.
  intros t cols s s' u Hwf H Hty. destruct (seqb u t) eqn:Q.
  - apply seqb_eq in Q. subst u. eapply add_table_typed; eassumption.
  - destruct Hty as [rows [c0 [sc [Hd [Hs HF]]]]]. cbn [tds_apply schema_step data_step] in H.
    destruct (schema_of_cols cols []) as [m|]; cbn [bind] in H; [|discriminate]. injection H as <-.
    exists rows, c0, sc. cbn [t_data t_schema]. rewrite !lookup_dset_cases, Q. repeat split; assumption.
Qed.

Lemma const2_applies : forall acts created s0 s,
  J s -> (forall u, has_table u s0 -> has_table u s) -> (forall u, In u created -> has_table u s /\ typed_table u s) ->
  (forall u, ~ In u created -> incl (rows_of u s0) (rows_of u s)) ->
  const_ok2 created acts = true ->
  (forall t, In t (const_needs created acts) -> has_table t s0) ->
  (forall t r, In (t, r) (const_row_needs acts) -> In r (rows_of t s0)) ->
  exists s', tds_apply_all acts s = Ok s' /\ J s'.
Proof.
  induction acts as [|a acts IH]; intros created s0 s HJ Hmono Hcr Hrows Hok Hneed Hrneed; cbn [tds_apply_all]; [eauto|].
  assert (Htab : forall t, (if smem t created then const_needs created acts else t :: const_needs created acts)
                           = const_needs created (a :: acts) -> has_table t s).
  { intros t E. destruct (smem t created) eqn:M; [apply Hcr; apply smem_in; exact M|].
    apply Hmono. apply Hneed. rewrite <- E. left. reflexivity. }
  assert (Hrest : forall t, (if smem t created then const_needs created acts else t :: const_needs created acts)
                            = const_needs created (a :: acts) -> forall x, In x (const_needs created acts) -> has_table x s0).
  { intros t E x Hx. apply Hneed. rewrite <- E. destruct (smem t created); [exact Hx|right; exact Hx]. }
  assert (Hnext : forall s1, J s1 -> shape2 s s1 -> const_ok2 created acts = true ->
                  (forall x, In x (const_needs created acts) -> has_table x s0) ->
                  (forall t r, In (t, r) (const_row_needs acts) -> In r (rows_of t s0)) ->
                  exists s', tds_apply_all acts s1 = Ok s' /\ J s').
  { intros s1 HJ1 [R1 [T1 Y1]] Hok1 Hn1 Hr1. eapply (IH created s0 s1); eauto.
    - intros u Hu. destruct (Hcr u Hu). split; auto.
    - intros u Hu. eapply incl_tran; [apply Hrows; exact Hu|apply R1]. }
  destruct a; cbn [const_ok2] in Hok; try discriminate.
  - (* AddRecord *)
    apply andb_prop in Hok. destruct Hok as [Hc Hok]. apply smem_in in Hc.
    destruct (add_record_step t r cols s HJ (proj2 (Hcr t Hc))) as [s1 [E1 [HJ1 Hs1]]]. rewrite E1. cbn [bind].
    apply Hnext; auto; intros x Hx; apply Hneed; exact Hx.
  - (* BulkAddRecord *)
    apply andb_prop in Hok. destruct Hok as [Hok1 Hok]. apply andb_prop in Hok1. destruct Hok1 as [Hc Hlen]. apply smem_in in Hc.
    destruct (bulk_add_step t rs cols s HJ (proj2 (Hcr t Hc))) as [s1 [E1 [HJ1 Hs1]]].
    { apply Forall_forall. intros cv Hin. apply Nat.eqb_eq. exact (proj1 (forallb_forall _ _) Hlen cv Hin). }
    cbn [tds_apply]. rewrite E1. cbn [bind]. apply Hnext; auto; intros x Hx; apply Hneed; exact Hx.
  - (* UpdateRecord *)
    apply andb_prop in Hok. destruct Hok as [Hfresh Hok]. apply negb_true_iff in Hfresh.
    assert (Hnot : ~ In t created) by (intro Hin; apply smem_in in Hin; congruence).
    destruct (good2_step (UpdateRecord t r cols) s HJ) as [s1 [E1 [HJ1 Hs1]]].
    { split; [apply (Htab t eq_refl)|apply (Hrows t Hnot); apply Hrneed; left; reflexivity]. }
    rewrite E1. cbn [bind]. apply Hnext; auto; [exact (Hrest t eq_refl)|]. intros t0 r0 Hin. apply Hrneed. right. exact Hin.
  - (* AddColumn *)
    apply andb_prop in Hok. destruct Hok as [Hci Hok].
    destruct (good2_step (AddColumn t c ci) s HJ) as [s1 [E1 [HJ1 Hs1]]].
    { split; [apply (Htab t eq_refl)|apply ci_typed_b_sound; exact Hci]. }
    rewrite E1. cbn [bind]. apply Hnext; auto. exact (Hrest t eq_refl).
  - (* AddTable *)
    apply andb_prop in Hok. destruct Hok as [Hwf Hok].
    destruct (add_table_step t cols s HJ Hwf) as [s1 [E1 [HJ1 [Ht1 [T1 R1]]]]]. rewrite E1. cbn [bind].
    eapply (IH (t :: created) s0 s1); eauto.
    + intros u [<-|Hu]; [split; [exact Ht1|eapply add_table_typed; eassumption]|].
      destruct (Hcr u Hu) as [A B]. split; [auto|eapply typed_add_table; eassumption].
    + intros u Hu. rewrite R1; [apply Hrows; intro; apply Hu; right; assumption|].
      apply seqb_neq. intro; subst. apply Hu. left. reflexivity.
Qed.

Theorem const2_migration_total : forall acts s,
  const_ok2 [] acts = true -> J s ->
  (forall t, In t (const_needs [] acts) -> has_table t s) ->
  (forall t r, In (t, r) (const_row_needs acts) -> In r (rows_of t s)) ->
  exists acts' s', (fun _ : tds => Ok acts) s = Ok acts' /\ tds_apply_all acts' s = Ok s' /\ J s'.
Proof.
  intros acts s Hok HJ Hn Hr. destruct (const2_applies acts [] s s HJ) as [s' [E HJ']]; auto.
  - intros u [].
  - intros; apply incl_refl.
  - exists acts, s'. split; [reflexivity|split; assumption].
Qed.

(* ---------- lists mixing ModifyColumn with updates of existing records (migrations 3, 17) ---------- *)
Definition good4 (s : tds) (a : action) : Prop := modifies_known s a \/ good s a.

Lemma modify_data : forall t c ci s s', tds_apply (ModifyColumn t c ci) s = Ok s' -> t_data s' = t_data s.
Proof.
  intros t c ci s s' H. cbn [tds_apply schema_step data_step] in H.
  apply bind_ok in H. destruct H as [sch [_ H]]. cbn [bind] in H. injection H as <-. reflexivity.
Qed.

Lemma good_schema_has : forall a s s' t c, good s a -> tds_apply a s = Ok s' -> schema_has t c s = true -> schema_has t c s' = true.
Proof.
  intros a s s' t c Hg H Hs. destruct a; cbn [good] in Hg; try contradiction.
  - cbn [tds_apply] in H. apply bulk_update_schema in H. unfold schema_has in *. rewrite H. exact Hs.
  - cbn [tds_apply] in H. apply bulk_update_schema in H. unfold schema_has in *. rewrite H. exact Hs.
  - eapply add_column_schema_has; eassumption.
Qed.

Lemma good4_all : forall acts s, J s -> Forall (good4 s) acts -> exists s', tds_apply_all acts s = Ok s' /\ J s'.
Proof.
  induction acts as [|a acts IH]; intros s HJ HF; cbn [tds_apply_all]; [eauto|].
  inversion HF as [|? ? Ha Hrest]; subst. destruct Ha as [[t [c [ci [-> Hs]]]]|Hg].
  - destruct (modify_step t c ci s HJ Hs) as [s1 [E1 [HJ1 Hp]]]. rewrite E1. cbn [bind].
    apply IH; [exact HJ1|]. pose proof (modify_data _ _ _ _ _ E1) as Hd.
    eapply Forall_impl; [|exact Hrest]. cbn beta. intros b [[t' [c' [ci' [-> Hs']]]]|Hb].
    + left. exists t', c', ci'. split; [reflexivity|apply Hp; exact Hs'].
    + right. eapply good_shape; [|exact Hb]. split; [intros u; unfold rows_of; rewrite Hd; reflexivity|].
      intros u Hu. unfold has_table in *. rewrite Hd. exact Hu.
  - destruct (good_step a s HJ Hg) as [s1 [E1 [HJ1 Hsh]]]. rewrite E1. cbn [bind].
    apply IH; [exact HJ1|]. eapply Forall_impl; [|exact Hrest]. cbn beta. intros b [[t' [c' [ci' [-> Hs']]]]|Hb].
    + left. exists t', c', ci'. split; [reflexivity|eapply good_schema_has; eassumption].
    + right. eapply good_shape; eassumption.
Qed.

Lemma col_named_fields : forall s c, col_named s c = true ->
  exists p t tn cn, fld (zs "parentId") c = Ok p /\ hashable p = true /\ pd_get p (tables_by_id s) = Some t /\
                    fld (zs "tableId") t = Ok (VStr tn) /\ fld (zs "colId") c = Ok (VStr cn) /\ schema_has tn cn s = true.
Proof.
  intros s c H. unfold col_named in H. destruct (fld (zs "parentId") c) as [p|]; [|discriminate H].
  apply andb_prop in H. destruct H as [Hh H]. destruct (pd_get p (tables_by_id s)) as [t|] eqn:G; [|discriminate H].
  destruct (fld (zs "tableId") t) as [tn|] eqn:Et; [|discriminate H]. destruct tn; try discriminate H.
  destruct (fld (zs "colId") c) as [cn|] eqn:Ec; [|discriminate H]. destruct cn; try discriminate H.
  exists p, t, s0, s1. repeat split; auto.
Qed.

Lemma table_name_of_ok : forall s c p t tn, fld (zs "parentId") c = Ok p -> hashable p = true ->
  pd_get p (tables_by_id s) = Some t -> fld (zs "tableId") t = Ok (VStr tn) -> table_name_of (tables_by_id s) c = Ok tn.
Proof.
  intros s c p t tn Hp Hh Hg Ht. unfold table_name_of. rewrite Hp. cbn [bind]. unfold hash_key. rewrite Hh. cbn [bind].
  rewrite Hg, Ht. reflexivity.
Qed.

Lemma modify_cols_ok : forall s key cs, Forall (fun cv : record * val => col_named s (fst cv) = true) cs ->
  exists acts, modify_cols (tables_by_id s) key cs = Ok acts /\ Forall (modifies_known s) acts.
Proof.
  intros s key cs H. unfold modify_cols.
  match goal with |- exists acts, mapM ?f cs = _ /\ _ =>
    destruct (mapM_ok_post f (fun _ a => modifies_known s a) cs) as [acts [E Q]] end.
  - eapply Forall_impl; [|exact H]. cbn beta. intros cv Hc.
    destruct (col_named_fields s (fst cv) Hc) as [p [t [tn [cn [Hp [Hh [Hg [Ht [Hcn Hs]]]]]]]]].
    rewrite (table_name_of_ok s (fst cv) p t tn Hp Hh Hg Ht). cbn [bind]. rewrite Hcn. cbn [bind as_str].
    eexists. split; [reflexivity|]. eexists _, _, _. split; [reflexivity|exact Hs].
  - exists acts. split; [exact E|]. clear -Q. induction Q; constructor; auto.
Qed.

Lemma retype_ok : forall s old new,
  has_table T_COLUMNS s ->
  Forall (fun c => has_fld (zs "type") c = true /\
                   (fld_is (fun t => py_eq t (VStr old)) (zs "type") c = true -> col_named s c = true)) (recs T_COLUMNS s) ->
  exists acts, retype (tables_by_id s) (recs T_COLUMNS s) old new = Ok acts /\ Forall (good4 s) acts.
Proof.
  intros s old new Hc H. unfold retype.
  destruct (filterM_ok (fun c => bind (fld (zs "type") c) (fun t => Ok (py_eq t (VStr old)))) (recs T_COLUMNS s)) as [aff [E I]].
  { eapply Forall_impl; [|exact H]. cbn beta. intros c [Ht _]. unfold has_fld in Ht. destruct (fld (zs "type") c); [|discriminate Ht]. cbn. eauto. }
  (* the kept columns satisfy the test, hence are named *)
  assert (Hn : Forall (fun c => col_named s c = true /\ In c (recs T_COLUMNS s)) aff).
  { clear -E H. revert aff E. induction H as [|c l [Ht Hnamed] _ IH]; intros aff E; cbn [filterM] in E.
    - injection E as <-. constructor.
    - unfold has_fld in Ht. unfold fld_is in Hnamed. destruct (fld (zs "type") c) as [ty|]; [|discriminate Ht]. cbn [bind] in E.
      destruct (filterM _ l) as [r|] eqn:Er; cbn [bind] in E; [|discriminate E]. injection E as <-.
      specialize (IH r eq_refl).
      assert (IH' : Forall (fun c0 => col_named s c0 = true /\ In c0 (c :: l)) r).
      { eapply Forall_impl; [|exact IH]. cbn beta. intros x [A B]. split; [exact A|right; exact B]. }
      destruct (py_eq ty (VStr old)) eqn:Q; [constructor; [split; [apply Hnamed; reflexivity|left; reflexivity]|exact IH']|exact IH']. }
  rewrite E. cbn [bind]. destruct aff as [|a0 aff']; [exists []; split; [reflexivity|constructor]|].
  destruct (modify_cols_ok s (zs "type") (map (fun c => (c, VStr new)) (a0 :: aff'))) as [mods [-> Hm]].
  { apply Forall_forall. intros cv Hin. apply in_map_iff in Hin. destruct Hin as [c [<- Hcin]]. cbn [fst].
    rewrite Forall_forall in Hn. apply (Hn c Hcin). }
  cbn [bind]. eexists. split; [reflexivity|]. apply Forall_app. split.
  - eapply Forall_impl; [|exact Hm]. intros a Ha. left. exact Ha.
  - constructor; [|constructor]. right. split; [exact Hc|]. apply Forall_forall. intros r Hr.
    apply in_map_iff in Hr. destruct Hr as [c [<- Hcin]]. apply recs_ids_in_rows. rewrite Forall_forall in Hn. apply (Hn c Hcin).
Qed.

Lemma pre3_sound : forall re_sub s, pre3 s = true ->
  exists acts s', m3 re_sub s = Ok acts /\ tds_apply_all acts s = Ok s' /\ J s'.
Proof.
  intros re_sub s H. unfold pre3 in H. split_pre H. pose proof (J_b_sound _ H) as HJ.
  pose proof (has_table_b_sound _ _ P1) as Ht. pose proof (has_table_b_sound _ _ P0) as Hc.
  unfold m3. rewrite (table_records_ok _ _ Ht). cbn [bind]. cbv zeta. fold (tables_by_id s).
  rewrite (table_records_ok _ _ Hc). cbn [bind].
  assert (Hcol : forall c, In c (recs T_COLUMNS s) ->
            has_fld (zs "type") c = true /\ fld_is falsy_or_text (zs "formula") c = true /\
            (fld_is (fun t => py_eq t (VStr (zs "Derived"))) (zs "type") c = true -> col_named s c = true) /\
            (fld_is val_truthy (zs "formula") c = true -> col_named s c = true)).
  { intros c Hin. pose proof (proj1 (forallb_forall _ _) P c Hin) as Q. cbv beta in Q. split_pre Q.
    split; [exact Q|]. split; [exact P3|].
    split; intro E; rewrite E in P2; [exact P2|rewrite orb_true_r in P2; exact P2]. }
  match goal with |- exists acts s', bind ?A _ = _ /\ _ => assert (H1 : exists p1, A = Ok p1 /\ Forall (good4 s) p1) end.
  { apply retype_ok; [exact Hc|]. apply Forall_forall. intros c Hin. destruct (Hcol c Hin) as [A [_ [B _]]]. split; assumption. }
  destruct H1 as [part1 [-> Hp1]]. cbn [bind].
  match goal with |- exists acts s', bind ?A _ = _ /\ _ =>
    assert (H2 : exists ups, A = Ok ups /\ Forall (fun cv : record * val => col_named s (fst cv) = true /\ In (fst cv) (recs T_COLUMNS s)) (concat ups)) end.
  { assert (G : forall l, (forall c, In c l -> In c (recs T_COLUMNS s)) ->
              exists ups, mapM (fun c : record => bind (fld (zs "formula") c) (fun f =>
                                  if negb (val_truthy f) then Ok [] else
                                  match f with
                                  | VStr txt => Ok (if seqb (re_sub M3_PATTERN [] txt) txt then [] else [(c, VStr (re_sub M3_PATTERN [] txt))])
                                  | _ => Err TypeErr
                                  end)) l = Ok ups /\
                          Forall (fun cv : record * val => col_named s (fst cv) = true /\ In (fst cv) (recs T_COLUMNS s)) (concat ups)).
    { induction l as [|c l IH]; intros Hsub; cbn [mapM]; [exists []; split; [reflexivity|constructor]|].
      match goal with |- exists ups, bind ?HD _ = _ /\ _ =>
        assert (Hhd : exists y, HD = Ok y /\ Forall (fun cv : record * val => col_named s (fst cv) = true /\ In (fst cv) (recs T_COLUMNS s)) y) end.
      { destruct (Hcol c (Hsub c (or_introl eq_refl))) as [_ [Hf [_ Hnamed]]]. unfold fld_is in Hf, Hnamed.
        destruct (fld (zs "formula") c) as [f|]; [|discriminate Hf]. cbn [bind].
        destruct (val_truthy f) eqn:T; cbn [negb]; [|exists []; split; [reflexivity|constructor]].
        unfold falsy_or_text in Hf. rewrite T in Hf. cbn [negb orb] in Hf. destruct f; try discriminate Hf. cbv zeta.
        eexists. split; [reflexivity|]. destruct (seqb _ s0); constructor; [|constructor]. cbn [fst].
        split; [apply Hnamed; reflexivity|apply Hsub; left; reflexivity]. }
      destruct Hhd as [y [-> Hy]]. cbn [bind].
      destruct IH as [ups [-> Hu]]; [intros; apply Hsub; right; assumption|]. cbn [bind].
      eexists. split; [reflexivity|]. cbn [concat]. apply Forall_app. split; assumption. }
    apply G. auto. }
  destruct H2 as [ups [-> Hups]]. cbn [bind]. cbv zeta.
  destruct (concat ups) as [|u0 ups'] eqn:Eu.
  - destruct (good4_all part1 s HJ Hp1) as [s' [E HJ']]. eauto.
  - rewrite <- Eu in *. destruct (modify_cols_ok s (zs "formula") (concat ups)) as [mods [-> Hm]].
    { eapply Forall_impl; [|exact Hups]. cbn beta. intros cv [A _]. exact A. }
    cbn [bind].
    eexists. edestruct (good4_all) as [s' [E HJ']]; [exact HJ| |exists s'; split; [reflexivity|split; [exact E|exact HJ']]].
    apply Forall_app. split; [exact Hp1|]. apply Forall_app. split.
    + eapply Forall_impl; [|exact Hm]. intros a Ha. left. exact Ha.
    + constructor; [|constructor]. right. split; [exact Hc|]. apply Forall_forall. intros r Hr.
      apply in_map_iff in Hr. destruct Hr as [cv [<- Hcv]]. apply recs_ids_in_rows. rewrite Forall_forall in Hups. apply (Hups cv Hcv).
Qed.

Lemma pre17_sound : forall s, pre17 s = true -> exists acts s', m17 s = Ok acts /\ tds_apply_all acts s = Ok s' /\ J s'.
Proof.
  intros s H. unfold pre17 in H. split_pre H. pose proof (J_b_sound _ H) as HJ.
  pose proof (has_table_b_sound _ _ P1) as Ht. pose proof (has_table_b_sound _ _ P0) as Hc.
  unfold m17. rewrite (table_records_ok _ _ Ht). cbn [bind]. cbv zeta. fold (tables_by_id s).
  rewrite (table_records_ok _ _ Hc). cbn [bind].
  assert (Hcol : forall c, In c (recs T_COLUMNS s) ->
            has_fld (zs "type") c = true /\
            (fld_is (fun t => py_eq t (VStr (zs "Image"))) (zs "type") c = true ->
             col_named s c = true /\ has_fld (zs "isFormula") c = true /\
             (fld_is val_truthy (zs "isFormula") c = false -> col_data17 s c = true))).
  { intros c Hin. pose proof (proj1 (forallb_forall _ _) P c Hin) as Q. cbv beta in Q. apply andb_prop in Q. destruct Q as [Q1 Q2].
    split; [exact Q1|]. intro E. rewrite E in Q2. split_pre Q2. split; [exact Q2|]. split; [exact P3|].
    intro F. rewrite F in P2. exact P2. }
  (* the Image columns *)
  destruct (filterM_ok (fun c => bind (fld (zs "type") c) (fun t => Ok (py_eq t (VStr (zs "Image"))))) (recs T_COLUMNS s)) as [aff [E I]].
  { apply Forall_forall. intros c Hin. destruct (Hcol c Hin) as [A _]. unfold has_fld in A. destruct (fld (zs "type") c); [|discriminate A]. cbn. eauto. }
  assert (Himg : Forall (fun c => fld_is (fun t => py_eq t (VStr (zs "Image"))) (zs "type") c = true /\ In c (recs T_COLUMNS s)) aff).
  { clear -E. revert aff E. generalize (recs T_COLUMNS s). intros l.
    induction l as [|c l IH]; intros aff E; cbn [filterM] in E; [injection E as <-; constructor|].
    destruct (fld (zs "type") c) as [ty|] eqn:Ety; cbn [bind] in E; [|discriminate E].
    destruct (filterM _ l) as [r|] eqn:Er; cbn [bind] in E; [|discriminate E]. injection E as <-.
    specialize (IH r eq_refl).
    assert (IH' : Forall (fun c0 => fld_is (fun t => py_eq t (VStr (zs "Image"))) (zs "type") c0 = true /\ In c0 (c :: l)) r).
    { eapply Forall_impl; [|exact IH]. cbn beta. intros x [A B]. split; [exact A|right; exact B]. }
    destruct (py_eq ty (VStr (zs "Image"))) eqn:Q; [|exact IH'].
    constructor; [|exact IH']. split; [unfold fld_is; rewrite Ety; exact Q|left; reflexivity]. }
  rewrite E. cbn [bind]. destruct aff as [|a0 aff']; [exists [], s; split; [reflexivity|split; [reflexivity|exact HJ]]|].
  assert (Hnamed : Forall (fun c => col_named s c = true) (a0 :: aff')).
  { eapply Forall_impl; [|exact Himg]. cbn beta. intros c [A B]. apply (Hcol c B). exact A. }
  destruct (modify_cols_ok s (zs "type") (map (fun c => (c, VStr (zs "Attachments"))) (a0 :: aff'))) as [mods [-> Hm]].
  { apply Forall_forall. intros cv Hin. apply in_map_iff in Hin. destruct Hin as [c [<- Hcin]]. cbn [fst].
    rewrite Forall_forall in Hnamed. apply (Hnamed c Hcin). }
  cbn [bind].
  match goal with |- exists acts s', bind ?A _ = _ /\ _ => assert (Hd : exists datas, A = Ok datas /\ Forall (good s) (concat datas)) end.
  { match goal with |- exists datas, mapM ?f _ = _ /\ _ =>
      destruct (mapM_ok_post f (fun _ l => Forall (good s) l) (a0 :: aff')) as [datas [Ed Q]] end.
    - eapply Forall_impl; [|exact Himg]. cbn beta. intros c [A B]. destruct (Hcol c B) as [_ Hx]. destruct (Hx A) as [Hn [Hisf Hdata]].
      unfold has_fld in Hisf. destruct (fld (zs "isFormula") c) as [isf|] eqn:Ei; [|discriminate Hisf]. cbn [bind].
      destruct (val_truthy isf) eqn:T; [exists []; split; [reflexivity|constructor]|].
      assert (Hd17 : col_data17 s c = true) by (apply Hdata; unfold fld_is; rewrite Ei; exact T).
      destruct (col_named_fields s c Hn) as [p [t [tn [cn [Hp [Hh [Hg [Htn [Hcn _]]]]]]]]].
      rewrite (table_name_of_ok s c p t tn Hp Hh Hg Htn). cbn [bind].
      unfold col_data17 in Hd17. rewrite Hp, Hg, Htn, Hcn in Hd17.
      destruct (lookup tn (t_data s)) as [td|] eqn:Etd; [|discriminate Hd17]. rewrite Hcn. cbn [bind hash_key hashable].
      unfold has in Hd17. destruct (lookup cn (snd td)) as [vals|]; [|discriminate Hd17].
      eexists. split; [reflexivity|]. constructor; [|constructor]. split; [exists td; exact Etd|].
      unfold rows_of. rewrite Etd. apply Forall_forall. auto.
    - exists datas. split; [exact Ed|]. clear -Q. induction Q; cbn [concat]; [constructor|apply Forall_app; split; assumption]. }
  destruct Hd as [datas [-> Hdatas]]. cbn [bind].
  eexists. edestruct good4_all as [s' [E4 HJ']]; [exact HJ| |exists s'; split; [reflexivity|split; [exact E4|exact HJ']]].
  apply Forall_app. split; [eapply Forall_impl; [|exact Hm]; intros a Ha; left; exact Ha|].
  apply Forall_app. split.
  - constructor; [|constructor]. right. split; [exact Hc|]. apply Forall_forall. intros r Hr.
    apply in_map_iff in Hr. destruct Hr as [c [<- Hcin]]. apply recs_ids_in_rows. rewrite Forall_forall in Himg. apply (Himg c Hcin).
  - eapply Forall_impl; [|exact Hdatas]. intros a Ha. right. exact Ha.
Qed.
