(* Proofs about the model of identifiers.py (Model/Ident.v), for every string, every avoid set and every
   instance of the library oracles that behaves on ASCII as stated in the Section hypotheses below. *)
From Coq Require Import ZArith List Bool Lia DecimalZ DecimalPos FinFun ZifyBool.
Import ListNotations.
Require Import Grist.Model.Ident.
Open Scope Z_scope.

(* ---- strings, membership ---------------------------------------------------------------------- *)
Lemma str_eqb_eq : forall a b, str_eqb a b = true <-> a = b.
Proof.
  induction a as [|x a IH]; destruct b as [|y b]; cbn [str_eqb]; split; intros H;
    try reflexivity; try discriminate.
  - apply andb_true_iff in H. destruct H as [H1 H2]. apply Z.eqb_eq in H1. apply IH in H2. congruence.
  - inversion H; subst. rewrite Z.eqb_refl. cbn. apply IH. reflexivity.
Qed.

Lemma mem_In : forall s l, mem s l = true <-> In s l.
Proof.
  intros s l. unfold mem. rewrite existsb_exists. split.
  - intros [x [Hin He]]. apply str_eqb_eq in He. subst. exact Hin.
  - intros Hin. exists s. split; [exact Hin|]. apply str_eqb_eq. reflexivity.
Qed.

Lemma mem_false : forall s l, mem s l = false <-> ~ In s l.
Proof.
  intros s l. rewrite <- mem_In. destruct (mem s l); split; intros H.
  - discriminate H.
  - exfalso. apply H. reflexivity.
  - intros H'. discriminate H'.
  - reflexivity.
Qed.

(* ---- character classes ------------------------------------------------------------------------ *)
Ltac cls := unfold is_ident_char, is_letter, is_lower, is_upper, is_digit, is_ascii in *.

Lemma letter_ident : forall c, is_letter c = true -> is_ident_char c = true.
Proof. intros c. cls. lia. Qed.
Lemma upper_letter : forall c, is_upper c = true -> is_letter c = true.
Proof. intros c. cls. lia. Qed.
Lemma digit_ident : forall c, is_digit c = true -> is_ident_char c = true.
Proof. intros c. cls. lia. Qed.
Lemma ident_ascii : forall c, is_ident_char c = true -> is_ascii c = true.
Proof. intros c. cls. lia. Qed.
Lemma ascii_upper_letter : forall c, is_letter c = true -> is_upper (ascii_upper c) = true.
Proof. intros c. unfold ascii_upper. destruct (is_lower c) eqn:E; cls; lia. Qed.
Lemma ascii_upper_upper : forall c, is_upper c = true -> ascii_upper c = c.
Proof. intros c H. unfold ascii_upper. destruct (is_lower c) eqn:E; [cls; lia|reflexivity]. Qed.
Lemma ascii_upper_ascii : forall c, is_ascii c = true -> is_ascii (ascii_upper c) = true.
Proof. intros c. unfold ascii_upper. destruct (is_lower c) eqn:E; cls; lia. Qed.
Lemma ascii_upper_idem : forall c, ascii_upper (ascii_upper c) = ascii_upper c.
Proof.
  intros c. unfold ascii_upper. destruct (is_lower c) eqn:E; [|rewrite E; reflexivity].
  destruct (is_lower (c - 32)) eqn:E2; [cls; lia|reflexivity].
Qed.
Lemma ascii_upper_ident : forall c, is_ident_char c = true -> is_ident_char (ascii_upper c) = true.
Proof. intros c. unfold ascii_upper. destruct (is_lower c) eqn:E; cls; lia. Qed.

Lemma forallb_imp : forall (p q : Z -> bool) l,
  (forall c, p c = true -> q c = true) -> forallb p l = true -> forallb q l = true.
Proof.
  intros p q l H. rewrite !forallb_forall. intros Hl x Hx. apply H. apply Hl. exact Hx.
Qed.

Lemma valid_ident_chars : forall s, valid_identb s = true -> forallb is_ident_char s = true.
Proof.
  intros [|c t] H; [discriminate|]. cbn in *. apply andb_true_iff in H. destruct H as [H1 H2].
  rewrite (letter_ident _ H1). exact H2.
Qed.
Lemma valid_ident_ascii : forall s, valid_identb s = true -> forallb is_ascii s = true.
Proof. intros s H. eapply forallb_imp; [exact ident_ascii|]. apply valid_ident_chars. exact H. Qed.
Lemma valid_table_valid : forall s, valid_table_identb s = true -> valid_identb s = true.
Proof.
  intros [|c t] H; [discriminate|]. cbn in *. apply andb_true_iff in H. destruct H as [H1 H2].
  rewrite (upper_letter _ H1). exact H2.
Qed.
Lemma valid_app : forall a b, valid_identb a = true -> forallb is_ident_char b = true ->
  valid_identb (a ++ b) = true.
Proof.
  intros [|c t] b Ha Hb; [discriminate|]. cbn in *. apply andb_true_iff in Ha. destruct Ha as [H1 H2].
  rewrite H1, forallb_app, H2, Hb. reflexivity.
Qed.
Lemma valid_table_app : forall a b, valid_table_identb a = true -> forallb is_ident_char b = true ->
  valid_table_identb (a ++ b) = true.
Proof.
  intros [|c t] b Ha Hb; [discriminate|]. cbn in *. apply andb_true_iff in Ha. destruct Ha as [H1 H2].
  rewrite H1, forallb_app, H2, Hb. reflexivity.
Qed.

(* ---- "%d" ---------------------------------------------------------------------------------------- *)
Lemma uint_codes_inj : forall u v, uint_codes u = uint_codes v -> u = v.
Proof.
  induction u as [|u IH|u IH|u IH|u IH|u IH|u IH|u IH|u IH|u IH|u IH]; destruct v; cbn [uint_codes];
    intros H; try discriminate H; try reflexivity; inversion H as [H']; f_equal; apply IH; exact H'.
Qed.
Lemma uint_codes_digits : forall u, forallb is_digit (uint_codes u) = true.
Proof. induction u; cbn [uint_codes forallb]; try reflexivity; rewrite IHu; reflexivity. Qed.
Lemma uint_codes_head : forall u t, uint_codes u <> 45 :: t.
Proof. destruct u; cbn [uint_codes]; intros t H; discriminate H. Qed.

Lemma dec_inj : forall a b, dec a = dec b -> a = b.
Proof.
  intros a b H. rewrite <- (DecimalZ.of_to a), <- (DecimalZ.of_to b). f_equal.
  unfold dec in H. destruct (Z.to_int a) as [u|u], (Z.to_int b) as [v|v].
  - f_equal. apply uint_codes_inj. exact H.
  - exfalso. eapply uint_codes_head. exact H.
  - exfalso. eapply uint_codes_head. symmetry. exact H.
  - f_equal. apply uint_codes_inj. inversion H. reflexivity.
Qed.

Lemma dec_pos_digits : forall k, 0 < k -> forallb is_digit (dec k) = true /\ dec k <> [].
Proof.
  intros k Hk. destruct k as [|p|p]; try lia. unfold dec. cbn [Z.to_int]. split.
  - apply uint_codes_digits.
  - pose proof (Unsigned.to_uint_nonnil p) as Hn. destruct (Pos.to_uint p); cbn [uint_codes];
      try discriminate. congruence.
Qed.

Definition plain (c : Z) : bool := is_ascii c && negb (is_lower c).
Lemma dec_plain : forall k, forallb plain (dec k) = true.
Proof.
  intros k. assert (H : forall u, forallb plain (uint_codes u) = true).
  { intros u. eapply forallb_imp; [|apply uint_codes_digits]. intros c. unfold plain. cls. lia. }
  unfold dec. destruct (Z.to_int k); [apply H|]. cbn [forallb]. rewrite H. reflexivity.
Qed.

Lemma last_is_digit_app : forall a b, b <> [] -> forallb is_digit b = true -> last_is_digit (a ++ b) = true.
Proof.
  intros a b Hb Hd. unfold last_is_digit. rewrite rev_app_distr.
  destruct (rev b) as [|d r] eqn:E.
  - exfalso. apply Hb. rewrite <- (rev_involutive b), E. reflexivity.
  - cbn. rewrite forallb_forall in Hd. apply Hd. apply in_rev. rewrite E. left. reflexivity.
Qed.

(* ---- the letter sequence A..Z, AA.. --------------------------------------------------------------- *)
Fixpoint lval (r : str) : Z :=
  match r with
  | [] => 0
  | c :: t => (c - 64) + 26 * lval t
  end.
Fixpoint iter_next (i : nat) (r : str) : str :=
  match i with
  | O => r
  | S i' => iter_next i' (next_letters_rev r)
  end.

Lemma next_upper : forall r, forallb is_upper r = true -> forallb is_upper (next_letters_rev r) = true.
Proof.
  induction r as [|c t IH]; intros H; [reflexivity|].
  cbn [forallb] in H. apply andb_true_iff in H. destruct H as [H1 H2].
  cbn [next_letters_rev]. destruct (c <? 90) eqn:E; cbn [forallb].
  - rewrite H2. cls. lia.
  - rewrite (IH H2). reflexivity.
Qed.
Lemma next_nonempty : forall r, next_letters_rev r <> [].
Proof. destruct r as [|c t]; cbn; [discriminate|]. destruct (c <? 90); discriminate. Qed.
Lemma next_lval : forall r, forallb is_upper r = true -> lval (next_letters_rev r) = lval r + 1.
Proof.
  induction r as [|c t IH]; intros H; [reflexivity|].
  cbn [forallb] in H. apply andb_true_iff in H. destruct H as [H1 H2].
  cbn [next_letters_rev]. destruct (c <? 90) eqn:E; cbn [lval].
  - lia.
  - rewrite (IH H2). cls. lia.
Qed.
Lemma iter_upper : forall i r, forallb is_upper r = true -> forallb is_upper (iter_next i r) = true.
Proof. induction i; intros r H; cbn; [exact H|]. apply IHi. apply next_upper. exact H. Qed.
Lemma iter_lval : forall i r, forallb is_upper r = true -> lval (iter_next i r) = lval r + Z.of_nat i.
Proof.
  induction i; intros r H; cbn [iter_next]; [lia|].
  rewrite IHi by (apply next_upper; exact H). rewrite next_lval by exact H. lia.
Qed.
Lemma iter_inj : forall r, forallb is_upper r = true ->
  Injective (fun i => rev (iter_next i r)).
Proof.
  intros r H i j E. assert (E' : iter_next i r = iter_next j r).
  { rewrite <- (rev_involutive (iter_next i r)), E, rev_involutive. reflexivity. }
  apply (f_equal lval) in E'. rewrite !iter_lval in E' by exact H. lia.
Qed.

(* ---- pigeonhole ----------------------------------------------------------------------------------- *)
Lemma pigeonhole : forall (f : nat -> str) (n : nat) (avoid : list str),
  Injective f -> (forall i, (i < n)%nat -> mem (f i) avoid = true) -> (n <= length avoid)%nat.
Proof.
  intros f n avoid Hinj Hall.
  rewrite <- (seq_length n 0), <- (map_length f).
  apply NoDup_incl_length.
  - apply Injective_map_NoDup; [exact Hinj|apply seq_NoDup].
  - intros x Hx. apply in_map_iff in Hx. destruct Hx as [i [<- Hi]]. apply in_seq in Hi.
    apply mem_In. apply Hall. lia.
Qed.
